import OnlVerif.Lemmas.REDKRun
/-!
# Generator → REDPort → sink on the kernel model: the initial state, the abstraction function, every reachable state
-/

set_option linter.unusedSimpArgs false

namespace REDK
open REDOnK QEntry

variable {c : Cfg ℚ}
variable {s : KS} {a : A}

/-- the configuration of the initial state -/
def a0 (gaps : List ℚ) (sizes : List Nat) (us : List ℚ) : A :=
  { port := .init ⟨0, URGENT, 0, 1⟩, src := .init ⟨0, URGENT, 1, 3⟩ gaps sizes us, pend := none, items := [], bytes := 0,
    recv := 0, busy := false, bsz := 0, dropped := 0, avg := 0, len := 0, scnt := 0, sbytes := 0, accIds := [] }

/-- the initial state written out -/
def initFlat (gaps : List ℚ) (sizes : List Nat) (us : List ℚ) : KS :=
  { now := 0,
    agenda := [{ time := 0, prio := URGENT, eid := 1, ev := 3 }, { time := 0, prio := URGENT, eid := 0, ev := 1 }],
    eid := 2,
    events :=
      #[{ kind := Kind.proc, cbs := some [], out := none, label := 1 },
        { kind := Kind.init 0, cbs := some [Cb.resume 0], out := some (Outcome.ok Val.none) },
        { kind := Kind.proc, cbs := some [], out := none, label := 2 },
        { kind := Kind.init 2, cbs := some [Cb.resume 2], out := some (Outcome.ok Val.none) }],
    procs := [(2, { st := RSt.genStart gaps sizes us, target := some 3 }), (0, { st := RSt.portStart, target := some 1 })],
    shared := [(0, Val.int 0), (1, Val.int 0), (2, Val.int 0), (3, Val.int 0), (4, Val.int 0), (5, TimeCell.enc (0 : ℚ)),
               (6, Val.int 0), (7, Val.int 0), (8, Val.int 0)],
    resources := #[{ kind := ResKind.store, capacity := none }], nlabel := 2 }

theorem initState_eq (gaps : List ℚ) (sizes : List Nat) (us : List ℚ) :
    (initState gaps sizes us : KS) = initFlat gaps sizes us := by
  simp [-Array.getD_eq_getD_getElem?, initState, doCall, KState.newLabelled, KState.newEv, KState.setProc, KState.schedule,
    zero_eq', initFlat, cByteSize, cReceived, cBusy, cBusySize, cDropped, cAvg, cLen, cSinkCnt, cSinkBytes]

theorem inv_init (gaps : List ℚ) (sizes : List Nat) (us : List ℚ) (hg : GapsOK gaps) (hd : 0 ≤ c.initialDelay)
    (hu : gaps.length ≤ us.length) :
    Inv c sizes gaps (initState gaps sizes us) (a0 gaps sizes us) := by
  rw [initState_eq]
  refine ⟨⟨⟨?_, ?_, ?_⟩, ?_, ?_, ?_, ?_, ?_, ?_, ?_, ?_, ?_, ?_, ?_, ?_, ?_, ?_, ?_⟩,
    ⟨?_, ?_, ?_, ?_, ?_, ?_, ?_, ?_, ?_, ?_, ?_⟩⟩
  · intro q hq; simp [initFlat] at hq; rcases hq with rfl | rfl <;> simp [initFlat]
  · intro q hq; simp [initFlat] at hq; rcases hq with rfl | rfl <;> simp [initFlat]
  · simp [initFlat]
  · simp only [initFlat, a0, A.entries, PPhase.entries, SPhase.entries, Option.toList, List.append_nil, List.singleton_append]
    exact List.Perm.swap _ _ _
  · simp [initFlat]
  · simp [initFlat, KState.res, a0, PPhase.getQ, storeRec]
  · refine ⟨rfl, ?_, ?_⟩
    · simp [EvIs, KState.ev, initFlat]
    · simp [proc?_eq, plookup, initFlat]
  · refine ⟨rfl, ?_, ?_, ?_⟩
    · simp [EvIs, KState.ev, initFlat]
    · simp [proc?_eq, plookup, initFlat]
    · simp [EvIs, KState.ev, initFlat]
  · intro u hu; cases hu
  · simp [initFlat, lookup, a0]
  · simp [initFlat, lookup, a0]
  · simp [initFlat, lookup, a0]
  · simp [initFlat, lookup, a0]
  · simp [initFlat, lookup, a0]
  · simp [initFlat, lookup, a0]
  · simp [initFlat, lookup, a0]
  · simp [initFlat, lookup, a0]
  · simp [initFlat, lookup, a0]
  · exact ⟨rfl, rfl, rfl, rfl⟩
  · exact ⟨rfl, rfl, rfl, hg, hd, rfl⟩
  · intro u hu; cases hu
  · intro _ h; exact absurd rfl h
  · intro x hx
    simp [a0, A.entries, PPhase.entries, SPhase.entries] at hx
    rcases hx with rfl | rfl <;> simp [initFlat]
  · simp [a0, PPhase.isW]
  · intro id hid; simp [a0, PPhase.inHand] at hid
  · simp [initFlat, viewsOf, a0]
  · refine ⟨?_, ?_, ?_, ?_, ?_⟩
    · simp [initFlat, viewsOf, a0, SPhase.pred, Gen.run]
    · intro n hn; simp [a0, SPhase.sent] at hn; simp [a0, hn]
    · intro n l hn hl; simp [a0, SPhase.sent, SPhase.sizesLeft] at hn hl; subst hn hl; rfl
    · simpa [a0, SPhase.todo] using hu
    · simp [initFlat, viewsOf, a0]
  · refine ⟨?_, ?_, ?_⟩ <;> simp [initFlat, viewsOf, a0]
  · rfl

/-! ## the abstraction function -/

theorem find?_unique {α} (l : List α) (p : α → Bool) (x : α) (hx : x ∈ l) (hp : p x = true)
    (hu : ∀ y ∈ l, p y = true → y = x) : l.find? p = some x := by
  cases h : l.find? p with
  | none => exact absurd hp (by simpa using List.find?_eq_none.mp h x hx)
  | some y => rw [hu y (List.mem_of_find?_eq_some h) (List.find?_some h)]

theorem cellInt_of {k : Nat} {n : Int} (h : lookup s.shared k = .int n) : cellInt s k = n := by
  unfold cellInt
  have : ((s.shared.find? (·.1 == k)).map (·.2)).getD Val.none = .int n := h
  rw [this]

theorem cellSc_of {k : Nat} {x : ℚ} (h : lookup s.shared k = TimeCell.enc x) : cellSc s k = x := by
  unfold cellSc
  have : ((s.shared.find? (·.1 == k)).map (·.2)).getD Val.none = TimeCell.enc x := h
  rw [this, dec_enc]; rfl

/-- the port's timeout entry is the only agenda entry of its event -/
theorem dueOf_eq (hk : KInv s a) {t : EvId} {id : Int} {q : QEntry ℚ} (hport : a.port = .T t id q) :
    dueOf s t = q.time := by
  have hpk := hk.port
  rw [hport] at hpk
  obtain ⟨hqe, ⟨_, hcbs, _⟩, _⟩ := hpk
  have hq : q ∈ s.agenda := hk.ag.symm.subset (mem_port (by simp [hport, PPhase.entries]))
  have : s.agenda.find? (·.ev == t) = some q := by
    refine find?_unique _ _ q hq (by simp [hqe]) ?_
    intro y hy hyt
    have hyt' : y.ev = t := by simpa using hyt
    have hy' := hk.ag.subset hy
    simp only [A.entries, hport, PPhase.entries, List.mem_append, List.mem_singleton] at hy'
    rcases hy' with rfl | hy' | hy'
    · rfl
    · exfalso
      have hsk := hk.src
      cases hsrc : a.src with
      | done => simp [hsrc, SPhase.entries] at hy'
      | init q0 g z u =>
        simp only [hsrc, SPhase.entries, List.mem_singleton] at hy'; subst hy'
        rw [hsrc] at hsk
        have := hsk.2.1.2.1
        rw [← hsk.1, hyt', hcbs] at this; cases this
      | delay q0 g z u =>
        simp only [hsrc, SPhase.entries, List.mem_singleton] at hy'; subst hy'
        rw [hsrc] at hsk
        have := hsk.1.2.1
        rw [hyt', hcbs] at this; cases this
      | wait n z g zs u q0 =>
        simp only [hsrc, SPhase.entries, List.mem_singleton] at hy'; subst hy'
        rw [hsrc] at hsk
        have := hsk.1.2.1
        rw [hyt', hcbs] at this; cases this
      | ending q0 =>
        simp only [hsrc, SPhase.entries, List.mem_singleton] at hy'; subst hy'
        rw [hsrc] at hsk
        have := hsk.2.2.1
        rw [← hsk.1, hyt', hcbs] at this; cases this
    · exfalso
      cases hpe : a.pend with
      | none => simp [hpe] at hy'
      | some u =>
        simp [hpe] at hy'; subst hy'
        have := (hk.pend y hpe).2.1
        rw [hyt', hcbs] at this; cases this
  unfold dueOf
  rw [this]; rfl

theorem absDev_eq (hk : KInv s a) : absDev s =
    { byteSize := a.bytes, received := a.recv, dropped := a.dropped, busy := a.busy, busySize := a.bsz, avg := a.avg } := by
  unfold absDev
  simp only [cByteSize, cReceived, cBusy, cBusySize, cDropped, cAvg]
  rw [cellInt_of hk.c0, cellInt_of hk.c1, cellInt_of hk.c2, cellInt_of hk.c3, cellInt_of hk.c4, cellSc_of hk.c5]
  cases a.busy <;> simp

/-- **the abstraction function reads the configuration's LTS state off the kernel state** -/
theorem absRED_eq (sizes0 : List Nat) (hk : KInv s a) :
    absRED c sizes0 s = toF c sizes0 a s.now (usV (viewsOf s.trace)) := by
  have hdev := absDev_eq hk
  have hitems : (s.res storeId).items = a.items := by
    show (s.res 0).items = a.items; rw [hk.res]; rfl
  have hus : usOf s.trace = usV (viewsOf s.trace) := rfl
  have hpk := hk.port
  unfold absRED toF
  rw [hus]
  cases hport : a.port with
  | init q =>
    rw [hport] at hpk
    simp [portProc, hpk.2.2, hdev, hitems, pk]
  | W g =>
    rw [hport] at hpk
    simp [portProc, hpk.2, hpk.1.2.2, hdev, hitems, pk]
  | H g id q =>
    rw [hport] at hpk
    simp [portProc, hpk.2.2, hpk.2.1.2.2, hdev, hitems, pk]
  | T t id q =>
    rw [hport] at hpk
    simp [portProc, hpk.2.2, hdev, hitems, dueOf_eq hk hport, pk]

theorem absRED_dev (sizes0 : List Nat) (s : KS) : (absRED c sizes0 s).dev = absDev s := by
  unfold absRED
  split
  · split <;> rfl
  · rfl
  · rfl

/-- what is left of the draws, read off the configuration -/
theorem drawsLeft_eq (hk : KInv s a) : drawsLeft s = a.src.todo.2 ∨ (a.src.sent = none ∧ a.src.todo.2 = []) := by
  have hs := hk.src
  cases hsrc : a.src with
  | init q g z u => rw [hsrc] at hs; left; simp [drawsLeft, genProc, hs.2.2.1, SPhase.todo]
  | delay q g z u => rw [hsrc] at hs; left; simp [drawsLeft, genProc, hs.2.1, SPhase.todo]
  | wait n z g zs u q => rw [hsrc] at hs; left; simp [drawsLeft, genProc, hs.2.1, SPhase.todo]
  | ending q => right; simp [SPhase.sent, SPhase.todo]
  | done => right; simp [SPhase.sent, SPhase.todo]

/-! ## every reachable state -/

theorem toF_a0 (sizes0 : List Nat) (gaps : List ℚ) (sizes : List Nat) (us : List ℚ) (ulog : List ℚ) :
    toF c sizes0 (a0 gaps sizes us) 0 ulog = Fifo.init ({ avg := 0 } : PortSt ℚ) 0 := rfl

/-- **every state reachable by kernel steps is a sound configuration, and the run so far is an admissible run of the
RED LTS** from its initial state to the configuration's LTS state, with the same arrivals and departures -/
theorem reach_inv (fuel : Nat) {gaps : List ℚ} {sizes : List Nat} {us : List ℚ} (hg : GapsOK gaps)
    (hd : 0 ≤ c.initialDelay) (hu : gaps.length ≤ us.length) {s : KS}
    (h : KReach (body c sizes) (fuel + 1) (initState gaps sizes us) s) :
    ∃ a acts, Inv c sizes gaps s a ∧
      Fifo.runActs (Port.dev (cfg c)) (Fifo.init ({ avg := 0 } : PortSt ℚ) 0) acts =
        .ok (toF c sizes a s.now (usV (viewsOf s.trace)), a.accIds.map Int.toNat, (outsOf s.trace).map (·.1.toNat)) := by
  induction h with
  | init =>
    refine ⟨a0 gaps sizes us, [], inv_init gaps sizes us hg hd hu, ?_⟩
    rw [initState_eq]
    rfl
  | @step s s' _ hs ih =>
    obtain ⟨a, acts, hi, hrun⟩ := ih
    cases hp : popMin s.agenda with
    | none => simp [step, hp, StepResult.state?] at hs
    | some qr =>
      obtain ⟨q, rest⟩ := qr
      obtain ⟨s'', a', new, h1, h2, -, h4, -, -, acts', insI, h5, h6⟩ := inv_step fuel hi hp
      rw [h1] at hs
      simp only [StepResult.state?, Option.some.injEq] at hs
      subst hs
      refine ⟨a', acts ++ acts', h2, ?_⟩
      have := PortK.runActs_append _ _ _ _ _ _ _ _ _ _ hrun h6
      rw [this, h5]
      have : outsOf s''.trace = outsOf s.trace ++ outsV new := by
        show outsV (viewsOf s''.trace) = outsV (viewsOf s.trace) ++ outsV new
        rw [h4]; simp
      rw [this]
      simp

end REDK
