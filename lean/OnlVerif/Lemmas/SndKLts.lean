import OnlVerif.Lemmas.SndKStepTm2
/-!
# The TCP sender on the kernel model: the LTS side of the kernel steps

What the functions of the sender LTS (`Tcp/CC.lean`) do in the situations the kernel steps produce, in the explicit forms
the fragments of `SndKFrag.lean` build.
-/

set_option linter.unusedSimpArgs false

namespace SndK
open SenderOnK TcpSender TcpScalar

/-- `timeout_callback` changes the window, the stamp of the segment, the RTO and the timer of the segment only -/
theorem sFire_fields (S : Sender ℚ) (seq : Nat) :
    (sFire S seq).kind = S.kind ∧ (sFire S seq).mss = S.mss ∧ (sFire S seq).size = S.size ∧
    (sFire S seq).next_seq = S.next_seq ∧ (sFire S seq).send_buffer = S.send_buffer ∧ (sFire S seq).last_ack = S.last_ack ∧
    (sFire S seq).dupack = S.dupack ∧ (sFire S seq).tokens = S.tokens ∧ (sFire S seq).proc = S.proc ∧
    (sFire S seq).now = S.now ∧ (sFire S seq).est = TCPPacketGenerator.timeout_backoff S.est ∧
    (sFire S seq).timers = AL.set seq (Sender.arm S.now (TCPPacketGenerator.timeout_backoff S.est).rto) S.timers := by
  obtain ⟨f1, f2, f3, f4, f5, f6, f7, f8, f9, f10, f11, f12, f13⟩ :=
    resend_fields ({ S with cc := CC.timerExpired S.kind S.cc } : Sender ℚ) seq
  unfold sFire
  simp only
  refine ⟨f1, f4, f5, f6, f7, f8, f9, f11, f12, f13, by rw [f3], ?_⟩
  rw [f13, f3, f10]

/-- **a due timer fires**: the LTS accepts `fire seq` and computes `sFire` / `oFire` -/
theorem fireStep_eq (S : Sender ℚ) (seq : Nat) (e : ℚ) (hg : AL.get? seq S.timers = some ⟨e, e, true⟩) (he : e = S.now) :
    S.fireStep seq = .ok (sFire S seq) (oFire S seq) := by
  unfold Sender.fireStep
  rw [hg]
  have hd : (!(true : Bool) || !Num.eqb e S.now || decide (S.now < e)) = false := by
    rw [(eqb_iff _ _).mpr he, he]
    simp
  simp only [hd, Bool.false_eq_true, if_false]
  have hg2 : AL.get? seq ({ (({ S with cc := CC.timerExpired S.kind S.cc } : Sender ℚ).resend seq).1 with
      est := TCPPacketGenerator.timeout_backoff (({ S with cc := CC.timerExpired S.kind S.cc } : Sender ℚ).resend seq).1.est }
      : Sender ℚ).timers = some ⟨e, e, true⟩ := by
    show AL.get? seq (Sender.resend _ seq).1.timers = _
    rw [resend_timers]; exact hg
  rw [hg2]
  rfl

end SndK
