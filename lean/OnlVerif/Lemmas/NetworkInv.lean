import OnlVerif.Lemmas.NetworkCount
/-!
# The invariant of a network of accounts, and its preservation by every legal global step
-/

namespace Net
variable {ι π κ : Type} [DecidableEq ι] [DecidableEq π] [DecidableEq κ]

/-- the account equation of node `a`, packet by packet -/
def Bal (g : GState ι π) : Prop :=
  ∀ a q, g.rc (.inn a) q + g.rc (.made a) q = g.rc (.out a) q + g.rc (.dropped a) q + g.rc (.held a) q

structure GInv (n : Wiring ι π κ) (g : GState ι π) : Prop where
  /-- every introduced packet is in exactly one place, once; nothing else is anywhere -/
  exact : Exact g.rc (· ∈ g.introduced)
  bal : Bal g
  /-- the keys of the introduced packets are pairwise different -/
  keys : (usedKeys n g).Nodup
  /-- every copy is linked to an introduced original of which it is a copy -/
  link : ∀ cp ∈ g.copies, cp.2 ∈ g.introduced ∧ n.isCopy cp.2 cp.1 = true
  /-- only splitters make packets, and what they make are the recorded copies -/
  made : ∀ a q, q ∈ g.recs (.made a) → n.splitter a = true ∧ ∃ o, (q, o) ∈ g.copies
  /-- whatever occurs in any list (handed in, made, forwarded, dropped, held, delivered) is an introduced record -/
  known : ∀ s q, q ∈ g.recs s → q ∈ g.introduced

/-- where a handed-over packet lands -/
def landing (d : Dest ι) (o : Outcome) : Slot ι :=
  match d, o with
  | .node b, .acc => .held b
  | .node b, .ref _ => .dropped b
  | .sink k, _ => .sink k

theorem landing_place (d : Dest ι) (o : Outcome) : (landing d o).isPlace = true := by
  cases d <;> cases o <;> rfl

theorem ind_not_place {s s' : Slot ι} (P : Prop) [Decidable P] (hs : s.isPlace = true) (hs' : s'.isPlace = false) :
    ind (s = s' ∧ P) = 0 := by
  apply ind_false
  rintro ⟨rfl, _⟩
  rw [hs] at hs'; cases hs'

theorem rc_arrive_place (g : GState ι π) (d : Dest ι) (p q : π) (o : Outcome) (s : Slot ι) (hs : s.isPlace = true) :
    (g.arrive d p o).rc s q = g.rc s q + ind (s = landing d o ∧ q = p) := by
  cases d <;> cases o <;> simp only [GState.arrive, rc_app, landing] <;>
    first | rfl | (rw [ind_not_place _ hs rfl]; rfl)

theorem bal_arrive (g : GState ι π) (d : Dest ι) (p : π) (o : Outcome) (h : Bal g) : Bal (g.arrive d p o) := by
  intro a q
  have := h a q
  cases d <;> cases o <;>
    simp only [GState.arrive, rc_app, reduceCtorEq, false_and, Slot.inn.injEq, Slot.held.injEq, Slot.dropped.injEq,
      ind_false not_false] <;>
    first | omega | (simp only [ind]; omega)

theorem arrive_injected (g : GState ι π) (d : Dest ι) (p : π) (o : Outcome) : (g.arrive d p o).injected = g.injected := by
  cases d <;> cases o <;> simp [GState.arrive]
theorem arrive_copies (g : GState ι π) (d : Dest ι) (p : π) (o : Outcome) : (g.arrive d p o).copies = g.copies := by
  cases d <;> cases o <;> simp [GState.arrive]
theorem arrive_introduced (g : GState ι π) (d : Dest ι) (p : π) (o : Outcome) :
    (g.arrive d p o).introduced = g.introduced := by
  simp [GState.introduced, arrive_injected, arrive_copies]

theorem recs_arrive_made (g : GState ι π) (d : Dest ι) (p : π) (o : Outcome) (a : ι) :
    (g.arrive d p o).recs (.made a) = g.recs (.made a) := by
  cases d <;> cases o <;> simp [GState.arrive, recs_app]

theorem mem_of_rc_pos {g : GState ι π} {s : Slot ι} {q : π} : q ∈ g.recs s ↔ 1 ≤ g.rc s q := by
  unfold GState.rc
  rw [← List.count_pos_iff]; exact Iff.rfl

/-- a packet that is somewhere has been introduced -/
theorem GInv.introduced_of_mem {n : Wiring ι π κ} {g : GState ι π} (h : GInv n g) {s : Slot ι} (hs : s.isPlace = true)
    {q : π} (hq : q ∈ g.recs s) : q ∈ g.introduced := by
  by_contra hn
  have := (h.exact q).2 hn s hs
  have := mem_of_rc_pos.mp hq
  omega

theorem mem_recs_app {g : GState ι π} {s s' : Slot ι} {p q : π} {r : Nat} (h : q ∈ (g.app s p r).recs s') :
    q ∈ g.recs s' ∨ q = p := by
  rw [recs_app] at h
  split at h
  · simpa using h
  · exact Or.inl h

theorem mem_recs_del {g : GState ι π} {a : ι} {s' : Slot ι} {p q : π} (h : q ∈ (g.del a p).recs s') : q ∈ g.recs s' := by
  rw [recs_del] at h
  split at h
  · exact List.mem_of_mem_erase h
  · exact h

theorem mem_recs_arrive {g : GState ι π} {d : Dest ι} {o : Outcome} {s' : Slot ι} {p q : π}
    (h : q ∈ (g.arrive d p o).recs s') : q ∈ g.recs s' ∨ q = p := by
  cases d <;> cases o <;> simp only [GState.arrive] at h
  · rcases mem_recs_app h with h | h
    · exact mem_recs_app h
    · exact Or.inr h
  · rcases mem_recs_app h with h | h
    · exact mem_recs_app h
    · exact Or.inr h
  · exact mem_recs_app h
  · exact mem_recs_app h

theorem recs_with_injected (g : GState ι π) (l : List π) (s : Slot ι) :
    ({ g with injected := l } : GState ι π).recs s = g.recs s := by cases s <;> rfl
theorem recs_with_copies (g : GState ι π) (l : List (π × π)) (s : Slot ι) :
    ({ g with copies := l } : GState ι π).recs s = g.recs s := by cases s <;> rfl

theorem ginv_init (n : Wiring ι π κ) : GInv n ({} : GState ι π) := by
  have hr : ∀ s : Slot ι, ({} : GState ι π).recs s = [] := by intro s; cases s <;> rfl
  refine ⟨fun q => ⟨fun h => by simp [GState.introduced] at h, fun _ s _ => by simp [GState.rc, hr]⟩, ?_, ?_, ?_, ?_, ?_⟩
  · intro a q; simp [GState.rc, hr]
  · simp [usedKeys, GState.introduced]
  · intro cp h; cases h
  · intro a q h; rw [hr] at h; cases h
  · intro s q h; rw [hr] at h; cases h

/-- logging an injection / a copy does not touch the lists -/
theorem rc_with_injected (g : GState ι π) (l : List π) (s : Slot ι) (q : π) :
    ({ g with injected := l } : GState ι π).rc s q = g.rc s q := by cases s <;> rfl
theorem rc_with_copies (g : GState ι π) (l : List (π × π)) (s : Slot ι) (q : π) :
    ({ g with copies := l } : GState ι π).rc s q = g.rc s q := by cases s <;> rfl

theorem bal_with_injected (g : GState ι π) (l : List π) (h : Bal g) : Bal ({ g with injected := l } : GState ι π) := by
  intro a q; simp only [rc_with_injected]; exact h a q
theorem bal_with_copies (g : GState ι π) (l : List (π × π)) (h : Bal g) : Bal ({ g with copies := l } : GState ι π) := by
  intro a q; simp only [rc_with_copies]; exact h a q

/-- the sender's half of a hand-over keeps the account equation (one out of `held`, one into `out`) -/
theorem bal_del_out (g : GState ι π) (a : ι) (p : π) (hp : p ∈ (g.acct a).held) (h : Bal g) :
    Bal ((g.del a p).app (.out a) p) := by
  intro a' q
  have := h a' q
  have d1 := rc_del g a p q (.inn a') hp
  have d2 := rc_del g a p q (.made a') hp
  have d3 := rc_del g a p q (.out a') hp
  have d4 := rc_del g a p q (.dropped a') hp
  have d5 := rc_del g a p q (.held a') hp
  simp only [rc_app, reduceCtorEq, false_and, Slot.out.injEq, Slot.held.injEq, ind_false not_false] at d1 d2 d3 d4 d5 ⊢
  omega

theorem bal_del_drop (g : GState ι π) (a : ι) (p : π) (r : Nat) (hp : p ∈ (g.acct a).held) (h : Bal g) :
    Bal ((g.del a p).app (.dropped a) p r) := by
  intro a' q
  have := h a' q
  have d1 := rc_del g a p q (.inn a') hp
  have d2 := rc_del g a p q (.made a') hp
  have d3 := rc_del g a p q (.out a') hp
  have d4 := rc_del g a p q (.dropped a') hp
  have d5 := rc_del g a p q (.held a') hp
  simp only [rc_app, reduceCtorEq, false_and, Slot.dropped.injEq, Slot.held.injEq, ind_false not_false] at d1 d2 d3 d4 d5 ⊢
  omega

theorem bal_made_held (g : GState ι π) (a : ι) (c : π) (h : Bal g) :
    Bal ((g.app (.made a) c).app (.held a) c) := by
  intro a' q
  have := h a' q
  simp only [rc_app, reduceCtorEq, false_and, Slot.made.injEq, Slot.held.injEq, ind_false not_false] at this ⊢
  omega

theorem usedKeys_inject (n : Wiring ι π κ) (g : GState ι π) (p : π) :
    (usedKeys n ({ g with injected := g.injected ++ [p] } : GState ι π)).Perm (n.key p :: usedKeys n g) := by
  simp only [usedKeys, GState.introduced, List.map_append, List.map_cons, List.map_nil]
  refine List.Perm.trans ?_ (List.perm_middle)
  simp

theorem usedKeys_copy (n : Wiring ι π κ) (g : GState ι π) (p c : π) :
    (usedKeys n ({ g with copies := g.copies ++ [(c, p)] } : GState ι π)).Perm (n.key c :: usedKeys n g) := by
  simp only [usedKeys, GState.introduced, List.map_append, List.map_cons, List.map_nil]
  have : (List.map n.key g.injected ++ (List.map n.key (List.map (fun x => x.1) g.copies) ++ [n.key c])) =
      (List.map n.key g.injected ++ List.map n.key (List.map (fun x => x.1) g.copies)) ++ [n.key c] := by simp
  rw [this]
  exact List.perm_append_singleton _ _

/-- **every legal global step keeps the invariant** -/
theorem step_inv (n : Wiring ι π κ) (g g' : GState ι π) (e : GEv ι π) (h : GInv n g) (hs : step n g e = .ok g') :
    GInv n g' := by
  unfold step at hs
  split at hs
  · cases hs
  · rename_i hl
    simp only [Except.ok.injEq] at hs
    subst hs
    cases e with
    | inject a p o =>
      simp only [illegal] at hl
      split at hl
      · cases hl
      · rename_i hfresh
        have hnew : p ∉ g.introduced := fun hm => hfresh (List.mem_map_of_mem (f := n.key) hm)
        have hintro : ∀ q, q ∈ (apply n g (.inject a p o)).introduced ↔ q ∈ g.introduced ∨ q = p := by
          intro q
          have e : (apply n g (.inject a p o)).introduced = (g.injected ++ [p]) ++ g.copies.map (·.1) := by
            simp only [apply, arrive_introduced]; rfl
          rw [e]
          simp only [GState.introduced, List.mem_append, List.mem_singleton]
          tauto
        refine ⟨?_, ?_, ?_, ?_, ?_, ?_⟩
        · refine Exact.add h.exact (landing (.node a) o) (landing_place _ _) p hnew ?_ hintro
          intro s q hsp
          simp only [apply]
          rw [rc_arrive_place _ _ _ _ _ _ hsp, rc_with_injected]
        · exact bal_arrive _ _ _ _ (bal_with_injected _ _ h.bal)
        · have hk : usedKeys n (apply n g (.inject a p o)) =
              usedKeys n ({ g with injected := g.injected ++ [p] } : GState ι π) := by
            simp only [usedKeys, apply, arrive_introduced]
          rw [hk, (usedKeys_inject n g p).nodup_iff, List.nodup_cons]
          exact ⟨hfresh, h.keys⟩
        · intro cp hcp
          simp only [apply, arrive_copies] at hcp
          have := h.link cp hcp
          exact ⟨(hintro _).mpr (Or.inl this.1), this.2⟩
        · intro a' q hq
          simp only [apply, recs_arrive_made] at hq
          have := h.made a' q hq
          simpa only [apply, arrive_copies] using this
        · intro s q hq
          simp only [apply] at hq
          rcases mem_recs_arrive hq with hq | rfl
          · rw [recs_with_injected] at hq
            exact (hintro q).mpr (Or.inl (h.known s q hq))
          · exact (hintro q).mpr (Or.inr rfl)
    | fwd a p o =>
      simp only [illegal] at hl
      split at hl
      · cases hl
      · rename_i hheld
        have hheld : p ∈ (g.acct a).held := by simpa using hheld
        refine ⟨?_, ?_, ?_, ?_, ?_, ?_⟩
        · have hU : ∀ q, q ∈ (apply n g (.fwd a p o)).introduced ↔ q ∈ g.introduced := by
            intro q; simp only [apply, arrive_introduced, app_introduced, del_introduced]
          have : Exact (apply n g (.fwd a p o)).rc (· ∈ g.introduced) := by
            refine Exact.move h.exact (.held a) (landing (n.next a p) o) (landing_place _ _) rfl p
              (mem_of_rc_pos.mp hheld) ?_
            intro s q hsp
            simp only [apply]
            rw [rc_arrive_place _ _ _ _ _ _ hsp, rc_app, ind_not_place _ hsp rfl]
            have := rc_del g a p q s hheld
            omega
          intro q
          have := this q
          simp only [hU]
          exact this
        · exact bal_arrive _ _ _ _ (bal_del_out g a p hheld h.bal)
        · have hk : usedKeys n (apply n g (.fwd a p o)) = usedKeys n g := by
            simp only [usedKeys, apply, arrive_introduced, app_introduced, del_introduced]
          rw [hk]; exact h.keys
        · intro cp hcp
          simp only [apply, arrive_copies, app_copies, del_copies] at hcp
          simpa only [apply, arrive_introduced, app_introduced, del_introduced] using h.link cp hcp
        · intro a' q hq
          simp only [apply, recs_arrive_made, recs_app, recs_del, reduceCtorEq, if_false] at hq
          simpa only [apply, arrive_copies, app_copies, del_copies] using h.made a' q hq
        · intro s q hq
          simp only [apply, arrive_introduced, app_introduced, del_introduced] at hq ⊢
          have hpin : p ∈ g.introduced := h.known (.held a) p hheld
          rcases mem_recs_arrive hq with hq | rfl
          · rcases mem_recs_app hq with hq | rfl
            · exact h.known s q (mem_recs_del hq)
            · exact hpin
          · exact hpin
    | drop a p r =>
      simp only [illegal] at hl
      split at hl
      · cases hl
      · rename_i hheld
        have hheld : p ∈ (g.acct a).held := by simpa using hheld
        refine ⟨?_, ?_, ?_, ?_, ?_, ?_⟩
        · have : Exact (apply n g (.drop a p r)).rc (· ∈ g.introduced) := by
            refine Exact.move h.exact (.held a) (.dropped a) rfl rfl p (mem_of_rc_pos.mp hheld) ?_
            intro s q hsp
            simp only [apply]
            rw [rc_app]
            have := rc_del g a p q s hheld
            omega
          intro q
          have := this q
          simp only [apply, app_introduced, del_introduced]
          exact this
        · exact bal_del_drop g a p r hheld h.bal
        · have hk : usedKeys n (apply n g (.drop a p r)) = usedKeys n g := by
            simp only [usedKeys, apply, app_introduced, del_introduced]
          rw [hk]; exact h.keys
        · intro cp hcp
          simp only [apply, app_copies, del_copies] at hcp
          simpa only [apply, app_introduced, del_introduced] using h.link cp hcp
        · intro a' q hq
          simp only [apply, recs_app, recs_del, reduceCtorEq, if_false] at hq
          simpa only [apply, app_copies, del_copies] using h.made a' q hq
        · intro s q hq
          simp only [apply, app_introduced, del_introduced] at hq ⊢
          rcases mem_recs_app hq with hq | rfl
          · exact h.known s q (mem_recs_del hq)
          · exact h.known (.held a) q hheld
    | copy a p c =>
      simp only [illegal] at hl
      split at hl
      · cases hl
      · rename_i hsplit
        split at hl
        · cases hl
        · rename_i hheld
          split at hl
          · cases hl
          · rename_i hcopy
            split at hl
            · cases hl
            · rename_i hfresh
              have hheld : p ∈ (g.acct a).held := by simpa using hheld
              have hsplit : n.splitter a = true := by simpa using hsplit
              have hcopy : n.isCopy p c = true := by simpa using hcopy
              have hnew : c ∉ g.introduced := fun hm => hfresh (List.mem_map_of_mem (f := n.key) hm)
              have hpin : p ∈ g.introduced := h.introduced_of_mem (s := .held a) rfl hheld
              have hintro : ∀ q, q ∈ (apply n g (.copy a p c)).introduced ↔ q ∈ g.introduced ∨ q = c := by
                intro q
                have e : (apply n g (.copy a p c)).introduced = g.injected ++ (g.copies ++ [(c, p)]).map (·.1) := by
                  simp only [apply, app_introduced]; rfl
                rw [e]
                simp only [GState.introduced, List.map_append, List.map_cons, List.map_nil, List.mem_append,
                  List.mem_singleton]
                tauto
              refine ⟨?_, ?_, ?_, ?_, ?_, ?_⟩
              · refine Exact.add h.exact (.held a) rfl c hnew ?_ hintro
                intro s q hsp
                simp only [apply]
                rw [rc_app, rc_app, ind_not_place _ hsp rfl, rc_with_copies]; rfl
              · exact bal_made_held _ a c (bal_with_copies _ _ h.bal)
              · have hk : usedKeys n (apply n g (.copy a p c)) =
                    usedKeys n ({ g with copies := g.copies ++ [(c, p)] } : GState ι π) := by
                  simp only [usedKeys, apply, app_introduced]
                rw [hk, (usedKeys_copy n g p c).nodup_iff, List.nodup_cons]
                exact ⟨hfresh, h.keys⟩
              · intro cp hcp
                simp only [apply, app_copies, List.mem_append, List.mem_singleton] at hcp
                rcases hcp with hcp | rfl
                · have := h.link cp hcp
                  exact ⟨(hintro _).mpr (Or.inl this.1), this.2⟩
                · exact ⟨(hintro _).mpr (Or.inl hpin), hcopy⟩
              · intro a' q hq
                simp only [apply, recs_app, reduceCtorEq, if_false, Slot.made.injEq] at hq
                simp only [apply, app_copies]
                by_cases ha : a' = a
                · subst ha
                  rw [if_pos rfl, List.mem_append, List.mem_singleton] at hq
                  rcases hq with hq | rfl
                  · obtain ⟨h1, o, h2⟩ := h.made a' q hq
                    exact ⟨h1, o, List.mem_append_left _ h2⟩
                  · exact ⟨hsplit, p, by simp⟩
                · rw [if_neg ha] at hq
                  obtain ⟨h1, o, h2⟩ := h.made a' q hq
                  exact ⟨h1, o, List.mem_append_left _ h2⟩
              · intro s q hq
                simp only [apply] at hq
                rcases mem_recs_app hq with hq | rfl
                · rcases mem_recs_app hq with hq | rfl
                  · rw [recs_with_copies] at hq
                    exact (hintro q).mpr (Or.inl (h.known s q hq))
                  · exact (hintro q).mpr (Or.inr rfl)
                · exact (hintro q).mpr (Or.inr rfl)
    | tau a => exact h

/-- **the invariant holds after every run** from the empty network -/
theorem run_inv (n : Wiring ι π κ) (es : List (GEv ι π)) (g g' : GState ι π) (h : GInv n g) (hr : run n g es = .ok g') :
    GInv n g' := by
  induction es generalizing g with
  | nil => simp only [run, Except.ok.injEq] at hr; subst hr; exact h
  | cons e es ih =>
    simp only [run] at hr
    split at hr
    · cases hr
    · rename_i g1 h1
      exact ih g1 (step_inv n g g1 e h h1) hr

end Net
