import OnlVerif.Lemmas.OnceCore
/-! # The queue invariant `InvQ` and the liveness invariant `InvL` under each shape of state change;
the combined invariant `Inv` under the leaf updates that do not involve queues or process records -/

namespace Once
variable {σ : Type}

/-! ## `InvQ` -/

/-- the queues of `s'` are sub-queues of those of `s`, and their entries are still pending requests -/
theorem InvQ.transfer {s s' : KState ℚ σ} (hi : InvQ s)
    (hpn : ∀ r, (s'.res r).putQ.Nodup) (hgn : ∀ r, (s'.res r).getQ.Nodup)
    (hp : ∀ r e, e ∈ (s'.res r).putQ → e ∈ (s.res r).putQ ∧ (s'.ev e).kind = (s.ev e).kind ∧ (s'.ev e).out = none)
    (hg : ∀ r e, e ∈ (s'.res r).getQ → e ∈ (s.res r).getQ ∧ (s'.ev e).kind = (s.ev e).kind ∧ (s'.ev e).out = none) :
    InvQ s' := by
  refine ⟨fun r => ⟨hpn r, ?_⟩, fun r => ⟨hgn r, ?_⟩⟩
  · intro e he
    obtain ⟨h1, h2, h3⟩ := hp r e he
    exact ⟨by rw [h2]; exact ((hi.putQ r).2 e h1).1, h3⟩
  · intro e he
    obtain ⟨h1, h2, h3⟩ := hg r e he
    exact ⟨by rw [h2]; exact ((hi.getQ r).2 e h1).1, h3⟩

/-- same queues; every pending request event keeps kind and stays pending -/
theorem InvQ.keep {s s' : KState ℚ σ} (hi : InvQ s)
    (hp : ∀ r, (s'.res r).putQ = (s.res r).putQ) (hg : ∀ r, (s'.res r).getQ = (s.res r).getQ)
    (hk : ∀ e, (s.ev e).out = none → ((∃ r, (s.ev e).kind = .put r) ∨ (∃ r, (s.ev e).kind = .get r)) →
      (s'.ev e).kind = (s.ev e).kind ∧ (s'.ev e).out = none) : InvQ s' := by
  refine hi.transfer (fun r => by rw [hp]; exact (hi.putQ r).1) (fun r => by rw [hg]; exact (hi.getQ r).1) ?_ ?_
  · intro r e he
    rw [hp] at he
    have := (hi.putQ r).2 e he
    exact ⟨he, hk e this.2 (Or.inl ⟨r, this.1⟩)⟩
  · intro r e he
    rw [hg] at he
    have := (hi.getQ r).2 e he
    exact ⟨he, hk e this.2 (Or.inr ⟨r, this.1⟩)⟩

theorem InvQ.mem_put_lt {s : KState ℚ σ} (hi : InvQ s) (r : ResId) (e : EvId) (h : e ∈ (s.res r).putQ) :
    e < s.events.size := lt_of_kind s e (by rw [((hi.putQ r).2 e h).1]; simp)

theorem InvQ.mem_get_lt {s : KState ℚ σ} (hi : InvQ s) (r : ResId) (e : EvId) (h : e ∈ (s.res r).getQ) :
    e < s.events.size := lt_of_kind s e (by rw [((hi.getQ r).2 e h).1]; simp)

/-! ## `InvL` -/

/-- the general form: what holds a process keeps holding it -/
theorem InvL.transfer' {g g' : Ghost} {s s' : KState ℚ σ} (hi : InvL g s)
    (hsz : s.events.size ≤ s'.events.size)
    (hp : ∀ p, s'.proc? p = s.proc? p)
    (ho : ∀ p, (s'.ev p).out = none → (s.ev p).out = none)
    (hrun : ∀ p, g.run = some p → g'.run = some p) (hlv : g'.lv = true → g.lv = true)
    (hH : ∀ p t, Held g s p t → t < s.events.size → g'.run ≠ some p → Held g' s' p t) : InvL g' s' := by
  constructor
  intro hl p pr hpp hout hr
  rw [hp] at hpp
  obtain ⟨t, h1, h2, h3⟩ := hi.live (hlv hl) p pr hpp (ho p hout) (fun h => hr (hrun p h))
  exact ⟨t, h1, Nat.lt_of_lt_of_le h2 hsz, hH p t h3 h2 hr⟩

theorem Held.keep {g g' : Ghost} {s s' : KState ℚ σ} {p t : EvId} (h : Held g s p t) (ht : t < s.events.size)
    (hg : g'.rem = g.rem ∧ g'.e0 = g.e0 ∧ g'.strict = g.strict)
    (hN : ∀ e, e < s.events.size → (s.ev e).cbs = none → (s'.ev e).cbs = none)
    (hL : ∀ e L, (s.ev e).cbs = some L → Cb.resume p ∈ L → ∃ L', (s'.ev e).cbs = some L' ∧ Cb.resume p ∈ L') :
    Held g' s' p t := by
  rcases h with ⟨h1, h2⟩ | ⟨L, h1, h2⟩ | ⟨h1, h2⟩
  · exact Or.inl ⟨by rw [hg.2.1]; exact h1, by rw [hg.1]; exact h2⟩
  · exact Or.inr (Or.inl (hL t L h1 h2))
  · exact Or.inr (Or.inr ⟨by rw [hg.2.2]; exact h1, hN t ht h2⟩)

/-- the state changes; of the ghost at most `run` and `lv` -/
theorem InvL.transfer {g g' : Ghost} {s s' : KState ℚ σ} (hi : InvL g s)
    (hsz : s.events.size ≤ s'.events.size)
    (hp : ∀ p, s'.proc? p = s.proc? p)
    (ho : ∀ p, (s'.ev p).out = none → (s.ev p).out = none)
    (hrun : ∀ p, g.run = some p → g'.run = some p) (hlv : g'.lv = true → g.lv = true)
    (hN : ∀ e, e < s.events.size → (s.ev e).cbs = none → (s'.ev e).cbs = none)
    (hL : ∀ e L p, (s.ev e).cbs = some L → Cb.resume p ∈ L → g'.run ≠ some p →
      ∃ L', (s'.ev e).cbs = some L' ∧ Cb.resume p ∈ L')
    (hg : g'.rem = g.rem ∧ g'.e0 = g.e0 ∧ g'.strict = g.strict := by exact ⟨rfl, rfl, rfl⟩) : InvL g' s' :=
  hi.transfer' hsz hp ho hrun hlv (fun p _ h ht hr => h.keep ht hg hN (fun e L hLe hm => hL e L p hLe hm hr))

theorem InvL.congr {g : Ghost} {s s' : KState ℚ σ} (hi : InvL g s) (h : SameC s s') : InvL g s' := by
  refine hi.transfer (by rw [h.size]) h.proc (fun p hp => by rw [← h.out]; exact hp) (fun _ h => h) (fun h => h)
    (fun e _ hc => by rw [h.cbs]; exact hc) ?_
  intro e L p hL hm _
  exact ⟨L, by rw [h.cbs]; exact hL, hm⟩

/-! ## `InvS`: triggered and unprocessed ⇒ scheduled -/

/-- nothing leaves the agenda; whatever is triggered and unprocessed now was so before, or is in the agenda -/
theorem InvS.transfer {s s' : KState ℚ σ} (hi : InvS s) (hag : ∀ q ∈ s.agenda, q ∈ s'.agenda)
    (h : ∀ e, (s'.ev e).out ≠ none → (s'.ev e).cbs ≠ none →
      ((s.ev e).out ≠ none ∧ (s.ev e).cbs ≠ none) ∨ ∃ q ∈ s'.agenda, q.ev = e) : InvS s' := by
  intro e h1 h2
  rcases h e h1 h2 with ⟨h3, h4⟩ | h3
  · obtain ⟨q, hq, hqe⟩ := hi e h3 h4
    exact ⟨q, hag q hq, hqe⟩
  · exact h3

theorem InvSx.transfer {x : EvId} {s s' : KState ℚ σ} (hi : InvSx x s) (hag : ∀ q ∈ s.agenda, q ∈ s'.agenda)
    (h : ∀ e, e ≠ x → (s'.ev e).out ≠ none → (s'.ev e).cbs ≠ none →
      ((s.ev e).out ≠ none ∧ (s.ev e).cbs ≠ none) ∨ ∃ q ∈ s'.agenda, q.ev = e) : InvSx x s' := by
  intro e hx h1 h2
  rcases h e hx h1 h2 with ⟨h3, h4⟩ | h3
  · obtain ⟨q, hq, hqe⟩ := hi e hx h3 h4
    exact ⟨q, hag q hq, hqe⟩
  · exact h3

/-- same agenda, same outcomes, same processed-or-not -/
theorem InvS.same {s s' : KState ℚ σ} (hi : InvS s) (ha : s'.agenda = s.agenda)
    (ho : ∀ e, (s'.ev e).out = (s.ev e).out) (hc : ∀ e, (s'.ev e).cbs = none ↔ (s.ev e).cbs = none) : InvS s' :=
  hi.transfer (fun q hq => by rw [ha]; exact hq)
    (fun e h1 h2 => Or.inl ⟨by rw [← ho]; exact h1, fun h => h2 ((hc e).mpr h)⟩)

theorem InvS.congr {s s' : KState ℚ σ} (hi : InvS s) (h : SameC s s') : InvS s' :=
  hi.same h.agenda h.out (fun e => by rw [h.cbs])

theorem InvS.toX {s : KState ℚ σ} (hi : InvS s) (x : EvId) : InvSx x s := fun e _ => hi e

/-- `trigger` never leaves an orphan: the event gets its outcome and its agenda entry together -/
theorem InvS.trigger {s : KState ℚ σ} (hi : InvS s) (e : EvId) (o : Outcome) : InvS (s.trigger e o) := by
  refine hi.transfer (fun q hq => List.mem_cons_of_mem _ hq) ?_
  intro e' h1 h2
  by_cases he : e' = e
  · exact Or.inr ⟨_, List.mem_cons_self, he.symm⟩
  · left
    have ho : ((s.trigger e o).ev e').out = (s.ev e').out := by
      show ((s.setOut e o).ev e').out = _
      rw [out_setOut, if_neg (fun h => he h.1)]
    have hc : ((s.trigger e o).ev e').cbs = (s.ev e').cbs := cbs_setEv s e e' _ rfl
    rw [ho] at h1; rw [hc] at h2
    exact ⟨h1, h2⟩

/-! ## `Inv` under the simple leaf updates -/

theorem Inv.toX {g : Ghost} {s : KState ℚ σ} (hi : Inv g s) (x : EvId) : InvX x g s := ⟨hi.c, hi.q, hi.l, hi.s.toX x⟩

/-- the exempted event is no orphan (it is untriggered, processed, or scheduled) -/
theorem InvX.toInv {x : EvId} {g : Ghost} {s : KState ℚ σ} (hi : InvX x g s)
    (hx : (s.ev x).out ≠ none → (s.ev x).cbs ≠ none → ∃ q ∈ s.agenda, q.ev = x) : Inv g s := by
  refine ⟨hi.c, hi.q, hi.l, ?_⟩
  intro e h1 h2
  by_cases he : e = x
  · subst he; exact hx h1 h2
  · exact hi.sx e he h1 h2


theorem Inv.congr {g : Ghost} {s s' : KState ℚ σ} (hi : Inv g s) (h : SameC s s')
    (hp : ∀ r, (s'.res r).putQ = (s.res r).putQ) (hg : ∀ r, (s'.res r).getQ = (s.res r).getQ) : Inv g s' :=
  ⟨hi.c.congr h, hi.q.keep hp hg (fun e ho _ => ⟨h.kind e, by rw [h.out]; exact ho⟩), hi.l.congr h, hi.s.congr h⟩

theorem Inv.emit {g : Ghost} {s : KState ℚ σ} (hi : Inv g s) (o : Obs ℚ) : Inv g (s.emit o) :=
  hi.congr (SameC.of_events rfl rfl rfl) (fun _ => rfl) (fun _ => rfl)

theorem Inv.active {g : Ghost} {s : KState ℚ σ} (hi : Inv g s) (a : Option EvId) : Inv g { s with active := a } :=
  hi.congr (SameC.of_events rfl rfl rfl) (fun _ => rfl) (fun _ => rfl)

theorem Inv.shared {g : Ghost} {s : KState ℚ σ} (hi : Inv g s) (l : List (Nat × Val)) : Inv g { s with shared := l } :=
  hi.congr (SameC.of_events rfl rfl rfl) (fun _ => rfl) (fun _ => rfl)

/-- an update of one event record in fields the invariant does not look at (`defused`, `count`, `req`) -/
theorem Inv.setEv_same {g : Ghost} {s : KState ℚ σ} (hi : Inv g s) (e : EvId) (x : EvRec ℚ)
    (hk : x.kind = (s.ev e).kind) (hc : x.cbs = (s.ev e).cbs) (ho : x.out = (s.ev e).out) : Inv g (s.setEv e x) :=
  hi.congr (SameC.of_setEv s e x hk hc ho) (fun _ => rfl) (fun _ => rfl)

theorem Inv.defuse {g : Ghost} {s : KState ℚ σ} (hi : Inv g s) (e : EvId) : Inv g (s.defuse e) :=
  hi.setEv_same e _ rfl rfl rfl

theorem Inv.bumpCount {g : Ghost} {s : KState ℚ σ} (hi : Inv g s) (e : EvId) : Inv g (s.bumpCount e) :=
  hi.setEv_same e _ rfl rfl rfl

theorem Inv.setUsage {g : Ghost} {s : KState ℚ σ} (hi : Inv g s) (e : EvId) : Inv g (s.setUsage e) :=
  hi.setEv_same e _ rfl rfl rfl

/-- an update of one resource record that leaves its two queues alone -/
theorem Inv.setRes_same {g : Ghost} {s : KState ℚ σ} (hi : Inv g s) (r : ResId) (x : ResRec)
    (hp : x.putQ = (s.res r).putQ) (hg : x.getQ = (s.res r).getQ) : Inv g (s.setRes r x) := by
  refine hi.congr (SameC.of_events rfl rfl rfl) ?_ ?_
  · intro r'; rw [KState.res_setRes]; split
    · rename_i h; rw [h.1]; exact hp
    · rfl
  · intro r'; rw [KState.res_setRes]; split
    · rename_i h; rw [h.1]; exact hg
    · rfl

theorem Inv.setUsers {g : Ghost} {s : KState ℚ σ} (hi : Inv g s) (r : ResId) (l : List EvId) : Inv g (s.setUsers r l) :=
  hi.setRes_same r _ rfl rfl
theorem Inv.setLevel {g : Ghost} {s : KState ℚ σ} (hi : Inv g s) (r : ResId) (x : Int) : Inv g (s.setLevel r x) :=
  hi.setRes_same r _ rfl rfl
theorem Inv.setItems {g : Ghost} {s : KState ℚ σ} (hi : Inv g s) (r : ResId) (l : List Int) : Inv g (s.setItems r l) :=
  hi.setRes_same r _ rfl rfl

/-- every agenda entry belongs to an existing event -/
theorem InvC.agenda_lt {g : Ghost} {s : KState ℚ σ} (hi : InvC g s) : ∀ b ∈ s.agenda, b.ev < s.events.size :=
  fun b hb => lt_of_cbs s _ (hi.ag_live b hb).2

/-- `Environment.schedule` of the event that is triggered, unprocessed and not yet in the agenda -/
theorem InvX.schedule {g : Ghost} {s : KState ℚ σ} {e : EvId} (hi : InvX e g s) (p : Nat) (d : ℚ)
    (ho : (s.ev e).out ≠ none) (hc : (s.ev e).cbs ≠ none) (hnew : ∀ b ∈ s.agenda, b.ev ≠ e) :
    Inv g (s.schedule e p d) := by
  refine ⟨hi.c.schedule e p d ho hc hnew, hi.q.keep (fun _ => rfl) (fun _ => rfl) (fun _ h _ => ⟨rfl, h⟩),
    ⟨(hi.l.congr ⟨rfl, rfl, fun _ => rfl, fun _ => rfl, fun _ => rfl, fun _ => rfl⟩).live⟩, ?_⟩
  intro e' h1 h2
  by_cases he : e' = e
  · exact ⟨_, List.mem_cons_self, he.symm⟩
  · obtain ⟨q, hq, hqe⟩ := hi.sx e' he h1 h2
    exact ⟨q, List.mem_cons_of_mem _ hq, hqe⟩

/-- outcomes appear on events that are neither processes nor queued requests -/
theorem Inv.setOut {g : Ghost} {s : KState ℚ σ} (hi : Inv g s) (e : EvId) (o : Outcome)
    (h : (s.ev e).out = none → (s.ev e).kind = .plain ∨ isCond s e = true) : InvX e g (s.setOut e o) := by
  have hk : ∀ e', ((s.setOut e o).ev e').kind = (s.ev e').kind := fun e' => kind_setEv s e e' _ rfl
  have hcb : ∀ e', ((s.setOut e o).ev e').cbs = (s.ev e').cbs := fun e' => cbs_setEv s e e' _ rfl
  refine ⟨hi.c.setOut e o ?_, hi.q.keep (fun _ => rfl) (fun _ => rfl) ?_, ?_, ?_⟩
  rotate_right
  · refine (hi.s.toX e).transfer (fun q hq => hq) ?_
    intro e' he h1 h2
    rw [out_setOut, if_neg (fun hh => he hh.1)] at h1
    rw [hcb] at h2
    exact Or.inl ⟨h1, h2⟩
  · intro ho
    rcases h ho with h | h
    · rw [h]; simp
    · exact isCond_not_proc s e h
  · intro e' ho hkind
    refine ⟨hk e', ?_⟩
    rw [out_setOut]
    split
    · rename_i hc
      exfalso
      rw [hc.1] at ho hkind
      rcases h ho with h | h
      · rcases hkind with ⟨r, hr⟩ | ⟨r, hr⟩ <;> rw [h] at hr <;> cases hr
      · unfold isCond at h
        rcases hkind with ⟨r, hr⟩ | ⟨r, hr⟩ <;> rw [hr] at h <;> exact absurd h (by simp)
    · exact ho
  · refine hi.l.transfer (by unfold KState.setOut; rw [size_setEv]) (fun _ => rfl) ?_ (fun _ h => h) (fun h => h) (fun e' _ hc => by rw [hcb]; exact hc) ?_
    · intro p hp
      rw [out_setOut] at hp
      split at hp
      · cases hp
      · exact hp
    · intro e' L p hL hm _
      exact ⟨L, by rw [hcb]; exact hL, hm⟩

/-- `succeed`/`fail`/`trigger` of an existing untriggered plain event or condition -/
theorem Inv.trigger {g : Ghost} {s : KState ℚ σ} (hi : Inv g s) (e : EvId) (o : Outcome)
    (hlt : e < s.events.size) (ho : (s.ev e).out = none)
    (hk : (s.ev e).kind = .plain ∨ isCond s e = true) : Inv g (s.trigger e o) := by
  unfold KState.trigger
  have h1 := hi.setOut e o (fun _ => hk)
  refine h1.schedule NORMAL Num.zero ?_ ?_ ?_
  · rw [out_setOut, if_pos ⟨rfl, hlt⟩]; simp
  · have : ((s.setOut e o).ev e).cbs = (s.ev e).cbs := cbs_setEv s e e _ rfl
    rw [this]
    intro hc; exact hi.c.done_trig e hlt hc ho
  · exact hi.c.not_in_agenda e ho

/-- re-setting the outcome of an event that is already triggered (`Condition._build_value`) -/
theorem Inv.setOut_triggered {g : Ghost} {s : KState ℚ σ} (hi : Inv g s) (e : EvId) (o : Outcome)
    (h : (s.ev e).out ≠ none) : Inv g (s.setOut e o) := by
  refine (hi.setOut e o (fun h' => absurd h' h)).toInv ?_
  intro _ h2
  have : ((s.setOut e o).ev e).cbs = (s.ev e).cbs := cbs_setEv s e e _ rfl
  rw [this] at h2
  exact hi.s e h h2

private theorem cbs_map_none {α} (f : List α → List α) (o : Option (List α)) : o.map f = none ↔ o = none := by
  cases o <;> simp

/-- `callbacks.append(cb)` for a callback that is not a `_resume`, not an `_interrupt`, and a `_check` only of a condition -/
theorem Inv.addCb {g : Ghost} {s : KState ℚ σ} (hi : Inv g s) (e : EvId) (cb : Cb)
    (h1 : ∀ p, cb ≠ .resume p) (h2 : ∀ iv, cb ≠ .intr iv) (h3 : ∀ c, cb = .check c → isCond s c = true) :
    Inv g (s.addCb e cb) := by
  have hk : ∀ e', ((s.addCb e cb).ev e').kind = (s.ev e').kind := fun e' => kind_setEv s e e' _ rfl
  have ho : ∀ e', ((s.addCb e cb).ev e').out = (s.ev e').out := fun e' => out_setEv s e e' _ rfl
  refine ⟨hi.c.addCb e cb h1 h2 h3, hi.q.keep (fun _ => rfl) (fun _ => rfl) (fun e' h _ => ⟨hk e', by rw [ho]; exact h⟩), ?_,
    hi.s.same rfl ho (fun e' => by rw [cbs_addCb]; split <;> [(rename_i h; subst h; exact cbs_map_none _ _); exact Iff.rfl])⟩
  refine hi.l.transfer (by unfold KState.addCb; rw [size_setEv]) (fun _ => rfl) (fun p hp => by rw [← ho]; exact hp)
    (fun _ h => h) (fun h => h) ?_ ?_
  · intro e' _ hc
    rw [cbs_addCb]; split
    · rename_i h; subst h; rw [hc]; rfl
    · exact hc
  · intro e' L p hL hm _
    rw [cbs_addCb]; split
    · rename_i h; subst h; rw [hL]; exact ⟨L ++ [cb], rfl, List.mem_append_left _ hm⟩
    · exact ⟨L, hL, hm⟩

/-- `callbacks.remove(cb)` for a callback that is not a `_resume` -/
theorem Inv.eraseCb_other {g : Ghost} {s : KState ℚ σ} (hi : Inv g s) (e : EvId) (cb : Cb)
    (h1 : ∀ p, cb ≠ .resume p) : Inv g (s.eraseCb e cb) := by
  have hk : ∀ e', ((s.eraseCb e cb).ev e').kind = (s.ev e').kind := fun e' => kind_setEv s e e' _ rfl
  have ho : ∀ e', ((s.eraseCb e cb).ev e').out = (s.ev e').out := fun e' => out_setEv s e e' _ rfl
  refine ⟨hi.c.eraseCb_other e cb h1, hi.q.keep (fun _ => rfl) (fun _ => rfl) (fun e' h _ => ⟨hk e', by rw [ho]; exact h⟩), ?_,
    hi.s.same rfl ho (fun e' => by rw [cbs_eraseCb]; split <;> [(rename_i h; subst h; exact cbs_map_none _ _); exact Iff.rfl])⟩
  refine hi.l.transfer (by unfold KState.eraseCb; rw [size_setEv]) (fun _ => rfl) (fun p hp => by rw [← ho]; exact hp)
    (fun _ h => h) (fun h => h) ?_ ?_
  · intro e' _ hc
    rw [cbs_eraseCb]; split
    · rename_i h; subst h; rw [hc]; rfl
    · exact hc
  · intro e' L p hL hm _
    rw [cbs_eraseCb]; split
    · rename_i h; subst h; rw [hL]
      exact ⟨L.erase cb, rfl, (List.mem_erase_of_ne (fun h => h1 p h.symm)).mpr hm⟩
    · exact ⟨L, hL, hm⟩

/-- a fresh event record (queues and process records untouched) -/
theorem Inv.push {g : Ghost} {s s' : KState ℚ σ} (hi : Inv g s) (rec : EvRec ℚ) (L0 : List Cb)
    (ha : s'.agenda = s.agenda) (hsz : s'.events.size = s.events.size + 1)
    (hev : ∀ e, s'.ev e = if e = s.events.size then rec else s.ev e)
    (hp : ∀ p, s'.proc? p = s.proc? p)
    (hpq : ∀ r, (s'.res r).putQ = (s.res r).putQ) (hgq : ∀ r, (s'.res r).getQ = (s.res r).getQ)
    (hc : rec.cbs = some L0)
    (hres : ∀ p, Cb.resume p ∈ L0 → (s.ev p).out = none ∧ (∃ pr, s.proc? p = some pr ∧ pr.target = some s.events.size) ∧
      L0.count (.resume p) = 1 ∧ rec.kind ≠ .intr p ∧ Cb.resume p ∉ g.rem ∧ g.run ≠ some p)
    (hintr : ∀ iv, Cb.intr iv ∈ L0 → iv = s.events.size)
    (hcheck : ∀ c, Cb.check c ∉ L0) : InvX s.events.size g s' := by
  have hold : ∀ e, e < s.events.size → s'.ev e = s.ev e := fun e he => by rw [hev, if_neg (Nat.ne_of_lt he)]
  refine ⟨hi.c.push rec L0 ha hsz hev hp hc hres hintr hcheck, hi.q.keep hpq hgq ?_, ?_, ?_⟩
  rotate_right
  · refine (hi.s.toX _).transfer (fun q hq => by rw [ha]; exact hq) ?_
    intro e he h1 h2
    rw [hev, if_neg he] at h1 h2
    exact Or.inl ⟨h1, h2⟩
  · intro e ho hk
    have hlt : e < s.events.size := by
      apply lt_of_kind
      rcases hk with ⟨r, hr⟩ | ⟨r, hr⟩ <;> rw [hr] <;> simp
    rw [hold e hlt]; exact ⟨rfl, ho⟩
  · refine hi.l.transfer (by omega) hp ?_ (fun _ h => h) (fun h => h) (fun e he h => by rw [hold e he]; exact h) ?_
    · intro p hpo
      by_cases h : p < s.events.size
      · rw [hold p h] at hpo; exact hpo
      · rw [ev_default s p h]; rfl
    · intro e L p hL hm _
      rw [hold e (lt_of_cbs_some s e L hL)]; exact ⟨L, hL, hm⟩

theorem Inv.newEv {g : Ghost} {s : KState ℚ σ} (hi : Inv g s) (rec : EvRec ℚ) (L0 : List Cb)
    (hc : rec.cbs = some L0)
    (hres : ∀ p, Cb.resume p ∈ L0 → (s.ev p).out = none ∧ (∃ pr, s.proc? p = some pr ∧ pr.target = some s.events.size) ∧
      L0.count (.resume p) = 1 ∧ rec.kind ≠ .intr p ∧ Cb.resume p ∉ g.rem ∧ g.run ≠ some p)
    (hintr : ∀ iv, Cb.intr iv ∈ L0 → iv = s.events.size)
    (hcheck : ∀ c, Cb.check c ∉ L0) : InvX s.events.size g (s.newEv rec).1 :=
  hi.push rec L0 rfl (by simp [KState.newEv]) (fun e => KState.ev_newEv s rec e) (fun _ => rfl) (fun _ => rfl)
    (fun _ => rfl) hc hres hintr hcheck

theorem Inv.newLabelled {g : Ghost} {s : KState ℚ σ} (hi : Inv g s) (rec : EvRec ℚ) (L0 : List Cb)
    (hc : rec.cbs = some L0) (hres : ∀ p, Cb.resume p ∉ L0) (hintr : ∀ iv, Cb.intr iv ∉ L0)
    (hcheck : ∀ c, Cb.check c ∉ L0) : InvX s.events.size g (s.newLabelled rec).1 :=
  hi.push { rec with label := s.nlabel + 1 } L0 rfl (by simp [KState.newLabelled])
    (fun e => KState.ev_newLabelled s rec e) (fun _ => rfl) (fun _ => rfl) (fun _ => rfl) hc
    (fun p hm => absurd hm (hres p)) (fun iv hm => absurd hm (hintr iv)) hcheck

/-- a fresh *pending* event (no outcome yet): nothing to schedule -/
theorem Inv.newLabelled_pending {g : Ghost} {s : KState ℚ σ} (hi : Inv g s) (rec : EvRec ℚ) (L0 : List Cb)
    (hc : rec.cbs = some L0) (hres : ∀ p, Cb.resume p ∉ L0) (hintr : ∀ iv, Cb.intr iv ∉ L0)
    (hcheck : ∀ c, Cb.check c ∉ L0) (ho : rec.out = none) : Inv g (s.newLabelled rec).1 := by
  refine (hi.newLabelled rec L0 hc hres hintr hcheck).toInv ?_
  intro h1
  rw [KState.ev_newLabelled, if_pos rfl] at h1
  exact absurd ho h1

end Once
