import OnlVerif.Lemmas.TimerBasic
/-!
# Timer LTS: the process-list invariant, kept by every enabled action; no action raises
-/

namespace Timer

/-- The invariant of the process list and the URGENT queue.

* `old_intr`: every process other than `self.proc` that is still alive has an `Interruption` pending — and since
  `wake`/`tick` are enabled only when the URGENT queue is empty, it is delivered before that process can wake;
* `init_first`: a process that has not started yet has its `Initialize` pending, in front of any of its interrupts;
* `no_intr_proc`: `self.proc` itself has no interrupt pending. -/
structure Inv (s : State ℚ) : Prop where
  proc_lt : s.proc < s.procs.length
  uq_lt : ∀ u ∈ s.uq, u.pid < s.procs.length
  old_intr : ∀ (pid : Nat) (st : PStat ℚ), s.procs[pid]? = some st → pid ≠ s.proc → st ≠ PStat.finished →
    UEv.intr pid ∈ s.uq
  init_first : ∀ pid : Nat, s.procs[pid]? = some PStat.notStarted →
    ∃ a b, s.uq = a ++ UEv.init pid :: b ∧ UEv.intr pid ∉ a
  no_intr_proc : UEv.intr s.proc ∉ s.uq
  sleep_ge : ∀ (pid : Nat) (w : ℚ), s.procs[pid]? = some (PStat.sleeping w) → s.now ≤ w

theorem Inv.of_eq {s s' : State ℚ} (h : Inv s) (h1 : s'.procs = s.procs) (h2 : s'.proc = s.proc)
    (h3 : s'.uq = s.uq) (h4 : s'.now = s.now) : Inv s' := by
  refine ⟨?_, ?_, ?_, ?_, ?_, ?_⟩
  · rw [h1, h2]; exact h.proc_lt
  · rw [h1, h3]; exact h.uq_lt
  · rw [h1, h2, h3]; exact h.old_intr
  · rw [h1, h3]; exact h.init_first
  · rw [h2, h3]; exact h.no_intr_proc
  · rw [h1, h4]; exact h.sleep_ge

theorem inv_stopBody {s : State ℚ} (h : Inv s) : Inv (stopBody s) := h.of_eq rfl rfl rfl rfl
theorem inv_rebase {s : State ℚ} (tau : ℚ) (h : Inv s) : Inv (rebase tau s) := h.of_eq rfl rfl rfl rfl
theorem inv_autoRebase {s : State ℚ} (h : Inv s) : Inv (autoRebase s) := by
  unfold autoRebase; split
  · exact h.of_eq rfl rfl rfl rfl
  · exact h

/-- the status of an alive process changes to something that is not `notStarted` -/
theorem inv_setStat {s : State ℚ} (h : Inv s) {pid : Nat} {st0 st : PStat ℚ} (h0 : s.procs[pid]? = some st0)
    (hal : st0 ≠ PStat.finished) (hst : st ≠ PStat.notStarted) (hw : ∀ w, st = PStat.sleeping w → s.now ≤ w) :
    Inv (setStat s pid st) := by
  refine ⟨?_, ?_, ?_, ?_, ?_, ?_⟩
  · show s.proc < (s.procs.set pid st).length
    rw [List.length_set]; exact h.proc_lt
  · intro u hu
    show u.pid < (s.procs.set pid st).length
    rw [List.length_set]; exact h.uq_lt u hu
  · intro p st' hg hne hfin
    rcases get_set_cases hg with ⟨rfl, _⟩ | ⟨_, hold⟩
    · exact h.old_intr p st0 h0 hne hal
    · exact h.old_intr p st' hold hne hfin
  · intro p hg
    rcases get_set_cases hg with ⟨_, he⟩ | ⟨_, hold⟩
    · exact absurd he.symm hst
    · exact h.init_first p hold
  · exact h.no_intr_proc
  · intro p w hg
    rcases get_set_cases hg with ⟨_, he⟩ | ⟨_, hold⟩
    · exact hw w he.symm
    · exact h.sleep_ge p w hold

theorem inv_loopTest {s : State ℚ} (h : Inv s) {pid : Nat} {st0 : PStat ℚ} (h0 : s.procs[pid]? = some st0)
    (hal : st0 ≠ PStat.finished) : Inv (loopTest pid s) := by
  unfold loopTest
  split
  · rename_i hlt
    refine inv_setStat h h0 hal (by intro hc; cases hc) ?_
    intro w hw
    cases hw
    linarith
  · exact inv_setStat h h0 hal (by intro hc; cases hc) (by intro w hw; cases hw)

/-- `init p` at the head of the URGENT queue is processed -/
theorem inv_pop_init {s : State ℚ} (h : Inv s) {p : Nat} {rest : List UEv} (huq : s.uq = UEv.init p :: rest)
    (h0 : s.procs[p]? = some PStat.notStarted) {st : PStat ℚ} (hst : st ≠ PStat.notStarted)
    (hw : ∀ w, st = PStat.sleeping w → s.now ≤ w) : Inv (setStat (popUq s rest) p st) := by
  have hsub : ∀ u, u ∈ rest → u ∈ s.uq := fun u hu => by rw [huq]; exact List.mem_cons_of_mem _ hu
  refine ⟨?_, ?_, ?_, ?_, ?_, ?_⟩
  · show s.proc < (s.procs.set p st).length
    rw [List.length_set]; exact h.proc_lt
  · intro u hu
    show u.pid < (s.procs.set p st).length
    rw [List.length_set]; exact h.uq_lt u (hsub u hu)
  · intro q st' hg hne hfin
    have hin : UEv.intr q ∈ s.uq := by
      rcases get_set_cases hg with ⟨rfl, _⟩ | ⟨_, hold⟩
      · exact h.old_intr q _ h0 hne (by intro hc; cases hc)
      · exact h.old_intr q st' hold hne hfin
    rw [huq] at hin
    rcases List.mem_cons.mp hin with hc | hc
    · cases hc
    · exact hc
  · intro q hg
    rcases get_set_cases hg with ⟨_, he⟩ | ⟨hqp, hold⟩
    · exact absurd he.symm hst
    · obtain ⟨a, b, hab, hni⟩ := h.init_first q hold
      cases a with
      | nil =>
        rw [huq] at hab
        simp only [List.nil_append, List.cons.injEq, UEv.init.injEq] at hab
        exact absurd hab.1.symm hqp
      | cons x a' =>
        rw [huq] at hab
        simp only [List.cons_append, List.cons.injEq] at hab
        exact ⟨a', b, hab.2, fun hc => hni (List.mem_cons_of_mem _ hc)⟩
  · exact fun hc => h.no_intr_proc (hsub _ hc)
  · intro q w hg
    rcases get_set_cases hg with ⟨_, he⟩ | ⟨_, hold⟩
    · exact hw w he.symm
    · exact h.sleep_ge q w hold

theorem inv_doInit {s s' : State ℚ} {o : List (Out ℚ)} {pid : Nat} (h : Inv s) (hs : doInit pid s = .ok s' o) :
    Inv s' := by
  obtain ⟨rest, huq, h0, rfl, _⟩ := doInit_ok hs
  unfold loopTest
  split
  · rename_i hlt
    refine inv_pop_init h huq h0 (by intro hc; cases hc) ?_
    intro w hw
    cases hw
    show s.now ≤ s.now + (s.expire - s.now)
    have : s.now < s.expire := hlt
    linarith
  · exact inv_pop_init h huq h0 (by intro hc; cases hc) (by intro w hw; cases hw)

/-- `intr p` at the head of the URGENT queue is processed; afterwards `p` is finished -/
theorem inv_pop_intr {s : State ℚ} (h : Inv s) {p : Nat} {rest : List UEv} (huq : s.uq = UEv.intr p :: rest)
    (procs' : List (PStat ℚ)) (hlen : procs'.length = s.procs.length)
    (hp : ∀ st, procs'[p]? = some st → st = PStat.finished)
    (hother : ∀ q, q ≠ p → procs'[q]? = s.procs[q]?) :
    Inv { s with uq := rest, procs := procs' } := by
  have hsub : ∀ u, u ∈ rest → u ∈ s.uq := fun u hu => by rw [huq]; exact List.mem_cons_of_mem _ hu
  refine ⟨?_, ?_, ?_, ?_, ?_, ?_⟩
  · show s.proc < procs'.length
    rw [hlen]; exact h.proc_lt
  · intro u hu
    show u.pid < procs'.length
    rw [hlen]; exact h.uq_lt u (hsub u hu)
  · intro q st' hg hne hfin
    have hg : procs'[q]? = some st' := hg
    have hqp : q ≠ p := by
      intro hc; subst hc; exact hfin (hp st' hg)
    rw [hother q hqp] at hg
    have hin := h.old_intr q st' hg hne hfin
    rw [huq] at hin
    rcases List.mem_cons.mp hin with hc | hc
    · cases hc; exact absurd rfl hqp
    · exact hc
  · intro q hg
    have hg : procs'[q]? = some PStat.notStarted := hg
    have hqp : q ≠ p := by
      intro hc; subst hc; have := hp _ hg; cases this
    rw [hother q hqp] at hg
    obtain ⟨a, b, hab, hni⟩ := h.init_first q hg
    cases a with
    | nil =>
      rw [huq] at hab
      simp only [List.nil_append, List.cons.injEq] at hab
      cases hab.1
    | cons x a' =>
      rw [huq] at hab
      simp only [List.cons_append, List.cons.injEq] at hab
      exact ⟨a', b, hab.2, fun hc => hni (List.mem_cons_of_mem _ hc)⟩
  · exact fun hc => h.no_intr_proc (hsub _ hc)
  · intro q w hg
    have hg : procs'[q]? = some (PStat.sleeping w) := hg
    have hqp : q ≠ p := by
      intro hc; subst hc; have := hp _ hg; cases this
    rw [hother q hqp] at hg
    exact h.sleep_ge q w hg

theorem inv_doIntr {s s' : State ℚ} {o : List (Out ℚ)} {pid : Nat} (h : Inv s) (hs : doIntr pid s = .ok s' o) :
    Inv s' := by
  obtain ⟨rest, huq, _, hc⟩ := doIntr_ok hs
  rcases hc with ⟨hfin, rfl⟩ | ⟨w, hsl, rfl⟩
  · refine inv_pop_intr h huq s.procs rfl ?_ (fun _ _ => rfl)
    intro st hst
    rw [hfin] at hst
    exact (Option.some.inj hst).symm
  · refine inv_pop_intr h huq (s.procs.set pid PStat.finished) List.length_set ?_ ?_
    · intro st hst
      rw [get_set_self hsl] at hst
      exact (Option.some.inj hst).symm
    · intro q hq
      exact get_set_ne (fun e => hq e.symm)

/-- `restart` found `self.proc` alive: it is interrupted and a new process is started -/
theorem inv_respawn {s : State ℚ} (h : Inv s) : Inv (spawn { s with uq := s.uq ++ [UEv.intr s.proc] }) := by
  have hfresh : UEv.intr s.procs.length ∉ s.uq ++ [UEv.intr s.proc] := by
    intro hc
    rcases List.mem_append.mp hc with hc | hc
    · exact Nat.lt_irrefl _ (h.uq_lt _ hc)
    · simp only [List.mem_singleton, UEv.intr.injEq] at hc
      have := h.proc_lt
      omega
  refine ⟨?_, ?_, ?_, ?_, ?_, ?_⟩
  · show s.procs.length < (s.procs ++ [PStat.notStarted]).length
    simp
  · intro u hu
    show u.pid < (s.procs ++ [PStat.notStarted]).length
    have hu : u ∈ (s.uq ++ [UEv.intr s.proc]) ++ [UEv.init s.procs.length] := hu
    simp only [List.length_append, List.length_singleton]
    rcases List.mem_append.mp hu with hu | hu
    · rcases List.mem_append.mp hu with hu | hu
      · exact Nat.lt_succ_of_lt (h.uq_lt u hu)
      · simp only [List.mem_singleton] at hu; subst hu; exact Nat.lt_succ_of_lt h.proc_lt
    · simp only [List.mem_singleton] at hu; subst hu; exact Nat.lt_succ_self _
  · intro q st hg hne hfin
    have hg : (s.procs ++ [PStat.notStarted])[q]? = some st := hg
    have hne : q ≠ s.procs.length := hne
    show UEv.intr q ∈ (s.uq ++ [UEv.intr s.proc]) ++ [UEv.init s.procs.length]
    rcases get_concat_cases hg with hold | ⟨hq, _⟩
    · by_cases hqp : q = s.proc
      · subst hqp; simp
      · have := h.old_intr q st hold hqp hfin
        simp [this]
    · exact absurd hq hne
  · intro q hg
    have hg : (s.procs ++ [PStat.notStarted])[q]? = some PStat.notStarted := hg
    show ∃ a b, (s.uq ++ [UEv.intr s.proc]) ++ [UEv.init s.procs.length] = a ++ UEv.init q :: b ∧ UEv.intr q ∉ a
    rcases get_concat_cases hg with hold | ⟨hq, _⟩
    · obtain ⟨a, b, hab, hni⟩ := h.init_first q hold
      refine ⟨a, b ++ [UEv.intr s.proc] ++ [UEv.init s.procs.length], ?_, hni⟩
      rw [hab]; simp
    · subst hq
      exact ⟨s.uq ++ [UEv.intr s.proc], [], rfl, hfresh⟩
  · show UEv.intr s.procs.length ∉ (s.uq ++ [UEv.intr s.proc]) ++ [UEv.init s.procs.length]
    intro hc
    rcases List.mem_append.mp hc with hc | hc
    · exact hfresh hc
    · simp at hc
  · intro q w hg
    have hg : (s.procs ++ [PStat.notStarted])[q]? = some (PStat.sleeping w) := hg
    rcases get_concat_cases hg with hold | ⟨_, hc⟩
    · exact h.sleep_ge q w hold
    · cases hc

/-- `Timer.restart` never raises, and does one of two things -/
theorem restartCall_spec {s : State ℚ} (h : Inv s) (active : Option Nat) (tau : ℚ) :
    (restartCall active tau s = .ok (rebase tau s) ∧
      (active = some s.proc ∨ s.procs[s.proc]? = some PStat.finished)) ∨
    (active ≠ some s.proc ∧ (∃ st, s.procs[s.proc]? = some st ∧ st ≠ PStat.finished) ∧
      restartCall active tau s = .ok (spawn { rebase tau s with uq := s.uq ++ [UEv.intr s.proc] })) := by
  unfold restartCall
  by_cases hact : active = some s.proc
  · left
    refine ⟨?_, Or.inl hact⟩
    show (if active = some s.proc then _ else _) = _
    rw [if_pos hact]
  · obtain ⟨st, hget⟩ : ∃ st, s.procs[s.proc]? = some st := ⟨_, List.getElem?_eq_getElem h.proc_lt⟩
    have hp : (rebase tau s).proc = s.proc := rfl
    have hps : (rebase tau s).procs = s.procs := rfl
    cases st with
    | finished =>
      left
      refine ⟨?_, Or.inr hget⟩
      simp only [hp, hps, if_neg hact, hget, PStat.alive]
      rfl
    | notStarted =>
      right
      refine ⟨hact, ⟨_, hget, by intro hc; cases hc⟩, ?_⟩
      simp only [hp, hps, if_neg hact, hget, PStat.alive, if_true, interruptReq]
      rfl
    | sleeping w =>
      right
      refine ⟨hact, ⟨_, hget, by intro hc; cases hc⟩, ?_⟩
      simp only [hp, hps, if_neg hact, hget, PStat.alive, if_true, interruptReq]
      rfl

theorem restartCall_inv {s s' : State ℚ} (h : Inv s) {active : Option Nat} {tau : ℚ}
    (hr : restartCall active tau s = .ok s') : Inv s' := by
  rcases restartCall_spec h active tau with ⟨he, _⟩ | ⟨_, _, he⟩
  · rw [he] at hr; cases hr; exact inv_rebase tau h
  · rw [he] at hr; cases hr; exact inv_respawn (inv_rebase tau h)

theorem restartCall_no_error {s : State ℚ} (h : Inv s) (active : Option Nat) (tau : ℚ) (e : Err) :
    restartCall active tau s ≠ .error e := by
  intro hc
  rcases restartCall_spec h active tau with ⟨he, _⟩ | ⟨_, _, he⟩ <;> (rw [he] at hc; cases hc)

/-- what a callback's calls leave unchanged -/
structure CbFrame (s s' : State ℚ) : Prop where
  now_eq : s'.now = s.now
  args_eq : s'.args = s.args
  auto_eq : s'.auto = s.auto
  stopped_mono : s.stopped = true → s'.stopped = true
  procs_ext : ∀ (q : Nat) (st : PStat ℚ), s.procs[q]? = some st → s'.procs[q]? = some st
  new_unstarted : ∀ (q : Nat) (st : PStat ℚ), s'.procs[q]? = some st → s.procs[q]? = some st ∨ st = PStat.notStarted

theorem CbFrame.refl (s : State ℚ) : CbFrame s s :=
  ⟨rfl, rfl, rfl, id, fun _ _ h => h, fun _ _ h => Or.inl h⟩

theorem CbFrame.trans {a b c : State ℚ} (h1 : CbFrame a b) (h2 : CbFrame b c) : CbFrame a c := by
  refine ⟨h2.now_eq.trans h1.now_eq, h2.args_eq.trans h1.args_eq, h2.auto_eq.trans h1.auto_eq,
    fun h => h2.stopped_mono (h1.stopped_mono h), fun q st h => h2.procs_ext q st (h1.procs_ext q st h), ?_⟩
  intro q st h
  rcases h2.new_unstarted q st h with h | h
  · exact h1.new_unstarted q st h
  · exact Or.inr h

theorem restartCall_frame {s s' : State ℚ} (h : Inv s) {active : Option Nat} {tau : ℚ}
    (hr : restartCall active tau s = .ok s') : CbFrame s s' := by
  rcases restartCall_spec h active tau with ⟨he, _⟩ | ⟨_, _, he⟩
  · rw [he] at hr; cases hr
    exact ⟨rfl, rfl, rfl, id, fun _ _ h => h, fun _ _ h => Or.inl h⟩
  · rw [he] at hr; cases hr
    refine ⟨rfl, rfl, rfl, id, ?_, ?_⟩
    · intro q st hq
      show (s.procs ++ [PStat.notStarted])[q]? = some st
      exact get_append_old _ hq
    · intro q st hq
      have hq : (s.procs ++ [PStat.notStarted])[q]? = some st := hq
      rcases get_concat_cases hq with hq | ⟨_, hq⟩
      · exact Or.inl hq
      · exact Or.inr hq

theorem cbOp_inv {s s' : State ℚ} (h : Inv s) {pid : Nat} {op : CbOp ℚ} (hr : cbOp pid s op = .ok s') :
    Inv s' ∧ CbFrame s s' := by
  cases op with
  | stop =>
    simp only [cbOp] at hr
    cases hr
    exact ⟨inv_stopBody h, ⟨rfl, rfl, rfl, fun _ => rfl, fun _ _ h => h, fun _ _ h => Or.inl h⟩⟩
  | restart tau => exact ⟨restartCall_inv h hr, restartCall_frame h hr⟩

theorem runCb_inv {pid : Nat} : ∀ {cb : List (CbOp ℚ)} {s s' : State ℚ}, Inv s → runCb pid cb s = .ok s' →
    Inv s' ∧ CbFrame s s'
  | [], s, s', h, hr => by
    simp only [runCb] at hr; cases hr; exact ⟨h, CbFrame.refl s⟩
  | op :: ops, s, s', h, hr => by
    rw [runCb] at hr
    cases hop : cbOp pid s op with
    | ok s1 =>
      rw [hop] at hr
      have h1 := cbOp_inv h hop
      have h2 := runCb_inv h1.1 hr
      exact ⟨h2.1, h1.2.trans h2.2⟩
    | error e => rw [hop] at hr; cases hr

theorem runCb_no_error {pid : Nat} : ∀ {cb : List (CbOp ℚ)} {s : State ℚ} (e : Err), Inv s →
    runCb pid cb s ≠ .error e
  | [], s, e, h => by simp [runCb]
  | op :: ops, s, e, h => by
    rw [runCb]
    cases hop : cbOp pid s op with
    | ok s1 => exact runCb_no_error e (cbOp_inv h hop).1
    | error e' =>
      exfalso
      cases op with
      | stop => simp [cbOp] at hop
      | restart tau => exact restartCall_no_error h _ tau e' hop

theorem inv_wakeBody {s s' : State ℚ} {o : List (Out ℚ)} {pid : Nat} {cb : List (CbOp ℚ)} (h : Inv s)
    (hsl : s.procs[pid]? = some (PStat.sleeping s.now)) (hs : wakeBody pid cb s = .ok s' o) : Inv s' := by
  rcases wakeBody_ok hs with ⟨_, _, rfl, _⟩ | ⟨_, s1, hcb, rfl, _⟩
  · exact inv_loopTest h hsl (by intro hc; cases hc)
  · obtain ⟨hi, hf⟩ := runCb_inv h hcb
    have h1 : (autoRebase s1).procs[pid]? = some (PStat.sleeping s.now) := by
      have : (autoRebase s1).procs = s1.procs := by unfold autoRebase; split <;> rfl
      rw [this]; exact hf.procs_ext pid _ hsl
    exact inv_loopTest (inv_autoRebase hi) h1 (by intro hc; cases hc)

theorem inv_tick {s : State ℚ} (h : Inv s) {t : ℚ} (hd : ∀ (pid : Nat) (w : ℚ), s.procs[pid]? = some (PStat.sleeping w) → t ≤ w) :
    Inv { s with now := t } :=
  ⟨h.proc_lt, h.uq_lt, h.old_intr, h.init_first, h.no_intr_proc, hd⟩

/-- **every enabled action keeps the invariant** -/
theorem step_inv {s s' : State ℚ} {o : List (Out ℚ)} {a : Action ℚ} (h : Inv s) (hs : step s a = .ok s' o) : Inv s' := by
  cases a with
  | init pid => exact inv_doInit h hs
  | intr pid => exact inv_doIntr h hs
  | wake pid cb =>
    obtain ⟨_, hsl, hw⟩ := doWake_ok hs
    exact inv_wakeBody h hsl hw
  | stop =>
    simp only [step, Res.ok.injEq] at hs
    rw [← hs.1]; exact inv_stopBody h
  | restart tau =>
    simp only [step] at hs
    cases hr : restartCall none tau s with
    | ok s1 =>
      rw [hr] at hs; simp only [ofExcept, Res.ok.injEq] at hs
      rw [← hs.1]; exact restartCall_inv h hr
    | error e => rw [hr] at hs; cases hs
  | tick t =>
    obtain ⟨_, _, hd, rfl, _⟩ := doTick_ok hs
    exact inv_tick h hd

/-- **no enabled or disabled action raises** in a state that satisfies the invariant -/
theorem step_no_raise {s : State ℚ} (h : Inv s) (a : Action ℚ) (e : Err) : step s a ≠ .raised e := by
  intro hc
  cases a with
  | init pid =>
    simp only [step, doInit] at hc
    split at hc
    · split at hc
      · split at hc <;> cases hc
      · cases hc
    · cases hc
  | intr pid =>
    obtain ⟨rest, huq, hns⟩ := doIntr_raised hc
    obtain ⟨a, b, hab, hni⟩ := h.init_first pid hns
    rw [huq] at hab
    cases a with
    | nil => simp only [List.nil_append, List.cons.injEq] at hab; cases hab.1
    | cons x a' =>
      simp only [List.cons_append, List.cons.injEq] at hab
      exact hni (by rw [← hab.1]; exact List.mem_cons_self)
  | wake pid cb =>
    obtain ⟨_, _, _, hcb⟩ := doWake_raised hc
    exact runCb_no_error e h hcb
  | stop => simp [step] at hc
  | restart tau =>
    simp only [step] at hc
    cases hr : restartCall none tau s with
    | ok s1 => rw [hr] at hc; cases hc
    | error e' => exact restartCall_no_error h none tau e' hr
  | tick t =>
    simp only [step, doTick] at hc
    split at hc
    · split at hc <;> cases hc
    · cases hc

theorem run_inv : ∀ {acts : List (Action ℚ)} {s s' : State ℚ} {o : List (Out ℚ)}, Inv s → run s acts = .ok s' o → Inv s'
  | [], s, s', o, h, hr => by cases hr; exact h
  | a :: as, s, s', o, h, hr => by
    obtain ⟨s1, o1, o2, hs, hr', _⟩ := run_cons_ok hr
    exact run_inv (step_inv h hs) hr'

theorem run_no_raise : ∀ {acts : List (Action ℚ)} {s : State ℚ} (e : Err), Inv s → run s acts ≠ .raised e
  | [], s, e, h => by simp [run]
  | a :: as, s, e, h => by
    intro hc
    rcases run_raised_cons hc with hc | ⟨s1, o1, hs, hc⟩
    · exact step_no_raise h a e hc
    · exact run_no_raise e (step_inv h hs) hc

/-- the constructor accepts exactly the positive timeouts, and establishes the invariant -/
theorem create_ok_iff (t0 T : ℚ) (auto : Bool) (a : ArgSpec) :
    (∃ s, create t0 T auto a = .ok s) ↔ 0 < T := by
  unfold create
  rw [zero_eq]
  constructor
  · rintro ⟨s, hs⟩
    by_contra hc
    rw [if_pos (not_lt.mp hc)] at hs
    cases hs
  · intro h
    rw [if_neg (not_le.mpr h)]
    exact ⟨_, rfl⟩

theorem create_inv {t0 T : ℚ} {auto : Bool} {a : ArgSpec} {s : State ℚ} (h : create t0 T auto a = .ok s) : Inv s := by
  unfold create at h
  split at h
  · cases h
  · cases h
    refine ⟨by simp, ?_, ?_, ?_, ?_, ?_⟩
    · intro u hu; simp only [List.mem_singleton] at hu; subst hu; simp [UEv.pid]
    · intro pid st hg hne _
      exfalso
      have := lt_of_get hg
      simp only [List.length_singleton] at this
      exact hne (by show pid = 0; omega)
    · intro pid hg
      have := lt_of_get hg
      simp only [List.length_singleton] at this
      have hp : pid = 0 := by omega
      subst hp
      exact ⟨[], [], rfl, by simp⟩
    · simp
    · intro pid w hg
      have := lt_of_get hg
      simp only [List.length_singleton] at this
      have hp : pid = 0 := by omega
      subst hp
      simp at hg

end Timer
