import OnlVerif.Lemmas.DRRKLoopSpec
/-!
# The DRR scheduler on the kernel model: every configuration step keeps `AInv` and lowers the step bound
-/

set_option linter.unusedSimpArgs false

namespace DRRK
open DRROnK QEntry

/-! ## sums over the classes -/

theorem sumFrom_nonneg (c : Nat → Int) : ∀ (n f : Nat), (∀ j, f ≤ j → j < f + n → 0 ≤ c j) → 0 ≤ sumFrom c f n
  | 0, _, _ => le_refl _
  | n + 1, f, h => by
    have h1 := h f (Nat.le_refl _) (by omega)
    have h2 := sumFrom_nonneg c n (f + 1) (fun j a b => h j (by omega) (by omega))
    simp only [sumFrom]; omega

theorem sumFrom_zero (c : Nat → Int) : ∀ (n f : Nat), (∀ j, f ≤ j → j < f + n → 0 ≤ c j) → sumFrom c f n = 0 →
    ∀ j, f ≤ j → j < f + n → c j = 0
  | 0, _, _, _ => fun j a b => by omega
  | n + 1, f, h, hz => by
    have h1 := h f (Nat.le_refl _) (by omega)
    have h2 := sumFrom_nonneg c n (f + 1) (fun j a b => h j (by omega) (by omega))
    simp only [sumFrom] at hz
    intro j a b
    by_cases hj : j = f
    · subst hj; omega
    · exact sumFrom_zero c n (f + 1) (fun j a b => h j (by omega) (by omega)) (by omega) j (by omega) (by omega)

theorem sumFrom_all_zero (c : Nat → Int) : ∀ (n f : Nat), (∀ j, f ≤ j → j < f + n → c j = 0) → sumFrom c f n = 0
  | 0, _, _ => rfl
  | n + 1, f, h => by
    simp only [sumFrom, h f (Nat.le_refl _) (by omega),
      sumFrom_all_zero c n (f + 1) (fun j a b => h j (by omega) (by omega))]
    rfl

theorem sumFrom_pos (c : Nat → Int) : ∀ (n f : Nat), 0 < sumFrom c f n → ∃ j, f ≤ j ∧ j < f + n ∧ 0 < c j
  | 0, _, h => by simp [sumFrom] at h
  | n + 1, f, h => by
    simp only [sumFrom] at h
    by_cases hf : 0 < c f
    · exact ⟨f, Nat.le_refl _, by omega, hf⟩
    · obtain ⟨j, h1, h2, h3⟩ := sumFrom_pos c n (f + 1) (by omega)
      exact ⟨j, by omega, by omega, h3⟩

theorem sumFrom_congr (c c' : Nat → Int) : ∀ (n f : Nat), (∀ j, f ≤ j → j < f + n → c j = c' j) → sumFrom c f n = sumFrom c' f n
  | 0, _, _ => rfl
  | n + 1, f, h => by
    simp only [sumFrom, h f (Nat.le_refl _) (by omega), sumFrom_congr c c' n (f + 1) (fun j a b => h j (by omega) (by omega))]

/-- steps a parked head still needs -/
def hw (o : Option Int) : Nat := if o.isSome then 3 else 0

theorem waitingFrom_eq (items : Nat → List Int) (hol : Nat → Option Int) (f n : Nat) :
    waitingFrom items hol f (n + 1) = 4 * (items f).length + hw (hol f) + waitingFrom items hol (f + 1) n := rfl

theorem waitingFrom_congr (items items' : Nat → List Int) (hol hol' : Nat → Option Int) : ∀ (n f0 : Nat),
    (∀ j, f0 ≤ j → j < f0 + n → items j = items' j ∧ hol j = hol' j) → waitingFrom items hol f0 n = waitingFrom items' hol' f0 n
  | 0, _, _ => rfl
  | n + 1, f0, h => by
    rw [waitingFrom_eq, waitingFrom_eq, (h f0 (Nat.le_refl _) (by omega)).1, (h f0 (Nat.le_refl _) (by omega)).2,
      waitingFrom_congr items items' hol hol' n (f0 + 1) (fun j a b => h j (by omega) (by omega))]

theorem waitingFrom_upd (items : Nat → List Int) (hol : Nat → Option Int) (f : Nat) (l : List Int) (o : Option Int) :
    ∀ (n f0 : Nat), f0 ≤ f → f < f0 + n →
    waitingFrom (upd items f l) (upd hol f o) f0 n + 4 * (items f).length + hw (hol f) =
      waitingFrom items hol f0 n + 4 * l.length + hw o
  | 0, f0, h1, h2 => by omega
  | n + 1, f0, h1, h2 => by
    rw [waitingFrom_eq, waitingFrom_eq]
    by_cases hf : f0 = f
    · subst hf
      have : waitingFrom (upd items f0 l) (upd hol f0 o) (f0 + 1) n = waitingFrom items hol (f0 + 1) n :=
        waitingFrom_congr _ _ _ _ n (f0 + 1) (fun j a _ => ⟨upd_ne _ _ _ _ (by omega), upd_ne _ _ _ _ (by omega)⟩)
      rw [this, upd_same, upd_same]; omega
    · have := waitingFrom_upd items hol f l o n (f0 + 1) (by omega) (by omega)
      rw [upd_ne _ _ _ _ hf, upd_ne _ _ _ _ hf]; omega

theorem upd_self {β : Type} (g : Nat → β) (f : Nat) : upd g f (g f) = g := by
  funext x
  by_cases h : x = f
  · subst h; simp
  · simp [upd_ne _ _ _ _ h]

theorem waitingFrom_zero (items : Nat → List Int) (hol : Nat → Option Int) : ∀ (n f0 : Nat),
    (∀ j, f0 ≤ j → j < f0 + n → items j = [] ∧ hol j = none) → waitingFrom items hol f0 n = 0
  | 0, _, _ => rfl
  | n + 1, f0, h => by
    rw [waitingFrom_eq, (h f0 (Nat.le_refl _) (by omega)).1, (h f0 (Nat.le_refl _) (by omega)).2,
      waitingFrom_zero items hol n (f0 + 1) (fun j a b => h j (by omega) (by omega))]
    rfl

variable {F : Nat} {flow size : Int → Nat} {cfg : DRR.Cfg ℚ} {Lmax P : Nat}
variable {a : A} {now : ℚ} {q : QEntry ℚ}

/-! ## the class table -/

theorem mem_flows (ht : FlowsOK F cfg) (f : Nat) : f ∈ cfg.weights.map (·.1) ↔ f < F := by
  rw [ht.1.mem_iff, List.mem_range]

theorem entry_lt (ht : FlowsOK F cfg) {e : Nat × Nat} (he : e ∈ cfg.weights) : e.1 < F :=
  (mem_flows ht e.1).mp (List.mem_map_of_mem he)

theorem flows_nodup (ht : FlowsOK F cfg) : (cfg.weights.map (·.1)).Nodup :=
  ht.1.nodup_iff.mpr List.nodup_range

theorem cfgOk_of (ht : FlowsOK F cfg) : DRR.CfgOk cfg := ⟨flows_nodup ht, ht.2.1⟩

/-- the quantum of every class is at least `MIN_QUANTUM` -/
theorem qOf_ge (ht : FlowsOK F cfg) (c : Nat) : 1500 ≤ qOf cfg c := by
  unfold qOf
  cases h : DRR.quantum cfg c with
  | none => simp
  | some q => simpa using DRR.quantum_ge cfg ht.2.1 c q h

/-- a declared class has the quantum `qOf` -/
theorem quantum_eq (ht : FlowsOK F cfg) {c : Nat} (hc : c < F) : DRR.quantum cfg c = some (qOf cfg c) := by
  have hm := (mem_flows ht c).mpr hc
  obtain ⟨e, he, hec⟩ := List.mem_map.mp hm
  unfold qOf
  cases h : DRR.quantum cfg c with
  | some q => rfl
  | none =>
    exfalso
    simp only [DRR.quantum, Option.map_eq_none_iff] at h
    have hk : c ∈ cfg.weights.map (·.1) := hm
    obtain ⟨w, hw⟩ := DRR.lookup_of_mem_keys cfg.weights c hk
    rw [h] at hw; cases hw

/-! ## the configuration a burst of `run` works on -/

variable (flow F size cfg Lmax P) in
/-- what holds of the configuration the loops of a burst work on — the packet `run` resumed with, if any, is parked or
booked: `run` holds no packet -/
structure MidInv (a1 : A) (now : ℚ) : Prop where
  src : SrcA flow F size Lmax now a1.src
  pend : ∀ u ∈ a1.pend, u.1.time = now ∧ u.1.prio = NORMAL
  due : ∀ x ∈ a1.src.entries ++ pendEntries a1.pend, now ≤ x.time
  cur : a1.cur = none
  cntOK : ∀ f, f < F → a1.cnt f = ((a1.items f).length : Nat) + holCnt a1 f
  ccntOK : ∀ f, f < F → a1.ccnt f = a1.cnt f
  flowOK : ∀ f, f < F → ∀ i ∈ a1.items f, flow i = f ∧ size i ≤ Lmax
  holOK : ∀ f, f < F → ∀ i, a1.hol f = some i → flow i = f ∧ size i ≤ Lmax
  keysOK : (∀ f ∈ a1.keys, f < F) ∧ ∀ f, f < F → f ∉ a1.keys → a1.items f = [] ∧ a1.cnt f = 0 ∧ a1.byt f = 0
  dfcOK : ∀ f, f < F → 0 ≤ a1.dfc f
  table : FlowsOK F cfg
  rate : 0 < cfg.rate
  pass : ∃ k, P = k + 1 ∧ Lmax ≤ 1500 * k

/-- the steps a configuration still needs, without those of `run` -/
def midMu (F : Nat) (a : A) : Nat := a.src.mu + a.pend.length + 2 * a.tokens + waitingFrom a.items a.hol 0 F

theorem mu_eq (a : A) : a.mu F = a.run.mu + midMu F a := by
  simp only [A.mu, midMu]; omega

theorem due_src_pend (hi : AInv flow F size cfg Lmax P a now) : ∀ x ∈ a.src.entries ++ pendEntries a.pend, now ≤ x.time := by
  intro x hx
  exact hi.due x (by simp only [A.entries, List.mem_append] at hx ⊢; exact Or.inr hx)

/-- a burst that starts at the top of the loops -/
theorem mid_top (hi : AInv flow F size cfg Lmax P a now) (h : a.run = .init q ∨ ∃ g, a.run = .K g q) :
    MidInv F flow size cfg Lmax P a now ∧ midMu F a + 1 ≤ a.mu F := by
  have hrun := hi.run
  have hheld : a.run.held = none := by rcases h with h | ⟨g, h⟩ <;> simp [h, RPhase.held]
  have hunb : a.run.unbooked = none := by rcases h with h | ⟨g, h⟩ <;> simp [h, RPhase.unbooked]
  have hcur : a.cur = none := by
    rcases h with h | ⟨g, h⟩ <;> rw [h] at hrun
    · exact hrun.2.2.2.2.2.2.1
    · exact hrun.2.2.1
  refine ⟨⟨hi.src, hi.pend, due_src_pend hi, hcur, ?_, ?_, hi.flowOK, hi.holOK, hi.keysOK, hi.dfcOK, hi.table, hi.rate, hi.pass⟩, ?_⟩
  · intro f hf
    have := hi.cntOK f hf
    simpa [heldCnt, hheld] using this
  · intro f hf
    have := hi.ccntOK f hf
    simpa [unbookedCnt, hunb] using this
  · rw [mu_eq]
    rcases h with h | ⟨g, h⟩ <;> simp [h, RPhase.mu] <;> omega

/-- a burst that starts with a packet from a store which the credit does not cover: the packet is parked -/
theorem mid_got {g : EvId} {m : Nat} {id : Int} (hi : AInv flow F size cfg Lmax P a now) (h : a.run = .H g m id q) :
    MidInv F flow size cfg Lmax P { a with hol := upd a.hol (flow id) (some id) } now ∧
    midMu F { a with hol := upd a.hol (flow id) (some id) } + 1 ≤ a.mu F := by
  have hrun := hi.run
  rw [h] at hrun
  obtain ⟨-, -, hcur, hpk, -, hhol, -⟩ := hrun
  have hheld : a.run.held = some id := by simp [h, RPhase.held]
  have hunb : a.run.unbooked = none := by simp [h, RPhase.unbooked]
  refine ⟨⟨hi.src, hi.pend, due_src_pend (a := a) hi, hcur, ?_, ?_, hi.flowOK, ?_, ?_, hi.dfcOK, hi.table, hi.rate, hi.pass⟩, ?_⟩
  · intro f hf
    have := hi.cntOK f hf
    simp only [heldCnt, hheld, holCnt] at this ⊢
    by_cases hff : f = flow id
    · subst hff
      rw [hhol] at this
      simp only [upd_same, Option.isSome_some, if_true] at this ⊢
      simpa using this
    · have hne : ¬ flow id = f := fun hh => hff hh.symm
      simp only [upd_ne _ _ _ _ hff, hne, if_false] at this ⊢
      simpa using this
  · intro f hf
    have := hi.ccntOK f hf
    simpa [unbookedCnt, hunb] using this
  · intro f hf i hi'
    by_cases hff : f = flow id
    · subst hff
      simp only [upd_same, Option.some.injEq] at hi'
      subst hi'
      exact ⟨rfl, hpk.2⟩
    · simp only [upd_ne _ _ _ _ hff] at hi'
      exact hi.holOK f hf i hi'
  · exact hi.keysOK
  · rw [mu_eq]
    have hw1 := waitingFrom_upd a.items a.hol (flow id) (a.items (flow id)) (some id) F 0 (Nat.zero_le _) (by simpa using hpk.1)
    rw [upd_self] at hw1
    simp only [hhol, hw, Option.isSome_none, Option.isSome_some, if_true] at hw1
    simp only [h, RPhase.mu, midMu]
    simp at hw1
    omega

theorem book_same (a : A) (c : Nat) (id : Int) : SameBut a (a.book size c id) := sameBut_book a c id

theorem book_hol (a : A) (c : Nat) (id : Int) : (a.book size c id).hol = a.hol := by
  unfold A.book; split <;> rfl

theorem book_ccnt (a : A) (c : Nat) (id : Int) : (a.book size c id).ccnt = upd a.ccnt c (a.ccnt c + -1) := by
  unfold A.book; split <;> rfl

theorem book_dfc_nonneg (a : A) (c : Nat) (id : Int) (hle : (size id : ℚ) ≤ a.dfc c) (h0 : ∀ f, f < F → 0 ≤ a.dfc f) :
    ∀ f, f < F → 0 ≤ (a.book size c id).dfc f := by
  intro f hf
  unfold A.book
  split
  · show 0 ≤ upd a.dfc c 0 f
    by_cases hfc : f = c
    · subst hfc; simp
    · rw [upd_ne _ _ _ _ hfc]; exact h0 f hf
  · show 0 ≤ upd a.dfc c (a.dfc c - Num.ofNat (size id)) f
    by_cases hfc : f = c
    · subst hfc; rw [upd_same, Num.ofNat_rat]; linarith
    · rw [upd_ne _ _ _ _ hfc]; exact h0 f hf

/-- a burst that starts after a transmission: the packet is booked -/
theorem mid_done {p : EvId} {m : Nat} {id : Int} (hi : AInv flow F size cfg Lmax P a now) (h : a.run = .F p m id q) :
    MidInv F flow size cfg Lmax P (a.book size (flow id) id) now ∧ midMu F (a.book size (flow id) id) + 1 ≤ a.mu F := by
  have hrun := hi.run
  rw [h] at hrun
  obtain ⟨-, -, hcur, hpk, -, hhol, hle⟩ := hrun
  have hheld : a.run.held = none := by simp [h, RPhase.held]
  have hunb : a.run.unbooked = some id := by simp [h, RPhase.unbooked]
  have hs := book_same (size := size) a (flow id) id
  refine ⟨⟨hs.src ▸ hi.src, hs.pend ▸ hi.pend, by rw [hs.src, hs.pend]; exact due_src_pend hi, hs.cur ▸ hcur, ?_, ?_, ?_, ?_, ?_,
    book_dfc_nonneg a _ id hle hi.dfcOK, hi.table, hi.rate, hi.pass⟩, ?_⟩
  · intro f hf
    have := hi.cntOK f hf
    simp only [heldCnt, hheld, holCnt] at this ⊢
    rw [hs.cnt, hs.items, book_hol]
    simpa using this
  · intro f hf
    have := hi.ccntOK f hf
    simp only [unbookedCnt, hunb] at this
    rw [book_ccnt, hs.cnt]
    by_cases hff : f = flow id
    · subst hff; rw [upd_same, this]; simp
    · have hne : ¬ flow id = f := fun hh => hff hh.symm
      rw [upd_ne _ _ _ _ hff, this]; simp [hne]
  · rw [hs.items]; exact hi.flowOK
  · rw [book_hol]; exact hi.holOK
  · rw [hs.keys, hs.items, hs.cnt, hs.byt]; exact hi.keysOK
  · rw [mu_eq]
    simp only [h, RPhase.mu, midMu, hs.src, hs.pend, hs.tokens, hs.items, book_hol]
    omega

/-! ## the loops on such a configuration end the burst -/

theorem mid_cnt_nonneg {a1 : A} (hm : MidInv F flow size cfg Lmax P a1 now) {f : Nat} (hf : f < F) : 0 ≤ a1.cnt f := by
  rw [hm.cntOK f hf]
  unfold holCnt
  split <;> omega

theorem mid_total_nonneg {a1 : A} (hm : MidInv F flow size cfg Lmax P a1 now) : 0 ≤ a1.total F :=
  sumFrom_nonneg _ _ _ (fun j _ hj => mid_cnt_nonneg hm (by omega))

/-- the rest of a burst after a piece of the `for` loop: it ends (no hang), in one of the ways `EndOK` describes, and the
credits have only grown -/
theorem loop_post {a1 : A} {t : ℚ} (hm : MidInv F flow size cfg Lmax P a1 now) (piece : LS × Option LoopEnd)
    (hE : EndOK size a1.ccnt a1.hol (a1.total F) cfg.weights piece.1 piece.2) (hmono : ∀ f, a1.dfc f ≤ piece.1.dfc f) :
    (thenPasses (qOf cfg) size a1.ccnt a1.hol t (a1.total F) cfg.weights P piece).2 ≠ .hang ∧
    EndOK size a1.ccnt a1.hol (a1.total F) cfg.weights (thenPasses (qOf cfg) size a1.ccnt a1.hol t (a1.total F) cfg.weights P piece).1
      (some (thenPasses (qOf cfg) size a1.ccnt a1.hol t (a1.total F) cfg.weights P piece).2) ∧
    ∀ f, a1.dfc f ≤ (thenPasses (qOf cfg) size a1.ccnt a1.hol t (a1.total F) cfg.weights P piece).1.dfc f := by
  obtain ⟨L', oe⟩ := piece
  cases oe with
  | some e =>
    simp only [thenPasses]
    refine ⟨?_, hE, hmono⟩
    rintro rfl
    exact hE
  | none =>
    simp only [thenPasses]
    obtain ⟨k, rfl, hk⟩ := hm.pass
    have hQ := qOf_ge hm.table
    have hQ0 : ∀ c, 0 ≤ qOf cfg c := fun c => by linarith [hQ c]
    have hnh := passes_no_hang (size := size) (ccnt := a1.ccnt) (hol := a1.hol) (t := t) (total := a1.total F) (ws := cfg.weights) hQ
      (flows_nodup hm.table) (mid_total_nonneg hm) k L'
      (fun c hc => le_trans (hm.dfcOK c ((mem_flows hm.table c).mp hc)) (hmono c))
      (by
        intro hpos
        obtain ⟨j, -, hj, hcp⟩ := sumFrom_pos _ _ _ hpos
        have hjF : j < F := by omega
        refine ⟨j, (mem_flows hm.table j).mpr hjF, by rw [hm.ccntOK j hjF]; exact hcp, ?_⟩
        intro id hid
        have h1 := (hm.holOK j hjF id hid).2
        have h2 : (0 : ℚ) ≤ L'.dfc j := le_trans (hm.dfcOK j hjF) (hmono j)
        have h3 : ((size id : ℕ) : ℚ) ≤ ((1500 * k : ℕ) : ℚ) := by exact_mod_cast le_trans h1 hk
        rw [Num.ofNat_rat]
        push_cast at h3
        linarith)
    have hok := passes_ok (size := size) (ccnt := a1.ccnt) (hol := a1.hol) (t := t) (total := a1.total F) (ws := cfg.weights) hQ0 (k + 1) L'
    exact ⟨hnh, hok.1 hnh, fun f => le_trans (hmono f) (hok.2 f)⟩

/-! ## counting -/

theorem holCnt_none {a : A} {f : Nat} (h : a.hol f = none) : holCnt a f = 0 := by unfold holCnt; rw [h]; rfl
theorem holCnt_some {a : A} {f : Nat} {i : Int} (h : a.hol f = some i) : holCnt a f = 1 := by unfold holCnt; rw [h]; rfl
theorem holCnt_eq {a a' : A} {f : Nat} (h : a'.hol f = a.hol f) : holCnt a' f = holCnt a f := by unfold holCnt; rw [h]
theorem heldCnt_none {a : A} (h : a.run.held = none) (f : Nat) : heldCnt flow a f = 0 := by unfold heldCnt; rw [h]
theorem heldCnt_some {a : A} {id : Int} (h : a.run.held = some id) (f : Nat) :
    heldCnt flow a f = if flow id = f then 1 else 0 := by unfold heldCnt; rw [h]
theorem heldCnt_congr {a a' : A} (h : a'.run.held = a.run.held) (f : Nat) : heldCnt flow a' f = heldCnt flow a f := by
  simp [heldCnt, h]
theorem unbookedCnt_congr {a a' : A} (h : a'.run.unbooked = a.run.unbooked) (f : Nat) :
    unbookedCnt flow a' f = unbookedCnt flow a f := by
  simp [unbookedCnt, h]
theorem unbookedCnt_none {a : A} (h : a.run.unbooked = none) (f : Nat) : unbookedCnt flow a f = 0 := by
  unfold unbookedCnt; rw [h]
theorem unbookedCnt_some {a : A} {id : Int} (h : a.run.unbooked = some id) (f : Nat) :
    unbookedCnt flow a f = if flow id = f then 1 else 0 := by unfold unbookedCnt; rw [h]

/-! ## how a burst ends -/

variable {n e : Nat}

theorem due_of_mid {a1 a' : A} (hm : MidInv F flow size cfg Lmax P a1 now) (hsrc : a'.src = a1.src) (hpend : a'.pend = a1.pend)
    (hrun : ∀ x ∈ a'.run.entries, now ≤ x.time) : ∀ x ∈ a'.entries, now ≤ x.time := by
  intro x hx
  simp only [A.entries, List.mem_append] at hx
  rcases hx with hx | hx
  · exact hrun x hx
  · exact hm.due x (by rw [hsrc, hpend] at hx; exact List.mem_append.mpr hx)

/-- the burst ends with a `get` on the store of class `c'` -/
theorem ainv_end_get {a1 : A} (hm : MidInv F flow size cfg Lmax P a1 now) (L : LS) (hmono : ∀ f, a1.dfc f ≤ L.dfc f)
    {m' c' : Nat} (hE : EndOK size a1.ccnt a1.hol (a1.total F) cfg.weights L (some (.get m' c'))) (hc' : c' < F)
    {id' : Int} {is : List Int} (hit : a1.items c' = id' :: is) :
    AInv flow F size cfg Lmax P
      { (finA a1 L (some (.get m' c'))) with run := .H n m' id' ⟨now, NORMAL, e, n⟩, items := upd a1.items c' is } now ∧
    ({ (finA a1 L (some (.get m' c'))) with run := .H n m' id' ⟨now, NORMAL, e, n⟩, items := upd a1.items c' is } : A).mu F ≤
      midMu F a1 := by
  obtain ⟨⟨w, hw⟩, hhol, hdpos, hcpos⟩ := hE
  obtain ⟨hfl, hsz⟩ := hm.flowOK c' hc' id' (by rw [hit]; simp)
  refine ⟨⟨⟨rfl, rfl, hm.cur, ⟨hfl ▸ hc', hsz⟩, ⟨w, hfl ▸ hw⟩, by rw [hfl]; exact hhol, by rw [hfl]; exact hdpos⟩, hm.src, hm.pend,
    due_of_mid hm rfl rfl (by simp [RPhase.entries]), ?_, ?_, ?_, hm.holOK, ?_, ?_, hm.table, hm.rate, hm.pass⟩, ?_⟩
  · intro f hf
    have := hm.cntOK f hf
    show a1.cnt f = ((upd a1.items c' is f).length : Nat) + holCnt _ f + heldCnt flow _ f
    rw [holCnt_eq (a := a1) (by rfl), heldCnt_some (id := id') (by rfl)]
    by_cases hff : f = c'
    · subst hff
      rw [upd_same, this, hit, hfl]
      simp only [List.length_cons, if_true]; push_cast; ring
    · have hne : ¬ flow id' = f := by rw [hfl]; exact fun hh => hff hh.symm
      rw [upd_ne _ _ _ _ hff, this, if_neg hne]; ring
  · intro f hf
    show a1.ccnt f = a1.cnt f + unbookedCnt flow _ f
    rw [unbookedCnt_none (by rfl), hm.ccntOK f hf]; ring
  · intro f hf x hx
    dsimp only at hx
    by_cases hff : f = c'
    · subst hff
      rw [upd_same] at hx
      exact hm.flowOK f hf x (by rw [hit]; exact List.mem_cons_of_mem _ hx)
    · rw [upd_ne _ _ _ _ hff] at hx
      exact hm.flowOK f hf x hx
  · refine ⟨hm.keysOK.1, ?_⟩
    intro f hf hk
    obtain ⟨h1, h2, h3⟩ := hm.keysOK.2 f hf hk
    have hff : f ≠ c' := by rintro rfl; rw [hit] at h1; cases h1
    exact ⟨by dsimp only; rw [upd_ne _ _ _ _ hff]; exact h1, h2, h3⟩
  · intro f hf
    exact le_trans (hm.dfcOK f hf) (hmono f)
  · have hw1 := waitingFrom_upd a1.items a1.hol c' is (a1.hol c') F 0 (Nat.zero_le _) (by simpa using hc')
    rw [upd_self, hit] at hw1
    simp only [A.mu, midMu, RPhase.mu, finA, holAfter, List.length_cons] at hw1 ⊢
    omega

/-- the burst ends with the transmission of the parked head of class `c'` -/
theorem ainv_end_send {a1 : A} (hm : MidInv F flow size cfg Lmax P a1 now) (L : LS) (hmono : ∀ f, a1.dfc f ≤ L.dfc f)
    {m' c' : Nat} {id' : Int} {pk : Bool} (hE : EndOK size a1.ccnt a1.hol (a1.total F) cfg.weights L (some (.send m' c' id' pk))) :
    AInv flow F size cfg Lmax P
      { (finA a1 L (some (.send m' c' id' pk))) with run := .S n m' id' ⟨now, URGENT, e, n + 1⟩, cur := some id' } now ∧
    ({ (finA a1 L (some (.send m' c' id' pk))) with run := .S n m' id' ⟨now, URGENT, e, n + 1⟩, cur := some id' } : A).mu F ≤
      midMu F a1 := by
  obtain ⟨rfl, ⟨w, hw⟩, hhol, hle, hcpos⟩ := hE
  have hc' : c' < F := entry_lt hm.table (List.mem_of_getElem? hw)
  obtain ⟨hfl, hsz⟩ := hm.holOK c' hc' id' hhol
  have hle' : (size id' : ℚ) ≤ L.dfc c' := by rw [Num.ofNat_rat] at hle; exact hle
  refine ⟨⟨⟨rfl, rfl, rfl, ⟨hfl ▸ hc', hsz⟩, ⟨w, hfl ▸ hw⟩, by simp [finA, holAfter, hfl], by simpa [finA, hfl] using hle'⟩,
    hm.src, hm.pend, due_of_mid hm rfl rfl (by simp [RPhase.entries]), ?_, ?_, hm.flowOK, ?_, hm.keysOK, ?_, hm.table, hm.rate, hm.pass⟩, ?_⟩
  · intro f hf
    have := hm.cntOK f hf
    show a1.cnt f = ((a1.items f).length : Nat) + holCnt _ f + heldCnt flow _ f
    rw [heldCnt_some (id := id') (by rfl)]
    by_cases hff : f = c'
    · subst hff
      rw [this, holCnt_some hhol, holCnt_none (show (upd a1.hol f none) f = none from upd_same _ _ _), hfl]
      simp
    · have hne : ¬ flow id' = f := by rw [hfl]; exact fun hh => hff hh.symm
      rw [holCnt_eq (a := a1) (show (upd a1.hol c' none) f = a1.hol f from upd_ne _ _ _ _ hff), this, if_neg hne]; ring
  · intro f hf
    show a1.ccnt f = a1.cnt f + unbookedCnt flow _ f
    rw [unbookedCnt_none (by rfl), hm.ccntOK f hf]; ring
  · intro f hf i hi'
    change upd a1.hol c' none f = some i at hi'
    by_cases hff : f = c'
    · subst hff; rw [upd_same] at hi'; cases hi'
    · rw [upd_ne _ _ _ _ hff] at hi'
      exact hm.holOK f hf i hi'
  · intro f hf
    exact le_trans (hm.dfcOK f hf) (hmono f)
  · have hw1 := waitingFrom_upd a1.items a1.hol c' (a1.items c') none F 0 (Nat.zero_le _) (by simpa using hc')
    rw [upd_self, hhol] at hw1
    have e1 : DRRK.hw (some id') = 3 := rfl
    have e2 : DRRK.hw none = 0 := rfl
    rw [e1, e2] at hw1
    simp only [A.mu, midMu, RPhase.mu, finA, holAfter]
    omega

/-- `total_packets == 0` on a configuration in which `run` holds nothing: every store is empty, nothing is parked -/
theorem mid_empty {a1 : A} (hm : MidInv F flow size cfg Lmax P a1 now) (ht : a1.total F = 0) :
    ∀ f, f < F → a1.items f = [] ∧ a1.hol f = none := by
  intro f hf
  have hz := sumFrom_zero a1.cnt F 0 (fun j _ hj => mid_cnt_nonneg hm (by omega)) ht f (Nat.zero_le _) (by omega)
  have := hm.cntOK f hf
  rw [hz] at this
  unfold holCnt at this
  cases hh : a1.hol f with
  | none => exact ⟨List.eq_nil_of_length_eq_zero (by rw [hh] at this; simp at this; omega), rfl⟩
  | some i => rw [hh] at this; simp at this; omega

/-- the burst ends with the wait for the wake-up token -/
theorem ainv_end_idle {a1 : A} (hm : MidInv F flow size cfg Lmax P a1 now) (L : LS) (hmono : ∀ f, a1.dfc f ≤ L.dfc f)
    (hE : EndOK size a1.ccnt a1.hol (a1.total F) cfg.weights L (some .idle)) (r : RPhase) (tk : Nat)
    (hr : (r = .W n ∧ tk = 0 ∧ a1.tokens = 0) ∨ (r = .K n ⟨now, NORMAL, e, n⟩ ∧ a1.tokens = tk + 1)) :
    AInv flow F size cfg Lmax P { (finA a1 L (some .idle)) with run := r, tokens := tk } now ∧
    ({ (finA a1 L (some .idle)) with run := r, tokens := tk } : A).mu F ≤ midMu F a1 := by
  have hemp := mid_empty hm hE
  have hheld : r.held = none := by rcases hr with ⟨rfl, -⟩ | ⟨rfl, -⟩ <;> rfl
  have hunb : r.unbooked = none := by rcases hr with ⟨rfl, -⟩ | ⟨rfl, -⟩ <;> rfl
  refine ⟨⟨?_, hm.src, hm.pend, due_of_mid hm rfl rfl ?_, ?_, ?_, hm.flowOK, hm.holOK, hm.keysOK, ?_, hm.table, hm.rate, hm.pass⟩, ?_⟩
  · rcases hr with ⟨rfl, rfl, -⟩ | ⟨rfl, -⟩
    · exact ⟨fun _ f hf => (hemp f hf).1, fun h0 => absurd rfl h0, hm.cur, fun f hf => (hemp f hf).2⟩
    · exact ⟨rfl, rfl, hm.cur, fun f hf => (hemp f hf).2⟩
  · rcases hr with ⟨rfl, -⟩ | ⟨rfl, -⟩ <;> simp [RPhase.entries]
  · intro f hf
    show a1.cnt f = ((a1.items f).length : Nat) + holCnt _ f + heldCnt flow _ f
    rw [heldCnt_none hheld, holCnt_eq (a := a1) (by rfl), hm.cntOK f hf]; ring
  · intro f hf
    show a1.ccnt f = a1.cnt f + unbookedCnt flow _ f
    rw [unbookedCnt_none hunb, hm.ccntOK f hf]; ring
  · intro f hf
    exact le_trans (hm.dfcOK f hf) (hmono f)
  · rcases hr with ⟨rfl, rfl, htk⟩ | ⟨rfl, htk⟩ <;> simp only [A.mu, midMu, RPhase.mu, finA, holAfter, htk] <;> omega

/-- a burst that starts with a packet the credit covers: it is sent -/
theorem ainv_got_send {g : EvId} {m : Nat} {id : Int} (hi : AInv flow F size cfg Lmax P a now) (h : a.run = .H g m id q)
    (hle : (Num.ofNat (size id) : ℚ) ≤ a.dfc (flow id)) :
    AInv flow F size cfg Lmax P { a with run := .S n m id ⟨now, URGENT, e, n + 1⟩, cur := some id } now ∧
    ({ a with run := .S n m id ⟨now, URGENT, e, n + 1⟩, cur := some id } : A).mu F + 1 ≤ a.mu F := by
  have hrun := hi.run
  rw [h] at hrun
  obtain ⟨-, -, hcur, hpk, hw, hhol, hdpos⟩ := hrun
  rw [Num.ofNat_rat] at hle
  refine ⟨⟨⟨rfl, rfl, rfl, hpk, hw, hhol, hle⟩, hi.src, hi.pend, ?_, ?_, ?_, hi.flowOK, hi.holOK, hi.keysOK, hi.dfcOK,
    hi.table, hi.rate, hi.pass⟩, ?_⟩
  · intro x hx
    simp only [A.entries, List.mem_append, RPhase.entries, List.mem_singleton] at hx
    rcases hx with rfl | hx
    · exact le_refl _
    · exact due_src_pend hi x (List.mem_append.mpr hx)
  · intro f hf
    have := hi.cntOK f hf
    simpa [heldCnt, h, RPhase.held, holCnt] using this
  · intro f hf
    have := hi.ccntOK f hf
    simpa [unbookedCnt, h, RPhase.unbooked] using this
  · simp only [A.mu, RPhase.mu, h]; omega

/-! ## what a burst is -/

theorem drop_of_getElem? {β : Type} {l : List β} {m : Nat} {x : β} (h : l[m]? = some x) : ∃ rest, l.drop m = x :: rest := by
  obtain ⟨hm, hx⟩ := List.getElem?_eq_some_iff.mp h
  exact ⟨l.drop (m + 1), by rw [← hx]; exact List.drop_eq_getElem_cons hm⟩

/-- **a burst of `run` on a sound configuration**: either it sends the packet it has just taken from a store, or it works on
a configuration in which `run` holds nothing (`MidInv`), ends — never with `hang` — in one of the ways `EndOK` describes, and
has only raised credits -/
theorem burst_cases {en : Entry} (hi : AInv flow F size cfg Lmax P a now) (hst : StartsAt a q en) :
    (∃ g m id, en = .got m id ∧ a.run = .H g m id q ∧ (Num.ofNat (size id) : ℚ) ≤ a.dfc (flow id) ∧
      a.burst F (qOf cfg) size cfg.weights P now en = ⟨a, [], .send m (flow id) id false⟩) ∨
    (∃ a1 e0 L fin, MidInv F flow size cfg Lmax P a1 now ∧ midMu F a1 + 1 ≤ a.mu F ∧ SameBut a a1 ∧
      (∀ f, a1.dfc f ≤ L.dfc f) ∧ fin ≠ .hang ∧ EndOK size a1.ccnt a1.hol (a1.total F) cfg.weights L (some fin) ∧
      a.burst F (qOf cfg) size cfg.weights P now en = ⟨finA a1 L (some fin), e0 ++ L.evs, fin⟩ ∧ (en = .top → a1 = a)) := by
  have hQ0 : ∀ c, 0 ≤ qOf cfg c := fun c => by linarith [qOf_ge hi.table c]
  cases en with
  | top =>
    right
    obtain ⟨hm, hmu⟩ := mid_top hi hst
    obtain ⟨h1, h2, h3⟩ := loop_post (t := now) hm (⟨a.dfc, []⟩, none) trivial (fun f => le_refl _)
    exact ⟨a, [], _, _, hm, hmu, SameBut.rfl' a, h3, h1, h2, rfl, fun _ => rfl⟩
  | got m id =>
    obtain ⟨g, h⟩ := hst
    have hrun := hi.run
    rw [h] at hrun
    obtain ⟨w, hw⟩ := hrun.2.2.2.2.1
    obtain ⟨rest, hd⟩ := drop_of_getElem? hw
    by_cases hle : (Num.ofNat (size id) : ℚ) ≤ a.dfc (flow id)
    · left
      refine ⟨g, m, id, rfl, h, hle, ?_⟩
      simp only [A.burst, hd, hle, if_true]
    · right
      obtain ⟨hm, hmu⟩ := mid_got hi h
      have hd' : cfg.weights.drop (m + 1) = rest := by
        have := congrArg List.tail hd
        simpa [List.tail_drop] using this
      have hv := visitFrom_ok (Q := qOf cfg) (size := size) (ccnt := a.ccnt) (hol := upd a.hol (flow id) (some id)) (t := now)
        (total := A.total F { a with hol := upd a.hol (flow id) (some id) }) (ws := cfg.weights) hQ0 rest (m + 1)
        ⟨a.dfc, []⟩ hd'
      obtain ⟨h1, h2, h3⟩ := loop_post (t := now) hm _ hv.1 hv.2
      refine ⟨_, [.park id now], _, _, hm, hmu, ⟨rfl, rfl, rfl, rfl, rfl, rfl, rfl, rfl, rfl, rfl⟩, h3, h1, h2, ?_, fun h => by cases h⟩
      simp only [A.burst, hd, hle, if_false]
      rfl
  | done m id =>
    obtain ⟨p, h⟩ := hst
    have hrun := hi.run
    rw [h] at hrun
    obtain ⟨w, hw⟩ := hrun.2.2.2.2.1
    obtain ⟨rest, hd⟩ := drop_of_getElem? hw
    right
    obtain ⟨hm, hmu⟩ := mid_done hi h
    have hd' : cfg.weights.drop (m + 1) = rest := by
      have := congrArg List.tail hd
      simpa [List.tail_drop] using this
    have hpiece : ∀ (L0 : LS), L0.dfc = (a.book size (flow id) id).dfc →
        EndOK size (a.book size (flow id) id).ccnt (a.book size (flow id) id).hol ((a.book size (flow id) id).total F) cfg.weights
          (match innerAt size (a.book size (flow id) id).ccnt (a.book size (flow id) id).hol now m (flow id) L0 with
            | (L', some e) => (L', some e)
            | (L', none) => visitFrom (qOf cfg) size (a.book size (flow id) id).ccnt (a.book size (flow id) id).hol now (m + 1) rest L').1
          (match innerAt size (a.book size (flow id) id).ccnt (a.book size (flow id) id).hol now m (flow id) L0 with
            | (L', some e) => (L', some e)
            | (L', none) => visitFrom (qOf cfg) size (a.book size (flow id) id).ccnt (a.book size (flow id) id).hol now (m + 1) rest L').2 ∧
        ∀ f, (a.book size (flow id) id).dfc f ≤
          (match innerAt size (a.book size (flow id) id).ccnt (a.book size (flow id) id).hol now m (flow id) L0 with
            | (L', some e) => (L', some e)
            | (L', none) => visitFrom (qOf cfg) size (a.book size (flow id) id).ccnt (a.book size (flow id) id).hol now (m + 1) rest L').1.dfc f := by
      intro L0 hL0
      have hi1 := innerAt_ok (size := size) (ccnt := (a.book size (flow id) id).ccnt) (hol := (a.book size (flow id) id).hol) (t := now)
        (total := (a.book size (flow id) id).total F) hw L0
      have hi2 := innerAt_dfc (size := size) (ccnt := (a.book size (flow id) id).ccnt) (hol := (a.book size (flow id) id).hol) (t := now)
        m (flow id) L0
      cases hr : innerAt size (a.book size (flow id) id).ccnt (a.book size (flow id) id).hol now m (flow id) L0 with
      | mk L' oe =>
        rw [hr] at hi1 hi2
        cases oe with
        | some e => exact ⟨hi1, fun f => by rw [hi2, hL0]⟩
        | none =>
          have hv := visitFrom_ok (Q := qOf cfg) (size := size) (ccnt := (a.book size (flow id) id).ccnt)
            (hol := (a.book size (flow id) id).hol) (t := now) (total := (a.book size (flow id) id).total F) (ws := cfg.weights)
            hQ0 rest (m + 1) L' hd'
          exact ⟨hv.1, fun f => le_trans (by rw [hi2, hL0]) (hv.2 f)⟩
    obtain ⟨hp1, hp2⟩ := hpiece ⟨(a.book size (flow id) id).dfc, []⟩ rfl
    obtain ⟨h1, h2, h3⟩ := loop_post (t := now) hm _ hp1 hp2
    refine ⟨_, bookEvs a (flow id) id now, _, _, hm, hmu, book_same a _ id, h3, h1, h2, ?_, fun h => by cases h⟩
    simp only [A.burst, hd]
    rfl

/-! ## the other steps -/

/-- nothing held, stored or parked means `total_packets == 0` -/
theorem total_zero_of_empty (hi : AInv flow F size cfg Lmax P a now) (hh : a.run.held = none)
    (he : ∀ f, f < F → a.items f = [] ∧ a.hol f = none) : a.total F = 0 := by
  unfold A.total
  apply sumFrom_all_zero
  intro j _ hj
  rw [hi.cntOK j (by omega), (he j (by omega)).1, heldCnt_none hh, holCnt_none (he j (by omega)).2]
  simp

theorem due_of_run (hi : AInv flow F size cfg Lmax P a q.time) (a' : A) (hsrc : a'.src = a.src) (hpend : a'.pend = a.pend)
    (hrun : ∀ x ∈ a'.run.entries, q.time ≤ x.time) : ∀ x ∈ a'.entries, q.time ≤ x.time := by
  intro x hx
  simp only [A.entries, List.mem_append] at hx
  rcases hx with hx | hx | hx
  · exact hrun x hx
  · exact hi.due x (mem_src (hsrc ▸ hx))
  · rw [hpend] at hx
    exact hi.due x (by simp [A.entries, hx])

variable {arr : List (ℚ × Int)}

/-- where the source goes next: the invariant of the new phase and its entry -/
theorem srcNext_ok (hw : WorkOK flow F size Lmax arr) (t : ℚ) (eid ev : Nat) :
    SrcA flow F size Lmax t (srcNext t eid ev arr) ∧ (∀ x ∈ (srcNext t eid ev arr).entries, t ≤ x.time) ∧
    (srcNext t eid ev arr).mu ≤ 10 * arr.length + 1 := by
  cases arr with
  | nil => exact ⟨⟨rfl, rfl⟩, by simp [srcNext, SPhase.entries], by simp [srcNext, SPhase.mu]⟩
  | cons x r =>
    obtain ⟨gap, id⟩ := x
    have h1 := hw (gap, id) (by simp)
    refine ⟨⟨rfl, h1.2, fun y hy => hw y (List.mem_cons_of_mem _ hy)⟩, ?_, by simp [srcNext, SPhase.mu]; omega⟩
    simp only [srcNext, SPhase.entries, List.mem_singleton]
    rintro y rfl
    show t ≤ t + gap
    linarith [h1.1]

theorem due_of_src (hi : AInv flow F size cfg Lmax P a q.time) (a' : A) (hrun : a'.run = a.run)
    (hsrc : ∀ x ∈ a'.src.entries, q.time ≤ x.time)
    (hpend : ∀ u ∈ a'.pend, u ∈ a.pend ∨ u.1.time = q.time) : ∀ x ∈ a'.entries, q.time ≤ x.time := by
  intro x hx
  simp only [A.entries, List.mem_append, pendEntries, List.mem_map] at hx
  rcases hx with hx | hx | ⟨u, hu, rfl⟩
  · exact hi.due x (mem_run (hrun ▸ hx))
  · exact hsrc x hx
  · rcases hpend u hu with h | h
    · exact hi.due _ (mem_pend h)
    · rw [h]

/-- the invariant after a `put` (`tk` = a wake-up token was posted) -/
theorem ainv_put (hi : AInv flow F size cfg Lmax P a q.time) (hq : IsMin a q) {id : Int} {arr : List (ℚ × Int)}
    (h : a.src = .wait id arr q) (tk : Bool) (htk : tk = true ↔ a.total F = 0) (src' : SPhase)
    (hsrc' : SrcA flow F size Lmax q.time src' ∧ ∀ x ∈ src'.entries, q.time ≤ x.time)
    (new : List (QEntry ℚ × ResId)) (hnew : ∀ u ∈ new, u.1.time = q.time ∧ u.1.prio = NORMAL)
    (hnewt : tk = true → ∃ u, (u, 0) ∈ new) :
    AInv flow F size cfg Lmax P { a with
        src := src'
        pend := a.pend ++ new
        tokens := a.tokens + (if tk then 1 else 0)
        items := upd a.items (flow id) (a.items (flow id) ++ [id])
        cnt := upd a.cnt (flow id) (a.cnt (flow id) + 1)
        byt := upd a.byt (flow id) (a.byt (flow id) + (size id : Int))
        recv := a.recv + 1
        keys := addKey a.keys (flow id)
        ccnt := upd a.ccnt (flow id) (a.ccnt (flow id) + 1) } q.time := by
  have hs := hi.src
  rw [h] at hs
  obtain ⟨hqp, hpk, hw⟩ := hs
  have hfid := hpk.1
  have hrun := hi.run
  refine ⟨?_, hsrc'.1, ?_, due_of_src hi _ rfl hsrc'.2 ?_, ?_, ?_, ?_, hi.holOK, ?_, hi.dfcOK, hi.table, hi.rate, hi.pass⟩
  · cases hr : a.run with
    | init q0 =>
      rw [hr] at hrun
      exact (hi.not_prio_lt hq (mem_run (by simp [hr, RPhase.entries])) hrun.1 (by rw [hrun.2.1, hqp]; decide)).elim
    | W g =>
      rw [hr] at hrun
      refine ⟨?_, ?_, hrun.2.2.1, hrun.2.2.2⟩
      · intro h0
        dsimp only at h0
        have htk0 : a.tokens = 0 := by omega
        have hall := hrun.1 htk0
        have : a.total F = 0 := total_zero_of_empty hi (by simp [hr, RPhase.held]) (fun f hf => ⟨hall f hf, hrun.2.2.2 f hf⟩)
        have : tk = true := htk.mpr this
        simp [this] at h0
      · intro h0
        dsimp only at h0 ⊢
        by_cases hk : tk = true
        · obtain ⟨u, hu⟩ := hnewt hk
          exact ⟨u, List.mem_append_right _ hu⟩
        · have : a.tokens ≠ 0 := by simpa [hk] using h0
          obtain ⟨u, hu⟩ := hrun.2.1 this
          exact ⟨u, List.mem_append_left _ hu⟩
    | K g q0 => rw [hr] at hrun; exact hrun
    | H g m0 id0 q0 => rw [hr] at hrun; exact hrun
    | S p m0 id0 q0 => rw [hr] at hrun; exact hrun
    | T p t m0 id0 q0 => rw [hr] at hrun; exact hrun
    | F p m0 id0 q0 => rw [hr] at hrun; exact hrun
  · intro u hu
    rcases List.mem_append.mp hu with hu | hu
    · exact hi.pend u hu
    · exact hnew u hu
  · intro u hu
    rcases List.mem_append.mp hu with hu | hu
    · exact Or.inl hu
    · exact Or.inr (hnew u hu).1
  · intro f hf
    have := hi.cntOK f hf
    show upd a.cnt (flow id) (a.cnt (flow id) + 1) f =
      ((upd a.items (flow id) (a.items (flow id) ++ [id]) f).length : Nat) + holCnt _ f + heldCnt flow _ f
    rw [holCnt_eq (a := a) (by rfl), heldCnt_congr (a := a) (by rfl)]
    by_cases hff : f = flow id
    · subst hff
      rw [upd_same, upd_same, this]
      simp only [List.length_append, List.length_singleton]; push_cast; ring
    · rw [upd_ne _ _ _ _ hff, upd_ne _ _ _ _ hff, this]
  · intro f hf
    have := hi.ccntOK f hf
    show upd a.ccnt (flow id) (a.ccnt (flow id) + 1) f = upd a.cnt (flow id) (a.cnt (flow id) + 1) f + unbookedCnt flow _ f
    rw [unbookedCnt_congr (a := a) (by rfl)]
    by_cases hff : f = flow id
    · subst hff
      rw [upd_same, upd_same, this]; ring
    · rw [upd_ne _ _ _ _ hff, upd_ne _ _ _ _ hff, this]
  · intro f hf x hx
    dsimp only at hx
    by_cases hff : f = flow id
    · subst hff
      rw [upd_same] at hx
      rcases List.mem_append.mp hx with hx | hx
      · exact hi.flowOK _ hf x hx
      · simp only [List.mem_singleton] at hx; rw [hx]; exact ⟨rfl, hpk.2⟩
    · rw [upd_ne _ _ _ _ hff] at hx
      exact hi.flowOK f hf x hx
  · refine ⟨?_, ?_⟩
    · intro f hf
      rcases (mem_addKey _ _ _).mp hf with hf | rfl
      · exact hi.keysOK.1 f hf
      · exact hfid
    · intro f hf hk
      dsimp only at hk ⊢
      have hk' : f ∉ a.keys ∧ f ≠ flow id := by
        constructor
        · intro h1; exact hk ((mem_addKey _ _ _).mpr (Or.inl h1))
        · intro h1; exact hk ((mem_addKey _ _ _).mpr (Or.inr h1))
      obtain ⟨h1, h2, h3⟩ := hi.keysOK.2 f hf hk'.1
      rw [upd_ne _ _ _ _ hk'.2, upd_ne _ _ _ _ hk'.2, upd_ne _ _ _ _ hk'.2]
      exact ⟨h1, h2, h3⟩

/-- a step of the server that changes neither the stores nor the counters nor the packet it holds or has unbooked -/
theorem ainv_run_only (hi : AInv flow F size cfg Lmax P a q.time) (r : RPhase) (c : Option Int)
    (hr : RunA flow F size cfg Lmax { a with run := r, cur := c } q.time r) (hh : r.held = a.run.held)
    (hu : r.unbooked = a.run.unbooked) (hdue : ∀ x ∈ r.entries, q.time ≤ x.time) :
    AInv flow F size cfg Lmax P { a with run := r, cur := c } q.time := by
  refine ⟨hr, hi.src, hi.pend, due_of_run hi _ rfl rfl hdue, ?_, ?_, hi.flowOK, hi.holOK, hi.keysOK, hi.dfcOK, hi.table, hi.rate, hi.pass⟩
  · intro f hf
    have : heldCnt flow ({ a with run := r, cur := c } : A) f = heldCnt flow a f := by simp [heldCnt, hh]
    show a.cnt f = ((a.items f).length : Nat) + holCnt _ f + heldCnt flow _ f
    rw [this, holCnt_eq (a := a) (by rfl)]; exact hi.cntOK f hf
  · intro f hf
    have : unbookedCnt flow ({ a with run := r, cur := c } : A) f = unbookedCnt flow a f := by simp [unbookedCnt, hu]
    show a.ccnt f = a.cnt f + unbookedCnt flow _ f
    rw [this]; exact hi.ccntOK f hf

/-- **every configuration step is sound**: it keeps `AInv` and lowers the bound on the steps still to come -/
theorem astep_sound {a' : A} {new : List (HEv ℚ)} (hi0 : AInv flow F size cfg Lmax P a now) (hq : IsMin a q)
    (hs : AStep F flow size cfg P n e a q a' new) : AInv flow F size cfg Lmax P a' q.time ∧ a'.mu F + 1 ≤ a.mu F := by
  have hi := hi0.advance hq
  have hrun := hi.run
  cases hs with
  | burstGet en r m' c' id' is hst hb hfin hc' hit =>
    rcases burst_cases hi hst with ⟨g, m, id, -, -, -, hbe⟩ | ⟨a1, e0, L, fin, hm, hmu, hsb, hmono, -, hE, hbe, -⟩
    · rw [hbe] at hb; subst hb; cases hfin
    · rw [hbe] at hb; subst hb
      simp only at hfin; subst hfin
      have := ainv_end_get (n := n) (e := e) hm L hmono hE hc' (hsb.items ▸ hit)
      exact ⟨this.1, (Nat.add_le_add_right this.2 1).trans hmu⟩
  | burstSend en r m' c' id' pk hst hb hfin =>
    rcases burst_cases hi hst with ⟨g, m, id, -, h, hle, hbe⟩ | ⟨a1, e0, L, fin, hm, hmu, hsb, hmono, -, hE, hbe, -⟩
    · rw [hbe] at hb; subst hb
      simp only [LoopEnd.send.injEq] at hfin
      obtain ⟨rfl, rfl, rfl, rfl⟩ := hfin
      exact ainv_got_send hi h hle
    · rw [hbe] at hb; subst hb
      simp only at hfin; subst hfin
      have := ainv_end_send (n := n) (e := e) hm L hmono hE
      exact ⟨this.1, (Nat.add_le_add_right this.2 1).trans hmu⟩
  | burstBlock en r hst hb hfin htk =>
    rcases burst_cases hi hst with ⟨g, m, id, -, -, -, hbe⟩ | ⟨a1, e0, L, fin, hm, hmu, hsb, hmono, -, hE, hbe, -⟩
    · rw [hbe] at hb; subst hb; cases hfin
    · rw [hbe] at hb; subst hb
      simp only at hfin; subst hfin
      have := ainv_end_idle (n := n) (e := e) hm L hmono hE (.W n) 0 (Or.inl ⟨rfl, rfl, hsb.tokens ▸ htk⟩)
      have htk1 : (finA a1 L (some LoopEnd.idle)).tokens = 0 := hsb.tokens ▸ htk
      have heq : ({ (finA a1 L (some LoopEnd.idle)) with run := RPhase.W n, tokens := 0 } : A) =
          { (finA a1 L (some LoopEnd.idle)) with run := RPhase.W n } := by rw [← htk1]
      rw [heq] at this
      exact ⟨this.1, (Nat.add_le_add_right this.2 1).trans hmu⟩
  | burstTok en r t hst hb hfin htk =>
    rcases burst_cases hi hst with ⟨g, m, id, -, -, -, hbe⟩ | ⟨a1, e0, L, fin, hm, hmu, hsb, hmono, -, hE, hbe, -⟩
    · rw [hbe] at hb; subst hb; cases hfin
    · rw [hbe] at hb; subst hb
      simp only at hfin; subst hfin
      have := ainv_end_idle (n := n) (e := e) hm L hmono hE (.K n ⟨q.time, NORMAL, e, n⟩) t (Or.inr ⟨rfl, hsb.tokens ▸ htk⟩)
      exact ⟨this.1, (Nat.add_le_add_right this.2 1).trans hmu⟩
  | sendInit p m id h =>
    rw [h] at hrun
    obtain ⟨-, -, hcur, hpk, hw, hhol, hle⟩ := hrun
    have hd := txTime_nonneg (size := size) hi.rate id
    refine ⟨ainv_run_only hi (.T p n m id ⟨q.time + txTime size cfg.rate id, NORMAL, e, n⟩) (some id) ⟨rfl, rfl, hpk, hw, hhol, hle⟩
      (by simp [RPhase.held, h]) (by simp [RPhase.unbooked, h])
      (by simp only [RPhase.entries, List.mem_singleton]; rintro x rfl; show q.time ≤ q.time + _; linarith), ?_⟩
    simp only [A.mu, RPhase.mu, h]; omega
  | sendFire p t m id h =>
    rw [h] at hrun
    obtain ⟨-, hcur, hpk, hw, hhol, hle⟩ := hrun
    have hfid := hpk.1
    have hheld : a.run.held = some id := by simp [h, RPhase.held]
    have hunb : a.run.unbooked = none := by simp [h, RPhase.unbooked]
    refine ⟨⟨⟨rfl, rfl, rfl, hpk, hw, hhol, hle⟩, hi.src, hi.pend, due_of_run hi _ rfl rfl (by simp [RPhase.entries]), ?_, ?_, hi.flowOK,
      hi.holOK, ?_, hi.dfcOK, hi.table, hi.rate, hi.pass⟩, ?_⟩
    · intro f hf
      have := hi.cntOK f hf
      rw [heldCnt_some hheld] at this
      show upd a.cnt (flow id) (a.cnt (flow id) + -1) f = ((a.items f).length : Nat) + holCnt _ f + heldCnt flow _ f
      rw [holCnt_eq (a := a) (by rfl), heldCnt_none (by rfl)]
      by_cases hff : f = flow id
      · subst hff
        rw [upd_same, this]; simp
      · rw [upd_ne _ _ _ _ hff, this, if_neg (Ne.symm hff)]
    · intro f hf
      have := hi.ccntOK f hf
      rw [unbookedCnt_none hunb] at this
      show a.ccnt f = upd a.cnt (flow id) (a.cnt (flow id) + -1) f + unbookedCnt flow _ f
      rw [unbookedCnt_some (id := id) (by rfl)]
      by_cases hff : f = flow id
      · subst hff
        rw [upd_same, this]; simp
      · rw [upd_ne _ _ _ _ hff, this, if_neg (Ne.symm hff)]
    · refine ⟨hi.keysOK.1, ?_⟩
      intro f hf hk
      obtain ⟨h1, h2, h3⟩ := hi.keysOK.2 f hf hk
      have hff : f ≠ flow id := by
        rintro rfl
        have := hi.cntOK _ hf
        rw [heldCnt_some hheld, if_pos rfl] at this
        have h5 : 0 ≤ holCnt a (flow id) := by unfold holCnt; split <;> omega
        omega
      exact ⟨h1, by dsimp only; rw [upd_ne _ _ _ _ hff]; exact h2, by dsimp only; rw [upd_ne _ _ _ _ hff]; exact h3⟩
    · simp only [A.mu, RPhase.mu, h]; omega
  | srcInit arr h =>
    have hs := hi.src
    rw [h] at hs
    obtain ⟨h1, h2, h3⟩ := srcNext_ok hs.2.2 q.time e n
    refine ⟨⟨hi.run, h1, hi.pend, due_of_src hi _ rfl h2 (fun u hu => Or.inl hu), hi.cntOK, hi.ccntOK, hi.flowOK, hi.holOK,
      hi.keysOK, hi.dfcOK, hi.table, hi.rate, hi.pass⟩, ?_⟩
    have hm : (SPhase.init q arr).mu = 10 * arr.length + 2 := rfl
    simp only [A.mu, h, hm]
    omega
  | srcPutTok id arr h htot =>
    have hs := hi.src
    rw [h] at hs
    obtain ⟨h1, h2, h3⟩ := srcNext_ok hs.2.2 q.time (e + 1 + 1) (n + 1 + 1)
    have := ainv_put hi hq h true (by simp [htot]) _ ⟨h1, h2⟩
      [(⟨q.time, NORMAL, e, n⟩, 0), (⟨q.time, NORMAL, e + 1, n + 1⟩, flowStore (flow id))]
      (by intro u hu; simp only [List.mem_cons, List.not_mem_nil, or_false] at hu; rcases hu with rfl | rfl <;> exact ⟨rfl, rfl⟩)
      (fun _ => ⟨_, List.mem_cons_self⟩)
    refine ⟨this, ?_⟩
    have hw := waitingFrom_upd a.items a.hol (flow id) (a.items (flow id) ++ [id]) (a.hol (flow id)) F 0 (Nat.zero_le _)
      (by have := hs.2.1.1; omega)
    rw [upd_self] at hw
    simp only [List.length_append, List.length_singleton] at hw
    have hm : (SPhase.wait id arr q).mu = 10 * arr.length + 11 := rfl
    simp only [A.mu, h, hm, List.length_append, List.length_cons, List.length_nil]
    omega
  | srcPutPlain id arr h htot =>
    have hs := hi.src
    rw [h] at hs
    obtain ⟨h1, h2, h3⟩ := srcNext_ok hs.2.2 q.time (e + 1) (n + 1)
    have := ainv_put hi hq h false (by simp [htot]) _ ⟨h1, h2⟩
      [(⟨q.time, NORMAL, e, n⟩, flowStore (flow id))]
      (by intro u hu; simp only [List.mem_cons, List.not_mem_nil, or_false] at hu; rw [hu]; exact ⟨rfl, rfl⟩)
      (fun h0 => by cases h0)
    simp only [Bool.false_eq_true, if_false, Nat.add_zero] at this
    refine ⟨this, ?_⟩
    have hw := waitingFrom_upd a.items a.hol (flow id) (a.items (flow id) ++ [id]) (a.hol (flow id)) F 0 (Nat.zero_le _)
      (by have := hs.2.1.1; omega)
    rw [upd_self] at hw
    simp only [List.length_append, List.length_singleton] at hw
    have hm : (SPhase.wait id arr q).mu = 10 * arr.length + 11 := rfl
    simp only [A.mu, h, hm, List.length_append, List.length_cons, List.length_nil]
    omega
  | srcEnd h =>
    refine ⟨⟨hi.run, trivial, hi.pend, due_of_src hi _ rfl (by simp [SPhase.entries]) (fun u hu => Or.inl hu), hi.cntOK,
      hi.ccntOK, hi.flowOK, hi.holOK, hi.keysOK, hi.dfcOK, hi.table, hi.rate, hi.pass⟩, ?_⟩
    have hm : (SPhase.ending q).mu = 1 := rfl
    have hm' : SPhase.done.mu = 0 := rfl
    simp only [A.mu, h, hm, hm']
    omega
  | pendNoop r l1 l2 hpe hno =>
    have hsub : ∀ u ∈ l1 ++ l2, u ∈ a.pend := by
      intro u hu
      rw [hpe]
      rcases List.mem_append.mp hu with h | h
      · exact List.mem_append_left _ h
      · exact List.mem_append_right _ (List.mem_cons_of_mem _ h)
    refine ⟨⟨?_, hi.src, fun u hu => hi.pend u (hsub u hu),
      due_of_src hi _ rfl (fun x hx => hi.due x (mem_src hx)) (fun u hu => Or.inl (hsub u hu)), hi.cntOK, hi.ccntOK, hi.flowOK,
      hi.holOK, hi.keysOK, hi.dfcOK, hi.table, hi.rate, hi.pass⟩, ?_⟩
    · cases hr : a.run with
      | init q0 =>
        rw [hr] at hrun
        rw [hrun.2.2.2.1] at hpe
        simp at hpe
      | W g =>
        rw [hr] at hrun
        refine ⟨hrun.1, ?_, hrun.2.2.1, hrun.2.2.2⟩
        intro h0
        obtain ⟨u, hu⟩ := hrun.2.1 h0
        rw [hpe] at hu
        rcases List.mem_append.mp hu with h1 | h1
        · exact ⟨u, List.mem_append_left _ h1⟩
        · rcases List.mem_cons.mp h1 with h1 | h1
          · exfalso
            have : r = 0 := by cases h1; rfl
            exact hno ⟨this, h0, g, hr⟩
          · exact ⟨u, List.mem_append_right _ h1⟩
      | K g q0 => rw [hr] at hrun; exact hrun
      | H g m0 id0 q0 => rw [hr] at hrun; exact hrun
      | S p m0 id0 q0 => rw [hr] at hrun; exact hrun
      | T p t m0 id0 q0 => rw [hr] at hrun; exact hrun
      | F p m0 id0 q0 => rw [hr] at hrun; exact hrun
    · simp only [A.mu, hpe, List.length_append, List.length_cons]
      omega
  | pendHand g t l1 l2 hpe h htk =>
    have hsub : ∀ u ∈ l1 ++ l2, u ∈ a.pend := by
      intro u hu
      rw [hpe]
      rcases List.mem_append.mp hu with h | h
      · exact List.mem_append_left _ h
      · exact List.mem_append_right _ (List.mem_cons_of_mem _ h)
    rw [h] at hrun
    refine ⟨⟨⟨rfl, rfl, hrun.2.2.1, hrun.2.2.2⟩, hi.src, fun u hu => hi.pend u (hsub u hu), ?_, ?_, ?_, hi.flowOK,
      hi.holOK, hi.keysOK, hi.dfcOK, hi.table, hi.rate, hi.pass⟩, ?_⟩
    · intro x hx
      simp only [A.entries, List.mem_append, pendEntries, List.mem_map, RPhase.entries, List.mem_singleton] at hx
      rcases hx with rfl | hx | ⟨u, hu, rfl⟩
      · exact le_refl _
      · exact hi.due x (mem_src hx)
      · exact hi.due _ (mem_pend (hsub u (List.mem_append.mpr hu)))
    · intro f hf
      have := hi.cntOK f hf
      rw [heldCnt_none (by simp [h, RPhase.held])] at this
      show a.cnt f = ((a.items f).length : Nat) + holCnt _ f + heldCnt flow _ f
      rw [holCnt_eq (a := a) (by rfl), heldCnt_none (by rfl)]; exact this
    · intro f hf
      have := hi.ccntOK f hf
      rw [unbookedCnt_none (by simp [h, RPhase.unbooked])] at this
      show a.ccnt f = a.cnt f + unbookedCnt flow _ f
      rw [unbookedCnt_none (by rfl)]; exact this
    · simp only [A.mu, h, hpe, htk, RPhase.mu, List.length_append, List.length_cons]
      omega

end DRRK
