import Lean.Meta.Tactic.Simp.RegisterCommand
/-! simp sets used to execute the kernel model symbolically on the DRR program (`drrk`) and to take the list of the events
of a configuration apart (`drrids`) -/
register_simp_attr drrk
register_simp_attr drrids
