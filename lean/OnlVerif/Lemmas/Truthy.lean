import OnlVerif.Lemmas.Scalar
import OnlVerif.Basic.Truthy
/-! # Python truthiness at `ℚ` -/

theorem Num.truthy_iff (x : ℚ) : Num.truthy x = true ↔ x ≠ 0 := by
  unfold Num.truthy
  rw [zero_eq']
  simp only [Bool.or_eq_true, decide_eq_true_eq]
  constructor
  · rintro (h | h)
    · exact ne_of_lt h
    · exact ne_of_gt h
  · intro h; exact lt_or_gt_of_ne h

/-- an optional parameter used as a condition is "on" iff it is set and not zero -/
theorem Num.optOn_iff (x : Option ℚ) (r : ℚ) : Num.optOn x = some r ↔ x = some r ∧ r ≠ 0 := by
  unfold Num.optOn
  cases x with
  | none => simp
  | some v =>
    by_cases hv : Num.truthy v = true
    · simp only [if_pos hv]
      have := (Num.truthy_iff v).mp hv
      constructor
      · intro h; simp only [Option.some.injEq] at h; subst h; exact ⟨rfl, this⟩
      · rintro ⟨h, _⟩; exact h
    · simp only [if_neg hv]
      have : v = 0 := by
        by_contra hc
        exact hv ((Num.truthy_iff v).mpr hc)
      constructor
      · intro h; cases h
      · rintro ⟨h, h2⟩
        simp only [Option.some.injEq] at h
        rw [← h] at h2; exact absurd this h2

theorem Num.optOn_none_iff (x : Option ℚ) : Num.optOn x = none ↔ x = none ∨ x = some 0 := by
  unfold Num.optOn
  cases x with
  | none => simp
  | some v =>
    by_cases hv : Num.truthy v = true
    · simp only [if_pos hv]
      have := (Num.truthy_iff v).mp hv
      simp [this]
    · simp only [if_neg hv]
      have : v = 0 := by
        by_contra hc
        exact hv ((Num.truthy_iff v).mpr hc)
      simp [this]
