import OnlVerif.Lemmas.TimerKAbs
/-!
# The Timer on the kernel model: every configuration step is sound

For each constructor of `AStep`: the abstract invariant is kept (the history extended by the step's calls/firings still
passes the property's oracle, which ends in the state the new configuration stands for), and the Timer LTS accepts the
corresponding action (`init`, `intr`, `wake … cb`, `stop`, `restart τ`, or nothing) with the same callback invocations.
All statements are at the instant of the processed entry (`AInv.advance` / `lts_advance` bring the clock there).
-/

set_option linter.unusedSimpArgs false

namespace TimerK
open TimerOnK QEntry
open Timer (CbOp PStat UEv)

variable {auto : Bool} {arg : Int} {cbs : List (Option Op)} {T : ℚ}
variable {a : A} {hist : List (HEv ℚ)} {q : QEntry ℚ}

/-- the callback invocations of a piece of history, as outputs of the LTS -/
def outsOfH (arg : Int) (l : List (HEv ℚ)) : List (Timer.Out ℚ) := l.filterMap fun
  | .fire t => some (.fire t [arg])
  | _ => none

/-- the instants of the callback invocations in a piece of history -/
def firesH (l : List (HEv ℚ)) : List ℚ := l.filterMap fun
  | .fire t => some t
  | _ => none

theorem firesOf_eq (tr : Array (Obs ℚ)) : firesOf tr = firesH (histOf tr) := by
  unfold firesOf firesH
  congr 1
  funext x
  cases x <;> rfl

theorem firesH_append (l l' : List (HEv ℚ)) : firesH (l ++ l') = firesH l ++ firesH l' := by
  simp [firesH, List.filterMap_append]

theorem outsOfH_eq (arg : Int) (l : List (HEv ℚ)) : outsOfH arg l = (firesH l).map fun t => Timer.Out.fire t [arg] := by
  unfold outsOfH firesH
  rw [List.map_filterMap]
  congr 1
  funext x
  cases x <;> rfl

/-- what a sound configuration step delivers -/
def StepOK (auto : Bool) (arg : Int) (cbs : List (Option Op)) (T : ℚ) (a : A) (q : QEntry ℚ) (hist : List (HEv ℚ)) (a' : A)
    (new : List (HEv ℚ)) : Prop :=
  AInv auto cbs T a' q.time (hist ++ new) ∧
  ∃ acts, Timer.run (toT auto arg a q.time) acts = .ok (toT auto arg a' q.time) (outsOfH arg new)

/-! ## the oracle -/

theorem orun_append (o : OSt ℚ) (h1 h2 : List (HEv ℚ)) :
    orun auto cbs o (h1 ++ h2) = (orun auto cbs o h1).bind fun o' => orun auto cbs o' h2 := by
  induction h1 generalizing o with
  | nil => rfl
  | cons x xs ih =>
    simp only [List.cons_append, orun]
    cases ostep auto cbs o x with
    | none => rfl
    | some o' => exact ih o'

theorem orc_step {o o' : OSt ℚ} {new : List (HEv ℚ)} (h : orun auto cbs (o0 T) hist = some o)
    (h2 : orun auto cbs o new = some o') : orun auto cbs (o0 T) (hist ++ new) = some o' := by
  rw [orun_append, h]; exact h2

theorem run_single {s s' : Timer.State ℚ} {x : Timer.Action ℚ} {o : List (Timer.Out ℚ)} (h : Timer.step s x = .ok s' o) :
    Timer.run s [x] = .ok s' o := by
  have := Timer.run_cons_of (as := []) h rfl
  simpa using this

/-! ## lists of process statuses -/

theorem get_mid {β} (l1 l2 : List β) (x : β) (l3 : List β) : (l1 ++ (l2 ++ x :: l3))[l1.length + l2.length]? = some x := by
  rw [← List.append_assoc, List.getElem?_append_right (by simp)]
  simp

theorem set_mid {β} (l1 l2 : List β) (x y : β) (l3 : List β) :
    (l1 ++ (l2 ++ x :: l3)).set (l1.length + l2.length) y = l1 ++ (l2 ++ y :: l3) := by
  rw [← List.append_assoc, ← List.append_assoc, List.set_append_right _ _ (by simp)]
  simp

theorem dead_len (a : A) : (a.dead.map fun _ => (PStat.finished : PStat ℚ)).length = a.dead.length := by simp

/-! ## entries -/

theorem due_of_sub {a a' : A} {t : ℚ} (hd : ∀ x ∈ a.entries, t ≤ x.time)
    (hsub : ∀ x ∈ a'.entries, x ∈ a.entries ∨ t ≤ x.time) : ∀ x ∈ a'.entries, t ≤ x.time := by
  intro x hx
  rcases hsub x hx with h | h
  · exact hd x h
  · exact h

/-! ## the steps of the timer processes -/

theorem stepOK_tmInit (hi : AInv auto cbs T a q.time hist) (eid n : Nat) (hph : a.ph = .init q) (hold : a.old = none) :
    StepOK auto arg cbs T a q hist { a with ph := .sleep n ⟨a.expire, NORMAL, eid, n⟩ } [] := by
  have hp := hi.ph
  rw [hph] at hp
  obtain ⟨-, -, hexp, -⟩ := hp
  refine ⟨⟨⟨rfl, le_refl _, hold⟩, ?_, hi.ctl, hi.cprio, hi.nprio, ?_, hi.tpos, ?_⟩, [.init a.nprev], ?_⟩
  · intro o ho; rw [hold] at ho; cases ho
  · apply due_of_sub hi.due
    intro x hx
    simp only [A.entries, TPhase.entries, List.mem_append, List.mem_singleton] at hx ⊢
    rcases hx with hx | hx
    · exact Or.inr (by rw [hx]; exact le_of_lt hexp)
    · exact Or.inl (Or.inr hx)
  · rw [List.append_nil]
    have : oOf { a with ph := .sleep n ⟨a.expire, NORMAL, eid, n⟩ } = oOf a := by
      simp [oOf, hph]
    rw [this]; exact hi.orc
  · have h1 : (toT auto arg a q.time).uq = [UEv.init a.nprev] := by simp [toT, hold, hph]
    have h2 : (toT auto arg a q.time).procs[a.nprev]? = some PStat.notStarted := by
      simp only [toT, A.nprev, hold, oldStat, hph, TPhase.stat]
      have := get_mid (a.dead.map fun _ => (PStat.finished : PStat ℚ)) [] PStat.notStarted []
      simpa using this
    have h3 : (toT auto arg a q.time).now < (toT auto arg a q.time).expire := hexp
    refine run_single ?_
    show _ = Timer.Res.ok _ []
    simp only [Timer.step, Timer.doInit, h1, h2, if_true, Timer.loopTest]
    have h3' : (Timer.popUq (toT auto arg a q.time) []).now < (Timer.popUq (toT auto arg a q.time) []).expire := hexp
    rw [if_pos h3']
    congr 1
    simp only [Timer.setStat, Timer.popUq, toT, A.nprev, hold, oldStat, hph, TPhase.stat, List.nil_append, List.length_nil,
      Nat.add_zero]
    have := set_mid (a.dead.map fun _ => (PStat.finished : PStat ℚ)) [] PStat.notStarted (PStat.sleeping (q.time + (a.expire - q.time))) []
    simp only [List.nil_append, List.length_nil, Nat.add_zero, List.length_map] at this
    rw [this]
    simp

theorem stepOK_intr (hi : AInv auto cbs T a q.time hist) (eid : Nat) (o : Old) (hold : a.old = some o) (hq : q = o.qi) :
    StepOK auto arg cbs T a q hist
      { a with old := none, dead := a.dead ++ [o.p], noop := a.noop ++ [o.qt, ⟨q.time, NORMAL, eid, o.p⟩] } [] := by
  have hp := hi.ph
  obtain ⟨-, -, hqt⟩ := hi.old o hold
  refine ⟨⟨?_, ?_, hi.ctl, hi.cprio, ?_, ?_, hi.tpos, ?_⟩, [.intr a.dead.length], ?_⟩
  · cases hph : a.ph with
    | init q0 =>
      rw [hph] at hp
      exact ⟨hp.1, hp.2.1, hp.2.2.1, fun o' ho' => by cases ho'⟩
    | sleep t q0 => rw [hph] at hp; rw [hp.2.2] at hold; cases hold
    | dead => rw [hph] at hp; rw [show a.old = none from hp] at hold; cases hold
  · intro o' ho'; cases ho'
  · intro x hx
    simp only [List.mem_append, List.mem_cons, List.not_mem_nil, or_false] at hx
    rcases hx with hx | rfl | rfl
    · exact hi.nprio x hx
    · exact hqt
    · rfl
  · apply due_of_sub hi.due
    intro x hx
    simp only [A.entries, oldEntries, hold, Old.entries, List.mem_append, List.mem_cons, List.not_mem_nil, or_false,
      List.nil_append] at hx ⊢
    rcases hx with hx | hx | (hx | hx | hx)
    · exact Or.inl (Or.inl hx)
    · exact Or.inl (Or.inr (Or.inr (Or.inl hx)))
    · exact Or.inl (Or.inr (Or.inr (Or.inr hx)))
    · exact Or.inl (Or.inr (Or.inl (Or.inr hx)))
    · exact Or.inr (by rw [hx])
  · rw [List.append_nil]
    exact hi.orc
  · refine run_single ?_
    show _ = Timer.Res.ok _ []
    obtain ⟨q0, hph⟩ : ∃ q0, a.ph = .init q0 := by
      cases hph : a.ph with
      | init q0 => exact ⟨q0, rfl⟩
      | sleep t q0 => rw [hph] at hp; rw [hp.2.2] at hold; cases hold
      | dead => rw [hph] at hp; rw [show a.old = none from hp] at hold; cases hold
    have h1 : (toT auto arg a q.time).uq = [UEv.intr a.dead.length, UEv.init a.nprev] := by simp [toT, hold, hph]
    have h2 : (toT auto arg a q.time).procs[a.dead.length]? = some (PStat.sleeping o.qt.time) := by
      simp only [toT, hold, oldStat]
      have := get_mid (a.dead.map fun _ => (PStat.finished : PStat ℚ)) [] (PStat.sleeping o.qt.time) [a.ph.stat]
      simpa using this
    simp only [Timer.step, Timer.doIntr, h1, h2, if_true]
    congr 1
    simp only [Timer.setStat, Timer.popUq, toT, A.nprev, hold, oldStat, List.length_nil, List.length_singleton, Nat.add_zero,
      List.length_append, List.map_append, List.map_cons, List.map_nil, List.nil_append, hph]
    have := set_mid (a.dead.map fun _ => (PStat.finished : PStat ℚ)) [] (PStat.sleeping o.qt.time) PStat.finished [(TPhase.init q0).stat]
    simp only [List.nil_append, List.length_nil, Nat.add_zero, List.length_map] at this
    rw [List.singleton_append, this]
    simp

/-! ## the wake-up of `self.proc` -/

theorem wakeCells_frame (now : ℚ) (a : A) :
    (wakeCells auto cbs now a).cp = a.cp ∧ (wakeCells auto cbs now a).cur = a.cur ∧ (wakeCells auto cbs now a).ph = a.ph ∧
    (wakeCells auto cbs now a).old = a.old ∧ (wakeCells auto cbs now a).dead = a.dead ∧
    (wakeCells auto cbs now a).ctl = a.ctl ∧ (wakeCells auto cbs now a).noop = a.noop := by
  unfold wakeCells fireA rearm
  rcases Bool.eq_false_or_eq_true a.stopped with hst | hst
  · simp [hst]
  · rcases hcb : cbAt cbs (a.fired : Int) with _ | (_ | tau) <;> cases auto <;> simp [hst, cbCells]

theorem cbAt_mem {k : Int} {op : Op} (h : cbAt cbs k = some op) : some op ∈ cbs := by
  unfold cbAt at h
  rw [List.getD_eq_getElem?_getD] at h
  cases hg : cbs[k.toNat]? with
  | none => rw [hg] at h; cases h
  | some x =>
    rw [hg] at h
    simp only [Option.getD_some] at h
    rw [h] at hg
    exact List.mem_of_getElem? hg

/-- what the callback does to its timer at this wake-up, as the parameter of the LTS action `wake` -/
def wakeCb (cbs : List (Option Op)) (a : A) : List (CbOp ℚ) :=
  if a.stopped then [] else (cbAt cbs (a.fired : Int)).toList

theorem loopTest_cont (c : A) {t : EvId} {q0 : QEntry ℚ} (now : ℚ) (eid n : Nat) (hph : c.ph = .sleep t q0)
    (hold : c.old = none) (h : now < c.expire) :
    Timer.loopTest c.nprev (toT auto arg c now) = toT auto arg { c with ph := .sleep n ⟨c.expire, NORMAL, eid, n⟩ } now := by
  have h' : (toT auto arg c now).now < (toT auto arg c now).expire := h
  unfold Timer.loopTest
  rw [if_pos h']
  simp only [Timer.setStat, toT, A.nprev, hold, oldStat, hph, TPhase.stat, List.nil_append, List.length_nil, Nat.add_zero]
  have := set_mid (c.dead.map fun _ => (PStat.finished : PStat ℚ)) [] (PStat.sleeping q0.time)
    (PStat.sleeping (now + (c.expire - now))) []
  simp only [List.nil_append, List.length_nil, Nat.add_zero, List.length_map] at this
  rw [this]
  simp

theorem loopTest_exit (c : A) {t : EvId} {q0 : QEntry ℚ} (now : ℚ) (hph : c.ph = .sleep t q0)
    (hold : c.old = none) (h : ¬ now < c.expire) :
    Timer.loopTest c.nprev (toT auto arg c now) = toT auto arg { c with ph := .dead } now := by
  have h' : ¬ (toT auto arg c now).now < (toT auto arg c now).expire := h
  unfold Timer.loopTest
  rw [if_neg h']
  simp only [Timer.setStat, toT, A.nprev, hold, oldStat, hph, TPhase.stat, List.nil_append, List.length_nil, Nat.add_zero]
  have := set_mid (c.dead.map fun _ => (PStat.finished : PStat ℚ)) [] (PStat.sleeping q0.time) PStat.finished []
  simp only [List.nil_append, List.length_nil, Nat.add_zero, List.length_map] at this
  rw [this]

/-- the LTS accepts the wake-up of `self.proc`, with the callback's own calls as the parameter of the action -/
theorem lts_wake {t : EvId} (hph : a.ph = .sleep t q) (hold : a.old = none) :
    Timer.step (toT auto arg a q.time) (.wake a.nprev (wakeCb cbs a)) =
      .ok (Timer.loopTest a.nprev (toT auto arg (wakeCells auto cbs q.time a) q.time)) (outsOfH arg (wakeFires a q.time)) := by
  have h1 : (toT auto arg a q.time).uq = [] := by simp [toT, hold, hph]
  have h2 : (toT auto arg a q.time).procs[a.nprev]? = some (PStat.sleeping q.time) := by
    simp only [toT, A.nprev, hold, oldStat, hph, TPhase.stat]
    have := get_mid (a.dead.map fun _ => (PStat.finished : PStat ℚ)) [] (PStat.sleeping q.time) []
    simpa using this
  have h3 : Num.eqb q.time (toT auto arg a q.time).now = true := (Num.eqb_iff _ _).mpr rfl
  simp only [Timer.step, Timer.doWake, h1, h2, h3, if_true]
  unfold wakeCb wakeCells wakeFires Timer.wakeBody
  rcases Bool.eq_false_or_eq_true a.stopped with hst | hst
  · have : (toT auto arg a q.time).stopped = true := hst
    simp [hst, this, outsOfH]
  · have hs' : (toT auto arg a q.time).stopped = false := hst
    simp only [hs', hst, Bool.false_eq_true, if_false]
    unfold fireA
    rcases hcb : cbAt cbs (a.fired : Int) with _ | (_ | tau) <;> cases auto <;>
      simp [Timer.runCb, Timer.cbOp, Timer.restartCall, Timer.rebase, Timer.stopBody, Timer.autoRebase, cbCells, rearm, toT, outsOfH,
        A.nprev]

/-- the timeout stays positive through a wake-up -/
theorem wakeCells_tpos (hcbs : CbsOK cbs) (now : ℚ) (h : 0 < a.timeout) : 0 < (wakeCells auto cbs now a).timeout := by
  unfold wakeCells fireA rearm
  rcases Bool.eq_false_or_eq_true a.stopped with hst | hst
  · simpa [hst] using h
  · rcases hcb : cbAt cbs (a.fired : Int) with _ | (_ | tau) <;> cases auto <;> simp [hst, cbCells, h]
    all_goals exact hcbs _ (cbAt_mem hcb)

/-- the oracle accepts the callback invocation of a wake-up (none if `stopped`) and ends in the state of the new
configuration: re-armed iff the loop goes on -/
theorem orc_wake (hcbs : CbsOK cbs) (hi : AInv auto cbs T a q.time hist) {t : EvId} (hph : a.ph = .sleep t q) (ph' : TPhase)
    (hph' : (q.time < (wakeCells auto cbs q.time a).expire ∧
              ∃ eid n, ph' = .sleep n ⟨(wakeCells auto cbs q.time a).expire, NORMAL, eid, n⟩) ∨
            (¬ q.time < (wakeCells auto cbs q.time a).expire ∧ ph' = .dead)) :
    orun auto cbs (oOf a) (wakeFires a q.time) = some (oOf { wakeCells auto cbs q.time a with ph := ph' }) := by
  have hp := hi.ph
  rw [hph] at hp
  obtain ⟨-, hexp, -⟩ := hp
  have hT := hi.tpos
  unfold wakeCells wakeFires at *
  rcases Bool.eq_false_or_eq_true a.stopped with hst | hst
  · simp only [hst, if_true] at hph' ⊢
    simp [orun, oOf, hst]
  · simp only [hst, Bool.false_eq_true, if_false] at hph' ⊢
    have hpend : (oOf a).pending = some q.time := by simp [oOf, hst, hph]
    have hfired : (oOf a).fired = a.fired := rfl
    have heq : Num.eqb q.time q.time = true := (Num.eqb_iff _ _).mpr rfl
    unfold fireA at *
    rcases hcb : cbAt cbs (a.fired : Int) with _ | (_ | tau) <;> cases auto <;>
      simp only [hcb, cbCells, rearm, Bool.false_eq_true, if_false, if_true] at hph' ⊢ <;>
      simp only [orun, ostep, hpend, heq, hfired, hcb, if_true, Bool.false_eq_true, if_false]
    · -- no call, one-shot: the loop ends
      rcases hph' with ⟨h, -⟩ | ⟨-, rfl⟩
      · exact absurd h (not_lt.mpr hexp)
      · simp [oOf, hst]
    · -- no call, auto-restart: sleeps `timeout`
      rcases hph' with ⟨-, eid, n, rfl⟩ | ⟨h, -⟩
      · simp [oOf, hst]
      · exact absurd (by linarith) h
    · -- `stop()` from the callback, one-shot
      rcases hph' with ⟨-, eid, n, rfl⟩ | ⟨-, rfl⟩ <;> simp [oOf]
    · -- `stop()` from the callback, auto-restart
      rcases hph' with ⟨-, eid, n, rfl⟩ | ⟨-, rfl⟩ <;> simp [oOf]
    · -- `restart(τ)` from the callback, one-shot: re-armed
      have htau : 0 < tau := hcbs _ (cbAt_mem hcb)
      rcases hph' with ⟨-, eid, n, rfl⟩ | ⟨h, -⟩
      · simp [oOf, hst]
      · exact absurd (by linarith) h
    · have htau : 0 < tau := hcbs _ (cbAt_mem hcb)
      rcases hph' with ⟨-, eid, n, rfl⟩ | ⟨h, -⟩
      · simp [oOf, hst]
      · exact absurd (by linarith) h

theorem stepOK_wakeSleep (hcbs : CbsOK cbs) (hi : AInv auto cbs T a q.time hist) (eid n : Nat) (t : EvId)
    (hph : a.ph = .sleep t q) (hold : a.old = none) (hcont : q.time < (wakeCells auto cbs q.time a).expire) :
    StepOK auto arg cbs T a q hist
      { wakeCells auto cbs q.time a with ph := .sleep n ⟨(wakeCells auto cbs q.time a).expire, NORMAL, eid, n⟩ }
      (wakeFires a q.time) := by
  obtain ⟨f1, f2, f3, f4, f5, f6, f7⟩ := wakeCells_frame (auto := auto) (cbs := cbs) q.time a
  refine ⟨⟨⟨rfl, le_refl _, by rw [f4]; exact hold⟩, ?_, ?_, ?_, ?_, ?_, wakeCells_tpos hcbs _ hi.tpos, ?_⟩,
    [.wake a.nprev (wakeCb cbs a)], ?_⟩
  · intro o ho; rw [show (wakeCells auto cbs q.time a).old = none from f4 ▸ hold] at ho; cases ho
  · show CtlA q.time (wakeCells auto cbs q.time a).ctl
    rw [f6]; exact hi.ctl
  · show (wakeCells auto cbs q.time a).ctl.prioOK
    rw [f6]; exact hi.cprio
  · show ∀ x ∈ (wakeCells auto cbs q.time a).noop, x.prio = NORMAL
    rw [f7]; exact hi.nprio
  · apply due_of_sub hi.due
    intro x hx
    simp only [A.entries, TPhase.entries, f4, f6, f7, List.mem_append, List.mem_singleton] at hx ⊢
    rcases hx with hx | hx
    · exact Or.inr (by rw [hx]; exact le_of_lt hcont)
    · exact Or.inl (Or.inr hx)
  · exact orc_step hi.orc (orc_wake hcbs hi hph _ (Or.inl ⟨hcont, eid, n, rfl⟩))
  · refine run_single ?_
    rw [lts_wake hph hold]
    congr 1
    have := loopTest_cont (auto := auto) (arg := arg) (wakeCells auto cbs q.time a) q.time eid n (f3 ▸ hph) (f4 ▸ hold) hcont
    simp only [A.nprev, f4, f5] at this ⊢
    exact this

theorem stepOK_wakeDead (hcbs : CbsOK cbs) (hi : AInv auto cbs T a q.time hist) (eid : Nat) (t : EvId)
    (hph : a.ph = .sleep t q) (hold : a.old = none) (hcont : ¬ q.time < (wakeCells auto cbs q.time a).expire) :
    StepOK auto arg cbs T a q hist
      { wakeCells auto cbs q.time a with ph := .dead, noop := a.noop ++ [⟨q.time, NORMAL, eid, a.cur⟩] }
      (wakeFires a q.time) := by
  obtain ⟨f1, f2, f3, f4, f5, f6, f7⟩ := wakeCells_frame (auto := auto) (cbs := cbs) q.time a
  refine ⟨⟨?_, ?_, ?_, ?_, ?_, ?_, wakeCells_tpos hcbs _ hi.tpos, ?_⟩, [.wake a.nprev (wakeCb cbs a)], ?_⟩
  · show (wakeCells auto cbs q.time a).old = none
    rw [f4]; exact hold
  · intro o ho; rw [show (wakeCells auto cbs q.time a).old = none from f4 ▸ hold] at ho; cases ho
  · show CtlA q.time (wakeCells auto cbs q.time a).ctl
    rw [f6]; exact hi.ctl
  · show (wakeCells auto cbs q.time a).ctl.prioOK
    rw [f6]; exact hi.cprio
  · intro x hx
    simp only [List.mem_append, List.mem_singleton] at hx
    rcases hx with hx | rfl
    · exact hi.nprio x hx
    · rfl
  · apply due_of_sub hi.due
    intro x hx
    simp only [A.entries, TPhase.entries, f4, f6, List.mem_append, List.mem_singleton, List.nil_append] at hx ⊢
    rcases hx with hx | hx | hx | hx
    · exact Or.inl (Or.inr (Or.inl hx))
    · exact Or.inl (Or.inr (Or.inr (Or.inl hx)))
    · exact Or.inl (Or.inr (Or.inr (Or.inr hx)))
    · exact Or.inr (by rw [hx])
  · exact orc_step hi.orc (orc_wake hcbs hi hph _ (Or.inr ⟨hcont, rfl⟩))
  · refine run_single ?_
    rw [lts_wake hph hold]
    congr 1
    have := loopTest_exit (auto := auto) (arg := arg) (wakeCells auto cbs q.time a) q.time (f3 ▸ hph) (f4 ▸ hold) hcont
    simp only [A.nprev, f4, f5] at this ⊢
    exact this

/-! ## the other steps -/

theorem stepOK_noop (hi : AInv auto cbs T a q.time hist) (l1 l2 : List (QEntry ℚ)) (hq : a.noop = l1 ++ q :: l2) :
    StepOK auto arg cbs T a q hist { a with noop := l1 ++ l2 } [] := by
  refine ⟨⟨hi.ph, hi.old, hi.ctl, hi.cprio, ?_, ?_, hi.tpos, ?_⟩, [], rfl⟩
  · intro x hx
    exact hi.nprio x (by rw [hq]; simp only [List.mem_append, List.mem_cons] at hx ⊢; tauto)
  · apply due_of_sub hi.due
    intro x hx
    left
    simp only [A.entries, hq, List.mem_append, List.mem_cons] at hx ⊢
    tauto
  · rw [List.append_nil]; exact hi.orc

/-- everything `AInv` says except about the controller -/
structure AInvT (auto : Bool) (cbs : List (Option Op)) (T : ℚ) (b : A) (now : ℚ) (hist : List (HEv ℚ)) : Prop where
  ph : PhA b now b.ph
  old : ∀ o, b.old = some o → o.qi.time = now ∧ o.qi.prio = URGENT ∧ o.qt.prio = NORMAL
  nprio : ∀ x ∈ b.noop, x.prio = NORMAL
  due : ∀ x ∈ b.ph.entries ++ (oldEntries b.old ++ b.noop), now ≤ x.time
  tpos : 0 < b.timeout
  orc : orun auto cbs (o0 T) hist = some (oOf b)

theorem AInv.toT' (hi : AInv auto cbs T a q.time hist) : AInvT auto cbs T a q.time hist :=
  ⟨hi.ph, hi.old, hi.nprio, fun x hx => hi.due x (by
    simp only [A.entries, List.mem_append] at hx ⊢; tauto), hi.tpos, hi.orc⟩

/-- the controller sleeps until its next call, or returns: the rest of the invariant is untouched -/
theorem ctlNext_ainv {b : A} {now : ℚ} (eid n : Nat) (sc : List (ℚ × Op)) (h : AInvT auto cbs T b now hist)
    (hsc : ScriptOK sc) : AInv auto cbs T (ctlNext now eid n b sc) now hist := by
  cases sc with
  | nil =>
    refine ⟨h.ph, h.old, trivial, trivial, ?_, ?_, h.tpos, h.orc⟩
    · intro x hx
      simp only [ctlNext, List.mem_append, List.mem_singleton] at hx
      rcases hx with hx | rfl
      · exact h.nprio x hx
      · rfl
    · intro x hx
      simp only [ctlNext, A.entries, CPhase.entries, List.nil_append, List.mem_append, List.mem_singleton] at hx
      rcases hx with hx | hx | hx | rfl
      · exact h.due x (by simp [hx])
      · exact h.due x (by simp [hx])
      · exact h.due x (by simp [hx])
      · exact le_refl _
  | cons x sc =>
    obtain ⟨gap, op⟩ := x
    have h0 := hsc (gap, op) (by simp)
    refine ⟨h.ph, h.old, ⟨h0.2, fun y hy => hsc y (List.mem_cons_of_mem _ hy)⟩, rfl, h.nprio, ?_, h.tpos, h.orc⟩
    intro x hx
    simp only [ctlNext, A.entries, CPhase.entries, List.mem_append, List.mem_singleton] at hx
    rcases hx with hx | hx | rfl | hx
    · exact h.due x (by simp [hx])
    · exact h.due x (by simp [hx])
    · show now ≤ now + gap
      have := h0.1
      linarith
    · exact h.due x (by simp [hx])

theorem toT_ctlNext (now t : ℚ) (eid n : Nat) (b : A) (sc : List (ℚ × Op)) :
    toT auto arg (ctlNext now eid n b sc) t = toT auto arg b t := by
  cases sc with
  | nil => rfl
  | cons x sc => rfl

theorem stepOK_ctlInit (hi : AInv auto cbs T a q.time hist) (eid n : Nat) (sc : List (ℚ × Op)) (hctl : a.ctl = .init q sc) :
    StepOK auto arg cbs T a q hist (ctlNext q.time eid n a sc) [] := by
  have hc := hi.ctl
  rw [hctl] at hc
  refine ⟨?_, [], ?_⟩
  · rw [List.append_nil]
    exact ctlNext_ainv eid n sc hi.toT' hc.2.2
  · rw [toT_ctlNext]; rfl

/-- a call from outside finds no prescribed firing overdue: the pending instant is the time of an agenda entry -/
theorem pending_not_missed (hi : AInv auto cbs T a q.time hist) (hni : ∀ q0, a.ph ≠ .init q0) :
    ∀ e, (oOf a).pending = some e → q.time ≤ e := by
  intro e he
  unfold oOf at he
  cases hst : a.stopped with
  | true => simp [hst] at he
  | false =>
    cases hph : a.ph with
    | init q0 => exact absurd hph (hni q0)
    | sleep t q0 =>
      have := hi.due q0 (mem_ph (by simp [hph, TPhase.entries]))
      simp only [hst, hph, Bool.false_eq_true, if_false, Option.some.injEq] at he
      rw [← he]; exact this
    | dead => simp [hst, hph] at he

/-- what the oracle does with a call that finds nothing overdue -/
theorem ostep_call (o : OSt ℚ) (t : ℚ) (op : Op) (h : ∀ e, o.pending = some e → t ≤ e) :
    ostep auto cbs o (.call t op) = some
      (match op with
       | .stop => { o with pending := none, stopped := true }
       | .restart tau =>
         match o.pending with
         | some _ => { o with pending := some (t + tau), timeout := tau }
         | none => { o with timeout := tau }) := by
  unfold ostep
  cases hp : o.pending with
  | none => cases op <;> simp
  | some e =>
    have := h e hp
    cases op <;> simp [not_lt.mpr this]

theorem stepOK_ctlStop (hi : AInv auto cbs T a q.time hist) (hq : IsMin a q) (eid n : Nat) (sc : List (ℚ × Op))
    (hctl : a.ctl = .wait .stop sc q) :
    StepOK auto arg cbs T a q hist (ctlNext q.time eid n { a with stopped := true, expire := q.time } sc)
      [.call q.time .stop] := by
  have hc := hi.ctl
  have hcp := hi.cprio
  rw [hctl] at hc hcp
  have hni : ∀ q0, a.ph ≠ .init q0 := by
    intro q0 hph
    have hp := hi.ph
    rw [hph] at hp
    refine hi.not_prio_lt hq (mem_ph (by simp [hph, TPhase.entries])) hp.1 ?_
    rw [hp.2.1, show q.prio = NORMAL from hcp]; decide
  refine ⟨ctlNext_ainv eid n sc ⟨?_, hi.old, hi.nprio, hi.toT'.due, hi.tpos, ?_⟩ hc.2, [.stop], ?_⟩
  · have hp := hi.ph
    cases hph : a.ph with
    | init q0 => exact absurd hph (hni q0)
    | sleep t q0 =>
      rw [hph] at hp
      exact ⟨hp.1, hi.due q0 (mem_ph (by simp [hph, TPhase.entries])), hp.2.2⟩
    | dead => rw [hph] at hp; exact hp
  · refine orc_step hi.orc ?_
    simp only [orun, ostep_call _ _ _ (pending_not_missed hi hni)]
    simp [oOf]
  · rw [toT_ctlNext]
    exact run_single rfl

theorem stepOK_ctlRestartDead (hi : AInv auto cbs T a q.time hist) (eid n : Nat) (sc : List (ℚ × Op)) (tau : ℚ)
    (hctl : a.ctl = .wait (.restart tau) sc q) (hph : a.ph = .dead) :
    StepOK auto arg cbs T a q hist
      (ctlNext q.time eid n { a with start := q.time, timeout := tau, expire := q.time + tau } sc)
      [.call q.time (.restart tau)] := by
  have hc := hi.ctl
  rw [hctl] at hc
  have htau : 0 < tau := hc.1
  have hp := hi.ph
  rw [hph] at hp
  have hold : a.old = none := hp
  have hni : ∀ q0, a.ph ≠ .init q0 := by intro q0 h; rw [hph] at h; cases h
  refine ⟨ctlNext_ainv eid n sc ⟨?_, hi.old, hi.nprio, hi.toT'.due, htau, ?_⟩ hc.2, [.restart tau], ?_⟩
  · show PhA _ q.time a.ph
    rw [hph]; exact hold
  · refine orc_step hi.orc ?_
    have hpn : (oOf a).pending = none := by simp [oOf, hph]
    simp only [orun, ostep_call _ _ _ (pending_not_missed hi hni), hpn]
    simp [oOf, hph]
  · rw [toT_ctlNext]
    refine run_single ?_
    show _ = Timer.Res.ok _ []
    have h2 : (toT auto arg a q.time).procs[a.nprev]? = some PStat.finished := by
      simp only [toT, A.nprev, hold, oldStat, hph, TPhase.stat]
      have := get_mid (a.dead.map fun _ => (PStat.finished : PStat ℚ)) [] PStat.finished []
      simpa using this
    have h3 : (Timer.rebase tau (toT auto arg a q.time)).procs[(Timer.rebase tau (toT auto arg a q.time)).proc]? =
        some PStat.finished := h2
    simp only [Timer.step, Timer.restartCall, h3, Timer.PStat.alive, Timer.ofExcept]
    simp [Timer.rebase, toT, A.nprev]

theorem stepOK_ctlRestartAlive (hi : AInv auto cbs T a q.time hist) (eid n : Nat) (sc : List (ℚ × Op)) (tau : ℚ)
    (t : EvId) (qt : QEntry ℚ) (hctl : a.ctl = .wait (.restart tau) sc q) (hph : a.ph = .sleep t qt) (hold : a.old = none) :
    StepOK auto arg cbs T a q hist
      (ctlNext q.time (eid + 1 + 1) (n + 1 + 1 + 1)
        { a with start := q.time, timeout := tau, expire := q.time + tau,
                 old := some ⟨n, a.cur, t, ⟨q.time, URGENT, eid, n⟩, qt⟩,
                 cur := n + 1, ph := .init ⟨q.time, URGENT, eid + 1, n + 1 + 1⟩ } sc)
      [.call q.time (.restart tau)] := by
  have hc := hi.ctl
  rw [hctl] at hc
  have htau : 0 < tau := hc.1
  have hp := hi.ph
  rw [hph] at hp
  have hqt : q.time ≤ qt.time := hi.due qt (mem_ph (by simp [hph, TPhase.entries]))
  have hni : ∀ q0, a.ph ≠ .init q0 := by intro q0 h; rw [hph] at h; cases h
  refine ⟨ctlNext_ainv _ _ sc ⟨?_, ?_, hi.nprio, ?_, htau, ?_⟩ hc.2, [.restart tau], ?_⟩
  · refine ⟨rfl, rfl, by show q.time < q.time + tau; linarith, ?_⟩
    intro o ho
    simp only [Option.some.injEq] at ho
    subst ho
    exact Nat.lt_succ_self _
  · intro o ho
    simp only [Option.some.injEq] at ho
    subst ho
    exact ⟨rfl, rfl, hp.1⟩
  · intro x hx
    simp only [TPhase.entries, oldEntries, Old.entries, List.mem_append, List.mem_cons, List.not_mem_nil, or_false] at hx
    rcases hx with rfl | (rfl | rfl) | hx
    · exact le_refl _
    · exact le_refl _
    · exact hqt
    · exact hi.due x (mem_noop hx)
  · refine orc_step hi.orc ?_
    simp only [orun, ostep_call _ _ _ (pending_not_missed hi hni)]
    cases hst : a.stopped with
    | true => simp [oOf, hst]
    | false => simp [oOf, hst, hph]
  · rw [toT_ctlNext]
    refine run_single ?_
    show _ = Timer.Res.ok _ []
    have h2 : (toT auto arg a q.time).procs[a.nprev]? = some (PStat.sleeping qt.time) := by
      simp only [toT, A.nprev, hold, oldStat, hph, TPhase.stat]
      have := get_mid (a.dead.map fun _ => (PStat.finished : PStat ℚ)) [] (PStat.sleeping qt.time) []
      simpa using this
    have h3 : (Timer.rebase tau (toT auto arg a q.time)).procs[(Timer.rebase tau (toT auto arg a q.time)).proc]? =
        some (PStat.sleeping qt.time) := h2
    simp only [Timer.step, Timer.restartCall, h3, Timer.PStat.alive, Timer.interruptReq, Timer.ofExcept]
    simp [Timer.rebase, Timer.spawn, toT, hold, hph, oldStat, TPhase.stat, A.nprev]

/-- **every configuration step is sound**: the invariant is kept at the instant of the processed entry, the history
still passes the oracle, and the Timer LTS accepts the clock advance followed by the step's action -/
theorem astep_sound (hcbs : CbsOK cbs) {now : ℚ} {a' : A} {new : List (HEv ℚ)}
    (hi : AInv auto cbs T a now hist) (hq : IsMin a q) (hs : AStep auto cbs a q a' new) :
    AInv auto cbs T a' q.time (hist ++ new) ∧
    ∃ acts, Timer.run (toT auto arg a now) acts = .ok (toT auto arg a' q.time) (outsOfH arg new) := by
  have hi' := hi.advance hq
  obtain ⟨acts0, h0⟩ := lts_advance (arg := arg) hi hq
  have key : StepOK auto arg cbs T a q hist a' new := by
    cases hs with
    | tmInit eid n hph hold => exact stepOK_tmInit hi' eid n hph hold
    | intr eid o hold hq' => exact stepOK_intr hi' eid o hold hq'
    | wakeSleep eid n t hph hold hcont => exact stepOK_wakeSleep hcbs hi' eid n t hph hold hcont
    | wakeDead eid t hph hold hcont => exact stepOK_wakeDead hcbs hi' eid t hph hold hcont
    | noop l1 l2 hq' => exact stepOK_noop hi' l1 l2 hq'
    | ctlInit eid n sc hctl => exact stepOK_ctlInit hi' eid n sc hctl
    | ctlStop eid n sc hctl => exact stepOK_ctlStop hi' hq eid n sc hctl
    | ctlRestartDead eid n sc tau hctl hph => exact stepOK_ctlRestartDead hi' eid n sc tau hctl hph
    | ctlRestartAlive eid n sc tau t qt hctl hph hold => exact stepOK_ctlRestartAlive hi' eid n sc tau t qt hctl hph hold
  obtain ⟨h1, acts, h2⟩ := key
  refine ⟨h1, acts0 ++ acts, ?_⟩
  have := run_append_of h0 h2
  simpa using this

end TimerK
