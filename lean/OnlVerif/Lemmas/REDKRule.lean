import OnlVerif.Lemmas.REDKInit
/-!
# Generator → REDPort → sink on the kernel model: RED's rule read off a configuration step
-/

set_option linter.unusedSimpArgs false

namespace REDK
open REDOnK QEntry

variable {c : Cfg ℚ} {sizes0 : List Nat}

/-- a configuration step is either no arrival (counters, average and draw log untouched) or exactly one arrival decided by
`redDrop` on the new average and the attached draw -/
theorem astep_rule {a a' : A} {q : QEntry ℚ} {new : List (View ℚ)} (hs : AStep c sizes0 a q a' new) :
    (a'.recv = a.recv ∧ a'.avg = a.avg ∧ a'.dropped = a.dropped ∧ usV new = []) ∨
    (∃ n z gaps sizes us, a.src = .wait n z gaps sizes us q ∧ a.pend = none ∧ a'.recv = a.recv + 1 ∧
      a'.avg = avgNew c a ∧ usV new = [uAtt c (avgNew c a) us] ∧ (needsDraw c (avgNew c a) = true → us ≠ []) ∧
      ((∃ n' z' g' s' q', a'.src = .wait n' z' g' s' (usAfter c (avgNew c a) us) q') ∨ ∃ q', a'.src = .ending q') ∧
      ((dropQ c (avgNew c a) (uAtt c (avgNew c a) us) = true ∧ a'.dropped = a.dropped + 1 ∧ a'.items = a.items) ∨
       (dropQ c (avgNew c a) (uAtt c (avgNew c a) us) = false ∧ a'.dropped = a.dropped ∧
         a'.items = a.items ++ [(n : Int) + 1]))) := by
  cases hs with
  | portInit g h => left; exact ⟨rfl, rfl, rfl, rfl⟩
  | srcInit q' gaps sizes us h ht hp => left; exact ⟨rfl, rfl, rfl, rfl⟩
  | srcDelayEnd q' gaps sizes us h hn ht => left; exact ⟨rfl, rfl, rfl, rfl⟩
  | srcDelayWait q' gaps sizes us gap z gaps' sizes' h hn ht => left; exact ⟨rfl, rfl, rfl, rfl⟩
  | srcAccEnd u q' n z gaps sizes us h hn hd hacc hnx hu ht =>
    right
    exact ⟨n, z, gaps, sizes, us, h, hn, rfl, rfl, rfl, hd, Or.inr ⟨q', rfl⟩, Or.inr ⟨hacc, rfl, rfl⟩⟩
  | srcAccWait u q' n z gaps sizes us gap z' gaps' sizes' h hn hd hacc hnx hu ht ho =>
    right
    exact ⟨n, z, gaps, sizes, us, h, hn, rfl, rfl, rfl, hd, Or.inl ⟨_, _, _, _, _, rfl⟩, Or.inr ⟨hacc, rfl, rfl⟩⟩
  | srcDropEnd q' n z gaps sizes us h hn hd hdrop hnx ht =>
    right
    exact ⟨n, z, gaps, sizes, us, h, hn, rfl, rfl, rfl, hd, Or.inr ⟨q', rfl⟩, Or.inl ⟨hdrop, rfl, rfl⟩⟩
  | srcDropWait q' n z gaps sizes us gap z' gaps' sizes' h hn hd hdrop hnx ht =>
    right
    exact ⟨n, z, gaps, sizes, us, h, hn, rfl, rfl, rfl, hd, Or.inl ⟨_, _, _, _, _, rfl⟩, Or.inl ⟨hdrop, rfl, rfl⟩⟩
  | putIdle h hw => left; exact ⟨rfl, rfl, rfl, rfl⟩
  | putHand q' g i is h hw hit ht => left; exact ⟨rfl, rfl, rfl, rfl⟩
  | serveTx q' g t id h hr ht => left; exact ⟨rfl, rfl, rfl, rfl⟩
  | serveNowIdle g g' id h hr hit => left; exact ⟨rfl, rfl, rfl, rfl⟩
  | serveNowNext q' g g' id i is h hr hit ht => left; exact ⟨rfl, rfl, rfl, rfl⟩
  | fireIdle t g id h hit => left; exact ⟨rfl, rfl, rfl, rfl⟩
  | fireNext q' t g id i is h hit ht => left; exact ⟨rfl, rfl, rfl, rfl⟩
  | srcEnd h => left; exact ⟨rfl, rfl, rfl, rfl⟩

/-- when is `random.uniform` called -/
theorem needsDraw_false_iff (avg : ℚ) :
    needsDraw c avg = false ↔ ((Num.ofNat c.qlimit : ℚ) ≤ avg ∨ (avg < c.maxTh ∧ avg < c.minTh)) := by
  unfold needsDraw
  by_cases h1 : (Num.ofNat c.qlimit : ℚ) ≤ avg
  · simp [h1]
  · by_cases h2 : c.maxTh ≤ avg
    · simp [h1, h2, not_lt.mpr h2]
    · by_cases h3 : c.minTh ≤ avg
      · simp [h1, h2, h3, not_lt.mpr h3]
      · simp [h1, h2, h3, not_le.mp h2, not_le.mp h3]

/-- the draws left, read off a kernel state whose generator sleeps before an arrival -/
theorem drawsLeft_wait {s : KS} {a : A} (hk : KInv s a) {n z : Nat} {gaps : List ℚ} {sizes : List Nat} {us : List ℚ}
    {q : QEntry ℚ} (h : a.src = .wait n z gaps sizes us q) : drawsLeft s = us := by
  have hs := hk.src
  rw [h] at hs
  simp [drawsLeft, genProc, hs.2.1]

theorem triggered_ending {s : KS} {a : A} (hk : KInv s a) {q : QEntry ℚ} (h : a.src = .ending q) :
    s.triggered genProc = true := by
  have hs := hk.src
  rw [h] at hs
  simp [KState.triggered, genProc, hs.2.2.2]

end REDK
