import OnlVerif.Lemmas.REDKInit
/-! # Generator → REDPort → sink on the kernel model: RED's rule read off a configuration step (placeholder, extended below) -/
