import OnlVerif.Lemmas.Route
import OnlVerif.Generated.Route
/-! # The definitions generated from the Python source by `py2lean/route.py` coincide with the hand-written dispatch models -/
set_option linter.unusedSimpArgs false

namespace Route.Gen
open Route Route.Py

theorem FlowDemux_put_eq (c : FlowDemuxCfg) (p : Pkt) (fresh : Nat) : (FlowDemux_put c p).run fresh = FlowDemux.put c p := by
  unfold FlowDemux_put FlowDemux.put
  by_cases h : p.flowId < (c.outs.length : Int)
  · cases hi : pyIndex c.outs p.flowId <;>
      simp [Eff.run, Eff.seq, Eff.bind, Eff.skip, Eff.pure, Eff.index, Eff.put, Eff.raise, pyLen, h, hi]
  · cases hd : c.default <;>
      simp [Eff.run, Eff.seq, Eff.bind, Eff.skip, Eff.pure, Eff.putOpt, Eff.put, Eff.raise, pyLen, h, hd, truthyOpt, toDefault]

theorem FIBDemux_put_eq (c : FIBDemuxCfg) (p : Pkt) (fresh : Nat) : (FIBDemux_put c p).run fresh = FIBDemux.put c p := by
  unfold FIBDemux_put FIBDemux.put
  cases hf : c.fib with
  | none => simp [Eff.run, Eff.seq, Eff.bind, Eff.raise]
  | some fib =>
    cases he : dget c.ends p.flowId with
    | some d =>
      simp [Eff.run, Eff.seq, Eff.bind, Eff.skip, Eff.pure, Eff.item, Eff.put, pyIn, he]
    | none =>
      unfold FIBDemux.viaTable
      cases ho : c.outs with
      | none =>
        cases hd : c.default <;>
          simp [Eff.run, Eff.seq, Eff.bind, Eff.skip, Eff.pure, Eff.tryCatch, Eff.raise, Eff.putOpt, Eff.put, pyIn, he, hd,
            truthyOptList, truthyOpt, toDefault]
      | some outs =>
        cases outs with
        | nil =>
          cases hd : c.default <;>
            simp [Eff.run, Eff.seq, Eff.bind, Eff.skip, Eff.pure, Eff.tryCatch, Eff.raise, Eff.putOpt, Eff.put, pyIn, he, hd,
              truthyOptList, truthyOpt, toDefault]
        | cons o os =>
          unfold FIBDemux.lookup
          cases hp : dget fib p.flowId with
          | none =>
            cases hd : c.default <;>
              simp [Eff.run, Eff.seq, Eff.bind, Eff.skip, Eff.pure, Eff.tryCatch, Eff.raise, Eff.itemOpt, Eff.item,
                Eff.putOpt, Eff.put, pyIn, he, hp, hd, truthyOptList, truthyOpt, toDefault]
          | some port =>
            cases hi : pyIndex (o :: os) port with
            | none =>
              cases hd : c.default <;>
                simp [Eff.run, Eff.seq, Eff.bind, Eff.skip, Eff.pure, Eff.tryCatch, Eff.raise, Eff.itemOpt, Eff.item,
                  Eff.indexOpt, Eff.index, Eff.putOpt, Eff.put, pyIn, he, hp, hi, hd, truthyOptList, truthyOpt, toDefault]
            | some d =>
              simp [Eff.run, Eff.seq, Eff.bind, Eff.skip, Eff.pure, Eff.tryCatch, Eff.raise, Eff.itemOpt, Eff.item,
                Eff.indexOpt, Eff.index, Eff.putOpt, Eff.put, pyIn, he, hp, hi, truthyOptList]

theorem Splitter_put_eq (c : SplitterCfg) (p : Pkt) (fresh : Nat) : (Splitter_put c p).run fresh = .ok (Splitter.put c p fresh) := by
  unfold Splitter_put Splitter.put
  cases h1 : c.out1 <;> cases h2 : c.out2 <;>
    simp [Eff.run, Eff.seq, Eff.bind, Eff.skip, Eff.pure, Eff.putOpt, Eff.put, Eff.copy, truthyOpt, giveOriginal, giveCopies]

end Route.Gen
