import OnlVerif.Lemmas.TcpScalar
import OnlVerif.Generated.TcpCC
/-!
# The textbook window and timer rules, written from the property statement (C17), independent of the code

Exact rational arithmetic.  Nothing here mentions a generated definition: these functions are what the
generated definitions are proved equal to in `Props/C17.lean`.
-/

namespace TcpSpec

/-- a new ACK: one MSS in slow start (`cwnd ≤ ssthresh`), `MSS·MSS/cwnd` in congestion avoidance -/
def renoGrow (mss cwnd ssthresh : ℚ) : ℚ :=
  if cwnd ≤ ssthresh then cwnd + mss else cwnd + mss * mss / cwnd

/-- the slow-start threshold after a loss signalled by three duplicate ACKs -/
def lossSsthresh (mss cwnd : ℚ) : ℚ := max (2 * mss) (cwnd / 2)

/-- the window right after the third duplicate ACK -/
def fastRetransmitCwnd (mss cwnd : ℚ) : ℚ := lossSsthresh mss cwnd + 3 * mss

/-- smoothed RTT with gain 1/8 -/
def srttNext (srtt sample : ℚ) : ℚ := srtt + (sample - srtt) / 8

/-- RTT deviation with gain 1/4 -/
def varNext (srtt var sample : ℚ) : ℚ := var + (|sample - srtt| - var) / 4

/-- `RTO = srtt + 4·rttvar` -/
def rtoOf (srtt var : ℚ) : ℚ := srtt + 4 * var

/-- a new segment of `mss` bytes starting at `next_seq` fits the buffered data and the congestion window -/
def InWindow (next_seq mss buffered last_ack cwnd : ℚ) : Prop :=
  next_seq + mss ≤ min buffered (last_ack + cwnd)

/-! ### CUBIC (Ha, Rhee, Xu 2008), the window-growth bookkeeping on an ACK in congestion avoidance -/

/-- the variables of the current epoch after the epoch check: a new epoch starts (at `now`, origin at the current
window, `K = 0` because `W_last_max ≤ cwnd`) when none is running, else the running one continues with one
more ACK counted -/
structure Epoch where
  start : ℚ
  origin : ℚ
  K : ℚ
  W_tcp : ℚ
  ack_cnt : ℚ

def epochOf (epoch_start origin_point K W_tcp ack_cnt cwnd now : ℚ) : Epoch :=
  if epoch_start ≤ 0 then { start := now, origin := cwnd, K := 0, W_tcp := cwnd, ack_cnt := 1 }
  else { start := epoch_start, origin := origin_point, K := K, W_tcp := W_tcp, ack_cnt := ack_cnt + 1 }

/-- the cubic target `origin + C·(t − K)³` at `t = now + d_min − epoch_start` -/
def cubicTarget (e : Epoch) (C d_min now : ℚ) : ℚ := e.origin + C * (now + d_min - e.start - e.K) ^ 3

/-- ACKs per window increment towards the target -/
def cubicCnt (cwnd target : ℚ) : ℚ := if cwnd < target then cwnd / (target - cwnd) else 100 * cwnd

/-- the TCP-friendly window estimate -/
def friendlyW (e : Epoch) (beta cwnd : ℚ) : ℚ := e.W_tcp + 3 * beta / (2 - beta) * (e.ack_cnt / cwnd)

/-- TCP-friendly region: grow at least as fast as the estimate -/
def friendlyCnt (cnt cwnd w : ℚ) : ℚ := if cwnd < w then min cnt (cwnd / (w - cwnd)) else cnt

end TcpSpec
