import OnlVerif.Lemmas.SchedLawful
/-!
# MultiQueueServer: logs of whole runs, where a burst can end, alternation of starts and departures, drain
-/

namespace MQ
variable {κ : Type}

/-- a burst ends at a `yield`: packet handed, sender spawned, or blocked on / served by the token store -/
theorem settles_end (sc : Sched ℚ κ) (s s' : MQState ℚ κ) (hs : Settles sc s s') :
    (∃ c p, s'.phase = .pktHanded c p) ∨ (∃ p, s'.phase = .spawned p) ∨ s'.phase = .waitToken ∨ s'.phase = .tokenHanded := by
  induction hs with
  | goto s k s' hm _ ih => exact ih
  | get s c k s' hm hg =>
    unfold issueGet at hg
    split at hg
    · simp only [Except.ok.injEq] at hg; subst hg; exact Or.inl ⟨_, _, rfl⟩
    · cases hg
  | block s k hm =>
    unfold blockOnToken
    split
    · exact Or.inr (Or.inr (Or.inr rfl))
    · exact Or.inr (Or.inr (Or.inl rfl))
  | takeSend s c k p e k' hm hp hd => exact Or.inr (Or.inl ⟨p, rfl⟩)
  | takePark s c k p k' s2 s' hm hp hd hpk _ ih => exact ih

theorem resumeLoop_end (sc : Sched ℚ κ) (s s' : MQState ℚ κ) (h : resumeLoop sc s = .ok s') :
    (∃ c p, s'.phase = .pktHanded c p) ∨ (∃ p, s'.phase = .spawned p) ∨ s'.phase = .waitToken ∨ s'.phase = .tokenHanded :=
  settles_end sc _ s' (resumeLoop_settles sc s s' h)

/-- the packet whose transmission is in progress -/
def txOpen (s : MQState ℚ κ) : Option MPkt :=
  match s.phase with
  | .sending p _ => some p
  | _ => none

theorem txOpen_of_end (s' : MQState ℚ κ)
    (h : (∃ c p, s'.phase = .pktHanded c p) ∨ (∃ p, s'.phase = .spawned p) ∨ s'.phase = .waitToken ∨ s'.phase = .tokenHanded) :
    txOpen s' = none := by
  rcases h with ⟨c, p, h⟩ | ⟨p, h⟩ | h | h <;> simp [txOpen, h]

/-- what a step does to the "transmission in progress" marker -/
def TxMove (s s' : MQState ℚ κ) (o : MOut ℚ) : Prop :=
  (∀ p d, o = .started p d → txOpen s = none ∧ txOpen s' = some p) ∧
  (∀ p, o = .depart p → txOpen s = some p ∧ txOpen s' = none) ∧
  ((∀ p d, o ≠ .started p d) → (∀ p, o ≠ .depart p) → txOpen s' = txOpen s)

theorem txMove_quiet (s s' : MQState ℚ κ) (o : MOut ℚ) (ho : o = .nothing ∨ o = .accepted ∨ ∃ l, o = .samples l)
    (h : txOpen s' = txOpen s) : TxMove s s' o := by
  refine ⟨?_, ?_, fun _ _ => h⟩
  · intro p d hx; rcases ho with rfl | rfl | ⟨l, rfl⟩ <;> cases hx
  · intro p hx; rcases ho with rfl | rfl | ⟨l, rfl⟩ <;> cases hx

/-- how one step moves the "transmission in progress" marker -/
theorem step_txOpen (sc : Sched ℚ κ) (s s' : MQState ℚ κ) (a : MAct ℚ) (o : MOut ℚ) (hs : step sc s a = .ok (s', o)) :
    TxMove s s' o := by
  have ht := step_trans sc s s' a o hs
  cases ht with
  | init _ hp hr =>
    apply txMove_quiet _ _ _ (Or.inl rfl)
    rw [txOpen_of_end s' (resumeLoop_end sc s s' hr)]; simp [txOpen, hp]
  | put p c k hc hk =>
    apply txMove_quiet _ _ _ (Or.inr (Or.inl rfl))
    have : (postToken { s with ctl := k }).phase = s.phase := by unfold postToken; split <;> rfl
    simp only [txOpen, enqueue, countIn, this]
  | tokenHandoff n hp htk =>
    apply txMove_quiet _ _ _ (Or.inl rfl)
    simp [txOpen, hp]
  | wake _ hp hr =>
    apply txMove_quiet _ _ _ (Or.inl rfl)
    rw [txOpen_of_end s' (resumeLoop_end sc s s' hr)]; simp [txOpen, hp]
  | resumeSend c p e k hp hd =>
    apply txMove_quiet _ _ _ (Or.inl rfl)
    simp [txOpen, hp, spawn]
  | resumePark c p k s2 _ hp hd hpk hr =>
    apply txMove_quiet _ _ _ (Or.inl rfl)
    rw [txOpen_of_end s' (resumeLoop_end sc s2 s' hr)]; simp [txOpen, hp]
  | sendInit p hp =>
    refine ⟨fun q d h => ?_, fun _ h => (by cases h), fun h1 _ => absurd rfl (h1 _ _)⟩
    cases h
    exact ⟨by simp [txOpen, hp], by simp [txOpen]⟩
  | sendFire p due hp hnow =>
    refine ⟨fun _ _ h => (by cases h), fun q h => ?_, fun _ h2 => absurd rfl (h2 _)⟩
    cases h
    exact ⟨by simp [txOpen, hp], by simp [txOpen]⟩
  | sendDone p k _ hp hk hr =>
    apply txMove_quiet _ _ _ (Or.inl rfl)
    rw [txOpen_of_end s' (resumeLoop_end sc _ s' hr)]; simp [txOpen, hp]
  | tickIdle t h1 h2 h3 =>
    apply txMove_quiet _ _ _ (Or.inl rfl)
    simp [txOpen]
  | tickBusy t p due h1 h2 h3 =>
    apply txMove_quiet _ _ _ (Or.inl rfl)
    simp [txOpen]
  | sample inc => exact txMove_quiet _ _ _ (Or.inr (Or.inr ⟨_, rfl⟩)) rfl

/-! ### logs -/

/-- one accepted step of a run: state before, action, output, state after -/
structure Entry (κ : Type) where
  pre : MQState ℚ κ
  act : MAct ℚ
  out : MOut ℚ
  post : MQState ℚ κ

/-- run an action sequence and keep every step -/
def runLog (sc : Sched ℚ κ) : MQState ℚ κ → List (MAct ℚ) → Except String (List (Entry κ))
  | _, [] => .ok []
  | s, a :: as =>
    match step sc s a with
    | .error m => .error m
    | .ok (s1, o) =>
      match runLog sc s1 as with
      | .error m => .error m
      | .ok l => .ok (⟨s, a, o, s1⟩ :: l)

/-- every entry of the log of an admissible run starts in a state satisfying the invariant and is an accepted step -/
theorem runLog_mem (sc : Sched ℚ κ) (L : Lawful sc) (as : List (MAct ℚ)) (s : MQState ℚ κ) (l : List (Entry κ))
    (h : Inv sc s) (hr : runLog sc s as = .ok l) (e : Entry κ) (he : e ∈ l) :
    Inv sc e.pre ∧ step sc e.pre e.act = .ok (e.post, e.out) := by
  induction as generalizing s l with
  | nil =>
    simp only [runLog, Except.ok.injEq] at hr
    subst hr; cases he
  | cons a as ih =>
    simp only [runLog] at hr
    split at hr
    · cases hr
    · rename_i s1 o h1
      split at hr
      · cases hr
      · rename_i l2 h2
        simp only [Except.ok.injEq] at hr
        subst hr
        rcases List.mem_cons.mp he with rfl | he
        · exact ⟨h, h1⟩
        · exact ih s1 l2 (step_inv sc L s s1 a o h h1).1 h2 he

/-- any step-invariant `J` holds before every step of an admissible run -/
theorem runLog_mem_of (sc : Sched ℚ κ) (J : MQState ℚ κ → Prop)
    (hJ : ∀ s a s' o, J s → step sc s a = .ok (s', o) → J s') (as : List (MAct ℚ)) (s : MQState ℚ κ)
    (l : List (Entry κ)) (h : J s) (hr : runLog sc s as = .ok l) (e : Entry κ) (he : e ∈ l) :
    J e.pre ∧ step sc e.pre e.act = .ok (e.post, e.out) := by
  induction as generalizing s l with
  | nil =>
    simp only [runLog, Except.ok.injEq] at hr
    subst hr; cases he
  | cons a as ih =>
    simp only [runLog] at hr
    split at hr
    · cases hr
    · rename_i s1 o h1
      split at hr
      · cases hr
      · rename_i l2 h2
        simp only [Except.ok.injEq] at hr
        subst hr
        rcases List.mem_cons.mp he with rfl | he
        · exact ⟨h, h1⟩
        · exact ih s1 l2 (hJ s a s1 o h h1) h2 he

/-- starts (`true`) and departures (`false`) in a list of outputs -/
def txEvents : List (MOut ℚ) → List (Bool × MPkt)
  | [] => []
  | .started p _ :: r => (true, p) :: txEvents r
  | .depart p :: r => (false, p) :: txEvents r
  | _ :: r => txEvents r

/-- starts and departures alternate and each departure is the packet that was started -/
def Alternates : Option MPkt → List (Bool × MPkt) → Prop
  | _, [] => True
  | none, (true, p) :: r => Alternates (some p) r
  | some q, (false, p) :: r => p = q ∧ Alternates none r
  | _, _ => False

theorem runLog_alternates (sc : Sched ℚ κ) (as : List (MAct ℚ)) (s : MQState ℚ κ) (l : List (Entry κ))
    (hr : runLog sc s as = .ok l) : Alternates (txOpen s) (txEvents (l.map (·.out))) := by
  induction as generalizing s l with
  | nil =>
    simp only [runLog, Except.ok.injEq] at hr
    subst hr; simp [txEvents, Alternates]
  | cons a as ih =>
    simp only [runLog] at hr
    split at hr
    · cases hr
    · rename_i s1 o h1
      split at hr
      · cases hr
      · rename_i l2 h2
        simp only [Except.ok.injEq] at hr
        subst hr
        have hx := step_txOpen sc s s1 a o h1
        have ih' := ih s1 l2 h2
        simp only [List.map_cons]
        cases o with
        | started p d =>
          obtain ⟨e1, e2⟩ := hx.1 p d rfl
          simp only [txEvents]; rw [e1]; simp only [Alternates]; rw [← e2]; exact ih'
        | depart p =>
          obtain ⟨e1, e2⟩ := hx.2.1 p rfl
          simp only [txEvents]; rw [e1]; simp only [Alternates]; rw [← e2]; exact ⟨trivial, ih'⟩
        | nothing =>
          have := hx.2.2 (fun _ _ h => (by cases h)) (fun _ h => (by cases h))
          simp only [txEvents]; rw [← this]; exact ih'
        | accepted =>
          have := hx.2.2 (fun _ _ h => (by cases h)) (fun _ h => (by cases h))
          simp only [txEvents]; rw [← this]; exact ih'
        | samples x =>
          have := hx.2.2 (fun _ _ h => (by cases h)) (fun _ h => (by cases h))
          simp only [txEvents]; rw [← this]; exact ih'

/-! ### nothing held when the weight is zero -/

theorem wsum_nonneg (w : MPkt → Int) (hw : ∀ p, 0 ≤ w p) (l : List MPkt) : 0 ≤ wsum w l := by
  induction l with
  | nil => simp
  | cons p r ih => simp only [wsum_cons]; have := hw p; omega

theorem wsumMap_nonneg {β : Type} (g : β → Int) (hg : ∀ v, 0 ≤ g v) (m : List (Nat × β)) : 0 ≤ wsumMap g m := by
  induction m with
  | nil => simp [wsumMap]
  | cons a r ih => obtain ⟨k, v⟩ := a; simp only [wsumMap]; have := hg v; omega

theorem wsumMap_lookup_le {β : Type} (g : β → Int) (hg : ∀ v, 0 ≤ g v) (d : β) (hd : g d = 0) (m : List (Nat × β)) (c : Nat) :
    g (lookupD m c d) ≤ wsumMap g m := by
  induction m with
  | nil => simp [lookupD, lookup, wsumMap, hd]
  | cons a r ih =>
    obtain ⟨k, v⟩ := a
    simp only [lookupD, lookup, wsumMap] at ih ⊢
    split
    · have := wsumMap_nonneg g hg r; simp only [Option.getD_some]; omega
    · have := hg v; omega

theorem wsum_one_eq_length (l : List MPkt) : wsum (fun _ => 1) l = l.length := by
  induction l with
  | nil => simp
  | cons p r ih => simp only [wsum_cons, ih, List.length_cons]; omega

/-- when the total weight 1 is zero nothing is held anywhere -/
theorem nothing_held_of_total_zero (s : MQState ℚ κ) (h : W (fun _ => 1) s = 0) :
    inHand s = [] ∧ (∀ c, storeOf s.stores c = []) ∧ (∀ c, lookupD s.hol c none = none) := by
  have hw : ∀ p : MPkt, (0 : Int) ≤ (fun _ => 1) p := fun _ => by simp
  have ho : ∀ v : Option MPkt, 0 ≤ wOpt (fun _ => 1) v := fun v => by cases v <;> simp
  have h1 := wsum_nonneg (fun _ => 1) hw (inHand s)
  have h2 := wsumMap_nonneg (wOpt (fun _ => 1)) ho s.hol
  have h3 := wsumMap_nonneg (wsum (fun _ => 1)) (wsum_nonneg _ hw) s.stores
  simp only [W] at h
  refine ⟨?_, ?_, ?_⟩
  · have : wsum (fun _ => 1) (inHand s) = 0 := by omega
    rw [wsum_one_eq_length] at this
    exact List.length_eq_zero_iff.mp (by exact_mod_cast this)
  · intro c
    have := wsumMap_lookup_le (wsum (fun _ => 1)) (wsum_nonneg _ hw) [] rfl s.stores c
    have h4 := wsum_nonneg (fun _ => 1) hw (lookupD s.stores c [])
    have : wsum (fun _ => 1) (storeOf s.stores c) = 0 := by unfold storeOf; omega
    rw [wsum_one_eq_length] at this
    exact List.length_eq_zero_iff.mp (by exact_mod_cast this)
  · intro c
    have := wsumMap_lookup_le (wOpt (fun _ => 1)) ho none rfl s.hol c
    have h4 := ho (lookupD s.hol c none)
    cases hv : lookupD s.hol c none with
    | none => rfl
    | some p => rw [hv] at this; simp at this; omega

theorem heldC_nil_of_nothing (sc : Sched ℚ κ) (s : MQState ℚ κ) (h1 : inHand s = []) (h2 : ∀ c, storeOf s.stores c = [])
    (h3 : ∀ c, lookupD s.hol c none = none) (c : Nat) : heldC sc s c = [] := by
  simp [heldC, h1, h2, h3]

/-! ### per flow -/

def ofFlow (f : Nat) (l : List MPkt) : List MPkt := l.filter (fun p => decide (p.flow = f))

theorem ofFlow_ofClass (sc : Sched ℚ κ) (f c : Nat) (hc : sc.classOf f = some c) (l : List MPkt) :
    ofFlow f (ofClass sc c l) = ofFlow f l := by
  simp only [ofFlow, ofClass, List.filter_filter]
  congr 1
  funext p
  by_cases hp : p.flow = f
  · simp [hp, hc]
  · simp [hp]

theorem ofFlow_append (f : Nat) (l1 l2 : List MPkt) : ofFlow f (l1 ++ l2) = ofFlow f l1 ++ ofFlow f l2 := by
  simp [ofFlow]

/-! ### reachable states -/

/-- the state after `__init__`: control point `k0`, the counter keys the constructor creates (all zero) -/
def start (k0 : κ) (t0 : ℚ) (counts : List (Nat × Int)) : MQState ℚ κ := MQ.init k0 t0 counts

/-- `s` is reached from the initial state by an admissible action sequence that accepted `ins` and transmitted `outs` -/
def Reached (sc : Sched ℚ κ) (k0 : κ) (t0 : ℚ) (counts : List (Nat × Int)) (s : MQState ℚ κ) (ins outs : List MPkt) : Prop :=
  (∀ e ∈ counts, e.2 = 0) ∧ ∃ as, runActs sc (start k0 t0 counts) as = .ok (s, ins, outs)

theorem reached_inv (sc : Sched ℚ κ) (L : Lawful sc) (k0 : κ) (t0 : ℚ) (counts : List (Nat × Int)) (s : MQState ℚ κ)
    (ins outs : List MPkt) (h : Reached sc k0 t0 counts s ins outs) :
    Inv sc s ∧ ∀ c, ofClass sc c ins = ofClass sc c outs ++ heldC sc s c := by
  obtain ⟨hz, as, hr⟩ := h
  have h0 := init_inv sc k0 t0 counts hz
  have := run_inv sc L as _ s ins outs h0.1 hr
  exact ⟨this.1, fun c => by have e := this.2 c; rw [h0.2 c] at e; simpa using e⟩


end MQ
