import OnlVerif.Lemmas.CondFrame
/-!
# The counting invariant: structure lemmas, the frame rule, ghost moves, the pop
-/

namespace Cond
variable {σ : Type}

open Once (lt_of_isCond isCond_congr lt_of_cbs_some ev_default)

/-! ## same condition structure -/

/-- two states with the same conditions over the same operands -/
structure Shape (s s' : KState ℚ σ) : Prop where
  ops_eq : ∀ c, ops s' c = ops s c
  isCond_eq : ∀ c, isCond s' c = isCond s c
  isAll_eq : ∀ c, isAll s' c = isAll s c

theorem Shape.refl (s : KState ℚ σ) : Shape s s := ⟨fun _ => rfl, fun _ => rfl, fun _ => rfl⟩

theorem Shape.symm {s s' : KState ℚ σ} (h : Shape s s') : Shape s' s :=
  ⟨fun c => (h.ops_eq c).symm, fun c => (h.isCond_eq c).symm, fun c => (h.isAll_eq c).symm⟩

theorem Shape.of_kind {s s' : KState ℚ σ} (h : ∀ c, (s'.ev c).kind = (s.ev c).kind) : Shape s s' :=
  ⟨fun c => ops_congr (h c), fun c => isCond_congr (h c), fun c => isAll_congr (h c)⟩

theorem isAll_of_not_cond {s : KState ℚ σ} {c : EvId} (h : isCond s c = false) : isAll s c = true := by
  unfold isAll condOps
  unfold isCond at h
  split
  · rename_i hk; rw [hk] at h; cases h
  · rfl

theorem isCond_default {s : KState ℚ σ} {c : EvId} (h : ¬ c < s.events.size) : isCond s c = false := by
  unfold isCond; rw [ev_default s c h]; rfl

theorem Shape.of_not_cond {s s' : KState ℚ σ} (hold : ∀ c, c < s.events.size → (s'.ev c).kind = (s.ev c).kind)
    (hnew : ∀ c, ¬ c < s.events.size → isCond s' c = false) : Shape s s' := by
  refine ⟨fun c => ?_, fun c => ?_, fun c => ?_⟩
  · by_cases hc : c < s.events.size
    · exact ops_congr (hold c hc)
    · rw [ops_nil_of_not_cond (hnew c hc), ops_nil_of_not_cond (isCond_default hc)]
  · by_cases hc : c < s.events.size
    · exact isCond_congr (hold c hc)
    · rw [hnew c hc, isCond_default hc]
  · by_cases hc : c < s.events.size
    · exact isAll_congr (hold c hc)
    · rw [isAll_of_not_cond (hnew c hc), isAll_of_not_cond (isCond_default hc)]

theorem Fr.shape {s s' : KState ℚ σ} (h : Fr s s') : Shape s s' := by
  refine Shape.of_not_cond h.kind ?_
  intro c hc
  by_cases h2 : c < s'.events.size
  · exact (h.fresh c (Nat.le_of_not_lt hc) h2).1
  · exact isCond_default h2

theorem Under.shape {s s' : KState ℚ σ} (h : Shape s s') {d c : EvId} (hu : Under s d c) : Under s' d c := by
  induction hu with
  | self => exact Under.self _
  | nest he _ ih => exact Under.nest (by rw [h.ops_eq]; exact he) ih

theorem Under.le {s : KState ℚ σ} (hold : ∀ c e, e ∈ ops s c → e < c) {d c : EvId} (hu : Under s d c) : d ≤ c := by
  induction hu with
  | self => exact Nat.le_refl _
  | nest he _ ih => exact Nat.le_trans ih (Nat.le_of_lt (hold _ _ he))

theorem Under.trans {s : KState ℚ σ} {a b c : EvId} (h1 : Under s a b) (h2 : Under s b c) : Under s a c := by
  induction h2 with
  | self => exact h1
  | nest he _ ih => exact Under.nest he ih

/-- `d` under `c`: `d = c`, or `d` is under an operand of `c` -/
theorem Under.cases {s : KState ℚ σ} {d c : EvId} (h : Under s d c) : d = c ∨ ∃ e ∈ ops s c, Under s d e := by
  cases h with
  | self => exact Or.inl rfl
  | nest he hu => exact Or.inr ⟨_, he, hu⟩

theorem Gone.transfer {rem rem' : List Cb} {s s' : KState ℚ σ} (hs : Shape s s')
    (hb : ∀ a, Built rem s a → Built rem' s' a) {d : EvId} (h : Gone rem s d) : Gone rem' s' d := by
  obtain ⟨a, hu, ha⟩ := h
  exact ⟨a, hu.shape hs, hb a ha⟩

theorem Gone.of_under {rem : List Cb} {s : KState ℚ σ} {d c : EvId} (hu : Under s d c) (h : Gone rem s c) : Gone rem s d := by
  obtain ⟨a, hu', ha⟩ := h
  exact ⟨a, hu.trans hu', ha⟩

theorem processed_congr {s s' : KState ℚ σ} {e : EvId} (h : (s'.ev e).cbs = none ↔ (s.ev e).cbs = none) :
    s'.processed e = s.processed e := by
  unfold KState.processed
  cases h1 : (s.ev e).cbs with
  | none => rw [h.mpr h1]
  | some L =>
    cases h2 : (s'.ev e).cbs with
    | none => rw [h.mp h2] at h1; cases h1
    | some L' => rfl

theorem nProcessed_congr {s s' : KState ℚ σ} {c : EvId} (ho : ops s' c = ops s c)
    (hp : ∀ e ∈ ops s c, s'.processed e = s.processed e) : nProcessed s' c = nProcessed s c := by
  unfold nProcessed
  rw [ho]
  exact List.countP_congr (fun e he => by rw [hp e he])

theorem processed_iff {s : KState ℚ σ} {e : EvId} : s.processed e = true ↔ (s.ev e).cbs = none := by
  unfold KState.processed
  cases (s.ev e).cbs <;> simp

/-! ## the frame rule -/

theorem Fr.built_iff {s s' : KState ℚ σ} (h : Fr s s') (rem : List Cb) (a : EvId) : Built rem s' a ↔ Built rem s a := by
  unfold Built
  rw [h.shape.isCond_eq a]
  constructor
  · rintro ⟨h1, h2, h3⟩; exact ⟨h1, (h.cbsNone a (lt_of_isCond s a h1)).mp h2, h3⟩
  · rintro ⟨h1, h2, h3⟩; exact ⟨h1, (h.cbsNone a (lt_of_isCond s a h1)).mpr h2, h3⟩

theorem Fr.gone_iff {s s' : KState ℚ σ} (h : Fr s s') (rem : List Cb) (d : EvId) : Gone rem s' d ↔ Gone rem s d :=
  ⟨Gone.transfer h.shape.symm (fun a ha => (h.built_iff rem a).mp ha),
   Gone.transfer h.shape (fun a ha => (h.built_iff rem a).mpr ha)⟩

/-- operands of a condition exist -/
theorem CInv.op_lt {rem : List Cb} {e0 : EvId} {s : KState ℚ σ} (hc : CInv rem e0 s) {c e : EvId} (he : e ∈ ops s c) :
    e < s.events.size :=
  Nat.lt_trans (hc.older c e he) (lt_of_isCond s c (isCond_of_mem_ops he))

/-- **the frame rule**: code that is not condition code keeps the counting invariant -/
theorem CInv.frame {rem : List Cb} {e0 : EvId} {s s' : KState ℚ σ} (hc : CInv rem e0 s) (h : Fr s s')
    (hdt : ∀ e, e < s.events.size → (s.ev e).cbs = none → (s.ev e).out ≠ none) : CInv rem e0 s' := by
  have hS := h.shape
  have hproc : ∀ c, ∀ e ∈ ops s c, s'.processed e = s.processed e := fun c e he =>
    processed_congr (h.cbsNone e (hc.op_lt he))
  have hnP : ∀ c, nProcessed s' c = nProcessed s c := fun c => nProcessed_congr (hS.ops_eq c) (hproc c)
  -- a list of `s'` seen from `s`
  have hlist : ∀ e L', (s'.ev e).cbs = some L' →
      (e < s.events.size ∧ ∃ L, (s.ev e).cbs = some L ∧ ∀ cb, plainCb cb = false → L'.count cb = L.count cb) ∨
      (¬ e < s.events.size ∧ ∀ cb ∈ L', plainCb cb = true) := by
    intro e L' hL'
    by_cases he : e < s.events.size
    · left
      refine ⟨he, ?_⟩
      cases hL : (s.ev e).cbs with
      | none => rw [(h.cbsNone e he).mpr hL] at hL'; cases hL'
      | some L => exact ⟨L, rfl, h.cbsCount e L L' he hL hL'⟩
    · right
      refine ⟨he, ?_⟩
      have h2 : e < s'.events.size := lt_of_cbs_some s' e L' hL'
      obtain ⟨_, L, hL, hp⟩ := h.fresh e (Nat.le_of_not_lt he) h2
      rw [hL] at hL'; cases hL'; exact hp
  refine ⟨?_, ?_, ?_, ?_, ?_, ?_, ?_, (fun c hm => by rw [hS.ops_eq]; exact hc.rem_bld_own c hm), hc.rem_bld_cnt, ?_, ?_, ?_, ?_, ?_, ?_⟩
  · intro c e he; rw [hS.ops_eq] at he; exact hc.older c e he
  · intro c hg e L' hL'
    have hg' : ¬ Gone rem s c := fun hh => hg ((h.gone_iff rem c).mpr hh)
    rw [hS.ops_eq]
    rcases hlist e L' hL' with ⟨he, L, hL, hcnt⟩ | ⟨he, hp⟩
    · rw [hcnt _ rfl]; exact hc.chk_att c hg' e L hL
    · have h0 : L'.count (.check c) = 0 := List.count_eq_zero.mpr (fun hm => by have := hp _ hm; cases this)
      rw [h0]
      symm
      apply List.count_eq_zero.mpr
      intro hm; exact he (hc.op_lt hm)
  · intro c hg e L' hL'
    have hg' : Gone rem s c := (h.gone_iff rem c).mp hg
    rcases hlist e L' hL' with ⟨he, L, hL, hcnt⟩ | ⟨he, hp⟩
    · apply not_mem_of_count_zero
      rw [hcnt _ rfl]
      exact List.count_eq_zero.mpr (hc.chk_gone c hg' e L hL)
    · intro hm; have := hp _ hm; cases this
  · intro c hm; rw [hS.ops_eq]; exact hc.rem_att c hm
  · intro c hg; exact hc.rem_gone c ((h.gone_iff rem c).mp hg)
  · intro e L' c hL' hm
    rcases hlist e L' hL' with ⟨he, L, hL, hcnt⟩ | ⟨he, hp⟩
    · rw [hS.ops_eq]
      refine hc.bld_own e L c hL ?_
      have := hcnt (.build c) rfl
      have hpos := List.count_pos_iff.mpr hm
      exact List.count_pos_iff.mp (by omega)
    · have := hp _ hm; cases this
  · intro c L' hL' hne
    rw [hS.ops_eq] at hne
    rcases hlist c L' hL' with ⟨he, L, hL, hcnt⟩ | ⟨he, hp⟩
    · rw [hcnt _ rfl]; exact hc.bld_cnt c L hL hne
    · cases hcc : isCond s c with
      | true => exact absurd (lt_of_isCond s c hcc) he
      | false => exact absurd (ops_nil_of_not_cond hcc) hne
  · intro hne
    obtain ⟨h1, h2⟩ := hc.e0_done hne
    exact ⟨Nat.lt_of_lt_of_le h1 h.size_le, (h.cbsNone e0 h1).mpr h2⟩
  · intro c hcond hout hg
    rw [hS.isCond_eq] at hcond
    have hlt := lt_of_isCond s c hcond
    rw [h.outC c hcond] at hout
    rw [h.count c hlt, hnP]
    exact hc.cnt c hcond hout (fun hh => hg ((h.gone_iff rem c).mpr hh))
  · intro c hcond hout hg e he hp x hx
    rw [hS.isCond_eq] at hcond
    rw [h.outC c hcond] at hout
    rw [hS.ops_eq] at he
    rw [hproc c e he] at hp
    have helt := hc.op_lt he
    have hx' : (s.ev e).out = some (.fail x) := by
      cases ho : (s.ev e).out with
      | none => exact absurd ho (hdt e helt (processed_iff.mp hp))
      | some o => have := h.out e o ho; rw [hx] at this; cases this; rfl
    exact hc.nofail c hcond hout (fun hh => hg ((h.gone_iff rem c).mpr hh)) e he hp x hx'
  · intro c hcond hout
    rw [hS.isCond_eq] at hcond
    rw [h.outC c hcond] at hout
    rw [hS.isAll_eq, hS.ops_eq, h.count c (lt_of_isCond s c hcond)]
    exact hc.unmet c hcond hout
  · intro c v hcond hout
    rw [hS.isCond_eq] at hcond
    rw [h.outC c hcond] at hout
    rw [hS.isAll_eq, hS.ops_eq, hnP]
    exact hc.met c v hcond hout
  · intro c x hcond hout
    rw [hS.isCond_eq] at hcond
    rw [h.outC c hcond] at hout
    obtain ⟨e, he, hp, hx, hd⟩ := hc.failsrc c x hcond hout
    refine ⟨e, by rw [hS.ops_eq]; exact he, by rw [hproc c e he]; exact hp, h.out e _ hx, h.defused e (hc.op_lt he) hd⟩

/-- the frame changes no outcome that is set, no count of a triggered event, and triggers no condition -/
theorem Fr.mono {s s' : KState ℚ σ} (h : Fr s s') (rem : List Cb) : Mono rem s s' :=
  ⟨fun e o ho => Or.inl (h.out e o ho),
   fun e ho => by
    cases hoo : (s.ev e).out with
    | none => exact absurd hoo ho
    | some o => rw [h.out e o hoo]; simp,
   fun e ho => h.count e (Once.lt_of_out s e ho),
   fun c hc ho _ => by rw [h.outC c hc]; exact ho⟩

theorem Mono.refl (rem : List Cb) (s : KState ℚ σ) : Mono rem s s := (Fr.refl s).mono rem

/-- composition along one step: the pending list only shrinks, detached stays detached -/
theorem Mono.trans {rem rem' : List Cb} {s1 s2 s3 : KState ℚ σ} (h12 : Mono rem s1 s2) (h23 : Mono rem' s2 s3)
    (hsub : ∀ c, Cb.build c ∈ rem' → Cb.build c ∈ rem)
    (hcond : ∀ c, isCond s1 c = true → isCond s2 c = true)
    (hgone : ∀ c, Gone rem s1 c → Gone rem' s2 c) : Mono rem s1 s3 := by
  refine ⟨?_, ?_, ?_, ?_⟩
  · intro e o ho
    rcases h12.out e o ho with h | ⟨h, v, w, hv, hw⟩
    · rcases h23.out e o h with h' | ⟨h', hvw⟩
      · exact Or.inl h'
      · exact Or.inr ⟨hsub e h', hvw⟩
    · rcases h23.out e _ hw with h' | ⟨_, v', w', hv', hw'⟩
      · exact Or.inr ⟨h, v, w, hv, h'⟩
      · exact Or.inr ⟨h, v, w', hv, hw'⟩
  · intro e ho; exact h23.keep e (h12.keep e ho)
  · intro e ho
    rw [← h12.count e ho]
    exact h23.count e (h12.keep e ho)
  · intro c hc ho hg
    exact h23.frozen c (hcond c hc) (h12.frozen c hc ho hg) (hgone c hg)

end Cond
