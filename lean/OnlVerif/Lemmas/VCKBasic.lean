import OnlVerif.Lemmas.VCKAbs
import OnlVerif.Lemmas.VCKAttr
/-!
# The VirtualClock scheduler on the kernel model: what each kernel operation of the program does

Every lemma rewrites an operation applied to an arbitrary state `s` into `{ s with … }` with explicit fields, under
the local facts the operation reads (the store record, the attribute cell).  The generic part (association lists,
`resume`/`step` without duplicated sub-terms) is shared with the Timer (`TimerKBasic.lean`).
-/

set_option linter.unusedSimpArgs false

namespace VCK
open VCOnK
open TimerK (lookup plookup afterBurst resume_eq step_eq)

theorem getD_set_same (a : Array ResRec) (r : Nat) (x : ResRec) (h : r < a.size) :
    (a.setIfInBounds r x).getD r default = x := by
  rw [getD_setIfInBounds]; simp [h]

@[simp] theorem isStoreKind_pstore : isStoreKind .pstore = true := rfl
@[simp] theorem isPrioKind_pstore : isPrioKind .pstore = false := rfl
@[simp] theorem pstore_beq_preemptive : (ResKind.pstore == ResKind.preemptive) = false := rfl
@[simp] theorem pstore_beq_fstore : (ResKind.pstore == ResKind.fstore) = false := rfl

theorem doCall_load (s : KS) (self : EvId) (k : Nat) : doCall s self (.load k) = (s, .val (lookup s.shared k)) := rfl

theorem doCall_store (s : KS) (self : EvId) (k : Nat) (v : Val) :
    doCall s self (.store k v) = ({ s with shared := (k, v) :: s.shared.filter (·.1 != k) }, .unit) := rfl

theorem doCall_log (s : KS) (self : EvId) (what : String) (i : Int) :
    doCall s self (.log what (.int i)) = ({ s with trace := s.trace.push (.log self what (.int i) s.now) }, .unit) := rfl

theorem doCall_log_none (s : KS) (self : EvId) (what : String) :
    doCall s self (.log what .none) = ({ s with trace := s.trace.push (.log self what .none s.now) }, .unit) := rfl

theorem doCall_log_enc (s : KS) (self : EvId) (what : String) (x : ℚ) :
    doCall s self (.log what (TimeCell.enc x)) =
      ({ s with trace := s.trace.push (.log self what (TimeCell.enc x) s.now) }, .unit) := rfl

theorem doCall_timeout (s : KS) (self : EvId) (d : ℚ) (v : Val) (hd : 0 ≤ d) :
    doCall s self (.timeout d v) =
      ({ s with
          events := s.events.push { kind := .timeout, cbs := some [], out := some (.ok v), label := s.nlabel + 1 }
          nlabel := s.nlabel + 1
          agenda := { time := s.now + d, prio := NORMAL, eid := s.eid, ev := s.events.size } :: s.agenda
          eid := s.eid + 1 }, .ev s.events.size) := by
  have : ¬ d < Num.zero := by rw [zero_eq']; exact not_lt.mpr hd
  simp [doCall, this, KState.newLabelled, KState.schedule]

/-- `env.process(generator)` -/
theorem doCall_spawn (s : KS) (self : EvId) (st : St) :
    doCall s self (.spawn st) =
      ({ s with
          events := (s.events.push { kind := .proc, cbs := some [], out := none, label := s.nlabel + 1 }).push
                      { kind := .init s.events.size, cbs := some [.resume s.events.size], out := some (.ok .none) }
          nlabel := s.nlabel + 1
          procs := (s.events.size, { st := st, target := some (s.events.size + 1) }) :: s.procs.filter (·.1 != s.events.size)
          agenda := { time := s.now, prio := URGENT, eid := s.eid, ev := s.events.size + 1 } :: s.agenda
          eid := s.eid + 1 }, .ev s.events.size) := by
  simp [doCall, KState.newLabelled, KState.newEv, KState.setProc, KState.schedule, zero_eq']

/-- `store.put(item)` on an unbounded `PriorityStore` nobody has a pending `put` on: the item is appended, the `StorePut`
event is triggered at once (the hand-off to a waiting `get` happens when that event is processed) -/
theorem doCall_sput (s : KS) (self : EvId) (r : ResId) (item : Int) (gq : List EvId) (its : List Int)
    (hsz : r < s.resources.size) (hr : s.resources.getD r default = pstoreRec gq its) :
    doCall s self (.sput r item) =
      ({ s with
          events := s.events.push { kind := .put r, cbs := some [.trigGet r], out := some (.ok .none), label := s.nlabel + 1,
                                     req := some { res := r, item := item, time := s.now, proc := s.active } }
          nlabel := s.nlabel + 1
          resources := s.resources.setIfInBounds r (pstoreRec gq (its ++ [item]))
          agenda := { time := s.now, prio := NORMAL, eid := s.eid, ev := s.events.size } :: s.agenda
          eid := s.eid + 1 }, .ev s.events.size) := by
  simp [doCall, hr, pstoreRec, mkPut, KState.newLabelled, enqPut, KState.setPutQ, KState.setRes, KState.res,
    triggerPut, scanPut, doPut, prePut, canPut, hasRoom, applyPut, KState.setItems, KState.trigger, KState.setOut, KState.schedule,
    KState.setEv, KState.ev, reqOf, KState.triggered, dropPutQ, getD_set_same, hsz, getD_push, getD_setIfInBounds, zero_eq',
    TimerK.push_setIfInBounds_size]

/-- `store.get()` on an empty `PriorityStore` nobody waits on: the `StoreGet` event is queued -/
theorem doCall_sget_miss (s : KS) (self : EvId) (r : ResId) (hsz : r < s.resources.size)
    (hr : s.resources.getD r default = pstoreRec [] []) :
    doCall s self (.sget r 0) =
      ({ s with
          events := s.events.push { kind := .get r, cbs := some [.trigPut r], out := none, label := s.nlabel + 1,
                                     req := some { res := r, time := s.now, proc := s.active } }
          nlabel := s.nlabel + 1
          resources := s.resources.setIfInBounds r (pstoreRec [s.events.size] []) }, .ev s.events.size) := by
  simp [doCall, hr, pstoreRec, mkGet, KState.newLabelled, enqGet, KState.setGetQ, KState.setRes, KState.res,
    triggerGet, scanGet, doGet, getItem, listMin, KState.triggered, KState.ev, getD_set_same, hsz, getD_push]

/-- `store.get()` on a non-empty `PriorityStore`: the least item is handed out at once -/
theorem doCall_sget_hit (s : KS) (self : EvId) (r : ResId) (m : Int) (its : List Int) (hsz : r < s.resources.size)
    (hr : s.resources.getD r default = pstoreRec [] its) (hm : listMin its = some m) :
    doCall s self (.sget r 0) =
      ({ s with
          events := s.events.push { kind := .get r, cbs := some [.trigPut r], out := some (.ok (.int m)),
                                     label := s.nlabel + 1, req := some { res := r, time := s.now, proc := s.active } }
          nlabel := s.nlabel + 1
          resources := s.resources.setIfInBounds r (pstoreRec [] (its.erase m))
          agenda := { time := s.now, prio := NORMAL, eid := s.eid, ev := s.events.size } :: s.agenda
          eid := s.eid + 1 }, .ev s.events.size) := by
  simp [doCall, hr, pstoreRec, mkGet, KState.newLabelled, enqGet, KState.setGetQ, KState.setRes, KState.res,
    triggerGet, scanGet, doGet, getItem, hm, takeOut, KState.setItems, KState.trigger, KState.setOut, KState.schedule,
    KState.setEv, KState.triggered, KState.ev, dropGetQ, getD_set_same, hsz, getD_push, getD_setIfInBounds, zero_eq',
    TimerK.push_setIfInBounds_size]

theorem triggerPut_none (s : KS) (r : ResId) (gq : List EvId) (its : List Int)
    (hr : s.resources.getD r default = pstoreRec gq its) : triggerPut s r = s := by
  simp [triggerPut, KState.res, hr, pstoreRec, scanPut]

theorem triggerGet_none (s : KS) (r : ResId) (its : List Int)
    (hr : s.resources.getD r default = pstoreRec [] its) : triggerGet s r = s := by
  simp [triggerGet, KState.res, hr, pstoreRec, scanGet]

/-- `_trigger_get` with a waiting `get` and an empty store: nothing happens -/
theorem triggerGet_empty (s : KS) (r : ResId) (g : EvId) (hr : s.resources.getD r default = pstoreRec [g] [])
    (hg : (s.events.getD g default).out = none) : triggerGet s r = s := by
  simp [-Array.getD_eq_getD_getElem?, triggerGet, KState.res, hr, pstoreRec, scanGet, doGet, getItem, listMin,
    KState.triggered, KState.ev, hg]

/-- `_trigger_get` with a waiting `get` and an item: the least item is handed over, the `StoreGet` event is triggered -/
theorem triggerGet_hand (s : KS) (r : ResId) (g : EvId) (m : Int) (its : List Int) (hsz : r < s.resources.size)
    (hgs : g < s.events.size) (hr : s.resources.getD r default = pstoreRec [g] its) (hm : listMin its = some m) :
    triggerGet s r =
      { s with
          events := s.events.setIfInBounds g { s.events.getD g default with out := some (.ok (.int m)) }
          resources := s.resources.setIfInBounds r (pstoreRec [] (its.erase m))
          agenda := { time := s.now, prio := NORMAL, eid := s.eid, ev := g } :: s.agenda
          eid := s.eid + 1 } := by
  simp [-Array.getD_eq_getD_getElem?, hr, pstoreRec, KState.setGetQ, KState.setRes, KState.res,
    triggerGet, scanGet, doGet, getItem, hm, takeOut, KState.setItems, KState.trigger, KState.setOut, KState.schedule,
    KState.setEv, KState.triggered, KState.ev, dropGetQ, getD_set_same, hsz, hgs, getD_push, getD_setIfInBounds, zero_eq',
    TimerK.push_setIfInBounds_size]

/-! ## what the `PriorityStore` of `K` hands out -/

theorem listMin_spec : ∀ l : List Int, l ≠ [] → ∃ m, listMin l = some m ∧ m ∈ l ∧ ∀ x ∈ l, m ≤ x
  | [], h => absurd rfl h
  | [x], _ => ⟨x, by simp [listMin], by simp, by simp⟩
  | x :: y :: ys, _ => by
    obtain ⟨m, h1, h2, h3⟩ := listMin_spec (y :: ys) (by simp)
    by_cases hlt : m < x
    · refine ⟨m, by rw [listMin, h1]; simp [hlt], List.mem_cons_of_mem _ h2, ?_⟩
      intro z hz
      rcases List.mem_cons.mp hz with rfl | hz
      · exact le_of_lt hlt
      · exact h3 z hz
    · refine ⟨x, by rw [listMin, h1]; simp [hlt], List.mem_cons_self, ?_⟩
      intro z hz
      rcases List.mem_cons.mp hz with rfl | hz
      · exact le_refl _
      · exact le_trans (not_lt.mp hlt) (h3 z hz)

/-- the least element of a list is what `listMin` returns -/
theorem listMin_of_least {l : List Int} {m : Int} (hm : m ∈ l) (hle : ∀ x ∈ l, m ≤ x) : listMin l = some m := by
  obtain ⟨m', h1, h2, h3⟩ := listMin_spec l (List.ne_nil_of_mem hm)
  rw [h1, le_antisymm (h3 m hm) (hle m' h2)]

variable {N scale : Nat}

/-- the store hands out the integer of a least waiting packet -/
theorem listMin_codes {l : List PutRec} {w : PutRec} (hw : IsLeast N scale l w) :
    listMin (l.map (codeOf N scale)) = some (codeOf N scale w) := by
  refine listMin_of_least (List.mem_map.mpr ⟨w, hw.1, rfl⟩) ?_
  intro x hx
  obtain ⟨y, hy, rfl⟩ := List.mem_map.mp hx
  exact hw.2 y hy

/-- taking that integer out is taking the packet out (the codes of the waiting packets are pairwise different at `w`) -/
theorem erase_codes {l : List PutRec} {w : PutRec} (hinj : ∀ x ∈ l, codeOf N scale x = codeOf N scale w → x = w) :
    (l.map (codeOf N scale)).erase (codeOf N scale w) = (l.erase w).map (codeOf N scale) := by
  induction l with
  | nil => rfl
  | cons x xs ih =>
    by_cases hx : x = w
    · subst hx; simp
    · have hc : codeOf N scale x ≠ codeOf N scale w := fun h => hx (hinj x List.mem_cons_self h)
      rw [List.map_cons, List.erase_cons_tail (by simpa using hc), List.erase_cons_tail (by simpa using hx), List.map_cons,
        ih (fun y hy => hinj y (List.mem_cons_of_mem _ hy))]

/-- a non-empty store has a least packet -/
theorem exists_isLeast : ∀ l : List PutRec, l ≠ [] → ∃ w, IsLeast N scale l w := by
  intro l hl
  obtain ⟨m, _, h2, h3⟩ := listMin_spec (l.map (codeOf N scale)) (by simpa using hl)
  obtain ⟨w, hw, rfl⟩ := List.mem_map.mp h2
  exact ⟨w, hw, fun x hx => h3 _ (List.mem_map.mpr ⟨x, hx, rfl⟩)⟩

/-! ## the attribute cells are pairwise different -/

@[vck] theorem cRecv_ne_cCur : (cRecv = cCur) = False := by
  simp only [cRecv, cCur, eq_iff_iff, iff_false]; omega
@[vck] theorem cRecv_ne_cCount (f' : Nat) : (cRecv = cCount f') = False := by
  simp only [cRecv, cCount, eq_iff_iff, iff_false]; omega
@[vck] theorem cRecv_ne_cBytes (f' : Nat) : (cRecv = cBytes f') = False := by
  simp only [cRecv, cBytes, eq_iff_iff, iff_false]; omega
@[vck] theorem cRecv_ne_cVc (f' : Nat) : (cRecv = cVc f') = False := by
  simp only [cRecv, cVc, eq_iff_iff, iff_false]; omega
@[vck] theorem cRecv_ne_cAux (f' : Nat) : (cRecv = cAux f') = False := by
  simp only [cRecv, cAux, eq_iff_iff, iff_false]; omega
@[vck] theorem cCur_ne_cRecv : (cCur = cRecv) = False := by
  simp only [cCur, cRecv, eq_iff_iff, iff_false]; omega
@[vck] theorem cCur_ne_cCount (f' : Nat) : (cCur = cCount f') = False := by
  simp only [cCur, cCount, eq_iff_iff, iff_false]; omega
@[vck] theorem cCur_ne_cBytes (f' : Nat) : (cCur = cBytes f') = False := by
  simp only [cCur, cBytes, eq_iff_iff, iff_false]; omega
@[vck] theorem cCur_ne_cVc (f' : Nat) : (cCur = cVc f') = False := by
  simp only [cCur, cVc, eq_iff_iff, iff_false]; omega
@[vck] theorem cCur_ne_cAux (f' : Nat) : (cCur = cAux f') = False := by
  simp only [cCur, cAux, eq_iff_iff, iff_false]; omega
@[vck] theorem cCount_ne_cRecv (f : Nat) : (cCount f = cRecv) = False := by
  simp only [cCount, cRecv, eq_iff_iff, iff_false]; omega
@[vck] theorem cCount_ne_cCur (f : Nat) : (cCount f = cCur) = False := by
  simp only [cCount, cCur, eq_iff_iff, iff_false]; omega
@[vck] theorem cCount_inj (f f' : Nat) : (cCount f = cCount f') = (f = f') := by
  simp only [cCount, eq_iff_iff]; omega
@[vck] theorem cCount_ne_cBytes (f : Nat) (f' : Nat) : (cCount f = cBytes f') = False := by
  simp only [cCount, cBytes, eq_iff_iff, iff_false]; omega
@[vck] theorem cCount_ne_cVc (f : Nat) (f' : Nat) : (cCount f = cVc f') = False := by
  simp only [cCount, cVc, eq_iff_iff, iff_false]; omega
@[vck] theorem cCount_ne_cAux (f : Nat) (f' : Nat) : (cCount f = cAux f') = False := by
  simp only [cCount, cAux, eq_iff_iff, iff_false]; omega
@[vck] theorem cBytes_ne_cRecv (f : Nat) : (cBytes f = cRecv) = False := by
  simp only [cBytes, cRecv, eq_iff_iff, iff_false]; omega
@[vck] theorem cBytes_ne_cCur (f : Nat) : (cBytes f = cCur) = False := by
  simp only [cBytes, cCur, eq_iff_iff, iff_false]; omega
@[vck] theorem cBytes_ne_cCount (f : Nat) (f' : Nat) : (cBytes f = cCount f') = False := by
  simp only [cBytes, cCount, eq_iff_iff, iff_false]; omega
@[vck] theorem cBytes_inj (f f' : Nat) : (cBytes f = cBytes f') = (f = f') := by
  simp only [cBytes, eq_iff_iff]; omega
@[vck] theorem cBytes_ne_cVc (f : Nat) (f' : Nat) : (cBytes f = cVc f') = False := by
  simp only [cBytes, cVc, eq_iff_iff, iff_false]; omega
@[vck] theorem cBytes_ne_cAux (f : Nat) (f' : Nat) : (cBytes f = cAux f') = False := by
  simp only [cBytes, cAux, eq_iff_iff, iff_false]; omega
@[vck] theorem cVc_ne_cRecv (f : Nat) : (cVc f = cRecv) = False := by
  simp only [cVc, cRecv, eq_iff_iff, iff_false]; omega
@[vck] theorem cVc_ne_cCur (f : Nat) : (cVc f = cCur) = False := by
  simp only [cVc, cCur, eq_iff_iff, iff_false]; omega
@[vck] theorem cVc_ne_cCount (f : Nat) (f' : Nat) : (cVc f = cCount f') = False := by
  simp only [cVc, cCount, eq_iff_iff, iff_false]; omega
@[vck] theorem cVc_ne_cBytes (f : Nat) (f' : Nat) : (cVc f = cBytes f') = False := by
  simp only [cVc, cBytes, eq_iff_iff, iff_false]; omega
@[vck] theorem cVc_inj (f f' : Nat) : (cVc f = cVc f') = (f = f') := by
  simp only [cVc, eq_iff_iff]; omega
@[vck] theorem cVc_ne_cAux (f : Nat) (f' : Nat) : (cVc f = cAux f') = False := by
  simp only [cVc, cAux, eq_iff_iff, iff_false]; omega
@[vck] theorem cAux_ne_cRecv (f : Nat) : (cAux f = cRecv) = False := by
  simp only [cAux, cRecv, eq_iff_iff, iff_false]; omega
@[vck] theorem cAux_ne_cCur (f : Nat) : (cAux f = cCur) = False := by
  simp only [cAux, cCur, eq_iff_iff, iff_false]; omega
@[vck] theorem cAux_ne_cCount (f : Nat) (f' : Nat) : (cAux f = cCount f') = False := by
  simp only [cAux, cCount, eq_iff_iff, iff_false]; omega
@[vck] theorem cAux_ne_cBytes (f : Nat) (f' : Nat) : (cAux f = cBytes f') = False := by
  simp only [cAux, cBytes, eq_iff_iff, iff_false]; omega
@[vck] theorem cAux_ne_cVc (f : Nat) (f' : Nat) : (cAux f = cVc f') = False := by
  simp only [cAux, cVc, eq_iff_iff, iff_false]; omega
@[vck] theorem cAux_inj (f f' : Nat) : (cAux f = cAux f') = (f = f') := by
  simp only [cAux, eq_iff_iff]; omega
@[vck] theorem pst_eq : pst = 0 := rfl

/-! ## bursts: reading attributes does not change the state -/

theorem runBurst_call (p : EvId) (c : Call ℚ St) (k : Reply → Burst ℚ St) (S : KS) :
    runBurst p (.call c k) S = runBurst p (k (doCall S p c).2) (noteErr p (doCall S p c)) := rfl

theorem runBurst_loadInt (p : EvId) (k : Nat) (n : Int) (cont : Int → Burst ℚ St) (S : KS)
    (h : lookup S.shared k = .int n) : runBurst p (loadInt k cont) S = runBurst p (cont n) S := by
  simp [loadInt, runBurst_call, doCall_load, noteErr, h]

theorem runBurst_addInt (p : EvId) (k : Nat) (n d : Int) (cont : Burst ℚ St) (S : KS)
    (h : lookup S.shared k = .int n) :
    runBurst p (addInt k d cont) S =
      runBurst p cont { S with shared := (k, .int (n + d)) :: S.shared.filter (·.1 != k) } := by
  simp [addInt, loadInt, runBurst_call, doCall_load, doCall_store, noteErr, h]

/-- `d[class_id]` on a dict of scalars whose cell holds `x` -/
theorem runBurst_loadKey (p : EvId) (k : Nat) (x : ℚ) (cont : ℚ → Burst ℚ St) (S : KS)
    (h : lookup S.shared k = TimeCell.enc x) : runBurst p (loadKey k cont) S = runBurst p (cont x) S := by
  simp [loadKey, runBurst_call, doCall_load, noteErr, h, TimerK.dec_enc]

end VCK
