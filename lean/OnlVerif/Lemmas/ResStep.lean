import OnlVerif.Lemmas.ResInv
import OnlVerif.Lemmas.KernelStep
/-! # The resource invariant along whole runs -/

variable {σ : Type}

theorem openEvent_keepsRes (s : KState ℚ σ) (q : QEntry ℚ) (rest : List (QEntry ℚ)) (h : ResInv s) :
    ResInv (openEvent s q rest) := by
  refine ⟨h.users, h.level, h.items, ?_⟩
  intro e rq
  have : ((openEvent s q rest).ev e).req = (s.ev e).req := by
    show (((s.setEv q.ev { s.ev q.ev with cbs := none }).ev e)).req = _
    exact KState.req_setEv_keep s q.ev e _ rfl
  rw [this]; exact h.amounts e rq

/-- one kernel step keeps the resource invariant, however it ends -/
theorem step_keepsRes (body : σ → Resume → Burst ℚ σ) (fuel : Nat) (s s' : KState ℚ σ)
    (h : ResInv s) (hs : (step body fuel s).state? = some s') : ResInv s' := by
  unfold step at hs
  split at hs
  · cases hs
  · rename_i q rest hq
    split at hs
    · cases hs; exact openEvent_keepsRes s q rest h
    · rename_i cbs _
      rw [closeEvent_state] at hs
      cases hs
      exact KeepsRes.krel.foldCbs body fuel q.ev cbs { s := openEvent s q rest } (openEvent_keepsRes s q rest h)

/-- states reachable by kernel steps (each step may end normally, by `StopSimulation` or by an exception) -/
inductive KReach (body : σ → Resume → Burst ℚ σ) (fuel : Nat) (s0 : KState ℚ σ) : KState ℚ σ → Prop
  | init : KReach body fuel s0 s0
  | step {s s'} : KReach body fuel s0 s → (step body fuel s).state? = some s' → KReach body fuel s0 s'

theorem reach_resInv (body : σ → Resume → Burst ℚ σ) (fuel : Nat) (s0 s : KState ℚ σ)
    (h0 : ResInv s0) (hr : KReach body fuel s0 s) : ResInv s := by
  induction hr with
  | init => exact h0
  | step _ hs ih => exact step_keepsRes body fuel _ _ ih hs

/-- `Release` on one of the three resource classes: `users.remove(request)` if present, then succeed -/
theorem doGet_resKind (s : KState ℚ σ) (r : ResId) (e : EvId) (hk : isResKind (s.res r).kind = true) :
    doGet s r e = ((s.setUsers r ((s.res r).users.erase (reqOf s e).releaseOf)).trigger e (.ok .none), true) := by
  unfold isResKind at hk
  cases hkk : (s.res r).kind <;> rw [hkk] at hk <;> first
    | exact absurd hk (by decide)
    | simp only [doGet, getItem, takeOut, hkk]
