import OnlVerif.Lemmas.SplitStrip
/-!
# Erasing stop callbacks commutes with every operation of `Kernel/Ops.lean` (C03, stage 2)

For every state transformer `f` of the model: `f (s.stripBy P) = (f s).stripBy P`, and every value it returns besides the
state (replies, flags, fresh ids, errors) is the same.  For every read `g`: `g (s.stripBy P) = g s`.
-/

set_option linter.unusedSectionVars false

variable {τ σ : Type} [Num τ]
variable (P : EvId → Bool)

/-- split every `if`/`match` of both sides (they branch on the same reads) and close the branches by `rfl` -/
macro "ksplit" : tactic => `(tactic| ((repeat' split) <;> (first | rfl | contradiction | (simp_all; done))))
/-- rewrite with the `kstrip` set -/
macro "ksimp" : tactic => `(tactic| simp only [kstrip])

namespace KState
omit [Num τ] in
@[kstrip] theorem newEv_snd (s : KState τ σ) (r : EvRec τ) : (s.newEv r).2 = s.events.size := rfl
omit [Num τ] in
@[kstrip] theorem newLabelled_snd (s : KState τ σ) (r : EvRec τ) : (s.newLabelled r).2 = s.events.size := rfl
theorem newEv_fst_stripBy (s : KState τ σ) (r : EvRec τ) (h : r.strip = r) :
    ((s.stripBy P).newEv r).1 = (s.newEv r).1.stripBy P := by rw [newEv_stripBy P s r h]
theorem newLabelled_fst_stripBy (s : KState τ σ) (r : EvRec τ) (h : r.strip = r) :
    ((s.stripBy P).newLabelled r).1 = (s.newLabelled r).1.stripBy P := by rw [newLabelled_stripBy P s r h]

/-! the fresh records of the model, by the shape of their callback list (unconditional forms for `simp`) -/
@[kstrip] theorem newLabelled_nil_stripBy (s : KState τ σ) (k : Kind) (o : Option Outcome) (d : Bool) (c l : Nat)
    (rq : Option (ReqData τ)) :
    ((s.stripBy P).newLabelled ⟨k, some [], o, d, c, l, rq⟩).1 = (s.newLabelled ⟨k, some [], o, d, c, l, rq⟩).1.stripBy P :=
  newLabelled_fst_stripBy P s _ (by simp [EvRec.strip, stripCbs])
@[kstrip] theorem newLabelled_trigGet_stripBy (s : KState τ σ) (k : Kind) (o : Option Outcome) (d : Bool) (c l : Nat)
    (rq : Option (ReqData τ)) (r : ResId) :
    ((s.stripBy P).newLabelled ⟨k, some [.trigGet r], o, d, c, l, rq⟩).1 =
      (s.newLabelled ⟨k, some [.trigGet r], o, d, c, l, rq⟩).1.stripBy P :=
  newLabelled_fst_stripBy P s _ (by simp [EvRec.strip, stripCbs])
@[kstrip] theorem newLabelled_trigPut_stripBy (s : KState τ σ) (k : Kind) (o : Option Outcome) (d : Bool) (c l : Nat)
    (rq : Option (ReqData τ)) (r : ResId) :
    ((s.stripBy P).newLabelled ⟨k, some [.trigPut r], o, d, c, l, rq⟩).1 =
      (s.newLabelled ⟨k, some [.trigPut r], o, d, c, l, rq⟩).1.stripBy P :=
  newLabelled_fst_stripBy P s _ (by simp [EvRec.strip, stripCbs])
@[kstrip] theorem newEv_intr_stripBy (s : KState τ σ) (k : Kind) (o : Option Outcome) (d : Bool) (c l : Nat)
    (rq : Option (ReqData τ)) (iv : EvId) :
    ((s.stripBy P).newEv ⟨k, some [.intr iv], o, d, c, l, rq⟩).1 = (s.newEv ⟨k, some [.intr iv], o, d, c, l, rq⟩).1.stripBy P :=
  newEv_fst_stripBy P s _ (by simp [EvRec.strip, stripCbs])
@[kstrip] theorem newEv_resume_stripBy (s : KState τ σ) (k : Kind) (o : Option Outcome) (d : Bool) (c l : Nat)
    (rq : Option (ReqData τ)) (p : EvId) :
    ((s.stripBy P).newEv ⟨k, some [.resume p], o, d, c, l, rq⟩).1 = (s.newEv ⟨k, some [.resume p], o, d, c, l, rq⟩).1.stripBy P :=
  newEv_fst_stripBy P s _ (by simp [EvRec.strip, stripCbs])
end KState

@[kstrip] theorem reqOf_stripBy (s : KState τ σ) (e : EvId) : reqOf (s.stripBy P) e = reqOf s e := by
  unfold reqOf; rw [KState.stripBy_req]

@[kstrip] theorem insertSorted_stripBy (s : KState τ σ) (e : EvId) (l : List EvId) :
    insertSorted (s.stripBy P) e l = insertSorted s e l := by
  induction l with
  | nil => rfl
  | cons x xs ih => simp only [insertSorted, reqOf_stripBy, ih]

@[kstrip] theorem worstUser_stripBy (s : KState τ σ) (l : List EvId) : worstUser (s.stripBy P) l = worstUser s l := by
  induction l with
  | nil => rfl
  | cons x xs ih => simp only [worstUser, reqOf_stripBy, ih]

@[kstrip] theorem mkInterrupt_stripBy (s : KState τ σ) (p : EvId) (c : Val) :
    mkInterrupt (s.stripBy P) p c = ((mkInterrupt s p c).1.stripBy P, (mkInterrupt s p c).2) := by
  unfold mkInterrupt
  ksimp
  ksplit

@[kstrip] theorem preemptStep_stripBy (s : KState τ σ) (r : ResId) (e : EvId) :
    preemptStep (s.stripBy P) r e = (preemptStep s r e).stripBy P := by
  unfold preemptStep
  ksimp
  ksplit

@[kstrip] theorem prePut_stripBy (s : KState τ σ) (r : ResId) (e : EvId) :
    prePut (s.stripBy P) r e = (prePut s r e).stripBy P := by
  unfold prePut
  ksimp
  ksplit

@[kstrip] theorem canPut_stripBy (s : KState τ σ) (r : ResId) (e : EvId) : canPut (s.stripBy P) r e = canPut s r e := by
  unfold canPut
  ksimp

@[kstrip] theorem applyPut_stripBy (s : KState τ σ) (r : ResId) (e : EvId) :
    applyPut (s.stripBy P) r e = (applyPut s r e).stripBy P := by
  unfold applyPut
  ksimp
  ksplit

@[kstrip] theorem doPut_stripBy (s : KState τ σ) (r : ResId) (e : EvId) :
    doPut (s.stripBy P) r e = ((doPut s r e).1.stripBy P, (doPut s r e).2) := by
  unfold doPut
  ksimp
  ksplit

@[kstrip] theorem getItem_stripBy (s : KState τ σ) (r : ResId) (e : EvId) : getItem (s.stripBy P) r e = getItem s r e := by
  unfold getItem
  ksimp

@[kstrip] theorem takeOut_stripBy (s : KState τ σ) (r : ResId) (e : EvId) (v : Val) :
    takeOut (s.stripBy P) r e v = (takeOut s r e v).stripBy P := by
  unfold takeOut
  ksimp
  ksplit

@[kstrip] theorem doGet_stripBy (s : KState τ σ) (r : ResId) (e : EvId) :
    doGet (s.stripBy P) r e = ((doGet s r e).1.stripBy P, (doGet s r e).2) := by
  unfold doGet
  ksimp
  ksplit

@[kstrip] theorem dropPutQ_stripBy (s : KState τ σ) (r : ResId) (e : EvId) :
    dropPutQ (s.stripBy P) r e = (dropPutQ s r e).stripBy P := rfl
@[kstrip] theorem dropGetQ_stripBy (s : KState τ σ) (r : ResId) (e : EvId) :
    dropGetQ (s.stripBy P) r e = (dropGetQ s r e).stripBy P := rfl

@[kstrip] theorem scanPut_stripBy (r : ResId) (q : List EvId) (s : KState τ σ) :
    scanPut r q (s.stripBy P) = (scanPut r q s).stripBy P := by
  induction q generalizing s with
  | nil => rfl
  | cons e rest ih =>
    unfold scanPut
    ksimp
    by_cases h1 : (doPut s r e).1.triggered e = true <;> by_cases h2 : (doPut s r e).2 = true <;>
      simp only [h1, h2, if_true, if_false, ih, Bool.false_eq_true]

@[kstrip] theorem scanGet_stripBy (r : ResId) (q : List EvId) (s : KState τ σ) :
    scanGet r q (s.stripBy P) = (scanGet r q s).stripBy P := by
  induction q generalizing s with
  | nil => rfl
  | cons e rest ih =>
    unfold scanGet
    ksimp
    by_cases h1 : (doGet s r e).1.triggered e = true <;> by_cases h2 : (doGet s r e).2 = true <;>
      simp only [h1, h2, if_true, if_false, ih, Bool.false_eq_true]

@[kstrip] theorem triggerPut_stripBy (s : KState τ σ) (r : ResId) : triggerPut (s.stripBy P) r = (triggerPut s r).stripBy P := by
  unfold triggerPut; ksimp
@[kstrip] theorem triggerGet_stripBy (s : KState τ σ) (r : ResId) : triggerGet (s.stripBy P) r = (triggerGet s r).stripBy P := by
  unfold triggerGet; ksimp

@[kstrip] theorem enqPut_stripBy (s : KState τ σ) (r : ResId) (e : EvId) : enqPut (s.stripBy P) r e = (enqPut s r e).stripBy P := by
  unfold enqPut; ksimp
@[kstrip] theorem enqGet_stripBy (s : KState τ σ) (r : ResId) (e : EvId) : enqGet (s.stripBy P) r e = (enqGet s r e).stripBy P := rfl

@[kstrip] theorem mkPut_stripBy (s : KState τ σ) (r : ResId) (rq : ReqData τ) :
    mkPut (s.stripBy P) r rq = ((mkPut s r rq).1.stripBy P, (mkPut s r rq).2) := by
  unfold mkPut
  ksimp

@[kstrip] theorem mkGet_stripBy (s : KState τ σ) (r : ResId) (rq : ReqData τ) :
    mkGet (s.stripBy P) r rq = ((mkGet s r rq).1.stripBy P, (mkGet s r rq).2) := by
  unfold mkGet
  ksimp

@[kstrip] theorem cancelReq_stripBy (s : KState τ σ) (e : EvId) :
    cancelReq (s.stripBy P) e = ((cancelReq s e).1.stripBy P, (cancelReq s e).2) := by
  unfold cancelReq
  ksimp
  ksplit

@[kstrip] theorem condOps_stripBy (s : KState τ σ) (c : EvId) : condOps (s.stripBy P) c = condOps s c := by
  unfold condOps; ksimp
@[kstrip] theorem isCond_stripBy (s : KState τ σ) (e : EvId) : isCond (s.stripBy P) e = isCond s e := by
  unfold isCond; ksimp

@[kstrip] theorem condCheck_stripBy (s : KState τ σ) (c e : EvId) :
    condCheck (s.stripBy P) c e = (condCheck s c e).stripBy P := by
  unfold condCheck
  ksimp
  ksplit

@[kstrip] theorem eraseCheck_stripBy (s : KState τ σ) (c e : EvId) :
    eraseCheck (s.stripBy P) c e = (eraseCheck s c e).stripBy P := by
  unfold eraseCheck
  rw [KState.stripBy_cbs]
  cases h : (s.ev e).cbs with
  | none => cases P e <;> rfl
  | some l =>
    have hc : (stripCbs l).contains (Cb.check c) = l.contains (Cb.check c) := stripCbs_contains l _ (by simp)
    cases P e
    · simp only [Bool.false_eq_true, if_false, kstrip]
      ksplit
    · simp only [if_true, Option.map_some, hc, kstrip]
      ksplit

theorem foldl_stripBy {α : Type} (f : KState τ σ → α → KState τ σ)
    (hf : ∀ s a, f (s.stripBy P) a = (f s a).stripBy P) (l : List α) (s : KState τ σ) :
    l.foldl f (s.stripBy P) = (l.foldl f s).stripBy P := by
  induction l generalizing s with
  | nil => rfl
  | cons a l ih => rw [List.foldl_cons, List.foldl_cons, hf, ih]

@[kstrip] theorem removeChecks_stripBy (fuel : Nat) (c : EvId) (s : KState τ σ) :
    removeChecks fuel c (s.stripBy P) = (removeChecks fuel c s).stripBy P := by
  induction fuel generalizing c s with
  | zero => rfl
  | succ n ih =>
    unfold removeChecks
    rw [condOps_stripBy]
    apply foldl_stripBy
    intro s e
    ksimp
    simp only [ih]
    ksplit

@[kstrip] theorem populate_stripBy (fuel : Nat) (s : KState τ σ) (c : EvId) : populate fuel (s.stripBy P) c = populate fuel s c := by
  induction fuel generalizing c with
  | zero => rfl
  | succ n ih =>
    unfold populate
    simp only [kstrip, ih]

@[kstrip] theorem condBuild_stripBy (s : KState τ σ) (c : EvId) : condBuild (s.stripBy P) c = (condBuild s c).stripBy P := by
  unfold condBuild
  ksimp
  ksplit

@[kstrip] theorem mkCond_stripBy (s : KState τ σ) (all : Bool) (ops : List EvId) :
    mkCond (s.stripBy P) all ops = ((mkCond s all ops).1.stripBy P, (mkCond s all ops).2) := by
  unfold mkCond
  ksimp
  split
  · rfl
  · rw [foldl_stripBy]
    · ksimp
    · intro s e
      ksimp
      split <;> rfl

@[kstrip] theorem renderSimple_stripBy (s : KState τ σ) (v : Val) : renderSimple (s.stripBy P) v = renderSimple s v := by
  unfold renderSimple
  cases v <;> ksimp

@[kstrip] theorem freezeVal_stripBy (s : KState τ σ) (v : Val) : freezeVal (s.stripBy P) v = freezeVal s v := by
  unfold freezeVal
  cases v <;> ksimp

@[kstrip] theorem doCall_stripBy (s : KState τ σ) (self : EvId) (c : Call τ σ) :
    doCall (s.stripBy P) self c = ((doCall s self c).1.stripBy P, (doCall s self c).2) := by
  cases c <;> simp only [doCall, kstrip]
  all_goals ksplit
