import OnlVerif.Lemmas.TimerKFrame
import OnlVerif.Lemmas.TokenBucket
import OnlVerif.Lemmas.TBKAttr
import OnlVerif.Net.TBOnK
/-!
# The token bucket on the kernel model: canonical configurations (definitions)

`A` is an abstract description of a kernel state of the program `TBOnK.body`: where the two processes are suspended, which
agenda entries exist, what the store holds, the instant of the `put` of every packet, the token level.  `KInv s a` says that
the kernel state `s` *is* the configuration `a`; `AInv` is what holds of the configurations of a run.
-/

namespace TBK
open TBOnK
open TimerK (lookup)

abbrev St := TbS ℚ
abbrev KS := KState ℚ St

/-- where `TokenBucket.run` is -/
inductive RPhase where
  /-- not started: its `Initialize` entry `q` is in the agenda -/
  | init (q : QEntry ℚ)
  /-- blocked in `store.get()` (event `g`), called at `t0` -/
  | W (g : EvId) (t0 : ℚ)
  /-- `store.get()` (event `g`, called at `t0`) has been served with packet `id`: entry `q` -/
  | H (g : EvId) (id : Int) (q : QEntry ℚ) (t0 : ℚ)
  /-- waiting for tokens for packet `id`: sleeping on timeout `t`, entry `q` -/
  | T1 (t : EvId) (id : Int) (q : QEntry ℚ)
  /-- the peak-rate spacing of packet `id`: sleeping on timeout `t`, entry `q`; `k` sleeps taken before -/
  | T2 (t : EvId) (id : Int) (q : QEntry ℚ) (k : Nat)

/-- where the source is -/
inductive SPhase where
  | init (q : QEntry ℚ) (arr : List ℚ)
  /-- sleeping on the timeout (entry `q`) after which it puts packet `next`; `rest` still to come -/
  | wait (next : Nat) (rest : List ℚ) (q : QEntry ℚ)
  /-- the generator has returned: the process event (entry `q`) is triggered -/
  | ending (q : QEntry ℚ)
  | done

structure A where
  run : RPhase
  src : SPhase
  /-- the `StorePut` events that are triggered and not yet processed -/
  pend : List (QEntry ℚ)
  /-- `store.items` -/
  items : List Int
  /-- the instants of the `put`s so far (packet `k` is the `k`-th) -/
  cts : List ℚ
  /-- `current_bucket` -/
  level : ℚ
  /-- `update_time` -/
  upd : ℚ
  /-- `packets_sent` -/
  sent : Int

def RPhase.entries : RPhase → List (QEntry ℚ)
  | .init q => [q]
  | .W _ _ => []
  | .H _ _ q _ => [q]
  | .T1 _ _ q => [q]
  | .T2 _ _ q _ => [q]

def SPhase.entries : SPhase → List (QEntry ℚ)
  | .init q _ => [q]
  | .wait _ _ q => [q]
  | .ending q => [q]
  | .done => []

def A.entries (a : A) : List (QEntry ℚ) := a.run.entries ++ (a.src.entries ++ a.pend)

/-- the events a configuration talks about (pairwise different); the process event of `run` is 0, of the source 2 -/
def RPhase.ids : RPhase → List EvId
  | .init _ => [0, 1]
  | .W g _ => [0, g]
  | .H g _ _ _ => [0, g]
  | .T1 t _ _ => [0, t]
  | .T2 t _ _ _ => [0, t]

def SPhase.ids : SPhase → List EvId
  | .init _ _ => [2, 3]
  | .wait _ _ q => [2, q.ev]
  | .ending _ => [2]
  | .done => []

def pendIds (l : List (QEntry ℚ)) : List EvId := l.map (·.ev)

def A.ids (a : A) : List EvId := a.run.ids ++ (a.src.ids ++ pendIds a.pend)

def RPhase.getQ : RPhase → List EvId
  | .W g _ => [g]
  | _ => []

/-- kind, callbacks and outcome of a live event -/
def EvIs (s : KS) (e : EvId) (k : Kind) (cbs : List Cb) (out : Option Outcome) : Prop :=
  (s.ev e).kind = k ∧ (s.ev e).cbs = some cbs ∧ (s.ev e).out = out

/-- the record of the shaper's `Store` -/
def storeRec (getQ : List EvId) (items : List Int) : ResRec :=
  { kind := .store, capacity := none, getQ := getQ, items := items }

/-! ## the kernel side of a configuration -/

def RunEv (s : KS) : RPhase → Prop
  | .init q => q.ev = 1 ∧ EvIs s 1 (.init 0) [.resume 0] (some (.ok .none)) ∧
      s.proc? 0 = some { st := .bStart q.time, target := some 1 } ∧ EvIs s 0 .proc [] none
  | .W g t0 => EvIs s g (.get 0) [.trigPut 0, .resume 0] none ∧
      s.proc? 0 = some { st := .bGet t0, target := some g } ∧ EvIs s 0 .proc [] none
  | .H g id q t0 => q.ev = g ∧ EvIs s g (.get 0) [.trigPut 0, .resume 0] (some (.ok (.int id))) ∧
      s.proc? 0 = some { st := .bGet t0, target := some g } ∧ EvIs s 0 .proc [] none
  | .T1 t id q => q.ev = t ∧ EvIs s t .timeout [.resume 0] (some (.ok .none)) ∧
      s.proc? 0 = some { st := .bTok id q.time, target := some t } ∧ EvIs s 0 .proc [] none
  | .T2 t id q k => q.ev = t ∧ EvIs s t .timeout [.resume 0] (some (.ok .none)) ∧
      s.proc? 0 = some { st := .bPeak id q.time k, target := some t } ∧ EvIs s 0 .proc [] none

def SrcEv (s : KS) : SPhase → Prop
  | .init q arr => q.ev = 3 ∧ EvIs s 3 (.init 2) [.resume 2] (some (.ok .none)) ∧
      s.proc? 2 = some { st := .src q.time false 0 arr, target := some 3 } ∧ EvIs s 2 .proc [] none
  | .wait next rest q => EvIs s q.ev .timeout [.resume 2] (some (.ok .none)) ∧
      s.proc? 2 = some { st := .src q.time true next rest, target := some q.ev } ∧ EvIs s 2 .proc [] none
  | .ending q => q.ev = 2 ∧ EvIs s 2 .proc [] (some (.ok .none))
  | .done => True

/-- the kernel state `s` has the configuration `a` -/
structure KInv (s : KS) (a : A) : Prop where
  wf : AgendaWF s
  ag : s.agenda.Perm a.entries
  rsz : 0 < s.resources.size
  res : s.res 0 = storeRec a.run.getQ a.items
  run : RunEv s a.run
  src : SrcEv s a.src
  pend : ∀ u ∈ a.pend, EvIs s u.ev (.put 0) [.trigGet 0] (some (.ok .none))
  nd : a.ids.Nodup
  c0 : lookup s.shared cRecv = .int a.cts.length
  c1 : lookup s.shared cSent = .int a.sent
  c2 : lookup s.shared cLevel = TimeCell.enc a.level
  c3 : lookup s.shared cUpd = TimeCell.enc a.upd
  /-- (ghost cells) the instant of every `put` so far -/
  ct : ∀ k, k < a.cts.length → lookup s.shared (10 + k) = TimeCell.enc (a.cts.getD k 0)

/-! ## the abstract side -/

/-- the instant packet `id` was put -/
def A.ctOf (a : A) (id : Int) : ℚ := a.cts.getD id.toNat 0

def GapsOK (l : List ℚ) : Prop := ∀ x ∈ l, 0 ≤ x

/-- a truthy `peak` is positive (a negative one makes `env.timeout` raise) -/
def PeakOK (c : TbCfg ℚ) : Prop := ∀ k, TokenBucket.peakOn c = some k → 0 < k

def RunA (a : A) (now : ℚ) : RPhase → Prop
  | .init q => q.time = now ∧ q.prio = URGENT ∧ a.items = [] ∧ a.pend = [] ∧ a.cts = []
  | .W _ t0 => t0 ≤ now ∧ (∀ i ∈ a.items, a.ctOf i = now) ∧ (a.items ≠ [] → a.pend ≠ [])
  | .H _ id q t0 => q.time = now ∧ q.prio = NORMAL ∧ max t0 (a.ctOf id) = now ∧ 0 ≤ id ∧ id.toNat < a.cts.length
  | .T1 _ id q => q.prio = NORMAL ∧ 0 ≤ id ∧ id.toNat < a.cts.length
  | .T2 _ id q _ => q.prio = NORMAL ∧ 0 ≤ id ∧ id.toNat < a.cts.length

def SrcA (a : A) (now : ℚ) : SPhase → Prop
  | .init q arr => q.time = now ∧ q.prio = URGENT ∧ GapsOK arr ∧ a.cts = []
  | .wait next rest q => q.prio = NORMAL ∧ GapsOK rest ∧ next = a.cts.length
  | .ending q => q.time = now ∧ q.prio = NORMAL
  | .done => True

/-- what holds of a configuration at instant `now` -/
structure AInv (cfg : TbCfg ℚ) (a : A) (now : ℚ) : Prop where
  run : RunA a now a.run
  src : SrcA a now a.src
  pend : ∀ u ∈ a.pend, u.time = now ∧ u.prio = NORMAL
  due : ∀ x ∈ a.entries, now ≤ x.time
  /-- the packets in the store are known packets, put no later than now -/
  its : ∀ i ∈ a.items, 0 ≤ i ∧ i.toNat < a.cts.length ∧ a.ctOf i ≤ now
  good : TokenBucket.Good cfg
  peak : PeakOK cfg

/-- the level after the refill at `now`: `min(bucket_size, current_bucket + rate * (now - update_time) / 8.0)` -/
def refillA (cfg : TbCfg ℚ) (a : A) (now : ℚ) : ℚ := Num.pymin cfg.bucket (a.level + cfg.rate * (now - a.upd) / Num.ofNat 8)

/-- number of kernel steps a configuration still needs (an upper bound) -/
def RPhase.mu : RPhase → Nat
  | .init _ => 1
  | .W _ _ => 0
  | .H _ _ _ _ => 3
  | .T1 _ _ _ => 2
  | .T2 _ _ _ _ => 1

def SPhase.mu : SPhase → Nat
  | .init _ arr => 6 * arr.length + 2
  | .wait _ rest _ => 6 * rest.length + 7
  | .ending _ => 1
  | .done => 0

def A.mu (a : A) : Nat := a.run.mu + a.src.mu + a.pend.length + 4 * a.items.length

end TBK
