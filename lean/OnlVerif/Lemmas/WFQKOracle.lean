import OnlVerif.Lemmas.WFQKAbs
/-!
# The WFQ scheduler on the kernel model: the history of every run passes the property's oracle

`OInv` relates the state of the oracle (`WFQOnK.ostep`) after the history so far to the configuration.
-/

set_option linter.unusedSimpArgs false

namespace WFQK
open WFQOnK QEntry

/-! ## the order lemma of the integer code (local copy) -/
section code

theorem code_grid_o {scale : Nat} (hs : 0 < scale) (k : Int) : StampCode.code scale ((k : ℚ) / (scale : ℚ)) = k := by
  show (((k : ℚ) / (scale : ℚ)) * (scale : ℚ)).floor = k
  have h0 : ((scale : ℕ) : ℚ) ≠ 0 := by exact_mod_cast (Nat.pos_iff_ne_zero.mp hs)
  rw [div_mul_cancel₀ _ h0]
  exact Rat.floor_intCast k

theorem code_le_of_item_le {scale N : Nat} (hs : 0 < scale) {x y : ℚ} (hx : OnGrid scale x) (hy : OnGrid scale y)
    {i j : Int} (hi : 0 ≤ i ∧ i < N) (hj : 0 ≤ j ∧ j < N) (h : stampItem scale N x i ≤ stampItem scale N y j) :
    x ≤ y ∧ (x = y → i ≤ j) := by
  obtain ⟨kx, rfl⟩ := hx
  obtain ⟨ky, rfl⟩ := hy
  unfold stampItem at h
  rw [code_grid_o hs, code_grid_o hs] at h
  have hpos : (0 : ℚ) < (scale : ℚ) := by exact_mod_cast hs
  have hk : kx ≤ ky := by
    by_contra hc
    have h1 : ky + 1 ≤ kx := by omega
    have h2 : (ky + 1) * (N : Int) ≤ kx * (N : Int) := Int.mul_le_mul_of_nonneg_right h1 (by omega)
    have h3 : (ky + 1) * (N : Int) = ky * N + N := by ring
    omega
  refine ⟨div_le_div_of_nonneg_right (by exact_mod_cast hk) (le_of_lt hpos), ?_⟩
  intro he
  have h1 : (kx : ℚ) = ky := by
    have := congrArg (· * (scale : ℚ)) he
    simpa [div_mul_cancel₀ _ (ne_of_gt hpos)] using this
  have h2 : kx = ky := by exact_mod_cast h1
  subst h2
  omega

end code

/-! ## counting lemmas: `total_packets`, `len(active_set)`, the weight sum -/

theorem sumFrom_zero_iff (c : Nat → Int) : ∀ (n f : Nat), (∀ k, f ≤ k → k < f + n → 0 ≤ c k) →
    (0 ≤ sumFrom c f n ∧ (sumFrom c f n = 0 ↔ ∀ k, f ≤ k → k < f + n → c k = 0))
  | 0, f, _ => ⟨le_refl _, by simp only [sumFrom, true_iff]; intro k h1 h2; omega⟩
  | n + 1, f, h => by
    obtain ⟨h1, h2⟩ := sumFrom_zero_iff c n (f + 1) (fun k hk1 hk2 => h k (by omega) (by omega))
    have h0 := h f (le_refl _) (by omega)
    simp only [sumFrom]
    refine ⟨by omega, ?_⟩
    constructor
    · intro hs
      have hc : c f = 0 := by omega
      have hr : sumFrom c (f + 1) n = 0 := by omega
      intro k hk1 hk2
      by_cases hkf : k = f
      · rw [hkf]; exact hc
      · exact h2.mp hr k (by omega) (by omega)
    · intro hall
      have hc := hall f (le_refl _) (by omega)
      have hr := h2.mpr (fun k hk1 hk2 => hall k (by omega) (by omega))
      omega

theorem nAct_ge (act : Nat → Bool) : ∀ (n c : Nat) (acc : Int), acc ≤ nAct act c n acc
  | 0, _, _ => le_refl _
  | n + 1, c, acc => by
    have := nAct_ge act n (c + 1) (acc + (if act c then 1 else 0))
    simp only [nAct]
    have h2 : (0 : Int) ≤ (if act c then 1 else 0) := by split <;> omega
    omega

theorem nAct_eq_acc_iff (act : Nat → Bool) : ∀ (n c : Nat) (acc : Int),
    (nAct act c n acc = acc ↔ ∀ k, c ≤ k → k < c + n → act k = false)
  | 0, c, acc => by simp only [nAct, true_iff]; intro k h1 h2; omega
  | n + 1, c, acc => by
    simp only [nAct]
    have ih := nAct_eq_acc_iff act n (c + 1)
    by_cases hc : act c = true
    · simp only [hc, if_true]
      have := nAct_ge act n (c + 1) (acc + 1)
      constructor
      · intro h; omega
      · intro h; have := h c (le_refl _) (by omega); rw [hc] at this; cases this
    · have hc' : act c = false := by simpa using hc
      simp only [hc', Bool.false_eq_true, if_false, add_zero]
      rw [ih acc]
      constructor
      · intro h k hk1 hk2
        by_cases hkc : k = c
        · rw [hkc]; exact hc'
        · exact h k (by omega) (by omega)
      · intro h k hk1 hk2
        exact h k (by omega) (by omega)

/-- `len(active_set) == 0` iff no class is active -/
theorem nAct_zero_iff (act : Nat → Bool) (F : Nat) : nAct act 0 F 0 = 0 ↔ ∀ c, c < F → act c = false := by
  rw [nAct_eq_acc_iff act F 0 0]
  constructor
  · intro h c hc; exact h c (Nat.zero_le _) (by omega)
  · intro h k _ hk; exact h k (by omega)

variable {N scale F : Nat} {flow size : Int → Nat} {cfg : WfqCfg ℚ} {d1 L : Nat}

theorem wOf_pos (hc : CfgOK F cfg) {c : Nat} (h : c < F) : 0 < wOf cfg c := by
  obtain ⟨n, hn, hl⟩ := hc.w c h
  simp only [wOf, hl, Option.getD_some]
  exact_mod_cast hn

theorem wsum_ge (hc : CfgOK F cfg) (act : Nat → Bool) : ∀ (n c : Nat) (acc : ℚ), c + n ≤ F → acc ≤ wsum cfg act c n acc
  | 0, _, _, _ => le_refl _
  | n + 1, c, acc, h => by
    simp only [wsum]
    split
    · have := wsum_ge hc act n (c + 1) (acc + wOf cfg c) (by omega)
      have := wOf_pos hc (show c < F by omega)
      linarith
    · exact wsum_ge hc act n (c + 1) acc (by omega)

theorem wsum_gt (hc : CfgOK F cfg) (act : Nat → Bool) : ∀ (n c : Nat) (acc : ℚ), c + n ≤ F →
    (∃ k, c ≤ k ∧ k < c + n ∧ act k = true) → acc < wsum cfg act c n acc
  | 0, c, _, _, ⟨k, h1, h2, _⟩ => by omega
  | n + 1, c, acc, h, ⟨k, h1, h2, h3⟩ => by
    simp only [wsum]
    split
    · have := wsum_ge hc act n (c + 1) (acc + wOf cfg c) (by omega)
      have := wOf_pos hc (show c < F by omega)
      linarith
    · rename_i hc'
      have hkc : k ≠ c := by rintro rfl; exact hc' h3
      exact wsum_gt hc act n (c + 1) acc (by omega) ⟨k, by omega, by omega, h3⟩

/-- the weight sum is positive as soon as a class is active -/
theorem ws_pos_o (hc : CfgOK F cfg) (act : Nat → Bool) (h : ∃ c, c < F ∧ act c = true) : 0 < wsum cfg act 0 F 0 := by
  obtain ⟨c, h1, h2⟩ := h
  exact wsum_gt hc act F 0 0 (by omega) ⟨c, Nat.zero_le _, by omega, h2⟩

/-- the oracle's weight sum (`WFQ.weightSum` over the ascending list of active classes) is the configuration's -/
theorem weightSum_range' (hc : CfgOK F cfg) (act : Nat → Bool) : ∀ (n c : Nat) (acc : ℚ), c + n ≤ F →
    WFQ.weightSum cfg.weights ((List.range' c n).filter act) acc = .ok (wsum cfg act c n acc)
  | 0, _, _, _ => rfl
  | n + 1, c, acc, h => by
    obtain ⟨m, -, hl⟩ := hc.w c (by omega)
    have hw : wOf cfg c = (m : ℚ) := by simp only [wOf, hl, Option.getD_some]
    rw [List.range'_succ]
    simp only [wsum]
    by_cases ha : act c = true
    · rw [List.filter_cons_of_pos ha, if_pos ha]
      simp only [WFQ.weightSum, hl]
      rw [hw]
      exact weightSum_range' hc act n (c + 1) _ (by omega)
    · rw [List.filter_cons_of_neg ha, if_neg ha]
      exact weightSum_range' hc act n (c + 1) _ (by omega)

theorem weightSum_range (hc : CfgOK F cfg) (act : Nat → Bool) :
    WFQ.weightSum cfg.weights ((List.range F).filter act) (Num.zero : ℚ) = .ok (wsum cfg act 0 F 0) := by
  rw [List.range_eq_range', Stamp.zero_eq_q]
  exact weightSum_range' hc act F 0 0 (by omega)

/-! ## what the counters of a configuration say -/

theorem nItems_nonneg_o (l : List PutRec) (f : Nat) : 0 ≤ nItems flow l f := by
  unfold nItems; exact Int.natCast_nonneg _

theorem nItems_pos_iff (l : List PutRec) (f : Nat) : 0 < nItems flow l f ↔ ∃ x ∈ l, flow x.1 = f := by
  unfold nItems
  rw [Int.natCast_pos, List.length_pos_iff_exists_mem]
  simp [List.mem_filter]

theorem ind_nonneg_o (o : Option Int) (f : Nat) : 0 ≤ ind flow o f := by
  unfold ind; split
  · split <;> omega
  · omega

theorem ind_pos_iff (o : Option Int) (f : Nat) : 0 < ind flow o f ↔ ∃ id, o = some id ∧ flow id = f := by
  unfold ind
  cases o with
  | none => simp
  | some id =>
    by_cases h : flow id = f
    · simp [h]
    · simp [h]

variable {a a' : A} {now : ℚ} {q : QEntry ℚ} {n e : Nat} {new : List (HEv ℚ)} {o : OSt ℚ}

theorem held_heldC {id : Int} (h : a.run.held = some id) : a.run.heldC = some id := by
  cases hr : a.run <;> rw [hr] at h <;> simp only [RPhase.held, RPhase.heldC] at h ⊢ <;> first | exact h | cases h

theorem heldC_lt (hi : AInv N scale size F flow cfg d1 L a now) {id : Int} (h : a.run.heldC = some id) : flow id < F := by
  have hp := hi.run
  cases hr : a.run with
  | init q0 => rw [hr] at h; cases h
  | W g => rw [hr] at h; cases h
  | H g w q0 =>
    rw [hr] at h hp
    simp only [RPhase.heldC, Option.some.injEq] at h
    rw [← h]; exact (hi.putOK w hp.2.2.2.1).1
  | S p id' q0 =>
    rw [hr] at h hp
    simp only [RPhase.heldC, Option.some.injEq] at h
    rw [← h]; exact hp.2.2.2.1
  | T p t id' q0 =>
    rw [hr] at h hp
    simp only [RPhase.heldC, Option.some.injEq] at h
    rw [← h]; exact hp.2.2.1
  | F p id' q0 =>
    rw [hr] at h hp
    simp only [RPhase.heldC, Option.some.injEq] at h
    rw [← h]; exact hp.2.2.2.1

theorem item_lt (hi : AInv N scale size F flow cfg d1 L a now) {x : PutRec} (h : x ∈ a.items) : flow x.1 < F :=
  (hi.putOK x (hi.sub.subset h)).1

theorem cnt_pos_iff (hi : AInv N scale size F flow cfg d1 L a now) {f : Nat} (hf : f < F) :
    0 < a.cnt f ↔ (∃ x ∈ a.items, flow x.1 = f) ∨ ∃ id, a.run.held = some id ∧ flow id = f := by
  rw [hi.cntOK f hf, ← nItems_pos_iff, ← ind_pos_iff]
  have := nItems_nonneg_o (flow := flow) a.items f
  have := ind_nonneg_o (flow := flow) a.run.held f
  omega

theorem act_iff (hi : AInv N scale size F flow cfg d1 L a now) {c : Nat} (hc : c < F) :
    a.act c = true ↔ (∃ x ∈ a.items, flow x.1 = c) ∨ ∃ id, a.run.heldC = some id ∧ flow id = c := by
  rw [hi.actOK c hc, hi.clsOK c hc, ← nItems_pos_iff, ← ind_pos_iff]
  have := nItems_nonneg_o (flow := flow) a.items c
  have := ind_nonneg_o (flow := flow) a.run.heldC c
  omega

/-- `total_packets == 0` iff nothing waits and nothing is in transmission -/
theorem total_zero_iff (hi : AInv N scale size F flow cfg d1 L a now) :
    a.total F = 0 ↔ a.items = [] ∧ a.run.held = none := by
  have hnn : ∀ k, 0 ≤ k → k < 0 + F → 0 ≤ a.cnt k := by
    intro k _ hk
    rw [hi.cntOK k (by omega)]
    have := nItems_nonneg_o (flow := flow) a.items k
    have := ind_nonneg_o (flow := flow) a.run.held k
    omega
  unfold A.total
  rw [(sumFrom_zero_iff a.cnt F 0 hnn).2]
  constructor
  · intro h
    have hz : ∀ f, f < F → ¬ 0 < a.cnt f := fun f hf => by rw [h f (Nat.zero_le _) (by omega)]; omega
    constructor
    · cases hl : a.items with
      | nil => rfl
      | cons x r =>
        have hx : x ∈ a.items := by rw [hl]; simp
        exact absurd ((cnt_pos_iff hi (item_lt hi hx)).mpr (Or.inl ⟨x, hx, rfl⟩)) (hz _ (item_lt hi hx))
    · cases hh : a.run.held with
      | none => rfl
      | some id =>
        have hlt := heldC_lt hi (held_heldC hh)
        exact absurd ((cnt_pos_iff hi hlt).mpr (Or.inr ⟨id, hh, rfl⟩)) (hz _ hlt)
  · rintro ⟨h1, h2⟩ k _ hk
    have hk' : k < F := by omega
    by_contra hne
    have hpos : 0 < a.cnt k := by have := hnn k (Nat.zero_le _) hk; omega
    rcases (cnt_pos_iff hi hk').mp hpos with ⟨x, hx, -⟩ | ⟨id, hid, -⟩
    · rw [h1] at hx; cases hx
    · rw [h2] at hid; cases hid

/-- a non-empty scheduler has an active class -/
theorem act_of_total_o (hi : AInv N scale size F flow cfg d1 L a now) (h : a.total F ≠ 0) : ∃ c, c < F ∧ a.act c = true := by
  have h' : ¬ (a.items = [] ∧ a.run.held = none) := fun hc => h ((total_zero_iff hi).mpr hc)
  by_cases hit : a.items = []
  · cases hh : a.run.held with
    | none => exact absurd ⟨hit, hh⟩ h'
    | some id =>
      have hc := held_heldC hh
      exact ⟨flow id, heldC_lt hi hc, (act_iff hi (heldC_lt hi hc)).mpr (Or.inr ⟨id, hc, rfl⟩)⟩
  · obtain ⟨x, hx⟩ := List.exists_mem_of_ne_nil _ hit
    exact ⟨flow x.1, item_lt hi hx, (act_iff hi (item_lt hi hx)).mpr (Or.inl ⟨x, hx, rfl⟩)⟩

/-- after the departed packet's class has been booked out, `active_set` is empty iff nothing waits -/
theorem nAct_after_iff (hi : AInv N scale size F flow cfg d1 L a now) {p : EvId} {id0 : Int} {q0 : QEntry ℚ}
    (hr : a.run = .F p id0 q0) : nAct (actAfter a (flow id0)) 0 F 0 = 0 ↔ a.items = [] := by
  have hp := hi.run
  rw [hr] at hp
  have hf0 : flow id0 < F := hp.2.2.2.1
  have hcls : ∀ c, c < F → (a.cls c).getD 0 = nItems flow a.items c + (if flow id0 = c then 1 else 0) := by
    intro c hc
    have := hi.clsOK c hc
    rw [hr] at this
    exact this
  rw [nAct_zero_iff]
  constructor
  · intro h
    cases hl : a.items with
    | nil => rfl
    | cons x r =>
      exfalso
      have hx : x ∈ a.items := by rw [hl]; simp
      have hxF := item_lt hi hx
      have hact : a.act (flow x.1) = true := (act_iff hi hxF).mpr (Or.inl ⟨x, hx, rfl⟩)
      have hn : 0 < nItems flow a.items (flow x.1) := (nItems_pos_iff _ _).mpr ⟨x, hx, rfl⟩
      have := h (flow x.1) hxF
      unfold actAfter at this
      split at this
      · rename_i h1
        by_cases hfx : flow x.1 = flow id0
        · have h2 := hcls (flow id0) hf0
          rw [hfx] at hn
          simp only [if_true] at h2
          omega
        · rw [upd_ne _ _ _ _ hfx, hact] at this; cases this
      · rw [hact] at this; cases this
  · intro hit c hc
    have hn : nItems flow a.items c = 0 := by rw [hit]; rfl
    have h0 := hcls (flow id0) hf0
    rw [show nItems flow a.items (flow id0) = 0 by rw [hit]; rfl] at h0
    simp only [if_true, zero_add] at h0
    unfold actAfter
    rw [if_pos (by omega)]
    by_cases hcf : c = flow id0
    · rw [hcf, upd_same]
    · rw [upd_ne _ _ _ _ hcf]
      have h1 := hcls c hc
      rw [hn, if_neg (fun h => hcf h.symm)] at h1
      have := (hi.actOK c hc)
      cases hb : a.act c with
      | false => rfl
      | true => have := this.mp hb; omega

/-! ## the oracle side of a configuration -/

/-- a `put` as the oracle keeps it: id, stamp, arrival instant -/
def toW (w : PutRec) : WItem ℚ := (w.1, w.2.2, w.2.1)

section defs
variable (flow size : Int → Nat) (cfg : WfqCfg ℚ)

/-- what the phase of `run` says about the oracle -/
def PhO (a : A) (now : ℚ) (o : OSt ℚ) : RPhase → Prop
  | .init q => o.leaving = none ∧ q.time = 0 ∧ o.lastOut = none ∧ o.busy = none ∧ o.cand = none ∧ o.waiting = a.items.map toW
  | .W _ => o.leaving = none ∧ o.busy = none ∧ o.waiting = a.items.map toW ∧
      (∃ t, o.cand = some (a.items.map toW, t) ∧ ∀ w ∈ a.items, t = w.2.1 ∧ w.2.1 = now) ∧
      a.items.length ≤ 1 ∧ (a.items ≠ [] → ∃ u ∈ a.pend, ∀ x ∈ a.src.entries, u.eid < x.eid)
  | .H _ w q => o.leaving = none ∧ o.busy = none ∧
      (∃ wl : List PutRec, o.waiting = wl.map toW ∧ a.items = wl.filter (fun y => y.1 ≠ w.1) ∧ w ∈ wl) ∧
      (∃ l, o.cand = some (l, q.time) ∧ toW w ∈ l ∧ ∀ w' ∈ l, ¬ keyLt w' (toW w)) ∧
      ((o.waiting.filter fun y => flow y.1 = flow w.1).head?.map (·.1)) = some w.1
  | .S _ id q => o.leaving = none ∧ o.busy = some (id, q.time) ∧ o.cand = none ∧ o.waiting = a.items.map toW
  | .T _ _ id q => o.leaving = none ∧ o.cand = none ∧ o.waiting = a.items.map toW ∧
      ∃ s0, o.busy = some (id, s0) ∧ q.time = s0 + txTime size cfg.rate id
  | .F _ id q => o.leaving = some id ∧ o.busy = none ∧ o.cand = none ∧ o.lastOut = some q.time ∧ o.waiting = a.items.map toW

/-- the oracle is in the state the configuration stands for -/
structure OInv (a : A) (now : ℚ) (o : OSt ℚ) : Prop where
  vt : o.vt = a.vtime
  last : o.last = a.last
  fin : o.fin = a.fin
  pend : o.pend = none
  ph : PhO flow size cfg a now o a.run
  /-- `finish_times` of a class is not below the stamp of any waiting packet of that class -/
  finGe : ∀ w ∈ a.items, w.2.2 ≤ a.fin (flow w.1)
  /-- the stamps of the waiting packets of one flow do not decrease in `put` order -/
  fl : a.items.Pairwise fun x y => flow x.1 = flow y.1 → x.2.2 ≤ y.2.2

end defs

theorem eqT_iff (x y : ℚ) : eqT x y ↔ x = y := by
  unfold eqT
  constructor
  · intro h; exact le_antisymm (not_lt.mp h.2) (not_lt.mp h.1)
  · rintro rfl; exact ⟨lt_irrefl _, lt_irrefl _⟩

theorem orun_nil (o : OSt ℚ) : orun F flow size cfg o [] = some o := rfl

theorem orun_one (o o' : OSt ℚ) (ev : HEv ℚ) (h : ostep F flow size cfg o ev = some o') :
    orun F flow size cfg o [ev] = some o' := by
  simp [orun, h]

/-! ### list facts -/

/-- taking one element out of a list with increasing ids is filtering by its id -/
theorem erase_eq_filter : ∀ (l : List PutRec) (w : PutRec), l.Pairwise (fun x y => x.1 < y.1) → w ∈ l →
    l.erase w = l.filter (fun y => y.1 ≠ w.1)
  | [], _, _, h => by cases h
  | x :: r, w, hp, h => by
    obtain ⟨h1, h2⟩ := List.pairwise_cons.mp hp
    by_cases hxw : x = w
    · subst hxw
      have : r.filter (fun y => y.1 ≠ x.1) = r := by
        apply List.filter_eq_self.mpr
        intro y hy
        have := h1 y hy
        simp only [ne_eq, decide_not, Bool.not_eq_eq_eq_not, Bool.not_true, decide_eq_false_iff_not]
        omega
      rw [List.erase_cons_head, List.filter_cons_of_neg (by simp), this]
    · have hw : w ∈ r := by
        rcases List.mem_cons.mp h with h | h
        · exact absurd h.symm hxw
        · exact h
      have hlt := h1 w hw
      have hne : x.1 ≠ w.1 := by omega
      rw [List.erase_cons_tail (by simpa using hxw), erase_eq_filter r w h2 hw]
      simp [hne]

/-- along the `put`s the arrival instants follow the ids -/
theorem arr_le_of_id_le : ∀ (l : List PutRec), l.Pairwise (fun x y => x.1 < y.1 ∧ x.2.1 ≤ y.2.1) → ∀ x ∈ l, ∀ y ∈ l,
    x.1 ≤ y.1 → x.2.1 ≤ y.2.1
  | [], _, _, h, _, _, _ => by cases h
  | z :: r, hp, x, hx, y, hy, hle => by
    obtain ⟨h1, h2⟩ := List.pairwise_cons.mp hp
    rcases List.mem_cons.mp hx with hx' | hx'
    · rcases List.mem_cons.mp hy with hy' | hy'
      · rw [hx', hy']
      · rw [hx']; exact (h1 y hy').2
    · rcases List.mem_cons.mp hy with hy' | hy'
      · have := (h1 x hx').1; rw [hy'] at hle; omega
      · exact arr_le_of_id_le r h2 x hx' y hy' hle

/-- an element with a least `(stamp, id)` is the oldest of its flow -/
theorem head_of_least : ∀ (l : List PutRec) (w : PutRec),
    l.Pairwise (fun x y => x.1 < y.1 ∧ (flow x.1 = flow y.1 → x.2.2 ≤ y.2.2)) →
    w ∈ l → (∀ x ∈ l, w.2.2 ≤ x.2.2 ∧ (w.2.2 = x.2.2 → w.1 ≤ x.1)) →
    (((l.map toW).filter fun y => flow y.1 = flow w.1).head?.map (·.1)) = some w.1
  | [], _, _, h, _ => by cases h
  | x :: r, w, hp, h, hle => by
    obtain ⟨h1, h2⟩ := List.pairwise_cons.mp hp
    by_cases hf : flow x.1 = flow w.1
    · have hxw : x = w := by
        rcases List.mem_cons.mp h with h | h
        · exact h.symm
        · exfalso
          obtain ⟨ha1, ha2⟩ := h1 w h
          obtain ⟨hb1, hb2⟩ := hle x (by simp)
          have := hb2 (le_antisymm hb1 (ha2 hf))
          omega
      subst hxw
      simp [toW]
    · have hw : w ∈ r := by
        rcases List.mem_cons.mp h with h | h
        · subst h; exact absurd rfl hf
        · exact h
      have := head_of_least r w h2 hw (fun y hy => hle y (by simp [hy]))
      simpa [toW, hf] using this

theorem lookup_mem_o : ∀ (l : List (Nat × ℚ)) (k : Nat) (v : ℚ), Stamp.lookup l k = some v → (k, v) ∈ l
  | [], _, _, h => by simp [Stamp.lookup] at h
  | (k', v') :: r, k, v, h => by
    simp only [Stamp.lookup] at h
    by_cases hk : k' = k
    · simp only [hk, if_true, Option.some.injEq] at h
      subst hk; subst h; simp
    · simp only [hk, if_false] at h
      exact List.mem_cons_of_mem _ (lookup_mem_o r k v h)

theorem not_keyLt_self (w : WItem ℚ) : ¬ keyLt w w := by
  unfold WFQOnK.keyLt
  rintro (h | ⟨_, h⟩) <;> exact lt_irrefl _ h

theorem candPut_none (w : WItem ℚ) : candPut (none : Option (List (WItem ℚ) × ℚ)) w = none := rfl

theorem candPut_nil (t : ℚ) (w : WItem ℚ) : candPut (some ([], t)) w = some ([w], w.2.2) := rfl

theorem candPut_ne {l : List (WItem ℚ)} (hl : l ≠ []) (t : ℚ) (w : WItem ℚ) : candPut (some (l, t)) w = some (l, t) := by
  cases l with
  | nil => exact absurd rfl hl
  | cons x r => rfl

theorem srcNext_eid (t : ℚ) (eid ev : Nat) (arr : List (ℚ × Int)) : ∀ x ∈ (srcNext t eid ev arr).entries, x.eid = eid := by
  intro x hx
  cases arr with
  | nil => simp only [srcNext, SPhase.entries, List.mem_singleton] at hx; rw [hx]
  | cons y r => obtain ⟨gap, id⟩ := y; simp only [srcNext, SPhase.entries, List.mem_singleton] at hx; rw [hx]

theorem any_toW (l : List PutRec) (c : Nat) : ((l.map toW).any fun y => flow y.1 == c) = true ↔ ∃ x ∈ l, flow x.1 = c := by
  simp [toW]

/-! ## the initial configuration, the clock advance, the end -/

theorem oinv_init (arrivals : List (ℚ × Int)) : OInv flow size cfg (a0 arrivals) 0 oInit := by
  refine ⟨Stamp.zero_eq_q, Stamp.zero_eq_q, ?_, rfl, ⟨rfl, rfl, rfl, rfl, rfl, rfl⟩, ?_, ?_⟩
  · funext c; exact Stamp.zero_eq_q
  · intro w hw; cases hw
  · exact List.Pairwise.nil

/-- **letting the clock advance to the next entry changes nothing** -/
theorem oinv_advance (hi : AInv N scale size F flow cfg d1 L a now) (hq : IsMin a q) (ho : OInv flow size cfg a now o) :
    OInv flow size cfg a q.time o := by
  rcases eq_or_lt_of_le (hi.now_le hq) with h | h
  · rw [← h]; exact ho
  have hne : ∀ x ∈ a.entries, x.time ≠ now := fun x hx hxt => absurd (hi.time_eq hq hx hxt) (ne_of_gt h)
  have hp := hi.run
  have hph := ho.ph
  refine ⟨ho.vt, ho.last, ho.fin, ho.pend, ?_, ho.finGe, ho.fl⟩
  cases hr : a.run with
  | W g =>
    rw [hr] at hp hph
    obtain ⟨hl, h1, h2, ⟨t, h3, _⟩, h5, h6⟩ := hph
    have hpe : a.pend = [] := by
      cases hpd : a.pend with
      | nil => rfl
      | cons u r => exact absurd (hi.pend u (by simp [hpd])).1 (hne u (mem_pend (by simp [hpd])))
    have hit : a.items = [] := by
      by_contra hc
      exact hp.1 hc hpe
    refine ⟨hl, h1, h2, ⟨t, h3, ?_⟩, h5, h6⟩
    intro w hw
    rw [hit] at hw; cases hw
  | init q0 => rw [hr] at hph; exact hph
  | H g w q0 => rw [hr] at hph; exact hph
  | S p id q0 => rw [hr] at hph; exact hph
  | T p t id q0 => rw [hr] at hph; exact hph
  | F p id q0 => rw [hr] at hph; exact hph

/-- **at the end of a run everything has been served** -/
theorem oinv_final (hi : AInv N scale size F flow cfg d1 L a now) (ho : OInv flow size cfg a now o) (hend : a.entries = []) :
    drained o = true := by
  have hp := hi.run
  have hph := ho.ph
  simp only [A.entries, List.append_eq_nil_iff] at hend
  obtain ⟨hre, -, hpe⟩ := hend
  cases hr : a.run with
  | W g =>
    rw [hr] at hp hph
    obtain ⟨hl, h1, h2, ⟨t, h3, _⟩, -, -⟩ := hph
    have hit : a.items = [] := by
      by_contra hc
      exact hp.1 hc hpe
    rw [hit] at h2 h3
    simp [drained, h1, h2, h3, ho.pend, hl]
  | init q0 => rw [hr] at hre; simp [RPhase.entries] at hre
  | H g w q0 => rw [hr] at hre; simp [RPhase.entries] at hre
  | S p id q0 => rw [hr] at hre; simp [RPhase.entries] at hre
  | T p t id q0 => rw [hr] at hre; simp [RPhase.entries] at hre
  | F p id q0 => rw [hr] at hre; simp [RPhase.entries] at hre

/-! ## what the oracle's state says about `total_packets`, `active_set`, the virtual time -/

/-- the oracle's notion of "class `c` is active" is the `active_set` of the configuration -/
theorem actives_eq (hi : AInv N scale size F flow cfg d1 L a now) (hph : PhO flow size cfg a now o a.run) :
    actives F flow o = (List.range F).filter a.act := by
  unfold actives
  apply List.filter_congr
  intro c hc'
  have hc : c < F := List.mem_range.mp hc'
  rw [Bool.eq_iff_iff, act_iff hi hc]
  cases hr : a.run with
  | init q0 =>
    rw [hr] at hph
    obtain ⟨hl, -, -, h3, -, h5⟩ := hph
    rw [hl, h3, h5]
    simp [any_toW, RPhase.heldC, toW]
  | W g =>
    rw [hr] at hph
    obtain ⟨hl, h1, h2, -⟩ := hph
    rw [hl, h1, h2]
    simp [any_toW, RPhase.heldC, toW]
  | S p id q0 =>
    rw [hr] at hph
    obtain ⟨hl, h1, -, h3⟩ := hph
    rw [hl, h1, h3]
    simp [any_toW, RPhase.heldC, toW]
  | T p t id q0 =>
    rw [hr] at hph
    obtain ⟨hl, -, h2, s0, h3, -⟩ := hph
    rw [hl, h3, h2]
    simp [any_toW, RPhase.heldC, toW]
  | F p id q0 =>
    rw [hr] at hph
    obtain ⟨hl, h1, -, -, h4⟩ := hph
    rw [hl, h1, h4]
    simp [any_toW, RPhase.heldC, toW]
  | H g w q0 =>
    rw [hr] at hph
    obtain ⟨hl, h1, ⟨wl, h2, h3, h4⟩, -, -⟩ := hph
    rw [hl, h1, h2]
    simp only [Bool.or_false, any_toW, RPhase.heldC, Option.some.injEq, exists_eq_left']
    constructor
    · rintro ⟨y, hy, hyc⟩
      by_cases hyw : y.1 = w.1
      · right; rw [← hyw]; exact hyc
      · left; refine ⟨y, ?_, hyc⟩
        rw [h3]; exact List.mem_filter.mpr ⟨hy, by simpa using hyw⟩
    · rintro (⟨x, hx, hxc⟩ | hwc)
      · rw [h3] at hx; exact ⟨x, (List.mem_filter.mp hx).1, hxc⟩
      · exact ⟨w, h4, hwc⟩

/-- the oracle's `total_packets == 0` is the configuration's -/
theorem isEmpty_iff (hi : AInv N scale size F flow cfg d1 L a now) (hph : PhO flow size cfg a now o a.run) :
    isEmpty o = true ↔ a.total F = 0 := by
  rw [total_zero_iff hi]
  cases hr : a.run with
  | init q0 =>
    rw [hr] at hph
    obtain ⟨hl, -, -, h3, -, h5⟩ := hph
    simp [isEmpty, h3, h5, RPhase.held]
  | W g =>
    rw [hr] at hph
    obtain ⟨hl, h1, h2, -⟩ := hph
    simp [isEmpty, h1, h2, RPhase.held]
  | S p id q0 =>
    rw [hr] at hph
    obtain ⟨hl, h1, -, h3⟩ := hph
    simp [isEmpty, h1, h3, RPhase.held]
  | T p t id q0 =>
    rw [hr] at hph
    obtain ⟨hl, -, h2, s0, h3, -⟩ := hph
    simp [isEmpty, h2, h3, RPhase.held]
  | F p id q0 =>
    rw [hr] at hph
    obtain ⟨hl, h1, -, -, h4⟩ := hph
    simp [isEmpty, h1, h4, RPhase.held]
  | H g w q0 =>
    rw [hr] at hph
    obtain ⟨hl, h1, ⟨wl, h2, h3, h4⟩, -, -⟩ := hph
    simp [isEmpty, h1, h2, RPhase.held, List.ne_nil_of_mem h4]

/-- `update_vtime` as the oracle prescribes it is the configuration's -/
theorem advV_eq (hi : AInv N scale size F flow cfg d1 L a now) (hph : PhO flow size cfg a now o a.run)
    (hact : ∃ c, c < F ∧ a.act c = true) (t : ℚ) :
    advV F flow cfg o t = some (o.vt + (t - o.last) / a.ws F cfg) := by
  unfold advV
  rw [actives_eq hi hph, weightSum_range hi.cfgOK]
  have hpos := ws_pos_o hi.cfgOK a.act hact
  have : ¬ Num.eqb (wsum cfg a.act 0 F 0) (Num.zero : ℚ) = true := by
    rw [Stamp.zero_eq_q, Num.eqb_iff]; exact ne_of_gt hpos
  simp only [if_neg this]
  rfl

/-! ## every configuration step keeps the oracle's invariant -/

/-- the source moves: only the "older `StorePut`" clause of phase `W` talks about its entries -/
theorem pho_src (s : SPhase) (hph : PhO flow size cfg a now o a.run)
    (hW : ∀ g, a.run = .W g → ∀ u ∈ a.pend, ∀ x ∈ s.entries, u.eid < x.eid) :
    PhO flow size cfg { a with src := s } now o a.run := by
  cases hr : a.run with
  | W g =>
    rw [hr] at hph
    obtain ⟨hl, h1, h2, h3, h5, h6⟩ := hph
    refine ⟨hl, h1, h2, h3, h5, ?_⟩
    intro hne
    obtain ⟨u, hu, -⟩ := h6 hne
    exact ⟨u, hu, hW g hr u hu⟩
  | init q0 => rw [hr] at hph; exact hph
  | H g w q0 => rw [hr] at hph; exact hph
  | S p id q0 => rw [hr] at hph; exact hph
  | T p t id q0 => rw [hr] at hph; exact hph
  | F p id q0 => rw [hr] at hph; exact hph

/-- a `StorePut` event without effect is processed -/
theorem pho_pend (l : List (QEntry ℚ)) (hph : PhO flow size cfg a now o a.run) (hW : ∀ g, a.run = .W g → a.items = []) :
    PhO flow size cfg { a with pend := l } now o a.run := by
  cases hr : a.run with
  | W g =>
    rw [hr] at hph
    obtain ⟨hl, h1, h2, h3, h5, h6⟩ := hph
    exact ⟨hl, h1, h2, h3, h5, fun hne => absurd (hW g hr) hne⟩
  | init q0 => rw [hr] at hph; exact hph
  | H g w q0 => rw [hr] at hph; exact hph
  | S p id q0 => rw [hr] at hph; exact hph
  | T p t id q0 => rw [hr] at hph; exact hph
  | F p id q0 => rw [hr] at hph; exact hph

/-- the packet with the least integer has a minimal `(stamp, arrival)` key -/
theorem least_key (hi : AInv N scale size F flow cfg d1 L a now) {w x : PutRec} (hw : w ∈ a.puts) (hx : x ∈ a.puts)
    (hle : codeOf N scale w ≤ codeOf N scale x) :
    ¬ keyLt (toW x) (toW w) ∧ w.2.2 ≤ x.2.2 ∧ (w.2.2 = x.2.2 → w.1 ≤ x.1) := by
  obtain ⟨-, w0, wN, -, wG, -⟩ := hi.putOK w hw
  obtain ⟨-, x0, xN, -, xG, -⟩ := hi.putOK x hx
  have hsc : 0 < scale := by
    obtain ⟨g1, g2, g3, -⟩ := hi.grid
    rw [g3]; exact Nat.mul_pos g1 g2
  obtain ⟨h1, h2⟩ := code_le_of_item_le hsc wG xG ⟨w0, wN⟩ ⟨x0, xN⟩ hle
  refine ⟨?_, h1, h2⟩
  unfold WFQOnK.keyLt toW
  simp only
  rintro (h | ⟨h3, h4⟩)
  · exact absurd h1 (not_le.mpr h)
  · have heq : w.2.2 = x.2.2 := le_antisymm h1 (not_lt.mp h3)
    have := arr_le_of_id_le a.puts hi.mono w hw x hx (h2 heq)
    exact absurd this (not_le.mpr h4)

/-- the three observations of a `put` -/
theorem orun_put {id : Int} {t v x : ℚ} (hp : o.pend = none) (hv : VtimeOK F flow cfg o t v)
    (hs : StampOK flow size cfg { o with vt := v, fin := if isEmpty o then fun _ => Num.zero else o.fin } id x) :
    orun F flow size cfg o [.put id t, .vtime v, .stamp x] =
      some { o with pend := none, vt := v, fin := setA (if isEmpty o then fun _ => Num.zero else o.fin) (flow id) x,
                    waiting := o.waiting ++ [(id, x, t)], cand := candPut o.cand (id, x, t), last := t } := by
  have hv' : VtimeOK F flow cfg { o with pend := some (id, t, false) } t v := hv
  have hs' : StampOK flow size cfg ({ o with
      pend := some (id, t, true)
      vt := v
      fin := if isEmpty { o with pend := some (id, t, false) } then fun _ => Num.zero else o.fin } : OSt ℚ) id x := hs
  simp only [orun, ostep, hp, Option.isNone_none, if_true, Option.bind_some, hv', hs']
  rfl

/-- a `put`, phase by phase -/
theorem pho_put {u : QEntry ℚ} {r : PutRec} (hph : PhO flow size cfg a now o a.run) (a' : A) (hrun : a'.run = a.run)
    (hitems : a'.items = a.items ++ [r]) (hpend : a'.pend = a.pend ++ [u]) (hr1 : r.2.1 = now)
    (hH : ∀ g w q0, a.run = .H g w q0 → r.1 ≠ w.1)
    (hW : ∀ g, a.run = .W g → a.items = [] ∧ ∀ x ∈ a'.src.entries, u.eid < x.eid)
    (o' : OSt ℚ) (hb : o'.busy = o.busy) (hl : o'.lastOut = o.lastOut) (hlv : o'.leaving = o.leaving)
    (hw : o'.waiting = o.waiting ++ [toW r])
    (hc : o'.cand = candPut o.cand (toW r)) : PhO flow size cfg a' now o' a'.run := by
  have hmap : ∀ l : List PutRec, l.map toW ++ [toW r] = (l ++ [r]).map toW := by intro l; simp
  rw [hrun]
  cases hr : a.run with
  | init q0 =>
    rw [hr] at hph
    obtain ⟨h0, h1, h2, h3, h4, h5⟩ := hph
    exact ⟨hlv.trans h0, h1, hl.trans h2, hb.trans h3, by rw [hc, h4]; rfl, by rw [hw, h5, hitems, hmap]⟩
  | S p id q0 =>
    rw [hr] at hph
    obtain ⟨h0, h1, h2, h3⟩ := hph
    exact ⟨hlv.trans h0, hb.trans h1, by rw [hc, h2]; rfl, by rw [hw, h3, hitems, hmap]⟩
  | T p t id q0 =>
    rw [hr] at hph
    obtain ⟨h0, h1, h2, s0, h3, h4⟩ := hph
    exact ⟨hlv.trans h0, by rw [hc, h1]; rfl, by rw [hw, h2, hitems, hmap], s0, hb.trans h3, h4⟩
  | F p id q0 =>
    rw [hr] at hph
    obtain ⟨h0, h1, h2, h3, h4⟩ := hph
    exact ⟨hlv.trans h0, hb.trans h1, by rw [hc, h2]; rfl, hl.trans h3, by rw [hw, h4, hitems, hmap]⟩
  | W g =>
    rw [hr] at hph
    obtain ⟨h0, h1, h2, ⟨t, h3, h4⟩, h5, h6⟩ := hph
    obtain ⟨hit, hlt⟩ := hW g hr
    rw [hit] at h2 h3
    refine ⟨hlv.trans h0, hb.trans h1, by rw [hw, h2, hitems, hit]; rfl, ⟨now, ?_, ?_⟩, by rw [hitems, hit]; simp,
      fun _ => ⟨u, by rw [hpend]; simp, hlt⟩⟩
    · rw [hc, h3, hitems, hit]
      simp only [List.map_nil, candPut_nil, List.nil_append, List.map_cons]
      simp only [toW, hr1]
    · intro w hw'
      rw [hitems, hit] at hw'
      simp only [List.nil_append, List.mem_singleton] at hw'
      subst hw'
      exact ⟨hr1.symm, hr1⟩
  | H g w q0 =>
    rw [hr] at hph
    obtain ⟨h0, h1, ⟨wl, h2, h3, h3'⟩, ⟨l, h4, h5, h6⟩, h7⟩ := hph
    refine ⟨hlv.trans h0, hb.trans h1, ⟨wl ++ [r], by rw [hw, h2, hmap], ?_, List.mem_append_left _ h3'⟩,
      ⟨l, by rw [hc, h4]; exact candPut_ne (List.ne_nil_of_mem h5) _ _, h5, h6⟩, ?_⟩
    · rw [hitems, h3, List.filter_append]
      congr 1
      simp [hH g w q0 hr]
    · rw [hw, List.filter_append]
      cases hf : (o.waiting.filter fun y => flow y.1 = flow w.1) with
      | nil => rw [hf] at h7; simp at h7
      | cons z zs => rw [hf] at h7; simpa using h7

/-- **virtual time and the stamp rule at an arrival**: the oracle accepts the `put`, `vtime` and `stamp` observations -/
theorem oinv_put (hi : AInv N scale size F flow cfg d1 L a q.time) (hq : IsMin a q) (ho : OInv flow size cfg a q.time o)
    {id : Int} {arr : List (ℚ × Int)} (h : a.src = .wait id arr q) (r : PutRec)
    (hr : r = putRec size F flow cfg a q.time id)
    (a' : A) (u : QEntry ℚ) (hu : u.eid = e) (ev : Nat) (hrun : a'.run = a.run) (hitems : a'.items = a.items ++ [r])
    (hpend : a'.pend = a.pend ++ [u]) (hsrc : a'.src = srcNext q.time (e + 1) ev arr)
    (hvt : a'.vtime = a.advV F cfg q.time) (hlast : a'.last = q.time) (hfin : a'.fin = upd (a.advFin F) (flow id) r.2.2) :
    ∃ o', orun F flow size cfg o [.put id q.time, .vtime (a.advV F cfg q.time), .stamp r.2.2] = some o' ∧
      OInv flow size cfg a' q.time o' := by
  have hs := hi.src
  rw [h] at hs
  obtain ⟨hqp, hwk, -, hids⟩ := hs
  obtain ⟨-, hfid, -⟩ := hwk.gap (0, id) (by simp)
  obtain ⟨m, hm, hlk⟩ := hi.cfgOK.w (flow id) hfid
  have hwm : wOf cfg (flow id) = (m : ℚ) := by simp only [wOf, hlk, Option.getD_some]
  have hmpos : (0 : ℚ) < (m : ℚ) := by exact_mod_cast hm
  have hr0 : r.1 = id := by rw [hr]; rfl
  have hr1 : r.2.1 = q.time := by rw [hr]; rfl
  have hr22 : r.2.2 = WFQ.stampOf cfg (a.advFin F (flow id)) (a.advV F cfg q.time) (m : ℚ) (size id) := by
    rw [hr]; simp only [putRec]; rw [hwm]
  have hge : a.advFin F (flow id) ≤ r.2.2 := by
    rw [hr22, WFQ.stampOf_eq]
    have h1 := le_max_left (a.advFin F (flow id)) (a.advV F cfg q.time)
    have h2 : (0 : ℚ) ≤ 8 * (size id : ℚ) / (cfg.rate * (m : ℚ)) :=
      div_nonneg (mul_nonneg (by norm_num) (Nat.cast_nonneg _)) (le_of_lt (mul_pos hi.cfgOK.rate hmpos))
    linarith
  have hemp := isEmpty_iff hi ho.ph
  have hfinEq : (if isEmpty o then fun _ => (Num.zero : ℚ) else o.fin) = a.advFin F := by
    unfold A.advFin
    by_cases htot : a.total F = 0
    · rw [if_pos (hemp.mpr htot), if_pos htot]; funext c; exact Stamp.zero_eq_q
    · rw [if_neg (fun hc => htot (hemp.mp hc)), if_neg htot, ho.fin]
  have hadv : a.items ≠ [] → a.advFin F = a.fin := by
    intro hne
    unfold A.advFin
    rw [if_neg (fun hc => hne ((total_zero_iff hi).mp hc).1)]
  have hV : VtimeOK F flow cfg o q.time (a.advV F cfg q.time) := by
    unfold VtimeOK A.advV
    by_cases htot : a.total F = 0
    · rw [if_pos (hemp.mpr htot), if_pos htot]
      exact (eqT_iff _ _).mpr Stamp.zero_eq_q.symm
    · rw [if_neg (fun hc => htot (hemp.mp hc)), if_neg htot, advV_eq hi ho.ph (act_of_total_o hi htot)]
      exact (eqT_iff _ _).mpr (by rw [ho.vt, ho.last])
  have hS : StampOK flow size cfg { o with vt := a.advV F cfg q.time, fin := if isEmpty o then fun _ => Num.zero else o.fin }
      id r.2.2 := by
    refine ⟨(flow id, (m : ℚ)), lookup_mem_o _ _ _ hlk, rfl, (eqT_iff _ _).mpr ?_⟩
    show r.2.2 = WFQ.stampOf cfg ((if isEmpty o then fun _ => (Num.zero : ℚ) else o.fin) (flow id)) (a.advV F cfg q.time) (m : ℚ) (size id)
    rw [hfinEq, hr22]
  have hrw : ((id, r.2.2, q.time) : WItem ℚ) = toW r := by rw [← hr0, ← hr1]; rfl
  refine ⟨_, orun_put ho.pend hV hS, hvt.symm, hlast.symm, ?_, rfl, ?_, ?_, ?_⟩
  · show setA (if isEmpty o then fun _ => (Num.zero : ℚ) else o.fin) (flow id) r.2.2 = a'.fin
    rw [hfin, hfinEq]; rfl
  · refine pho_put ho.ph a' hrun hitems hpend hr1 ?_ ?_ _ rfl rfl rfl (by rw [← hrw]) (by rw [← hrw])
    · intro g w q0 hrr
      have hp := hi.run
      rw [hrr] at hp
      have := hids w hp.2.2.2.1
      rw [hr0]; omega
    · intro g hrr
      have hph := ho.ph
      rw [hrr] at hph
      refine ⟨?_, ?_⟩
      · by_contra hne
        obtain ⟨u0, hu0, hlt⟩ := hph.2.2.2.2.2 hne
        have h1 := hlt q (by rw [h]; simp [SPhase.entries])
        obtain ⟨h2, h3⟩ := hi.pend u0 hu0
        exact hq.2 u0 (mem_pend hu0) (Or.inr ⟨h2, Or.inr ⟨h3.trans hqp.symm, h1⟩⟩)
      · intro x hx
        rw [hsrc] at hx
        rw [srcNext_eid _ _ _ _ x hx, hu]
        exact Nat.lt_succ_self e
  · intro w hw
    rw [hitems] at hw
    rw [hfin]
    rcases List.mem_append.mp hw with hw | hw
    · have hfe := hadv (List.ne_nil_of_mem hw)
      by_cases hf : flow w.1 = flow id
      · rw [hf, upd_same]
        have := ho.finGe w hw
        rw [hf, ← hfe] at this
        linarith
      · rw [upd_ne _ _ _ _ hf, hfe]
        exact ho.finGe w hw
    · simp only [List.mem_singleton] at hw
      subst hw
      rw [hr0, upd_same]
  · rw [hitems]
    refine List.pairwise_append.mpr ⟨ho.fl, List.pairwise_singleton _ _, ?_⟩
    intro x hx y hy hf
    simp only [List.mem_singleton] at hy
    subst hy
    have := ho.finGe x hx
    rw [hf, hr0, ← hadv (List.ne_nil_of_mem hx)] at this
    linarith

/-- `run` calls `store.get()` on an empty store -/
theorem oinv_getW (ho : OInv flow size cfg a q.time o) (hG : GetOK o q.time) (hw : o.waiting = a.items.map toW)
    (hit : a.items = []) (g : EvId) :
    ∃ o', orun F flow size cfg o [.get q.time] = some o' ∧ OInv flow size cfg { a with run := .W g } q.time o' := by
  refine ⟨{ o with cand := some (o.waiting, q.time) }, orun_one _ _ _ (by simp [ostep, hG]), ho.vt, ho.last, ho.fin, ho.pend, ?_,
    ho.finGe, ho.fl⟩
  refine ⟨Option.isNone_iff_eq_none.mp hG.2.2.2.1, Option.isNone_iff_eq_none.mp hG.1, hw, ⟨q.time, by rw [hw], ?_⟩,
    by simp [hit], fun hne => absurd hit hne⟩
  intro w hw'
  rw [hit] at hw'; cases hw'

/-- the two observations at the end of a pass of the loop -/
theorem orun_done {v t : ℚ} (hd : DoneOK F flow cfg o v) (hlo : o.lastOut = some t) (hc : o.cand = none) :
    orun F flow size cfg o [.done v, .get t] =
      some { o with leaving := none, vt := v, last := t, fin := if o.waiting.isEmpty then fun _ => Num.zero else o.fin,
                    cand := some (o.waiting, t) } := by
  have hG : GetOK ({ o with
      leaving := none
      vt := v
      last := o.lastOut.getD o.last
      fin := if o.waiting.isEmpty then fun _ => Num.zero else o.fin } : OSt ℚ) t := by
    refine ⟨hd.2.1, by simp [hc], hd.2.2.1, rfl, ?_⟩
    simp only [hlo]
    exact (eqT_iff _ _).mpr rfl
  simp only [orun, ostep, hd, hG, if_true, Option.bind_some]
  simp only [hlo, Option.getD_some]

/-- **virtual time at a service end**: the oracle accepts the `done` and `get` observations of the loop's bookkeeping -/
theorem oinv_done (hi : AInv N scale size F flow cfg d1 L a q.time) (ho : OInv flow size cfg a q.time o) {p : EvId} {id0 : Int}
    (h : a.run = .F p id0 q) :
    ∃ o', orun F flow size cfg o [.done (a.afterDone F flow cfg q.time id0).vtime, .get q.time] = some o' ∧
      o'.vt = (a.afterDone F flow cfg q.time id0).vtime ∧ o'.last = q.time ∧ o'.fin = (a.afterDone F flow cfg q.time id0).fin ∧
      o'.pend = none ∧ o'.leaving = none ∧ o'.busy = none ∧ o'.waiting = a.items.map toW ∧
      o'.cand = some (a.items.map toW, q.time) := by
  have hph := ho.ph
  rw [h] at hph
  obtain ⟨h0, h1, h2, h3, h4⟩ := hph
  have hhc : a.run.heldC = some id0 := by rw [h]; rfl
  have hf0 := heldC_lt hi hhc
  have hact : ∃ c, c < F ∧ a.act c = true := ⟨flow id0, hf0, (act_iff hi hf0).mpr (Or.inr ⟨id0, hhc, rfl⟩)⟩
  have hempty : o.waiting.isEmpty = true ↔ a.items = [] := by rw [h4]; simp
  have hna := nAct_after_iff hi h
  have hdv : doneV F flow cfg o = some (a.afterDone F flow cfg q.time id0).vtime := by
    unfold doneV
    rw [h3]
    simp only
    rw [advV_eq hi ho.ph hact]
    simp only [Option.map_some, A.afterDone]
    congr 1
    by_cases hit : a.items = []
    · rw [if_pos (hempty.mpr hit), if_pos (hna.mpr hit)]; exact Stamp.zero_eq_q
    · rw [if_neg (fun hc => hit (hempty.mp hc)), if_neg (fun hc => hit (hna.mp hc)), ho.vt, ho.last]
  have hD : DoneOK F flow cfg o (a.afterDone F flow cfg q.time id0).vtime := by
    unfold DoneOK
    rw [hdv]
    exact ⟨by simp [h0], by simp [h1], by simp [ho.pend], (eqT_iff _ _).mpr rfl⟩
  refine ⟨_, orun_done hD h3 h2, rfl, rfl, ?_, ho.pend, rfl, h1, h4, by rw [h4]⟩
  show (if o.waiting.isEmpty then fun _ => (Num.zero : ℚ) else o.fin) = (a.afterDone F flow cfg q.time id0).fin
  simp only [A.afterDone]
  by_cases hit : a.items = []
  · rw [if_pos (hempty.mpr hit), if_pos (hna.mpr hit)]; funext c; exact Stamp.zero_eq_q
  · rw [if_neg (fun hc => hit (hempty.mp hc)), if_neg (fun hc => hit (hna.mp hc)), ho.fin]

/-- **every configuration step keeps the oracle's invariant**: the observations of the step are accepted -/
theorem oracle_step (hi : AInv N scale size F flow cfg d1 L a q.time) (hq : IsMin a q) (he : ∀ x ∈ a.entries, x.eid < e)
    (ho : OInv flow size cfg a q.time o) (h : AStep N scale size F flow cfg n e a q a' new) :
    ∃ o', orun F flow size cfg o new = some o' ∧ OInv flow size cfg a' q.time o' := by
  have hrun := hi.run
  have hph := ho.ph
  cases h with
  | runInit h =>
    rw [h] at hph hrun
    obtain ⟨h0, h1, h2, h3, h4, h5⟩ := hph
    have hG : GetOK o q.time := by
      refine ⟨by simp [h3], by simp [h4], by simp [ho.pend], by simp [h0], ?_⟩
      rw [h2]
      exact (eqT_iff _ _).mpr (by rw [h1, Stamp.zero_eq_q])
    exact oinv_getW ho hG h5 hrun.2.2.2.1 n
  | doneBlock p id0 h hit =>
    obtain ⟨o', hrun', hvt, hlast, hfin, hpend, hlv, hbusy, hwait, hcand⟩ := oinv_done hi ho h
    refine ⟨o', hrun', hvt, hlast, hfin, hpend, ?_, ?_, ?_⟩
    · refine ⟨hlv, hbusy, hwait, ⟨q.time, hcand, ?_⟩, ?_, fun hne => absurd hit hne⟩
      · intro w hw'
        have hw'' : w ∈ a.items := hw'
        rw [hit] at hw''; cases hw''
      · show a.items.length ≤ 1
        rw [hit]; simp
    · intro w hw'
      have hw'' : w ∈ a.items := hw'
      rw [hit] at hw''; cases hw''
    · show a.items.Pairwise _
      rw [hit]; exact List.Pairwise.nil
  | doneHit p id0 w h hw =>
    obtain ⟨o', hrun', hvt, hlast, hfin, hpend, hlv, hbusy, hwait, hcand⟩ := oinv_done hi ho h
    have hwp : w ∈ a.puts := hi.sub.subset hw.1
    have hlk : ∀ x ∈ a.items, ¬ keyLt (toW x) (toW w) ∧ w.2.2 ≤ x.2.2 ∧ (w.2.2 = x.2.2 → w.1 ≤ x.1) :=
      fun x hx => least_key hi hwp (hi.sub.subset hx) (hw.2 x hx)
    have hna := nAct_after_iff hi h
    have hne : a.items ≠ [] := List.ne_nil_of_mem hw.1
    refine ⟨o', hrun', hvt, hlast, hfin, hpend, ?_, ?_, ?_⟩
    · refine ⟨hlv, hbusy, ⟨a.items, hwait, ?_, hw.1⟩, ⟨a.items.map toW, hcand, List.mem_map_of_mem hw.1, ?_⟩, ?_⟩
      · exact erase_eq_filter a.items w ((hi.mono.sublist hi.sub).imp (fun hxy => hxy.1)) hw.1
      · intro w' hw'
        obtain ⟨x, hx, rfl⟩ := List.mem_map.mp hw'
        exact (hlk x hx).1
      · rw [hwait]
        refine head_of_least a.items w ?_ hw.1 (fun x hx => (hlk x hx).2)
        exact ((hi.mono.sublist hi.sub).and ho.fl).imp (fun hxy => ⟨hxy.1.1, hxy.2⟩)
    · intro x hx
      have hx' : x ∈ a.items := List.mem_of_mem_erase hx
      show x.2.2 ≤ (a.afterDone F flow cfg q.time id0).fin (flow x.1)
      simp only [A.afterDone]
      rw [if_neg (fun hc => hne (hna.mp hc))]
      exact ho.finGe x hx'
    · show (a.items.erase w).Pairwise _
      exact ho.fl.sublist List.erase_sublist
  | pktResume g w h =>
    rw [h] at hph
    obtain ⟨h0, h1, ⟨wl, h2, h3, -⟩, ⟨l, h4, h5, h6⟩, h7⟩ := hph
    have hok : ServeOK flow o w.1 q.time := by
      unfold ServeOK
      rw [h4]
      exact ⟨by simp [h1], by simp [ho.pend], (eqT_iff _ _).mpr rfl, toW w, h5, rfl, h6, h7⟩
    refine ⟨{ o with waiting := o.waiting.filter (fun y => y.1 ≠ w.1), cand := none, busy := some (w.1, q.time) },
      orun_one _ _ _ (by simp [ostep, hok]), ho.vt, ho.last, ho.fin, ho.pend, ?_, ho.finGe, ho.fl⟩
    refine ⟨h0, rfl, rfl, ?_⟩
    show o.waiting.filter (fun y => y.1 ≠ w.1) = a.items.map toW
    rw [h2, h3, List.filter_map]
    rfl
  | sendInit p id h =>
    rw [h] at hph
    obtain ⟨h0, h1, h2, h3⟩ := hph
    exact ⟨o, rfl, ho.vt, ho.last, ho.fin, ho.pend, ⟨h0, h2, h3, q.time, h1, rfl⟩, ho.finGe, ho.fl⟩
  | sendFire p t id h =>
    rw [h] at hph
    obtain ⟨h0, h1, h2, s0, h3, h4⟩ := hph
    have hok : OutOK size cfg.rate o id q.time := by
      unfold OutOK
      rw [h3]
      exact ⟨rfl, (eqT_iff _ _).mpr h4⟩
    exact ⟨{ o with busy := none, leaving := some id, lastOut := some q.time }, orun_one _ _ _ (by simp [ostep, hok]),
      ho.vt, ho.last, ho.fin, ho.pend, ⟨rfl, rfl, h1, rfl, h2⟩, ho.finGe, ho.fl⟩
  | srcInit arr h =>
    refine ⟨o, rfl, ho.vt, ho.last, ho.fin, ho.pend, pho_src _ hph ?_, ho.finGe, ho.fl⟩
    intro g _ u hu x hx
    rw [srcNext_eid _ _ _ _ x hx]
    exact he u (mem_pend hu)
  | srcEnd h =>
    refine ⟨o, rfl, ho.vt, ho.last, ho.fin, ho.pend, pho_src _ hph ?_, ho.finGe, ho.fl⟩
    intro g _ u hu x hx
    simp [SPhase.entries] at hx
  | pendNoop l1 l2 hpe hno =>
    refine ⟨o, rfl, ho.vt, ho.last, ho.fin, ho.pend, pho_pend _ hph ?_, ho.finGe, ho.fl⟩
    intro g hg
    by_contra hne
    exact hno ⟨hne, g, hg⟩
  | srcPut id arr h =>
    exact oinv_put hi hq ho h _ rfl _ ⟨q.time, NORMAL, e, n⟩ rfl (n + 1) rfl rfl rfl rfl rfl rfl rfl
  | pendHand g w l1 l2 hpe h hw =>
    rw [h] at hph
    obtain ⟨h0, h1, h2, ⟨t, h3, h4⟩, h5, h6⟩ := hph
    have hit : a.items = [w] := by
      have hm := hw.1
      cases hl : a.items with
      | nil => rw [hl] at hm; cases hm
      | cons x r =>
        rw [hl] at hm h5
        cases r with
        | nil => simp only [List.mem_singleton] at hm; rw [hm]
        | cons y r' => simp at h5
    obtain ⟨h7, h8⟩ := h4 w hw.1
    rw [hit] at h2 h3
    refine ⟨o, rfl, ho.vt, ho.last, ho.fin, ho.pend, ?_, ?_, ?_⟩
    · refine ⟨h0, h1, ⟨[w], h2, by simp [hit], by simp⟩, ⟨[toW w], ?_, by simp, ?_⟩, ?_⟩
      · show o.cand = some ([toW w], q.time)
        rw [h3, h7, h8]; rfl
      · intro w' hw'
        simp only [List.mem_singleton] at hw'
        rw [hw']; exact not_keyLt_self _
      · rw [h2]; simp [toW]
    · intro x hx
      exact ho.finGe x (List.mem_of_mem_erase hx)
    · show (a.items.erase w).Pairwise _
      exact ho.fl.sublist List.erase_sublist

theorem orun_append (o : OSt ℚ) (l1 l2 : List (HEv ℚ)) :
    orun F flow size cfg o (l1 ++ l2) = (orun F flow size cfg o l1).bind fun o' => orun F flow size cfg o' l2 := by
  induction l1 generalizing o with
  | nil => rfl
  | cons x r ih =>
    simp only [List.cons_append, orun]
    cases ostep F flow size cfg o x with
    | none => rfl
    | some o' => simp [ih]

/-- the history form: if the oracle has accepted the history so far and stands in `OInv`, it accepts the history after the
step -/
theorem oracle_step_hist {hist : List (HEv ℚ)} (hi : AInv N scale size F flow cfg d1 L a q.time) (hq : IsMin a q)
    (he : ∀ x ∈ a.entries, x.eid < e) (hr : orun F flow size cfg oInit hist = some o) (ho : OInv flow size cfg a q.time o)
    (h : AStep N scale size F flow cfg n e a q a' new) :
    ∃ o', orun F flow size cfg oInit (hist ++ new) = some o' ∧ OInv flow size cfg a' q.time o' := by
  obtain ⟨o', h1, h2⟩ := oracle_step hi hq he ho h
  exact ⟨o', by rw [orun_append, hr]; exact h1, h2⟩

end WFQK
