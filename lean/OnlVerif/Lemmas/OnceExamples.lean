import OnlVerif.Lemmas.OnceRun
import OnlVerif.Lemmas.OnceDec
/-! # Concrete programs and states for the non-vacuity examples of the "exactly once" theorems -/

namespace Once

/-! ## the malformed program: `succeed()` on one's own Process object -/

/-- a process that calls `succeed()` on its own process event (event 0) and then returns -/
def badBody : Unit → Resume → Burst ℚ Unit :=
  fun _ _ => .call (.succeed 0 .none) fun _ => .ret .none

/-- process 0 has been started from outside, exactly as `env.process(...)` does it: its `Initialize` (event 1) is in
the agenda -/
def bad0 : KState ℚ Unit := (doCall ({ now := 0 } : KState ℚ Unit) 0 (.spawn ())).1

/-- the state a step ends in (the state itself if the agenda was empty) -/
def after {σ : Type} (s : KState ℚ σ) (r : StepResult ℚ σ) : KState ℚ σ := (r.state?).getD s

/-- did the step die of the `TypeError` of a doubly scheduled event? -/
def isDoubleScheduleCrash {σ : Type} : StepResult ℚ σ → Bool
  | .crash x _ => x.ty == "TypeError" && x.args == [.str "'NoneType' object is not iterable"]
  | _ => false

/-- is the event the next step pops already processed (the situation in which `step` raises the `TypeError`)? -/
def popsProcessed {σ : Type} (s : KState ℚ σ) : Bool :=
  match popMin s.agenda with
  | some (q, _) => (s.ev q.ev).cbs.isNone
  | none => false

theorem reach_after {σ : Type} {body : σ → Resume → Burst ℚ σ} {fuel : Nat} {s0 s : KState ℚ σ}
    (hr : KReach body fuel s0 s) (h : ((step body fuel s).state?).isSome = true) :
    KReach body fuel s0 (after s (step body fuel s)) := by
  refine KReach.step hr ?_
  unfold after
  cases hs : (step body fuel s).state? with
  | none => rw [hs] at h; cases h
  | some x => rfl

theorem bad0_inv : Inv0 false bad0 :=
  (Inv0.init false 0 #[] (fun r => by simp [default])).spawn 0 ()

/-- the run of `badBody` is not safe: otherwise its third step could not pop a processed event -/
theorem bad_unsafe : ¬ SafeRun badBody 5 bad0 := by
  intro hsafe
  have r1 : KReach badBody 5 bad0 (after bad0 (step badBody 5 bad0)) := reach_after KReach.init (by decide +kernel)
  have r2 := reach_after r1 (by decide +kernel)
  have hi := Inv0.reach badBody 5 bad0_inv (fun h => by cases h) hsafe (fun h => by cases h) r2
  have hp : popsProcessed (after (after bad0 (step badBody 5 bad0)) (step badBody 5 (after bad0 (step badBody 5 bad0)))) = true := by
    decide +kernel
  unfold popsProcessed at hp
  split at hp
  · rename_i q rest hq
    have := hi.pop_unprocessed q rest hq
    cases hc : (_ : KState ℚ Unit).ev q.ev |>.cbs with
    | none => exact this hc
    | some L => rw [hc] at hp; cases hp
  · cases hp

/-! ## a well-formed program: an event created, succeeded and awaited; a child that sleeps -/

/-- state 0 = main (creates an event, succeeds it with 7, starts a child, waits for the event),
state 1 = child (sleeps one time unit), state 2 = done -/
def demoBody : Nat → Resume → Burst ℚ Nat
  | 0, _ => .call .event fun r =>
      match r with
      | .ev e => .call (.succeed e (.int 7)) fun _ => .call (.spawn 1) fun _ => .yield e 2
      | _ => .ret .none
  | 1, _ => .call (.timeout 1 .none) fun r =>
      match r with
      | .ev t => .yield t 2
      | _ => .ret .none
  | _, _ => .ret .none

/-- a burst of API calls never deallocates an event or changes its kind -/
theorem evMono_call {σ : Type} (s : KState ℚ σ) (self : EvId) (c : Call ℚ σ) :
    EvMono s (noteErr self (doCall s self c)) :=
  (EvMono.krel.doCall s self c).trans (EvMono.krel.noteErr self _)

/-- **`demoBody` is safe in every state**: it succeeds only the plain event it has just created, and yields only
events created in the same burst -/
theorem demo_safe : SafeProg demoBody := by
  intro p st r s
  match st with
  | 0 =>
    have h1 : (doCall s p (.event : Call ℚ Nat)).2 = .ev s.events.size := rfl
    have hs1 : noteErr p (doCall s p (.event : Call ℚ Nat)) = (s.newLabelled { kind := .plain, cbs := some [], out := none }).1 := rfl
    simp only [demoBody, SafeBurst, h1, hs1]
    generalize hs1' : (s.newLabelled { kind := .plain, cbs := some [], out := none }).1 = s1
    have hk1 : (s1.ev s.events.size).kind = .plain := by rw [← hs1', KState.ev_newLabelled, if_pos rfl]
    have hlt1 : s.events.size < s1.events.size := by rw [← hs1']; simp [KState.newLabelled]
    have m12 := evMono_call s1 p (.succeed s.events.size (.int 7))
    generalize noteErr p (doCall s1 p (.succeed s.events.size (.int 7))) = s2 at m12 ⊢
    have m23 := evMono_call s2 p (.spawn 1)
    generalize noteErr p (doCall s2 p (.spawn 1)) = s3 at m23 ⊢
    refine ⟨trivial, Or.inr ⟨hlt1, Or.inl hk1⟩, trivial, ?_, ?_⟩
    · exact Nat.lt_of_lt_of_le hlt1 (m12.trans m23).size_le
    · rw [(m12.trans m23).kind _ hlt1, hk1]; simp
  | 1 =>
    simp only [demoBody, SafeBurst, SafeCall, true_and]
    by_cases hd : (1 : ℚ) < Num.zero
    · have h1 : doCall s p (.timeout 1 .none : Call ℚ Nat) = (s, .err (valueErr "Negative delay")) := by
        simp only [doCall, hd, if_true]
      rw [h1]; trivial
    · have h1 : (doCall s p (.timeout 1 .none : Call ℚ Nat)).2 = .ev s.events.size := by
        simp only [doCall, hd, if_false]; rfl
      have m := evMono_call s p (.timeout 1 .none)
      have hs1 : (noteErr p (doCall s p (.timeout 1 .none : Call ℚ Nat))).ev s.events.size =
          { kind := .timeout, cbs := some [], out := some (.ok .none), label := s.nlabel + 1 } := by
        simp only [doCall, hd, if_false, noteErr]
        rw [KState.ev_schedule, KState.ev_newLabelled, if_pos rfl]
      have hlt : s.events.size < (noteErr p (doCall s p (.timeout 1 .none : Call ℚ Nat))).events.size := by
        simp only [doCall, hd, if_false, noteErr]
        simp [KState.schedule, KState.newLabelled]
      rw [h1]
      simp only [SafeBurst]
      exact ⟨hlt, by rw [hs1]; simp⟩
  | n + 2 => simp only [demoBody, SafeBurst]

/-! ## a program that is safe only as a run: one process waits for an event that another one succeeds later -/

/-- local state = (program counter, the shared event).  `(0,_)` main: create event `e`, start the child `(1,e)`, sleep one
time unit, continue as `(2,e)`: succeed `e` with 7 and return.  `(1,e)` child: wait for `e`, continue as `(3,e)`: return. -/
def waitBody : Nat × EvId → Resume → Burst ℚ (Nat × EvId)
  | (0, _), _ => .call .event fun r =>
      match r with
      | .ev e => .call (.spawn (1, e)) fun _ => .call (.timeout 1 .none) fun r2 =>
          match r2 with
          | .ev t => .yield t (2, e)
          | _ => .ret .none
      | _ => .ret .none
  | (2, e), _ => .call (.succeed e (.int 7)) fun _ => .ret .none
  | (1, e), _ => .yield e (3, e)
  | _, _ => .ret .none

/-- the main process has been started from outside -/
def wait0 : KState ℚ (Nat × EvId) := (doCall ({ now := 0 } : KState ℚ (Nat × EvId)) 0 (.spawn (0, 0))).1

theorem wait0_inv : Inv0 true wait0 true :=
  (Inv0.init true 0 #[] (fun r => by simp [default]) true).spawn 0 (0, 0)

/-- the run of `waitBody` ends after 6 steps, and each of them is safe -/
theorem wait_safe : SafeRun waitBody 5 wait0 :=
  SafeUpTo.safeRun (N := 7) (by decide +kernel)

/-- …and none of them runs out of fuel -/
theorem wait_noHang : NoHangRun waitBody 5 wait0 :=
  NoHangUpTo.noHangRun (N := 7) (by decide +kernel)

/-- …although the program text alone is not: in another state the same `succeed` would hit a non-existent event -/
theorem wait_not_safeProg : ¬ SafeProg waitBody := by
  intro h
  have := h 0 (2, 0) .start ({ now := 0 } : KState ℚ (Nat × EvId))
  revert this
  decide +kernel

end Once
