import OnlVerif.Lemmas.SndKStepTm
/-!
# The TCP sender on the kernel model: the start and the wake-up of a `Timer` process
-/

set_option linter.unusedSimpArgs false

namespace SndK
open SenderOnK TcpSender

/-- what `TmA` says about a live timer -/
theorem TmA.live {a : A} {seq : Nat} {r : TimerRec ℚ} (h : TmA a seq) (hg : AL.get? seq a.S.timers = some r) :
    (a.tmc seq).stopped = false ∧ r = ⟨(a.tmc seq).expire, (a.tmc seq).expire, true⟩ ∧
    (match a.tph seq with
     | .init q => q.time = a.S.now ∧ q.prio = URGENT ∧ a.S.now < (a.tmc seq).expire
     | .sleep _ q => q.time = (a.tmc seq).expire ∧ q.prio = NORMAL
     | _ => False) := by
  unfold TmA at h
  rw [hg] at h
  exact h

theorem TmA.dead {a : A} {seq : Nat} (h : TmA a seq) (hg : AL.get? seq a.S.timers = none) :
    (a.tmc seq).stopped = true ∧ (a.tmc seq).expire ≤ a.S.now ∧
    (match a.tph seq with
     | .init q => q.time = a.S.now ∧ q.prio = URGENT
     | .sleep _ q => q.prio = NORMAL
     | .ending q => q.prio = NORMAL
     | .gone => True
     | .running => False) := by
  unfold TmA at h
  rw [hg] at h
  exact h

theorem TmA.of_live {a : A} {seq : Nat} {r : TimerRec ℚ} (hg : AL.get? seq a.S.timers = some r)
    (h : (a.tmc seq).stopped = false ∧ r = ⟨(a.tmc seq).expire, (a.tmc seq).expire, true⟩ ∧
    (match a.tph seq with
     | .init q => q.time = a.S.now ∧ q.prio = URGENT ∧ a.S.now < (a.tmc seq).expire
     | .sleep _ q => q.time = (a.tmc seq).expire ∧ q.prio = NORMAL
     | _ => False)) : TmA a seq := by
  unfold TmA
  rw [hg]
  exact h

theorem TmA.of_dead {a : A} {seq : Nat} (hg : AL.get? seq a.S.timers = none)
    (h : (a.tmc seq).stopped = true ∧ (a.tmc seq).expire ≤ a.S.now ∧
    (match a.tph seq with
     | .init q => q.time = a.S.now ∧ q.prio = URGENT
     | .sleep _ q => q.prio = NORMAL
     | .ending q => q.prio = NORMAL
     | .gone => True
     | .running => False)) : TmA a seq := by
  unfold TmA
  rw [hg]
  exact h

/-- the `Initialize` event of a `Timer` process: `Timer.run` starts, reads `expire_time` and sleeps until then (a timer that
was stopped in the instant of its creation returns at once) -/
theorem kstep_tmInit {cfg : Cfg} (fuel : Nat) {s : KS} {a : A} {q : QEntry ℚ} {rest : List (QEntry ℚ)} {seq : Nat}
    (hk : KI none s a) (hiT : AInv cfg (aTick a q.time)) (hp : popMin s.agenda = some (q, rest)) (hs : seq ∈ a.tks)
    (hph : a.tph seq = .init q) : StepGoal cfg fuel s (aTick a q.time).S a.txs := by
  have htm := hk.k.tm seq hs
  simp only [kernOf, hph, TmEv] at htm
  obtain ⟨hqe, hev, hpr, hpe⟩ := htm
  have hev' : EvIs s q.ev (.init (a.tmp seq)) [.resume (a.tmp seq)] okNone := hqe ▸ hev
  have ow : Owned s q.ev (a.tmp seq) := Or.inl hev'.1
  have harg : argOf s (a.tmp seq) q.ev .none = .start := by unfold argOf; rw [hev'.1]; simp
  have h1 := tm_start hk hp hs (by rw [hph]; rfl) hev' ow hpe .start
  have hstep := step_resume (body cfg) fuel hp hev'.2.1 hev'.2.2 hpr
  rw [harg] at hstep
  obtain ⟨S, ph', e1, e2, ⟨v, e3⟩, e4⟩ := tm_loop_end (body cfg) fuel (a := aTmRun a seq q)
    (pr := { st := .tmStart seq q.time, target := some (a.tmp seq + 1) }) (e := q.ev) h1 hs
    (upd_same _ _ _) rfl rfl
  have hS : step (body cfg) (fuel + 1) s = .ok S := by
    rw [hstep]
    have e1' : TimerK.afterBurst (body cfg) (a.tmp seq) fuel { st := .tmStart seq q.time, target := some (a.tmp seq + 1) }
        (runBurst (a.tmp seq) (body cfg (.tmStart seq q.time) .start) (startSt s q rest (a.tmp seq) .start)) = S := e1
    rw [e1']
    exact closeEvent_ok e3
  have hcur : a.cur = none := hiT.cur
  refine ⟨S, { aTick a q.time with tph := upd a.tph seq ph' }, [], [], hS, ?_, ?_, rfl, by simp [aTick], fun x hx => by cases hx⟩
  · refine e2.congr ?_
    simp only [aTmRun, aTick, upd_upd, hcur]
  · refine hiT.set_tph seq ph' (fun _ => ?_)
    have ht := hiT.tm seq hs
    have hphT : (aTick a q.time).tph seq = .init q := hph
    cases hg : AL.get? seq (aTick a q.time).S.timers with
    | some r =>
      obtain ⟨l1, l2, l3⟩ := ht.live hg
      rw [hphT] at l3
      refine TmA.of_live (r := r) hg ⟨l1, l2, ?_⟩
      rcases e4 with ⟨_, rfl⟩ | ⟨hn, _⟩
      · show (match upd a.tph seq _ seq with | .init q => _ | .sleep _ q => _ | _ => False)
        rw [upd_same]
        exact ⟨by show q.time + ((a.tmc seq).expire - q.time) = (a.tmc seq).expire; ring, rfl⟩
      · exact absurd l3.2.2 hn
    | none =>
      obtain ⟨d1, d2, d3⟩ := ht.dead hg
      refine TmA.of_dead hg ⟨d1, d2, ?_⟩
      rcases e4 with ⟨hl, _⟩ | ⟨_, rfl⟩
      · exact absurd hl (not_lt.mpr d2)
      · show (match upd a.tph seq _ seq with | .init q => _ | .sleep _ q => _ | .ending q => _ | .gone => True | .running => False)
        rw [upd_same]

end SndK
