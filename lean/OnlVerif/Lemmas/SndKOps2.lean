import OnlVerif.Lemmas.SndKOps
/-!
# The TCP sender on the kernel model: the wake-up store, process creation, observations, events without `_resume`
-/

set_option linter.unusedSimpArgs false

namespace SndK
open SenderOnK

/-- a permutation goal between explicit concatenations of the same lists, by counting -/
macro "perm_lists" : tactic =>
  `(tactic| (classical
             rw [List.perm_iff_count]
             intro z
             simp only [List.count_append, List.count_cons, List.count_nil]
             omega))

/-! ## `yield self.cwnd_avaialbe.get()` -/

theorem res0_set (s : KS) (x : ResRec) (rs : Array ResRec) (hsz : 0 < s.resources.size) (h : rs = s.resources.setIfInBounds 0 x)
    (S : KS) (hS : S.resources = rs) : S.res 0 = x := by
  simp only [KState.res, hS, h]
  exact getD_set_same _ _ _ hsz

theorem getHitSt_frame (s : KS) (t0 : ℚ) (is : List Int) : Frame s (getHitSt s t0 is) [] [0] := by
  refine ⟨by simp [getHitSt], ?_, ?_, ?_⟩
  · intro e he _
    simp only [KState.ev, getHitSt, getD_push, Nat.ne_of_lt he, if_false]
  · intro e he
    simp only [KState.ev, getHitSt, getD_push, Nat.ne_of_lt he, if_false]
  · intro p' hp'
    simp only [List.mem_singleton] at hp'
    rw [TimerK.proc?_eq, TimerK.proc?_eq]
    show TimerK.plookup ((0, _) :: s.procs.filter (·.1 != 0)) p' = _
    rw [TimerK.plookup_set, if_neg hp']

theorem getMissSt_frame (s : KS) (t0 : ℚ) : Frame s (getMissSt s t0) [] [0] := by
  refine ⟨by simp [getMissSt], ?_, ?_, ?_⟩
  · intro e he _
    simp only [KState.ev, getMissSt, getD_push, Nat.ne_of_lt he, if_false]
  · intro e he
    simp only [KState.ev, getMissSt, getD_push, Nat.ne_of_lt he, if_false]
  · intro p' hp'
    simp only [List.mem_singleton] at hp'
    rw [TimerK.proc?_eq, TimerK.proc?_eq]
    show TimerK.plookup ((0, _) :: s.procs.filter (·.1 != 0)) p' = _
    rw [TimerK.plookup_set, if_neg hp']

/-- the other generators after a frame that touches no old event and only the process record of `run` -/
theorem KK.others0 {act : Option EvId} {s S : KS} {κ : Kern} (h : KK act s κ) (fr : Frame s S [] [0]) :
    ScrEv S κ.scr ∧ (∀ u ∈ κ.pend, PendEv S u) ∧ (∀ seq ∈ κ.keys, TmEv S seq (κ.tmp seq) (κ.tph seq)) ∧
    ProcTag S 2 0 ∧ (∀ seq ∈ κ.keys, ProcTag S (κ.tmp seq) (2 + seq)) := by
  have hne : ∀ seq ∈ κ.keys, κ.tmp seq ∉ [0] := fun seq hs => by
    simpa using ProcTag.ne (h.ptm seq hs) h.pt0 (by omega)
  exact ⟨h.scr.keep fr (by simp) (by simp), fun u hu => (h.pend u hu).keep fr (by simp),
    fun seq hs => (h.tm seq hs).keep fr (by simp) (hne seq hs), h.pt2.keep fr (by simp),
    fun seq hs => (h.ptm seq hs).keep fr (hne seq hs)⟩

theorem KK.getHit {s : KS} {κ : Kern} {t0 : ℚ} {n : Nat} (h : KK (some 0) s κ) (hrun : κ.run = .running) :
    KK none (getHitSt s t0 (List.replicate n 1))
      { κ with run := .handed s.events.size t0 ⟨s.now, NORMAL, s.eid, s.events.size⟩, tokens := n, cur := none } := by
  have fr := getHitSt_frame s t0 (List.replicate n 1)
  obtain ⟨o1, o2, o3, o4, o5⟩ := h.others0 fr
  have hproc : (getHitSt s t0 (List.replicate n 1)).proc? 0 = some { st := .runGet t0, target := some s.events.size } := by
    rw [TimerK.proc?_eq]
    show TimerK.plookup ((0, _) :: s.procs.filter (·.1 != 0)) 0 = _
    rw [TimerK.plookup_set, if_pos rfl]
  have hrun' := h.run
  rw [hrun] at hrun'
  refine ⟨rfl, h.now, ?_, ?_, by simpa [getHitSt] using h.rsz, ?_, ?_, o1, o2, h.pnd, o3, ?_, o4, o5, h.knd, h.tx, ?_⟩
  · exact wf_push1 h.wf _ rfl rfl rfl rfl (le_refl _)
  · show (_ :: s.agenda).Perm _
    have := h.ag
    simp only [Kern.entries, hrun, RPhase.entries, List.nil_append] at this
    simp only [Kern.entries, RPhase.entries, List.singleton_append]
    exact List.Perm.cons _ this
  · exact res0_set s _ _ h.rsz rfl _ rfl
  · refine ⟨rfl, ?_, hproc, EvIs.keep (show EvIs s 0 .proc [] none from hrun') fr (by simp)⟩
    simp [-Array.getD_eq_getD_getElem?, EvIs, KState.ev, getHitSt, getD_push]
  · exact h.pt0.set fr _ hproc rfl
  · intro e he; cases he

theorem KK.getMiss {s : KS} {κ : Kern} {t0 : ℚ} (h : KK (some 0) s κ) (hrun : κ.run = .running) (htok : κ.tokens = 0) :
    KK none (getMissSt s t0) { κ with run := .blocked s.events.size t0, cur := none } := by
  have fr := getMissSt_frame s t0
  obtain ⟨o1, o2, o3, o4, o5⟩ := h.others0 fr
  have hproc : (getMissSt s t0).proc? 0 = some { st := .runGet t0, target := some s.events.size } := by
    rw [TimerK.proc?_eq]
    show TimerK.plookup ((0, _) :: s.procs.filter (·.1 != 0)) 0 = _
    rw [TimerK.plookup_set, if_pos rfl]
  have hrun' := h.run
  rw [hrun] at hrun'
  refine ⟨rfl, h.now, ⟨h.wf.due, h.wf.eid_lt, h.wf.distinct⟩, ?_, by simpa [getMissSt] using h.rsz, ?_, ?_, o1, o2, h.pnd, o3, ?_,
    o4, o5, h.knd, h.tx, ?_⟩
  · show s.agenda.Perm _
    have := h.ag
    simp only [Kern.entries, hrun, RPhase.entries, List.nil_append] at this
    simpa only [Kern.entries, RPhase.entries, List.nil_append] using this
  · show (getMissSt s t0).res 0 = storeRec [s.events.size] (List.replicate κ.tokens 1)
    rw [htok]
    exact res0_set s _ _ h.rsz rfl _ rfl
  · refine ⟨?_, hproc, EvIs.keep (show EvIs s 0 .proc [] none from hrun') fr (by simp)⟩
    simp [-Array.getD_eq_getD_getElem?, EvIs, KState.ev, getMissSt, getD_push]
  · exact h.pt0.set fr _ hproc rfl
  · intro e he; cases he

/-! ## operations in the middle of a burst -/

theorem KK.setCell {act : Option EvId} {s : KS} {κ : Kern} (h : KK act s κ) (k : Nat) (v : Val) :
    KK act (setCell s k v) κ :=
  ⟨h.act, h.now, ⟨h.wf.due, h.wf.eid_lt, h.wf.distinct⟩, h.ag, h.rsz, h.tok, h.run, h.scr, h.pend, h.pnd, h.tm, h.pt0, h.pt2,
    h.ptm, h.knd, h.tx, h.cur⟩

theorem KK.log {act : Option EvId} {s : KS} {κ : Kern} (h : KK act s κ) (p : EvId) (seq : Nat) :
    KK act (s.emit (.log p "tx" (.int seq) s.now)) { κ with txs := κ.txs ++ [(seq, κ.now)] } := by
  refine ⟨h.act, h.now, ⟨h.wf.due, h.wf.eid_lt, h.wf.distinct⟩, h.ag, h.rsz, h.tok, h.run, h.scr, h.pend, h.pnd, h.tm, h.pt0, h.pt2,
    h.ptm, h.knd, ?_, h.cur⟩
  show txsOf (s.trace.push _) = κ.txs ++ [(seq, κ.now)]
  rw [txsOf_push, txOf1_tx, h.tx, h.now]
  rfl

/-- an observation that is not a transmission -/
theorem KK.emit {act : Option EvId} {s : KS} {κ : Kern} (h : KK act s κ) (o : Obs ℚ) (ho : txOf1 o = none) :
    KK act (s.emit o) κ := by
  refine ⟨h.act, h.now, ⟨h.wf.due, h.wf.eid_lt, h.wf.distinct⟩, h.ag, h.rsz, h.tok, h.run, h.scr, h.pend, h.pnd, h.tm, h.pt0, h.pt2,
    h.ptm, h.knd, ?_, h.cur⟩
  show txsOf (s.trace.push _) = κ.txs
  rw [txsOf_push, ho, h.tx]
  simp

/-- `env.process(Timer.run)`: the state after the call -/
def spawnSt (s : KS) (st : St) : KS :=
  { s with
    events := (s.events.push { kind := .proc, cbs := some [], out := none, label := s.nlabel + 1 }).push
                { kind := .init s.events.size, cbs := some [.resume s.events.size], out := some (.ok .none) }
    nlabel := s.nlabel + 1
    procs := (s.events.size, { st := st, target := some (s.events.size + 1) }) :: s.procs.filter (·.1 != s.events.size)
    agenda := { time := s.now, prio := URGENT, eid := s.eid, ev := s.events.size + 1 } :: s.agenda
    eid := s.eid + 1 }

theorem rb_spawn (s : KS) (p : EvId) (st : St) (k : Reply → B ℚ) :
    runBurst p (.call (.spawn st) k) s = runBurst p (k (.ev s.events.size)) (spawnSt s st) := by
  simp only [runBurst, doCall_spawn, noteErr, spawnSt]

theorem spawnSt_frame (s : KS) (st : St) : Frame s (spawnSt s st) [] [s.events.size] := by
  refine ⟨by simp [spawnSt]; omega, ?_, ?_, ?_⟩
  · intro e he _
    have h1 : e ≠ s.events.size := Nat.ne_of_lt he
    have h2 : e ≠ s.events.size + 1 := by omega
    simp [-Array.getD_eq_getD_getElem?, KState.ev, spawnSt, getD_push, h1, h2]
  · intro e he
    have h1 : e ≠ s.events.size := Nat.ne_of_lt he
    have h2 : e ≠ s.events.size + 1 := by omega
    simp [-Array.getD_eq_getD_getElem?, KState.ev, spawnSt, getD_push, h1, h2]
  · intro p' hp'
    simp only [List.mem_singleton] at hp'
    rw [TimerK.proc?_eq, TimerK.proc?_eq]
    show TimerK.plookup ((s.events.size, _) :: s.procs.filter (·.1 != s.events.size)) p' = _
    rw [TimerK.plookup_set, if_neg hp']

theorem tmEntries_append (keys : List Nat) (seq : Nat) (tph : Nat → TPh) :
    tmEntries (keys ++ [seq]) tph = tmEntries keys tph ++ (tph seq).entries := by
  simp [tmEntries, List.flatMap_append]

theorem tmEntries_congr {keys : List Nat} {tph tph' : Nat → TPh} (h : ∀ seq ∈ keys, tph' seq = tph seq) :
    tmEntries keys tph' = tmEntries keys tph := by
  unfold tmEntries
  induction keys with
  | nil => rfl
  | cons x xs ih =>
    simp only [List.flatMap_cons]
    rw [h x (by simp), ih (fun seq hs => h seq (by simp [hs]))]

/-- the `Timer` of a new segment `seq` is created by the process `p0` that is executing -/
theorem KK.spawn {s : KS} {κ : Kern} {p0 : EvId} (h : KK (some p0) s κ) (seq : Nat) (hseq : seq ∉ κ.keys) :
    KK (some p0) (spawnSt s (.tmStart seq s.now))
      { κ with keys := κ.keys ++ [seq], tmp := upd κ.tmp seq s.events.size,
               tph := upd κ.tph seq (.init ⟨s.now, URGENT, s.eid, s.events.size + 1⟩) } := by
  have fr := spawnSt_frame s (.tmStart seq s.now)
  have hp0 : ∀ p' n', ProcTag s p' n' → p' ∉ [s.events.size] := fun p' n' h' => by
    simpa using Nat.ne_of_lt h'.lt
  have hne : ∀ seq' ∈ κ.keys, seq' ≠ seq := fun seq' hs he => hseq (he ▸ hs)
  have hproc : (spawnSt s (.tmStart seq s.now)).proc? s.events.size =
      some { st := .tmStart seq s.now, target := some (s.events.size + 1) } := by
    rw [TimerK.proc?_eq]
    show TimerK.plookup ((s.events.size, _) :: s.procs.filter (·.1 != s.events.size)) s.events.size = _
    rw [TimerK.plookup_set, if_pos rfl]
  have e1 : EvIs (spawnSt s (.tmStart seq s.now)) (s.events.size + 1) (.init s.events.size) [.resume s.events.size] okNone := by
    simp [-Array.getD_eq_getD_getElem?, EvIs, KState.ev, spawnSt, getD_push, okNone]
  have e2 : EvIs (spawnSt s (.tmStart seq s.now)) s.events.size .proc [] none := by
    simp [-Array.getD_eq_getD_getElem?, EvIs, KState.ev, spawnSt, getD_push]
  refine ⟨h.act, h.now, ?_, ?_, h.rsz, h.tok, h.run.keep fr (by simp) (hp0 _ _ h.pt0), h.scr.keep fr (by simp) (hp0 _ _ h.pt2),
    fun u hu => (h.pend u hu).keep fr (by simp), h.pnd, ?_, h.pt0.keep fr (hp0 _ _ h.pt0), h.pt2.keep fr (hp0 _ _ h.pt2), ?_, ?_,
    h.tx, ?_⟩
  · exact wf_push1 h.wf _ rfl rfl rfl rfl (le_refl _)
  · show (_ :: s.agenda).Perm _
    simp only [Kern.entries, tmEntries_append, upd_same, TPh.entries]
    rw [tmEntries_congr (tph := κ.tph) (fun seq' hs => upd_ne _ _ _ _ (hne seq' hs))]
    have := h.ag
    simp only [Kern.entries] at this
    refine (List.Perm.cons _ this).trans ?_
    simp only [← List.append_assoc]
    exact List.perm_append_singleton _ _ |>.symm
  · intro seq' hs
    dsimp only at hs ⊢
    rcases List.mem_append.mp hs with hs | hs
    · rw [upd_ne _ _ _ _ (hne seq' hs), upd_ne _ _ _ _ (hne seq' hs)]
      exact (h.tm seq' hs).keep fr (by simp) (hp0 _ _ (h.ptm seq' hs))
    · simp only [List.mem_singleton] at hs
      subst hs
      rw [upd_same, upd_same]
      exact ⟨rfl, e1, hproc, e2⟩
  · intro seq' hs
    dsimp only at hs ⊢
    rcases List.mem_append.mp hs with hs | hs
    · rw [upd_ne _ _ _ _ (hne seq' hs)]
      exact (h.ptm seq' hs).keep fr (hp0 _ _ (h.ptm seq' hs))
    · simp only [List.mem_singleton] at hs
      subst hs
      rw [upd_same]
      exact ⟨e2.1, _, hproc, rfl⟩
  · exact List.Nodup.append h.knd (List.nodup_singleton _) (by simpa using hseq)
  · intro e he
    obtain ⟨c1, v, c2⟩ := h.cur e he
    have hlt : e < s.events.size := KState.lt_of_out (by rw [c2]; simp)
    rw [fr.ev e hlt (by simp)]
    exact ⟨c1, v, c2⟩

/-! ## `self.cwnd_avaialbe.put(True)` -/

/-- the state after the call -/
def sputSt (s : KS) (gq : List EvId) (its : List Int) : KS :=
  { s with
    events := s.events.push { kind := .put 0, cbs := some [.trigGet 0], out := some (.ok .none), label := s.nlabel + 1,
                               req := some { res := 0, item := 1, time := s.now, proc := s.active } }
    nlabel := s.nlabel + 1
    resources := s.resources.setIfInBounds 0 (storeRec gq (its ++ [1]))
    agenda := { time := s.now, prio := NORMAL, eid := s.eid, ev := s.events.size } :: s.agenda
    eid := s.eid + 1 }

theorem rb_sput (s : KS) (p : EvId) (gq : List EvId) (its : List Int) (hsz : 0 < s.resources.size)
    (hr : s.res 0 = storeRec gq its) (k : Reply → B ℚ) :
    runBurst p (.call (.sput tokStore 1) k) s = runBurst p (k (.ev s.events.size)) (sputSt s gq its) := by
  simp only [runBurst, tokStore, doCall_sput s p 0 1 gq its hsz hr, noteErr, sputSt]

theorem sputSt_frame (s : KS) (gq : List EvId) (its : List Int) : Frame s (sputSt s gq its) [] [] := by
  refine ⟨by simp [sputSt], ?_, ?_, fun _ _ => rfl⟩
  · intro e he _
    simp only [KState.ev, sputSt, getD_push, Nat.ne_of_lt he, if_false]
  · intro e he
    simp only [KState.ev, sputSt, getD_push, Nat.ne_of_lt he, if_false]

theorem mem_evs {l : List (QEntry ℚ)} {e : EvId} : e ∈ evs l ↔ ∃ x ∈ l, x.ev = e := by simp [evs]

theorem KK.sput {s : KS} {κ : Kern} {p0 : EvId} (h : KK (some p0) s κ) :
    KK (some p0) (sputSt s κ.run.getQ (List.replicate κ.tokens 1))
      { κ with pend := κ.pend ++ [⟨s.now, NORMAL, s.eid, s.events.size⟩], tokens := κ.tokens + 1 } := by
  have fr := sputSt_frame s κ.run.getQ (List.replicate κ.tokens 1)
  refine ⟨h.act, h.now, ?_, ?_, by simpa [sputSt] using h.rsz, ?_, h.run.keep fr (by simp) (by simp),
    h.scr.keep fr (by simp) (by simp), ?_, ?_, fun seq hs => (h.tm seq hs).keep fr (by simp) (by simp), h.pt0.keep fr (by simp),
    h.pt2.keep fr (by simp), fun seq hs => (h.ptm seq hs).keep fr (by simp), h.knd, h.tx, ?_⟩
  · exact wf_push1 h.wf _ rfl rfl rfl rfl (le_refl _)
  · show (_ :: s.agenda).Perm _
    have := h.ag
    simp only [Kern.entries] at this ⊢
    refine (List.Perm.cons _ this).trans ?_
    perm_lists
  · show (sputSt s κ.run.getQ (List.replicate κ.tokens 1)).res 0 = storeRec κ.run.getQ (List.replicate (κ.tokens + 1) 1)
    rw [List.replicate_succ']
    exact res0_set s _ _ h.rsz rfl _ rfl
  · intro u hu
    rcases List.mem_append.mp hu with hu | hu
    · exact (h.pend u hu).keep fr (by simp)
    · simp only [List.mem_singleton] at hu
      subst hu
      simp [-Array.getD_eq_getD_getElem?, PendEv, EvIs, KState.ev, sputSt, getD_push, okNone]
  · show (evs (κ.pend ++ [_])).Nodup
    simp only [evs, List.map_append, List.map_cons, List.map_nil]
    refine List.Nodup.append h.pnd (List.nodup_singleton _) ?_
    intro e he
    simp only [List.mem_singleton]
    obtain ⟨x, hx, rfl⟩ := mem_evs.mp he
    exact Nat.ne_of_lt (h.pend x hx).lt
  · intro e he
    obtain ⟨c1, v, c2⟩ := h.cur e he
    have hlt : e < s.events.size := KState.lt_of_out (by rw [c2]; simp)
    rw [fr.ev e hlt (by simp)]
    exact ⟨c1, v, c2⟩

/-! ## events without a `_resume` callback -/

/-- an event with nothing left to do -/
theorem step_noop (body : St → Resume → Burst ℚ St) (fuel : Nat) {s : KS} {q : QEntry ℚ} {rest : List (QEntry ℚ)} {v : Val}
    (hp : popMin s.agenda = some (q, rest)) (hc : (s.ev q.ev).cbs = some []) (ho : (s.ev q.ev).out = some (.ok v)) :
    step body (fuel + 1) s = .ok (openEvent s q rest) := by
  have hlt : q.ev < s.events.size := KState.lt_of_cbs hc
  rw [TimerK.step_eq _ _ _ _ _ _ hp hc]
  simp only [List.foldl, closeEvent]
  rw [(openEvent_cur s q rest hlt).2.1, ho]

/-- the generic part of `KK` after `openEvent` (no burst follows) -/
theorem KK.opened {s : KS} {κ κ1 : Kern} {q : QEntry ℚ} {rest : List (QEntry ℚ)}
    (h : KK none s κ) (hp : popMin s.agenda = some (q, rest))
    (hent : κ.entries.Perm (q :: κ1.entries))
    (hnow : κ1.now = q.time) (hcur : κ1.cur = none) (htok : κ1.tokens = κ.tokens)
    (hgetQ : κ1.run.getQ = κ.run.getQ) (hkeys : κ1.keys = κ.keys) (htmp : κ1.tmp = κ.tmp)
    (htxs : κ1.txs = κ.txs)
    (hrun : RunEv (openEvent s q rest) κ1.run) (hscr : ScrEv (openEvent s q rest) κ1.scr)
    (hpd : ∀ u ∈ κ1.pend, PendEv s u ∧ u.ev ≠ q.ev) (hpn : (evs κ1.pend).Nodup)
    (htm : ∀ seq ∈ κ.keys, TmEv (openEvent s q rest) seq (κ.tmp seq) (κ1.tph seq)) :
    KK none (openEvent s q rest) κ1 := by
  have fr := openEvent_frame s q rest
  have hwf := openEvent_wf s q rest h.wf hp
  refine ⟨h.act, hnow.symm, hwf.1, rest_perm hp h.ag hent, h.rsz, ?_, hrun, hscr, ?_, hpn, ?_,
    h.pt0.keep fr (by simp), h.pt2.keep fr (by simp), ?_, ?_, ?_, ?_⟩
  · rw [hgetQ, htok]; exact h.tok
  · intro u hu
    exact (hpd u hu).1.keep fr (by simpa using (hpd u hu).2)
  · rw [hkeys, htmp]; exact htm
  · rw [hkeys, htmp]; intro seq hs; exact (h.ptm seq hs).keep fr (by simp)
  · rw [hkeys]; exact h.knd
  · rw [htxs]; exact h.tx
  · intro e he; rw [hcur] at he; cases he

/-- a `StorePut` of the wake-up store: its only callback is `_trigger_get` -/
theorem step_put (body : St → Resume → Burst ℚ St) (fuel : Nat) {s : KS} {q : QEntry ℚ} {rest : List (QEntry ℚ)}
    (hp : popMin s.agenda = some (q, rest)) (hc : (s.ev q.ev).cbs = some [.trigGet 0]) :
    step body (fuel + 1) s = closeEvent { s := triggerGet (openEvent s q rest) 0 } q.ev := by
  rw [TimerK.step_eq _ _ _ _ _ _ hp hc]
  simp only [List.foldl, runCb]

/-- the state after the hand-off of a token to the waiting `get` event `g` -/
def handSt (s : KS) (g : EvId) (is : List Int) : KS :=
  { s with
    events := s.events.setIfInBounds g { s.ev g with out := some (.ok (.int 1)) }
    resources := s.resources.setIfInBounds 0 (storeRec [] is)
    agenda := { time := s.now, prio := NORMAL, eid := s.eid, ev := g } :: s.agenda
    eid := s.eid + 1 }

theorem handSt_ev (s : KS) (g : EvId) (is : List Int) (e : EvId) :
    (handSt s g is).ev e = if e = g ∧ g < s.events.size then { s.ev g with out := some (.ok (.int 1)) } else s.ev e :=
  KState.ev_setEv s g e _

theorem handSt_frame (s : KS) (g : EvId) (is : List Int) : Frame s (handSt s g is) [g] [] := by
  refine ⟨by simp [handSt], ?_, ?_, fun _ _ => rfl⟩
  · intro e _ hX
    simp only [List.mem_singleton] at hX
    rw [handSt_ev, if_neg (fun h => hX h.1)]
  · intro e _
    rw [handSt_ev]
    split
    · rename_i h; rw [h.1]
    · rfl

end SndK
