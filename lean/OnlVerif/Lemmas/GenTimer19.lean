import OnlVerif.Generated.Timer19
import OnlVerif.Util.Timer
/-!
# Bridge lemmas: `Generated/Timer19.lean` (py2lean's translation of `onl/utils/timer.py`) against the model `Util/Timer.lean`

Polymorphic in the scalar (`[Num α]`): generated code and model perform the same operations in the same order.
`withModel o s` is the Python object `o` with the five modelled attributes taken from the model state `s`; the other fields of
`o` (effect counters, `raised`, where the generator is suspended) are what a call adds to.
-/

namespace GenTimer19
open Timer
variable {α : Type} [Num α]

/-- the Python object: the modelled attributes from `s`, everything else from `o` -/
def withModel (o : Gen.TimerObj α) (s : State α) : Gen.TimerObj α :=
  { o with timeout := s.timeout, start_time := s.start, expire_time := s.expire, auto_restart := s.auto, stopped := s.stopped }

/-- the `args` of the model's constructor as the Python value (a tuple is `tupleOf`) -/
def pyArgs : ArgSpec → Gen.PyArgs
  | .none => .none
  | .scalar v => .other v
  | .list vs => .list vs

/-- where the generated burst left the generator, as the model's process status: ended (`yield_at = 0`) or suspended in
`yield self.env.timeout(yield_dt)` created at `now`, hence due at `now + yield_dt` -/
def statOf (g : Gen.TimerObj α) (now : α) : PStat α :=
  if g.yield_at = 0 then .finished else .sleeping (now + g.yield_dt)

/-- `o` with the suspension point of `g` -/
def suspendedAs (o g : Gen.TimerObj α) : Gen.TimerObj α := { o with yield_at := g.yield_at, yield_dt := g.yield_dt }

theorem init_eq (o : Gen.TimerObj α) (t0 timeout : α) (auto : Bool) (a : ArgSpec) :
    Gen.Timer.init o t0 timeout auto =
      match create t0 timeout auto a with
      | .error _ => { o with raised := 2 }
      | .ok s => withModel { o with eff_spawn := o.eff_spawn + 1, proc_new := true } s := by
  unfold Gen.Timer.init create
  by_cases h : timeout ≤ (Num.ofNat 0 : α)
  · simp only [h, if_true]
  · simp only [h, if_false]; rfl

theorem init_args_eq (a : ArgSpec) (vs : List Int) :
    Gen.Timer.init_args (pyArgs a) = normArgs a ∧ Gen.Timer.init_args (.tuple vs) = normArgs (.list vs) := by
  cases a <;> exact ⟨rfl, rfl⟩

theorem stop_eq (o : Gen.TimerObj α) (s : State α) :
    Gen.Timer.stop (withModel o s) s.now = withModel o (stopBody s) := rfl

theorem loopTest_eq (pid : Nat) (o : Gen.TimerObj α) (s : State α) :
    loopTest pid s = setStat s pid (statOf (Gen.Timer.run_start (withModel o s) s.now) s.now) ∧
    Gen.Timer.run_start (withModel o s) s.now = suspendedAs (withModel o s) (Gen.Timer.run_start (withModel o s) s.now) := by
  unfold loopTest Gen.Timer.run_start statOf suspendedAs withModel
  by_cases h : s.now < s.expire
  · simp only [h, if_true]; exact ⟨rfl, trivial⟩
  · simp only [h, if_false]; exact ⟨rfl, trivial⟩

/-! ### the callback: what `stop()` / `restart(τ)` calls from inside it leave untouched -/

theorem interruptReq_now {active : Option Nat} {pid : Nat} {s s2 : State α} (h : interruptReq active pid s = .ok s2) :
    s2.now = s.now := by
  unfold interruptReq at h
  split at h
  · cases h
  · cases h
  · split at h
    · cases h
    · cases h; rfl

theorem restartCall_now {active : Option Nat} {tau : α} {s s' : State α} (h : restartCall active tau s = .ok s') :
    s'.now = s.now := by
  unfold restartCall at h
  simp only at h
  split at h
  · cases h; rfl
  · split at h
    · cases h
    · split at h
      · split at h
        · rename_i s2 h2
          cases h
          exact (interruptReq_now h2 : s2.now = (rebase tau s).now)
        · cases h
      · cases h; rfl

theorem runCb_now {pid : Nat} : ∀ {cb : List (CbOp α)} {s s' : State α}, runCb pid cb s = .ok s' → s'.now = s.now
  | [], s, s', h => by cases h; rfl
  | op :: ops, s, s', h => by
    rw [runCb] at h
    split at h
    · rename_i s1 h1
      have h2 := runCb_now h
      cases op with
      | stop => cases h1; exact h2
      | restart tau => rw [h2]; exact restartCall_now h1
    · cases h

/-! ### `restart` -/

/-- what a `restart(τ)` that interrupts and respawns adds to the Python object -/
def respawned (o : Gen.TimerObj α) : Gen.TimerObj α :=
  { o with eff_interrupt := o.eff_interrupt + 1, intr_new := o.proc_new, eff_spawn := o.eff_spawn + 1, proc_new := true }

/-- `restart(τ)`, called while `active` is the active process, on a timer whose `self.proc` is the process `st` -/
theorem restart_eq (o : Gen.TimerObj α) (s : State α) (active : Option Nat) (tau : α) (st : PStat α)
    (hp : s.procs[s.proc]? = some st) :
    (active = some s.proc →
      restartCall active tau s = .ok (rebase tau s) ∧
      Gen.Timer.restart (withModel o s) s.now tau true st.alive = withModel o (rebase tau s)) ∧
    (active ≠ some s.proc → st.alive = false →
      restartCall active tau s = .ok (rebase tau s) ∧
      Gen.Timer.restart (withModel o s) s.now tau false false = withModel o (rebase tau s)) ∧
    (active ≠ some s.proc → st.alive = true →
      restartCall active tau s = .ok (spawn { rebase tau s with uq := s.uq ++ [.intr s.proc] }) ∧
      Gen.Timer.restart (withModel o s) s.now tau false true =
        withModel (respawned o) (spawn { rebase tau s with uq := s.uq ++ [.intr s.proc] })) := by
  have hp' : (rebase tau s).procs[(rebase tau s).proc]? = some st := hp
  refine ⟨fun ha => ⟨?_, rfl⟩, fun ha hd => ⟨?_, rfl⟩, fun ha hl => ⟨?_, rfl⟩⟩
  · unfold restartCall
    simp only
    rw [if_pos (show active = some (rebase tau s).proc from ha)]
  · unfold restartCall
    simp only
    rw [if_neg (show ¬ active = some (rebase tau s).proc from ha), hp']
    simp only [hd, Bool.false_eq_true, if_false]
  · unfold restartCall
    simp only
    rw [if_neg (show ¬ active = some (rebase tau s).proc from ha), hp']
    simp only [hl, if_true]
    have hi : interruptReq active (rebase tau s).proc (rebase tau s) =
        .ok { rebase tau s with uq := s.uq ++ [.intr s.proc] } := by
      unfold interruptReq
      rw [hp']
      cases st with
      | finished => cases hl
      | notStarted => simp only; rw [if_neg (show ¬ active = some (rebase tau s).proc from ha)]; rfl
      | sleeping w => simp only; rw [if_neg (show ¬ active = some (rebase tau s).proc from ha)]; rfl
    rw [hi]

/-! ### one turn of `run` -/

/-- a stopped timer: the callback is not invoked (whatever it would do), the loop test decides -/
theorem wake_stopped_eq (pid : Nat) (o : Gen.TimerObj α) (s : State α) (f : Gen.TimerObj α → Gen.TimerObj α)
    (hs : s.stopped = true) :
    wakeBody pid [] s = .ok (setStat s pid (statOf (Gen.Timer.run_wake (withModel o s) s.now f) s.now)) [] ∧
    Gen.Timer.run_wake (withModel o s) s.now f = suspendedAs (withModel o s) (Gen.Timer.run_wake (withModel o s) s.now f) := by
  have hg : Gen.Timer.run_wake (withModel o s) s.now f = Gen.Timer.run_start (withModel o s) s.now := by
    unfold Gen.Timer.run_wake Gen.Timer.run_start withModel
    simp only [hs, not_true_eq_false, if_false]
  rw [hg]
  obtain ⟨h1, h2⟩ := loopTest_eq pid o s
  refine ⟨?_, h2⟩
  unfold wakeBody
  simp only [hs, if_true, List.isEmpty_nil]
  rw [h1]

/-- `if self.auto_restart: self.expire_time = env.now + self.timeout` on the Python object -/
def autoG (now : α) (x : Gen.TimerObj α) : Gen.TimerObj α :=
  if x.auto_restart = true then { x with expire_time := now + x.timeout } else x

theorem run_wake_running (g : Gen.TimerObj α) (now : α) (f : Gen.TimerObj α → Gen.TimerObj α) (h : g.stopped = false) :
    Gen.Timer.run_wake g now f =
      if now < (autoG now (f { g with yield_at := 0, yield_dt := Num.ofNat 0, eff_callback := g.eff_callback + 1 })).expire_time then
        { autoG now (f { g with yield_at := 0, yield_dt := Num.ofNat 0, eff_callback := g.eff_callback + 1 }) with
          yield_at := 1,
          yield_dt := (autoG now (f { g with yield_at := 0, yield_dt := Num.ofNat 0, eff_callback := g.eff_callback + 1 })).expire_time - now }
      else autoG now (f { g with yield_at := 0, yield_dt := Num.ofNat 0, eff_callback := g.eff_callback + 1 }) := by
  obtain ⟨a1, a2, a3, a4, st, a6, a7, a8, a9, a10, a11, a12, a13⟩ := g
  simp only at h
  subst h
  unfold Gen.Timer.run_wake autoG
  simp only [Bool.false_eq_true, not_false_eq_true, if_true]

theorem autoG_withModel (o : Gen.TimerObj α) (s : State α) : autoG s.now (withModel o s) = withModel o (autoRebase s) := by
  unfold autoG autoRebase
  cases ha : s.auto with
  | false =>
    have : (withModel o s).auto_restart = false := ha
    simp only [this, Bool.false_eq_true, if_false]
  | true =>
    have : (withModel o s).auto_restart = true := ha
    simp only [this, if_true]
    rfl

/-- a running timer: the callback is invoked once — `cb` in the model, `f` on the Python object, doing the same to the timer
and leaving the generator's own bookkeeping alone (`o'.yield_at = 0`) —, then the auto-restart re-base, then the loop test -/
theorem wake_running_eq (pid : Nat) (o o' : Gen.TimerObj α) (s s' : State α) (cb : List (CbOp α))
    (f : Gen.TimerObj α → Gen.TimerObj α) (hs : s.stopped = false) (hcb : runCb pid cb s = .ok s')
    (hf : f (withModel { o with yield_at := 0, yield_dt := Num.ofNat 0, eff_callback := o.eff_callback + 1 } s) = withModel o' s')
    (ho : o'.yield_at = 0) :
    wakeBody pid cb s =
      .ok (setStat (autoRebase s') pid (statOf (Gen.Timer.run_wake (withModel o s) s.now f) s.now)) [.fire s.now s.args] ∧
    Gen.Timer.run_wake (withModel o s) s.now f =
      suspendedAs (withModel o' (autoRebase s')) (Gen.Timer.run_wake (withModel o s) s.now f) := by
  have hnow : s'.now = s.now := runCb_now hcb
  have hnow' : (autoRebase s').now = s.now := by unfold autoRebase; split <;> exact hnow
  have hf' : f { withModel o s with yield_at := 0, yield_dt := Num.ofNat 0, eff_callback := (withModel o s).eff_callback + 1 } =
      withModel o' s' := hf
  rw [run_wake_running (withModel o s) s.now f hs, hf', ← hnow, autoG_withModel o' s']
  unfold wakeBody
  simp only [hs, Bool.false_eq_true, if_false, hcb]
  unfold loopTest statOf suspendedAs
  rw [hnow', hnow]
  by_cases h : s.now < (autoRebase s').expire
  · have h' : s.now < (withModel o' (autoRebase s')).expire_time := h
    simp only [h, h', if_true]
    exact ⟨rfl, trivial⟩
  · have h' : ¬ s.now < (withModel o' (autoRebase s')).expire_time := h
    have h0 : (withModel o' (autoRebase s')).yield_at = 0 := ho
    simp only [h, h', if_false]
    refine ⟨?_, trivial⟩
    rw [if_pos h0]

end GenTimer19
