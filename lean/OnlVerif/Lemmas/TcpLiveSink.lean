import OnlVerif.Lemmas.TcpSink
/-!
# Sink facts used by the liveness results of C16

* ranges stay non-empty when every arriving packet is non-empty;
* with MSS-sized, MSS-aligned arrivals, coverage is constant on MSS blocks and the contiguous prefix is aligned;
* a sorted non-touching buffer of non-empty ranges that covers exactly `[0, n)` is `[(0, n)]`.
-/

namespace TcpSink

theorem mergeFrom_nonempty (rest : List Range) : ∀ (cur : Range), cur.1 < cur.2 → (∀ r ∈ rest, r.1 < r.2) →
    ∀ x ∈ mergeFrom cur rest, x.1 < x.2 := by
  induction rest with
  | nil => intro cur h _ x hx; simp [mergeFrom] at hx; subst hx; exact h
  | cons r rest ih =>
    intro cur h1 h2 x hx
    unfold mergeFrom at hx
    split at hx
    · exact ih (cur.1, max cur.2 r.2) (Nat.lt_of_lt_of_le h1 (Nat.le_max_left _ _))
        (fun y hy => h2 y (List.mem_cons_of_mem _ hy)) x hx
    · rcases List.mem_cons.mp hx with rfl | hx
      · exact h1
      · exact ih r (h2 r List.mem_cons_self) (fun y hy => h2 y (List.mem_cons_of_mem _ hy)) x hx

theorem packetArrived_nonempty (buf : List Range) (seq size : Nat) (h : ∀ r ∈ buf, r.1 < r.2) (hs : 0 < size) :
    ∀ r ∈ packetArrived buf seq size, r.1 < r.2 := by
  have hall : ∀ r ∈ sortR (buf ++ [(seq, seq + size)]), r.1 < r.2 := by
    intro r hr
    rcases List.mem_append.mp ((mem_sortR r _).mp hr) with h1 | h1
    · exact h r h1
    · simp at h1; subst h1; show seq < seq + size; omega
  unfold packetArrived
  cases hl : sortR (buf ++ [(seq, seq + size)]) with
  | nil => intro r hr; simp [mergeAll] at hr
  | cons c rest =>
    rw [hl] at hall
    exact mergeFrom_nonempty rest c (hall c List.mem_cons_self) (fun y hy => hall y (List.mem_cons_of_mem _ hy))

/-- the bytes of the block `[m·k, m·k + m)` are those with quotient `k` -/
theorem block_iff {m : Nat} (hm : 0 < m) (k b : Nat) : (m * k ≤ b ∧ b < m * k + m) ↔ b / m = k := by
  constructor
  · rintro ⟨h1, h2⟩
    apply Nat.le_antisymm
    · have : b < (k + 1) * m := by rw [Nat.add_mul, Nat.one_mul, Nat.mul_comm]; exact h2
      exact Nat.le_of_lt_succ ((Nat.div_lt_iff_lt_mul hm).mpr this)
    · exact (Nat.le_div_iff_mul_le hm).mpr (by rw [Nat.mul_comm]; exact h1)
  · rintro rfl
    have h1 := Nat.div_add_mod b m
    have h2 := Nat.mod_lt b hm
    constructor <;> omega

/-- coverage constant on MSS blocks is kept by an aligned MSS-sized arrival -/
theorem block_const_arrival {m : Nat} (hm : 0 < m) (buf buf' : List Range) (k : Nat)
    (hal : ∀ b, Covers buf b ↔ Covers buf (m * (b / m)))
    (hcov : ∀ b, Covers buf' b ↔ Covers buf b ∨ (m * k ≤ b ∧ b < m * k + m)) :
    ∀ b, Covers buf' b ↔ Covers buf' (m * (b / m)) := by
  intro b
  rw [hcov b, hcov (m * (b / m)), block_iff hm, block_iff hm, Nat.mul_div_cancel_left _ hm, ← hal b]

/-- with coverage constant on MSS blocks the contiguous prefix is a multiple of the MSS -/
theorem prefix_aligned {m : Nat} (_hm : 0 < m) (buf : List Range) (hal : ∀ b, Covers buf b ↔ Covers buf (m * (b / m)))
    (p : Nat) (hp : IsPrefix buf p) : m ∣ p := by
  by_cases he : m * (p / m) = p
  · exact ⟨p / m, he.symm⟩
  · exfalso
    have hle : m * (p / m) ≤ p := Nat.mul_div_le p m
    have hlt : m * (p / m) < p := Nat.lt_of_le_of_ne hle he
    exact hp.2 ((hal p).mpr (hp.1 _ hlt))

/-- a sorted, non-touching buffer of non-empty ranges covering exactly the bytes below `n > 0` is the single range
`[0, n)` -/
theorem eq_single_of_covers (L : List Range) (n : Nat) (hn : 0 < n) (hs : Sep L) (hne : ∀ r ∈ L, r.1 < r.2)
    (hc : ∀ b, Covers L b ↔ b < n) : L = [(0, n)] := by
  cases L with
  | nil => exact absurd ((hc 0).mpr hn) (covers_nil 0)
  | cons r rest =>
    have hp := List.pairwise_cons.mp hs.2
    have hr := hne r List.mem_cons_self
    have h0 : r.1 = 0 := by
      obtain ⟨x, hx, hx1, hx2⟩ := (hc 0).mpr hn
      rcases List.mem_cons.mp hx with rfl | hx
      · omega
      · have := hp.1 x hx; omega
    have hle : r.2 ≤ n := by
      have : Covers (r :: rest) (r.2 - 1) := ⟨r, List.mem_cons_self, by omega, by omega⟩
      have := (hc _).mp this
      omega
    have hge : n ≤ r.2 := by
      by_contra hlt
      obtain ⟨x, hx, hx1, hx2⟩ := (hc r.2).mpr (Nat.lt_of_not_le hlt)
      rcases List.mem_cons.mp hx with rfl | hx
      · omega
      · have := hp.1 x hx; omega
    have hrest : rest = [] := by
      cases rest with
      | nil => rfl
      | cons x xs =>
        exfalso
        have hx := hne x (List.mem_cons_of_mem _ List.mem_cons_self)
        have : Covers (r :: x :: xs) x.1 := ⟨x, List.mem_cons_of_mem _ List.mem_cons_self, Nat.le_refl _, hx⟩
        have h1 := (hc _).mp this
        have h2 := hp.1 x List.mem_cons_self
        omega
    subst hrest
    have : r = (0, n) := Prod.ext h0 (Nat.le_antisymm hle hge)
    rw [this]

end TcpSink
