import OnlVerif.Lemmas.TRKFinal
import OnlVerif.Lemmas.Fifo
import OnlVerif.Lemmas.PortKAbsStep
/-!
# The two-rate token bucket on the kernel model: every configuration step is accepted by the FifoServer LTS of the shaper

`toF a now lg` is the LTS state (`Net/Fifo.lean` with `TwoRate.dev`) a configuration stands for, with `lg` in the
ghost field of the device state (`log`: written by the LTS for its own theorems, read by no decision).  For each
constructor of `AStep` the LTS accepts the corresponding action (`init`, `put`, `handoff`, `resume`, `fire`, or nothing)
from `toF a` to `toF a'`, whatever the ghost values; and the clock advance is an accepted `tick`.
-/

set_option linter.unusedSimpArgs false

namespace TRK
open TwoRateOnK QEntry

variable {size : Int → Nat} {cfg : TrCfg ℚ}
variable {a : A} {now : ℚ} {q : QEntry ℚ} {n e : Nat}

/-- **the LTS state a configuration stands for** -/
def toF (size : Int → Nat) (a : A) (now : ℚ) (lg : List (ℚ × Nat × Nat)) : FState ℚ (TrSt ℚ) :=
  { now := now
    dev := { commit := a.commit, peak := a.peak, upd := a.upd, received := a.cts.length, sent := a.sent.toNat, log := lg }
    items := a.items.map (pktOf size)
    getPending := match a.run with | .W _ _ => true | _ => false
    handed := match a.run with | .H _ id _ _ => some (pktOf size id) | _ => none
    tx := match a.run with
      | .T1 _ id q => some (pktOf size id, q.time, 0)
      | _ => none
    started := match a.run with | .init _ => false | _ => true }

/-- what the LTS side of a configuration step delivers: from every ghost value, an accepted action sequence into the new
configuration's LTS state with some ghost value, with the packets that entered and left -/
def LtsOK (size : Int → Nat) (cfg : TrCfg ℚ) (a : A) (t : ℚ) (a' : A) (ins outs : List Nat) : Prop :=
  ∀ lg, ∃ lg' acts, Fifo.runActs (TwoRate.dev cfg) (toF size a t lg) acts = .ok (toF size a' t lg', ins, outs)

theorem ltsOK_nothing {a' : A} {t : ℚ} (h : ∀ lg, toF size a' t lg = toF size a t lg) :
    LtsOK size cfg a t a' [] [] := by
  intro lg
  exact ⟨lg, [], by rw [h]; rfl⟩

theorem ltsOK_one {a' : A} {t : ℚ} (act : FAct ℚ) (ins outs : List Nat)
    (h : ∀ lg, ∃ lg' o, Fifo.step (TwoRate.dev cfg) (toF size a t lg) act = .ok (toF size a' t lg', o) ∧
      Fifo.entered act o = ins ∧ Fifo.left o = outs) : LtsOK size cfg a t a' ins outs := by
  intro lg
  obtain ⟨lg', o, h1, h2, h3⟩ := h lg
  refine ⟨lg', [act], ?_⟩
  simp only [Fifo.runActs, h1, h2, h3, List.append_nil]

/-- the ids of the packets put / sent out in a step -/
def putIds : List (HEv ℚ) → List Nat
  | [] => []
  | .put id _ :: r => id.toNat :: putIds r
  | _ :: r => putIds r

def outIds : List (HEv ℚ) → List Nat
  | [] => []
  | .out id _ _ :: r => id.toNat :: outIds r
  | _ :: r => outIds r

theorem putIds_append (l1 l2 : List (HEv ℚ)) : putIds (l1 ++ l2) = putIds l1 ++ putIds l2 := by
  induction l1 with
  | nil => rfl
  | cons x r ih => cases x <;> simp [putIds, ih]

theorem outIds_append (l1 l2 : List (HEv ℚ)) : outIds (l1 ++ l2) = outIds l1 ++ outIds l2 := by
  induction l1 with
  | nil => rfl
  | cons x r ih => cases x <;> simp [outIds, ih]

/-- **the decision of the K program is the LTS's `onResume`** -/
theorem onResume_verdict (d : TrSt ℚ) (now x y : ℚ) (p : Pkt ℚ) :
    match verdict cfg d.commit d.peak d.upd now p with
    | .ok (.wait dt cm pk) => TwoRate.onResume cfg d now x y p = (TwoRate.setLevels d cm pk now, p, .wait dt)
    | .ok (.emit col cm pk) =>
      TwoRate.onResume cfg d now x y p =
        (TwoRate.logDebit (TwoRate.setLevels d cm pk now) now p col, TwoRate.paint p col, .emit)
    | .error _ => True := by
  unfold verdict TwoRate.onResume
  cases hk : TwoRate.pirOn cfg with
  | none =>
    simp only [TwoRate.resumeCir]
    by_cases h1 : TwoRate.refillLevel cfg.cbs d.commit cfg.cir d.upd now < Num.ofNat p.size
    · simp only [if_pos h1]
    · simp only [if_neg h1]; rfl
  | some k =>
    simp only
    cases hb : TwoRate.pbsOn cfg with
    | none => trivial
    | some b =>
      cases hpl : d.peak with
      | none => trivial
      | some pl =>
        simp only [TwoRate.resumePir]
        by_cases h1 : TwoRate.refillLevel b pl k d.upd now < Num.ofNat p.size
        · simp only [if_pos h1]
        · simp only [if_neg h1]
          by_cases h2 : TwoRate.refillLevel cfg.cbs d.commit cfg.cir d.upd now < Num.ofNat p.size
          · simp only [if_pos h2]; rfl
          · simp only [if_neg h2]; rfl

theorem onFire_afterWait (d : TrSt ℚ) (now : ℚ) (k : Nat) (p : Pkt ℚ) :
    TwoRate.onFire cfg d now k p =
      (TwoRate.logDebit (TwoRate.setLevels d (afterWait cfg d.commit d.peak).2.1 (afterWait cfg d.commit d.peak).2.2 now) now p
        (afterWait cfg d.commit d.peak).1, TwoRate.paint p (afterWait cfg d.commit d.peak).1, .emit) := by
  unfold TwoRate.onFire afterWait
  cases TwoRate.pirOn cfg <;> rfl

/-- **every configuration step is accepted by the LTS of the shaper**, whatever the ghost value -/
theorem lts_step {a' : A} {new : List (HEv ℚ)} (hi : AInv cfg a q.time) (hsent : 0 ≤ a.sent)
    (hs : AStep size cfg n e a q a' new) : LtsOK size cfg a q.time a' (putIds new) (outIds new) := by
  have hrun := hi.run
  have hsn : (a.sent + 1).toNat = a.sent.toNat + 1 := by omega
  cases hs with
  | runInit h =>
    rw [h] at hrun
    refine ltsOK_one .init [] [] (fun lg => ⟨lg, .nothing, ?_, rfl, rfl⟩)
    simp [Fifo.step, toF, h, hrun.2.2.1, Fifo.issueGet]
  | serveWait g id t0 dt cm pk h hdec =>
    refine ltsOK_one (.resume 0 0) [] [] (fun lg => ⟨lg, .nothing, ?_, rfl, rfl⟩)
    have := onResume_verdict (cfg := cfg)
      ({ commit := a.commit, peak := a.peak, upd := a.upd, received := a.cts.length, sent := a.sent.toNat, log := lg } : TrSt ℚ)
      q.time 0 0 (pktOf size id)
    unfold verdictA at hdec
    simp only [hdec] at this
    simp only [Fifo.step, toF, h, TwoRate.dev, this]
    simp [Fifo.proceed, TwoRate.setLevels]
  | serveOutMiss g id t0 cm col pk h hdec hit =>
    refine ltsOK_one (.resume 0 0) [] [id.toNat]
      (fun lg => ⟨(q.time, size id, col) :: lg, .depart (TwoRate.paint (pktOf size id) col), ?_, rfl, rfl⟩)
    have := onResume_verdict (cfg := cfg)
      ({ commit := a.commit, peak := a.peak, upd := a.upd, received := a.cts.length, sent := a.sent.toNat, log := lg } : TrSt ℚ)
      q.time 0 0 (pktOf size id)
    unfold verdictA at hdec
    simp only [hdec] at this
    simp only [Fifo.step, toF, h, TwoRate.dev, this]
    simp [Fifo.proceed, TwoRate.setLevels, TwoRate.logDebit, TwoRate.onDone, Fifo.issueGet, hit, hsn, pktOf]
  | serveOutHit g id t0 cm col pk i is h hdec hit =>
    refine ltsOK_one (.resume 0 0) [] [id.toNat]
      (fun lg => ⟨(q.time, size id, col) :: lg, .depart (TwoRate.paint (pktOf size id) col), ?_, rfl, rfl⟩)
    have := onResume_verdict (cfg := cfg)
      ({ commit := a.commit, peak := a.peak, upd := a.upd, received := a.cts.length, sent := a.sent.toNat, log := lg } : TrSt ℚ)
      q.time 0 0 (pktOf size id)
    unfold verdictA at hdec
    simp only [hdec] at this
    simp only [Fifo.step, toF, h, TwoRate.dev, this]
    simp [Fifo.proceed, TwoRate.setLevels, TwoRate.logDebit, TwoRate.onDone, Fifo.issueGet, hit, hsn, pktOf]
  | tokOutMiss t id h hit =>
    refine ltsOK_one .fire [] [id.toNat]
      (fun lg => ⟨(q.time, size id, (afterWait cfg a.commit a.peak).1) :: lg,
        .depart (TwoRate.paint (pktOf size id) (afterWait cfg a.commit a.peak).1), ?_, rfl, rfl⟩)
    simp only [Fifo.step, toF, h, TwoRate.dev, onFire_afterWait, lt_irrefl, if_false]
    simp [Fifo.proceed, TwoRate.setLevels, TwoRate.logDebit, TwoRate.onDone, Fifo.issueGet, hit, hsn, pktOf]
  | tokOutHit t id i is h hit =>
    refine ltsOK_one .fire [] [id.toNat]
      (fun lg => ⟨(q.time, size id, (afterWait cfg a.commit a.peak).1) :: lg,
        .depart (TwoRate.paint (pktOf size id) (afterWait cfg a.commit a.peak).1), ?_, rfl, rfl⟩)
    simp only [Fifo.step, toF, h, TwoRate.dev, onFire_afterWait, lt_irrefl, if_false]
    simp [Fifo.proceed, TwoRate.setLevels, TwoRate.logDebit, TwoRate.onDone, Fifo.issueGet, hit, hsn, pktOf]
  | srcInit arr h => exact ltsOK_nothing (fun _ => rfl)
  | srcPut next arr h =>
    refine ltsOK_one (.put (pktOf size (next : Int))) [next] [] (fun lg => ⟨lg, .accepted, ?_, by simp [Fifo.entered, pktOf], rfl⟩)
    simp [Fifo.step, toF, TwoRate.dev, TwoRate.admitPkt]
  | srcEnd h => exact ltsOK_nothing (fun _ => rfl)
  | pendNoop l1 l2 hpe hno => exact ltsOK_nothing (fun _ => rfl)
  | pendHand g t0 i is l1 l2 hpe h hit =>
    refine ltsOK_one .handoff [] [] (fun lg => ⟨lg, .nothing, ?_, rfl, rfl⟩)
    simp [Fifo.step, toF, h, hit]

theorem sent_step {a' : A} {new : List (HEv ℚ)} (h : 0 ≤ a.sent) (hs : AStep size cfg n e a q a' new) : 0 ≤ a'.sent := by
  cases hs <;> first | exact h | (show 0 ≤ a.sent + 1; omega)

/-! ## the clock -/

/-- the LTS accepts the clock advance to the next entry, whatever the ghost values -/
theorem lts_tick (hi : AInv cfg a now) (hq : IsMin a q) (h : now < q.time) (lg : List (ℚ × Nat × Nat)) :
    Fifo.step (TwoRate.dev cfg) (toF size a now lg) (.tick q.time) = .ok (toF size a q.time lg, .nothing) := by
  have hne : ∀ x ∈ a.entries, x.time ≠ now := fun x hx hxt => absurd (hi.time_eq hq hx hxt) (ne_of_gt h)
  have hp := hi.run
  have hnlt : ¬ q.time < now := not_lt.mpr (le_of_lt h)
  cases hr : a.run with
  | init q0 => rw [hr] at hp; exact absurd hp.1 (hne q0 (mem_run (by simp [hr, RPhase.entries])))
  | H g id q0 t0 => rw [hr] at hp; exact absurd hp.1 (hne q0 (mem_run (by simp [hr, RPhase.entries])))
  | T1 t id q0 =>
    have h2 : ¬ q0.time < q.time := not_lt.mpr (not_keyLt_time (hq.2 q0 (mem_run (by simp [hr, RPhase.entries]))))
    simp [Fifo.step, toF, hr, hnlt, h2]
  | W g t0 =>
    rw [hr] at hp
    have hit : a.items = [] := by
      by_contra hc
      have hpn := hp.2.2 hc
      cases hpe : a.pend with
      | nil => exact hpn hpe
      | cons u r => exact hne u (mem_pend (by rw [hpe]; simp)) (hi.pend u (by rw [hpe]; simp)).1
    simp [Fifo.step, toF, hr, hnlt, hit]

/-- zero or one `tick` brings the LTS to the instant of the next entry -/
theorem lts_advance (hi : AInv cfg a now) (hq : IsMin a q) (lg : List (ℚ × Nat × Nat)) :
    ∃ acts, Fifo.runActs (TwoRate.dev cfg) (toF size a now lg) acts = .ok (toF size a q.time lg, [], []) := by
  rcases eq_or_lt_of_le (hi.now_le hq) with h | h
  · exact ⟨[], by rw [← h]; rfl⟩
  · refine ⟨[.tick q.time], ?_⟩
    simp [Fifo.runActs, lts_tick hi hq h lg, Fifo.entered, Fifo.left]

/-! ## runs -/

variable {arrivals : List ℚ} {s : KS} {rest : List (QEntry ℚ)}

/-- **one kernel step**: it is `.ok`, keeps the invariant, and is a sequence of actions the LTS accepts from `toF a` to
`toF a'`, whatever the ghost values, in which the packets that entered / left are those the kernel step reports -/
theorem inv_step_lts (fuel : Nat) (h : Inv3 size cfg arrivals s a) (hsent : 0 ≤ a.sent) (hp : popMin s.agenda = some (q, rest)) :
    ∃ s' a' new, step (body size cfg) (fuel + 1) s = .ok s' ∧ Inv3 size cfg arrivals s' a' ∧ 0 ≤ a'.sent ∧
      histOf s'.trace = histOf s.trace ++ new ∧
      ∀ lg, ∃ lg' acts, Fifo.runActs (TwoRate.dev cfg) (toF size a s.now lg) acts =
        .ok (toF size a' s'.now lg', putIds new, outIds new) := by
  obtain ⟨s', a', new, h1, h2, -, h4, h5, h6⟩ := inv3_step fuel h hp
  have hmin := (isMin_of_pop h.i.k hp).1
  have g3 := lts_step (h.i.a.advance hmin) hsent h4
  refine ⟨s', a', new, h1, h2, sent_step hsent h4, h6, ?_⟩
  intro lg
  obtain ⟨acts0, h0⟩ := lts_advance (size := size) h.i.a hmin lg
  obtain ⟨lg', acts, h7⟩ := g3 lg
  refine ⟨lg', acts0 ++ acts, ?_⟩
  rw [h5]
  have := PortK.runActs_append _ _ _ _ _ _ _ _ _ _ h0 h7
  simpa using this

theorem toF_a0 (arrivals : List ℚ) :
    toF size (a0 cfg arrivals) 0 [] = Fifo.init (TwoRate.st0 cfg) 0 := by
  simp [toF, a0, Fifo.init, TwoRate.st0, zero_eq']

/-- **every state reachable by kernel steps is a sound configuration, and the run so far is an admissible run of the
shaper's LTS** from its initial state to the configuration's LTS state (with some ghost values), in which the packets that
entered are those handed to `put` and the packets that left are those handed to `out.put`, in order -/
theorem reach_lts (fuel : Nat) (hg : GapsOK arrivals) (hgood : TwoRate.Good cfg)
    (h : KReach (body size cfg) (fuel + 1) (initState cfg arrivals) s) :
    ∃ a acts lg, Inv3 size cfg arrivals s a ∧ 0 ≤ a.sent ∧
      Fifo.runActs (TwoRate.dev cfg) (Fifo.init (TwoRate.st0 cfg) 0) acts =
        .ok (toF size a s.now lg, putIds (histOf s.trace), outIds (histOf s.trace)) := by
  induction h with
  | init =>
    refine ⟨a0 cfg arrivals, [], [], inv3_init hg hgood, le_refl _, ?_⟩
    rw [initState_now, initState_trace, toF_a0]
    rfl
  | @step s s' _ hs ih =>
    obtain ⟨a, acts, lg, hi, hsent, hrun⟩ := ih
    cases hp : popMin s.agenda with
    | none => simp [step, hp, StepResult.state?] at hs
    | some qr =>
      obtain ⟨q, rest⟩ := qr
      obtain ⟨s'', a', new, h1, h2, h3, h4, h5⟩ := inv_step_lts fuel hi hsent hp
      rw [h1] at hs
      simp only [StepResult.state?, Option.some.injEq] at hs
      subst hs
      obtain ⟨lg', acts', h7⟩ := h5 lg
      refine ⟨a', acts ++ acts', lg', h2, h3, ?_⟩
      have := PortK.runActs_append _ _ _ _ _ _ _ _ _ _ hrun h7
      rw [this, h4, putIds_append, outIds_append]

end TRK
