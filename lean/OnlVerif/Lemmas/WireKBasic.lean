import OnlVerif.Lemmas.WireKDefs
import OnlVerif.Lemmas.TimerKAttr
/-!
# The Wire on the kernel model: what each kernel operation of the program does

Every lemma rewrites an operation applied to an arbitrary state `s` into `{ s with … }` with explicit fields, under
the local facts the operation reads (the store record, the process record, the attribute cell).  The generic part
(association lists, `resume`/`step` without duplicated sub-terms) is shared with the Timer (`TimerKBasic.lean`).
-/

set_option linter.unusedSimpArgs false

namespace WireK
open WireOnK
open TimerK (lookup plookup afterBurst resume_eq step_eq)

theorem getD0_set (a : Array ResRec) (x : ResRec) (h : 0 < a.size) : (a.setIfInBounds 0 x).getD 0 default = x := by
  rw [getD_setIfInBounds]; simp [h]

@[simp] theorem isStoreKind_store : isStoreKind .store = true := rfl
@[simp] theorem isPrioKind_store : isPrioKind .store = false := rfl
@[simp] theorem store_beq_preemptive : (ResKind.store == ResKind.preemptive) = false := rfl
@[simp] theorem store_beq_fstore : (ResKind.store == ResKind.fstore) = false := rfl

theorem doCall_load (s : KS) (self : EvId) (k : Nat) : doCall s self (.load k) = (s, .val (lookup s.shared k)) := rfl

theorem doCall_store (s : KS) (self : EvId) (k : Nat) (v : Val) :
    doCall s self (.store k v) = ({ s with shared := (k, v) :: s.shared.filter (·.1 != k) }, .unit) := rfl

theorem doCall_log (s : KS) (self : EvId) (what : String) (i : Int) :
    doCall s self (.log what (.int i)) = ({ s with trace := s.trace.push (.log self what (.int i) s.now) }, .unit) := rfl

theorem doCall_timeout (s : KS) (self : EvId) (d : ℚ) (v : Val) (hd : 0 ≤ d) :
    doCall s self (.timeout d v) =
      ({ s with
          events := s.events.push { kind := .timeout, cbs := some [], out := some (.ok v), label := s.nlabel + 1 }
          nlabel := s.nlabel + 1
          agenda := { time := s.now + d, prio := NORMAL, eid := s.eid, ev := s.events.size } :: s.agenda
          eid := s.eid + 1 }, .ev s.events.size) := by
  have : ¬ d < Num.zero := by rw [zero_eq']; exact not_lt.mpr hd
  simp [doCall, this, KState.newLabelled, KState.schedule]

theorem doCall_sput (s : KS) (self : EvId) (item : Int) (hsz : 0 < s.resources.size)
    (hk : (s.res 0).kind = .store) (hc : (s.res 0).capacity = none) (hq : (s.res 0).putQ = []) :
    doCall s self (.sput 0 item) =
      ({ s with
          events := s.events.push { kind := .put 0, cbs := some [.trigGet 0], out := some (.ok .none), label := s.nlabel + 1,
                                     req := some { res := 0, item := item, time := s.now, proc := s.active } }
          nlabel := s.nlabel + 1
          resources := s.resources.setIfInBounds 0 { s.res 0 with items := (s.res 0).items ++ [item] }
          agenda := { time := s.now, prio := NORMAL, eid := s.eid, ev := s.events.size } :: s.agenda
          eid := s.eid + 1 }, .ev s.events.size) := by
  rcases hrr : s.resources.getD 0 default with ⟨k, c, pq, gq, us, lv, its⟩
  simp only [KState.res, hrr] at hk hc hq
  subst hk hc hq
  simp [doCall, hrr, mkPut, KState.newLabelled, enqPut, KState.setPutQ, KState.setRes, KState.res,
    triggerPut, scanPut, doPut, prePut, canPut, hasRoom, applyPut, KState.setItems, KState.trigger, KState.setOut, KState.schedule,
    KState.setEv, KState.ev, reqOf, KState.triggered, dropPutQ, getD0_set, hsz, getD_push, getD_setIfInBounds, zero_eq', TimerK.push_setIfInBounds_size]

theorem doCall_sget_miss (s : KS) (self : EvId) (hsz : 0 < s.resources.size)
    (hk : (s.res 0).kind = .store) (hq : (s.res 0).getQ = []) (hi : (s.res 0).items = []) :
    doCall s self (.sget 0 0) =
      ({ s with
          events := s.events.push { kind := .get 0, cbs := some [.trigPut 0], out := none, label := s.nlabel + 1,
                                     req := some { res := 0, time := s.now, proc := s.active } }
          nlabel := s.nlabel + 1
          resources := s.resources.setIfInBounds 0 { s.res 0 with getQ := [s.events.size] } }, .ev s.events.size) := by
  rcases hrr : s.resources.getD 0 default with ⟨k, c, pq, gq, us, lv, its⟩
  simp only [KState.res, hrr] at hk hq hi
  subst hk hq hi
  simp [doCall, hrr, mkGet, KState.newLabelled, enqGet, KState.setGetQ, KState.setRes, KState.res,
    triggerGet, scanGet, doGet, getItem, KState.triggered, KState.ev, getD0_set, hsz, getD_push]

theorem doCall_sget_hit (s : KS) (self : EvId) (hsz : 0 < s.resources.size)
    (hk : (s.res 0).kind = .store) (hq : (s.res 0).getQ = []) (hi : (s.res 0).items ≠ []) :
    doCall s self (.sget 0 0) =
      ({ s with
          events := s.events.push { kind := .get 0, cbs := some [.trigPut 0], out := some (.ok (.int ((s.res 0).items.headD 0))),
                                     label := s.nlabel + 1, req := some { res := 0, time := s.now, proc := s.active } }
          nlabel := s.nlabel + 1
          resources := s.resources.setIfInBounds 0 { s.res 0 with items := (s.res 0).items.tail }
          agenda := { time := s.now, prio := NORMAL, eid := s.eid, ev := s.events.size } :: s.agenda
          eid := s.eid + 1 }, .ev s.events.size) := by
  rcases hrr : s.resources.getD 0 default with ⟨k, c, pq, gq, us, lv, its⟩
  simp only [KState.res, hrr] at hk hq hi
  subst hk hq
  cases its with
  | nil => exact absurd rfl hi
  | cons i is =>
  simp [doCall, hrr, mkGet, KState.newLabelled, enqGet, KState.setGetQ, KState.setRes, KState.res,
    triggerGet, scanGet, doGet, getItem, takeOut, KState.setItems, KState.trigger, KState.setOut, KState.schedule,
    KState.setEv, KState.triggered, KState.ev, dropGetQ, getD0_set, hsz, getD_push, getD_setIfInBounds, zero_eq', TimerK.push_setIfInBounds_size]

theorem triggerPut_none (s : KS) (hq : (s.res 0).putQ = []) : triggerPut s 0 = s := by
  simp [triggerPut, hq, scanPut]

theorem triggerGet_none (s : KS) (hq : (s.res 0).getQ = []) : triggerGet s 0 = s := by
  simp [triggerGet, hq, scanGet]

theorem triggerGet_empty (s : KS) (g : EvId) (hk : (s.res 0).kind = .store) (hq : (s.res 0).getQ = [g])
    (hi : (s.res 0).items = []) (hg : (s.ev g).out = none) : triggerGet s 0 = s := by
  simp [triggerGet, hq, scanGet, doGet, getItem, hk, hi, KState.triggered, hg]

theorem triggerGet_hand (s : KS) (g : EvId) (i : Int) (is : List Int) (hsz : 0 < s.resources.size)
    (hgs : g < s.events.size)
    (hk : (s.res 0).kind = .store) (hq : (s.res 0).getQ = [g]) (hi : (s.res 0).items = i :: is) :
    triggerGet s 0 =
      { s with
          events := s.events.setIfInBounds g { s.ev g with out := some (.ok (.int i)) }
          resources := s.resources.setIfInBounds 0 { s.res 0 with items := is, getQ := [] }
          agenda := { time := s.now, prio := NORMAL, eid := s.eid, ev := g } :: s.agenda
          eid := s.eid + 1 } := by
  rcases hrr : s.resources.getD 0 default with ⟨k, c, pq, gq, us, lv, its⟩
  simp only [KState.res, hrr] at hk hq hi
  subst hk hq hi
  simp [hrr, KState.setGetQ, KState.setRes, KState.res,
    triggerGet, scanGet, doGet, getItem, takeOut, KState.setItems, KState.trigger, KState.setOut, KState.schedule,
    KState.setEv, KState.triggered, KState.ev, dropGetQ, getD0_set, hsz, hgs, getD_push, getD_setIfInBounds, zero_eq', TimerK.push_setIfInBounds_size]


attribute [wirek] body wireOut wireLost wireLoop srcLoop wirePut loadInt loadTime bad
  cRec cPkt storeId wireProc srcProc storeRec KState.res
  doCall_load doCall_store doCall_log doCall_timeout doCall_sput doCall_sget_miss doCall_sget_hit getD0_set

/-- symbolic execution of the kernel model on flat states -/
syntax "wsimp" (" [" Lean.Parser.Tactic.simpLemma,* "]")? (Lean.Parser.Tactic.location)? : tactic
macro_rules
  | `(tactic| wsimp $[$loc]?) =>
    `(tactic| simp [-Array.getD_eq_getD_getElem?, -List.filter_filter, timerk, wirek] $[$loc]?)
  | `(tactic| wsimp [$args,*] $[$loc]?) =>
    `(tactic| simp [-Array.getD_eq_getD_getElem?, -List.filter_filter, timerk, wirek, $args,*] $[$loc]?)

end WireK
