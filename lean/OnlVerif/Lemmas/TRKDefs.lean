import OnlVerif.Lemmas.TimerKFrame
import OnlVerif.Lemmas.TwoRate
import OnlVerif.Lemmas.TRKAttr
import OnlVerif.Net.TwoRateOnK
/-!
# The two-rate token bucket on the kernel model: canonical configurations (definitions)

`A` is an abstract description of a kernel state of the program `TwoRateOnK.body`: where the two processes are suspended, which
agenda entries exist, what the store holds, the instant of the `put` of every packet, the token level.  `KInv s a` says that
the kernel state `s` *is* the configuration `a`; `AInv` is what holds of the configurations of a run.
-/

namespace TRK
open TwoRateOnK
open TimerK (lookup)

abbrev St := TrS ℚ
abbrev KS := KState ℚ St

/-- where `TokenBucket.run` is -/
inductive RPhase where
  /-- not started: its `Initialize` entry `q` is in the agenda -/
  | init (q : QEntry ℚ)
  /-- blocked in `store.get()` (event `g`), called at `t0` -/
  | W (g : EvId) (t0 : ℚ)
  /-- `store.get()` (event `g`, called at `t0`) has been served with packet `id`: entry `q` -/
  | H (g : EvId) (id : Int) (q : QEntry ℚ) (t0 : ℚ)
  /-- waiting for tokens for packet `id`: sleeping on timeout `t`, entry `q` -/
  | T1 (t : EvId) (id : Int) (q : QEntry ℚ)

/-- where the source is -/
inductive SPhase where
  | init (q : QEntry ℚ) (arr : List ℚ)
  /-- sleeping on the timeout (entry `q`) after which it puts packet `next`; `rest` still to come -/
  | wait (next : Nat) (rest : List ℚ) (q : QEntry ℚ)
  /-- the generator has returned: the process event (entry `q`) is triggered -/
  | ending (q : QEntry ℚ)
  | done

structure A where
  run : RPhase
  src : SPhase
  /-- the `StorePut` events that are triggered and not yet processed -/
  pend : List (QEntry ℚ)
  /-- `store.items` -/
  items : List Int
  /-- the instants of the `put`s so far (packet `k` is the `k`-th) -/
  cts : List ℚ
  /-- `current_bucket_commit` -/
  commit : ℚ
  /-- `current_bucket_peak` (`none` = `None`) -/
  peak : Option ℚ
  /-- `update_time` -/
  upd : ℚ
  /-- `packets_sent` -/
  sent : Int

def RPhase.entries : RPhase → List (QEntry ℚ)
  | .init q => [q]
  | .W _ _ => []
  | .H _ _ q _ => [q]
  | .T1 _ _ q => [q]

def SPhase.entries : SPhase → List (QEntry ℚ)
  | .init q _ => [q]
  | .wait _ _ q => [q]
  | .ending q => [q]
  | .done => []

def A.entries (a : A) : List (QEntry ℚ) := a.run.entries ++ (a.src.entries ++ a.pend)

/-- the events a configuration talks about (pairwise different); the process event of `run` is 0, of the source 2 -/
def RPhase.ids : RPhase → List EvId
  | .init _ => [0, 1]
  | .W g _ => [0, g]
  | .H g _ _ _ => [0, g]
  | .T1 t _ _ => [0, t]

def SPhase.ids : SPhase → List EvId
  | .init _ _ => [2, 3]
  | .wait _ _ q => [2, q.ev]
  | .ending _ => [2]
  | .done => []

def pendIds (l : List (QEntry ℚ)) : List EvId := l.map (·.ev)

def A.ids (a : A) : List EvId := a.run.ids ++ (a.src.ids ++ pendIds a.pend)

def RPhase.getQ : RPhase → List EvId
  | .W g _ => [g]
  | _ => []

/-- kind, callbacks and outcome of a live event -/
def EvIs (s : KS) (e : EvId) (k : Kind) (cbs : List Cb) (out : Option Outcome) : Prop :=
  (s.ev e).kind = k ∧ (s.ev e).cbs = some cbs ∧ (s.ev e).out = out

/-- the record of the shaper's `Store` -/
def storeRec (getQ : List EvId) (items : List Int) : ResRec :=
  { kind := .store, capacity := none, getQ := getQ, items := items }

/-! ## the kernel side of a configuration -/

def RunEv (s : KS) : RPhase → Prop
  | .init q => q.ev = 1 ∧ EvIs s 1 (.init 0) [.resume 0] (some (.ok .none)) ∧
      s.proc? 0 = some { st := .bStart q.time, target := some 1 } ∧ EvIs s 0 .proc [] none
  | .W g t0 => EvIs s g (.get 0) [.trigPut 0, .resume 0] none ∧
      s.proc? 0 = some { st := .bGet t0, target := some g } ∧ EvIs s 0 .proc [] none
  | .H g id q t0 => q.ev = g ∧ EvIs s g (.get 0) [.trigPut 0, .resume 0] (some (.ok (.int id))) ∧
      s.proc? 0 = some { st := .bGet t0, target := some g } ∧ EvIs s 0 .proc [] none
  | .T1 t id q => q.ev = t ∧ EvIs s t .timeout [.resume 0] (some (.ok .none)) ∧
      s.proc? 0 = some { st := .bTok id q.time, target := some t } ∧ EvIs s 0 .proc [] none

def SrcEv (s : KS) : SPhase → Prop
  | .init q arr => q.ev = 3 ∧ EvIs s 3 (.init 2) [.resume 2] (some (.ok .none)) ∧
      s.proc? 2 = some { st := .src q.time false 0 arr, target := some 3 } ∧ EvIs s 2 .proc [] none
  | .wait next rest q => EvIs s q.ev .timeout [.resume 2] (some (.ok .none)) ∧
      s.proc? 2 = some { st := .src q.time true next rest, target := some q.ev } ∧ EvIs s 2 .proc [] none
  | .ending q => q.ev = 2 ∧ EvIs s 2 .proc [] (some (.ok .none))
  | .done => True

/-- the kernel state `s` has the configuration `a` -/
structure KInv (s : KS) (a : A) : Prop where
  wf : AgendaWF s
  ag : s.agenda.Perm a.entries
  rsz : 0 < s.resources.size
  res : s.res 0 = storeRec a.run.getQ a.items
  run : RunEv s a.run
  src : SrcEv s a.src
  pend : ∀ u ∈ a.pend, EvIs s u.ev (.put 0) [.trigGet 0] (some (.ok .none))
  nd : a.ids.Nodup
  c0 : lookup s.shared cRecv = .int a.cts.length
  c1 : lookup s.shared cSent = .int a.sent
  c2 : lookup s.shared cCommit = TimeCell.enc a.commit
  c3 : lookup s.shared cUpd = TimeCell.enc a.upd
  c4 : lookup s.shared cPeak = encOpt a.peak
  /-- (ghost cells) the instant of every `put` so far -/
  ct : ∀ k, k < a.cts.length → lookup s.shared (10 + k) = TimeCell.enc (a.cts.getD k 0)

/-! ## the abstract side -/

/-- the instant packet `id` was put -/
def A.ctOf (a : A) (id : Int) : ℚ := a.cts.getD id.toNat 0

def GapsOK (l : List ℚ) : Prop := ∀ x ∈ l, 0 ≤ x

def RunA (a : A) (now : ℚ) : RPhase → Prop
  | .init q => q.time = now ∧ q.prio = URGENT ∧ a.items = [] ∧ a.pend = [] ∧ a.cts = []
  | .W _ t0 => t0 ≤ now ∧ (∀ i ∈ a.items, a.ctOf i = now) ∧ (a.items ≠ [] → a.pend ≠ [])
  | .H _ id q t0 => q.time = now ∧ q.prio = NORMAL ∧ max t0 (a.ctOf id) = now ∧ 0 ≤ id ∧ id.toNat < a.cts.length
  | .T1 _ id q => q.prio = NORMAL ∧ 0 ≤ id ∧ id.toNat < a.cts.length

def SrcA (a : A) (now : ℚ) : SPhase → Prop
  | .init q arr => q.time = now ∧ q.prio = URGENT ∧ GapsOK arr ∧ a.cts = []
  | .wait next rest q => q.prio = NORMAL ∧ GapsOK rest ∧ next = a.cts.length
  | .ending q => q.time = now ∧ q.prio = NORMAL
  | .done => True

/-- what holds of a configuration at instant `now` -/
structure AInv (cfg : TrCfg ℚ) (a : A) (now : ℚ) : Prop where
  run : RunA a now a.run
  src : SrcA a now a.src
  pend : ∀ u ∈ a.pend, u.time = now ∧ u.prio = NORMAL
  due : ∀ x ∈ a.entries, now ≤ x.time
  /-- the packets in the store are known packets, put no later than now -/
  its : ∀ i ∈ a.items, 0 ≤ i ∧ i.toNat < a.cts.length ∧ a.ctOf i ≤ now
  good : TwoRate.Good cfg
  /-- with PIR the peak bucket holds a number -/
  pk : ∀ k, TwoRate.pirOn cfg = some k → ∃ pl, a.peak = some pl

/-- what `run` decides for packet `id` taken at `now` -/
def verdictA (size : Int → Nat) (cfg : TrCfg ℚ) (a : A) (now : ℚ) (id : Int) : Except String (Dec ℚ) :=
  verdict cfg a.commit a.peak a.upd now (pktOf size id)

/-- number of kernel steps a configuration still needs (an upper bound) -/
def RPhase.mu : RPhase → Nat
  | .init _ => 1
  | .W _ _ => 0
  | .H _ _ _ _ => 2
  | .T1 _ _ _ => 1

def SPhase.mu : SPhase → Nat
  | .init _ arr => 5 * arr.length + 2
  | .wait _ rest _ => 5 * rest.length + 6
  | .ending _ => 1
  | .done => 0

def A.mu (a : A) : Nat := a.run.mu + a.src.mu + a.pend.length + 3 * a.items.length

end TRK
