import OnlVerif.Lemmas.VCKGrid
/-!
# The VirtualClock scheduler on the kernel model: every configuration step keeps `AInv` and lowers the step bound; the
initial configuration
-/

set_option linter.unusedSimpArgs false
set_option linter.unusedVariables false

namespace VCK
open VCOnK QEntry

variable {N scale F : Nat} {flow size : Int → Nat} {cfg : VcCfg ℚ}
variable {a a' : A} {now : ℚ} {q : QEntry ℚ} {n e : Nat} {new : List (HEv ℚ)}

theorem txTime_nonneg {rate : ℚ} (hrate : 0 < rate) (id : Int) : 0 ≤ txTime size rate id := by
  unfold txTime
  rw [Num.ofNat_rat]
  exact div_nonneg (Nat.cast_nonneg _) (le_of_lt hrate)

/-! ## dict keys -/

theorem mem_addKey (l : List Nat) (k x : Nat) : x ∈ addKey l k ↔ x ∈ l ∨ x = k := by
  unfold addKey
  split
  · rename_i h
    constructor
    · exact Or.inl
    · rintro (h1 | rfl)
      · exact h1
      · simpa using h
  · simp

theorem keysOf_snoc (ids : List Int) (id : Int) : keysOf flow (ids ++ [id]) = addKey (keysOf flow ids) (flow id) := by
  simp [keysOf, List.foldl_append]

theorem mem_foldl_addKey (x : Nat) : ∀ (ids : List Int) (init : List Nat),
    x ∈ ids.foldl (fun l id => addKey l (flow id)) init ↔ x ∈ init ∨ ∃ id ∈ ids, flow id = x
  | [], init => by simp
  | id :: r, init => by
    rw [List.foldl_cons, mem_foldl_addKey x r, mem_addKey]
    constructor
    · rintro ((h | h) | ⟨i, hi, h⟩)
      · exact Or.inl h
      · exact Or.inr ⟨id, List.mem_cons_self, h.symm⟩
      · exact Or.inr ⟨i, List.mem_cons_of_mem _ hi, h⟩
    · rintro (h | ⟨i, hi, h⟩)
      · exact Or.inl (Or.inl h)
      · rcases List.mem_cons.mp hi with rfl | hi
        · exact Or.inl (Or.inr h.symm)
        · exact Or.inr ⟨i, hi, h⟩

/-- the flow of a packet that has been `put` is a dict key -/
theorem mem_keysOf {ids : List Int} {id : Int} (h : id ∈ ids) : flow id ∈ keysOf flow ids := by
  unfold keysOf
  exact (mem_foldl_addKey _ _ _).mpr (Or.inr ⟨id, h, rfl⟩)

theorem flow_mem_keys {w : PutRec} (hw : w ∈ a.puts) : flow w.1 ∈ keysOf flow (a.puts.map (·.1)) :=
  mem_keysOf (List.mem_map_of_mem hw)

/-! ## the `put` history -/

/-- the waiting packets are pairwise different -/
theorem items_nodup (hi : AInv N scale F flow cfg a now) : a.items.Nodup := by
  have : a.puts.Nodup := hi.mono.imp (fun {x y} h hxy => by rw [hxy] at h; exact lt_irrefl _ h.1)
  exact hi.sub.nodup this

theorem not_mem_erase (hi : AInv N scale F flow cfg a now) (w : PutRec) : w ∉ a.items.erase w :=
  fun h => ((items_nodup hi).mem_erase_iff.mp h).1 rfl

/-! ## the work list -/

theorem workOK_tail {x : ℚ × Int} {l : List (ℚ × Int)} (hw : WorkOK N scale F flow (x :: l)) : WorkOK N scale F flow l :=
  ⟨fun y hy => hw.gap y (List.mem_cons_of_mem _ hy), by
    have := hw.inc
    rw [List.map_cons] at this
    exact (List.pairwise_cons.mp this).2⟩

theorem workOK_head_lt {g : ℚ} {id : Int} {l : List (ℚ × Int)} (hw : WorkOK N scale F flow ((g, id) :: l)) :
    ∀ x ∈ l, id < x.2 := by
  have := hw.inc
  rw [List.map_cons] at this
  intro x hx
  exact (List.pairwise_cons.mp this).1 x.2 (List.mem_map_of_mem hx)

theorem srcA_congr {a a' : A} (h : a'.puts = a.puts) {s : SPhase} (hs : SrcA N scale F flow a now s) :
    SrcA N scale F flow a' now s := by
  cases s with
  | init q arr => exact ⟨hs.1, hs.2.1, hs.2.2.1, hs.2.2.2.1, h.trans hs.2.2.2.2⟩
  | wait id rest q => exact ⟨hs.1, hs.2.1, hs.2.2.1, fun w hw => hs.2.2.2 w (h ▸ hw)⟩
  | ending q => exact hs
  | done => trivial

/-- where the source goes next: the invariant of the new phase, its entry, its measure -/
theorem srcNext_ok {arr : List (ℚ × Int)} (hw : WorkOK N scale F flow arr) (t : ℚ) (ht : OnGrid scale t) (eid ev : Nat)
    (hp : ∀ x ∈ arr, ∀ w ∈ a.puts, w.1 < x.2) :
    SrcA N scale F flow a t (srcNext t eid ev arr) ∧ (∀ x ∈ (srcNext t eid ev arr).entries, t ≤ x.time) ∧
    (srcNext t eid ev arr).mu ≤ 6 * arr.length + 1 := by
  cases arr with
  | nil => exact ⟨⟨rfl, rfl⟩, by simp [srcNext, SPhase.entries], by simp [srcNext, SPhase.mu]⟩
  | cons x r =>
    obtain ⟨gap, id⟩ := x
    have h1 := hw.gap (gap, id) (by simp)
    refine ⟨⟨rfl, ⟨?_, hw.inc⟩, onGrid_add ht h1.2.2.2.2, hp (gap, id) (by simp)⟩, ?_, by simp [srcNext, SPhase.mu]; omega⟩
    · intro y hy
      rcases List.mem_cons.mp hy with rfl | hy
      · exact ⟨le_refl _, h1.2.1, h1.2.2.1, h1.2.2.2.1, onGrid_zero⟩
      · exact hw.gap y (List.mem_cons_of_mem _ hy)
    · simp only [srcNext, SPhase.entries, List.mem_singleton]
      rintro y rfl
      show t ≤ t + gap
      linarith [h1.1]

/-! ## steps that leave the `put` history alone -/

theorem ainv_gen (hi : AInv N scale F flow cfg a q.time) (a' : A)
    (hr : RunA F flow a' q.time a'.run) (hrd : ∀ x ∈ a'.run.entries, q.time ≤ x.time)
    (hs : SrcA N scale F flow a' q.time a'.src) (hsd : ∀ x ∈ a'.src.entries, q.time ≤ x.time)
    (hpend : ∀ u ∈ a'.pend, u ∈ a.pend) (hputs : a'.puts = a.puts) (haux : a'.aux = a.aux)
    (hitems : a'.items.Sublist a.items)
    (hkeys : ∀ f, f ∉ keysOf flow (a.puts.map (·.1)) → a'.cnt f = a.cnt f ∧ a'.byt f = a.byt f) :
    AInv N scale F flow cfg a' q.time := by
  refine ⟨hr, hs, fun u hu => hi.pend u (hpend u hu), ?_, ?_, ?_, ?_, ?_, ?_, hi.cfgOK, hi.grid⟩
  · intro x hx
    simp only [A.entries, List.mem_append] at hx
    rcases hx with hx | hx | hx
    · exact hrd x hx
    · exact hsd x hx
    · exact hi.due x (mem_pend (hpend x hx))
  · rw [hputs]; exact hitems.trans hi.sub
  · rw [hputs]; exact hi.mono
  · rw [hputs]; exact hi.putOK
  · rw [haux]; exact hi.auxG
  · intro f hf
    rw [hputs] at hf
    obtain ⟨h1, h2⟩ := hkeys f hf
    rw [h1, h2]; exact hi.keysOK f hf

/-! ## the `put` -/

theorem ainv_put (hi : AInv N scale F flow cfg a q.time) (hq : IsMin a q) {id : Int} {arr : List (ℚ × Int)}
    (h : a.src = .wait id arr q) :
    AInv N scale F flow cfg { a with
        src := srcNext q.time (e + 1) (n + 1) arr
        pend := a.pend ++ [⟨q.time, NORMAL, e, n⟩]
        items := a.items ++ [putRec flow cfg a q.time id]
        cnt := upd a.cnt (flow id) (a.cnt (flow id) + 1)
        byt := upd a.byt (flow id) (a.byt (flow id) + (size id : Int))
        recv := a.recv + 1
        vc := upd a.vc (flow id) (VC.vcOf (a.vc (flow id)) q.time (vtOf cfg (flow id)) (size id))
        aux := upd a.aux (flow id) (putRec flow cfg a q.time id).2.2
        puts := a.puts ++ [putRec flow cfg a q.time id] } q.time := by
  have hs := hi.src
  rw [h] at hs
  obtain ⟨hqp, hwk, hqg, hlt⟩ := hs
  have hid := hwk.gap (0, id) (by simp)
  have hfid : flow id < F := hid.2.1
  have hstamp : OnGrid scale (putRec flow cfg a q.time id).2.2 :=
    onGrid_auxOf hqg (hi.auxG _ hfid) (onGrid_vtOf hi.grid.2 _)
  have hlt' := workOK_head_lt hwk
  have hnext := srcNext_ok (a := { a with
        src := srcNext q.time (e + 1) (n + 1) arr
        pend := a.pend ++ [⟨q.time, NORMAL, e, n⟩]
        items := a.items ++ [putRec flow cfg a q.time id]
        cnt := upd a.cnt (flow id) (a.cnt (flow id) + 1)
        byt := upd a.byt (flow id) (a.byt (flow id) + (size id : Int))
        recv := a.recv + 1
        vc := upd a.vc (flow id) (VC.vcOf (a.vc (flow id)) q.time (vtOf cfg (flow id)) (size id))
        aux := upd a.aux (flow id) (putRec flow cfg a q.time id).2.2
        puts := a.puts ++ [putRec flow cfg a q.time id] }) (workOK_tail hwk) q.time hqg (e + 1) (n + 1) (by
    intro x hx w hw
    rcases List.mem_append.mp hw with hw | hw
    · exact lt_trans (hlt w hw) (hlt' x hx)
    · rw [List.mem_singleton.mp hw]; exact hlt' x hx)
  have hrun := hi.run
  refine ⟨?_, hnext.1, ?_, ?_, ?_, ?_, ?_, ?_, ?_, hi.cfgOK, hi.grid⟩
  · cases hr : a.run with
    | init q0 =>
      rw [hr] at hrun
      exact (hi.not_prio_lt hq (mem_run (by simp [hr, RPhase.entries])) hrun.1 (by rw [hrun.2.1, hqp]; decide)).elim
    | W g =>
      rw [hr] at hrun
      exact ⟨fun _ => by simp, hrun.2⟩
    | H g w q0 =>
      rw [hr] at hrun
      obtain ⟨h1, h2, h3, h4, h5⟩ := hrun
      refine ⟨h1, h2, h3, List.mem_append_left _ h4, ?_⟩
      intro h6
      rcases List.mem_append.mp h6 with h6 | h6
      · exact h5 h6
      · have := hlt w h4
        rw [List.mem_singleton.mp h6] at this
        exact lt_irrefl _ this
    | S p id0 q0 =>
      rw [hr] at hrun
      obtain ⟨h1, h2, h3, h4, w, h5, h6⟩ := hrun
      exact ⟨h1, h2, h3, h4, w, List.mem_append_left _ h5, h6⟩
    | T p t id0 q0 =>
      rw [hr] at hrun
      obtain ⟨h2, h3, h4, w, h5, h6⟩ := hrun
      exact ⟨h2, h3, h4, w, List.mem_append_left _ h5, h6⟩
    | F p id0 q0 => rw [hr] at hrun; exact hrun
  · intro u hu
    rcases List.mem_append.mp hu with hu | hu
    · exact hi.pend u hu
    · rw [List.mem_singleton.mp hu]; exact ⟨rfl, rfl⟩
  · intro x hx
    simp only [A.entries, List.mem_append] at hx
    rcases hx with hx | hx | hx | hx
    · exact hi.due x (mem_run hx)
    · exact hnext.2.1 x hx
    · exact hi.due x (mem_pend hx)
    · rw [List.mem_singleton.mp hx]
  · exact List.Sublist.append hi.sub (List.Sublist.refl _)
  · refine List.pairwise_append.mpr ⟨hi.mono, List.pairwise_singleton _ _, ?_⟩
    intro x hx y hy
    rw [List.mem_singleton.mp hy]
    exact ⟨hlt x hx, (hi.putOK x hx).2.2.2.1⟩
  · intro w hw
    rcases List.mem_append.mp hw with hw | hw
    · exact hi.putOK w hw
    · rw [List.mem_singleton.mp hw]
      exact ⟨hfid, hid.2.2.1, hid.2.2.2.1, le_refl _, hstamp⟩
  · intro c hc
    show OnGrid scale (upd a.aux (flow id) _ c)
    rw [upd_apply]
    split
    · exact hstamp
    · exact hi.auxG c hc
  · intro f hf
    have hf' : f ∉ addKey (keysOf flow (a.puts.map (·.1))) (flow id) := by
      intro h1
      apply hf
      show f ∈ keysOf flow ((a.puts ++ [putRec flow cfg a q.time id]).map (·.1))
      rw [List.map_append, List.map_singleton, keysOf_snoc]
      exact h1
    have hk1 : f ∉ keysOf flow (a.puts.map (·.1)) := fun h1 => hf' ((mem_addKey _ _ _).mpr (Or.inl h1))
    have hk2 : f ≠ flow id := fun h1 => hf' ((mem_addKey _ _ _).mpr (Or.inr h1))
    show upd a.cnt (flow id) _ f = 0 ∧ upd a.byt (flow id) _ f = 0
    rw [upd_ne _ _ _ _ hk2, upd_ne _ _ _ _ hk2]
    exact hi.keysOK f hk1

/-! ## every step -/

theorem erase_pend_mem {l1 l2 : List (QEntry ℚ)} (hpe : a.pend = l1 ++ q :: l2) : ∀ u ∈ l1 ++ l2, u ∈ a.pend := by
  intro u hu
  rw [hpe]
  rcases List.mem_append.mp hu with h | h
  · exact List.mem_append_left _ h
  · exact List.mem_append_right _ (List.mem_cons_of_mem _ h)

/-- **every configuration step is sound**: it keeps `AInv` (at the instant of the processed entry) and uses up the measure -/
theorem astep_sound (hi : AInv N scale F flow cfg a now) (hq : IsMin a q)
    (h : AStep N scale flow size cfg n e a q a' new) : AInv N scale F flow cfg a' q.time ∧ a'.mu + 1 ≤ a.mu := by
  have hi := hi.advance hq
  have hrun := hi.run
  have hsrc0 : ∀ x ∈ a.src.entries, q.time ≤ x.time := fun x hx => hi.due x (mem_src hx)
  have hrun0 : ∀ x ∈ a.run.entries, q.time ≤ x.time := fun x hx => hi.due x (mem_run hx)
  cases h with
  | runInit h0 =>
    rw [h0] at hrun
    obtain ⟨-, -, hpe, hit, hcur, hpu⟩ := hrun
    refine ⟨ainv_gen hi _ ⟨fun h1 => absurd hit h1, hcur⟩ (by simp [RPhase.entries]) (srcA_congr rfl hi.src) hsrc0
      (fun u hu => hu) rfl rfl (List.Sublist.refl _) (fun f _ => ⟨rfl, rfl⟩), ?_⟩
    simp only [A.mu, RPhase.mu, h0]; omega
  | pktResume g w h0 =>
    rw [h0] at hrun
    obtain ⟨-, -, hcur, hwp, -⟩ := hrun
    refine ⟨ainv_gen hi _ ⟨rfl, rfl, hcur, (hi.putOK w hwp).1, w, hwp, rfl⟩ (by simp [RPhase.entries])
      (srcA_congr rfl hi.src) hsrc0 (fun u hu => hu) rfl rfl (List.Sublist.refl _) (fun f _ => ⟨rfl, rfl⟩), ?_⟩
    simp only [A.mu, RPhase.mu, h0]; omega
  | sendInit p id h0 =>
    rw [h0] at hrun
    obtain ⟨-, -, hcur, hfid, hex⟩ := hrun
    have hd := txTime_nonneg (size := size) hi.cfgOK.rate id
    refine ⟨ainv_gen hi _ ⟨rfl, rfl, hfid, hex⟩
      (by simp only [RPhase.entries, List.mem_singleton]; rintro x rfl; show q.time ≤ q.time + _; linarith)
      (srcA_congr rfl hi.src) hsrc0 (fun u hu => hu) rfl rfl (List.Sublist.refl _) (fun f _ => ⟨rfl, rfl⟩), ?_⟩
    simp only [A.mu, RPhase.mu, h0]; omega
  | sendFire p t id h0 =>
    rw [h0] at hrun
    obtain ⟨-, hcur, hfid, w, hwp, hwid⟩ := hrun
    refine ⟨ainv_gen hi _ ⟨rfl, rfl, rfl⟩ (by simp [RPhase.entries])
      (srcA_congr rfl hi.src) hsrc0 (fun u hu => hu) rfl rfl (List.Sublist.refl _) ?_, ?_⟩
    · intro f hf
      have hff : f ≠ flow id := by
        rintro rfl
        exact hf (hwid ▸ flow_mem_keys hwp)
      exact ⟨upd_ne _ _ _ _ hff, upd_ne _ _ _ _ hff⟩
    · simp only [A.mu, RPhase.mu, h0]; omega
  | doneHit p id0 w h0 hw =>
    rw [h0] at hrun
    obtain ⟨-, -, hcur⟩ := hrun
    refine ⟨ainv_gen hi _ ⟨rfl, rfl, hcur, hi.sub.subset hw.1, not_mem_erase hi w⟩ (by simp [RPhase.entries])
      (srcA_congr rfl hi.src) hsrc0 (fun u hu => hu) rfl rfl List.erase_sublist (fun f _ => ⟨rfl, rfl⟩), ?_⟩
    have := List.length_erase_of_mem hw.1
    have hpos := List.length_pos_of_mem hw.1
    simp only [A.mu, RPhase.mu, h0, this]; omega
  | doneBlock p id0 h0 hit =>
    rw [h0] at hrun
    obtain ⟨-, -, hcur⟩ := hrun
    refine ⟨ainv_gen hi _ ⟨fun h1 => absurd hit h1, hcur⟩ (by simp [RPhase.entries]) (srcA_congr rfl hi.src) hsrc0
      (fun u hu => hu) rfl rfl (List.Sublist.refl _) (fun f _ => ⟨rfl, rfl⟩), ?_⟩
    simp only [A.mu, RPhase.mu, h0]; omega
  | srcInit arr h0 =>
    have hs := hi.src
    rw [h0] at hs
    obtain ⟨-, ht0, -, hwk, hpu⟩ := hs
    have hnext := srcNext_ok (a := { a with src := srcNext q.time e n arr }) hwk q.time (ht0 ▸ onGrid_zero) e n
      (by intro x _ w hw; rw [show ({ a with src := srcNext q.time e n arr } : A).puts = a.puts from rfl, hpu] at hw; cases hw)
    refine ⟨ainv_gen hi _ hi.run hrun0 hnext.1 hnext.2.1 (fun u hu => hu) rfl rfl (List.Sublist.refl _)
      (fun f _ => ⟨rfl, rfl⟩), ?_⟩
    have := hnext.2.2
    simp only [A.mu, SPhase.mu, h0] at this ⊢; omega
  | srcPut id arr h0 =>
    refine ⟨ainv_put hi hq h0, ?_⟩
    have hs := hi.src
    rw [h0] at hs
    have hnext := srcNext_ok (a := a) (workOK_tail hs.2.1) q.time hs.2.2.1 (e + 1) (n + 1)
      (fun x hx w hw => lt_trans (hs.2.2.2 w hw) (workOK_head_lt hs.2.1 x hx))
    have := hnext.2.2
    simp only [A.mu, SPhase.mu, h0, List.length_append, List.length_singleton] at this ⊢; omega
  | srcEnd h0 =>
    refine ⟨ainv_gen hi _ hi.run hrun0 trivial (by simp [SPhase.entries]) (fun u hu => hu) rfl rfl (List.Sublist.refl _)
      (fun f _ => ⟨rfl, rfl⟩), ?_⟩
    simp only [A.mu, SPhase.mu, h0]; omega
  | pendNoop l1 l2 hpe hno =>
    refine ⟨ainv_gen hi _ ?_ hrun0 (srcA_congr rfl hi.src) hsrc0 (erase_pend_mem hpe) rfl rfl (List.Sublist.refl _)
      (fun f _ => ⟨rfl, rfl⟩), ?_⟩
    · show RunA F flow _ q.time a.run
      cases hr : a.run with
      | init q0 =>
        rw [hr] at hrun
        rw [hrun.2.2.1] at hpe
        simp at hpe
      | W g =>
        rw [hr] at hrun
        refine ⟨fun h1 => (hno ⟨h1, g, hr⟩).elim, hrun.2⟩
      | H g w q0 => rw [hr] at hrun; exact hrun
      | S p id0 q0 => rw [hr] at hrun; exact hrun
      | T p t id0 q0 => rw [hr] at hrun; exact hrun
      | F p id0 q0 => rw [hr] at hrun; exact hrun
    · simp only [A.mu, hpe, List.length_append, List.length_cons]; omega
  | pendHand g w l1 l2 hpe h0 hw =>
    rw [h0] at hrun
    refine ⟨ainv_gen hi _ ⟨rfl, rfl, hrun.2, hi.sub.subset hw.1, not_mem_erase hi w⟩ (by simp [RPhase.entries])
      (srcA_congr rfl hi.src) hsrc0 (erase_pend_mem hpe) rfl rfl List.erase_sublist (fun f _ => ⟨rfl, rfl⟩), ?_⟩
    have := List.length_erase_of_mem hw.1
    have hpos := List.length_pos_of_mem hw.1
    simp only [A.mu, RPhase.mu, h0, hpe, this, List.length_append, List.length_cons]; omega

/-! ## the history-linked part -/

theorem linv_step {h0 : List (HEv ℚ)} (hl : LInv a h0) (h : AStep N scale flow size cfg n e a q a' new) :
    LInv a' (h0 ++ new) := by
  obtain ⟨h1, h2, h3⟩ := hl
  cases h with
  | srcPut id arr hs =>
    refine ⟨?_, ?_, ?_⟩
    · simp [List.filterMap_append, h1, putRec]
    · simp [List.filterMap_append, h2, putRec]
    · simp [h3]
  | _ => exact ⟨by simp [List.filterMap_append, h1], by simp [List.filterMap_append, h2], by simp [h3]⟩

/-! ## the initial configuration -/

theorem ainv_init {arrivals : List (ℚ × Int)} (hc : CfgOK F cfg) (hg : GridOK scale cfg arrivals)
    (hw : WorkOK N scale F flow arrivals) : AInv N scale F flow cfg (a0 arrivals) 0 := by
  refine ⟨⟨rfl, rfl, rfl, rfl, rfl, rfl⟩, ⟨rfl, rfl, rfl, hw, rfl⟩, ?_, ?_, List.Sublist.refl _, List.Pairwise.nil, ?_,
    fun _ _ => onGrid_zero, fun _ _ => ⟨rfl, rfl⟩, hc, ⟨hg.pos, hg.vt⟩⟩
  · intro u hu; simp [a0] at hu
  · intro x hx
    simp [A.entries, a0, RPhase.entries, SPhase.entries] at hx
    rcases hx with rfl | rfl <;> exact le_refl _
  · intro w hw; simp [a0] at hw

theorem linv_init (arrivals : List (ℚ × Int)) : LInv (a0 arrivals) [] := ⟨rfl, rfl, rfl⟩

theorem a0_mu (arrivals : List (ℚ × Int)) : (a0 arrivals).mu = 6 * arrivals.length + 3 := by
  simp [A.mu, a0, RPhase.mu, SPhase.mu]; omega

end VCK
