import OnlVerif.Lemmas.SPKFrame
/-!
# The SP scheduler on the kernel model: kernel steps that run `SP.run` and `send_packet`

Each lemma executes `Environment.step` of the kernel model symbolically on a state with configuration `a` whose next
agenda entry belongs to the server (its `Initialize`, the `StoreGet` it waits for, the `Initialize` / timeout / `Process`
event of its sender), and shows that the resulting state has the configuration the lemma names.
-/

set_option linter.unusedSimpArgs false

namespace SPK
open SPOnK
open TimerK (lookup plookup afterBurst resume_eq step_eq)

variable {F : Nat} {flow size : Int → Nat} {rate : ℚ} {tbl : List (Nat × Int)}
variable {s : KS} {a : A} {q : QEntry ℚ} {rest : List (QEntry ℚ)}

theorem txTime_nonneg (hrate : 0 < rate) (id : Int) : 0 ≤ txTime size rate id := by
  unfold txTime
  rw [Num.ofNat_rat]
  exact div_nonneg (Nat.cast_nonneg _) (le_of_lt hrate)

/-- a resumption starts with the attribute cells of the state before the step -/
theorem burst_shared (s : KS) (q : QEntry ℚ) (rest : List (QEntry ℚ)) (p e : EvId) (r : Resume) (t : ℚ) :
    ((deliverSt (openEvent s q rest) p e).emit (.resumed p r t)).shared = s.shared := by
  unfold deliverSt
  split <;> rfl

/-- the cells the `for` loop reads -/
theorem scan_cells (hk : KInv flow F s a) (htbl : ∀ x ∈ tbl, x.1 < F) (S : KS) (hS : S.shared = s.shared) :
    ∀ x ∈ tbl, lookup S.shared (cLen x.1) = .int (((fun f => (a.items f).length) x.1 : Nat) : Int) := by
  intro x hx
  rw [hS]
  exact hk.cl x.1 (htbl x hx)

theorem count_cells (hk : KInv flow F s a) (S : KS) (hS : S.shared = s.shared) :
    ∀ f, f < F → lookup S.shared (cCount f) = .int (a.cnt f) := by
  intro f hf
  rw [hS]
  exact hk.cc f hf

/-! ## the three ways a burst of `SP.run` ends: it takes a packet, takes a token, or blocks -/

set_option hygiene false in
/-- `KInv` of the configuration in which `run` has taken packet `id` from `stores[f]`; `e0` = the event just processed -/
macro "leaf_hit" e0:term : tactic => `(tactic| (
  refine ⟨⟨?_, ?_, ?_, ?_, ?_, ?_, ?_, ?_, ?_, ?_, ?_, ?_, ?_, ?_⟩, ?_⟩
  · exact wf_push1 hwf.1 _ rfl rfl rfl rfl (le_refl _)
  · simp only [A.entries, RPhase.entries, List.singleton_append]
    exact List.Perm.cons _ hrest
  · ssimp [hrsz]
  · ssimp [KState.res, getD_setIfInBounds, RPhase.getQ, htok]
  · intro f' hf'
    have := hk.st f' hf'
    simp only [KState.res] at this
    by_cases hff : f' = f
    · subst hff; ssimp [KState.res, getD_setIfInBounds, hsz]
    · ssimp [KState.res, getD_setIfInBounds, hff, upd_ne, this]
  · refine ⟨rfl, ?_, ?_, ?_⟩
    · ssimp [EvIs, hfl]
    · ssimp
    · ssimp [EvIs, hpk, hpc, hpo, Nat.ne_of_lt h0lt, h0e, Ne.symm h0e]
  · refine (hk.keep_src_pend [$e0] (by evkeep) ?_ ?_).1
    · intro e he; simp only [List.mem_singleton]; rintro rfl; exact he.elim de.1 de.2
    · intro e he
      have : e ≠ 0 := by rintro rfl; exact d0.1 he
      ssimp [this]
  · refine (hk.keep_src_pend [$e0] (by evkeep) ?_ ?_).2
    · intro e he; simp only [List.mem_singleton]; rintro rfl; exact he.elim de.1 de.2
    · intro e he
      have : e ≠ 0 := by rintro rfl; exact d0.1 he
      ssimp [this]
  · have hnd := hk.nd
    simp only [spids, hph] at hnd ⊢
    grind
  · ssimp [hk.c0]
  · ssimp [hk.c1]
  · intro f' hf'; ssimp [hk.cc f' hf']
  · intro f' hf'; ssimp [hk.cb f' hf']
  · intro f' hf'
    by_cases hff : f' = f
    · subst hff; ssimp
    · ssimp [hff, Ne.symm hff, upd_ne, hk.cl f' hf']
  · simp [histOf_push]))

set_option hygiene false in
/-- `KInv` of the configuration in which `run` blocks on the empty wake-up store -/
macro "leaf_block" e0:term : tactic => `(tactic| (
  refine ⟨⟨?_, ?_, ?_, ?_, ?_, ?_, ?_, ?_, ?_, ?_, ?_, ?_, ?_, ?_⟩, ?_⟩
  · exact wf_same hwf.1 rfl rfl rfl
  · simp only [A.entries, RPhase.entries, List.nil_append]
    exact hrest
  · ssimp [hrsz]
  · ssimp [KState.res, getD_setIfInBounds, RPhase.getQ, hrsz, htk]
  · intro f' hf'
    have := hk.st f' hf'
    simp only [KState.res] at this
    ssimp [KState.res, getD_setIfInBounds, this]
  · refine ⟨?_, ?_, ?_⟩
    · ssimp [EvIs]
    · ssimp
    · ssimp [EvIs, hpk, hpc, hpo, Nat.ne_of_lt h0lt, h0e, Ne.symm h0e]
  · refine (hk.keep_src_pend [$e0] (by evkeep) ?_ ?_).1
    · intro e he; simp only [List.mem_singleton]; rintro rfl; exact he.elim de.1 de.2
    · intro e he
      have : e ≠ 0 := by rintro rfl; exact d0.1 he
      ssimp [this]
  · refine (hk.keep_src_pend [$e0] (by evkeep) ?_ ?_).2
    · intro e he; simp only [List.mem_singleton]; rintro rfl; exact he.elim de.1 de.2
    · intro e he
      have : e ≠ 0 := by rintro rfl; exact d0.1 he
      ssimp [this]
  · have hnd := hk.nd
    simp only [spids, hph] at hnd ⊢
    grind
  · ssimp [hk.c0]
  · ssimp [hk.c1]
  · intro f' hf'; ssimp [hk.cc f' hf']
  · intro f' hf'; ssimp [hk.cb f' hf']
  · intro f' hf'; ssimp [hk.cl f' hf']
  · simp [histOf_push]))

set_option hygiene false in
/-- `KInv` of the configuration in which `run` has taken a wake-up token -/
macro "leaf_tok" e0:term : tactic => `(tactic| (
  refine ⟨⟨?_, ?_, ?_, ?_, ?_, ?_, ?_, ?_, ?_, ?_, ?_, ?_, ?_, ?_⟩, ?_⟩
  · exact wf_push1 hwf.1 _ rfl rfl rfl rfl (le_refl _)
  · simp only [A.entries, RPhase.entries, List.singleton_append]
    exact List.Perm.cons _ hrest
  · ssimp [hrsz]
  · ssimp [KState.res, getD_setIfInBounds, RPhase.getQ, hrsz]
  · intro f' hf'
    have := hk.st f' hf'
    simp only [KState.res] at this
    ssimp [KState.res, getD_setIfInBounds, this]
  · refine ⟨rfl, ?_, ?_, ?_⟩
    · ssimp [EvIs]
    · ssimp
    · ssimp [EvIs, hpk, hpc, hpo, Nat.ne_of_lt h0lt, h0e, Ne.symm h0e]
  · refine (hk.keep_src_pend [$e0] (by evkeep) ?_ ?_).1
    · intro e he; simp only [List.mem_singleton]; rintro rfl; exact he.elim de.1 de.2
    · intro e he
      have : e ≠ 0 := by rintro rfl; exact d0.1 he
      ssimp [this]
  · refine (hk.keep_src_pend [$e0] (by evkeep) ?_ ?_).2
    · intro e he; simp only [List.mem_singleton]; rintro rfl; exact he.elim de.1 de.2
    · intro e he
      have : e ≠ 0 := by rintro rfl; exact d0.1 he
      ssimp [this]
  · have hnd := hk.nd
    simp only [spids, hph] at hnd ⊢
    grind
  · ssimp [hk.c0]
  · ssimp [hk.c1]
  · intro f' hf'; ssimp [hk.cc f' hf']
  · intro f' hf'; ssimp [hk.cb f' hf']
  · intro f' hf'; ssimp [hk.cl f' hf']
  · simp [histOf_push]))

/-! ## the wake-up: the `StoreGet` on the wake-up store is processed -/

/-- `run` is woken, scans, and takes the head of the first non-empty store with a positive priority -/
theorem kstep_wakeHit (fuel : Nat) (hk : KInv flow F s a) {g : EvId} (hph : a.run = .K g q)
    {i f : Nat} {id : Int} {is : List Int} (hscan : a.scan tbl = some (i, f)) (hf : f < F) (hit : a.items f = id :: is)
    (hfl : flow id = f) (htbl : ∀ x ∈ tbl, x.1 < F)
    (hp : popMin s.agenda = some (q, rest)) (hrest : rest.Perm (a.src.entries ++ pendEntries a.pend)) :
    ∃ s', step (body F flow size rate tbl) (fuel + 1) s = .ok s' ∧
      KInv flow F s' { a with run := .H s.events.size i id ⟨q.time, NORMAL, s.eid, s.events.size⟩, items := upd a.items f is } ∧
      s'.now = q.time ∧ histOf s'.trace = histOf s.trace := by
  have hr := hk.run
  rw [hph] at hr
  obtain ⟨hqe, ⟨hkind, hcbs, hout⟩, hproc0, ⟨hpk, hpc, hpo⟩⟩ := hr
  have hgs : g < s.events.size := KState.lt_of_cbs hcbs
  have hwf := openEvent_wf s q rest hk.wf hp
  have hlt := hk.idlt
  have htok := hk.tok
  have hst := hk.st f hf
  have hrsz := hk.rsz
  rw [hph] at htok
  simp only [KState.res, RPhase.getQ] at htok hst
  rw [step_eq _ _ _ _ _ _ hp (hqe ▸ hcbs)]
  simp only [List.foldl, runCb]
  rw [triggerPut_none (openEvent s q rest) 0 [] (List.replicate a.tokens 1) htok]
  rw [resume_eq _ _ _ _ _ _ (show (openEvent s q rest).proc? 0 = _ from hproc0)]
  simp only [body]
  rw [runBurst_scan 0 F (fun f => (a.items f).length) _ tbl 0 (scan_cells hk htbl _ (burst_shared ..))]
  have hscan' : firstHit (fun f => (a.items f).length) 0 tbl = some (i, f) := hscan
  simp only [hscan']
  simp only [KState.ev] at hkind hcbs hout hpk hpc hpo
  have hsz : flowStore f < s.resources.size := by rw [hrsz]; unfold flowStore; omega
  ssimp [hqe, hgs, hkind, hcbs, hout, Nat.ne_of_lt hgs, doCall_sget_hit (r := flowStore f) (i := id) (is := is), hst, hit, hsz]
  obtain ⟨nrun, nsrc, npend, drun, dsrc⟩ := (ids_nodup_iff a).mp hk.nd
  simp only [hph, spids] at nrun drun hlt
  obtain ⟨d0, de⟩ := drun
  have h0e : ¬ 0 = g := nrun
  have h0lt := hlt.1
  leaf_hit g

/-- `run` is woken by a stale token, finds every store empty and blocks again -/
theorem kstep_wakeBlock (fuel : Nat) (hk : KInv flow F s a) {g : EvId} (hph : a.run = .K g q)
    (hscan : a.scan tbl = none) (htot : a.total F = 0) (htk : a.tokens = 0) (htbl : ∀ x ∈ tbl, x.1 < F)
    (hp : popMin s.agenda = some (q, rest)) (hrest : rest.Perm (a.src.entries ++ pendEntries a.pend)) :
    ∃ s', step (body F flow size rate tbl) (fuel + 1) s = .ok s' ∧
      KInv flow F s' { a with run := .W s.events.size } ∧
      s'.now = q.time ∧ histOf s'.trace = histOf s.trace := by
  have hr := hk.run
  rw [hph] at hr
  obtain ⟨hqe, ⟨hkind, hcbs, hout⟩, hproc0, ⟨hpk, hpc, hpo⟩⟩ := hr
  have hgs : g < s.events.size := KState.lt_of_cbs hcbs
  have hwf := openEvent_wf s q rest hk.wf hp
  have hlt := hk.idlt
  have htok := hk.tok
  have hrsz := hk.rsz
  rw [hph, htk] at htok
  simp only [KState.res, RPhase.getQ, List.replicate] at htok
  rw [step_eq _ _ _ _ _ _ hp (hqe ▸ hcbs)]
  simp only [List.foldl, runCb]
  rw [triggerPut_none (openEvent s q rest) 0 [] [] htok]
  rw [resume_eq _ _ _ _ _ _ (show (openEvent s q rest).proc? 0 = _ from hproc0)]
  simp only [body]
  have hsh := burst_shared s q rest 0 q.ev (resumeArg (openEvent s q rest) 0 q.ev) (deliverSt (openEvent s q rest) 0 q.ev).now
  rw [runBurst_scan 0 F (fun f => (a.items f).length) _ tbl 0 (scan_cells hk htbl _ hsh)]
  have hscan' : firstHit (fun f => (a.items f).length) 0 tbl = none := hscan
  simp only [hscan', runExhausted]
  rw [runBurst_total 0 F a.cnt _ _ (count_cells hk _ hsh)]
  have htot' : sumFrom a.cnt 0 F = 0 := htot
  simp only [htot', if_true]
  simp only [KState.ev] at hkind hcbs hout hpk hpc hpo
  have hsz : 0 < s.resources.size := by rw [hrsz]; omega
  ssimp [hqe, hgs, hkind, hcbs, hout, Nat.ne_of_lt hgs, doCall_sget_miss (r := 0), htok, hsz]
  obtain ⟨nrun, nsrc, npend, drun, dsrc⟩ := (ids_nodup_iff a).mp hk.nd
  simp only [hph, spids] at nrun drun hlt
  obtain ⟨d0, de⟩ := drun
  have h0e : ¬ 0 = g := nrun
  have h0lt := hlt.1
  leaf_block g

/-- `run` is woken by a stale token, finds every store empty and takes the next token -/
theorem kstep_wakeTok (fuel : Nat) (hk : KInv flow F s a) {g : EvId} (hph : a.run = .K g q) {t : Nat}
    (hscan : a.scan tbl = none) (htot : a.total F = 0) (htk : a.tokens = t + 1) (htbl : ∀ x ∈ tbl, x.1 < F)
    (hp : popMin s.agenda = some (q, rest)) (hrest : rest.Perm (a.src.entries ++ pendEntries a.pend)) :
    ∃ s', step (body F flow size rate tbl) (fuel + 1) s = .ok s' ∧
      KInv flow F s' { a with run := .K s.events.size ⟨q.time, NORMAL, s.eid, s.events.size⟩, tokens := t } ∧
      s'.now = q.time ∧ histOf s'.trace = histOf s.trace := by
  have hr := hk.run
  rw [hph] at hr
  obtain ⟨hqe, ⟨hkind, hcbs, hout⟩, hproc0, ⟨hpk, hpc, hpo⟩⟩ := hr
  have hgs : g < s.events.size := KState.lt_of_cbs hcbs
  have hwf := openEvent_wf s q rest hk.wf hp
  have hlt := hk.idlt
  have htok := hk.tok
  have hrsz := hk.rsz
  rw [hph, htk] at htok
  simp only [KState.res, RPhase.getQ, List.replicate] at htok
  rw [step_eq _ _ _ _ _ _ hp (hqe ▸ hcbs)]
  simp only [List.foldl, runCb]
  rw [triggerPut_none (openEvent s q rest) 0 [] _ htok]
  rw [resume_eq _ _ _ _ _ _ (show (openEvent s q rest).proc? 0 = _ from hproc0)]
  simp only [body]
  have hsh := burst_shared s q rest 0 q.ev (resumeArg (openEvent s q rest) 0 q.ev) (deliverSt (openEvent s q rest) 0 q.ev).now
  rw [runBurst_scan 0 F (fun f => (a.items f).length) _ tbl 0 (scan_cells hk htbl _ hsh)]
  have hscan' : firstHit (fun f => (a.items f).length) 0 tbl = none := hscan
  simp only [hscan', runExhausted]
  rw [runBurst_total 0 F a.cnt _ _ (count_cells hk _ hsh)]
  have htot' : sumFrom a.cnt 0 F = 0 := htot
  simp only [htot', if_true]
  simp only [KState.ev] at hkind hcbs hout hpk hpc hpo
  have hsz : 0 < s.resources.size := by rw [hrsz]; omega
  ssimp [hqe, hgs, hkind, hcbs, hout, Nat.ne_of_lt hgs, doCall_sget_hit (r := 0) (i := 1) (is := List.replicate t 1), htok, hsz]
  obtain ⟨nrun, nsrc, npend, drun, dsrc⟩ := (ids_nodup_iff a).mp hk.nd
  simp only [hph, spids] at nrun drun hlt
  obtain ⟨d0, de⟩ := drun
  have h0e : ¬ 0 = g := nrun
  have h0lt := hlt.1
  leaf_tok g

/-! ## the start of `run` -/

/-- the `Initialize` event of `run`: every store is empty, it blocks on the wake-up store -/
theorem kstep_runInit (fuel : Nat) (hk : KInv flow F s a) (hph : a.run = .init q)
    (hscan : a.scan tbl = none) (htot : a.total F = 0) (htk : a.tokens = 0) (htbl : ∀ x ∈ tbl, x.1 < F)
    (hp : popMin s.agenda = some (q, rest)) (hrest : rest.Perm (a.src.entries ++ pendEntries a.pend)) :
    ∃ s', step (body F flow size rate tbl) (fuel + 1) s = .ok s' ∧
      KInv flow F s' { a with run := .W s.events.size } ∧
      s'.now = q.time ∧ histOf s'.trace = histOf s.trace := by
  have hr := hk.run
  rw [hph] at hr
  obtain ⟨hqe, ⟨hkind, hcbs, hout⟩, hproc0, ⟨hpk, hpc, hpo⟩⟩ := hr
  have hgs : 1 < s.events.size := KState.lt_of_cbs hcbs
  have hwf := openEvent_wf s q rest hk.wf hp
  have hlt := hk.idlt
  have htok := hk.tok
  have hrsz := hk.rsz
  rw [hph, htk] at htok
  simp only [KState.res, RPhase.getQ, List.replicate] at htok
  rw [step_eq _ _ _ _ _ _ hp (hqe ▸ hcbs)]
  simp only [List.foldl, runCb]
  rw [resume_eq _ _ _ _ _ _ (show (openEvent s q rest).proc? 0 = _ from hproc0)]
  simp only [body]
  have hsh := burst_shared s q rest 0 q.ev (resumeArg (openEvent s q rest) 0 q.ev) (deliverSt (openEvent s q rest) 0 q.ev).now
  rw [runBurst_scan 0 F (fun f => (a.items f).length) _ tbl 0 (scan_cells hk htbl _ hsh)]
  have hscan' : firstHit (fun f => (a.items f).length) 0 tbl = none := hscan
  simp only [hscan', runExhausted]
  rw [runBurst_total 0 F a.cnt _ _ (count_cells hk _ hsh)]
  have htot' : sumFrom a.cnt 0 F = 0 := htot
  simp only [htot', if_true]
  simp only [KState.ev] at hkind hcbs hout hpk hpc hpo
  have hsz : 0 < s.resources.size := by rw [hrsz]; omega
  ssimp [hqe, hgs, hkind, hcbs, hout, Nat.ne_of_lt hgs, doCall_sget_miss (r := 0), htok, hsz]
  obtain ⟨nrun, nsrc, npend, drun, dsrc⟩ := (ids_nodup_iff a).mp hk.nd
  simp only [hph, spids] at nrun drun hlt
  obtain ⟨d0, de⟩ := drun
  have h0e : ¬ 0 = 1 := by decide
  have h0lt := hlt.1
  leaf_block 1

/-! ## the end of a transmission: the `Process` event of the sender is processed, `run` goes on -/

/-- packets are left: `run` scans and takes the head of the first non-empty store with a positive priority -/
theorem kstep_doneHit (fuel : Nat) (hk : KInv flow F s a) {p : EvId} {id0 : Int} (hph : a.run = .F p id0 q)
    {i f : Nat} {id : Int} {is : List Int} (htot : a.total F ≠ 0) (hscan : a.scan tbl = some (i, f)) (hf : f < F)
    (hit : a.items f = id :: is) (hfl : flow id = f) (htbl : ∀ x ∈ tbl, x.1 < F)
    (hp : popMin s.agenda = some (q, rest)) (hrest : rest.Perm (a.src.entries ++ pendEntries a.pend)) :
    ∃ s', step (body F flow size rate tbl) (fuel + 1) s = .ok s' ∧
      KInv flow F s' { a with run := .H s.events.size i id ⟨q.time, NORMAL, s.eid, s.events.size⟩, items := upd a.items f is } ∧
      s'.now = q.time ∧ histOf s'.trace = histOf s.trace := by
  have hr := hk.run
  rw [hph] at hr
  obtain ⟨hqe, ⟨hkind, hcbs, hout⟩, hproc0, ⟨hpk, hpc, hpo⟩⟩ := hr
  have hgs : p < s.events.size := KState.lt_of_cbs hcbs
  have hwf := openEvent_wf s q rest hk.wf hp
  have hlt := hk.idlt
  have htok := hk.tok
  have hst := hk.st f hf
  have hrsz := hk.rsz
  rw [hph] at htok
  simp only [KState.res, RPhase.getQ] at htok hst
  rw [step_eq _ _ _ _ _ _ hp (hqe ▸ hcbs)]
  simp only [List.foldl, runCb]
  rw [resume_eq _ _ _ _ _ _ (show (openEvent s q rest).proc? 0 = _ from hproc0)]
  simp only [body, runAfterSend]
  have hsh := burst_shared s q rest 0 q.ev (resumeArg (openEvent s q rest) 0 q.ev) (deliverSt (openEvent s q rest) 0 q.ev).now
  rw [runBurst_total 0 F a.cnt _ _ (count_cells hk _ hsh)]
  have htot' : ¬ sumFrom a.cnt 0 F = 0 := htot
  simp only [htot', if_false]
  rw [runBurst_scan 0 F (fun f => (a.items f).length) _ tbl 0 (scan_cells hk htbl _ hsh)]
  have hscan' : firstHit (fun f => (a.items f).length) 0 tbl = some (i, f) := hscan
  simp only [hscan']
  simp only [KState.ev] at hkind hcbs hout hpk hpc hpo
  have hsz : flowStore f < s.resources.size := by rw [hrsz]; unfold flowStore; omega
  ssimp [hqe, hgs, hkind, hcbs, hout, Nat.ne_of_lt hgs, doCall_sget_hit (r := flowStore f) (i := id) (is := is), hst, hit, hsz]
  obtain ⟨nrun, nsrc, npend, drun, dsrc⟩ := (ids_nodup_iff a).mp hk.nd
  simp only [hph, spids] at nrun drun hlt
  obtain ⟨d0, de⟩ := drun
  have h0e : ¬ 0 = p := nrun
  have h0lt := hlt.1
  leaf_hit p

/-- nothing is left and no token is there: `run` blocks on the wake-up store -/
theorem kstep_doneBlock (fuel : Nat) (hk : KInv flow F s a) {p : EvId} {id0 : Int} (hph : a.run = .F p id0 q)
    (htot : a.total F = 0) (htk : a.tokens = 0)
    (hp : popMin s.agenda = some (q, rest)) (hrest : rest.Perm (a.src.entries ++ pendEntries a.pend)) :
    ∃ s', step (body F flow size rate tbl) (fuel + 1) s = .ok s' ∧
      KInv flow F s' { a with run := .W s.events.size } ∧
      s'.now = q.time ∧ histOf s'.trace = histOf s.trace := by
  have hr := hk.run
  rw [hph] at hr
  obtain ⟨hqe, ⟨hkind, hcbs, hout⟩, hproc0, ⟨hpk, hpc, hpo⟩⟩ := hr
  have hgs : p < s.events.size := KState.lt_of_cbs hcbs
  have hwf := openEvent_wf s q rest hk.wf hp
  have hlt := hk.idlt
  have htok := hk.tok
  have hrsz := hk.rsz
  rw [hph, htk] at htok
  simp only [KState.res, RPhase.getQ, List.replicate] at htok
  rw [step_eq _ _ _ _ _ _ hp (hqe ▸ hcbs)]
  simp only [List.foldl, runCb]
  rw [resume_eq _ _ _ _ _ _ (show (openEvent s q rest).proc? 0 = _ from hproc0)]
  simp only [body, runAfterSend]
  have hsh := burst_shared s q rest 0 q.ev (resumeArg (openEvent s q rest) 0 q.ev) (deliverSt (openEvent s q rest) 0 q.ev).now
  rw [runBurst_total 0 F a.cnt _ _ (count_cells hk _ hsh)]
  have htot' : sumFrom a.cnt 0 F = 0 := htot
  simp only [htot', if_true]
  simp only [KState.ev] at hkind hcbs hout hpk hpc hpo
  have hsz : 0 < s.resources.size := by rw [hrsz]; omega
  ssimp [hqe, hgs, hkind, hcbs, hout, Nat.ne_of_lt hgs, doCall_sget_miss (r := 0), htok, hsz]
  obtain ⟨nrun, nsrc, npend, drun, dsrc⟩ := (ids_nodup_iff a).mp hk.nd
  simp only [hph, spids] at nrun drun hlt
  obtain ⟨d0, de⟩ := drun
  have h0e : ¬ 0 = p := nrun
  have h0lt := hlt.1
  leaf_block p

/-- nothing is left but a (stale) token is there: `run` takes it -/
theorem kstep_doneTok (fuel : Nat) (hk : KInv flow F s a) {p : EvId} {id0 : Int} (hph : a.run = .F p id0 q) {t : Nat}
    (htot : a.total F = 0) (htk : a.tokens = t + 1)
    (hp : popMin s.agenda = some (q, rest)) (hrest : rest.Perm (a.src.entries ++ pendEntries a.pend)) :
    ∃ s', step (body F flow size rate tbl) (fuel + 1) s = .ok s' ∧
      KInv flow F s' { a with run := .K s.events.size ⟨q.time, NORMAL, s.eid, s.events.size⟩, tokens := t } ∧
      s'.now = q.time ∧ histOf s'.trace = histOf s.trace := by
  have hr := hk.run
  rw [hph] at hr
  obtain ⟨hqe, ⟨hkind, hcbs, hout⟩, hproc0, ⟨hpk, hpc, hpo⟩⟩ := hr
  have hgs : p < s.events.size := KState.lt_of_cbs hcbs
  have hwf := openEvent_wf s q rest hk.wf hp
  have hlt := hk.idlt
  have htok := hk.tok
  have hrsz := hk.rsz
  rw [hph, htk] at htok
  simp only [KState.res, RPhase.getQ, List.replicate] at htok
  rw [step_eq _ _ _ _ _ _ hp (hqe ▸ hcbs)]
  simp only [List.foldl, runCb]
  rw [resume_eq _ _ _ _ _ _ (show (openEvent s q rest).proc? 0 = _ from hproc0)]
  simp only [body, runAfterSend]
  have hsh := burst_shared s q rest 0 q.ev (resumeArg (openEvent s q rest) 0 q.ev) (deliverSt (openEvent s q rest) 0 q.ev).now
  rw [runBurst_total 0 F a.cnt _ _ (count_cells hk _ hsh)]
  have htot' : sumFrom a.cnt 0 F = 0 := htot
  simp only [htot', if_true]
  simp only [KState.ev] at hkind hcbs hout hpk hpc hpo
  have hsz : 0 < s.resources.size := by rw [hrsz]; omega
  ssimp [hqe, hgs, hkind, hcbs, hout, Nat.ne_of_lt hgs, doCall_sget_hit (r := 0) (i := 1) (is := List.replicate t 1), htok, hsz]
  obtain ⟨nrun, nsrc, npend, drun, dsrc⟩ := (ids_nodup_iff a).mp hk.nd
  simp only [hph, spids] at nrun drun hlt
  obtain ⟨d0, de⟩ := drun
  have h0e : ¬ 0 = p := nrun
  have h0lt := hlt.1
  leaf_tok p

end SPK
