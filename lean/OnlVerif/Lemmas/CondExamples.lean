import OnlVerif.Lemmas.CondDec
/-!
# Concrete programs for the non-vacuity examples of the global condition theorems

Local state of every program: `(program counter, events it holds)`.  Event ids in the runs below: `0` the main
process, `1` its `Initialize`, then the events in creation order.
-/

namespace Cond

abbrev St := Nat × List EvId

def getEv : Reply → EvId
  | .ev e => e
  | _ => 0

/-- the state after `n` steps (the initial state if the run has ended before) -/
def nth (body : St → Resume → Burst ℚ St) (s0 : KState ℚ St) (n : Nat) : KState ℚ St :=
  (Once.iter body 5 n s0).getD s0

def outIs (s : KState ℚ St) (e : EvId) (o : Option Outcome) : Bool := (s.ev e).out == o

/-- is a `_check` of condition `c` left in any callback list? -/
def hasCheck (s : KState ℚ St) (c : EvId) : Bool :=
  s.events.any fun r => match r.cbs with
    | some L => L.contains (.check c)
    | none => false

/-- the main process has been started from outside, as `env.process(...)` does -/
def start : KState ℚ St := (doCall ({ now := 0 } : KState ℚ St) 0 (.spawn (0, []))).1

theorem start_once : Once.Inv0 false start :=
  (Once.Inv0.init false 0 #[] (fun r => by simp [default])).spawn 0 (0, [])

theorem start_cond : Inv0 start :=
  (Inv0.outside (Once.Inv0.init false 0 #[] (fun r => by simp [default])) (Inv0.init 0 #[]) 0 (.spawn (0, [])) trivial trivial).2

/-! ## `all_of` over two timeouts that complete at the same instant -/

/-- `t1 = timeout(1, 10); t2 = timeout(1, 20); yield t1 & t2` (events 2, 3; condition 4) -/
def allBody : St → Resume → Burst ℚ St
  | (0, _), _ => .call (.timeout 1 (.int 10)) fun r1 => .call (.timeout 1 (.int 20)) fun r2 =>
      .call (.cond true [getEv r1, getEv r2]) fun r3 => .yield (getEv r3) (1, [getEv r3])
  | _, _ => .ret .none

theorem all_safe : SafeRun allBody 5 start := SafeUpTo.safeRun (N := 6) (by decide +kernel)

/-! ## `any_of` over an operand that is already processed -/

/-- `e = event(); e.succeed(7); yield e` — then, with `e` processed: `t = timeout(5); yield e | t`
(event 2, timeout 3, condition 4) -/
def anyBody : St → Resume → Burst ℚ St
  | (0, _), _ => .call .event fun r1 => .call (.succeed (getEv r1) (.int 7)) fun _ => .yield (getEv r1) (1, [getEv r1])
  | (1, [e]), _ => .call (.timeout 5 .none) fun r2 =>
      .call (.cond false [e, getEv r2]) fun r3 => .yield (getEv r3) (2, [getEv r3])
  | _, _ => .ret .none

theorem any_safe : SafeRun anyBody 5 start := SafeUpTo.safeRun (N := 7) (by decide +kernel)

/-! ## an operand fails before the condition is met -/

/-- main: `e = event(); t = timeout(2); c = e & t; start child(e); yield c` (event 2, timeout 3, condition 4, child 5);
child: `yield timeout(1); e.fail(KeyError(3))` -/
def failBody : St → Resume → Burst ℚ St
  | (0, _), _ => .call .event fun r1 => .call (.timeout 2 .none) fun r2 =>
      .call (.cond true [getEv r1, getEv r2]) fun r3 => .call (.spawn (10, [getEv r1])) fun _ =>
        .yield (getEv r3) (1, [getEv r3])
  | (10, [e]), _ => .call (.timeout 1 .none) fun r => .yield (getEv r) (11, [e])
  | (11, [e]), _ => .call (.fail e ⟨"KeyError", [.int 3]⟩) fun _ => .ret .none
  | _, _ => .ret .none

theorem fail_safe : SafeRun failBody 5 start := SafeUpTo.safeRun (N := 10) (by decide +kernel)

/-! ## an operand fails after the condition was met, before the condition is processed -/

/-- `e1 = event(); e2 = event(); c = e1 | e2; e1.succeed(1); e2.fail(KeyError(4)); yield c`
(events 2, 3; condition 4): `c` is triggered by `e1`; the failure of `e2`, processed next, is **not** defused by `c` -/
def lateBody : St → Resume → Burst ℚ St
  | (0, _), _ => .call .event fun r1 => .call .event fun r2 =>
      .call (.cond false [getEv r1, getEv r2]) fun r3 => .call (.succeed (getEv r1) (.int 1)) fun _ =>
        .call (.fail (getEv r2) ⟨"KeyError", [.int 4]⟩) fun _ => .yield (getEv r3) (1, [getEv r3])
  | _, _ => .ret .none

theorem late_safe : SafeRun lateBody 5 start := SafeUpTo.safeRun (N := 6) (by decide +kernel)

/-! ## a nested condition whose outer condition fires first -/

/-- `a = timeout(1); b = timeout(3); x = timeout(2); inner = a & b; outer = inner | x; yield outer`
(events 2, 3, 4; inner 5; outer 6) -/
def nestBody : St → Resume → Burst ℚ St
  | (0, _), _ => .call (.timeout 1 (.int 1)) fun ra => .call (.timeout 3 (.int 3)) fun rb =>
      .call (.timeout 2 (.int 2)) fun rx => .call (.cond true [getEv ra, getEv rb]) fun ri =>
        .call (.cond false [getEv ri, getEv rx]) fun ro => .yield (getEv ro) (1, [getEv ro])
  | _, _ => .ret .none

theorem nest_safe : SafeRun nestBody 5 start := SafeUpTo.safeRun (N := 8) (by decide +kernel)

/-- `(a | b) & x` with `a = timeout(1)`, `b = timeout(4)`, `x = timeout(2)`: the inner `any_of` fires at 1, the outer
`all_of` at 2 -/
def nest2Body : St → Resume → Burst ℚ St
  | (0, _), _ => .call (.timeout 1 (.int 1)) fun ra => .call (.timeout 4 (.int 4)) fun rb =>
      .call (.timeout 2 (.int 2)) fun rx => .call (.cond false [getEv ra, getEv rb]) fun ri =>
        .call (.cond true [getEv ri, getEv rx]) fun ro => .yield (getEv ro) (1, [getEv ro])
  | _, _ => .ret .none

theorem nest2_safe : SafeRun nest2Body 5 start := SafeUpTo.safeRun (N := 9) (by decide +kernel)

/-! ## outside the domain: a condition triggered by hand -/

/-- `t = timeout(1); c = all_of([t]); c.succeed()` -/
def handBody : St → Resume → Burst ℚ St
  | (0, _), _ => .call (.timeout 1 .none) fun r1 => .call (.cond true [getEv r1]) fun r2 =>
      .call (.succeed (getEv r2) .none) fun _ => .ret .none
  | _, _ => .ret .none

/-- the first step of `handBody` is not in the domain -/
theorem hand_unsafe : ¬ DomStep handBody 5 start := by decide +kernel

/-- the `n`-th state of a run that has not ended yet is reachable -/
theorem reach_nth (body : St → Resume → Burst ℚ St) (n : Nat) (h : (Once.iter body 5 n start).isSome = true) :
    KReach body 5 start (nth body start n) := by
  unfold nth
  cases hn : Once.iter body 5 n start with
  | none => rw [hn] at h; cases h
  | some x => exact reach_of_iter n x hn

end Cond
