import OnlVerif.Lemmas.SndKRun
/-!
# The TCP sender on the kernel model: the invariants along the sending loop, and how a burst of `run` ends
-/

set_option linter.unusedSimpArgs false

namespace SndK
open SenderOnK TcpSender TcpScalar

variable {s : KS} {a : A}

theorem refill_more (S : Sender ℚ) : S.refill.size = S.size ∧ S.refill.proc = S.proc ∧ S.refill.tokens = S.tokens := by
  unfold Sender.refill
  split <;> exact ⟨rfl, rfl, rfl⟩

theorem refill_buf_le {cfg : Cfg} (hr : ARun cfg a) : a.S.refill.send_buffer ≤ cfg.size := by
  unfold Sender.refill
  split
  · rename_i hge
    show a.S.send_buffer + a.S.pktSize ≤ cfg.size
    have hb := hr.inv.buf
    have hle := hr.bufle
    have : a.S.pktSize ≤ cfg.size - a.S.next_seq := by
      have h0 : (cfg.size != 0) = true := by
        have := hr.spos
        simp only [bne_iff_ne, ne_eq]; omega
      have e : a.S.pktSize = min a.S.mss (cfg.size - a.S.next_seq) := by
        unfold Sender.pktSize
        rw [hr.size]
        simp only [h0, if_true]
      rw [e]
      exact Nat.min_le_right _ _
    omega
  · exact hr.bufle

/-- the invariants after a segment has been sent -/
theorem ARun.emit {cfg : Cfg} (hr : ARun cfg a) (P eid : Nat)
    (hs : a.S.sendStep = .sent (aEmit a cfg.mss P eid).S { seq := a.S.next_seq, size := cfg.mss, stamp := a.S.now, kind := .new }) :
    ARun cfg (aEmit a cfg.mss P eid) := by
  obtain ⟨fa, fb, fc, fd, fe, ff, fg, fh, fi, fj, fk⟩ := refill_frame a.S
  obtain ⟨g1, g2, g3⟩ := refill_more a.S
  obtain ⟨i1, _⟩ := (sendStep_spec hr.inv).2.1 _ _ hs
  have hnx : a.S.next_seq ∉ a.tks := by rw [hr.tks]; exact not_mem_segKeys hr.mpos
  have hnk : a.S.next_seq ∉ AL.keys a.S.timers := fun h => hnx (hr.tkeys.subset h)
  have hrto : 0 < a.S.est.rto := hr.inv.rto_pos
  refine ⟨i1, fa.trans hr.kind, fh.trans hr.mss, g1.trans hr.size, hr.mpos, hr.spos, hr.dvd, ?_, ?_, refill_buf_le hr, ?_,
    g2.trans hr.proc, hr.scr.congr fi, fun u hu => by
      show u.time = a.S.refill.now ∧ _
      rw [fi]; exact hr.pend u hu, ?_, by show a.putAt ≤ a.S.refill.now; rw [fi]; exact hr.putAt⟩
  · show a.tks ++ [a.S.next_seq] = segKeys cfg.mss (a.S.next_seq + cfg.mss)
    rw [segKeys_succ hr.mpos hr.nmul, hr.tks]
  · show cfg.mss ∣ a.S.next_seq + cfg.mss
    exact Dvd.dvd.add hr.nmul (dvd_refl _)
  · show (AL.keys (AL.set a.S.next_seq _ a.S.refill.timers)).Sublist (a.tks ++ [a.S.next_seq])
    rw [fc, AL.keys_set, if_neg hnk]
    exact List.Sublist.append hr.tkeys (List.Sublist.refl _)
  · intro seq hs'
    have hs2 : seq ∈ a.tks ++ [a.S.next_seq] := hs'
    rcases List.mem_append.mp hs2 with h | h
    · have hne : seq ≠ a.S.next_seq := fun e => hnx (e ▸ h)
      refine (hr.tm seq h).congr ?_ (upd_ne _ _ _ _ hne) (upd_ne _ _ _ _ hne) fi
      show AL.get? seq (AL.set a.S.next_seq _ a.S.refill.timers) = _
      rw [AL_get?_set, if_neg hne, fc]
    · simp only [List.mem_singleton] at h
      subst h
      have hg : AL.get? a.S.next_seq (aEmit a cfg.mss P eid).S.timers =
          some ⟨a.S.now + a.S.est.rto, a.S.now + a.S.est.rto, true⟩ := by
        show AL.get? a.S.next_seq (AL.set a.S.next_seq _ a.S.refill.timers) = _
        rw [AL_get?_set, if_pos rfl, arm_eq _ _ hrto]
      refine TmA.of_live hg ⟨?_, ?_, ?_⟩
      · show (upd a.tmc a.S.next_seq _ a.S.next_seq).stopped = false
        rw [upd_same]
      · show _ = (⟨(upd a.tmc a.S.next_seq _ a.S.next_seq).expire, (upd a.tmc a.S.next_seq _ a.S.next_seq).expire, true⟩ : TimerRec ℚ)
        rw [upd_same]
      · show (match upd a.tph a.S.next_seq _ a.S.next_seq with | .init q => _ | .sleep _ q => _ | _ => False)
        rw [upd_same]
        refine ⟨fi.symm, rfl, ?_⟩
        show a.S.refill.now < (upd a.tmc a.S.next_seq _ a.S.next_seq).expire
        rw [upd_same, fi]
        show a.S.now < a.S.now + a.S.est.rto
        linarith

/-! ## how a burst of `run` ends -/

/-- `run` returns (the flow is done) -/
theorem run_ret_end {e : EvId} {pr : ProcRec St} (h : KI (some 0) s a) (hph : a.run = .running) (hcur : a.cur = some e)
    (htag : tagOf pr.st = 1) :
    KI none (finishSt s 0 pr .none)
      { a with S := { a.S with proc := .finished }, run := .ending ⟨s.now + Num.zero, NORMAL, s.eid, 0⟩, cur := none } ∧
    ∃ v, ((finishSt s 0 pr .none).ev e).out = some (.ok v) := by
  have pt : ProcTag s 0 1 := h.k.pt0
  have pt2 : ProcTag s 2 0 := h.k.pt2
  have fr := finishSt_frame s 0 pr .none
  obtain ⟨_, k2, _, k4⟩ := h.k.keepP fr pt
  have hpe : EvIs s 0 .proc [] none := by
    have := h.k.run
    simp only [kernOf, hph, RunEv] at this
    exact this
  obtain ⟨c1, c2, v, c3⟩ := h.k.cur_out (κ := kernOf a) hcur
  have hne : e ≠ 0 := ne_of_cbs c2 hpe.2.1 (by simp)
  refine ⟨⟨?_, ?_⟩, v, ?_⟩
  · refine h.k.finish pt htag ?_ rfl rfl rfl ?_ rfl rfl rfl rfl ?_
      (k2 (by omega) (by simp))
      (fun seq hs => k4 seq hs (by omega)
        (by have := ProcTag.ne (show ProcTag s (a.tmp seq) (2 + seq) from h.k.ptm seq hs) pt (by omega)
            simpa [kernOf] using this))
    · simp only [Kern.entries, kernOf, hph, RPhase.entries]
      perm_lists
    · simp only [kernOf, hph, RPhase.getQ]
    · exact ⟨rfl, (finishSt_new s 0 pr .none hpe).1⟩
  · cells_same h.c
  · rw [fr.ev e c1 (by simpa using hne)]; exact c3

/-- `run` yields `cwnd_avaialbe.get()` and a token is there -/
theorem run_hit_end (body : St → Resume → Burst ℚ St) (fuel : Nat) {pr : ProcRec St} {e : EvId} {n : Nat} {now : ℚ}
    (h : KI (some 0) s a) (hph : a.run = .running) (hcur : a.cur = some e) (htok : a.S.tokens = n + 1) :
    ∃ S, TimerK.afterBurst body 0 fuel pr (runBurst 0 (sndWait now) s) = S ∧
      KI none S { a with S := { a.S with tokens := n, proc := .runnable },
                         run := .handed s.events.size now ⟨s.now, NORMAL, s.eid, s.events.size⟩, cur := none } ∧
      ∃ v, (S.ev e).out = some (.ok v) := by
  have htk := h.k.tok
  simp only [kernOf, hph, RPhase.getQ, htok, List.replicate_succ] at htk
  obtain ⟨c1, _, v, c3⟩ := h.k.cur_out (κ := kernOf a) hcur
  refine ⟨_, afterBurst_getHit body fuel pr s now (List.replicate n 1) h.k.rsz htk, ⟨?_, ?_⟩, v, ?_⟩
  · exact KK.getHit (n := n) h.k hph
  · cells_same h.c
  · rw [(getHitSt_frame s now _).ev e c1 (by simp)]; exact c3

/-- `run` yields `cwnd_avaialbe.get()` and no token is there: it blocks -/
theorem run_miss_end (body : St → Resume → Burst ℚ St) (fuel : Nat) {pr : ProcRec St} {e : EvId} {now : ℚ}
    (h : KI (some 0) s a) (hph : a.run = .running) (hcur : a.cur = some e) (htok : a.S.tokens = 0) :
    ∃ S, TimerK.afterBurst body 0 fuel pr (runBurst 0 (sndWait now) s) = S ∧
      KI none S { a with S := { a.S with proc := .blocked }, run := .blocked s.events.size now, cur := none } ∧
      ∃ v, (S.ev e).out = some (.ok v) := by
  have htk := h.k.tok
  simp only [kernOf, hph, RPhase.getQ, htok, List.replicate_zero] at htk
  obtain ⟨c1, _, v, c3⟩ := h.k.cur_out (κ := kernOf a) hcur
  refine ⟨_, afterBurst_getMiss body fuel pr s now h.k.rsz htk, ⟨?_, ?_⟩, v, ?_⟩
  · exact KK.getMiss h.k hph htok
  · cells_same h.c
  · rw [(getMissSt_frame s now).ev e c1 (by simp)]; exact c3

end SndK
