import OnlVerif.Generated.Sp13
import OnlVerif.Net.Sched.SP
/-!
# Bridge lemmas: `Generated/Sp13.lean` (py2lean's translation of `onl/scheduler/sp.py`) against the record `Net/Sched/SP.lean`

`Gen.pySorted` is Python's `sorted(key=…, reverse=…)` as core's stable `List.mergeSort`; the model's table is built by the insertion sort
`SP.sortDesc`.  `order_eq` proves them equal on every dict (stability included: `List.mergeSort_cons`).
-/

namespace GenSp13
open SP

/-- the comparison `sorted(…, key=lambda item: item[1], reverse=True)` sorts by -/
def leDesc (a b : Nat × Int) : Bool := decide (b.2 ≤ a.2)

theorem leDesc_trans (a b c : Nat × Int) : leDesc a b → leDesc b c → leDesc a c := by
  unfold leDesc
  simp only [decide_eq_true_eq]
  omega

theorem leDesc_total (a b : Nat × Int) : leDesc a b || leDesc b a := by
  unfold leDesc
  simp only [Bool.or_eq_true, decide_eq_true_eq]
  omega

theorem init_order_def (l : List (Nat × Int)) : Gen.SP.init_order l = l.mergeSort leDesc := by
  unfold Gen.SP.init_order Gen.pySorted
  congr 1

/-- `a` goes behind the strictly larger priorities and before everything else -/
theorem insertDesc_append (a : Nat × Int) (l₂ : List (Nat × Int)) (h₂ : ∀ b ∈ l₂, b.2 ≤ a.2) :
    ∀ (l₁ : List (Nat × Int)), (∀ b ∈ l₁, a.2 < b.2) → insertDesc a (l₁ ++ l₂) = l₁ ++ a :: l₂
  | [], _ => by
    cases l₂ with
    | nil => rfl
    | cons b r =>
      have hb : b.2 ≤ a.2 := h₂ b (List.mem_cons_self ..)
      show (if a.2 < b.2 then b :: insertDesc a r else a :: b :: r) = a :: b :: r
      rw [if_neg (by omega)]
  | c :: l₁, h₁ => by
    have hc : a.2 < c.2 := h₁ c (List.mem_cons_self ..)
    show (if a.2 < c.2 then c :: insertDesc a (l₁ ++ l₂) else a :: c :: (l₁ ++ l₂)) = c :: (l₁ ++ a :: l₂)
    rw [if_pos hc, insertDesc_append a l₂ h₂ l₁ (fun b hb => h₁ b (List.mem_cons_of_mem _ hb))]

/-- **Python's stable descending sort is the model's table** -/
theorem order_eq : ∀ (l : List (Nat × Int)), Gen.SP.init_order l = sortDesc l
  | [] => by rw [init_order_def]; simp [sortDesc]
  | a :: l => by
    have ih := order_eq l
    rw [init_order_def] at ih ⊢
    obtain ⟨l₁, l₂, h1, h2, h3⟩ := List.mergeSort_cons leDesc_trans leDesc_total a l
    have hp := List.pairwise_mergeSort leDesc_trans leDesc_total (a :: l)
    rw [h1, List.pairwise_append] at hp
    have hp2 := (List.pairwise_cons.mp hp.2.1).1
    show _ = insertDesc a (sortDesc l)
    rw [← ih, h1, h2]
    refine (insertDesc_append a l₂ (fun b hb => ?_) l₁ (fun b hb => ?_)).symm
    · have := hp2 b hb
      unfold leDesc at this
      simpa using this
    · have := h3 b hb
      unfold leDesc at this
      simp only [Bool.not_eq_true', decide_eq_false_iff_not] at this
      omega

/-- the scan picks the first entry of the table with a positive priority and a non-empty store -/
theorem run_scan_eq (size : Nat → Int) : ∀ (t : List (Nat × Int)),
    Gen.SP.run_scan size t = t.find? (fun e => decide (0 < e.2) && !decide (size e.1 = 0))
  | [] => rfl
  | (f, pr) :: rest => by
    rw [Gen.SP.run_scan, List.find?_cons]
    unfold Gen.SP.run_entry
    by_cases hp : (0 : Int) < pr
    · by_cases hs : size f = 0
      · simp only [hp, hs, if_true, decide_true, Bool.not_true, Bool.and_false]
        exact run_scan_eq size rest
      · simp only [hp, hs, if_true, if_false, decide_true, decide_false, Bool.not_false, Bool.and_true]
    · simp only [hp, if_false, decide_false, Bool.false_and]
      exact run_scan_eq size rest

variable {α : Type} [Num α]

/-- one step of the model's scan is the translated body of the `for` loop on the entry in hand -/
theorem micro_scan_eq (c : Cfg α) (i : Nat) (v : MQ.View) :
    micro c (.scan i) v =
      match (table c)[i]? with
      | none => .goto .endPass
      | some (f, pr) =>
        match Gen.SP.run_entry pr (v.storeLen f : Nat) with
        | .next => .goto (.scan (i + 1))
        | .serve _ => .get f (.got i) := by
  simp only [micro]
  cases (table c)[i]? with
  | none => rfl
  | some e =>
    obtain ⟨f, pr⟩ := e
    simp only
    unfold Gen.SP.run_entry
    by_cases hp : (0 : Int) < pr
    · by_cases hs : v.storeLen f = 0
      · simp only [hp, hs, if_true, Int.natCast_zero]
      · have : ¬ ((v.storeLen f : Nat) : Int) = 0 := by omega
        simp only [hp, this, hs, if_true, if_false]
    · simp only [hp, if_false]

theorem micro_endPass_eq (c : Cfg α) (v : MQ.View) :
    micro c .endPass v = if Gen.SP.run_wait v.total = true then .block (.scan 0) else .goto (.scan 0) := by
  simp only [micro, Gen.SP.run_wait, decide_eq_true_eq]

theorem serve_rescans (pr size : Int) (r : Bool) (h : Gen.SP.run_entry pr size = .serve r) : r = true := by
  unfold Gen.SP.run_entry at h
  split at h
  · split at h
    · cases h
    · cases h; rfl
  · cases h

end GenSp13
