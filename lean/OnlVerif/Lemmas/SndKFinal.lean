import OnlVerif.Lemmas.SndKAbs
/-!
# The TCP sender on the kernel model: reachable states, runs, and the transfer of the LTS theorems
-/

set_option linter.unusedSimpArgs false

namespace SndK
open SenderOnK TcpSender TcpCC

/-- what the theorems assume of a sender, its flow and the network script: a congestion-control object that satisfies the
invariant of C17 (`cwnd ≥ mss > 0`, `ssthresh ≥ 0`; for CUBIC `W_last_max = 0`, `beta ≠ 2`), a positive initial
`rtt_estimate`, a positive MSS, a positive flow size that is a multiple of the MSS, and a script with non-negative gaps
whose ACK packets carry `flow_id ≥ 10000` and are not stamped in the future of their delivery -/
structure Setup (cfg : Cfg) (cc : CCState ℚ) (rtt : ℚ) (script : Script) : Prop where
  cc : CCInv cfg.kind cc
  rtt : 0 < rtt
  mss : 0 < cfg.mss
  size : 0 < cfg.size
  dvd : cfg.mss ∣ cfg.size
  script : ScriptOK 0 script

/-- the LTS state of a freshly constructed generator -/
def S0 (cfg : Cfg) (cc : CCState ℚ) (rtt : ℚ) : Sender ℚ := Sender.init cfg.kind cc rtt cfg.mss (some cfg.size) 0

/-- **every reachable kernel state has a configuration that satisfies the invariants**, and the sender LTS accepts an action
sequence from the initial LTS state to the LTS state of that configuration whose transmissions are the `tx` observations -/
theorem reach_inv {cfg : Cfg} {cc : CCState ℚ} {rtt : ℚ} {script : Script} (hs : Setup cfg cc rtt script) (fuel : Nat)
    {s : KS} (hr : KReach (body cfg) (fuel + 1) (initState cc rtt script) s) :
    ∃ a acts outs, KI none s a ∧ AInv cfg a ∧ runLts (S0 cfg cc rtt) acts = .ok a.S outs ∧ a.txs = outs.map txPair ∧
      ∀ x ∈ acts, ActOk x := by
  induction hr with
  | init =>
    exact ⟨a0 cfg cc rtt script, [], [], ki_init cfg cc rtt script,
      ainv_init cfg cc rtt script hs.cc hs.rtt hs.mss hs.size hs.dvd hs.script, rfl, rfl, fun x hx => by cases hx⟩
  | @step s s' _ hst ih =>
    obtain ⟨a, acts, outs, hk, hi, hrun, htx, hok⟩ := ih
    cases hp : popMin s.agenda with
    | none => simp [step, hp, StepResult.state?] at hst
    | some qr =>
      obtain ⟨q, rest⟩ := qr
      obtain ⟨s2, a2, acts2, outs2, g1, g2, g3, g4, g5, g6⟩ := inv_step fuel hk hi hp
      rw [g1] at hst
      simp only [StepResult.state?, Option.some.injEq] at hst
      subst hst
      refine ⟨a2, acts ++ acts2, outs ++ outs2, g2, g3, runLts_append hrun g4, ?_, ?_⟩
      · rw [g5, htx, List.map_append]
      · intro x hx
        rcases List.mem_append.mp hx with h | h
        · exact hok x h
        · exact g6 x h

/-- a property of single LTS steps holds along an action sequence -/
def Along (P : Sender ℚ → Act ℚ → Sender ℚ → List (Tx ℚ) → Prop) : Sender ℚ → List (Act ℚ) → Prop
  | _, [] => True
  | S, x :: xs => ∃ S' o, S.step x = .ok S' o ∧ P S x S' o ∧ Along P S' xs

/-- every step of an accepted run from a state that satisfies the LTS invariant starts in such a state -/
theorem along_of_run {P : Sender ℚ → Act ℚ → Sender ℚ → List (Tx ℚ) → Prop}
    (hP : ∀ S x S' o, TcpSender.Inv S → ActOk x → S.step x = .ok S' o → P S x S' o) :
    ∀ (acts : List (Act ℚ)) (S S' : Sender ℚ) (outs : List (Tx ℚ)), TcpSender.Inv S → (∀ x ∈ acts, ActOk x) →
      runLts S acts = .ok S' outs → Along P S acts ∧ TcpSender.Inv S'
  | [], S, S', outs, hi, _, hr => by
    simp only [runLts] at hr
    cases hr
    exact ⟨trivial, hi⟩
  | x :: xs, S, S', outs, hi, hok, hr => by
    simp only [runLts] at hr
    cases hx : S.step x with
    | ok S1 o =>
      rw [hx] at hr
      simp only at hr
      cases hr2 : runLts S1 xs with
      | ok S2 o2 =>
        rw [hr2] at hr
        simp only at hr
        cases hr
        have hi1 : TcpSender.Inv S1 := (step_safe hi x (hok x List.mem_cons_self)).2 _ _ hx
        obtain ⟨i1, i2⟩ := along_of_run hP xs S1 S' o2 hi1 (fun y hy => hok y (List.mem_cons_of_mem _ hy)) hr2
        exact ⟨⟨S1, o, hx, hP S x S1 o hi (hok x List.mem_cons_self) hx, i1⟩, i2⟩
      | reject w => rw [hr2] at hr; cases hr
      | error e => rw [hr2] at hr; cases hr
    | reject w => rw [hx] at hr; cases hr
    | error e => rw [hx] at hr; cases hr

/-- an accepted run with well-formed ACKs is a run of `TcpSender.Reach` -/
theorem reach_of_run : ∀ (acts : List (Act ℚ)) (S0 S S' : Sender ℚ) (outs : List (Tx ℚ)), Reach S0 S →
    (∀ x ∈ acts, ActOk x) → runLts S acts = .ok S' outs → Reach S0 S'
  | [], _, S, S', outs, hr0, _, hr => by
    simp only [runLts] at hr
    cases hr
    exact hr0
  | x :: xs, S0, S, S', outs, hr0, hok, hr => by
    simp only [runLts] at hr
    cases hx : S.step x with
    | ok S1 o =>
      rw [hx] at hr
      simp only at hr
      cases hr2 : runLts S1 xs with
      | ok S2 o2 =>
        rw [hr2] at hr
        simp only at hr
        cases hr
        exact reach_of_run xs S0 S1 S' o2 (Reach.step hr0 (hok x List.mem_cons_self) hx)
          (fun y hy => hok y (List.mem_cons_of_mem _ hy)) hr2
      | reject w => rw [hr2] at hr; cases hr
      | error e => rw [hr2] at hr; cases hr
    | reject w => rw [hx] at hr; cases hr
    | error e => rw [hx] at hr; cases hr

/-- **one kernel step of a reachable state**: it is normal, the abstraction of the state satisfies the LTS invariant, and the
LTS accepts an action sequence (with well-formed ACKs) between the abstractions of the two states whose transmissions are the
`tx` observations the step appended -/
theorem step_events {cfg : Cfg} {cc : CCState ℚ} {rtt : ℚ} {script : Script} (hs : Setup cfg cc rtt script) (fuel : Nat)
    {s s' : KS} (hr : KReach (body cfg) (fuel + 1) (initState cc rtt script) s)
    (hstep : (step (body cfg) (fuel + 1) s).state? = some s') :
    step (body cfg) (fuel + 1) s = .ok s' ∧ TcpSender.Inv (absSender cfg s) ∧
    ∃ acts outs, runLts (absSender cfg s) acts = .ok (absSender cfg s') outs ∧
      txsOf s'.trace = txsOf s.trace ++ outs.map txPair ∧ ∀ x ∈ acts, ActOk x := by
  obtain ⟨a, _, _, hk, hi, _, _, _⟩ := reach_inv hs fuel hr
  cases hp : popMin s.agenda with
  | none => simp [step, hp, StepResult.state?] at hstep
  | some qr =>
    obtain ⟨q, rest⟩ := qr
    obtain ⟨s2, a2, acts2, outs2, g1, g2, g3, g4, g5, g6⟩ := inv_step fuel hk hi hp
    rw [g1] at hstep
    simp only [StepResult.state?, Option.some.injEq] at hstep
    subst hstep
    refine ⟨g1, by rw [abs_eq hk hi]; exact hi.inv, acts2, outs2, ?_, ?_, g6⟩
    · rw [abs_eq hk hi, abs_eq g2 g3]; exact g4
    · have h1 : txsOf s.trace = a.txs := hk.k.tx
      have h2 : txsOf s2.trace = a2.txs := g2.k.tx
      rw [h1, h2, g5]

/-- the next kernel step of a reachable state is normal, or the agenda is empty -/
theorem step_ok_or_empty {cfg : Cfg} {cc : CCState ℚ} {rtt : ℚ} {script : Script} (hs : Setup cfg cc rtt script) (fuel : Nat)
    {s : KS} (hr : KReach (body cfg) (fuel + 1) (initState cc rtt script) s) :
    (∃ s', step (body cfg) (fuel + 1) s = .ok s') ∨ step (body cfg) (fuel + 1) s = .empty := by
  obtain ⟨a, _, _, hk, hi, _, _, _⟩ := reach_inv hs fuel hr
  cases hp : popMin s.agenda with
  | none => right; simp [step, hp]
  | some qr =>
    obtain ⟨q, rest⟩ := qr
    obtain ⟨s2, _, _, _, g1, _⟩ := inv_step fuel hk hi hp
    exact Or.inl ⟨s2, g1⟩

/-- the states the `while True: self.step()` loop of `run()` goes through are reachable -/
theorem runLoop_reach {b : St → Resume → Burst ℚ St} {fuel : Nat} {s0 : KS}
    (hok : ∀ s, KReach b fuel s0 s → (∃ s', step b fuel s = .ok s') ∨ step b fuel s = .empty) :
    ∀ (n : Nat) (s : KS), KReach b fuel s0 s →
      ∃ s', lastState (runLoop b fuel none n s) = some s' ∧ KReach b fuel s0 s'
  | 0, s, h => ⟨s, rfl, h⟩
  | n + 1, s, h => by
    rcases hok s h with ⟨s', hs⟩ | hs
    · have := runLoop_reach hok n s' (KReach.step h (by rw [hs]; rfl))
      simpa [runLoop, hs] using this
    · exact ⟨s, by simp [runLoop, hs, lastState], h⟩

/-- an accepted `ack` action is not stamped in the future -/
theorem ackOk_of_step {S S' : Sender ℚ} {x : AckIn ℚ} {o : List (Tx ℚ)} (hx : ActOk (.ack x)) (h : S.step (.ack x) = .ok S' o) :
    AckOk S x := by
  refine ⟨hx, ?_⟩
  by_contra hc
  have : S.step (.ack x) = .reject .fromFuture := by
    show S.ackStep x = _
    unfold Sender.ackStep
    have h1 : ¬ x.fid < 10000 := Nat.not_lt.mpr hx
    simp only [h1, if_false, not_le.mp hc, if_true]
  rw [this] at h; cases h


end SndK
