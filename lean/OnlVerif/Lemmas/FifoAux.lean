import OnlVerif.Lemmas.FifoTrans
/-! # Small generic facts about the FifoServer LTS used by the Wire / TokenBucket / TwoRate invariants -/

namespace Fifo
variable {δ : Type}

theorem issueGet_dev' (s : FState ℚ δ) : (issueGet s).dev = s.dev := by
  unfold issueGet; split <;> rfl

theorem issueGet_tx' (s : FState ℚ δ) : (issueGet s).tx = s.tx := by
  unfold issueGet; split <;> rfl

theorem issueGet_now (s : FState ℚ δ) : (issueGet s).now = s.now := by
  unfold issueGet; split <;> rfl

theorem issueGet_started (s : FState ℚ δ) : (issueGet s).started = s.started := by
  unfold issueGet; split <;> rfl

/-- what `store.get()` does: take the head item, or block -/
theorem issueGet_cases (s : FState ℚ δ) :
    (∃ p rest, s.items = p :: rest ∧ issueGet s = { s with items := rest, handed := some p }) ∨
    (s.items = [] ∧ issueGet s = { s with getPending := true }) := by
  unfold issueGet
  cases h : s.items with
  | nil => exact Or.inr ⟨rfl, rfl⟩
  | cons p rest => exact Or.inl ⟨p, rest, rfl, rfl⟩

/-- the server has issued its next `get` (it is blocked in it or already served) and sleeps on nothing -/
def AtGet (s : FState ℚ δ) : Prop := (s.getPending = true ∨ s.handed.isSome) ∧ s.tx = none

theorem issueGet_atGet (s : FState ℚ δ) (ht : s.tx = none) : AtGet (issueGet s) := by
  rcases issueGet_cases s with ⟨p, rest, _, h⟩ | ⟨_, h⟩
  · rw [h]; exact ⟨Or.inr rfl, ht⟩
  · rw [h]; exact ⟨Or.inl rfl, ht⟩

theorem shape_started_of_handed {s : FState ℚ δ} (h : Shape s) {p} (hp : s.handed = some p) : s.started = true := by
  by_contra hc
  have := h.1 (by simpa using hc)
  rw [this.2.1] at hp; cases hp

theorem shape_of_handed {s : FState ℚ δ} (h : Shape s) {p} (hp : s.handed = some p) :
    s.started = true ∧ s.getPending = false ∧ s.tx = none := by
  have hst := shape_started_of_handed h hp
  rcases h.2 hst with h1 | h1 | h1
  · rw [h1.2.1] at hp; cases hp
  · exact ⟨hst, h1.1, h1.2.2⟩
  · rw [h1.2.1] at hp; cases hp

theorem shape_of_tx {s : FState ℚ δ} (h : Shape s) {x} (hx : s.tx = some x) :
    s.started = true ∧ s.getPending = false ∧ s.handed = none := by
  have hst : s.started = true := by
    by_contra hc
    have := h.1 (by simpa using hc)
    rw [this.2.2] at hx; cases hx
  rcases h.2 hst with h1 | h1 | h1
  · rw [h1.2.2] at hx; cases hx
  · rw [h1.2.2] at hx; cases hx
  · exact ⟨hst, h1.1, h1.2.1⟩

theorem shape_of_pending {s : FState ℚ δ} (h : Shape s) (hg : s.getPending = true) :
    s.started = true ∧ s.handed = none ∧ s.tx = none := by
  have hst : s.started = true := by
    by_contra hc
    have := h.1 (by simpa using hc)
    rw [this.1] at hg; cases hg
  rcases h.2 hst with h1 | h1 | h1
  · exact ⟨hst, h1.2⟩
  · rw [h1.1] at hg; cases hg
  · rw [h1.1] at hg; cases hg

/-- an invariant kept by every accepted step holds after every accepted action sequence -/
theorem run_induct (d : Dev ℚ δ) (P : FState ℚ δ → Prop)
    (hstep : ∀ s a s' o, P s → step d s a = .ok (s', o) → P s')
    (as : List (FAct ℚ)) (s s' : FState ℚ δ) (ins outs : List Nat) (h0 : P s)
    (h : runActs d s as = .ok (s', ins, outs)) : P s' := by
  induction as generalizing s ins outs with
  | nil =>
    simp only [runActs, Except.ok.injEq, Prod.mk.injEq] at h
    obtain ⟨rfl, _, _⟩ := h
    exact h0
  | cons a as ih =>
    simp only [runActs] at h
    split at h
    · cases h
    · rename_i s1 o h1
      split at h
      · cases h
      · rename_i s2 ins2 outs2 h2
        simp only [Except.ok.injEq, Prod.mk.injEq] at h
        obtain ⟨rfl, _, _⟩ := h
        exact ih s1 ins2 outs2 (hstep s a s1 o h0 h1) h2

/-- every prefix of an accepted run is accepted: the state after `as` when `as ++ bs` is accepted -/
theorem run_prefix (d : Dev ℚ δ) (as bs : List (FAct ℚ)) (s s' : FState ℚ δ) (ins outs : List Nat)
    (h : runActs d s (as ++ bs) = .ok (s', ins, outs)) :
    ∃ s1 i1 o1, runActs d s as = .ok (s1, i1, o1) ∧ ∃ i2 o2, runActs d s1 bs = .ok (s', i2, o2) := by
  induction as generalizing s ins outs with
  | nil => exact ⟨s, [], [], rfl, ins, outs, h⟩
  | cons a as ih =>
    simp only [List.cons_append, runActs] at h ⊢
    split at h
    · cases h
    · rename_i s1 o h1
      split at h
      · cases h
      · rename_i s2 ins2 outs2 h2
        simp only [Except.ok.injEq, Prod.mk.injEq] at h
        obtain ⟨rfl, _, _⟩ := h
        obtain ⟨s3, i1, o1, h3, i2, o2, h4⟩ := ih s1 ins2 outs2 h2
        refine ⟨s3, entered a o ++ i1, left o ++ o1, ?_, i2, o2, h4⟩
        rw [h3]

end Fifo
