import OnlVerif.Lemmas.StampWfq
/-!
# WFQ: stamps of one class increase strictly; configured workloads never raise
-/

namespace WFQ
open Stamp

/-- positive rate and weights -/
structure Pos (c : WfqCfg ℚ) : Prop where
  rate : 0 < c.rate
  w : ∀ k w, lookup c.weights k = some w → 0 < w

/-- waiting packets of one class carry strictly increasing stamps (in order of arrival) -/
def ClsSorted (c : WfqCfg ℚ) (l : List (Item ℚ)) : Prop :=
  l.Pairwise fun a b => clsOf c a.pkt.flow = clsOf c b.pkt.flow → a.stamp < b.stamp

structure WOrd (c : WfqCfg ℚ) (s : WState) : Prop where
  cap : ∀ it ∈ s.items, ∀ k, clsOf c it.pkt.flow = some k → ∃ F, lookup s.sch.finish k = some F ∧ it.stamp ≤ F
  srt : ClsSorted c s.items

theorem ClsSorted.flowSorted {c : WfqCfg ℚ} {l : List (Item ℚ)} (h : ClsSorted c l) : FlowSorted l :=
  List.Pairwise.imp (fun {a b} hab hf => hab (by rw [hf])) h

theorem init_word (c : WfqCfg ℚ) (t0 : ℚ) : WOrd c (start t0) := by
  refine ⟨?_, ?_⟩
  · intro it hit; simp [start, Stamp.init] at hit
  · simp [ClsSorted, start, Stamp.init]

theorem item_mem_held' {s : WState} {it : Item ℚ} (h : it ∈ s.items) : it.pkt ∈ held' s := by
  simp only [held', held, waiting, List.mem_append, List.mem_map]
  exact Or.inl (Or.inr ⟨it, h, rfl⟩)

theorem WInv.items_nil {c : WfqCfg ℚ} {s : WState} (h : WInv c s) (ha : s.sch.active = []) : s.items = [] := by
  have he := h.active_nil_iff.mp ha
  by_contra hne
  obtain ⟨it, hit⟩ := List.exists_mem_of_ne_nil _ hne
  have := item_mem_held' hit
  rw [he] at this
  simp at this

/-- `total_packets == 0`: nothing waits -/
theorem WInv.items_nil_of_total {c : WfqCfg ℚ} {s : WState} (h : WInv c s) (h0 : qcTotal s.queueCount = 0) :
    s.items = [] := by
  have he := h.tot.zero_iff.mp h0
  simp only [held, List.append_eq_nil_iff, waiting, List.map_eq_nil_iff] at he
  exact he.2

/-- the bookkeeping burst leaves the finish times alone unless the scheduler empties -/
theorem done_finish (c : WfqCfg ℚ) (st st' : WfqSt ℚ) (now : ℚ) (p : SPkt) (h : done c st now p = .ok st')
    (hne : st'.active ≠ []) : st'.finish = st.finish := by
  obtain ⟨st1, k, st2, hu, _, hl, rfl⟩ := done_spec c _ _ _ _ h
  obtain ⟨_, _, rfl⟩ := updateVtime_spec c _ _ _ hu
  obtain ⟨n, _, hcase⟩ := leave_spec _ _ _ hl
  rw [settle_active] at hne
  have hne' : ¬ st2.active.isEmpty = true := by simpa using hne
  simp only [settle, hne', if_false, Bool.false_eq_true]
  rcases hcase with ⟨_, _, rfl⟩ | ⟨_, rfl⟩ <;> rfl

theorem stampOf_gt (c : WfqCfg ℚ) (hp : Pos c) (f v w : ℚ) (hw : 0 < w) (size : Nat) (hs : 0 < size) :
    f < stampOf c f v w size := by
  rw [stampOf_eq]
  have h1 : 0 < 8 * (size : ℚ) / (c.rate * w) := by
    apply div_pos
    · have : (0 : ℚ) < size := by exact_mod_cast hs
      linarith
    · exact mul_pos hp.rate hw
  have h2 : f ≤ max f v := le_max_left _ _
  linarith

/-- **`WOrd` is an invariant** (positive rate and weights, packets of positive size). -/
theorem step_word {c : WfqCfg ℚ} (hp : Pos c) {s s' : WState} {a : StAct ℚ} {o : StOut} (hw : WInv c s)
    (hw' : WInv c s') (ho : WOrd c s) (ht : Trans (sched c) s a s' o) (hsz : ∀ p ∈ entered a o, 0 < p.size) :
    WOrd c s' := by
  have sub_ord : ∀ (l : List (Item ℚ)) (sch : WfqSt ℚ), l.Sublist s.items → sch.finish = s.sch.finish →
      (∀ it ∈ l, ∀ k, clsOf c it.pkt.flow = some k → ∃ F, lookup sch.finish k = some F ∧ it.stamp ≤ F) ∧
        ClsSorted c l := by
    intro l sch hl hf
    refine ⟨?_, ho.srt.sublist hl⟩
    intro it hit k hk
    rw [hf]
    exact ho.cap it (hl.subset hit) k hk
  cases ht with
  | initBlock h1 h2 => exact ⟨ho.cap, ho.srt⟩
  | initServe id it rest h1 h2 =>
    obtain ⟨pre, post, hl, rfl⟩ := held_picked h2
    have := sub_ord (pre ++ post) s.sch (by rw [hl]; simp) rfl
    exact ⟨this.1, this.2⟩
  | handoff id it rest h1 h2 =>
    obtain ⟨pre, post, hl, rfl⟩ := held_picked h2
    have := sub_ord (pre ++ post) s.sch (by rw [hl]; simp) rfl
    exact ⟨this.1, this.2⟩
  | resume it h1 => exact ⟨ho.cap, ho.srt⟩
  | sendInit p h1 h2 h3 => exact ⟨ho.cap, ho.srt⟩
  | sendFire p due h1 h2 => exact ⟨ho.cap, ho.srt⟩
  | tick t h1 => exact ⟨ho.cap, ho.srt⟩
  | sample b => exact ho
  | doneBlock p sch h1 h2 h3 =>
    refine ⟨?_, ?_⟩
    · intro it hit; simp only [h3] at hit; simp at hit
    · simp only [h3, ClsSorted]; simp
  | doneServe p sch id it rest h1 h2 h3 =>
    obtain ⟨pre, post, hl, rfl⟩ := held_picked h3
    by_cases hne : sch.active = []
    · have := hw'.items_nil hne
      simp only at this
      refine ⟨?_, ?_⟩
      · intro x hx; simp only [this] at hx; simp at hx
      · simp only [this, ClsSorted]; simp
    · have hf := done_finish c _ _ _ _ h2 hne
      have := sub_ord (pre ++ post) sch (by rw [hl]; simp) hf
      exact ⟨this.1, this.2⟩
  | put p sch stamp h1 =>
    obtain ⟨k, st1, f, w, hk, ha, hf, hwt, hz, rfl, rfl⟩ := put_spec c _ _ _ _ _ _ h1
    have hpsz : 0 < p.size := hsz p (by simp [entered])
    have hwpos := hp.w k w hwt
    have hgt := stampOf_gt c hp f st1.vtime w hwpos p.size hpsz
    -- the finish times the old items are capped by survive `advance`
    have hold : ∀ it ∈ s.items, ∀ k', clsOf c it.pkt.flow = some k' →
        ∃ F, lookup st1.finish k' = some F ∧ it.stamp ≤ F := by
      intro it hit k' hk'
      rcases advance_spec c _ _ _ _ ha with ⟨h0, _⟩ | ⟨_, _, _, rfl⟩
      · have := hw.items_nil_of_total h0
        rw [this] at hit; simp at hit
      · exact ho.cap it hit k' hk'
    refine ⟨?_, ?_⟩
    · intro it hit k' hk'
      simp only [enqueue, List.mem_append, List.mem_singleton] at hit
      show ∃ F, lookup (setKey st1.finish k _) k' = some F ∧ _
      rw [lookup_setKey]
      rcases hit with hit | rfl
      · obtain ⟨F0, hF0, hle⟩ := hold it hit k' hk'
        by_cases h : k' = k
        · subst h
          rw [hf] at hF0; cases hF0
          exact ⟨_, by simp, le_of_lt (lt_of_le_of_lt hle hgt)⟩
        · exact ⟨F0, by simp [h, hF0], hle⟩
      · simp only [clsOf] at hk'
        rw [hk] at hk'
        cases hk'
        exact ⟨_, by simp, le_refl _⟩
    · simp only [enqueue, ClsSorted]
      refine List.pairwise_append.mpr ⟨ho.srt, by simp, ?_⟩
      intro x hx y hy hcls
      simp only [List.mem_singleton] at hy
      subst hy
      simp only [clsOf] at hcls
      rw [hk] at hcls
      obtain ⟨F0, hF0, hle⟩ := hold x hx k hcls
      rw [hf] at hF0; cases hF0
      exact lt_of_le_of_lt hle hgt

/-! ### reachable states -/

theorem run_winv (c : WfqCfg ℚ) {t0 : ℚ} {s : WState} {ins outs : List SPkt}
    (h : Run (sched c) (start t0) s ins outs) : GInv s ∧ WInv c s := by
  induction h with
  | nil => exact ⟨init_ginv _ _, init_winv c t0⟩
  | snoc _ ht ih => exact ⟨(step_ginv ih.1 ht).1, step_winv ih.1 ih.2 ht⟩

theorem run_word (c : WfqCfg ℚ) (hp : Pos c) {t0 : ℚ} {s : WState} {ins outs : List SPkt}
    (h : Run (sched c) (start t0) s ins outs) (hsz : ∀ p ∈ ins, 0 < p.size) : WOrd c s := by
  induction h with
  | nil => exact init_word c t0
  | @snoc s1 s2 i1 o1 a o hr ht ih =>
    have h1 := run_winv c hr
    have h2 := step_winv h1.1 h1.2 ht
    exact step_word hp h1.2 h2 (ih (fun p hp' => hsz p (List.mem_append_left _ hp'))) ht
      (fun p hp' => hsz p (List.mem_append_right _ hp'))

/-! ### no exception on configured workloads -/

theorem wOf_pos {c : WfqCfg ℚ} (hp : Pos c) {k : Nat} (h : (lookup c.weights k).isSome) : 0 < wOf c.weights k := by
  obtain ⟨w, hw⟩ := Option.isSome_iff_exists.mp h
  simp only [wOf, hw, Option.getD_some]
  exact hp.w k w hw

theorem WInv.wsum_ne {c : WfqCfg ℚ} (hp : Pos c) {s : WState} (h : WInv c s) (hne : s.sch.active ≠ []) :
    wSum c.weights s.sch.active ≠ 0 :=
  ne_of_gt (wSum_pos _ _ hne (fun k hk => wOf_pos hp (h.active_weighted k hk)))

/-- **WFQ never raises** in a reachable state, whatever ties there are, as long as arriving packets belong to
configured flows: every failure of `step` is a `reject` (a wrong label), never a Python exception. -/
theorem step_no_raise {c : WfqCfg ℚ} (hp : Pos c) {s : WState} (hw : WInv c s) (a : StAct ℚ)
    (hconf : ∀ p, a = .put p → ∃ k w, clsOf c p.flow = some k ∧ lookup c.weights k = some w) (e : String) :
    step (sched c) s a ≠ .error (.raise e) := by
  apply step_no_raise_of (d := sched c) hp.rate s a
  · intro p hpa
    obtain ⟨k, w, hk, hwt⟩ := hconf p hpa
    have hadv : ∃ st1, advance c s.sch s.now (qcTotal s.queueCount) = .ok st1 ∧ ∃ f, lookup st1.finish k = some f := by
      unfold advance
      by_cases h0 : qcTotal s.queueCount = 0
      · rw [if_pos h0]
        exact ⟨_, rfl, 0, by simp [resetVtime, lookup_zeroFinish, hwt]⟩
      · have hnil := hw.active_ne_of_total h0
        rw [if_neg h0, updateVtime_ok c _ _ (fun k hk => hw.active_weighted k hk) (hw.wsum_ne hp hnil)]
        exact ⟨_, rfl, hw.fkeys hnil k w hwt⟩
    obtain ⟨st1, ha, f, hf⟩ := hadv
    have hz : c.rate * w ≠ 0 := ne_of_gt (mul_pos hp.rate (hp.w k w hwt))
    exact ⟨_, put_ok c s.sch st1 s.now _ p k f w hk ha hf hwt hz⟩
  · intro p hfin
    have hpm : p ∈ held' s := by simp [held', finL, hfin]
    obtain ⟨k, w, hk, hwt⟩ := hw.conf p hpm
    have hka : k ∈ s.sch.active := (hw.active_iff k).mpr ⟨p, hpm, hk⟩
    have hne : s.sch.active ≠ [] := by intro h; rw [h] at hka; simp at hka
    have hu := updateVtime_ok c s.sch s.now (fun k hk => hw.active_weighted k hk) (hw.wsum_ne hp hne)
    have hcc : 0 < ccOf s.sch k := (hw.act k).mp hka
    obtain ⟨n, hn⟩ : ∃ n, lookup s.sch.classCount k = some n := by
      cases hl : lookup s.sch.classCount k with
      | none => simp [ccOf, hl] at hcc
      | some n => exact ⟨n, rfl⟩
    obtain ⟨st2, hl⟩ := leave_ok { s.sch with vtime := s.sch.vtime + (s.now - s.sch.lastTime) / wSum c.weights s.sch.active }
      k n hn (fun _ => hka)
    exact ⟨_, done_ok c s.sch _ st2 s.now p k hu hk hl⟩

end WFQ
