import Mathlib.Tactic.Linarith
import Mathlib.Tactic.FieldSimp
import Mathlib.Tactic.Ring
import Mathlib.Algebra.Order.Field.Rat
import Mathlib.Algebra.Order.AbsoluteValue.Basic
import OnlVerif.Tcp.NumX
/-!
# The scalar interface at `ℚ`

`Num`/`NumX` operations instantiated at exact rationals are the ordinary field operations, `max`, `min`, `|·|`,
`=` and `^`.
-/

namespace TcpScalar

@[simp] theorem ofNat_eq (n : Nat) : (Num.ofNat n : ℚ) = (n : ℚ) := rfl

@[simp] theorem zero_eq : (Num.zero : ℚ) = 0 := by
  show ((0 : ℕ) : ℚ) = 0
  simp

@[simp] theorem pymax_eq (a b : ℚ) : Num.pymax a b = max a b := by
  unfold Num.pymax
  split
  · rename_i h; exact (max_eq_right (le_of_lt h)).symm
  · rename_i h; exact (max_eq_left (not_lt.mp h)).symm

@[simp] theorem pymin_eq (a b : ℚ) : Num.pymin a b = min a b := by
  unfold Num.pymin
  split
  · rename_i h; exact (min_eq_right (le_of_lt h)).symm
  · rename_i h; exact (min_eq_left (not_lt.mp h)).symm

@[simp] theorem pyabs_eq (a : ℚ) : Num.pyabs a = |a| := by
  unfold Num.pyabs
  rw [zero_eq]
  split
  · rename_i h; exact (abs_of_neg h).symm
  · rename_i h; exact (abs_of_nonneg (not_lt.mp h)).symm

theorem eqb_iff (a b : ℚ) : Num.eqb a b = true ↔ a = b := by
  unfold Num.eqb
  simp only [Bool.and_eq_true, Bool.not_eq_true', decide_eq_false_iff_not, not_lt]
  constructor
  · rintro ⟨h1, h2⟩; exact le_antisymm h2 h1
  · rintro rfl; exact ⟨le_refl _, le_refl _⟩

theorem eqb_false_iff (a b : ℚ) : Num.eqb a b = false ↔ a ≠ b := by
  have := eqb_iff a b
  cases h : Num.eqb a b
  · simp only [true_iff]; intro e; rw [this.mpr e] at h; cases h
  · simp only [Bool.true_eq_false, false_iff, not_not]; exact this.mp h

theorem nonzero_iff (a : ℚ) : Num.nonzero a = true ↔ a ≠ 0 := by
  unfold Num.nonzero
  rw [Bool.not_eq_true', eqb_false_iff, zero_eq]

theorem powNat_eq (x : ℚ) (n : Nat) : NumX.powNat x n = x ^ n := by
  show Rat.powNat' x n = x ^ n
  induction n with
  | zero => simp [Rat.powNat']
  | succ n ih => simp [Rat.powNat', ih, pow_succ]

end TcpScalar
