import OnlVerif.Lemmas.ResStep
/-!
# Conservation / ordering proofs: vocabulary

The global C06/C07 theorems (level conservation, store exactly-once, queue discipline) are not leaf-wise
invariants: inside `applyPut` the level and the `triggered` flag change in two consecutive leaves.  They are
proved with a second engine (`ConserveEngine.lean`) whose units are the *atomic resource operations*
(`grantPut`, `grantGet`, `newPut`, `newGet`, `cancelPut`, `cancelGet`) plus three kinds of bookkeeping
(`Frame`: nothing the theorems look at changes; `alloc`: a fresh non-request event; `trigNR`: an outcome is
written to an event that is not a request).

This file fixes the vocabulary:

* `isReq`, `CbOK`, `WF` — the well-formedness invariant that makes the guards of the units provable
  (callbacks `check c`/`build c` name conditions, process table entries name process events, the queues hold
  untriggered requests of their own resource without duplicates);
* `Frame`, `Base` — two-state relations;
* `callOK … stepOK`, `SafeReach` — the domain hypothesis "program code never calls `succeed`/`fail` on a
  request event", as a predicate on the run.
-/

variable {σ : Type}

namespace Conserve

/-! ## request events, immutable part of a request record -/

/-- the event is a resource request (`Put`/`Get` of some resource) -/
def isReq (s : KState ℚ σ) (e : EvId) : Bool :=
  match (s.ev e).kind with
  | .put _ | .get _ => true
  | _ => false

/-- the request record without its only mutable field (`usage_since`) -/
def coreOf (s : KState ℚ σ) (e : EvId) : ReqData ℚ := { reqOf s e with usageSince := none }

theorem amount_of_core {s s' : KState ℚ σ} {e e' : EvId} (h : coreOf s' e' = coreOf s e) :
    (reqOf s' e').amount = (reqOf s e).amount := congrArg (·.amount) h
theorem item_of_core {s s' : KState ℚ σ} {e e' : EvId} (h : coreOf s' e' = coreOf s e) :
    (reqOf s' e').item = (reqOf s e).item := congrArg (·.item) h
theorem filter_of_core {s s' : KState ℚ σ} {e e' : EvId} (h : coreOf s' e' = coreOf s e) :
    (reqOf s' e').filter = (reqOf s e).filter := congrArg (·.filter) h
theorem prio_of_core {s s' : KState ℚ σ} {e e' : EvId} (h : coreOf s' e' = coreOf s e) :
    (reqOf s' e').prio = (reqOf s e).prio := congrArg (·.prio) h
theorem time_of_core {s s' : KState ℚ σ} {e e' : EvId} (h : coreOf s' e' = coreOf s e) :
    (reqOf s' e').time = (reqOf s e).time := congrArg (·.time) h
theorem preempt_of_core {s s' : KState ℚ σ} {e e' : EvId} (h : coreOf s' e' = coreOf s e) :
    (reqOf s' e').preempt = (reqOf s e).preempt := congrArg (·.preempt) h

/-- an event record whose kind is not the default one exists -/
theorem lt_size_of_kind {s : KState ℚ σ} {e : EvId} (h : (s.ev e).kind ≠ .plain) : e < s.events.size := by
  by_contra hc
  apply h
  have : s.ev e = default := by
    simp only [KState.ev, Array.getD_eq_getD_getElem?]
    rw [Array.getElem?_eq_none (Nat.le_of_not_lt hc)]; rfl
  rw [this]; rfl

theorem lt_size_of_isReq {s : KState ℚ σ} {e : EvId} (h : isReq s e = true) : e < s.events.size := by
  apply lt_size_of_kind
  intro hc
  unfold isReq at h
  rw [hc] at h
  cases h

theorem isReq_of_put {s : KState ℚ σ} {e : EvId} {r : ResId} (h : (s.ev e).kind = .put r) : isReq s e = true := by
  unfold isReq; rw [h]
theorem isReq_of_get {s : KState ℚ σ} {e : EvId} {r : ResId} (h : (s.ev e).kind = .get r) : isReq s e = true := by
  unfold isReq; rw [h]

/-- the default resource record (an index that is not a resource) has empty queues -/
theorem lt_rsize_of_putQ {s : KState ℚ σ} {r : ResId} (h : (s.res r).putQ ≠ []) : r < s.resources.size := by
  by_contra hc
  apply h
  have : s.res r = default := by
    simp only [KState.res, Array.getD_eq_getD_getElem?]
    rw [Array.getElem?_eq_none (Nat.le_of_not_lt hc)]; rfl
  rw [this]; rfl

theorem lt_rsize_of_getQ {s : KState ℚ σ} {r : ResId} (h : (s.res r).getQ ≠ []) : r < s.resources.size := by
  by_contra hc
  apply h
  have : s.res r = default := by
    simp only [KState.res, Array.getD_eq_getD_getElem?]
    rw [Array.getElem?_eq_none (Nat.le_of_not_lt hc)]; rfl
  rw [this]; rfl

/-! ## well-formedness -/

/-- the callback names a condition when it is a `Condition._check` / `_build_value` -/
def CbOK (s : KState ℚ σ) : Cb → Prop
  | .check c => isCond s c = true
  | .build c => isCond s c = true
  | _ => True

/-- a callback that carries no obligation -/
def cbPlain : Cb → Bool
  | .check _ => false
  | .build _ => false
  | _ => true

theorem CbOK_of_plain (s : KState ℚ σ) {cb : Cb} (h : cbPlain cb = true) : CbOK s cb := by
  cases cb <;> trivial

theorem not_isReq_of_isCond {s : KState ℚ σ} {c : EvId} (h : isCond s c = true) : isReq s c = false := by
  unfold isCond at h
  unfold isReq
  split at h
  · rename_i hk; rw [hk]
  · cases h

theorem not_isReq_of_proc {s : KState ℚ σ} {p : EvId} (h : (s.ev p).kind = .proc) : isReq s p = false := by
  unfold isReq; rw [h]

structure WF (s : KState ℚ σ) : Prop where
  cbs : ∀ e l, (s.ev e).cbs = some l → ∀ cb ∈ l, CbOK s cb
  procs : ∀ p pr, s.proc? p = some pr → (s.ev p).kind = .proc
  putQ : ∀ r e, e ∈ (s.res r).putQ → (s.ev e).kind = .put r ∧ (s.ev e).out = none
  putNodup : ∀ r, (s.res r).putQ.Nodup
  getQ : ∀ r e, e ∈ (s.res r).getQ → (s.ev e).kind = .get r ∧ (s.ev e).out = none
  getNodup : ∀ r, (s.res r).getQ.Nodup

/-! ## two-state relations -/

/-- the fields of a resource record the theorems look at (everything but `users`) -/
structure ResSame (a b : ResRec) : Prop where
  kind : b.kind = a.kind
  capacity : b.capacity = a.capacity
  putQ : b.putQ = a.putQ
  getQ : b.getQ = a.getQ
  level : b.level = a.level
  items : b.items = a.items

theorem ResSame.rfl' (a : ResRec) : ResSame a a := ⟨rfl, rfl, rfl, rfl, rfl, rfl⟩

/-- **bookkeeping**: nothing the conservation / ordering theorems look at changes; callbacks and process table
entries change only in well-formed ways -/
structure Frame (s s' : KState ℚ σ) : Prop where
  size : s'.events.size = s.events.size
  kind : ∀ e, (s'.ev e).kind = (s.ev e).kind
  out : ∀ e, (s'.ev e).out = (s.ev e).out
  core : ∀ e, coreOf s' e = coreOf s e
  cbs : ∀ e l', (s'.ev e).cbs = some l' → ∀ cb ∈ l', CbOK s cb ∨ ∃ l, (s.ev e).cbs = some l ∧ cb ∈ l
  procs : ∀ p pr', s'.proc? p = some pr' → (s.ev p).kind = .proc ∨ ∃ pr, s.proc? p = some pr
  rsize : s'.resources.size = s.resources.size
  res : ∀ r, ResSame (s.res r) (s'.res r)

/-- what every unit guarantees: events are never deallocated, kinds and request data never change, the outcome
of a granted request never changes, resources keep their class, well-formedness is kept -/
structure Base (s s' : KState ℚ σ) : Prop where
  size_le : s.events.size ≤ s'.events.size
  kind : ∀ e, e < s.events.size → (s'.ev e).kind = (s.ev e).kind
  core : ∀ e, e < s.events.size → coreOf s' e = coreOf s e
  outStable : ∀ e, isReq s e = true → (s.ev e).out ≠ none → (s'.ev e).out = (s.ev e).out
  rsize : s'.resources.size = s.resources.size
  resKind : ∀ r, (s'.res r).kind = (s.res r).kind
  resCap : ∀ r, (s'.res r).capacity = (s.res r).capacity
  keepWF : WF s → WF s'

namespace Base

theorem refl (s : KState ℚ σ) : Base s s :=
  ⟨Nat.le_refl _, fun _ _ => rfl, fun _ _ => rfl, fun _ _ _ => rfl, rfl, fun _ => rfl, fun _ => rfl, fun h => h⟩

theorem isReq_eq {s s' : KState ℚ σ} (h : Base s s') {e : EvId} (he : e < s.events.size) : isReq s' e = isReq s e := by
  unfold isReq; rw [h.kind e he]

theorem trans {s1 s2 s3 : KState ℚ σ} (h12 : Base s1 s2) (h23 : Base s2 s3) : Base s1 s3 := by
  refine ⟨Nat.le_trans h12.size_le h23.size_le, ?_, ?_, ?_, h23.rsize.trans h12.rsize, ?_, ?_,
    fun h => h23.keepWF (h12.keepWF h)⟩
  · intro e he
    exact (h23.kind e (Nat.lt_of_lt_of_le he h12.size_le)).trans (h12.kind e he)
  · intro e he
    exact (h23.core e (Nat.lt_of_lt_of_le he h12.size_le)).trans (h12.core e he)
  · intro e hr ho
    have he := lt_size_of_isReq hr
    have h2 := h12.outStable e hr ho
    have hr2 : isReq s2 e = true := by rw [h12.isReq_eq he]; exact hr
    rw [h23.outStable e hr2 (by rw [h2]; exact ho), h2]
  · intro r; exact (h23.resKind r).trans (h12.resKind r)
  · intro r; exact (h23.resCap r).trans (h12.resCap r)

theorem isCond_keep {s s' : KState ℚ σ} (h : Base s s') {c : EvId} (hc : isCond s c = true) : isCond s' c = true := by
  have hlt : c < s.events.size := by
    apply lt_size_of_kind
    intro hk; unfold isCond at hc; rw [hk] at hc; cases hc
  unfold isCond at hc ⊢
  rw [h.kind c hlt]; exact hc

theorem cbOK_keep {s s' : KState ℚ σ} (h : Base s s') {cb : Cb} (hc : CbOK s cb) : CbOK s' cb := by
  cases cb <;> first | trivial | exact h.isCond_keep hc

theorem proc_keep {s s' : KState ℚ σ} (h : Base s s') {p : EvId} (hp : (s.ev p).kind = .proc) : (s'.ev p).kind = .proc := by
  rw [h.kind p (lt_size_of_kind (by rw [hp]; simp))]; exact hp

theorem notReq_keep {s s' : KState ℚ σ} (h : Base s s') {e : EvId} (he : e < s.events.size) (hn : isReq s e = false) :
    isReq s' e = false := by
  rw [h.isReq_eq he]; exact hn

end Base

/-! ## the domain hypothesis: program code never triggers a request event itself

A request is granted exactly when it is triggered; `Event.succeed/fail` called by user code on a `Put`/`Get`
object is outside the domain of C06/C07 (the real `_do_put` would then raise "already triggered").  The
predicates below follow the execution of one kernel step and require, at every `succeed`/`fail` API call the
program issues, that the target is not a request event *in the state in which the call is made*. -/

def callOK (s : KState ℚ σ) : Call ℚ σ → Prop
  | .succeed e _ => isReq s e = false
  | .fail e _ => isReq s e = false
  | _ => True

def burstOK (self : EvId) : Burst ℚ σ → KState ℚ σ → Prop
  | .call c k, s => callOK s c ∧ burstOK self (k (doCall s self c).2) (noteErr self (doCall s self c))
  | .yield _ _, _ => True
  | .ret _, _ => True
  | .raise _, _ => True

def resumeOK (body : σ → Resume → Burst ℚ σ) (p : EvId) : Nat → EvId → KState ℚ σ → Prop
  | 0, _, _ => True
  | fuel + 1, e, s =>
    match s.proc? p with
    | none => True
    | some pr =>
      let sr := deliver s p e
      let s1 := sr.1.emit (.resumed p sr.2 sr.1.now)
      burstOK p (body pr.st sr.2) s1 ∧
      (match (runBurst p (body pr.st sr.2) s1).2 with
       | .yielded e' st' =>
         let s2 := (runBurst p (body pr.st sr.2) s1).1.setProc p { st := st', target := some e' }
         match register s2 p e' with
         | some _ => True
         | none => resumeOK body p fuel e' s2
       | _ => True)

def deliverInterruptOK (body : σ → Resume → Burst ℚ σ) (fuel : Nat) (iv p : EvId) (s : KState ℚ σ) : Prop :=
  if s.triggered p then True else
  match s.proc? p with
  | none => True
  | some pr =>
    match pr.target with
    | some t => resumeOK body p fuel iv (s.eraseCb t (.resume p))
    | none => resumeOK body p fuel iv s

def runCbOK (body : σ → Resume → Burst ℚ σ) (fuel : Nat) (e : EvId) (l : LoopSt ℚ σ) : Cb → Prop
  | .resume p => resumeOK body p fuel e l.s
  | .intr iv =>
    match (l.s.ev iv).kind with
    | .intr p => deliverInterruptOK body fuel iv p l.s
    | _ => True
  | _ => True

def foldOK (body : σ → Resume → Burst ℚ σ) (fuel : Nat) (e : EvId) : List Cb → LoopSt ℚ σ → Prop
  | [], _ => True
  | cb :: cbs, l => runCbOK body fuel e l cb ∧ foldOK body fuel e cbs (runCb body fuel e l cb)

/-- during the kernel step taken from `s`, no `succeed`/`fail` call of the program hits a request event -/
def stepOK (body : σ → Resume → Burst ℚ σ) (fuel : Nat) (s : KState ℚ σ) : Prop :=
  match popMin s.agenda with
  | none => True
  | some (q, rest) =>
    match (s.ev q.ev).cbs with
    | none => True
    | some cbs => foldOK body fuel q.ev cbs { s := openEvent s q rest }

/-- states reachable by kernel steps during which the program stays inside the domain -/
inductive SafeReach (body : σ → Resume → Burst ℚ σ) (fuel : Nat) (s0 : KState ℚ σ) : KState ℚ σ → Prop
  | init : SafeReach body fuel s0 s0
  | step {s s'} : SafeReach body fuel s0 s → stepOK body fuel s → (step body fuel s).state? = some s' →
      SafeReach body fuel s0 s'

theorem SafeReach.toReach {body : σ → Resume → Burst ℚ σ} {fuel : Nat} {s0 s : KState ℚ σ}
    (h : SafeReach body fuel s0 s) : KReach body fuel s0 s := by
  induction h with
  | init => exact KReach.init
  | step _ _ hs ih => exact KReach.step ih hs

/-! ### a static sufficient condition: the program never calls `succeed`/`fail` at all -/

def callIsTrig : Call ℚ σ → Bool
  | .succeed _ _ => true
  | .fail _ _ => true
  | _ => false

/-- the burst contains no `succeed`/`fail` call, whatever the replies -/
inductive NoTrig : Burst ℚ σ → Prop
  | call (c : Call ℚ σ) (k : Reply → Burst ℚ σ) : callIsTrig c = false → (∀ rp, NoTrig (k rp)) → NoTrig (.call c k)
  | yield (e : EvId) (st : σ) : NoTrig (.yield e st)
  | ret (v : Val) : NoTrig (.ret v)
  | raise (x : Exc) : NoTrig (.raise x)

theorem burstOK_of_noTrig (self : EvId) (b : Burst ℚ σ) (h : NoTrig b) (s : KState ℚ σ) : burstOK self b s := by
  induction h generalizing s with
  | call c k hc _ ih =>
    refine ⟨?_, ih _ _⟩
    cases c <;> trivial
  | yield => trivial
  | ret => trivial
  | raise => trivial

theorem resumeOK_of_noTrig (body : σ → Resume → Burst ℚ σ) (h : ∀ st rs, NoTrig (body st rs)) (p : EvId) (fuel : Nat)
    (e : EvId) (s : KState ℚ σ) : resumeOK body p fuel e s := by
  induction fuel generalizing e s with
  | zero => trivial
  | succ n ih =>
    unfold resumeOK
    split
    · trivial
    · refine ⟨burstOK_of_noTrig _ _ (h _ _) _, ?_⟩
      split
      · simp only
        split
        · trivial
        · exact ih _ _
      · trivial

theorem stepOK_of_noTrig (body : σ → Resume → Burst ℚ σ) (h : ∀ st rs, NoTrig (body st rs)) (fuel : Nat)
    (s : KState ℚ σ) : stepOK body fuel s := by
  have hcb : ∀ e l cb, runCbOK body fuel e l cb := by
    intro e l cb
    cases cb with
    | resume p => exact resumeOK_of_noTrig body h _ _ _ _
    | intr iv =>
      show (match (l.s.ev iv).kind with
        | .intr p => deliverInterruptOK body fuel iv p l.s
        | _ => True)
      split
      · unfold deliverInterruptOK
        split
        · trivial
        · split
          · trivial
          · split <;> exact resumeOK_of_noTrig body h _ _ _ _
      · trivial
    | _ => trivial
  have hfold : ∀ e cbs l, foldOK body fuel e cbs l := by
    intro e cbs
    induction cbs with
    | nil => intro l; trivial
    | cons cb cbs ih => intro l; exact ⟨hcb e l cb, ih _⟩
  unfold stepOK
  split
  · trivial
  · split
    · trivial
    · exact hfold _ _ _

/-- for programs that never call `succeed`/`fail`, every reachable state is reachable inside the domain -/
theorem safeReach_of_noTrig (body : σ → Resume → Burst ℚ σ) (h : ∀ st rs, NoTrig (body st rs)) (fuel : Nat)
    (s0 s : KState ℚ σ) (hr : KReach body fuel s0 s) : SafeReach body fuel s0 s := by
  induction hr with
  | init => exact SafeReach.init
  | step _ hs ih => exact SafeReach.step ih (stepOK_of_noTrig body h fuel _) hs

end Conserve
