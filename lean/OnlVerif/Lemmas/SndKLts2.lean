import OnlVerif.Lemmas.SndKStepScr
/-!
# The TCP sender on the kernel model: the cumulative cancellation of timers, LTS side

The program visits the candidate keys in increasing order and tests the presence flag (`cancelS`); the LTS walks over the
keys of `timers` that the ACK covers (`dropSegs` over `covered`).  Both give the same state when the keys of `timers` are
candidate keys in order.
-/

set_option linter.unusedSimpArgs false

namespace SndK
open SenderOnK TcpSender

/-- the candidate keys `seq, seq + mss, …` (`n` of them) -/
def cands (mss : Nat) : Nat → Nat → List Nat
  | _, 0 => []
  | seq, n + 1 => seq :: cands mss (seq + mss) n

theorem cands_eq (mss : Nat) : ∀ (n seq : Nat), cands mss seq n = (List.range n).map (fun i => seq + i * mss)
  | 0, _ => rfl
  | n + 1, seq => by
    rw [cands, cands_eq mss n, List.range_succ_eq_map]
    simp only [List.map_cons, List.map_map, Nat.zero_mul, Nat.add_zero, List.cons.injEq, true_and]
    apply List.map_congr_left
    intro i _
    simp only [Function.comp]
    rw [Nat.succ_mul]; omega

theorem segKeys_eq_cands (mss next : Nat) : segKeys mss next = cands mss 0 (next / mss) := by
  rw [cands_eq]
  unfold segKeys
  simp

/-- one key of the program's loop -/
def cancel1 (cond : Nat → Bool) (S : Sender ℚ) (c : Nat) : Sender ℚ :=
  if (AL.get? c S.timers).isSome && cond c then { S with timers := AL.del c S.timers, sent := AL.del c S.sent } else S

/-- the program's loop over the candidate keys `cs` -/
def cancelS (cond : Nat → Bool) : Sender ℚ → List Nat → Sender ℚ
  | S, [] => S
  | S, c :: cs => cancelS cond (cancel1 cond S c) cs

theorem sublist_cons_of_mem {c : Nat} {ks cs : List Nat} (h : ks.Sublist (c :: cs)) (hn : (c :: cs).Nodup) (hc : c ∈ ks) :
    ∃ ks', ks = c :: ks' ∧ ks'.Sublist cs := by
  cases h with
  | cons _ h' =>
    exact absurd (h'.subset hc) (List.nodup_cons.mp hn).1
  | cons_cons _ h' => exact ⟨_, rfl, h'⟩

theorem sublist_of_not_mem {c : Nat} {ks cs : List Nat} (h : ks.Sublist (c :: cs)) (hc : c ∉ ks) : ks.Sublist cs := by
  cases h with
  | cons _ h' => exact h'
  | cons_cons _ h' => exact absurd List.mem_cons_self hc

/-- **the walk over the covered keys of `timers` is the walk over the candidate keys with the presence test** -/
theorem dropSegs_cancelS (cond : Nat → Bool) : ∀ (cs : List Nat) (S : Sender ℚ) (ks : List Nat), cs.Nodup → ks.Sublist cs →
    AL.keys S.timers = AL.keys S.sent → (AL.keys S.timers).Nodup → (∀ k ∈ ks, k ∈ AL.keys S.timers) →
    (∀ c ∈ cs, c ∈ AL.keys S.timers → c ∈ ks) → Sender.dropSegs S (ks.filter cond) = .ok (cancelS cond S cs)
  | [], S, ks, _, hsub, _, _, _, _ => by
    have : ks = [] := List.sublist_nil.mp hsub
    subst this
    rfl
  | c :: cs, S, ks, hn, hsub, hk, hnd, hin, hout => by
    have hn' := (List.nodup_cons.mp hn).2
    have hc : c ∉ cs := (List.nodup_cons.mp hn).1
    by_cases hm : c ∈ AL.keys S.timers
    · have hcks : c ∈ ks := hout c List.mem_cons_self hm
      obtain ⟨ks', rfl, hsub'⟩ := sublist_cons_of_mem hsub hn hcks
      obtain ⟨v, hv⟩ := AL.get?_isSome_of_mem hm
      obtain ⟨w, hw⟩ := AL.get?_isSome_of_mem (hk ▸ hm)
      have hcks' : c ∉ ks' := fun h => hc (hsub'.subset h)
      by_cases hcond : cond c = true
      · have hstep : Sender.dropSeg S c = .ok { S with timers := AL.del c S.timers, sent := AL.del c S.sent } := by
          unfold Sender.dropSeg; rw [hv, hw]
        have e1 : cancel1 cond S c = { S with timers := AL.del c S.timers, sent := AL.del c S.sent } := by
          unfold cancel1; rw [hv, hcond]; rfl
        rw [List.filter_cons_of_pos hcond, Sender.dropSegs, hstep]
        show Sender.dropSegs _ (ks'.filter cond) = .ok (cancelS cond (cancel1 cond S c) cs)
        rw [e1]
        refine dropSegs_cancelS cond cs _ ks' hn' hsub' ?_ ?_ ?_ ?_
        · show AL.keys (AL.del c S.timers) = AL.keys (AL.del c S.sent)
          rw [AL.keys_del, AL.keys_del, hk]
        · show (AL.keys (AL.del c S.timers)).Nodup
          rw [AL.keys_del]; exact hnd.erase c
        · intro k hk'
          show k ∈ AL.keys (AL.del c S.timers)
          rw [AL.keys_del]
          have hne : k ≠ c := fun e => hcks' (e ▸ hk')
          exact (List.mem_erase_of_ne hne).mpr (hin k (List.mem_cons_of_mem _ hk'))
        · intro c' hc' hm'
          have hm'' : c' ∈ AL.keys (AL.del c S.timers) := hm'
          rw [AL.keys_del] at hm''
          have := hout c' (List.mem_cons_of_mem _ hc') (List.mem_of_mem_erase hm'')
          rcases List.mem_cons.mp this with rfl | h
          · exact absurd hc' hc
          · exact h
      · have e1 : cancel1 cond S c = S := by
          unfold cancel1; rw [hv]
          have : cond c = false := by simpa using hcond
          rw [this]; rfl
        rw [List.filter_cons_of_neg hcond]
        show Sender.dropSegs S (ks'.filter cond) = .ok (cancelS cond (cancel1 cond S c) cs)
        rw [e1]
        refine dropSegs_cancelS cond cs S ks' hn' hsub' hk hnd (fun k hk' => hin k (List.mem_cons_of_mem _ hk')) ?_
        intro c' hc' hm'
        have := hout c' (List.mem_cons_of_mem _ hc') hm'
        rcases List.mem_cons.mp this with rfl | h
        · exact absurd hc' hc
        · exact h
    · have hcks : c ∉ ks := fun h => hm (hin c h)
      have hsub' := sublist_of_not_mem hsub hcks
      have e1 : cancel1 cond S c = S := by
        unfold cancel1
        rw [(AL.get?_eq_none_iff c S.timers).mpr hm]; rfl
      show Sender.dropSegs S (ks.filter cond) = .ok (cancelS cond (cancel1 cond S c) cs)
      rw [e1]
      exact dropSegs_cancelS cond cs S ks hn' hsub' hk hnd hin (fun c' hc' hm' => hout c' (List.mem_cons_of_mem _ hc') hm')

end SndK
