import OnlVerif.Lemmas.TcpLiveTimed
/-!
# The termination measure over paths with delay (C16)

As `mu` (`TcpLiveMeasure.lean`), with the packet that carries the progress made explicit.  Lexicographically:

1. `muA`: what the sink's prefix, `last_ack`, `next_seq` still have to go;
2. `tG`: 0 if an ACK beyond `last_ack` is in flight, 1 if (not, but) a copy of the segment at `last_ack` is in flight,
   else 2;
3. `tV`: how many timer expiries can still precede the `target` instant - the delivery instant of that ACK, of that
   copy, or the wake-up of the timer of `last_ack` (the clock cannot pass any of them);
4. `muW`: weight of the packets in flight plus the pending work of `run`;
5. `tC`: events not yet due (twice) and due.
-/

open TcpScalar TcpSender TcpSink TcpLoop Sender

namespace TcpLive

/-! ## the delivery instant of the first packet with a property -/

def firstT {β : Type} (p : β → Prop) [DecidablePred p] : List β → List ℚ → ℚ
  | x :: xs, t :: ts => if p x then t else firstT p xs ts
  | _, _ => 0

section
variable {β : Type} (p : β → Prop) [DecidablePred p]

theorem firstT_cons_neg {x : β} {xs : List β} {t : ℚ} {ts : List ℚ} (h : ¬ p x) :
    firstT p (x :: xs) (t :: ts) = firstT p xs ts := by
  simp [firstT, h]

theorem firstT_append : ∀ {xs : List β} {ts : List ℚ} (ys : List β) (us : List ℚ), ts.length = xs.length →
    (∃ x ∈ xs, p x) → firstT p (xs ++ ys) (ts ++ us) = firstT p xs ts := by
  intro xs
  induction xs with
  | nil => intro ts ys us _ hex; obtain ⟨x, hx, _⟩ := hex; simp at hx
  | cons x xs ih =>
    intro ts ys us hlen hex
    cases ts with
    | nil => simp at hlen
    | cons t ts =>
      by_cases hp : p x
      · simp [firstT, hp]
      · have hex' : ∃ y ∈ xs, p y := by
          obtain ⟨y, hy, hpy⟩ := hex
          rcases List.mem_cons.mp hy with e | e
          · subst e; exact absurd hpy hp
          · exact ⟨y, e, hpy⟩
        show firstT p (x :: (xs ++ ys)) (t :: (ts ++ us)) = _
        rw [firstT_cons_neg p hp, firstT_cons_neg p hp]
        exact ih ys us (by simpa using hlen) hex'

theorem firstT_mem : ∀ {xs : List β} {ts : List ℚ}, ts.length = xs.length → (∃ x ∈ xs, p x) → firstT p xs ts ∈ ts := by
  intro xs
  induction xs with
  | nil => intro ts _ hex; obtain ⟨x, hx, _⟩ := hex; simp at hx
  | cons x xs ih =>
    intro ts hlen hex
    cases ts with
    | nil => simp at hlen
    | cons t ts =>
      by_cases hp : p x
      · simp [firstT, hp]
      · have hex' : ∃ y ∈ xs, p y := by
          obtain ⟨y, hy, hpy⟩ := hex
          rcases List.mem_cons.mp hy with e | e
          · subst e; exact absurd hpy hp
          · exact ⟨y, e, hpy⟩
        rw [firstT_cons_neg p hp]
        exact List.mem_cons_of_mem _ (ih (by simpa using hlen) hex')

end

/-! ## the components -/

/-- an ACK beyond `last_ack` is in flight -/
def NewAck (L : TLoop ℚ) : Prop := ∃ a ∈ L.l.acks, L.l.snd.last_ack < a.ackno

/-- a copy of the segment at `last_ack` is in flight -/
def DataP (L : TLoop ℚ) : Prop := ∃ tx ∈ L.l.data, tx.seq = L.l.snd.last_ack

open Classical in
noncomputable def tG (L : TLoop ℚ) : Nat := if NewAck L then 0 else if DataP L then 1 else 2

open Classical in
/-- the instant the clock cannot pass before progress is made -/
noncomputable def target (L : TLoop ℚ) : ℚ :=
  if NewAck L then firstT (fun a : AckIn ℚ => L.l.snd.last_ack < a.ackno) L.l.acks L.aT
  else if DataP L then firstT (fun tx : Tx ℚ => tx.seq = L.l.snd.last_ack) L.l.data L.dT
  else wakeOf L.l.snd.timers L.l.snd.last_ack

/-- timers that wake no later than `w` -/
def cntAll (T : List (Nat × TimerRec ℚ)) (w : ℚ) : Nat := T.countP fun kv => decide (kv.2.wake ≤ w)

open Classical in
noncomputable def tV (L : TLoop ℚ) : Nat :=
  need (target L) L.l.snd.now L.l.snd.est.rto +
    if NewAck L ∨ DataP L then cntAll L.l.snd.timers (target L) else cnt L.l.snd.timers L.l.snd.last_ack (target L)

def futL (ds : List ℚ) (now : ℚ) : Nat := ds.countP fun d => decide (now < d)

def dueL (ds : List ℚ) (now : ℚ) : Nat := ds.countP fun d => decide (d ≤ now)

theorem futL_add_dueL (ds : List ℚ) (now : ℚ) : futL ds now + dueL ds now = ds.length := by
  unfold futL dueL
  induction ds with
  | nil => simp
  | cons x rest ih =>
    simp only [List.countP_cons, List.length_cons]
    by_cases hx : now < x
    · have : ¬ x ≤ now := not_le.mpr hx
      simp only [hx, this, decide_true, decide_false, if_true]
      simp
      omega
    · have : x ≤ now := not_lt.mp hx
      simp only [hx, this, decide_true, decide_false, if_true]
      simp
      omega

def tC (L : TLoop ℚ) : Nat :=
  2 * (fut L.l.snd.timers L.l.snd.now + futL L.dT L.l.snd.now + futL L.aT L.l.snd.now) +
    (due L.l.snd.timers L.l.snd.now + dueL L.dT L.l.snd.now + dueL L.aT L.l.snd.now)

noncomputable def tmu (n : Nat) (L : TLoop ℚ) : Nat × Nat × Nat × Nat × Nat := (muA n L.l, tG L, tV L, muW L.l, tC L)

variable {L L' : TLoop ℚ}

theorem target_new (h : NewAck L) :
    target L = firstT (fun a : AckIn ℚ => L.l.snd.last_ack < a.ackno) L.l.acks L.aT := by
  unfold target; rw [if_pos h]

theorem target_data (h1 : ¬ NewAck L) (h2 : DataP L) :
    target L = firstT (fun tx : Tx ℚ => tx.seq = L.l.snd.last_ack) L.l.data L.dT := by
  unfold target; rw [if_neg h1, if_pos h2]

theorem target_none (h1 : ¬ NewAck L) (h2 : ¬ DataP L) : target L = wakeOf L.l.snd.timers L.l.snd.last_ack := by
  unfold target; rw [if_neg h1, if_neg h2]

/-- same stage, same target, same timers and clock: same `tG`, `tV` -/
theorem tGV_congr (hN : NewAck L' ↔ NewAck L) (hD : ¬ NewAck L → (DataP L' ↔ DataP L)) (hτ : target L' = target L)
    (hT : L'.l.snd.timers = L.l.snd.timers) (hP : L'.l.snd.last_ack = L.l.snd.last_ack)
    (hn : L'.l.snd.now = L.l.snd.now) (hr : L'.l.snd.est.rto = L.l.snd.est.rto) : tG L' = tG L ∧ tV L' = tV L := by
  unfold tG tV
  rw [hτ, hT, hP, hn, hr]
  by_cases h1 : NewAck L
  · have h1' := hN.mpr h1
    simp only [h1, h1', true_or, if_true, and_self]
  · have h1' : ¬ NewAck L' := fun c => h1 (hN.mp c)
    by_cases h2 : DataP L
    · have h2' := (hD h1).mpr h2
      simp only [if_neg h1, if_neg h1', h2, h2', or_true, if_true, and_self]
    · have h2' : ¬ DataP L' := fun c => h2 ((hD h1).mp c)
      simp only [h1, h1', h2, h2', or_self, if_false, and_self]

theorem tG_zero (h : NewAck L) : tG L = 0 := by unfold tG; rw [if_pos h]

theorem tG_one (h1 : ¬ NewAck L) (h2 : DataP L) : tG L = 1 := by unfold tG; rw [if_neg h1, if_pos h2]

theorem tG_two (h1 : ¬ NewAck L) (h2 : ¬ DataP L) : tG L = 2 := by unfold tG; rw [if_neg h1, if_neg h2]

/-- the target instant is not in the past -/
theorem now_le_target {n : Nat} (h : TInv n L) (hP : L.l.snd.last_ack ∈ AL.keys L.l.snd.timers ∨ NewAck L ∨ DataP L) :
    L.l.snd.now ≤ target L := by
  by_cases h1 : NewAck L
  · rw [target_new h1]
    exact h.age _ (firstT_mem _ h.alen h1)
  · by_cases h2 : DataP L
    · rw [target_data h1 h2]
      exact h.dge _ (firstT_mem _ h.dlen h2)
    · rw [target_none h1 h2]
      rcases hP with hP | hP | hP
      · obtain ⟨trP, hg⟩ := AL.get?_isSome_of_mem hP
        unfold wakeOf
        rw [hg]
        exact (h.inv.s.live _ (AL.pair_mem_of_get?_some hg)).2.2
      · exact absurd hP h1
      · exact absurd hP h2

/-! ## a timer expiry makes `tV` smaller -/

theorem fire_V_all {T : List (Nat × TimerRec ℚ)} {q : Nat} {tr nt : TimerRec ℚ} {τ now rto : ℚ}
    (ht : AL.get? q T = some tr) (hw : tr.wake = now) (hτ : now ≤ τ) (hnt : nt.wake = now + rto * 2) (hr : 0 < rto) :
    need τ now (rto * 2) + cntAll (AL.set q nt T) τ < need τ now rto + cntAll T τ := by
  have hc := AL.countP_set (fun kv : Nat × TimerRec ℚ => decide (kv.2.wake ≤ τ)) nt ht
  have h1 : decide (tr.wake ≤ τ) = true := by rw [hw]; simpa using hτ
  simp only [h1, if_true] at hc
  unfold cntAll
  by_cases hN : need τ now rto = 0
  · have hz := need_zero _ _ _ hr hN
    have h2 : decide (nt.wake ≤ τ) = false := by
      rw [hnt, decide_eq_false_iff_not]; intro c; linarith
    simp only [h2, Bool.false_eq_true, if_false] at hc
    have := need_double_le τ now rto hr
    omega
  · have := need_double τ now rto hr (Nat.pos_of_ne_zero hN)
    have : (if decide (nt.wake ≤ τ) = true then 1 else 0) ≤ 1 := by split_ifs <;> omega
    omega

theorem fire_V_P {T : List (Nat × TimerRec ℚ)} {q P : Nat} {tr nt : TimerRec ℚ} {τ now rto : ℚ}
    (ht : AL.get? q T = some tr) (hq : q ≠ P) (hw : tr.wake = now) (hτ : now ≤ τ) (hnt : nt.wake = now + rto * 2)
    (hr : 0 < rto) :
    need τ now (rto * 2) + cnt (AL.set q nt T) P τ < need τ now rto + cnt T P τ := by
  have hc := AL.countP_set (fun kv : Nat × TimerRec ℚ => decide (kv.1 ≠ P) && decide (kv.2.wake ≤ τ)) nt ht
  have h1 : (decide (q ≠ P) && decide (tr.wake ≤ τ)) = true := by rw [hw]; simp [hq, hτ]
  simp only [h1, if_true] at hc
  unfold cnt
  by_cases hN : need τ now rto = 0
  · have hz := need_zero _ _ _ hr hN
    have h2 : (decide (q ≠ P) && decide (nt.wake ≤ τ)) = false := by
      rw [hnt]; simp [hq]; exact hz
    simp only [h2, Bool.false_eq_true, if_false] at hc
    have := need_double_le τ now rto hr
    omega
  · have := need_double τ now rto hr (Nat.pos_of_ne_zero hN)
    have : (if (decide (q ≠ P) && decide (nt.wake ≤ τ)) = true then 1 else 0) ≤ 1 := by split_ifs <;> omega
    omega

end TcpLive
