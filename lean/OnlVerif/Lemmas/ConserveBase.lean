import OnlVerif.Lemmas.ConserveEffects
/-!
# Conservation / ordering proofs: `Base` is an instance of the engine

Hence, in every state reachable inside the domain: well-formedness (`WF`) holds; event kinds and request data
never change; **the outcome of a granted request never changes** (a request is triggered at most once).
-/

variable {σ : Type}

namespace Conserve

section helpers

theorem isCond_of_kind {s s' : KState ℚ σ} (hk : ∀ a, (s'.ev a).kind = (s.ev a).kind) (c : EvId) :
    isCond s' c = isCond s c := by
  unfold isCond; rw [hk]

theorem cbOK_of_kind {s s' : KState ℚ σ} (hk : ∀ a, (s'.ev a).kind = (s.ev a).kind) {cb : Cb} (h : CbOK s cb) :
    CbOK s' cb := by
  cases cb <;> first | trivial | (show isCond s' _ = true; rw [isCond_of_kind hk]; exact h)

theorem isReq_of_kind {s s' : KState ℚ σ} (hk : ∀ a, (s'.ev a).kind = (s.ev a).kind) (a : EvId) :
    isReq s' a = isReq s a := by
  unfold isReq; rw [hk]

theorem procQ_of_procs {s s' : KState ℚ σ} (hp : s'.procs = s.procs) (p : EvId) : s'.proc? p = s.proc? p := by
  unfold KState.proc?; rw [hp]

/-- a put request and a get request, or requests of different resources, are different events -/
theorem ne_of_kind_ne {s : KState ℚ σ} {a e : EvId} (h : (s.ev a).kind ≠ (s.ev e).kind) : a ≠ e := by
  intro hc; subst hc; exact h rfl

end helpers

namespace Base

theorem of_frame {s s' : KState ℚ σ} (h : Frame s s') : Base s s' := by
  refine ⟨Nat.le_of_eq h.size.symm, fun e _ => h.kind e, fun e _ => h.core e, fun e _ _ => h.out e, h.rsize,
    fun r => (h.res r).kind, fun r => (h.res r).capacity, ?_⟩
  intro hW
  refine ⟨?_, ?_, ?_, ?_, ?_, ?_⟩
  · intro e l' hl cb hcb
    rcases h.cbs e l' hl cb hcb with hok | ⟨l, hl0, hin⟩
    · exact cbOK_of_kind h.kind hok
    · exact cbOK_of_kind h.kind (hW.cbs e l hl0 cb hin)
  · intro p pr' hp
    rw [h.kind]
    rcases h.procs p pr' hp with hk | ⟨pr, hpr⟩
    · exact hk
    · exact hW.procs p pr hpr
  · intro r e he
    rw [(h.res r).putQ] at he
    rw [h.kind, h.out]; exact hW.putQ r e he
  · intro r; rw [(h.res r).putQ]; exact hW.putNodup r
  · intro r e he
    rw [(h.res r).getQ] at he
    rw [h.kind, h.out]; exact hW.getQ r e he
  · intro r; rw [(h.res r).getQ]; exact hW.getNodup r

/-- a fresh event (of any kind) pushed on the event table, resource and process tables untouched: the old events
are as before -/
theorem ev_of_push {s s' : KState ℚ σ} {x : EvRec ℚ} (he : s'.events = s.events.push x) (a : EvId) :
    s'.ev a = if a = s.events.size then x else s.ev a := by
  simp only [KState.ev, he, getD_push]

theorem of_alloc {s s' : KState ℚ σ} (x : EvRec ℚ) (he : s'.events = s.events.push x) (hk : nonReqKind x.kind = true)
    (hc : ∀ l, x.cbs = some l → ∀ cb ∈ l, cbPlain cb = true) (hr : s'.resources = s.resources)
    (hp : s'.procs = s.procs) : Base s s' := by
  have hold : ∀ a, a < s.events.size → s'.ev a = s.ev a := by
    intro a ha; rw [ev_of_push he, if_neg (Nat.ne_of_lt ha)]
  have hres : ∀ r, s'.res r = s.res r := fun r => by simp only [KState.res, hr]
  have hcond : ∀ c, isCond s c = true → isCond s' c = true := by
    intro c hc
    have hlt : c < s.events.size := by
      apply lt_size_of_kind
      intro hk; unfold isCond at hc; rw [hk] at hc; cases hc
    unfold isCond at hc ⊢
    rw [hold c hlt]; exact hc
  have hcb : ∀ cb, CbOK s cb → CbOK s' cb := by
    intro cb h
    cases cb <;> first | trivial | exact hcond _ h
  refine ⟨by simp [he], fun a ha => by rw [hold a ha], ?_, ?_, by rw [hr], fun r => by rw [hres],
    fun r => by rw [hres], ?_⟩
  · intro a ha; unfold coreOf reqOf; rw [hold a ha]
  · intro a hr' _; rw [hold a (lt_size_of_isReq hr')]
  · intro hW
    refine ⟨?_, ?_, ?_, ?_, ?_, ?_⟩
    · intro a l hl cb hcbm
      rw [ev_of_push he] at hl
      split at hl
      · exact CbOK_of_plain s' (hc l hl cb hcbm)
      · exact hcb cb (hW.cbs a l hl cb hcbm)
    · intro p pr hpp
      rw [procQ_of_procs hp] at hpp
      have := hW.procs p pr hpp
      rw [hold p (lt_size_of_kind (by rw [this]; simp))]; exact this
    · intro r a ha
      rw [hres] at ha
      have := hW.putQ r a ha
      rw [hold a (lt_size_of_kind (by rw [this.1]; simp))]; exact this
    · intro r; rw [hres]; exact hW.putNodup r
    · intro r a ha
      rw [hres] at ha
      have := hW.getQ r a ha
      rw [hold a (lt_size_of_kind (by rw [this.1]; simp))]; exact this
    · intro r; rw [hres]; exact hW.getNodup r

theorem of_trigNR (s : KState ℚ σ) (e : EvId) (o : Outcome) (hn : isReq s e = false) : Base s (s.setOut e o) := by
  have hk : ∀ a, ((s.setOut e o).ev a).kind = (s.ev a).kind := kind_setOut s e o
  have hout : ∀ a, isReq s a = true → ((s.setOut e o).ev a).out = (s.ev a).out := by
    intro a ha
    apply out_setOut_other
    intro hc; subst hc; rw [hn] at ha; cases ha
  refine ⟨by unfold KState.setOut; rw [KState.esize_setEv], fun a _ => hk a,
    fun a _ => coreOf_setOut s e o a, fun a ha _ => hout a ha, rfl, fun _ => rfl, fun _ => rfl, ?_⟩
  intro hW
  refine ⟨?_, ?_, ?_, hW.putNodup, ?_, hW.getNodup⟩
  · intro a l hl cb hcb
    rw [cbs_setOut] at hl
    exact cbOK_of_kind hk (hW.cbs a l hl cb hcb)
  · intro p pr hp
    rw [hk]; exact hW.procs p pr hp
  · intro r a ha
    have := hW.putQ r a ha
    rw [hk, hout a (isReq_of_put this.1)]; exact this
  · intro r a ha
    have := hW.getQ r a ha
    rw [hk, hout a (isReq_of_get this.1)]; exact this

/-- the events side of a unit that writes the outcome of request `e` and keeps everything else -/
theorem wf_of_evSame {s s' : KState ℚ σ} (hW : WF s) (hk : ∀ a, (s'.ev a).kind = (s.ev a).kind)
    (hc : ∀ a, (s'.ev a).cbs = (s.ev a).cbs) (hp : s'.procs = s.procs)
    (hput : ∀ r a, a ∈ (s'.res r).putQ → a ∈ (s.res r).putQ ∧ (s'.ev a).out = (s.ev a).out)
    (hputN : ∀ r, (s'.res r).putQ.Nodup)
    (hget : ∀ r a, a ∈ (s'.res r).getQ → a ∈ (s.res r).getQ ∧ (s'.ev a).out = (s.ev a).out)
    (hgetN : ∀ r, (s'.res r).getQ.Nodup) : WF s' := by
  refine ⟨?_, ?_, ?_, hputN, ?_, hgetN⟩
  · intro a l hl cb hcb
    rw [hc] at hl
    exact cbOK_of_kind hk (hW.cbs a l hl cb hcb)
  · intro p pr hpp
    rw [procQ_of_procs hp] at hpp
    rw [hk]; exact hW.procs p pr hpp
  · intro r a ha
    obtain ⟨h1, h2⟩ := hput r a ha
    rw [hk, h2]; exact hW.putQ r a h1
  · intro r a ha
    obtain ⟨h1, h2⟩ := hget r a ha
    rw [hk, h2]; exact hW.getQ r a h1

theorem of_putEffect {s s' : KState ℚ σ} {r : ResId} {e : EvId} (hW : WF s) (hmem : e ∈ (s.res r).putQ)
    (hE : PutEffect s s' r e) : Base s s' := by
  have hew := hW.putQ r e hmem
  refine ⟨Nat.le_of_eq hE.size.symm, fun a _ => hE.kind a, fun a _ => hE.core a, ?_, hE.rsize, ?_, ?_, ?_⟩
  · intro a _ ho
    apply hE.outOther
    intro hc; subst hc; exact ho hew.2
  · intro r'
    by_cases h : r' = r
    · subst h; exact hE.rkind
    · rw [hE.resOther r' h]
  · intro r'
    by_cases h : r' = r
    · subst h; exact hE.rcap
    · rw [hE.resOther r' h]
  · intro _
    apply wf_of_evSame hW hE.kind hE.cbs hE.procs
    · intro r' a ha
      by_cases h : r' = r
      · subst h
        rw [hE.putQ, (hW.putNodup r').mem_erase_iff] at ha
        exact ⟨ha.2, hE.outOther a ha.1⟩
      · rw [hE.resOther r' h] at ha
        refine ⟨ha, hE.outOther a (ne_of_kind_ne (s := s) ?_)⟩
        rw [(hW.putQ r' a ha).1, hew.1]
        intro hc; injection hc with hc; exact h hc
    · intro r'
      by_cases h : r' = r
      · subst h; rw [hE.putQ]; exact (hW.putNodup r').erase e
      · rw [hE.resOther r' h]; exact hW.putNodup r'
    · intro r' a ha
      have ha' : a ∈ (s.res r').getQ := by
        by_cases h : r' = r
        · subst h; rw [hE.getQ] at ha; exact ha
        · rw [hE.resOther r' h] at ha; exact ha
      refine ⟨ha', hE.outOther a (ne_of_kind_ne (s := s) ?_)⟩
      rw [(hW.getQ r' a ha').1, hew.1]
      intro hc; cases hc
    · intro r'
      by_cases h : r' = r
      · subst h; rw [hE.getQ]; exact hW.getNodup r'
      · rw [hE.resOther r' h]; exact hW.getNodup r'

theorem of_getEffect {s s' : KState ℚ σ} {r : ResId} {e : EvId} {v : Val} (hW : WF s) (hmem : e ∈ (s.res r).getQ)
    (hE : GetEffect s s' r e v) : Base s s' := by
  have hew := hW.getQ r e hmem
  refine ⟨Nat.le_of_eq hE.size.symm, fun a _ => hE.kind a, fun a _ => hE.core a, ?_, hE.rsize, ?_, ?_, ?_⟩
  · intro a _ ho
    apply hE.outOther
    intro hc; subst hc; exact ho hew.2
  · intro r'
    by_cases h : r' = r
    · subst h; exact hE.rkind
    · rw [hE.resOther r' h]
  · intro r'
    by_cases h : r' = r
    · subst h; exact hE.rcap
    · rw [hE.resOther r' h]
  · intro _
    apply wf_of_evSame hW hE.kind hE.cbs hE.procs
    · intro r' a ha
      have ha' : a ∈ (s.res r').putQ := by
        by_cases h : r' = r
        · subst h; rw [hE.putQ] at ha; exact ha
        · rw [hE.resOther r' h] at ha; exact ha
      refine ⟨ha', hE.outOther a (ne_of_kind_ne (s := s) ?_)⟩
      rw [(hW.putQ r' a ha').1, hew.1]
      intro hc; cases hc
    · intro r'
      by_cases h : r' = r
      · subst h; rw [hE.putQ]; exact hW.putNodup r'
      · rw [hE.resOther r' h]; exact hW.putNodup r'
    · intro r' a ha
      by_cases h : r' = r
      · subst h
        rw [hE.getQ, (hW.getNodup r').mem_erase_iff] at ha
        exact ⟨ha.2, hE.outOther a ha.1⟩
      · rw [hE.resOther r' h] at ha
        refine ⟨ha, hE.outOther a (ne_of_kind_ne (s := s) ?_)⟩
        rw [(hW.getQ r' a ha).1, hew.1]
        intro hc; injection hc with hc; exact h hc
    · intro r'
      by_cases h : r' = r
      · subst h; rw [hE.getQ]; exact (hW.getNodup r').erase e
      · rw [hE.resOther r' h]; exact hW.getNodup r'

/-- what `Put/Get.__init__` does to the tables, abstractly: a fresh untriggered request of `r` whose callbacks are
plain; the put queue of `r` gains at most the fresh request, everything else is as before -/
theorem of_newReq {s s' : KState ℚ σ} {x : EvRec ℚ} {r : ResId} (hN : NewReqEv s s' x)
    (hxo : x.out = none) (hxc : ∀ l, x.cbs = some l → ∀ cb ∈ l, cbPlain cb = true)
    (hkind : ∀ r', (s'.res r').kind = (s.res r').kind) (hcap : ∀ r', (s'.res r').capacity = (s.res r').capacity)
    (hput : ∀ r' a, a ∈ (s'.res r').putQ → a ∈ (s.res r').putQ ∨ (a = s.events.size ∧ r' = r ∧ x.kind = .put r))
    (hputN : ∀ r', (s.res r').putQ.Nodup → (∀ a ∈ (s.res r').putQ, a < s.events.size) → (s'.res r').putQ.Nodup)
    (hget : ∀ r' a, a ∈ (s'.res r').getQ → a ∈ (s.res r').getQ ∨ (a = s.events.size ∧ r' = r ∧ x.kind = .get r))
    (hgetN : ∀ r', (s.res r').getQ.Nodup → (∀ a ∈ (s.res r').getQ, a < s.events.size) → (s'.res r').getQ.Nodup) :
    Base s s' := by
  have hcond : ∀ c, isCond s c = true → isCond s' c = true := by
    intro c hc
    have hlt : c < s.events.size := by
      apply lt_size_of_kind
      intro hk; unfold isCond at hc; rw [hk] at hc; cases hc
    unfold isCond at hc ⊢
    rw [hN.old c hlt]; exact hc
  have hcb : ∀ cb, CbOK s cb → CbOK s' cb := by
    intro cb h
    cases cb <;> first | trivial | exact hcond _ h
  refine ⟨by rw [hN.size]; exact Nat.le_succ _, fun a ha => by rw [hN.old a ha], ?_, ?_, hN.rsize, hkind, hcap, ?_⟩
  · intro a ha; unfold coreOf reqOf; rw [hN.old a ha]
  · intro a hr' _; rw [hN.old a (lt_size_of_isReq hr')]
  · intro hW
    have hputlt : ∀ r', ∀ a ∈ (s.res r').putQ, a < s.events.size := fun r' a ha =>
      lt_size_of_kind (by rw [(hW.putQ r' a ha).1]; simp)
    have hgetlt : ∀ r', ∀ a ∈ (s.res r').getQ, a < s.events.size := fun r' a ha =>
      lt_size_of_kind (by rw [(hW.getQ r' a ha).1]; simp)
    refine ⟨?_, ?_, ?_, fun r' => hputN r' (hW.putNodup r') (hputlt r'), ?_,
      fun r' => hgetN r' (hW.getNodup r') (hgetlt r')⟩
    · intro a l hl cb hcbm
      by_cases ha : a < s.events.size
      · rw [hN.old a ha] at hl
        exact hcb cb (hW.cbs a l hl cb hcbm)
      · by_cases ha2 : a = s.events.size
        · subst ha2
          rw [hN.new] at hl
          exact CbOK_of_plain s' (hxc l hl cb hcbm)
        · exfalso
          have hge : s'.events.size ≤ a := by
            rw [hN.size]
            rcases Nat.lt_trichotomy a s.events.size with h | h | h
            · exact absurd h ha
            · exact absurd h ha2
            · exact h
          have : s'.ev a = default := by
            simp only [KState.ev, Array.getD_eq_getD_getElem?]
            rw [Array.getElem?_eq_none hge]; rfl
          rw [this] at hl; cases hl
    · intro p pr hpp
      rw [procQ_of_procs hN.procs] at hpp
      have := hW.procs p pr hpp
      rw [hN.old p (lt_size_of_kind (by rw [this]; simp))]; exact this
    · intro r' a ha
      rcases hput r' a ha with h | ⟨h1, h2, h3⟩
      · have := hW.putQ r' a h
        rw [hN.old a (hputlt r' a h)]; exact this
      · subst h1; subst h2
        rw [hN.new]; exact ⟨h3, hxo⟩
    · intro r' a ha
      rcases hget r' a ha with h | ⟨h1, h2, h3⟩
      · have := hW.getQ r' a h
        rw [hN.old a (hgetlt r' a h)]; exact this
      · subst h1; subst h2
        rw [hN.new]; exact ⟨h3, hxo⟩

theorem of_newPut (s : KState ℚ σ) (r : ResId) (rq : ReqData ℚ) : Base s (newPutSt s r rq) := by
  have hgetQ : ∀ r', ((newPutSt s r rq).res r').getQ = (s.res r').getQ := by
    intro r'
    by_cases h : r' = r
    · subst h
      by_cases hr : r' < s.resources.size
      · rw [newPut_res_in s r' rq hr]
      · rw [newPut_res_out s r' rq hr]
    · rw [newPut_resOther s r rq r' h]
  apply of_newReq (r := r) (newPut_ev s r rq) rfl
  · intro l hl cb hcb
    simp only [putRec, Option.some.injEq] at hl
    subst hl
    rw [List.mem_singleton] at hcb; subst hcb; rfl
  · intro r'
    by_cases h : r' = r
    · subst h
      by_cases hr : r' < s.resources.size
      · rw [newPut_res_in s r' rq hr]
      · rw [newPut_res_out s r' rq hr]
    · rw [newPut_resOther s r rq r' h]
  · intro r'
    by_cases h : r' = r
    · subst h
      by_cases hr : r' < s.resources.size
      · rw [newPut_res_in s r' rq hr]
      · rw [newPut_res_out s r' rq hr]
    · rw [newPut_resOther s r rq r' h]
  · intro r' a ha
    by_cases h : r' = r
    · subst h
      by_cases hr : r' < s.resources.size
      · rw [newPut_res_in s r' rq hr] at ha
        simp only at ha
        split at ha
        · rw [mem_insertSorted] at ha
          rcases ha with ha | ha
          · exact Or.inr ⟨ha, rfl, rfl⟩
          · exact Or.inl ha
        · rcases List.mem_append.mp ha with ha | ha
          · exact Or.inl ha
          · exact Or.inr ⟨List.mem_singleton.mp ha, rfl, rfl⟩
      · rw [newPut_res_out s r' rq hr] at ha; exact Or.inl ha
    · rw [newPut_resOther s r rq r' h] at ha; exact Or.inl ha
  · intro r' hn hlt
    by_cases h : r' = r
    · subst h
      by_cases hr : r' < s.resources.size
      · rw [newPut_res_in s r' rq hr]
        simp only
        have hnot : s.events.size ∉ (s.res r').putQ := fun hc => Nat.lt_irrefl _ (hlt _ hc)
        split
        · exact nodup_insertSorted _ _ _ hn hnot
        · rw [List.nodup_append]
          refine ⟨hn, by simp, ?_⟩
          intro a ha b hb
          rw [List.mem_singleton] at hb; subst hb
          exact fun hc => hnot (hc ▸ ha)
      · rw [newPut_res_out s r' rq hr]; exact hn
    · rw [newPut_resOther s r rq r' h]; exact hn
  · intro r' a ha
    rw [hgetQ] at ha; exact Or.inl ha
  · intro r' hn _
    rw [hgetQ]; exact hn

theorem of_newGet (s : KState ℚ σ) (r : ResId) (rq : ReqData ℚ) : Base s (newGetSt s r rq) := by
  have hputQ : ∀ r', ((newGetSt s r rq).res r').putQ = (s.res r').putQ := by
    intro r'
    by_cases h : r' = r
    · subst h
      by_cases hr : r' < s.resources.size
      · rw [newGet_res_in s r' rq hr]
      · rw [newGet_res_out s r' rq hr]
    · rw [newGet_resOther s r rq r' h]
  apply of_newReq (r := r) (newGet_ev s r rq) rfl
  · intro l hl cb hcb
    simp only [getRec, Option.some.injEq] at hl
    subst hl
    rw [List.mem_singleton] at hcb; subst hcb; rfl
  · intro r'
    by_cases h : r' = r
    · subst h
      by_cases hr : r' < s.resources.size
      · rw [newGet_res_in s r' rq hr]
      · rw [newGet_res_out s r' rq hr]
    · rw [newGet_resOther s r rq r' h]
  · intro r'
    by_cases h : r' = r
    · subst h
      by_cases hr : r' < s.resources.size
      · rw [newGet_res_in s r' rq hr]
      · rw [newGet_res_out s r' rq hr]
    · rw [newGet_resOther s r rq r' h]
  · intro r' a ha
    rw [hputQ] at ha; exact Or.inl ha
  · intro r' hn _
    rw [hputQ]; exact hn
  · intro r' a ha
    by_cases h : r' = r
    · subst h
      by_cases hr : r' < s.resources.size
      · rw [newGet_res_in s r' rq hr] at ha
        rcases List.mem_append.mp ha with ha | ha
        · exact Or.inl ha
        · exact Or.inr ⟨List.mem_singleton.mp ha, rfl, rfl⟩
      · rw [newGet_res_out s r' rq hr] at ha; exact Or.inl ha
    · rw [newGet_resOther s r rq r' h] at ha; exact Or.inl ha
  · intro r' hn hlt
    by_cases h : r' = r
    · subst h
      by_cases hr : r' < s.resources.size
      · rw [newGet_res_in s r' rq hr]
        have hnot : s.events.size ∉ (s.res r').getQ := fun hc => Nat.lt_irrefl _ (hlt _ hc)
        show ((s.res r').getQ ++ [s.events.size]).Nodup
        rw [List.nodup_append]
        refine ⟨hn, by simp, ?_⟩
        intro a ha b hb
        rw [List.mem_singleton] at hb; subst hb
        exact fun hc => hnot (hc ▸ ha)
      · rw [newGet_res_out s r' rq hr]; exact hn
    · rw [newGet_resOther s r rq r' h]; exact hn

theorem of_cancelPut (s : KState ℚ σ) (r : ResId) (e : EvId) : Base s (dropPutQ s r e) := by
  have hres : ∀ r', ((dropPutQ s r e).res r').kind = (s.res r').kind ∧
      ((dropPutQ s r e).res r').capacity = (s.res r').capacity ∧ ((dropPutQ s r e).res r').getQ = (s.res r').getQ ∧
      ((dropPutQ s r e).res r').putQ.Sublist (s.res r').putQ := by
    intro r'
    rw [dropPutQ_res]
    split
    · rename_i h; rw [h.1]; exact ⟨rfl, rfl, rfl, List.erase_sublist⟩
    · exact ⟨rfl, rfl, rfl, List.Sublist.refl _⟩
  refine ⟨Nat.le_refl _, fun _ _ => rfl, fun _ _ => rfl, fun _ _ _ => rfl, ?_, fun r' => (hres r').1,
    fun r' => (hres r').2.1, ?_⟩
  · unfold dropPutQ KState.setPutQ; rw [KState.rsize_setRes]
  · intro hW
    refine wf_of_evSame hW (fun _ => rfl) (fun _ => rfl) rfl ?_ ?_ ?_ ?_
    · intro r' a ha; exact ⟨(hres r').2.2.2.subset ha, rfl⟩
    · intro r'; exact (hW.putNodup r').sublist (hres r').2.2.2
    · intro r' a ha; rw [(hres r').2.2.1] at ha; exact ⟨ha, rfl⟩
    · intro r'; rw [(hres r').2.2.1]; exact hW.getNodup r'

theorem of_cancelGet (s : KState ℚ σ) (r : ResId) (e : EvId) : Base s (dropGetQ s r e) := by
  have hres : ∀ r', ((dropGetQ s r e).res r').kind = (s.res r').kind ∧
      ((dropGetQ s r e).res r').capacity = (s.res r').capacity ∧ ((dropGetQ s r e).res r').putQ = (s.res r').putQ ∧
      ((dropGetQ s r e).res r').getQ.Sublist (s.res r').getQ := by
    intro r'
    rw [dropGetQ_res]
    split
    · rename_i h; rw [h.1]; exact ⟨rfl, rfl, rfl, List.erase_sublist⟩
    · exact ⟨rfl, rfl, rfl, List.Sublist.refl _⟩
  refine ⟨Nat.le_refl _, fun _ _ => rfl, fun _ _ => rfl, fun _ _ _ => rfl, ?_, fun r' => (hres r').1,
    fun r' => (hres r').2.1, ?_⟩
  · unfold dropGetQ KState.setGetQ; rw [KState.rsize_setRes]
  · intro hW
    refine wf_of_evSame hW (fun _ => rfl) (fun _ => rfl) rfl ?_ ?_ ?_ ?_
    · intro r' a ha; rw [(hres r').2.2.1] at ha; exact ⟨ha, rfl⟩
    · intro r'; rw [(hres r').2.2.1]; exact hW.putNodup r'
    · intro r' a ha; exact ⟨(hres r').2.2.2.subset ha, rfl⟩
    · intro r'; exact (hW.getNodup r').sublist (hres r').2.2.2

/-- the effect of a granted put, from the guards the engine supplies -/
theorem putEffect_of_guard {s : KState ℚ σ} {r : ResId} {e : EvId} {rest : List EvId} (hW : WF s)
    (hq : (s.res r).putQ = e :: rest) : PutEffect s (grantPutSt s r e) r e := by
  have hmem : e ∈ (s.res r).putQ := by rw [hq]; exact List.mem_cons_self
  exact grantPut_effect s r e (lt_size_of_kind (by rw [(hW.putQ r e hmem).1]; simp)) (lt_rsize_of_putQ (by rw [hq]; simp))

theorem getEffect_of_guard {s : KState ℚ σ} {r : ResId} {e : EvId} {v : Val} {pre rest : List EvId} (hW : WF s)
    (hq : (s.res r).getQ = pre ++ e :: rest) (hg : getItem s r e = some v) : GetEffect s (grantGetSt s r e v) r e v := by
  have hmem : e ∈ (s.res r).getQ := by rw [hq]; simp
  exact grantGet_effect s r e v (lt_size_of_kind (by rw [(hW.getQ r e hmem).1]; simp))
    (lt_rsize_of_getQ (by rw [hq]; simp)) hg

/-- **`Base` contains every atomic unit.** -/
theorem crel : CRel (Base (σ := σ)) where
  refl := Base.refl
  trans := Base.trans
  toBase h := h
  frame _ _ _ h := of_frame h
  alloc _ _ x _ he hk hc hr hp := of_alloc x he hk hc hr hp
  trigNR s e o _ hn := of_trigNR s e o hn
  grantPut s r e rest hW hq _ := of_putEffect hW (by rw [hq]; exact List.mem_cons_self) (putEffect_of_guard hW hq)
  grantGet s r e v pre rest hW hq hg _ := of_getEffect hW (by rw [hq]; simp) (getEffect_of_guard hW hq hg)
  newPut s r rq _ := of_newPut s r rq
  newGet s r rq _ := of_newGet s r rq
  cancelPut s r e _ _ _ _ := of_cancelPut s r e
  cancelGet s r e _ _ _ _ := of_cancelGet s r e

end Base

/-- well-formedness of an initial state: no events, no processes, empty queues -/
theorem WF.init (t0 : ℚ) (rs : Array ResRec) (h : ∀ r, (rs.getD r default).putQ = [] ∧ (rs.getD r default).getQ = []) :
    WF ({ now := t0, resources := rs } : KState ℚ σ) := by
  have hev : ∀ e, ({ now := t0, resources := rs } : KState ℚ σ).ev e = default := fun e => by simp [KState.ev]
  refine ⟨?_, ?_, ?_, ?_, ?_, ?_⟩
  · intro e l hl; rw [hev] at hl; cases hl
  · intro p pr hp; simp [KState.proc?] at hp
  · intro r e he
    have : (({ now := t0, resources := rs } : KState ℚ σ).res r).putQ = [] := (h r).1
    rw [this] at he; cases he
  · intro r
    have : (({ now := t0, resources := rs } : KState ℚ σ).res r).putQ = [] := (h r).1
    rw [this]; exact List.nodup_nil
  · intro r e he
    have : (({ now := t0, resources := rs } : KState ℚ σ).res r).getQ = [] := (h r).2
    rw [this] at he; cases he
  · intro r
    have : (({ now := t0, resources := rs } : KState ℚ σ).res r).getQ = [] := (h r).2
    rw [this]; exact List.nodup_nil

/-- **Every state reachable inside the domain is well-formed and `Base`-related to the initial state.** -/
theorem reach_base (body : σ → Resume → Burst ℚ σ) (fuel : Nat) (s0 s : KState ℚ σ) (hW : WF s0)
    (hr : SafeReach body fuel s0 s) : Base s0 s ∧ WF s := by
  have := Base.crel.reach body fuel s0 s hW hr
  exact ⟨this, this.keepWF hW⟩

end Conserve
