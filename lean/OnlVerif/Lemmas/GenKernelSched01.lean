import OnlVerif.Lemmas.GenKernelDefs
import OnlVerif.Lemmas.KAccess
import OnlVerif.Generated.KernelSched01
/-!
# Bridge lemmas (C01): generated constants, queue entry, `Timeout.__init__`, priority per call site (`Generated/KernelSched01.lean`)
= agenda / API-call functions of model `K`
-/

namespace GenKernel
variable {τ σ : Type} [Num τ]

/-! ## constants, queue entries -/

theorem urgent_eq : Gen.URGENT = URGENT := rfl
theorem normal_eq : Gen.NORMAL = NORMAL := rfl

/-- `Environment.schedule` pushes the generated tuple -/
theorem schedule_eq (s : KState τ σ) (e : EvId) (prio : Nat) (delay : τ) :
    s.schedule e prio delay = pushEntry s (Gen.Environment.schedule_entry s.now delay prio s.eid e) := rfl

/-- the model's order on agenda entries is Python's order on the queue tuples -/
theorem entry_lt_eq (a b : τ × Nat × Nat × Nat) : QEntry.lt (toEntry a) (toEntry b) = Py.entryLt a b := by
  unfold QEntry.lt Py.entryLt toEntry
  simp [Bool.beq_eq_decide_eq]

/-! ## `Timeout.__init__` -/

theorem timeout_init (s : KState τ σ) (self : EvId) (d : τ) (v : Val) :
    doCall s self (.timeout d v) =
      (if (Gen.Timeout.init (evObj (τ := τ)) d).raised = 2 then (s, .err (valueErr "Negative delay"))
       else match buildEvent (fun _ => Cb.stop) (Gen.Timeout.init (evObj (τ := τ)) d).eff {} with
         | some o =>
           (schedAll (s.newLabelled (o.toRec .timeout v default)).1 (s.newLabelled (o.toRec (τ := τ) .timeout v default)).2
              (schedOf (Gen.Timeout.init (evObj (τ := τ)) d).eff),
            .ev (s.newLabelled (o.toRec (τ := τ) .timeout v default)).2)
         | none => (s, .unit)) := by
  unfold Gen.Timeout.init
  simp only [doCall]
  by_cases h : d < Num.zero
  · rw [if_pos h, if_pos h]; rfl
  · rw [if_neg h, if_neg h]; rfl

end GenKernel
