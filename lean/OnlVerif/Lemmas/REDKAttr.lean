import Lean.Meta.Tactic.Simp.RegisterCommand
/-! simp set used to execute the kernel model symbolically on the generator → REDPort → sink program -/
register_simp_attr redk
