import OnlVerif.Lemmas.SplitSimRun
/-!
# `run(until=t)` is transparent up to the renaming of event ids — under the run-level hypothesis `SimAlong` (C03, stage 3)

The composition of `Lemmas/SplitTime.lean`, redone with `SimAlong` ("along the uninterrupted run from `s`, the program fed
with renamed inputs issues the renamed calls") in place of the program-level `BodySim`.
-/

variable {σ : Type}

namespace SplitCfg
variable (c : SplitCfg σ)

theorem stepN_T_true_run (body : σ → Resume → Burst ℚ σ) (fuel : Nat) (k : Nat)
    (s S : KState ℚ σ) (g : c.Good s) (hf : c.FuelAlong body fuel s) (hsim : c.SimAlong body fuel s)
    (h : stepN body fuel k (c.T true s) = .ok S) :
    ∃ sk, stepN body fuel k s = .ok sk ∧ S = c.T true sk ∧ c.Good sk ∧ c.FuelAlong body fuel sk ∧ c.SimAlong body fuel sk := by
  induction k generalizing s with
  | zero => cases h; exact ⟨s, rfl, rfl, g, hf, hsim⟩
  | succ k ih =>
    rw [stepN_succ] at h ⊢
    have hst := c.step_T_true_run body fuel s g.inv g.sorted (hf 0 s rfl) (hsim 0 s rfl)
    rw [hst] at h
    cases hp : popMin s.agenda with
    | none => rw [hp] at h; cases h
    | some mr =>
      obtain ⟨m, rest⟩ := mr
      rw [hp] at h
      simp only at h
      split at h
      · cases hs : step body fuel s with
        | ok s1 =>
          rw [hs] at h
          exact ih s1 (g.step c body fuel (by rw [hs]; rfl)) (hf.tail c hs) (hsim.tail c hs) h
        | stopped o s1 => rw [hs] at h; cases h
        | crash x s1 => rw [hs] at h; cases h
        | empty => rw [hs] at h; cases h
      · cases h

theorem stepN_T_false_run (body : σ → Resume → Burst ℚ σ) (fuel : Nat) (k : Nat)
    (s sk : KState ℚ σ) (hi : c.Inv s) (hf : c.FuelAlong body fuel s) (hsim : c.SimAlong body fuel s)
    (h : stepN body fuel k s = .ok sk) : stepN body fuel k (c.T false s) = .ok (c.T false sk) := by
  induction k generalizing s with
  | zero => cases h; rfl
  | succ k ih =>
    rw [stepN_succ] at h ⊢
    rw [c.step_T_false_run body fuel s hi (hf 0 s rfl) (hsim 0 s rfl)]
    cases hs : step body fuel s with
    | ok s1 =>
      rw [hs] at h
      exact ih s1 (hi.mono (grow_step body fuel s s1 (by rw [hs]; rfl))) (hf.tail c hs) (hsim.tail c hs) h
    | stopped o s1 => rw [hs] at h; cases h
    | crash x s1 => rw [hs] at h; cases h
    | empty => rw [hs] at h; cases h

theorem after_split_lockstep_run (body : σ → Resume → Burst ℚ σ) (fuel : Nat) (j : Nat)
    (sk sj : KState ℚ σ) (hi : c.Inv sk) (hf : c.FuelAlong body fuel sk) (hsim : c.SimAlong body fuel sk)
    (h : stepN body fuel (j + 1) sk = .ok sj) :
    stepN body fuel (j + 1) (c.afterSentinel sk) = .ok (c.T false sj) := by
  have := c.stepN_T_false_run body fuel (j + 1) sk sj hi hf hsim h
  rw [stepN_succ] at this ⊢
  exact this

theorem processed_before_sentinel_run (body : σ → Resume → Burst ℚ σ) (fuel : Nat) (k : Nat)
    (s S : KState ℚ σ) (g : c.Good s) (hf : c.FuelAlong body fuel s) (hsim : c.SimAlong body fuel s)
    (h : stepN body fuel k (c.T true s) = .ok S) :
    ∀ j, j < k → ∀ sj m rest, stepN body fuel j s = .ok sj → popMin sj.agenda = some (m, rest) →
      (c.rnEntry m).lt c.sentEntry = true := by
  induction k generalizing s with
  | zero => intro j hj; exact absurd hj (Nat.not_lt_zero _)
  | succ k ih =>
    rw [stepN_succ] at h
    have hst := c.step_T_true_run body fuel s g.inv g.sorted (hf 0 s rfl) (hsim 0 s rfl)
    rw [hst] at h
    cases hp : popMin s.agenda with
    | none => rw [hp] at h; cases h
    | some mr =>
      obtain ⟨m0, rest0⟩ := mr
      rw [hp] at h
      simp only at h
      by_cases hlt : (c.rnEntry m0).lt c.sentEntry = true
      · rw [if_pos hlt] at h
        cases hs : step body fuel s with
        | ok s1 =>
          rw [hs] at h
          intro j hj sj m rest hsj hm
          cases j with
          | zero =>
            cases hsj
            rw [hp] at hm
            cases hm
            exact hlt
          | succ j =>
            rw [stepN_succ, hs] at hsj
            exact ih s1 (g.step c body fuel (by rw [hs]; rfl)) (hf.tail c hs) (hsim.tail c hs) h j
              (Nat.lt_of_succ_lt_succ hj) sj m rest hsj hm
        | stopped o s1 => rw [hs] at h; cases h
        | crash x s1 => rw [hs] at h; cases h
        | empty => rw [hs] at h; cases h
      · rw [if_neg hlt] at h; cases h

/-- **`run(until=t)` is transparent up to the renaming of event ids**, under the run-level hypothesis -/
theorem runUntilTime_transparent_run (body : σ → Resume → Burst ℚ σ) (fuel n : Nat) (s s' : KState ℚ σ) (v : Val)
    (hu : c.u = s.events.size) (he : c.eid0 = s.eid) (hlt : s.now < c.t)
    (hc : c.Closed s) (hs : SortedAg s) (hns : AllStopFree s) (hsim : c.SimAlong body fuel s)
    (hf : c.FuelAlong body fuel s)
    (h : runUntilTime body fuel n c.t s = .returned v s') :
    v = .none ∧ ∃ k sk, k < n ∧ stepN body fuel k s = .ok sk ∧ s' = c.afterSentinel sk ∧ c.Inv sk ∧
      c.FuelAlong body fuel sk ∧ c.SimAlong body fuel sk ∧ AllStopFree s' ∧
      (∀ j, j < k → ∀ sj m rest, stepN body fuel j s = .ok sj → popMin sj.agenda = some (m, rest) →
        (m.time < c.t ∨ (m.time = c.t ∧ m.prio = URGENT ∧ m.eid < c.eid0))) ∧
      (∀ m rest, popMin sk.agenda = some (m, rest) →
        ¬ (m.time < c.t ∨ (m.time = c.t ∧ m.prio = URGENT ∧ m.eid < c.eid0))) := by
  rw [runUntilTime_eq body fuel n c.t s hlt, c.plant_eq_T s hu he hc hs] at h
  have g : c.Good s := ⟨⟨Nat.le_of_eq hu, Nat.le_of_eq he⟩, hs, hns⟩
  obtain ⟨k, S, hk, h1, h2, _⟩ := runLoop_ended body fuel (some s.events.size) n (c.T true s)
    (by intro s'' hc'; rw [hc'] at h; cases h)
  rw [h2] at h
  have hbefore := c.processed_before_sentinel_run body fuel k s S g hf hsim h1
  obtain ⟨sk, h3, rfl, gk, hfk, hsk⟩ := c.stepN_T_true_run body fuel k s S g hf hsim h1
  have hbefore' : ∀ j, j < k → ∀ sj m rest, stepN body fuel j s = .ok sj → popMin sj.agenda = some (m, rest) →
      (m.time < c.t ∨ (m.time = c.t ∧ m.prio = URGENT ∧ m.eid < c.eid0)) :=
    fun j hj sj m rest h1 h2 => (c.lt_sent_iff m).mp (hbefore j hj sj m rest h1 h2)
  have hfree := c.afterSentinel_stopFree sk gk.inv gk.nostop
  simp only [runLoop] at h
  have hst := c.step_T_true_run body fuel sk gk.inv gk.sorted (hfk 0 sk rfl) (hsk 0 sk rfl)
  have hret : onStop (some s.events.size) (.ok .none) (c.afterSentinel sk) = .returned v s' →
      v = .none ∧ s' = c.afterSentinel sk := by
    intro hr
    unfold onStop at hr
    simp only [Option.bind_some] at hr
    have hout : ((c.afterSentinel sk).ev s.events.size).out = some (.ok .none) := by
      have h2 : (c.afterSentinel sk).ev s.events.size = (c.T false sk).ev c.u := by rw [hu]; rfl
      rw [h2, c.ev_T_u false sk gk.inv]
      rfl
    rw [hout] at hr
    simp only at hr
    cases hr
    exact ⟨rfl, rfl⟩
  cases hp : popMin sk.agenda with
  | none =>
    rw [hp] at hst
    rw [hst] at h
    obtain ⟨hv, hs'⟩ := hret h
    exact ⟨hv, k, sk, hk, h3, hs', gk.inv, hfk, hsk, hs' ▸ hfree, hbefore', by intro m rest hm; rw [hp] at hm; cases hm⟩
  | some mr =>
    obtain ⟨m, rest⟩ := mr
    rw [hp] at hst
    simp only at hst
    by_cases hlt' : (c.rnEntry m).lt c.sentEntry = true
    · rw [if_pos hlt'] at hst
      rw [hst] at h
      cases hs1 : step body fuel sk with
      | ok s1 => rw [hs1] at h; cases h
      | stopped o s1 => exact absurd hs1 (step_not_stopped_of_allStopFree body fuel sk gk.nostop o s1)
      | crash x s1 => rw [hs1] at h; cases h
      | empty => rw [hs1] at h; simp only [mapT, Option.isSome_some, if_true] at h; cases h
    · rw [if_neg hlt'] at hst
      rw [hst] at h
      obtain ⟨hv, hs'⟩ := hret h
      refine ⟨hv, k, sk, hk, h3, hs', gk.inv, hfk, hsk, hs' ▸ hfree, hbefore', ?_⟩
      intro m' rest' hm
      rw [hp] at hm
      cases hm
      exact fun hc' => hlt' ((c.lt_sent_iff m).mpr hc')

end SplitCfg
