import Mathlib.Tactic.Linarith
import Mathlib.Algebra.Order.Field.Rat
import OnlVerif.Basic.Num
/-! # The scalar interface at `ℚ` -/

theorem zero_eq' : (Num.zero : ℚ) = 0 := by
  show ((0 : ℕ) : ℚ) = 0
  simp

theorem Num.ofNat_rat (n : ℕ) : (Num.ofNat n : ℚ) = (n : ℚ) := rfl

theorem Num.eqb_iff (a b : ℚ) : Num.eqb a b = true ↔ a = b := by
  unfold Num.eqb
  simp only [Bool.and_eq_true, Bool.not_eq_true', decide_eq_false_iff_not, not_lt]
  exact ⟨fun h => le_antisymm h.2 h.1, fun h => ⟨h ▸ le_refl _, h ▸ le_refl _⟩⟩

theorem Num.pymin_eq (a b : ℚ) : Num.pymin a b = min a b := by
  unfold Num.pymin
  split
  · rename_i h; exact (min_eq_right (le_of_lt h)).symm
  · rename_i h; exact (min_eq_left (not_lt.mp h)).symm

theorem Num.pymax_eq (a b : ℚ) : Num.pymax a b = max a b := by
  unfold Num.pymax
  split
  · rename_i h; exact (max_eq_right (le_of_lt h)).symm
  · rename_i h; exact (max_eq_left (not_lt.mp h)).symm
