import OnlVerif.Lemmas.GenKernelDefs
import OnlVerif.Lemmas.KAccess
/-!
# Bridge lemmas: generated resource / container / store methods = the resource functions of model `K` (`Kernel/Ops.lean`)

For every scalar type (no arithmetic identity is needed): the guards are compared as decision procedures, the effects
through `GenKernel.runEff`.
-/

namespace GenKernel
variable {τ σ : Type} [Num τ]

/-! ## capacities -/

theorem fin_lt_capOf (n : Nat) (cap : Option Nat) : (ExtInt.fin (n : Int) < capOf cap) ↔ hasRoom cap n = true := by
  show ExtInt.lt _ _ = true ↔ _
  cases cap with
  | none => simp [capOf, hasRoom, ExtInt.lt]
  | some c => simp [capOf, hasRoom, ExtInt.lt]

theorem capOf_le_fin (n : Nat) (cap : Option Nat) :
    (capOf cap ≤ ExtInt.fin (n : Int)) ↔ cap.any (fun c => decide (c ≤ n)) = true := by
  show ExtInt.le _ _ = true ↔ _
  cases cap with
  | none => simp [capOf, ExtInt.le]
  | some c => simp [capOf, ExtInt.le]

/-! ## `Resource._do_put` / `_do_get` -/

/-- the free-slot test of `Resource._do_put` is `hasRoom` -/
theorem resource_guard (rr : ResRec) (n : Nat) :
    (Gen.Resource.do_put (resObj (τ := τ) rr) (n : Int)).ret = hasRoom rr.capacity n := by
  unfold Gen.Resource.do_put
  by_cases h : hasRoom rr.capacity n = true
  · have h' : ExtInt.fin (n : Int) < (resObj (τ := τ) rr).capacity := (fin_lt_capOf _ _).2 h
    rw [if_pos h', h]
  · have h' : ¬ ExtInt.fin (n : Int) < (resObj (τ := τ) rr).capacity := mt (fin_lt_capOf _ _).1 h
    rw [if_neg h']
    simpa using h

theorem resource_do_put (s : KState τ σ) (r : ResId) (e : EvId)
    (hk : (s.res r).kind = .resource ∨ (s.res r).kind = .priority) :
    runEff { r := r, e := e } (Gen.Resource.do_put (resObj (s.res r)) (s.res r).users.length).eff s = some (doPut s r e).1 ∧
    (Gen.Resource.do_put (resObj (τ := τ) (s.res r)) (s.res r).users.length).ret = (doPut s r e).2 := by
  have hp : prePut s r e = s := by
    unfold prePut; rcases hk with h | h <;> rw [h] <;> rfl
  have hc : canPut s r e = hasRoom (s.res r).capacity (s.res r).users.length := by
    unfold canPut; rcases hk with h | h <;> simp [h]
  unfold doPut
  rw [hp, hc]
  unfold Gen.Resource.do_put
  by_cases h : hasRoom (s.res r).capacity (s.res r).users.length = true
  · have h' : ExtInt.fin ((s.res r).users.length : Int) < (resObj (τ := τ) (s.res r)).capacity := (fin_lt_capOf _ _).2 h
    rw [if_pos h', if_pos h]
    refine ⟨?_, rfl⟩
    unfold applyPut
    rcases hk with hk | hk <;> simp [runEff, applyEff, hk, resObj]
  · have h' : ¬ ExtInt.fin ((s.res r).users.length : Int) < (resObj (τ := τ) (s.res r)).capacity := mt (fin_lt_capOf _ _).1 h
    rw [if_neg h', if_neg h]
    exact ⟨rfl, rfl⟩

theorem resource_do_get (s : KState τ σ) (r : ResId) (e : EvId)
    (hk : (s.res r).kind = .resource ∨ (s.res r).kind = .priority ∨ (s.res r).kind = .preemptive) :
    runEff { r := r, e := e } (Gen.Resource.do_get (resObj (s.res r))).eff s = some (doGet s r e).1 ∧
    (Gen.Resource.do_get (resObj (τ := τ) (s.res r))).ret = (doGet s r e).2 := by
  have hg : getItem s r e = some .none := by
    unfold getItem; dsimp only; rcases hk with h | h | h <;> rw [h]
  have ht : takeOut s r e .none = s.setUsers r ((s.res r).users.erase (reqOf s e).releaseOf) := by
    unfold takeOut; dsimp only; rcases hk with h | h | h <;> rw [h]
  unfold doGet
  rw [hg]
  simp only [ht]
  exact ⟨rfl, rfl⟩

/-! ## `PriorityRequest.key`, `PreemptiveResource._do_put` -/

theorem keyLt_eq (a b : ReqData τ) : keyLt a b = Py.keyLt (keyOf a) (keyOf b) := by
  unfold keyLt Py.keyLt keyOf Gen.PriorityRequest.key
  cases a.preempt <;> cases b.preempt <;> simp [Bool.beq_eq_decide_eq]

theorem worstUser_none (s : KState τ σ) : ∀ l : List EvId, worstUser s l = none → l = []
  | [], _ => rfl
  | u :: us, h => by
    unfold worstUser at h
    split at h
    · cases h
    · split at h <;> cases h

theorem mkInterrupt_res (s : KState τ σ) (p : EvId) (c : Val) (r : ResId) : (mkInterrupt s p c).1.res r = s.res r := by
  unfold mkInterrupt
  split
  · rfl
  · split <;> rfl

omit [Num τ] in
theorem setUsers_kind (s : KState τ σ) (r : ResId) (l : List EvId) (r' : ResId) :
    ((s.setUsers r l).res r').kind = (s.res r').kind ∧ ((s.setUsers r l).res r').capacity = (s.res r').capacity := by
  unfold KState.setUsers
  rw [KState.res_setRes]
  split
  · rename_i h; rw [h.1]; exact ⟨rfl, rfl⟩
  · exact ⟨rfl, rfl⟩

theorem preemptStep_kind (s : KState τ σ) (r : ResId) (e : EvId) :
    ((preemptStep s r e).res r).kind = (s.res r).kind ∧ ((preemptStep s r e).res r).capacity = (s.res r).capacity := by
  unfold preemptStep
  dsimp only
  split
  · split
    · exact ⟨rfl, rfl⟩
    · split
      · split
        · rw [mkInterrupt_res]; exact setUsers_kind s r _ r
        · exact setUsers_kind s r _ r
      · exact ⟨rfl, rfl⟩
  · exact ⟨rfl, rfl⟩

/-- the eviction step; `w` is the victim whenever there is a user, and the capacity is not 0 (`Resource.__init__` refuses it) -/
theorem preemptive_pre_put (s : KState τ σ) (r : ResId) (e w : EvId)
    (hw : ∀ w', worstUser s (s.res r).users = some w' → w' = w) (hcap : (s.res r).capacity ≠ some 0) :
    runEff { r := r, e := e, w := w }
      (Gen.PreemptiveResource.pre_put (resObj (s.res r)) (s.res r).users.length (reqOf s e).preempt
        (keyOf (reqOf s e)) (keyOf (reqOf s w))).eff s = some (preemptStep s r e) := by
  unfold preemptStep Gen.PreemptiveResource.pre_put
  dsimp only
  by_cases hg : ((s.res r).capacity.any (fun c => decide (c ≤ (s.res r).users.length)) && (reqOf s e).preempt) = true
  · rw [if_pos hg]
    have hg' : (resObj (τ := τ) (s.res r)).capacity ≤ ExtInt.fin ((s.res r).users.length : Int) ∧ (reqOf s e).preempt = true := by
      rw [Bool.and_eq_true] at hg
      exact ⟨(capOf_le_fin _ _).2 hg.1, hg.2⟩
    rw [if_pos hg']
    cases hwu : worstUser s (s.res r).users with
    | none =>
      -- no user: the capacity would have to be 0
      exfalso
      have hl := worstUser_none s _ hwu
      rw [Bool.and_eq_true] at hg
      rw [hl] at hg
      cases hc : (s.res r).capacity with
      | none => rw [hc] at hg; simp at hg
      | some c =>
        rw [hc] at hg hcap
        simp at hg
        exact hcap (by rw [hg.1])
    | some w' =>
      have := hw w' hwu
      subst this
      dsimp only
      rw [← keyLt_eq]
      by_cases hk : keyLt (reqOf s e) (reqOf s w') = true
      · rw [if_pos hk, if_pos hk]
        simp only [resObj, runEff, applyEff, List.nil_append, List.cons_append, Option.bind_some, reqOf, KState.ev_setRes, KState.setUsers]
        cases (reqOf s w').proc <;> rfl
      · rw [if_neg hk, if_neg hk]
        rfl
  · rw [if_neg hg]
    have hg' : ¬ ((resObj (τ := τ) (s.res r)).capacity ≤ ExtInt.fin ((s.res r).users.length : Int) ∧ (reqOf s e).preempt = true) := by
      intro h
      apply hg
      rw [Bool.and_eq_true]
      exact ⟨(capOf_le_fin _ _).1 h.1, h.2⟩
    rw [if_neg hg']
    rfl

/-- `Resource._do_put` in any state of a resource of the three classes -/
theorem resource_do_put_at (s : KState τ σ) (r : ResId) (e w : EvId)
    (hk : (s.res r).kind = .resource ∨ (s.res r).kind = .priority ∨ (s.res r).kind = .preemptive) :
    runEff { r := r, e := e, w := w } (Gen.Resource.do_put (resObj (s.res r)) (s.res r).users.length).eff s =
      some (if canPut s r e = true then applyPut s r e else s) ∧
    (Gen.Resource.do_put (resObj (τ := τ) (s.res r)) (s.res r).users.length).ret = canPut s r e := by
  have hc : canPut s r e = hasRoom (s.res r).capacity (s.res r).users.length := by
    unfold canPut; rcases hk with h | h | h <;> simp [h]
  rw [hc]
  unfold Gen.Resource.do_put
  by_cases h : hasRoom (s.res r).capacity (s.res r).users.length = true
  · have h' : ExtInt.fin ((s.res r).users.length : Int) < (resObj (τ := τ) (s.res r)).capacity := (fin_lt_capOf _ _).2 h
    rw [if_pos h', if_pos h]
    refine ⟨?_, h.symm⟩
    unfold applyPut
    rcases hk with hk | hk | hk <;> simp [runEff, applyEff, hk, resObj]
  · have h' : ¬ ExtInt.fin ((s.res r).users.length : Int) < (resObj (τ := τ) (s.res r)).capacity := mt (fin_lt_capOf _ _).1 h
    rw [if_neg h', if_neg h]
    refine ⟨rfl, ?_⟩
    simpa using h

/-- `PreemptiveResource._do_put` = eviction step, then `Resource._do_put` -/
theorem preemptive_do_put (s : KState τ σ) (r : ResId) (e w : EvId) (hk : (s.res r).kind = .preemptive)
    (hw : ∀ w', worstUser s (s.res r).users = some w' → w' = w) (hcap : (s.res r).capacity ≠ some 0) :
    runPreemptivePut { r := r, e := e, w := w } s = some (doPut s r e) := by
  unfold runPreemptivePut runPreemptStep
  rw [preemptive_pre_put s r e w hw hcap]
  have hk1 : ((preemptStep s r e).res r).kind = .preemptive := by rw [(preemptStep_kind s r e).1, hk]
  have h := resource_do_put_at (preemptStep s r e) r e w (Or.inr (Or.inr hk1))
  simp only [Option.bind_some, runResourcePut, finish]
  rw [h.1, h.2]
  have hp : prePut s r e = preemptStep s r e := by unfold prePut; rw [hk]; rfl
  unfold doPut
  rw [hp]
  by_cases hc : canPut (preemptStep s r e) r e = true
  · rw [if_pos hc, if_pos hc, hc]; rfl
  · rw [if_neg hc, if_neg hc]
    have : canPut (preemptStep s r e) r e = false := by simpa using hc
    rw [this]; rfl

theorem resource_put_run (s : KState τ σ) (r : ResId) (e : EvId)
    (hk : (s.res r).kind = .resource ∨ (s.res r).kind = .priority) :
    runResourcePut { r := r, e := e } s = some (doPut s r e) := by
  have h := resource_do_put s r e hk
  simp only [runResourcePut, finish]
  rw [h.1, h.2]; rfl

theorem resource_get_run (s : KState τ σ) (r : ResId) (e : EvId)
    (hk : (s.res r).kind = .resource ∨ (s.res r).kind = .priority ∨ (s.res r).kind = .preemptive) :
    runResourceGet { r := r, e := e } s = some (doGet s r e) := by
  have h := resource_do_get s r e hk
  simp only [runResourceGet, finish]
  rw [h.1, h.2]; rfl

/-! ## `Container` -/

theorem fin_le_sub_capOf (a lv : Int) (cap : Option Nat) :
    (ExtInt.fin a ≤ ExtInt.subInt (capOf cap) lv) ↔
      (match cap with | none => true | some c => decide (a ≤ (c : Int) - lv)) = true := by
  show ExtInt.le _ _ = true ↔ _
  cases cap with
  | none => simp [capOf, ExtInt.le, ExtInt.subInt]
  | some c => simp [capOf, ExtInt.le, ExtInt.subInt]

theorem container_put_run (s : KState τ σ) (r : ResId) (e : EvId) (hk : (s.res r).kind = .container) :
    runContainerPut { r := r, e := e } s = some (doPut s r e) := by
  have hp : prePut s r e = s := by unfold prePut; rw [hk]; rfl
  have hc : canPut s r e = (match (s.res r).capacity with
      | none => true | some c => decide ((reqOf s e).amount ≤ (c : Int) - (s.res r).level)) := by
    unfold canPut; dsimp only; rw [hk]; rfl
  unfold doPut
  rw [hp, hc]
  unfold runContainerPut Gen.Container.do_put
  dsimp only
  by_cases h : (match (s.res r).capacity with
      | none => true | some c => decide ((reqOf s e).amount ≤ (c : Int) - (s.res r).level)) = true
  · have h' : ExtInt.fin (reqOf s e).amount ≤ ExtInt.subInt (contObj (τ := τ) (s.res r)).capacity (contObj (τ := τ) (s.res r)).level :=
      (fin_le_sub_capOf _ _ _).2 h
    rw [if_pos h', if_pos h]
    unfold applyPut
    simp [finish, runEff, applyEff, hk, contObj]
  · have h' : ¬ ExtInt.fin (reqOf s e).amount ≤ ExtInt.subInt (contObj (τ := τ) (s.res r)).capacity (contObj (τ := τ) (s.res r)).level :=
      mt (fin_le_sub_capOf _ _ _).1 h
    rw [if_neg h', if_neg h]
    rfl

theorem container_get_run (s : KState τ σ) (r : ResId) (e : EvId) (hk : (s.res r).kind = .container) :
    runContainerGet { r := r, e := e } s = some (doGet s r e) := by
  unfold doGet getItem runContainerGet Gen.Container.do_get
  dsimp only
  rw [hk]
  dsimp only
  by_cases h : (reqOf s e).amount ≤ (s.res r).level
  · have h' : (reqOf s e).amount ≤ (contObj (τ := τ) (s.res r)).level := h
    rw [if_pos h', if_pos h]
    unfold takeOut
    simp [finish, runEff, applyEff, hk, contObj]
  · have h' : ¬ (reqOf s e).amount ≤ (contObj (τ := τ) (s.res r)).level := h
    rw [if_neg h', if_neg h]
    rfl

/-- the `amount <= 0` refusal of `ContainerPut.__init__` is the guard of the model's `cput` call -/
theorem container_put_init (s : KState τ σ) (self : EvId) (r : ResId) (amount : Int) (hk : (s.res r).kind = .container) :
    doCall s self (.cput r amount) =
      (if (Gen.ContainerPut.init (reqObj (τ := τ)) amount).raised = 2 then (s, .err (valueErr "amount must be > 0"))
       else match initAmount (Gen.ContainerPut.init (reqObj (τ := τ)) amount).eff with
         | some a => ((mkPut s r { res := r, amount := a, time := s.now, proc := s.active }).1,
                      .ev (mkPut s r { res := r, amount := a, time := s.now, proc := s.active }).2)
         | none => (s, .unit)) := by
  unfold Gen.ContainerPut.init
  simp only [doCall, hk]
  by_cases h : amount ≤ 0
  · rw [if_pos h, if_pos h]; rfl
  · rw [if_neg h, if_neg h]; rfl

theorem container_get_init (s : KState τ σ) (self : EvId) (r : ResId) (amount : Int) (hk : (s.res r).kind = .container) :
    doCall s self (.cget r amount) =
      (if (Gen.ContainerGet.init (reqObj (τ := τ)) amount).raised = 2 then (s, .err (valueErr "amount must be > 0"))
       else match initAmount (Gen.ContainerGet.init (reqObj (τ := τ)) amount).eff with
         | some a => ((mkGet s r { res := r, amount := a, time := s.now, proc := s.active }).1,
                      .ev (mkGet s r { res := r, amount := a, time := s.now, proc := s.active }).2)
         | none => (s, .unit)) := by
  unfold Gen.ContainerGet.init
  simp only [doCall, hk]
  by_cases h : amount ≤ 0
  · rw [if_pos h, if_pos h]; rfl
  · rw [if_neg h, if_neg h]; rfl

/-! ## `Store`, `PriorityStore`, `FilterStore` -/

theorem store_put_run (s : KState τ σ) (r : ResId) (e : EvId) (hk : (s.res r).kind = .store ∨ (s.res r).kind = .fstore) :
    runStorePut { r := r, e := e } s = some (doPut s r e) := by
  have hp : prePut s r e = s := by unfold prePut; rcases hk with h | h <;> rw [h] <;> rfl
  have hc : canPut s r e = hasRoom (s.res r).capacity (s.res r).items.length := by
    unfold canPut; dsimp only; rcases hk with h | h <;> rw [h] <;> rfl
  unfold doPut
  rw [hp, hc]
  unfold runStorePut Gen.Store.do_put
  dsimp only
  by_cases h : hasRoom (s.res r).capacity (s.res r).items.length = true
  · have h' : ExtInt.fin ((s.res r).items.length : Int) < (resObj (τ := τ) (s.res r)).capacity := (fin_lt_capOf _ _).2 h
    rw [if_pos h', if_pos h]
    unfold applyPut
    rcases hk with hk | hk <;> simp [finish, runEff, applyEff, hk, resObj]
  · have h' : ¬ ExtInt.fin ((s.res r).items.length : Int) < (resObj (τ := τ) (s.res r)).capacity := mt (fin_lt_capOf _ _).1 h
    rw [if_neg h', if_neg h]
    rfl

theorem pstore_put_run (s : KState τ σ) (r : ResId) (e : EvId) (hk : (s.res r).kind = .pstore) :
    runPStorePut { r := r, e := e } s = some (doPut s r e) := by
  have hp : prePut s r e = s := by unfold prePut; rw [hk]; rfl
  have hc : canPut s r e = hasRoom (s.res r).capacity (s.res r).items.length := by
    unfold canPut; dsimp only; rw [hk]
  unfold doPut
  rw [hp, hc]
  unfold runPStorePut Gen.PriorityStore.do_put
  dsimp only
  by_cases h : hasRoom (s.res r).capacity (s.res r).items.length = true
  · have h' : ExtInt.fin ((s.res r).items.length : Int) < (resObj (τ := τ) (s.res r)).capacity := (fin_lt_capOf _ _).2 h
    rw [if_pos h', if_pos h]
    unfold applyPut
    simp [finish, runEff, applyEff, hk, resObj]
  · have h' : ¬ ExtInt.fin ((s.res r).items.length : Int) < (resObj (τ := τ) (s.res r)).capacity := mt (fin_lt_capOf _ _).1 h
    rw [if_neg h', if_neg h]
    rfl

theorem store_get_run (s : KState τ σ) (r : ResId) (e : EvId) (hk : (s.res r).kind = .store) :
    runStoreGet { r := r, e := e } s = some (doGet s r e) := by
  unfold doGet getItem runStoreGet Gen.Store.do_get
  dsimp only
  rw [hk]
  dsimp only
  cases hi : (s.res r).items with
  | nil => rfl
  | cons x rest => simp [finish, runEff, applyEff, takeOut, hk, hi, resObj]

theorem listMin_none : ∀ l : List Int, listMin l = none → l = []
  | [], _ => rfl
  | x :: xs, h => by
    unfold listMin at h
    split at h
    · cases h
    · split at h <;> cases h

theorem pstore_get_run (s : KState τ σ) (r : ResId) (e : EvId) (hk : (s.res r).kind = .pstore) :
    runPStoreGet { r := r, e := e } s = some (doGet s r e) := by
  unfold doGet getItem runPStoreGet Gen.PriorityStore.do_get
  dsimp only
  rw [hk]
  dsimp only
  cases hm : listMin (s.res r).items with
  | none =>
    have := listMin_none _ hm
    rw [this]; rfl
  | some x =>
    have hne : (s.res r).items ≠ [] := by
      intro h; rw [h] at hm; cases hm
    simp [finish, runEff, applyEff, takeOut, hk, hm, hne, resObj]

theorem fstore_get_run (s : KState τ σ) (r : ResId) (e : EvId) (hk : (s.res r).kind = .fstore) :
    runFStoreGet { r := r, e := e, m := (s.res r).items.find? (filterOk (reqOf s e).filter) } s = some (doGet s r e) := by
  unfold doGet getItem runFStoreGet Gen.FilterStore.do_get
  dsimp only
  rw [hk]
  dsimp only
  cases hm : (s.res r).items.find? (filterOk (reqOf s e).filter) with
  | none => rfl
  | some x => simp [finish, runEff, applyEff, takeOut, hk, resObj]

/-! ## the put guards are `canPut` -/

theorem finish_ret {cx : Cx} {s : KState τ σ} {eff : List (KEff τ)} {ret : Bool} {p : KState τ σ × Bool}
    (h : finish cx s eff ret = some p) : ret = p.2 := by
  unfold finish at h
  cases hr : runEff cx eff s with
  | none => rw [hr] at h; cases h
  | some s' => rw [hr] at h; simp only [Option.map_some, Option.some.injEq] at h; rw [← h]

theorem doPut_snd (s : KState τ σ) (r : ResId) (e : EvId) : (doPut s r e).2 = canPut (prePut s r e) r e := by
  unfold doPut
  split
  · rename_i h; rw [h]
  · rename_i h; simpa using h

theorem container_put_guard (s : KState τ σ) (r : ResId) (e : EvId) (hk : (s.res r).kind = .container) :
    (Gen.Container.do_put (contObj (τ := τ) (s.res r)) (reqOf s e).amount).ret = canPut s r e := by
  have h := container_put_run s r e hk
  have hp : prePut s r e = s := by unfold prePut; rw [hk]; rfl
  simp only [runContainerPut] at h
  rw [finish_ret h, doPut_snd, hp]

theorem store_put_guard (s : KState τ σ) (r : ResId) (e : EvId) (hk : (s.res r).kind = .store ∨ (s.res r).kind = .fstore) :
    (Gen.Store.do_put (resObj (τ := τ) (s.res r)) (s.res r).items.length).ret = canPut s r e := by
  have h := store_put_run s r e hk
  have hp : prePut s r e = s := by unfold prePut; rcases hk with h | h <;> rw [h] <;> rfl
  simp only [runStorePut] at h
  rw [finish_ret h, doPut_snd, hp]

theorem pstore_put_guard (s : KState τ σ) (r : ResId) (e : EvId) (hk : (s.res r).kind = .pstore) :
    (Gen.PriorityStore.do_put (resObj (τ := τ) (s.res r)) (s.res r).items.length).ret = canPut s r e := by
  have h := pstore_put_run s r e hk
  have hp : prePut s r e = s := by unfold prePut; rw [hk]; rfl
  simp only [runPStorePut] at h
  rw [finish_ret h, doPut_snd, hp]

/-! ## `Put.cancel` / `Get.cancel` -/

theorem put_cancel_run (s : KState τ σ) (e : EvId) (r : ResId) (hk : (s.ev e).kind = .put r)
    (hq : s.triggered e = false → (s.res r).putQ.contains e = true) :
    runPutCancel { r := r, e := e } s = some (cancelReq s e).1 ∧ (cancelReq s e).2 = none := by
  unfold cancelReq runPutCancel Gen.Put.cancel
  by_cases ht : s.triggered e = true
  · simp [ht, runEff, reqObj]
  · have ht' : s.triggered e = false := by simpa using ht
    have hm := hq ht'
    simp only [List.contains_iff_mem] at hm
    simp [ht', hk, hm, runEff, applyEff, reqObj]

theorem get_cancel_run (s : KState τ σ) (e : EvId) (r : ResId) (hk : (s.ev e).kind = .get r)
    (hq : s.triggered e = false → (s.res r).getQ.contains e = true) :
    runGetCancel { r := r, e := e } s = some (cancelReq s e).1 ∧ (cancelReq s e).2 = none := by
  unfold cancelReq runGetCancel Gen.Get.cancel
  by_cases ht : s.triggered e = true
  · simp [ht, runEff, reqObj]
  · have ht' : s.triggered e = false := by simpa using ht
    have hm := hq ht'
    simp only [List.contains_iff_mem] at hm
    simp [ht', hk, hm, runEff, applyEff, reqObj]

end GenKernel
