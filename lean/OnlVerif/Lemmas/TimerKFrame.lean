import OnlVerif.Lemmas.TimerKBasic
import OnlVerif.Lemmas.EventMono
/-!
# The Timer on the kernel model: what a kernel step leaves alone

The events a configuration talks about are pairwise different (`KInv.nd`); a step that only touches the events in `X`
(and allocates new ones) keeps everything the invariant says about the others.  Generic part: a triggered event stays
triggered and no event changes its kind, whatever the program does (`TrigMono`).
-/

set_option linter.unusedSimpArgs false

namespace TimerK
open TimerOnK

/-! ## triggered stays triggered (any program) -/

section mono
variable {σ : Type}

structure TrigMono (s s' : KState ℚ σ) : Prop where
  size_le : s.events.size ≤ s'.events.size
  kind : ∀ e, e < s.events.size → (s'.ev e).kind = (s.ev e).kind
  trig : ∀ e, e < s.events.size → (s.ev e).out.isSome = true → (s'.ev e).out.isSome = true

namespace TrigMono

theorem refl (s : KState ℚ σ) : TrigMono s s := ⟨Nat.le_refl _, fun _ _ => rfl, fun _ _ h => h⟩

theorem trans {s1 s2 s3 : KState ℚ σ} (h12 : TrigMono s1 s2) (h23 : TrigMono s2 s3) : TrigMono s1 s3 :=
  ⟨Nat.le_trans h12.size_le h23.size_le,
   fun e he => (h23.kind e (Nat.lt_of_lt_of_le he h12.size_le)).trans (h12.kind e he),
   fun e he hp => h23.trig e (Nat.lt_of_lt_of_le he h12.size_le) (h12.trig e he hp)⟩

theorem of_frame {s s' : KState ℚ σ} (h : s'.events = s.events) : TrigMono s s' := by
  have hev : ∀ e, s'.ev e = s.ev e := fun e => by simp [KState.ev, h]
  exact ⟨by rw [h], fun e _ => by rw [hev], fun e _ hp => by rw [hev]; exact hp⟩

theorem of_setEv (s : KState ℚ σ) (e : EvId) (r : EvRec ℚ) (hk : r.kind = (s.ev e).kind)
    (hc : (s.ev e).out.isSome = true → r.out.isSome = true) : TrigMono s (s.setEv e r) := by
  refine ⟨by simp [KState.setEv], ?_, ?_⟩
  · intro e' _
    rw [KState.ev_setEv]
    split
    · rename_i h; rw [h.1]; exact hk
    · rfl
  · intro e' _ hp
    rw [KState.ev_setEv]
    split
    · rename_i h; rw [h.1] at hp; exact hc hp
    · exact hp

theorem of_push (s : KState ℚ σ) (s' : KState ℚ σ) (r : EvRec ℚ) (h : s'.events = s.events.push r) : TrigMono s s' := by
  have hev : ∀ e, e < s.events.size → s'.ev e = s.ev e := by
    intro e he
    simp only [KState.ev, h, getD_push]
    rw [if_neg (Nat.ne_of_lt he)]
  exact ⟨by rw [h]; simp, fun e he => by rw [hev e he], fun e he hp => by rw [hev e he]; exact hp⟩

theorem krel : KRel (TrigMono (σ := σ)) where
  refl := refl
  trans := trans
  emit _ _ := of_frame rfl
  active _ _ := of_frame rfl
  shared _ _ := of_frame rfl
  setProc _ _ _ := of_frame rfl
  schedule _ _ _ _ _ _ := of_frame rfl
  newEv s r _ := of_push s _ r rfl
  newLabelled s r _ := of_push s _ _ rfl
  newReq s r _ _ _ := of_push s _ _ rfl
  setOut s e o := of_setEv s e _ rfl (fun _ => rfl)
  defuse s e := of_setEv s e _ rfl (fun h => h)
  bumpCount s e := of_setEv s e _ rfl (fun h => h)
  setUsage s e := of_setEv s e _ rfl (fun h => h)
  eraseCb s e cb := of_setEv s e _ rfl (fun h => h)
  addCb s e cb _ := by
    unfold KState.addCb
    exact of_setEv s e _ rfl (fun h => h)
  eraseUser _ _ _ := of_frame rfl
  addUser _ _ _ _ _ := of_frame rfl
  addLevel _ _ _ _ _ := of_frame rfl
  subLevel _ _ _ _ _ := of_frame rfl
  addItem _ _ _ _ _ := of_frame rfl
  tailItems _ _ := of_frame rfl
  eraseItem _ _ _ := of_frame rfl
  dropPutQ _ _ _ := of_frame rfl
  dropGetQ _ _ _ := of_frame rfl
  enqPut _ _ _ _ := of_frame rfl
  enqGet _ _ _ _ := of_frame rfl

end TrigMono

theorem openEvent_trigMono (s : KState ℚ σ) (q : QEntry ℚ) (rest : List (QEntry ℚ)) :
    TrigMono s (openEvent s q rest) := by
  have : openEvent s q rest = { (s.setEv q.ev { s.ev q.ev with cbs := none }) with now := q.time, agenda := rest } := rfl
  rw [this]
  exact TrigMono.trans (TrigMono.of_setEv s q.ev { s.ev q.ev with cbs := none } rfl (fun h => h)) (TrigMono.of_frame rfl)

/-- **one kernel step of any program**: events keep their kind, triggered events stay triggered -/
theorem step_trigMono (body : σ → Resume → Burst ℚ σ) (fuel : Nat) (s s' : KState ℚ σ)
    (hs : (step body fuel s).state? = some s') : TrigMono s s' := by
  unfold step at hs
  split at hs
  · cases hs
  · rename_i q rest hq
    split at hs
    · cases hs; exact openEvent_trigMono s q rest
    · rename_i cbs _
      rw [closeEvent_state] at hs
      cases hs
      exact (openEvent_trigMono s q rest).trans (TrigMono.krel.foldCbs body fuel q.ev cbs { s := openEvent s q rest })

end mono

/-! ## frames of the components of `KInv` -/

/-- the events outside `X` are the same in `S` -/
def EvKeep (s S : KS) (X : List EvId) : Prop := ∀ e, e < s.events.size → e ∉ X → S.ev e = s.ev e

theorem EvIs.lt {s : KS} {e : EvId} {k : Kind} {c : List Cb} {o : Option Outcome} (h : EvIs s e k c o) :
    e < s.events.size := KState.lt_of_cbs h.2.1

theorem EvIs.keep {s S : KS} {X : List EvId} {e : EvId} {k : Kind} {c : List Cb} {o : Option Outcome}
    (h : EvIs s e k c o) (hk : EvKeep s S X) (he : e ∉ X) : EvIs S e k c o := by
  unfold EvIs
  rw [hk e h.lt he]
  exact h

theorem NoopEv.keep {s S : KS} {X : List EvId} {e : EvId} (h : NoopEv s e) (hk : EvKeep s S X) (he : e ∉ X) :
    NoopEv S e := by
  unfold NoopEv
  rw [hk e (KState.lt_of_cbs h.1) he]
  exact h

theorem TmEv.keep {s S : KS} {X : List EvId} {cur : EvId} {ph : TPhase} (h : TmEv s cur ph) (hk : EvKeep s S X)
    (hX : ∀ e ∈ ph.ids cur, e ∉ X) (hp : cur ∈ ph.ids cur → S.proc? cur = s.proc? cur)
    (hd : ph = .dead → TrigMono s S) : TmEv S cur ph := by
  cases ph with
  | init q =>
    obtain ⟨h1, h2, h3, h4⟩ := h
    exact ⟨h1, h2.keep hk (hX _ (by simp [TPhase.ids, h1])), hp (by simp [TPhase.ids]) ▸ h3,
      h4.keep hk (hX _ (by simp [TPhase.ids]))⟩
  | sleep t q =>
    obtain ⟨h1, h2, h3, h4⟩ := h
    exact ⟨h1, h2.keep hk (hX _ (by simp [TPhase.ids])), hp (by simp [TPhase.ids]) ▸ h3,
      h4.keep hk (hX _ (by simp [TPhase.ids]))⟩
  | dead =>
    obtain ⟨h1, o, h2⟩ := h
    have hm := hd rfl
    have hlt : cur < s.events.size := KState.lt_of_kind (by rw [h1]; simp)
    refine ⟨by rw [hm.kind cur hlt]; exact h1, ?_⟩
    have := hm.trig cur hlt (by rw [h2]; rfl)
    exact Option.isSome_iff_exists.mp this

theorem OldEv.keep {s S : KS} {X : List EvId} {o : Old} (h : OldEv s o) (hk : EvKeep s S X)
    (hX : ∀ e ∈ oldIds (some o), e ∉ X) (hp : S.proc? o.p = s.proc? o.p) : OldEv S o := by
  obtain ⟨h1, h2, h3, h4, h5, h6, h7⟩ := h
  have hiv : o.iv ∉ X := hX _ (by simp [oldIds])
  refine ⟨h1, h2.keep hk hiv, ?_, h4, h5.keep hk (hX _ (by simp [oldIds])), hp ▸ h6, h7.keep hk (hX _ (by simp [oldIds]))⟩
  rw [hk _ h2.lt hiv]; exact h3

theorem CtlEv.keep {s S : KS} {X : List EvId} {cp : EvId} {ph : CPhase} (h : CtlEv s cp ph) (hk : EvKeep s S X)
    (hX : ∀ e ∈ ph.ids cp, e ∉ X) (hp : cp ∈ ph.ids cp → S.proc? cp = s.proc? cp) : CtlEv S cp ph := by
  cases ph with
  | init q rest =>
    obtain ⟨h1, h2, h3, h4⟩ := h
    exact ⟨h1, h2.keep hk (hX _ (by simp [CPhase.ids, h1])), hp (by simp [CPhase.ids]) ▸ h3,
      h4.keep hk (hX _ (by simp [CPhase.ids]))⟩
  | wait op rest q =>
    obtain ⟨h2, h3, h4⟩ := h
    exact ⟨h2.keep hk (hX _ (by simp [CPhase.ids])), hp (by simp [CPhase.ids]) ▸ h3,
      h4.keep hk (hX _ (by simp [CPhase.ids]))⟩
  | done => trivial

/-! ## the events of a configuration are allocated and pairwise different -/

theorem mem_evs {l : List (QEntry ℚ)} {e : EvId} : e ∈ evs l ↔ ∃ x ∈ l, x.ev = e := by
  simp [evs]

theorem mem_evs_of {l : List (QEntry ℚ)} {x : QEntry ℚ} (h : x ∈ l) : x.ev ∈ evs l := mem_evs.mpr ⟨x, h, rfl⟩

@[simp] theorem evs_nil : evs [] = [] := rfl
@[simp] theorem evs_cons (x : QEntry ℚ) (l : List (QEntry ℚ)) : evs (x :: l) = x.ev :: evs l := rfl
@[simp] theorem evs_append (l l' : List (QEntry ℚ)) : evs (l ++ l') = evs l ++ evs l' := by simp [evs]

@[idsk] theorem TPhase.ids_init (cur : EvId) (q : QEntry ℚ) : (TPhase.init q).ids cur = [cur, q.ev] := rfl
@[idsk] theorem TPhase.ids_sleep (cur t : EvId) (q : QEntry ℚ) : (TPhase.sleep t q).ids cur = [cur, t] := rfl
@[idsk] theorem TPhase.ids_dead (cur : EvId) : TPhase.dead.ids cur = [] := rfl
@[idsk] theorem oldIds_none : oldIds none = [] := rfl
@[idsk] theorem oldIds_some (o : Old) : oldIds (some o) = [o.iv, o.p, o.t] := rfl
@[idsk] theorem CPhase.ids_init (cp : EvId) (q : QEntry ℚ) (r : List (ℚ × Op)) : (CPhase.init q r).ids cp = [cp, q.ev] := rfl
@[idsk] theorem CPhase.ids_wait (cp : EvId) (op : Op) (q : QEntry ℚ) (r : List (ℚ × Op)) :
    (CPhase.wait op r q).ids cp = [cp, q.ev] := rfl
@[idsk] theorem CPhase.ids_done (cp : EvId) : CPhase.done.ids cp = [] := rfl

attribute [idsk] A.ids evs_nil evs_cons evs_append List.nil_append List.cons_append List.append_nil
  List.nodup_cons List.nodup_nil List.mem_cons List.mem_append List.not_mem_nil List.mem_singleton not_or List.nodup_append
  forall_eq_or_imp or_false false_or not_false_eq_true true_and and_true ne_eq imp_false List.append_assoc
  forall_const implies_true

theorem KInv.idlt {s : KS} {a : A} (hk : KInv s a) : ∀ e ∈ a.ids, e < s.events.size := by
  intro e he
  simp only [A.ids, List.mem_append] at he
  rcases he with he | he | he | he
  · have htm := hk.tm
    cases hph : a.ph with
    | init q =>
      rw [hph] at htm he
      simp only [TPhase.ids, List.mem_cons, List.not_mem_nil, or_false] at he
      rcases he with rfl | rfl
      · exact htm.2.2.2.lt
      · rw [htm.1]; exact htm.2.1.lt
    | sleep t q =>
      rw [hph] at htm he
      simp only [TPhase.ids, List.mem_cons, List.not_mem_nil, or_false] at he
      rcases he with rfl | rfl
      · exact htm.2.2.2.lt
      · exact htm.2.1.lt
    | dead => rw [hph] at he; simp [TPhase.ids] at he
  · cases ho : a.old with
    | none => rw [ho] at he; simp [oldIds] at he
    | some o =>
      rw [ho] at he
      have h := hk.old o ho
      simp only [oldIds, List.mem_cons, List.not_mem_nil, or_false] at he
      rcases he with rfl | rfl | rfl
      · exact h.2.1.lt
      · exact h.2.2.2.2.2.2.lt
      · exact h.2.2.2.2.1.lt
  · have hc := hk.ctl
    cases hph : a.ctl with
    | init q r =>
      rw [hph] at hc he
      simp only [CPhase.ids, List.mem_cons, List.not_mem_nil, or_false] at he
      rcases he with rfl | rfl
      · exact hc.2.2.2.lt
      · rw [hc.1]; exact hc.2.1.lt
    | wait op r q =>
      rw [hph] at hc he
      simp only [CPhase.ids, List.mem_cons, List.not_mem_nil, or_false] at he
      rcases he with rfl | rfl
      · exact hc.2.2.lt
      · exact hc.1.lt
    | done => rw [hph] at he; simp [CPhase.ids] at he
  · obtain ⟨x, hx, rfl⟩ := mem_evs.mp he
    exact KState.lt_of_cbs (hk.noop x hx).1

/-- the events of a configuration are pairwise different: component by component -/
theorem ids_nodup_iff (a : A) : a.ids.Nodup ↔
    (a.ph.ids a.cur).Nodup ∧ (oldIds a.old).Nodup ∧ (a.ctl.ids a.cp).Nodup ∧ (evs a.noop).Nodup ∧
    (∀ x ∈ a.ph.ids a.cur, x ∉ oldIds a.old ∧ x ∉ a.ctl.ids a.cp ∧ x ∉ evs a.noop) ∧
    (∀ x ∈ oldIds a.old, x ∉ a.ctl.ids a.cp ∧ x ∉ evs a.noop) ∧
    (∀ x ∈ a.ctl.ids a.cp, x ∉ evs a.noop) := by
  simp only [A.ids, List.nodup_append, List.mem_append]
  constructor
  · rintro ⟨h1, ⟨h2, ⟨h3, h4, h5⟩, h6⟩, h7⟩
    refine ⟨h1, h2, h3, h4, ?_, ?_, ?_⟩
    · intro x hx
      exact ⟨fun h => h7 x hx x (Or.inl h) rfl, fun h => h7 x hx x (Or.inr (Or.inl h)) rfl,
        fun h => h7 x hx x (Or.inr (Or.inr h)) rfl⟩
    · intro x hx
      exact ⟨fun h => h6 x hx x (Or.inl h) rfl, fun h => h6 x hx x (Or.inr h) rfl⟩
    · intro x hx h
      exact h5 x hx x h rfl
  · rintro ⟨h1, h2, h3, h4, h5, h6, h7⟩
    refine ⟨h1, ⟨h2, ⟨h3, h4, ?_⟩, ?_⟩, ?_⟩
    · rintro x hx y hy rfl; exact h7 x hx hy
    · rintro x hx y hy rfl
      rcases hy with hy | hy
      · exact (h6 x hx).1 hy
      · exact (h6 x hx).2 hy
    · rintro x hx y hy rfl
      rcases hy with hy | hy | hy
      · exact (h5 x hx).1 hy
      · exact (h5 x hx).2.1 hy
      · exact (h5 x hx).2.2 hy

/-- an event that is not allocated yet is none of the listed ones -/
theorem fresh_notin {l : List Nat} {n : Nat} (h : ∀ e ∈ l, e < n) (k : Nat) : n + k ∉ l := by
  intro hm
  have := h _ hm
  omega

theorem fresh_notin0 {l : List Nat} {n : Nat} (h : ∀ e ∈ l, e < n) : n ∉ l := fresh_notin h 0

/-- an allocated event is none of the next ones (in the forms `simp` leaves them in) -/
theorem ne_fresh {x n : Nat} (h : x < n) :
    x ≠ n ∧ x ≠ n + 1 ∧ x ≠ n + 1 + 1 ∧ x ≠ n + 1 + 1 + 1 ∧ x ≠ n + 2 ∧ x ≠ n + 3 ∧
    n ≠ x ∧ n + 1 ≠ x ∧ n + 1 + 1 ≠ x ∧ n + 1 + 1 + 1 ≠ x ∧ n + 2 ≠ x ∧ n + 3 ≠ x ∧
    x < n + 1 ∧ x < n + 1 + 1 ∧ x < n + 1 + 1 + 1 := by
  omega

/-- discharge `EvKeep s S X` on a flat state `S` -/
macro "evkeep" : tactic =>
  `(tactic| (intro e he hX
             simp only [List.mem_cons, List.mem_singleton, List.not_mem_nil, or_false, not_or] at hX
             tsimp [ne_fresh he, hX]))

/-- close a goal `a'.ids.Nodup` from the facts in the context (the old `Nodup`, freshness of the new events) -/
macro "nd_close" : tactic => `(tactic| (simp only [idsk]; grind))

/-- a permutation goal about explicit concatenations, from a permutation hypothesis, by counting -/
macro "perm_count" h:ident : tactic =>
  `(tactic| (classical
             rw [List.perm_iff_count] at $h:ident ⊢
             intro z
             have hz := $h:ident z
             simp only [List.count_append, List.count_cons, List.count_nil] at hz ⊢
             omega))

/-! ## the agenda after a step -/

theorem wf_same {s1 S : KS} (h : AgendaWF s1) (hn : S.now = s1.now) (ha : S.agenda = s1.agenda) (he : S.eid = s1.eid) :
    AgendaWF S := by
  refine ⟨?_, ?_, ?_⟩
  · rw [ha, hn]; exact h.due
  · rw [ha, he]; exact h.eid_lt
  · rw [ha]; exact h.distinct

theorem wf_push1 {s1 S : KS} (h : AgendaWF s1) (x : QEntry ℚ) (hn : S.now = s1.now) (ha : S.agenda = x :: s1.agenda)
    (he : S.eid = s1.eid + 1) (hx : x.eid = s1.eid) (ht : s1.now ≤ x.time) : AgendaWF S := by
  refine ⟨?_, ?_, ?_⟩
  · rw [ha, hn]; intro y hy
    rcases List.mem_cons.mp hy with rfl | hy
    · exact ht
    · exact h.due y hy
  · rw [ha, he]; intro y hy
    rcases List.mem_cons.mp hy with rfl | hy
    · omega
    · have := h.eid_lt y hy; omega
  · rw [ha, List.pairwise_cons]
    refine ⟨?_, h.distinct⟩
    intro y hy
    have := h.eid_lt y hy; omega

theorem wf_push2 {s1 S : KS} (h : AgendaWF s1) (x y : QEntry ℚ) (hn : S.now = s1.now)
    (ha : S.agenda = x :: y :: s1.agenda) (he : S.eid = s1.eid + 2) (hx : x.eid = s1.eid + 1) (hy : y.eid = s1.eid)
    (htx : s1.now ≤ x.time) (hty : s1.now ≤ y.time) : AgendaWF S := by
  have h1 : AgendaWF ({ s1 with agenda := y :: s1.agenda, eid := s1.eid + 1 } : KS) :=
    wf_push1 (S := { s1 with agenda := y :: s1.agenda, eid := s1.eid + 1 }) h y rfl rfl rfl hy hty
  exact wf_push1 h1 x hn ha he hx htx

theorem wf_push3 {s1 S : KS} (h : AgendaWF s1) (x y z : QEntry ℚ) (hn : S.now = s1.now)
    (ha : S.agenda = x :: y :: z :: s1.agenda) (he : S.eid = s1.eid + 3) (hx : x.eid = s1.eid + 2) (hy : y.eid = s1.eid + 1)
    (hz : z.eid = s1.eid) (htx : s1.now ≤ x.time) (hty : s1.now ≤ y.time) (htz : s1.now ≤ z.time) : AgendaWF S := by
  have h1 : AgendaWF ({ s1 with agenda := y :: z :: s1.agenda, eid := s1.eid + 2 } : KS) :=
    wf_push2 (S := { s1 with agenda := y :: z :: s1.agenda, eid := s1.eid + 2 }) h y z rfl rfl rfl hy hz hty htz
  exact wf_push1 h1 x hn ha he hx htx

/-! ## observations -/

theorem histOf_push (tr : Array (Obs ℚ)) (o : Obs ℚ) : histOf (tr.push o) = histOf tr ++ (histOf1 o).toList := by
  unfold histOf
  rw [Array.toList_push, List.filterMap_append]
  cases h : histOf1 o <;> simp [List.filterMap, h]

@[simp] theorem histOf1_resumed (p : EvId) (r : Resume) (t : ℚ) : histOf1 (Obs.resumed p r t) = none := rfl
@[simp] theorem histOf1_ended (p : EvId) (o : Outcome) (t : ℚ) : histOf1 (Obs.ended p o t) = none := rfl
@[simp] theorem histOf1_callErr (p : EvId) (x : Exc) (t : ℚ) : histOf1 (Obs.callErr p x t) = none := rfl
@[simp] theorem histOf1_fire (p : EvId) (v : Val) (t : ℚ) : histOf1 (Obs.log p "fire" v t) = some (.fire t) := by
  simp [histOf1]
@[simp] theorem histOf1_stop (p : EvId) (v : Val) (t : ℚ) : histOf1 (Obs.log p "stop" v t) = some (.call t .stop) := by
  simp [histOf1]
@[simp] theorem histOf1_restart (p : EvId) (tau t : ℚ) :
    histOf1 (Obs.log p "restart" (TimeCell.enc tau) t) = some (.call t (.restart tau)) := by
  simp [histOf1]

end TimerK
