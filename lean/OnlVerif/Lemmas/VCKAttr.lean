import Lean.Meta.Tactic.Simp.RegisterCommand
/-! simp sets used to execute the kernel model symbolically on the VirtualClock program (`vck`) and to take the list of the
events of a configuration apart (`vcids`) -/
register_simp_attr vck
register_simp_attr vcids
