import OnlVerif.Lemmas.DRRKStepSrc
import OnlVerif.Lemmas.DRRKStepSend
/-!
# The DRR scheduler on the kernel model: configuration steps (no kernel terms here)

`AStep n e a q a' new`: processing the agenda entry `q` in a kernel state with `n` events and entry counter `e` takes the
configuration `a` to `a'` and appends `new` to the history of observations.  A burst of `run` is `A.burst` followed by what
its end does (a `get` on a per-class store, a transmission, the wait for the wake-up token).  The clock can advance to the
next entry without changing anything else (`AInv.advance`).
-/

set_option linter.unusedSimpArgs false

namespace DRRK
open DRROnK QEntry

variable (F : Nat) (flow size : Int → Nat) (cfg : DRR.Cfg ℚ) (Lmax P : Nat)

/-- the entry `q` starts a burst of `run` at entry point `en` -/
def StartsAt (a : A) (q : QEntry ℚ) : Entry → Prop
  | .top => a.run = .init q ∨ ∃ g, a.run = .K g q
  | .got m id => ∃ g, a.run = .H g m id q
  | .done m id => ∃ p, a.run = .F p m id q

/-- **one kernel step, seen on configurations** -/
inductive AStep (n e : Nat) : A → QEntry ℚ → A → List (HEv ℚ) → Prop
  | burstGet (a : A) (q : QEntry ℚ) (en : Entry) (r : BurstRes) (m' c' : Nat) (id' : Int) (is : List Int)
      (hst : StartsAt a q en) (hb : a.burst F (qOf cfg) size cfg.weights P q.time en = r) (hfin : r.fin = .get m' c')
      (hc' : c' < F) (hit : a.items c' = id' :: is) :
      AStep n e a q { r.a with run := .H n m' id' ⟨q.time, NORMAL, e, n⟩, items := upd r.a.items c' is } r.evs
  | burstSend (a : A) (q : QEntry ℚ) (en : Entry) (r : BurstRes) (m' c' : Nat) (id' : Int) (pk : Bool)
      (hst : StartsAt a q en) (hb : a.burst F (qOf cfg) size cfg.weights P q.time en = r) (hfin : r.fin = .send m' c' id' pk) :
      AStep n e a q { r.a with run := .S n m' id' ⟨q.time, URGENT, e, n + 1⟩, cur := some id' } (r.evs ++ [.serve id' q.time])
  | burstBlock (a : A) (q : QEntry ℚ) (en : Entry) (r : BurstRes)
      (hst : StartsAt a q en) (hb : a.burst F (qOf cfg) size cfg.weights P q.time en = r) (hfin : r.fin = .idle)
      (htk : a.tokens = 0) :
      AStep n e a q { r.a with run := .W n } (r.evs ++ [.idle q.time])
  | burstTok (a : A) (q : QEntry ℚ) (en : Entry) (r : BurstRes) (t : Nat)
      (hst : StartsAt a q en) (hb : a.burst F (qOf cfg) size cfg.weights P q.time en = r) (hfin : r.fin = .idle)
      (htk : a.tokens = t + 1) :
      AStep n e a q { r.a with run := .K n ⟨q.time, NORMAL, e, n⟩, tokens := t } (r.evs ++ [.idle q.time])
  | sendInit (a : A) (q : QEntry ℚ) (p : EvId) (i : Nat) (id : Int) (h : a.run = .S p i id q) :
      AStep n e a q { a with run := .T p n i id ⟨q.time + txTime size cfg.rate id, NORMAL, e, n⟩, cur := some id } []
  | sendFire (a : A) (q : QEntry ℚ) (p t : EvId) (i : Nat) (id : Int) (h : a.run = .T p t i id q) :
      AStep n e a q { a with run := .F p i id ⟨q.time, NORMAL, e, p⟩, cnt := upd a.cnt (flow id) (a.cnt (flow id) + -1),
                             byt := upd a.byt (flow id) (a.byt (flow id) + -(size id : Int)), cur := none } [.out id q.time]
  | srcInit (a : A) (q : QEntry ℚ) (arr : List (ℚ × Int)) (h : a.src = .init q arr) :
      AStep n e a q { a with src := srcNext q.time e n arr } []
  | srcPutTok (a : A) (q : QEntry ℚ) (id : Int) (arr : List (ℚ × Int)) (h : a.src = .wait id arr q) (htot : a.total F = 0) :
      AStep n e a q { a with
        src := srcNext q.time (e + 1 + 1) (n + 1 + 1) arr
        pend := a.pend ++ [(⟨q.time, NORMAL, e, n⟩, 0), (⟨q.time, NORMAL, e + 1, n + 1⟩, flowStore (flow id))]
        tokens := a.tokens + 1
        items := upd a.items (flow id) (a.items (flow id) ++ [id])
        cnt := upd a.cnt (flow id) (a.cnt (flow id) + 1)
        byt := upd a.byt (flow id) (a.byt (flow id) + (size id : Int))
        recv := a.recv + 1
        keys := addKey a.keys (flow id)
        ccnt := upd a.ccnt (flow id) (a.ccnt (flow id) + 1) } [.put id q.time]
  | srcPutPlain (a : A) (q : QEntry ℚ) (id : Int) (arr : List (ℚ × Int)) (h : a.src = .wait id arr q) (htot : a.total F ≠ 0) :
      AStep n e a q { a with
        src := srcNext q.time (e + 1) (n + 1) arr
        pend := a.pend ++ [(⟨q.time, NORMAL, e, n⟩, flowStore (flow id))]
        items := upd a.items (flow id) (a.items (flow id) ++ [id])
        cnt := upd a.cnt (flow id) (a.cnt (flow id) + 1)
        byt := upd a.byt (flow id) (a.byt (flow id) + (size id : Int))
        recv := a.recv + 1
        keys := addKey a.keys (flow id)
        ccnt := upd a.ccnt (flow id) (a.ccnt (flow id) + 1) } [.put id q.time]
  | srcEnd (a : A) (q : QEntry ℚ) (h : a.src = .ending q) : AStep n e a q { a with src := .done } []
  | pendNoop (a : A) (q : QEntry ℚ) (r : ResId) (l1 l2 : List (QEntry ℚ × ResId)) (hpe : a.pend = l1 ++ (q, r) :: l2)
      (hno : ¬ (r = 0 ∧ a.tokens ≠ 0 ∧ ∃ g, a.run = .W g)) :
      AStep n e a q { a with pend := l1 ++ l2 } []
  | pendHand (a : A) (q : QEntry ℚ) (g : EvId) (t : Nat) (l1 l2 : List (QEntry ℚ × ResId)) (hpe : a.pend = l1 ++ (q, 0) :: l2)
      (h : a.run = .W g) (htk : a.tokens = t + 1) :
      AStep n e a q { a with pend := l1 ++ l2, run := .K g ⟨q.time, NORMAL, e, g⟩, tokens := t } []

variable {F flow size cfg Lmax P}

/-! ## agenda entries of a configuration -/

theorem mem_run {a : A} {x : QEntry ℚ} (h : x ∈ a.run.entries) : x ∈ a.entries := by
  simp [A.entries, h]

theorem mem_src {a : A} {x : QEntry ℚ} (h : x ∈ a.src.entries) : x ∈ a.entries := by
  simp [A.entries, h]

theorem mem_pend {a : A} {u : QEntry ℚ × ResId} (h : u ∈ a.pend) : u.1 ∈ a.entries := by
  simp only [A.entries, List.mem_append, pendEntries, List.mem_map]
  exact Or.inr (Or.inr ⟨u, h, rfl⟩)

/-- an entry due now with a smaller priority number or an older `eid` goes first -/
theorem keyLt_of_now {x q : QEntry ℚ} {now : ℚ} (hx : x.time = now) (hq : now ≤ q.time)
    (h : now < q.time ∨ x.prio < q.prio ∨ (x.prio = q.prio ∧ x.eid < q.eid)) : KeyLt x q := by
  unfold KeyLt
  rcases lt_or_eq_of_le hq with h1 | h1
  · exact Or.inl (hx ▸ h1)
  · rcases h with h | h | h
    · exact Or.inl (hx ▸ h)
    · exact Or.inr ⟨hx.trans h1, Or.inl h⟩
    · exact Or.inr ⟨hx.trans h1, Or.inr h⟩

/-- `q` is a minimal entry of the configuration: what `popMin` returns -/
def IsMin (a : A) (q : QEntry ℚ) : Prop := q ∈ a.entries ∧ ∀ x ∈ a.entries, ¬ KeyLt x q

variable {a : A} {now : ℚ} {q : QEntry ℚ}

theorem AInv.now_le (hi : AInv flow F size cfg Lmax P a now) (hq : IsMin a q) : now ≤ q.time := hi.due q hq.1

theorem AInv.time_eq (hi : AInv flow F size cfg Lmax P a now) (hq : IsMin a q) {x : QEntry ℚ} (hx : x ∈ a.entries)
    (hxt : x.time = now) : q.time = now :=
  le_antisymm (hxt ▸ not_keyLt_time (hq.2 x hx)) (hi.due q hq.1)

theorem AInv.not_prio_lt (hi : AInv flow F size cfg Lmax P a now) (hq : IsMin a q) {x : QEntry ℚ} (hx : x ∈ a.entries)
    (hxt : x.time = now) (hp : x.prio < q.prio) : False :=
  hq.2 x hx (keyLt_of_now hxt (hi.now_le hq) (Or.inr (Or.inl hp)))

/-- **letting the clock advance to the next entry changes nothing else** -/
theorem AInv.advance (hi : AInv flow F size cfg Lmax P a now) (hq : IsMin a q) : AInv flow F size cfg Lmax P a q.time := by
  rcases eq_or_lt_of_le (hi.now_le hq) with h | h
  · rw [← h]; exact hi
  have hne : ∀ x ∈ a.entries, x.time ≠ now := fun x hx hxt => absurd (hi.time_eq hq hx hxt) (ne_of_gt h)
  refine ⟨?_, ?_, ?_, ?_, hi.cntOK, hi.ccntOK, hi.flowOK, hi.holOK, hi.keysOK, hi.dfcOK, hi.table, hi.rate, hi.pass⟩
  · have hp := hi.run
    cases hr : a.run with
    | init q0 => rw [hr] at hp; exact absurd hp.1 (hne q0 (mem_run (by simp [hr, RPhase.entries])))
    | W g => rw [hr] at hp; exact hp
    | K g q0 => rw [hr] at hp; exact absurd hp.1 (hne q0 (mem_run (by simp [hr, RPhase.entries])))
    | H g i id q0 => rw [hr] at hp; exact absurd hp.1 (hne q0 (mem_run (by simp [hr, RPhase.entries])))
    | S p i id q0 => rw [hr] at hp; exact absurd hp.1 (hne q0 (mem_run (by simp [hr, RPhase.entries])))
    | T p t i id q0 => rw [hr] at hp; exact hp
    | F p i id q0 => rw [hr] at hp; exact absurd hp.1 (hne q0 (mem_run (by simp [hr, RPhase.entries])))
  · have hs := hi.src
    cases hsrc : a.src with
    | init q0 arr => rw [hsrc] at hs; exact absurd hs.1 (hne q0 (mem_src (by simp [hsrc, SPhase.entries])))
    | wait id rest q0 => rw [hsrc] at hs; exact hs
    | ending q0 => rw [hsrc] at hs; exact absurd hs.1 (hne q0 (mem_src (by simp [hsrc, SPhase.entries])))
    | done => trivial
  · intro u hu
    exact absurd (hi.pend u hu).1 (hne u.1 (mem_pend hu))
  · intro x hx; exact not_keyLt_time (hq.2 x hx)

end DRRK
