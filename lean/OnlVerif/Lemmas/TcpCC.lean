import OnlVerif.Lemmas.TcpSpec
import OnlVerif.Tcp.CC
/-!
# Lemmas about the generated congestion-control definitions at `ℚ`

Closed forms of the generated CUBIC methods (whole-state equations), the `.safe` side conditions, and the
invariant `CCInv` (`cwnd ≥ MSS > 0`, `ssthresh ≥ 0`, for CUBIC `W_last_max = 0` and `beta ≠ 2`) that every
congestion-control event preserves.
-/

open TcpScalar TcpSpec

namespace TcpCC

/-! ## CUBIC closed forms -/

theorem friendliness_eq (s : CCState ℚ) :
    TCPCubic.cubic_tcp_friendliness s =
      { s with W_tcp := s.W_tcp + 3 * s.beta / (2 - s.beta) * (s.ack_cnt / s.cwnd), ack_cnt := 0,
               cnt := friendlyCnt s.cnt s.cwnd (s.W_tcp + 3 * s.beta / (2 - s.beta) * (s.ack_cnt / s.cwnd)) } := by
  unfold TCPCubic.cubic_tcp_friendliness friendlyCnt
  simp only [ofNat_eq, Nat.cast_ofNat, Nat.cast_zero]
  split_ifs with h1 h2
  · rw [min_eq_right (le_of_lt h2)]
  · rw [min_eq_left (not_lt.mp h2)]
  · rfl

theorem friendliness_safe (s : CCState ℚ) (hc : s.cwnd ≠ 0) (hb : s.beta ≠ 2) :
    TCPCubic.cubic_tcp_friendliness.safe s = true := by
  unfold TCPCubic.cubic_tcp_friendliness.safe
  simp only [ofNat_eq, Nat.cast_ofNat, Nat.cast_zero, Bool.and_eq_true, nonzero_iff]
  refine ⟨⟨?_, hc⟩, ?_⟩
  · intro h; apply hb; linarith
  · split_ifs with h
    · rw [nonzero_iff]; intro h'; linarith
    · rfl

/-- the generated `cubic_update`, as one state equation, on the branch that is reachable (`W_last_max ≤ cwnd`) -/
theorem cubic_update_eq (s : CCState ℚ) (now : ℚ) (hW : ¬ s.cwnd < s.W_last_max) :
    TCPCubic.cubic_update s now =
      { s with
        epoch_start := (epochOf s.epoch_start s.origin_point s.K s.W_tcp s.ack_cnt s.cwnd now).start,
        origin_point := (epochOf s.epoch_start s.origin_point s.K s.W_tcp s.ack_cnt s.cwnd now).origin,
        K := (epochOf s.epoch_start s.origin_point s.K s.W_tcp s.ack_cnt s.cwnd now).K,
        W_tcp := if s.tcp_friendliness then
            friendlyW (epochOf s.epoch_start s.origin_point s.K s.W_tcp s.ack_cnt s.cwnd now) s.beta s.cwnd
          else (epochOf s.epoch_start s.origin_point s.K s.W_tcp s.ack_cnt s.cwnd now).W_tcp,
        ack_cnt := if s.tcp_friendliness then 0
          else (epochOf s.epoch_start s.origin_point s.K s.W_tcp s.ack_cnt s.cwnd now).ack_cnt,
        cnt := if s.tcp_friendliness then
            friendlyCnt
              (cubicCnt s.cwnd (cubicTarget (epochOf s.epoch_start s.origin_point s.K s.W_tcp s.ack_cnt s.cwnd now) s.C s.d_min now))
              s.cwnd (friendlyW (epochOf s.epoch_start s.origin_point s.K s.W_tcp s.ack_cnt s.cwnd now) s.beta s.cwnd)
          else cubicCnt s.cwnd (cubicTarget (epochOf s.epoch_start s.origin_point s.K s.W_tcp s.ack_cnt s.cwnd now) s.C s.d_min now) } := by
  unfold TCPCubic.cubic_update epochOf cubicTarget cubicCnt friendlyW
  simp only [friendliness_eq, ofNat_eq, Nat.cast_ofNat, Nat.cast_zero, Nat.cast_one, powNat_eq]
  by_cases h1 : s.epoch_start ≤ 0 <;> by_cases h2 : s.tcp_friendliness = true <;>
    simp only [h1, h2, hW, if_true, if_false] <;> split_ifs <;> simp_all

/-- **the cube-root branch is never executed and nothing divides by zero**, given `W_last_max ≤ cwnd`, `cwnd ≠ 0`,
`beta ≠ 2` -/
theorem cubic_update_safe (s : CCState ℚ) (now : ℚ) (hW : ¬ s.cwnd < s.W_last_max) (hc : s.cwnd ≠ 0) (hb : s.beta ≠ 2) :
    TCPCubic.cubic_update.safe s now = true := by
  have key : ∀ X : CCState ℚ, X.cwnd = s.cwnd → X.beta = s.beta →
      (if X.tcp_friendliness = true then TCPCubic.cubic_tcp_friendliness.safe X else true) = true := by
    intro X e1 e2
    split
    · exact friendliness_safe X (e1 ▸ hc) (e2 ▸ hb)
    · rfl
  unfold TCPCubic.cubic_update.safe
  simp only [ofNat_eq, Nat.cast_ofNat, Nat.cast_zero, Nat.cast_one, powNat_eq]
  by_cases h1 : s.epoch_start ≤ 0 <;> by_cases h2 : s.tcp_friendliness = true <;>
    simp only [h1, h2, hW, if_true, if_false, Bool.and_eq_true, Bool.true_and]
  all_goals
    refine ⟨?_, key _ ?_ ?_⟩
    · split_ifs with h
      · rw [nonzero_iff]; intro h'; linarith
      · rfl
    · split_ifs <;> rfl
    · split_ifs <;> rfl

/-- conversely, on the other branch (`cwnd < W_last_max`, first ACK of an epoch) the path is flagged: the cube root
is the only thing `safe` can object to besides divisions -/
theorem cubic_update_unsafe_of_cuberoot (s : CCState ℚ) (now : ℚ) (he : s.epoch_start ≤ 0) (hW : s.cwnd < s.W_last_max) :
    TCPCubic.cubic_update.safe s now = false := by
  unfold TCPCubic.cubic_update.safe
  simp only [ofNat_eq, Nat.cast_zero, he, hW, if_true, Bool.and_false, Bool.false_and]

theorem cubic_reset_eq (s : CCState ℚ) :
    TCPCubic.cubic_reset s = { s with W_last_max := 0, epoch_start := 0, origin_point := 0, d_min := 0, W_tcp := 0,
                                      K := 0, ack_cnt := 0 } := by
  unfold TCPCubic.cubic_reset
  simp only [ofNat_eq, Nat.cast_zero]

theorem cubic_timer_expired_eq (s : CCState ℚ) :
    TCPCubic.timer_expired s = { s with cwnd := s.mss, W_last_max := 0, epoch_start := 0, origin_point := 0, d_min := 0,
                                        W_tcp := 0, K := 0, ack_cnt := 0 } := by
  unfold TCPCubic.timer_expired
  simp only [cubic_reset_eq]

/-- the minimum-RTT bookkeeping at the head of `TCPCubic.ack_received` -/
def dminNext (d_min rtt : ℚ) : ℚ := if 0 < d_min then min d_min rtt else rtt

/-- `TCPCubic.ack_received` as slow start / `cubic_update` followed by the ACK counter -/
theorem cubic_ack_eq (s : CCState ℚ) (rtt now : ℚ) :
    TCPCubic.ack_received s rtt now =
      if s.cwnd ≤ s.ssthresh then { s with d_min := dminNext s.d_min rtt, cwnd := s.cwnd + s.mss }
      else
        let u := TCPCubic.cubic_update { s with d_min := dminNext s.d_min rtt } now
        if u.cnt < u.cwnd_cnt then { u with cwnd := u.cwnd + u.mss, cwnd_cnt := 0 }
        else { u with cwnd_cnt := u.cwnd_cnt + 1 } := by
  unfold TCPCubic.ack_received dminNext
  simp only [ofNat_eq, Nat.cast_zero, Nat.cast_one, pymin_eq]
  by_cases h0 : 0 < s.d_min <;> by_cases h1 : s.cwnd ≤ s.ssthresh <;> simp only [h0, h1, if_true, if_false] <;>
    split_ifs <;> rfl

/-! ## the invariant of the congestion-control state -/

/-- `cwnd ≥ MSS > 0`, `ssthresh ≥ 0`; for CUBIC additionally `W_last_max = 0` (never assigned anything else) and
`beta ≠ 2` -/
structure CCInv (k : CCKind) (c : CCState ℚ) : Prop where
  mss_pos : 0 < c.mss
  cwnd_ge : c.mss ≤ c.cwnd
  ssthresh_nonneg : 0 ≤ c.ssthresh
  cubic : k = .cubic → c.W_last_max = 0 ∧ c.beta ≠ 2

/-- the state between `dupack_over()` and `ack_received()`: `cwnd` may have dropped to `ssthresh` -/
structure CCWeak (k : CCKind) (c : CCState ℚ) : Prop where
  mss_pos : 0 < c.mss
  cwnd_ok : c.mss ≤ c.cwnd ∨ c.cwnd = c.ssthresh
  ssthresh_nonneg : 0 ≤ c.ssthresh
  cubic : k = .cubic → c.W_last_max = 0 ∧ c.beta ≠ 2

theorem CCInv.weak {k c} (h : CCInv k c) : CCWeak k c := ⟨h.mss_pos, Or.inl h.cwnd_ge, h.ssthresh_nonneg, h.cubic⟩

theorem weak_dupack_over {k c} (h : CCInv k c) : CCWeak k (CongestionControl.dupack_over c) := by
  unfold CongestionControl.dupack_over
  exact ⟨h.mss_pos, Or.inr rfl, h.ssthresh_nonneg, h.cubic⟩

theorem inv_third {k c} (h : CCInv k c) : CCInv k (CongestionControl.consecutive_dupacks_received c) := by
  have hm := h.mss_pos
  unfold CongestionControl.consecutive_dupacks_received
  simp only [ofNat_eq, Nat.cast_ofNat, pymax_eq]
  refine ⟨hm, ?_, ?_, h.cubic⟩
  · have : 2 * c.mss ≤ max (2 * c.mss) (c.cwnd / 2) := le_max_left _ _
    show c.mss ≤ max (2 * c.mss) (c.cwnd / 2) + 3 * c.mss
    linarith
  · have : 2 * c.mss ≤ max (2 * c.mss) (c.cwnd / 2) := le_max_left _ _
    show 0 ≤ max (2 * c.mss) (c.cwnd / 2)
    linarith

theorem inv_more {k c} (h : CCInv k c) : CCInv k (CongestionControl.more_dupacks_received c) := by
  have hm := h.mss_pos
  have hc := h.cwnd_ge
  unfold CongestionControl.more_dupacks_received
  refine ⟨hm, ?_, h.ssthresh_nonneg, h.cubic⟩
  show c.mss ≤ c.cwnd + c.mss
  linarith

theorem inv_timer {k c} (h : CCInv k c) : CCInv k (CC.timerExpired k c) := by
  cases k with
  | reno =>
    show CCInv _ (CongestionControl.timer_expired c)
    unfold CongestionControl.timer_expired
    exact ⟨h.mss_pos, le_refl _, h.ssthresh_nonneg, h.cubic⟩
  | cubic =>
    show CCInv _ (TCPCubic.timer_expired c)
    rw [cubic_timer_expired_eq]
    exact ⟨h.mss_pos, le_refl _, h.ssthresh_nonneg, fun _ => ⟨rfl, (h.cubic rfl).2⟩⟩

theorem reno_ack_safe (c : CCState ℚ) (rtt now : ℚ) (h : c.cwnd ≤ c.ssthresh ∨ c.cwnd ≠ 0) :
    TCPReno.ack_received.safe c rtt now = true := by
  unfold TCPReno.ack_received.safe
  split_ifs with h1
  · rfl
  · rw [nonzero_iff]; rcases h with h | h
    · exact absurd h h1
    · exact h

theorem cubic_ack_safe (c : CCState ℚ) (rtt now : ℚ) (hW : c.W_last_max = 0) (hb : c.beta ≠ 2)
    (h : c.cwnd ≤ c.ssthresh ∨ 0 < c.cwnd) : TCPCubic.ack_received.safe c rtt now = true := by
  unfold TCPCubic.ack_received.safe
  simp only [ofNat_eq, Nat.cast_zero, pymin_eq]
  by_cases h0 : 0 < c.d_min <;> simp only [h0, if_true, if_false] <;> split_ifs with h1
  all_goals first
    | rfl
    | (rcases h with h | h
       · exact absurd h h1
       · exact cubic_update_safe _ now (by simp only [hW]; exact not_lt.mpr (le_of_lt h)) (ne_of_gt h) hb)

/-- **a new ACK (possibly right after `dupack_over`) is safe and re-establishes `cwnd ≥ MSS`** -/
theorem inv_ack {k c} (h : CCWeak k c) (rtt now : ℚ) :
    CC.ackReceivedSafe k c rtt now = true ∧ CCInv k (CC.ackReceived k c rtt now) := by
  have hm := h.mss_pos
  have hs := h.ssthresh_nonneg
  have hcw : c.cwnd ≤ c.ssthresh ∨ 0 < c.cwnd := by
    rcases h.cwnd_ok with h1 | h1
    · exact Or.inr (lt_of_lt_of_le hm h1)
    · exact Or.inl (le_of_eq h1)
  have hnn : 0 ≤ c.cwnd := by
    rcases h.cwnd_ok with h1 | h1
    · linarith
    · rw [h1]; exact hs
  cases k with
  | reno =>
    refine ⟨reno_ack_safe c rtt now (hcw.imp id ne_of_gt), ?_⟩
    show CCInv _ (TCPReno.ack_received c rtt now)
    unfold TCPReno.ack_received
    split_ifs with h1
    · exact ⟨hm, by show c.mss ≤ c.cwnd + c.mss; linarith, hs, h.cubic⟩
    · refine ⟨hm, ?_, hs, h.cubic⟩
      have hpos : 0 < c.cwnd := by rcases hcw with h2 | h2; exact absurd h2 h1; exact h2
      have hge : c.mss ≤ c.cwnd := by
        rcases h.cwnd_ok with h2 | h2
        · exact h2
        · exact absurd (le_of_eq h2) h1
      have : 0 ≤ c.mss * c.mss / c.cwnd := div_nonneg (mul_nonneg hm.le hm.le) hpos.le
      show c.mss ≤ c.cwnd + c.mss * c.mss / c.cwnd
      linarith
  | cubic =>
    obtain ⟨hW, hb⟩ := h.cubic rfl
    refine ⟨cubic_ack_safe c rtt now hW hb hcw, ?_⟩
    show CCInv _ (TCPCubic.ack_received c rtt now)
    rw [cubic_ack_eq]
    split_ifs with h1
    · exact ⟨hm, by show c.mss ≤ c.cwnd + c.mss; linarith, hs, fun _ => ⟨hW, hb⟩⟩
    · have hpos : 0 < c.cwnd := by rcases hcw with h2 | h2; exact absurd h2 h1; exact h2
      have hge : c.mss ≤ c.cwnd := by
        rcases h.cwnd_ok with h2 | h2
        · exact h2
        · exact absurd (le_of_eq h2) h1
      have hW' : ¬ ({ c with d_min := dminNext c.d_min rtt } : CCState ℚ).cwnd <
          ({ c with d_min := dminNext c.d_min rtt } : CCState ℚ).W_last_max := by
        simp only [hW]; exact not_lt.mpr hpos.le
      simp only [cubic_update_eq _ now hW']
      split_ifs
      all_goals first
        | exact ⟨hm, hge, hs, fun _ => ⟨hW, hb⟩⟩
        | exact ⟨hm, by show c.mss ≤ c.cwnd + c.mss; linarith, hs, fun _ => ⟨hW, hb⟩⟩

/-- a new ACK counted on the deflated window: `ssthresh + MSS` for both classes -/
theorem ack_after_deflate (k : CCKind) (c : CCState ℚ) (rtt now : ℚ) :
    (CC.ackReceived k (CongestionControl.dupack_over c) rtt now).cwnd = c.ssthresh + c.mss ∧
    (CC.ackReceived k (CongestionControl.dupack_over c) rtt now).ssthresh = c.ssthresh := by
  cases k with
  | reno =>
    show (TCPReno.ack_received _ rtt now).cwnd = _ ∧ (TCPReno.ack_received _ rtt now).ssthresh = _
    unfold TCPReno.ack_received CongestionControl.dupack_over
    simp
  | cubic =>
    show (TCPCubic.ack_received _ rtt now).cwnd = _ ∧ (TCPCubic.ack_received _ rtt now).ssthresh = _
    rw [cubic_ack_eq]
    unfold CongestionControl.dupack_over
    simp

/-- counting a new ACK never touches `ssthresh`, and in slow start it adds one MSS, for both classes -/
theorem ack_plain {k : CCKind} {c : CCState ℚ} (h : CCInv k c) (rtt now : ℚ) :
    (CC.ackReceived k c rtt now).ssthresh = c.ssthresh ∧
    (c.cwnd ≤ c.ssthresh → (CC.ackReceived k c rtt now).cwnd = c.cwnd + c.mss) := by
  cases k with
  | reno =>
    show (TCPReno.ack_received c rtt now).ssthresh = _ ∧ (_ → (TCPReno.ack_received c rtt now).cwnd = _)
    unfold TCPReno.ack_received
    constructor
    · split_ifs <;> rfl
    · intro hss; simp [hss]
  | cubic =>
    show (TCPCubic.ack_received c rtt now).ssthresh = _ ∧ (_ → (TCPCubic.ack_received c rtt now).cwnd = _)
    have hpos : 0 < c.cwnd := lt_of_lt_of_le h.mss_pos h.cwnd_ge
    have hW' : ¬ ({ c with d_min := dminNext c.d_min rtt } : CCState ℚ).cwnd <
        ({ c with d_min := dminNext c.d_min rtt } : CCState ℚ).W_last_max := by
      simp only [(h.cubic rfl).1]; exact not_lt.mpr hpos.le
    rw [cubic_ack_eq]
    constructor
    · split_ifs with h1
      · rfl
      · simp only [cubic_update_eq _ now hW']; split_ifs <;> rfl
    · intro hss; simp [hss]

end TcpCC
