import Lean.Meta.Tactic.Simp.RegisterCommand
/-! simp sets used to execute the kernel model symbolically on the SP program (`spk`) and to take the list of the events
of a configuration apart (`spids`) -/
register_simp_attr spk
register_simp_attr spids
