import OnlVerif.Lemmas.GenScalar
import OnlVerif.Lemmas.StampWfqFun
import OnlVerif.Lemmas.StampVc
import OnlVerif.Generated.Sched
/-!
# Bridge between the *generated* WFQ / VirtualClock stamp code and the hand-written stamp functions

`Generated/Sched.lean` is rewritten from `onl/scheduler/wfq.py`, `virtual_clock.py` on every `./check C14` (the transmission
delay of `Scheduler.send_packet`, `base.py`, belongs to C12: `Generated/SchedTx.lean`, `Lemmas/GenSchedTx.lean`).
The model keeps the per-class dicts (`finish_times`, `class_count`, `vc`, `aux_vc`) as association lists and every lookup
that can miss as an explicit error; the generated code is the method *seen from the class of the packet in hand*: the dict
entries of that class are scalar fields.  `GenSched.wfqObj` / `vcObj` is that view of a model state; the weight
table with the answers of the membership tests (the `for i in self.weights: if i in self.active_set` loop) is handed to the
generated code as the list `weightTable`; that the sum in table order is the model's sum over the ascending active classes is
`tableSum_eq_wSum`.
All statements are over exact rationals.
-/

namespace GenSched
open Stamp

/-- `[(i in self.active_set, self.weights[i]) for i in self.weights]`: the weight table in the dict's key order, every entry
with the answer of its membership test -/
def weightTable (c : WfqCfg ℚ) (st : WfqSt ℚ) : List (Bool × ℚ) := c.weights.map fun kw => (st.active.contains kw.1, kw.2)

/-- the `WFQ` object seen from class `k` with weight `w`; `e1 e2 e3` count the effects so far, `ps pa` is the key of
the last `PriorityItem` stored -/
def wfqObj (c : WfqCfg ℚ) (st : WfqSt ℚ) (k : Nat) (w : ℚ) (e1 e2 e3 : Nat) (ps pa : ℚ) : Gen.WfqObj ℚ :=
  { rate := c.rate, vtime := st.vtime, last_time := st.lastTime, finish_times := (lookup st.finish k).getD 0,
    weights := w, class_count := lookup st.classCount k,
    eff_add_packet_to_queue := e1, eff_active_add := e2, eff_store_put := e3, put_stamp := ps, put_arrival := pa }

/-- the weight table is a Python dict: every class id is a key once -/
def KeysNodup (c : WfqCfg ℚ) : Prop := (c.weights.map Prod.fst).Nodup

/-- the sum the translated loop computes: in table order, the weights of the entries whose class is in `l` -/
def tableSum (w : List (Nat × ℚ)) (l : List Nat) : ℚ := (w.map fun kw => if l.contains kw.1 then kw.2 else 0).sum

theorem foldl_table_eq (w : List (Nat × ℚ)) (l : List Nat) (acc : ℚ) :
    List.foldl (fun a (e : Bool × ℚ) => if e.1 then a + e.2 else a) acc (w.map fun kw => (l.contains kw.1, kw.2)) =
      acc + tableSum w l := by
  induction w generalizing acc with
  | nil => simp [tableSum]
  | cons x xs ih =>
    simp only [List.map_cons, List.foldl_cons, ih, tableSum, List.sum_cons]
    cases l.contains x.1 <;> simp; ring

/-- in a table without a repeated key, the entries of class `k` sum up to `weights[k]` (0 when there is none) -/
theorem keySum_eq (w : List (Nat × ℚ)) (k : Nat) (hn : (w.map Prod.fst).Nodup) :
    (w.map fun kw => if kw.1 = k then kw.2 else 0).sum = WFQ.wOf w k := by
  induction w with
  | nil => simp [WFQ.wOf, lookup]
  | cons x xs ih =>
    obtain ⟨k', v⟩ := x
    simp only [List.map_cons, List.nodup_cons] at hn
    simp only [List.map_cons, List.sum_cons, WFQ.wOf, lookup]
    by_cases hk : k' = k
    · subst hk
      have hz : (xs.map fun kw => if kw.1 = k' then kw.2 else 0).sum = 0 := by
        apply List.sum_eq_zero
        intro y hy
        obtain ⟨kw, hkw, rfl⟩ := List.mem_map.mp hy
        have : kw.1 ≠ k' := fun e => hn.1 (e ▸ List.mem_map_of_mem (f := Prod.fst) hkw)
        simp [this]
      simp [hz]
    · have := ih hn.2
      simp only [WFQ.wOf] at this
      simp [hk, this]

/-- **summing in table order = summing over the active classes** (exact rationals: addition is commutative), for a list of
distinct classes and a table without a repeated key -/
theorem tableSum_eq_wSum (w : List (Nat × ℚ)) (l : List Nat) (hn : (w.map Prod.fst).Nodup) (hl : l.Nodup) :
    tableSum w l = WFQ.wSum w l := by
  induction l with
  | nil => simp [tableSum, WFQ.wSum]
  | cons k ks ih =>
    simp only [List.nodup_cons] at hl
    have hsplit : tableSum w (k :: ks) = (w.map fun kw => if kw.1 = k then kw.2 else 0).sum + tableSum w ks := by
      unfold tableSum
      rw [← List.sum_map_add]
      congr 1
      apply List.map_congr_left
      intro kw _
      by_cases h1 : kw.1 = k
      · simp [h1, hl.1]
      · simp [h1]
    rw [hsplit, keySum_eq w k hn, ih hl.2]
    simp [WFQ.wSum]

theorem weightTable_sum (c : WfqCfg ℚ) (st : WfqSt ℚ) (hn : KeysNodup c) (hs : st.active.Pairwise (· < ·)) :
    List.foldl (fun a (e : Bool × ℚ) => if e.1 then a + e.2 else a) 0 (weightTable c st) = WFQ.wSum c.weights st.active := by
  unfold weightTable
  rw [foldl_table_eq, zero_add]
  exact tableSum_eq_wSum _ _ hn (hs.imp (fun h => Nat.ne_of_lt h))

/-- `update_vtime`: the loop of the source adds the weights in *table* order, the model in ascending class order - the same
rational; `hn`: the table is a dict, `hs`: the model keeps `active_set` strictly ascending (`WFQ.WInv.sorted`, every
reachable state) -/
theorem update_vtime_eq (c : WfqCfg ℚ) (st st1 : WfqSt ℚ) (now : ℚ) (k : Nat) (w : ℚ) (e1 e2 e3 : Nat) (ps pa : ℚ)
    (hn : KeysNodup c) (hs : st.active.Pairwise (· < ·))
    (h : WFQ.updateVtime c st now = .ok st1) :
    Gen.WFQ.update_vtime (wfqObj c st k w e1 e2 e3 ps pa) now (weightTable c st) = wfqObj c st1 k w e1 e2 e3 ps pa := by
  obtain ⟨_, _, rfl⟩ := WFQ.updateVtime_spec c st st1 now h
  unfold Gen.WFQ.update_vtime
  simp only [Num.ofNat_rat', Nat.cast_zero, weightTable_sum c st hn hs]
  rfl

/-- `reset_vtime`, seen from a class that has a weight -/
theorem reset_vtime_eq (c : WfqCfg ℚ) (st : WfqSt ℚ) (k : Nat) (w : ℚ) (e1 e2 e3 : Nat) (ps pa : ℚ)
    (hw : lookup c.weights k = some w) :
    Gen.WFQ.reset_vtime (wfqObj c st k w e1 e2 e3 ps pa) = wfqObj c (WFQ.resetVtime c st) k w e1 e2 e3 ps pa := by
  unfold Gen.WFQ.reset_vtime wfqObj WFQ.resetVtime
  simp only [WFQ.lookup_zeroFinish, hw, Option.isSome_some, if_true, Option.getD_some, Num.ofNat_rat', Nat.cast_zero]

/-- the first statement pair of `put` -/
theorem advance_eq (c : WfqCfg ℚ) (st st1 : WfqSt ℚ) (now : ℚ) (total : Int) (k : Nat) (w : ℚ) (e1 e2 e3 : Nat) (ps pa : ℚ)
    (hn : KeysNodup c) (hs : st.active.Pairwise (· < ·))
    (hw : lookup c.weights k = some w) (h : WFQ.advance c st now total = .ok st1) :
    (if total = 0 then Gen.WFQ.reset_vtime (wfqObj c st k w e1 e2 e3 ps pa)
     else Gen.WFQ.update_vtime (wfqObj c st k w e1 e2 e3 ps pa) now (weightTable c st)) =
      wfqObj c st1 k w e1 e2 e3 ps pa := by
  unfold WFQ.advance at h
  split at h
  · rename_i h0
    simp only [Except.ok.injEq] at h
    rw [if_pos h0, ← h, reset_vtime_eq c st k w e1 e2 e3 ps pa hw]
  · rename_i h0
    rw [if_neg h0, update_vtime_eq c st st1 now k w e1 e2 e3 ps pa hn hs h]

/-- **`WFQ.put`** -/
theorem wfq_put_eq (c : WfqCfg ℚ) (st st' : WfqSt ℚ) (now : ℚ) (total : Int) (F : ℚ) (p : SPkt) (e1 e2 e3 : Nat) (ps pa : ℚ)
    (hn : KeysNodup c) (hs : st.active.Pairwise (· < ·))
    (h : WFQ.put c st now total p = .ok (st', F)) :
    ∃ k w, lookup c.flow2class p.flow = some k ∧ lookup c.weights k = some w ∧
      Gen.WFQ.put (wfqObj c st k w e1 e2 e3 ps pa) now total p.size (weightTable c st) =
        wfqObj c st' k w (e1 + 1) (e2 + 1) (e3 + 1) F now := by
  obtain ⟨k, st1, f, w, hk, ha, hf, hw, hz, hF, hst⟩ := WFQ.put_spec c st st' now total F p h
  refine ⟨k, w, hk, hw, ?_⟩
  have hadv := advance_eq c st st1 now total k w e1 e2 e3 ps pa hn hs hw ha
  unfold Gen.WFQ.put
  simp only [hadv]
  have hFq : F = max f st1.vtime + 8 * (p.size : ℚ) / (c.rate * w) := by rw [hF, WFQ.stampOf_eq]
  subst hst
  unfold wfqObj WFQ.commit
  simp only [lookup_setKey, if_true, Option.getD_some, hf, Num.ofInt_rat, Num.ofNat_rat', Num.pymax_eq]
  have e : max f st1.vtime + ((p.size : ℤ) : ℚ) * ((8 : ℕ) : ℚ) / (c.rate * w) = F := by
    rw [hFq]; push_cast; ring
  simp only [e]
  cases lookup st1.classCount k <;> rfl

/-! ### VirtualClock -/

/-- the `VC` object seen from a class whose entries are `vc = v`, `aux_vc = a`, `vticks = vt` -/
def vcObj (c : VcCfg ℚ) (v a vt : ℚ) (e1 e3 : Nat) (ps pa : ℚ) : Gen.VcObj ℚ :=
  { rate := c.rate, vc := v, aux_vc := a, vticks := vt, eff_add_packet_to_queue := e1, eff_store_put := e3,
    put_stamp := ps, put_arrival := pa }

/-- the translated `VC.put` on the per-class view computes the model's `vcOf` / `auxOf` -/
theorem vc_put_core (c : VcCfg ℚ) (v a vt now : ℚ) (size : Nat) (e1 e3 : Nat) (ps pa : ℚ) :
    Gen.VC.put (vcObj c v a vt e1 e3 ps pa) now size =
      vcObj c (VC.vcOf v now vt size) (VC.auxOf now a vt) vt (e1 + 1) (e3 + 1) (VC.auxOf now a vt) now := by
  unfold Gen.VC.put vcObj VC.vcOf VC.vcBase VC.auxOf
  simp only [Num.ofInt_rat, Num.ofNat_rat', Num.zero]
  split <;> simp only [Gen.VcObj.mk.injEq, true_and, and_true] <;> push_cast <;> ring

/-- **`VC.put`** -/
theorem vc_put_eq (c : VcCfg ℚ) (st st' : VcSt ℚ) (now : ℚ) (total : Int) (A : ℚ) (p : SPkt) (e1 e3 : Nat) (ps pa : ℚ)
    (h : VC.put c st now total p = .ok (st', A)) :
    ∃ k v a vt v' a', lookup c.flow2class p.flow = some k ∧ lookup st.vc k = some v ∧ lookup st.aux k = some a ∧
      lookup c.vticks k = some vt ∧ lookup st'.vc k = some v' ∧ lookup st'.aux k = some a' ∧
      Gen.VC.put (vcObj c v a vt e1 e3 ps pa) now p.size = vcObj c v' a' vt (e1 + 1) (e3 + 1) A now := by
  obtain ⟨k, v, a, vt, hk, hv, ha, hvt, rfl, rfl⟩ := VC.put_spec c st st' now total A p h
  refine ⟨k, v, a, vt, _, _, hk, hv, ha, hvt, ?_, ?_, vc_put_core c v a vt now p.size e1 e3 ps pa⟩
  · simp only [lookup_setKey, if_true]
  · simp only [lookup_setKey, if_true]

end GenSched
