import OnlVerif.Lemmas.GenScalar
import OnlVerif.Lemmas.StampWfqFun
import OnlVerif.Lemmas.StampVc
import OnlVerif.Generated.Sched
/-!
# Bridge between the *generated* WFQ / VirtualClock stamp code and the hand-written stamp functions

`Generated/Sched.lean` is rewritten from `onl/scheduler/wfq.py`, `virtual_clock.py` on every `./check C14` (the transmission
delay of `Scheduler.send_packet`, `base.py`, belongs to C12: `Generated/SchedTx.lean`, `Lemmas/GenSchedTx.lean`).
The model keeps the per-class dicts (`finish_times`, `class_count`, `vc`, `aux_vc`) as association lists and every lookup
that can miss as an explicit error; the generated code is the method *seen from the class of the packet in hand*: the dict
entries of that class are scalar fields.  `GenSched.wfqObj` / `vcObj` is that view of a model state; the weights of the
active classes (the `for i in self.active_set` loop) are handed to the generated code as the list `activeWeights`.
All statements are over exact rationals.
-/

namespace GenSched
open Stamp

/-- `[self.weights[i] for i in self.active_set]` -/
def activeWeights (c : WfqCfg ℚ) (st : WfqSt ℚ) : List ℚ := st.active.map (WFQ.wOf c.weights)

/-- the `WFQ` object seen from class `k` with weight `w`; `e1 e2 e3` count the effects so far, `ps pa` is the key of
the last `PriorityItem` stored -/
def wfqObj (c : WfqCfg ℚ) (st : WfqSt ℚ) (k : Nat) (w : ℚ) (e1 e2 e3 : Nat) (ps pa : ℚ) : Gen.WfqObj ℚ :=
  { rate := c.rate, vtime := st.vtime, last_time := st.lastTime, finish_times := (lookup st.finish k).getD 0,
    weights := w, class_count := lookup st.classCount k,
    eff_add_packet_to_queue := e1, eff_active_add := e2, eff_store_put := e3, put_stamp := ps, put_arrival := pa }

theorem foldl_add_eq_sum (l : List ℚ) (acc : ℚ) : List.foldl (fun a w => a + w) acc l = acc + l.sum := by
  induction l generalizing acc with
  | nil => simp
  | cons x xs ih => simp only [List.foldl_cons, ih, List.sum_cons]; ring

theorem activeWeights_sum (c : WfqCfg ℚ) (st : WfqSt ℚ) :
    List.foldl (fun a w => a + w) 0 (activeWeights c st) = WFQ.wSum c.weights st.active := by
  rw [foldl_add_eq_sum, zero_add]; rfl

/-- `update_vtime` -/
theorem update_vtime_eq (c : WfqCfg ℚ) (st st1 : WfqSt ℚ) (now : ℚ) (k : Nat) (w : ℚ) (e1 e2 e3 : Nat) (ps pa : ℚ)
    (h : WFQ.updateVtime c st now = .ok st1) :
    Gen.WFQ.update_vtime (wfqObj c st k w e1 e2 e3 ps pa) now (activeWeights c st) = wfqObj c st1 k w e1 e2 e3 ps pa := by
  obtain ⟨_, _, rfl⟩ := WFQ.updateVtime_spec c st st1 now h
  unfold Gen.WFQ.update_vtime
  simp only [Num.ofNat_rat', Nat.cast_zero, activeWeights_sum]
  rfl

/-- `reset_vtime`, seen from a class that has a weight -/
theorem reset_vtime_eq (c : WfqCfg ℚ) (st : WfqSt ℚ) (k : Nat) (w : ℚ) (e1 e2 e3 : Nat) (ps pa : ℚ)
    (hw : lookup c.weights k = some w) :
    Gen.WFQ.reset_vtime (wfqObj c st k w e1 e2 e3 ps pa) = wfqObj c (WFQ.resetVtime c st) k w e1 e2 e3 ps pa := by
  unfold Gen.WFQ.reset_vtime wfqObj WFQ.resetVtime
  simp only [WFQ.lookup_zeroFinish, hw, Option.isSome_some, if_true, Option.getD_some, Num.ofNat_rat', Nat.cast_zero]

/-- the first statement pair of `put` -/
theorem advance_eq (c : WfqCfg ℚ) (st st1 : WfqSt ℚ) (now : ℚ) (total : Int) (k : Nat) (w : ℚ) (e1 e2 e3 : Nat) (ps pa : ℚ)
    (hw : lookup c.weights k = some w) (h : WFQ.advance c st now total = .ok st1) :
    (if total = 0 then Gen.WFQ.reset_vtime (wfqObj c st k w e1 e2 e3 ps pa)
     else Gen.WFQ.update_vtime (wfqObj c st k w e1 e2 e3 ps pa) now (activeWeights c st)) =
      wfqObj c st1 k w e1 e2 e3 ps pa := by
  unfold WFQ.advance at h
  split at h
  · rename_i h0
    simp only [Except.ok.injEq] at h
    rw [if_pos h0, ← h, reset_vtime_eq c st k w e1 e2 e3 ps pa hw]
  · rename_i h0
    rw [if_neg h0, update_vtime_eq c st st1 now k w e1 e2 e3 ps pa h]

/-- **`WFQ.put`** -/
theorem wfq_put_eq (c : WfqCfg ℚ) (st st' : WfqSt ℚ) (now : ℚ) (total : Int) (F : ℚ) (p : SPkt) (e1 e2 e3 : Nat) (ps pa : ℚ)
    (h : WFQ.put c st now total p = .ok (st', F)) :
    ∃ k w, lookup c.flow2class p.flow = some k ∧ lookup c.weights k = some w ∧
      Gen.WFQ.put (wfqObj c st k w e1 e2 e3 ps pa) now total p.size (activeWeights c st) =
        wfqObj c st' k w (e1 + 1) (e2 + 1) (e3 + 1) F now := by
  obtain ⟨k, st1, f, w, hk, ha, hf, hw, hz, hF, hst⟩ := WFQ.put_spec c st st' now total F p h
  refine ⟨k, w, hk, hw, ?_⟩
  have hadv := advance_eq c st st1 now total k w e1 e2 e3 ps pa hw ha
  unfold Gen.WFQ.put
  simp only [hadv]
  have hFq : F = max f st1.vtime + 8 * (p.size : ℚ) / (c.rate * w) := by rw [hF, WFQ.stampOf_eq]
  subst hst
  unfold wfqObj WFQ.commit
  simp only [lookup_setKey, if_true, Option.getD_some, hf, Num.ofInt_rat, Num.ofNat_rat', Num.pymax_eq]
  have e : max f st1.vtime + ((p.size : ℤ) : ℚ) * ((8 : ℕ) : ℚ) / (c.rate * w) = F := by
    rw [hFq]; push_cast; ring
  simp only [e]
  cases lookup st1.classCount k <;> rfl

/-! ### VirtualClock -/

/-- the `VC` object seen from a class whose entries are `vc = v`, `aux_vc = a`, `vticks = vt` -/
def vcObj (c : VcCfg ℚ) (v a vt : ℚ) (e1 e3 : Nat) (ps pa : ℚ) : Gen.VcObj ℚ :=
  { rate := c.rate, vc := v, aux_vc := a, vticks := vt, eff_add_packet_to_queue := e1, eff_store_put := e3,
    put_stamp := ps, put_arrival := pa }

/-- the translated `VC.put` on the per-class view computes the model's `vcOf` / `auxOf` -/
theorem vc_put_core (c : VcCfg ℚ) (v a vt now : ℚ) (size : Nat) (e1 e3 : Nat) (ps pa : ℚ) :
    Gen.VC.put (vcObj c v a vt e1 e3 ps pa) now size =
      vcObj c (VC.vcOf v now vt size) (VC.auxOf now a vt) vt (e1 + 1) (e3 + 1) (VC.auxOf now a vt) now := by
  unfold Gen.VC.put vcObj VC.vcOf VC.vcBase VC.auxOf
  simp only [Num.ofInt_rat, Num.ofNat_rat', Num.zero]
  split <;> simp only [Gen.VcObj.mk.injEq, true_and, and_true] <;> push_cast <;> ring

/-- **`VC.put`** -/
theorem vc_put_eq (c : VcCfg ℚ) (st st' : VcSt ℚ) (now : ℚ) (total : Int) (A : ℚ) (p : SPkt) (e1 e3 : Nat) (ps pa : ℚ)
    (h : VC.put c st now total p = .ok (st', A)) :
    ∃ k v a vt v' a', lookup c.flow2class p.flow = some k ∧ lookup st.vc k = some v ∧ lookup st.aux k = some a ∧
      lookup c.vticks k = some vt ∧ lookup st'.vc k = some v' ∧ lookup st'.aux k = some a' ∧
      Gen.VC.put (vcObj c v a vt e1 e3 ps pa) now p.size = vcObj c v' a' vt (e1 + 1) (e3 + 1) A now := by
  obtain ⟨k, v, a, vt, hk, hv, ha, hvt, rfl, rfl⟩ := VC.put_spec c st st' now total A p h
  refine ⟨k, v, a, vt, _, _, hk, hv, ha, hvt, ?_, ?_, vc_put_core c v a vt now p.size e1 e3 ps pa⟩
  · simp only [lookup_setKey, if_true]
  · simp only [lookup_setKey, if_true]

end GenSched
