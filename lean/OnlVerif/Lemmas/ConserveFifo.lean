import OnlVerif.Lemmas.ConserveStore
import OnlVerif.Lemmas.ConserveTrace
/-!
# C07: a `Store` is first-in first-out across the whole run

For a `Store` `r`, as **lists**:
`initial items ++ items of the granted puts (by creation order of the puts)
   = items handed to the getters (by creation order of the gets) ++ items still held`.
Since puts and gets of a Store are granted in creation order, this says: the k-th granted get receives the k-th
accepted item.
-/

variable {σ : Type}

namespace Conserve

/-! ## lists over the event table -/

theorem filterMap_range_extend {f f' : Nat → Option Int} {n : Nat} (hold : ∀ i, i < n → f' i = f i) :
    ∀ n', n ≤ n' → (∀ i, n ≤ i → i < n' → f' i = none) → (List.range n').filterMap f' = (List.range n).filterMap f := by
  intro n' h
  induction n', h using Nat.le_induction with
  | base =>
    intro _
    apply List.filterMap_congr
    intro i hi
    exact hold i (List.mem_range.mp hi)
  | succ m hm ih =>
    intro hnew
    rw [List.range_succ, List.filterMap_append, ih (fun i h1 h2 => hnew i h1 (Nat.lt_succ_of_lt h2))]
    simp [hnew m hm (Nat.lt_succ_self m)]

/-- one entry changes from `none` to `some x`, and no later entry is present: `x` is appended -/
theorem filterMap_range_grant {f f' : Nat → Option Int} {e : Nat} {x : Int} (hfe : f e = none) (hfe' : f' e = some x)
    (hother : ∀ i, i ≠ e → f' i = f i) : ∀ n, e < n → (∀ i, e < i → i < n → f i = none) →
    (List.range n).filterMap f' = (List.range n).filterMap f ++ [x]
  | 0, he, _ => absurd he (Nat.not_lt_zero _)
  | n + 1, he, hlater => by
    rw [List.range_succ, List.filterMap_append, List.filterMap_append]
    by_cases hen : e = n
    · subst hen
      have h1 : (List.range e).filterMap f' = (List.range e).filterMap f := by
        apply List.filterMap_congr
        intro i hi
        exact hother i (Nat.ne_of_lt (List.mem_range.mp hi))
      rw [h1]
      simp [hfe, hfe']
    · have hlt : e < n := by omega
      rw [filterMap_range_grant hfe hfe' hother n hlt (fun i h1 h2 => hlater i h1 (Nat.lt_succ_of_lt h2))]
      have hn : f n = none := hlater n hlt (Nat.lt_succ_self n)
      have hn' : f' n = none := by rw [hother n (fun hc => hen hc.symm)]; exact hn
      simp [hn, hn']

theorem map_filter_eq_filterMap {α β : Type} (p : α → Bool) (g : α → β) (l : List α) :
    (l.filter p).map g = l.filterMap (fun i => if p i then some (g i) else none) := by
  induction l with
  | nil => rfl
  | cons a l ih =>
    by_cases h : p a = true
    · simp [h, ih]
    · simp [h, ih]

/-- the entry of event `a` in `putItems · r` -/
def putEntry (s : KState ℚ σ) (r : ResId) (a : EvId) : Option Int :=
  if (decide ((s.ev a).kind = .put r) && s.triggered a) = true then some (reqOf s a).item else none

/-- the entry of event `a` in `gotItems · r` -/
def gotEntry (s : KState ℚ σ) (r : ResId) (a : EvId) : Option Int :=
  if (s.ev a).kind = .get r then gotOf (s.ev a).out else none

theorem putItems_eq (s : KState ℚ σ) (r : ResId) : putItems s r = (List.range s.events.size).filterMap (putEntry s r) := by
  unfold putItems grantedPuts
  rw [map_filter_eq_filterMap]
  rfl

theorem gotItems_eq (s : KState ℚ σ) (r : ResId) : gotItems s r = (List.range s.events.size).filterMap (gotEntry s r) := rfl

theorem putEntry_same {s s' : KState ℚ σ} {r : ResId} {a : EvId} (hk : (s'.ev a).kind = (s.ev a).kind)
    (ho : (s'.ev a).out = (s.ev a).out) (hc : coreOf s' a = coreOf s a) : putEntry s' r a = putEntry s r a := by
  unfold putEntry KState.triggered
  rw [hk, ho, item_of_core hc]

theorem gotEntry_same {s s' : KState ℚ σ} {r : ResId} {a : EvId} (hk : (s'.ev a).kind = (s.ev a).kind)
    (ho : (s'.ev a).out = (s.ev a).out) : gotEntry s' r a = gotEntry s r a := by
  unfold gotEntry
  rw [hk, ho]

theorem putEntry_none_of {s : KState ℚ σ} {r : ResId} {a : EvId} (h : (s.ev a).kind = .put r → (s.ev a).out = none) :
    putEntry s r a = none := by
  unfold putEntry KState.triggered
  by_cases hk : (s.ev a).kind = .put r
  · rw [h hk]; simp
  · simp [hk]

theorem gotEntry_none_of {s : KState ℚ σ} {r : ResId} {a : EvId} (h : (s.ev a).kind = .get r → (s.ev a).out = none) :
    gotEntry s r a = none := by
  unfold gotEntry
  by_cases hk : (s.ev a).kind = .get r
  · rw [if_pos hk, h hk]; rfl
  · rw [if_neg hk]

/-! ## the invariant and the equation -/

/-- in a `Store`, every granted put (get) is older than every waiting put (get) -/
def FifoInv (s : KState ℚ σ) : Prop :=
  ∀ r, (s.res r).kind = .store →
    (∀ a, (s.ev a).kind = .put r → (s.ev a).out ≠ none → ∀ b ∈ (s.res r).putQ, a < b) ∧
    (∀ a, (s.ev a).kind = .get r → (s.ev a).out ≠ none → ∀ b ∈ (s.res r).getQ, a < b)

/-- accepted, in order = handed out, in order, followed by what is held -/
def FifoEqn (base : List Int) (s : KState ℚ σ) (r : ResId) : Prop :=
  base ++ putItems s r = gotItems s r ++ (s.res r).items

def FifoStep (s s' : KState ℚ σ) : Prop :=
  FifoInv s' ∧ ∀ r base, (s.res r).kind = .store → FifoEqn base s r → FifoEqn base s' r

def FifoRel (s s' : KState ℚ σ) : Prop := QueueRel s s' ∧ (WF s → QSorted s → FifoInv s → FifoStep s s')

/-- a unit that grants nothing: old events keep kind, outcome and data; new request events are untriggered; items
are untouched; queues gain at most fresh events -/
theorem fifoStep_quiet {s s' : KState ℚ σ} (hI : FifoInv s) (hsz : s.events.size ≤ s'.events.size)
    (hold : ∀ a, a < s.events.size → (s'.ev a).kind = (s.ev a).kind ∧ (s'.ev a).out = (s.ev a).out ∧ coreOf s' a = coreOf s a)
    (hnew : ∀ a, s.events.size ≤ a → isReq s' a = true → (s'.ev a).out = none)
    (hk : ∀ r, (s'.res r).kind = (s.res r).kind) (hitems : ∀ r, (s'.res r).items = (s.res r).items)
    (hput : ∀ r b, b ∈ (s'.res r).putQ → b ∈ (s.res r).putQ ∨ s.events.size ≤ b)
    (hget : ∀ r b, b ∈ (s'.res r).getQ → b ∈ (s.res r).getQ ∨ s.events.size ≤ b) : FifoStep s s' := by
  have hlt : ∀ a, isReq s' a = true → (s'.ev a).out ≠ none → a < s.events.size := by
    intro a hr ho
    by_contra hc
    exact ho (hnew a (Nat.le_of_not_lt hc) hr)
  refine ⟨?_, ?_⟩
  · intro r hkr
    rw [hk] at hkr
    obtain ⟨hP, hG⟩ := hI r hkr
    refine ⟨?_, ?_⟩
    · intro a hka ho b hb
      have ha := hlt a (isReq_of_put hka) ho
      obtain ⟨h1, h2, _⟩ := hold a ha
      rcases hput r b hb with hb | hb
      · exact hP a (by rw [← h1]; exact hka) (by rw [← h2]; exact ho) b hb
      · exact Nat.lt_of_lt_of_le ha hb
    · intro a hka ho b hb
      have ha := hlt a (isReq_of_get hka) ho
      obtain ⟨h1, h2, _⟩ := hold a ha
      rcases hget r b hb with hb | hb
      · exact hG a (by rw [← h1]; exact hka) (by rw [← h2]; exact ho) b hb
      · exact Nat.lt_of_lt_of_le ha hb
  · intro r base _ heq
    unfold FifoEqn at heq ⊢
    have hp : putItems s' r = putItems s r := by
      rw [putItems_eq, putItems_eq]
      apply filterMap_range_extend _ _ hsz
      · intro i hi _
        apply putEntry_none_of
        intro hki
        exact hnew i hi (isReq_of_put hki)
      · intro i hi
        obtain ⟨h1, h2, h3⟩ := hold i hi
        exact putEntry_same h1 h2 h3
    have hg : gotItems s' r = gotItems s r := by
      rw [gotItems_eq, gotItems_eq]
      apply filterMap_range_extend _ _ hsz
      · intro i hi _
        apply gotEntry_none_of
        intro hki
        exact hnew i hi (isReq_of_get hki)
      · intro i hi
        obtain ⟨h1, h2, _⟩ := hold i hi
        exact gotEntry_same h1 h2
    rw [hp, hg, hitems]; exact heq

theorem ev_default_of_ge {s : KState ℚ σ} {a : EvId} (h : s.events.size ≤ a) : s.ev a = default := by
  simp only [KState.ev, Array.getD_eq_getD_getElem?]
  rw [Array.getElem?_eq_none h]; rfl

theorem not_isReq_of_ge {s : KState ℚ σ} {a : EvId} (h : s.events.size ≤ a) : isReq s a = false := by
  cases hr : isReq s a with
  | false => rfl
  | true => exact absurd (lt_size_of_isReq hr) (Nat.not_lt.mpr h)

/-- `Put/Get.__init__` -/
theorem fifoStep_newReq {s s' : KState ℚ σ} {x : EvRec ℚ} (hI : FifoInv s) (hN : NewReqEv s s' x) (hxo : x.out = none)
    (hk : ∀ r, (s'.res r).kind = (s.res r).kind) (hitems : ∀ r, (s'.res r).items = (s.res r).items)
    (hput : ∀ r b, b ∈ (s'.res r).putQ → b ∈ (s.res r).putQ ∨ b = s.events.size)
    (hget : ∀ r b, b ∈ (s'.res r).getQ → b ∈ (s.res r).getQ ∨ b = s.events.size) : FifoStep s s' := by
  refine fifoStep_quiet hI (by rw [hN.size]; exact Nat.le_succ _) ?_ ?_ hk hitems ?_ ?_
  · intro a ha
    have h1 := hN.old a ha
    exact ⟨by rw [h1], by rw [h1], by unfold coreOf reqOf; rw [h1]⟩
  · intro a ha hr
    by_cases hea : a = s.events.size
    · subst hea; rw [hN.new]; exact hxo
    · have hge : s'.events.size ≤ a := by rw [hN.size]; exact succ_le_of_not_lt_ne (Nat.not_lt.mpr ha) hea
      rw [not_isReq_of_ge hge] at hr; cases hr
  · intro r b hb
    rcases hput r b hb with h | h
    · exact Or.inl h
    · exact Or.inr (Nat.le_of_eq h.symm)
  · intro r b hb
    rcases hget r b hb with h | h
    · exact Or.inl h
    · exact Or.inr (Nat.le_of_eq h.symm)

theorem FifoRel.crel : CRel (FifoRel (σ := σ)) where
  refl s := ⟨QueueRel.crel.refl s, fun _ _ hI => ⟨hI, fun _ _ _ h => h⟩⟩
  trans := by
    intro s1 s2 s3 h12 h23
    refine ⟨QueueRel.crel.trans h12.1 h23.1, ?_⟩
    intro hW hS hI
    have hW2 := h12.1.1.keepWF hW
    have hS2 := (h12.1.2 hW).2 hS
    obtain ⟨hI2, e12⟩ := h12.2 hW hS hI
    obtain ⟨hI3, e23⟩ := h23.2 hW2 hS2 hI2
    refine ⟨hI3, ?_⟩
    intro r base hk h
    exact e23 r base (by rw [h12.1.1.resKind]; exact hk) (e12 r base hk h)
  toBase h := h.1.1
  frame s s' hW h := ⟨QueueRel.crel.frame s s' hW h, fun _ _ hI =>
    fifoStep_quiet hI (Nat.le_of_eq h.size.symm) (fun a _ => ⟨h.kind a, h.out a, h.core a⟩)
      (fun a ha hr => by
        have : isReq s a = true := by unfold isReq at hr ⊢; rw [← h.kind]; exact hr
        exact absurd (lt_size_of_isReq this) (Nat.not_lt.mpr ha))
      (fun r => (h.res r).kind) (fun r => (h.res r).items)
      (fun r b hb => Or.inl (by rw [← (h.res r).putQ]; exact hb))
      (fun r b hb => Or.inl (by rw [← (h.res r).getQ]; exact hb))⟩
  alloc s s' x hW he hk hc hr hp := by
    refine ⟨QueueRel.crel.alloc s s' x hW he hk hc hr hp, fun _ _ hI => ?_⟩
    have hres : ∀ r, s'.res r = s.res r := fun r => by simp only [KState.res, hr]
    have hold : ∀ a, a < s.events.size → s'.ev a = s.ev a := by
      intro a ha; rw [Base.ev_of_push he, if_neg (Nat.ne_of_lt ha)]
    refine fifoStep_quiet hI (by simp [he]) ?_ ?_ (fun r => by rw [hres]) (fun r => by rw [hres])
      (fun r b hb => Or.inl (by rw [← hres]; exact hb)) (fun r b hb => Or.inl (by rw [← hres]; exact hb))
    · intro a ha
      have h1 := hold a ha
      exact ⟨by rw [h1], by rw [h1], by unfold coreOf reqOf; rw [h1]⟩
    · intro a ha hreq
      exfalso
      by_cases hea : a = s.events.size
      · subst hea
        unfold isReq at hreq
        rw [Base.ev_of_push he, if_pos rfl] at hreq
        unfold nonReqKind at hk
        split at hreq <;> simp_all
      · have hge : s'.events.size ≤ a := by
          have : s'.events.size = s.events.size + 1 := by simp [he]
          rw [this]; exact succ_le_of_not_lt_ne (Nat.not_lt.mpr ha) hea
        rw [not_isReq_of_ge hge] at hreq; cases hreq
  trigNR s e o hW hn := by
    refine ⟨QueueRel.crel.trigNR s e o hW hn, fun _ _ hI => ?_⟩
    have hsz : (s.setOut e o).events.size = s.events.size := by unfold KState.setOut; rw [KState.esize_setEv]
    -- requests keep their outcome; `e` itself is not a request, so its entries are `none` before and after
    refine ⟨?_, ?_⟩
    · intro r hkr
      obtain ⟨hP, hG⟩ := hI r hkr
      refine ⟨?_, ?_⟩
      · intro a hka ho b hb
        rw [kind_setOut] at hka
        have hne : a ≠ e := by intro hc; subst hc; rw [isReq_of_put hka] at hn; cases hn
        rw [out_setOut_other _ _ _ _ hne] at ho
        exact hP a hka ho b hb
      · intro a hka ho b hb
        rw [kind_setOut] at hka
        have hne : a ≠ e := by intro hc; subst hc; rw [isReq_of_get hka] at hn; cases hn
        rw [out_setOut_other _ _ _ _ hne] at ho
        exact hG a hka ho b hb
    · intro r base _ heq
      unfold FifoEqn at heq ⊢
      have hp : putItems (s.setOut e o) r = putItems s r := by
        rw [putItems_eq, putItems_eq, hsz]
        apply List.filterMap_congr
        intro a _
        by_cases hae : a = e
        · subst hae
          rw [putEntry_none_of, putEntry_none_of]
          · intro hka; rw [isReq_of_put hka] at hn; cases hn
          · intro hka; rw [kind_setOut] at hka; rw [isReq_of_put hka] at hn; cases hn
        · exact putEntry_same (kind_setOut s e o a) (out_setOut_other s e o a hae) (coreOf_setOut s e o a)
      have hg : gotItems (s.setOut e o) r = gotItems s r := by
        rw [gotItems_eq, gotItems_eq, hsz]
        apply List.filterMap_congr
        intro a _
        by_cases hae : a = e
        · subst hae
          rw [gotEntry_none_of, gotEntry_none_of]
          · intro hka; rw [isReq_of_get hka] at hn; cases hn
          · intro hka; rw [kind_setOut] at hka; rw [isReq_of_get hka] at hn; cases hn
        · exact gotEntry_same (kind_setOut s e o a) (out_setOut_other s e o a hae)
      rw [hp, hg]; exact heq
  grantPut s r0 e rest hW hq hc := by
    refine ⟨QueueRel.crel.grantPut s r0 e rest hW hq hc, fun _ hS hI => ?_⟩
    have hE := Base.putEffect_of_guard hW hq
    have hmem : e ∈ (s.res r0).putQ := by rw [hq]; exact List.mem_cons_self
    have hew := hW.putQ r0 e hmem
    have hlt : e < s.events.size := lt_size_of_put hew.1
    have hB := Base.of_putEffect hW hmem hE
    have hgetQ : ∀ r, ((grantPutSt s r0 e).res r).getQ = (s.res r).getQ := by
      intro r
      by_cases hr : r = r0
      · subst hr; exact hE.getQ
      · rw [hE.resOther r hr]
    refine ⟨?_, ?_⟩
    · intro r hkr
      rw [hB.resKind] at hkr
      obtain ⟨hP, hG⟩ := hI r hkr
      refine ⟨?_, ?_⟩
      · intro a hka ho b hb
        rw [hE.kind] at hka
        by_cases hr : r = r0
        · subst hr
          rw [hE.putQ, (hW.putNodup r).mem_erase_iff] at hb
          by_cases hae : a = e
          · subst hae
            -- the granted head is older than the rest of the queue (queue in creation order)
            have hsorted := hS.put r
            have hnp : isPrioKind (s.res r).kind = false := by rw [hkr]; decide
            rw [hnp, hq] at hsorted
            have hbr : b ∈ rest := by
              have := hb.2; rw [hq] at this
              rcases List.mem_cons.mp this with h | h
              · exact absurd h hb.1
              · exact h
            have := (List.pairwise_cons.mp hsorted).1 b hbr
            unfold rankLt at this; simpa using this
          · rw [hE.outOther a hae] at ho
            exact hP a hka ho b hb.2
        · rw [hE.resOther r hr] at hb
          have hae : a ≠ e := by
            intro hc2; subst hc2
            rw [hew.1] at hka; injection hka with hka; exact hr hka.symm
          rw [hE.outOther a hae] at ho
          exact hP a hka ho b hb
      · intro a hka ho b hb
        rw [hE.kind] at hka
        rw [hgetQ] at hb
        have hae : a ≠ e := by intro hc2; subst hc2; rw [hew.1] at hka; cases hka
        rw [hE.outOther a hae] at ho
        exact hG a hka ho b hb
    · intro r base hkr heq
      unfold FifoEqn at heq ⊢
      have hg : gotItems (grantPutSt s r0 e) r = gotItems s r := by
        rw [gotItems_eq, gotItems_eq, hE.size]
        apply List.filterMap_congr
        intro a _
        by_cases hae : a = e
        · subst hae
          rw [gotEntry_none_of, gotEntry_none_of]
          · intro hka; rw [hew.1] at hka; cases hka
          · intro hka; rw [hE.kind, hew.1] at hka; cases hka
        · exact gotEntry_same (hE.kind a) (hE.outOther a hae)
      by_cases hr : r = r0
      · subst hr
        obtain ⟨hP, _⟩ := hI r hkr
        have hp : putItems (grantPutSt s r e) r = putItems s r ++ [(reqOf s e).item] := by
          rw [putItems_eq, putItems_eq, hE.size]
          apply filterMap_range_grant (e := e) _ _ _ _ hlt
          · intro i hi1 _
            apply putEntry_none_of
            intro hki
            by_contra hoi
            exact absurd (hP i hki hoi e hmem) (Nat.lt_asymm hi1)
          · exact putEntry_none_of (fun _ => hew.2)
          · unfold putEntry KState.triggered
            rw [hE.kind, hew.1, hE.outE, item_of_core (hE.core e)]; simp
          · intro i hie
            exact putEntry_same (hE.kind i) (hE.outOther i hie) (hE.core i)
        have hs : isStoreKind (s.res r).kind = true := by rw [hkr]; decide
        rw [hp, hg, hE.itemsS hs, ← List.append_assoc, heq, List.append_assoc]
      · have hp : putItems (grantPutSt s r0 e) r = putItems s r := by
          rw [putItems_eq, putItems_eq, hE.size]
          apply List.filterMap_congr
          intro a _
          by_cases hae : a = e
          · subst hae
            rw [putEntry_none_of, putEntry_none_of]
            · intro hka; rw [hew.1] at hka; injection hka with hka; exact absurd hka.symm hr
            · intro hka; rw [hE.kind, hew.1] at hka; injection hka with hka; exact absurd hka.symm hr
          · exact putEntry_same (hE.kind a) (hE.outOther a hae) (hE.core a)
        rw [hp, hg, hE.resOther r hr]; exact heq
  grantGet s r0 e v pre rest hW hq hgi hpre := by
    refine ⟨QueueRel.crel.grantGet s r0 e v pre rest hW hq hgi hpre, fun _ hS hI => ?_⟩
    have hE := Base.getEffect_of_guard hW hq hgi
    have hmem : e ∈ (s.res r0).getQ := by rw [hq]; simp
    have hew := hW.getQ r0 e hmem
    have hlt : e < s.events.size := lt_size_of_get hew.1
    have hB := Base.of_getEffect hW hmem hE
    have hputQ : ∀ r, ((grantGetSt s r0 e v).res r).putQ = (s.res r).putQ := by
      intro r
      by_cases hr : r = r0
      · subst hr; exact hE.putQ
      · rw [hE.resOther r hr]
    -- in a Store the scan has passed over nobody
    have hpre0 : (s.res r0).kind = .store → pre = [] := by
      intro hk
      cases pre with
      | nil => rfl
      | cons p ps => have := (hpre p List.mem_cons_self).1; rw [hk] at this; cases this
    refine ⟨?_, ?_⟩
    · intro r hkr
      rw [hB.resKind] at hkr
      obtain ⟨hP, hG⟩ := hI r hkr
      refine ⟨?_, ?_⟩
      · intro a hka ho b hb
        rw [hE.kind] at hka
        rw [hputQ] at hb
        have hae : a ≠ e := by intro hc2; subst hc2; rw [hew.1] at hka; cases hka
        rw [hE.outOther a hae] at ho
        exact hP a hka ho b hb
      · intro a hka ho b hb
        rw [hE.kind] at hka
        by_cases hr : r = r0
        · subst hr
          rw [hE.getQ, (hW.getNodup r).mem_erase_iff] at hb
          by_cases hae : a = e
          · subst hae
            have hsorted := hS.get r
            rw [hq, hpre0 hkr, List.nil_append] at hsorted
            have hbr : b ∈ rest := by
              have := hb.2; rw [hq, hpre0 hkr, List.nil_append] at this
              rcases List.mem_cons.mp this with h | h
              · exact absurd h hb.1
              · exact h
            exact (List.pairwise_cons.mp hsorted).1 b hbr
          · rw [hE.outOther a hae] at ho
            exact hG a hka ho b hb.2
        · rw [hE.resOther r hr] at hb
          have hae : a ≠ e := by
            intro hc2; subst hc2
            rw [hew.1] at hka; injection hka with hka; exact hr hka.symm
          rw [hE.outOther a hae] at ho
          exact hG a hka ho b hb
    · intro r base hkr heq
      unfold FifoEqn at heq ⊢
      have hp : putItems (grantGetSt s r0 e v) r = putItems s r := by
        rw [putItems_eq, putItems_eq, hE.size]
        apply List.filterMap_congr
        intro a _
        by_cases hae : a = e
        · subst hae
          rw [putEntry_none_of, putEntry_none_of]
          · intro hka; rw [hew.1] at hka; cases hka
          · intro hka; rw [hE.kind, hew.1] at hka; cases hka
        · exact putEntry_same (hE.kind a) (hE.outOther a hae) (hE.core a)
      by_cases hr : r = r0
      · subst hr
        obtain ⟨_, hG⟩ := hI r hkr
        -- the Store hands out its head
        have hhead : ∃ x tl, v = .int x ∧ (s.res r).items = x :: tl := by
          unfold getItem at hgi
          simp only [hkr] at hgi
          cases hi : (s.res r).items with
          | nil => rw [hi] at hgi; simp at hgi
          | cons y ys =>
            rw [hi] at hgi
            simp only [List.head?_cons, Option.map_some, Option.some.injEq] at hgi
            exact ⟨y, ys, hgi.symm, rfl⟩
        obtain ⟨x, tl, hv, hitems⟩ := hhead
        subst hv
        have hs : isStoreKind (s.res r).kind = true := by rw [hkr]; decide
        obtain ⟨y, hy, _, hit⟩ := hE.itemsS hs
        injection hy with hy; subst hy
        have hg : gotItems (grantGetSt s r e (.int x)) r = gotItems s r ++ [x] := by
          rw [gotItems_eq, gotItems_eq, hE.size]
          apply filterMap_range_grant (e := e) _ _ _ _ hlt
          · intro i hi1 _
            apply gotEntry_none_of
            intro hki
            by_contra hoi
            exact absurd (hG i hki hoi e hmem) (Nat.lt_asymm hi1)
          · exact gotEntry_none_of (fun _ => hew.2)
          · unfold gotEntry
            rw [hE.kind, hew.1, hE.outE, if_pos rfl]; rfl
          · intro i hie
            exact gotEntry_same (hE.kind i) (hE.outOther i hie)
        rw [hp, hg, hit, hitems, heq, hitems]
        simp
      · have hg : gotItems (grantGetSt s r0 e v) r = gotItems s r := by
          rw [gotItems_eq, gotItems_eq, hE.size]
          apply List.filterMap_congr
          intro a _
          by_cases hae : a = e
          · subst hae
            rw [gotEntry_none_of, gotEntry_none_of]
            · intro hka; rw [hew.1] at hka; injection hka with hka; exact absurd hka.symm hr
            · intro hka; rw [hE.kind, hew.1] at hka; injection hka with hka; exact absurd hka.symm hr
          · exact gotEntry_same (hE.kind a) (hE.outOther a hae)
        rw [hp, hg, hE.resOther r hr]; exact heq
  newPut s r0 rq hW := by
    refine ⟨QueueRel.crel.newPut s r0 rq hW, fun _ _ hI => ?_⟩
    have hB := Base.of_newPut s r0 rq
    refine fifoStep_newReq hI (newPut_ev s r0 rq) rfl hB.resKind (fun r => (newPut_resLI s r0 rq r).2) ?_ ?_
    · intro r b hb
      by_cases h : r = r0
      · subst h
        by_cases hr : r < s.resources.size
        · rw [newPut_res_in s r rq hr] at hb
          simp only at hb
          split at hb
          · rw [mem_insertSorted] at hb
            rcases hb with hb | hb
            · exact Or.inr hb
            · exact Or.inl hb
          · rcases List.mem_append.mp hb with hb | hb
            · exact Or.inl hb
            · exact Or.inr (List.mem_singleton.mp hb)
        · rw [newPut_res_out s r rq hr] at hb; exact Or.inl hb
      · rw [newPut_resOther s r0 rq r h] at hb; exact Or.inl hb
    · intro r b hb
      have : ((newPutSt s r0 rq).res r).getQ = (s.res r).getQ := by
        by_cases h : r = r0
        · subst h
          by_cases hr : r < s.resources.size
          · rw [newPut_res_in s r rq hr]
          · rw [newPut_res_out s r rq hr]
        · rw [newPut_resOther s r0 rq r h]
      rw [this] at hb; exact Or.inl hb
  newGet s r0 rq hW := by
    refine ⟨QueueRel.crel.newGet s r0 rq hW, fun _ _ hI => ?_⟩
    have hB := Base.of_newGet s r0 rq
    refine fifoStep_newReq hI (newGet_ev s r0 rq) rfl hB.resKind (fun r => (newGet_resLI s r0 rq r).2) ?_ ?_
    · intro r b hb
      have : ((newGetSt s r0 rq).res r).putQ = (s.res r).putQ := by
        by_cases h : r = r0
        · subst h
          by_cases hr : r < s.resources.size
          · rw [newGet_res_in s r rq hr]
          · rw [newGet_res_out s r rq hr]
        · rw [newGet_resOther s r0 rq r h]
      rw [this] at hb; exact Or.inl hb
    · intro r b hb
      by_cases h : r = r0
      · subst h
        by_cases hr : r < s.resources.size
        · rw [newGet_res_in s r rq hr] at hb
          rcases List.mem_append.mp hb with hb | hb
          · exact Or.inl hb
          · exact Or.inr (List.mem_singleton.mp hb)
        · rw [newGet_res_out s r rq hr] at hb; exact Or.inl hb
      · rw [newGet_resOther s r0 rq r h] at hb; exact Or.inl hb
  cancelPut s r0 e hW ho hk hm := by
    refine ⟨QueueRel.crel.cancelPut s r0 e hW ho hk hm, fun _ _ hI => ?_⟩
    have hB := Base.of_cancelPut s r0 e
    refine fifoStep_quiet hI (Nat.le_refl _) (fun _ _ => ⟨rfl, rfl, rfl⟩) ?_ hB.resKind
      (fun r => (dropPutQ_resLI s r0 e r).2) ?_ ?_
    · intro a ha hr; exact absurd (lt_size_of_isReq hr) (Nat.not_lt.mpr ha)
    · intro r b hb
      rw [dropPutQ_res] at hb
      split at hb
      · rename_i h; rw [h.1]; exact Or.inl (List.mem_of_mem_erase hb)
      · exact Or.inl hb
    · intro r b hb
      rw [dropPutQ_res] at hb
      split at hb
      · rename_i h; rw [h.1]; exact Or.inl hb
      · exact Or.inl hb
  cancelGet s r0 e hW ho hk hm := by
    refine ⟨QueueRel.crel.cancelGet s r0 e hW ho hk hm, fun _ _ hI => ?_⟩
    have hB := Base.of_cancelGet s r0 e
    refine fifoStep_quiet hI (Nat.le_refl _) (fun _ _ => ⟨rfl, rfl, rfl⟩) ?_ hB.resKind
      (fun r => (dropGetQ_resLI s r0 e r).2) ?_ ?_
    · intro a ha hr; exact absurd (lt_size_of_isReq hr) (Nat.not_lt.mpr ha)
    · intro r b hb
      rw [dropGetQ_res] at hb
      split at hb
      · rename_i h; rw [h.1]; exact Or.inl hb
      · exact Or.inl hb
    · intro r b hb
      rw [dropGetQ_res] at hb
      split at hb
      · rename_i h; rw [h.1]; exact Or.inl (List.mem_of_mem_erase hb)
      · exact Or.inl hb

theorem fifoInv_noReq (s : KState ℚ σ) (h : ∀ e, isReq s e = false) : FifoInv s := by
  intro r _
  refine ⟨?_, ?_⟩
  · intro a hk; have := h a; rw [isReq_of_put hk] at this; cases this
  · intro a hk; have := h a; rw [isReq_of_get hk] at this; cases this

/-- **the FIFO equation in every state reachable inside the domain from a state without requests** -/
theorem reach_fifo (body : σ → Resume → Burst ℚ σ) (fuel : Nat) (s0 s : KState ℚ σ) (hW : WF s0) (hS : QSorted s0)
    (h0 : ∀ e, isReq s0 e = false) (hr : SafeReach body fuel s0 s) (r : ResId) (hk : (s.res r).kind = .store) :
    (s0.res r).items ++ putItems s r = gotItems s r ++ (s.res r).items := by
  have h := FifoRel.crel.reach body fuel s0 s hW hr
  have hk0 : (s0.res r).kind = .store := by rw [← h.1.1.resKind]; exact hk
  have hstep := h.2 hW hS (fifoInv_noReq s0 h0)
  apply hstep.2 r _ hk0
  unfold FifoEqn
  have hp0 : putItems s0 r = [] := by unfold putItems; rw [grantedPuts_noReq s0 r h0]; rfl
  rw [hp0, gotItems_noReq s0 r h0]; simp

end Conserve
