import OnlVerif.Lemmas.VCKAbs
/-!
# The VirtualClock scheduler on the kernel model: the history of every run passes the property's oracle

`OInv` relates the state of the oracle (`VCOnK.ostep`) after the history so far to the configuration.
-/

set_option linter.unusedSimpArgs false

namespace VCK
open VCOnK QEntry

/-! ## the order lemma of the integer code (local copy; `Lemmas/StampCodeQ.lean` is written in parallel) -/
section code

theorem code_grid_o {scale : Nat} (hs : 0 < scale) (k : Int) : StampCode.code scale ((k : ℚ) / (scale : ℚ)) = k := by
  show (((k : ℚ) / (scale : ℚ)) * (scale : ℚ)).floor = k
  have h0 : ((scale : ℕ) : ℚ) ≠ 0 := by exact_mod_cast (Nat.pos_iff_ne_zero.mp hs)
  rw [div_mul_cancel₀ _ h0]
  exact Rat.floor_intCast k

theorem code_le_of_item_le {scale N : Nat} (hs : 0 < scale) {x y : ℚ} (hx : OnGrid scale x) (hy : OnGrid scale y)
    {i j : Int} (hi : 0 ≤ i ∧ i < N) (hj : 0 ≤ j ∧ j < N) (h : stampItem scale N x i ≤ stampItem scale N y j) :
    x ≤ y ∧ (x = y → i ≤ j) := by
  obtain ⟨kx, rfl⟩ := hx
  obtain ⟨ky, rfl⟩ := hy
  unfold stampItem at h
  rw [code_grid_o hs, code_grid_o hs] at h
  have hpos : (0 : ℚ) < (scale : ℚ) := by exact_mod_cast hs
  have hk : kx ≤ ky := by
    by_contra hc
    have h1 : ky + 1 ≤ kx := by omega
    have h2 : (ky + 1) * (N : Int) ≤ kx * (N : Int) := Int.mul_le_mul_of_nonneg_right h1 (by omega)
    have h3 : (ky + 1) * (N : Int) = ky * N + N := by ring
    omega
  refine ⟨div_le_div_of_nonneg_right (by exact_mod_cast hk) (le_of_lt hpos), ?_⟩
  intro he
  have h1 : (kx : ℚ) = ky := by
    have := congrArg (· * (scale : ℚ)) he
    simpa [div_mul_cancel₀ _ (ne_of_gt hpos)] using this
  have h2 : kx = ky := by exact_mod_cast h1
  subst h2
  omega

end code

/-! ## the oracle side of a configuration -/

/-- a `put` as the oracle keeps it: id, stamp, arrival instant -/
def toW (w : PutRec) : WItem ℚ := (w.1, w.2.2, w.2.1)

variable (N scale F : Nat) (flow size : Int → Nat) (cfg : VcCfg ℚ)

/-- what the phase of `run` says about the oracle -/
def PhO (a : A) (now : ℚ) (o : OSt ℚ) : RPhase → Prop
  | .init q => q.time = 0 ∧ o.lastOut = none ∧ o.busy = none ∧ o.cand = none ∧ o.waiting = a.items.map toW
  | .W _ => o.busy = none ∧ o.waiting = a.items.map toW ∧
      (∃ t, o.cand = some (a.items.map toW, t) ∧ ∀ w ∈ a.items, t = w.2.1 ∧ w.2.1 = now) ∧
      a.items.length ≤ 1 ∧ (a.items ≠ [] → ∃ u ∈ a.pend, ∀ x ∈ a.src.entries, u.eid < x.eid)
  | .H _ w q => o.busy = none ∧ (∃ wl : List PutRec, o.waiting = wl.map toW ∧ a.items = wl.filter (fun y => y.1 ≠ w.1)) ∧
      (∃ l, o.cand = some (l, q.time) ∧ toW w ∈ l ∧ ∀ w' ∈ l, ¬ keyLt w' (toW w)) ∧
      ((o.waiting.filter fun y => flow y.1 = flow w.1).head?.map (·.1)) = some w.1
  | .S _ id q => o.busy = some (id, q.time) ∧ o.cand = none ∧ o.waiting = a.items.map toW
  | .T _ _ id q => o.cand = none ∧ o.waiting = a.items.map toW ∧
      ∃ s0, o.busy = some (id, s0) ∧ q.time = s0 + txTime size cfg.rate id
  | .F _ _ q => o.busy = none ∧ o.cand = none ∧ o.lastOut = some q.time ∧ o.waiting = a.items.map toW

/-- the oracle is in the state the configuration stands for -/
structure OInv (a : A) (now : ℚ) (o : OSt ℚ) : Prop where
  aux : o.aux = a.aux
  pend : o.pend = none
  ph : PhO flow size cfg a now o a.run
  /-- `aux_vc` of a class is not below any stamp of that class -/
  auxGe : ∀ w ∈ a.puts, w.2.2 ≤ a.aux (flow w.1)
  /-- the stamps of one flow increase strictly along its `put`s -/
  fl : a.puts.Pairwise fun x y => flow x.1 = flow y.1 → x.2.2 < y.2.2

variable {N scale F flow size cfg}

theorem eqT_iff (x y : ℚ) : eqT x y ↔ x = y := by
  unfold eqT
  constructor
  · intro h; exact le_antisymm (not_lt.mp h.2) (not_lt.mp h.1)
  · rintro rfl; exact ⟨lt_irrefl _, lt_irrefl _⟩

theorem orun_nil (o : OSt ℚ) : orun flow size cfg o [] = some o := rfl

theorem orun_one (o o' : OSt ℚ) (ev : HEv ℚ) (h : ostep flow size cfg o ev = some o') :
    orun flow size cfg o [ev] = some o' := by
  simp [orun, h]

/-! ### list facts -/

/-- taking one element out of a list with increasing ids is filtering by its id -/
theorem erase_eq_filter : ∀ (l : List PutRec) (w : PutRec), l.Pairwise (fun x y => x.1 < y.1) → w ∈ l →
    l.erase w = l.filter (fun y => y.1 ≠ w.1)
  | [], _, _, h => by cases h
  | x :: r, w, hp, h => by
    obtain ⟨h1, h2⟩ := List.pairwise_cons.mp hp
    by_cases hxw : x = w
    · subst hxw
      have : r.filter (fun y => y.1 ≠ x.1) = r := by
        apply List.filter_eq_self.mpr
        intro y hy
        have := h1 y hy
        simp only [ne_eq, decide_not, Bool.not_eq_eq_eq_not, Bool.not_true, decide_eq_false_iff_not]
        omega
      rw [List.erase_cons_head, List.filter_cons_of_neg (by simp), this]
    · have hw : w ∈ r := by
        rcases List.mem_cons.mp h with h | h
        · exact absurd h.symm hxw
        · exact h
      have hlt := h1 w hw
      have hne : x.1 ≠ w.1 := by omega
      rw [List.erase_cons_tail (by simpa using hxw), erase_eq_filter r w h2 hw]
      simp [hne]

/-- along the `put`s the arrival instants follow the ids -/
theorem arr_le_of_id_le : ∀ (l : List PutRec), l.Pairwise (fun x y => x.1 < y.1 ∧ x.2.1 ≤ y.2.1) → ∀ x ∈ l, ∀ y ∈ l,
    x.1 ≤ y.1 → x.2.1 ≤ y.2.1
  | [], _, _, h, _, _, _ => by cases h
  | z :: r, hp, x, hx, y, hy, hle => by
    obtain ⟨h1, h2⟩ := List.pairwise_cons.mp hp
    rcases List.mem_cons.mp hx with hx' | hx'
    · rcases List.mem_cons.mp hy with hy' | hy'
      · rw [hx', hy']
      · rw [hx']; exact (h1 y hy').2
    · rcases List.mem_cons.mp hy with hy' | hy'
      · have := (h1 x hx').1; rw [hy'] at hle; omega
      · exact arr_le_of_id_le r h2 x hx' y hy' hle

/-- an element with a least stamp is the oldest of its flow -/
theorem head_of_least : ∀ (l : List PutRec) (w : PutRec), l.Pairwise (fun x y => flow x.1 = flow y.1 → x.2.2 < y.2.2) →
    w ∈ l → (∀ x ∈ l, w.2.2 ≤ x.2.2) →
    (((l.map toW).filter fun y => flow y.1 = flow w.1).head?.map (·.1)) = some w.1
  | [], _, _, h, _ => by cases h
  | x :: r, w, hp, h, hle => by
    obtain ⟨h1, h2⟩ := List.pairwise_cons.mp hp
    by_cases hf : flow x.1 = flow w.1
    · have hxw : x = w := by
        rcases List.mem_cons.mp h with h | h
        · exact h.symm
        · have ha := h1 w h hf
          have hb := hle x (by simp)
          exact absurd hb (not_le.mpr ha)
      subst hxw
      simp [toW]
    · have hw : w ∈ r := by
        rcases List.mem_cons.mp h with h | h
        · subst h; exact absurd rfl hf
        · exact h
      have := head_of_least r w h2 hw (fun y hy => hle y (by simp [hy]))
      simpa [toW, hf] using this

theorem lookup_mem_o : ∀ (l : List (Nat × ℚ)) (k : Nat) (v : ℚ), Stamp.lookup l k = some v → (k, v) ∈ l
  | [], _, _, h => by simp [Stamp.lookup] at h
  | (k', v') :: r, k, v, h => by
    simp only [Stamp.lookup] at h
    by_cases hk : k' = k
    · simp only [hk, if_true, Option.some.injEq] at h
      subst hk; subst h; simp
    · simp only [hk, if_false] at h
      exact List.mem_cons_of_mem _ (lookup_mem_o r k v h)

theorem not_keyLt_self (w : WItem ℚ) : ¬ keyLt w w := by
  unfold VCOnK.keyLt
  rintro (h | ⟨_, h⟩) <;> exact lt_irrefl _ h

theorem candPut_none (w : WItem ℚ) : candPut (none : Option (List (WItem ℚ) × ℚ)) w = none := rfl

theorem candPut_nil (t : ℚ) (w : WItem ℚ) : candPut (some ([], t)) w = some ([w], w.2.2) := rfl

theorem candPut_ne {l : List (WItem ℚ)} (hl : l ≠ []) (t : ℚ) (w : WItem ℚ) : candPut (some (l, t)) w = some (l, t) := by
  cases l with
  | nil => exact absurd rfl hl
  | cons x r => rfl

theorem srcNext_eid (t : ℚ) (eid ev : Nat) (arr : List (ℚ × Int)) : ∀ x ∈ (srcNext t eid ev arr).entries, x.eid = eid := by
  intro x hx
  cases arr with
  | nil => simp only [srcNext, SPhase.entries, List.mem_singleton] at hx; rw [hx]
  | cons y r => obtain ⟨gap, id⟩ := y; simp only [srcNext, SPhase.entries, List.mem_singleton] at hx; rw [hx]

variable {a a' : A} {now : ℚ} {q : QEntry ℚ} {n e : Nat} {new : List (HEv ℚ)} {o : OSt ℚ}

/-! ## the initial configuration, the clock advance, the end -/

theorem oinv_init (arrivals : List (ℚ × Int)) : OInv flow size cfg (a0 arrivals) 0 oInit := by
  refine ⟨?_, rfl, ⟨rfl, rfl, rfl, rfl, rfl⟩, ?_, ?_⟩
  · funext c; exact Stamp.zero_eq_q
  · intro w hw; cases hw
  · exact List.Pairwise.nil

/-- **letting the clock advance to the next entry changes nothing** -/
theorem oinv_advance (hi : AInv N scale F flow cfg a now) (hq : IsMin a q) (ho : OInv flow size cfg a now o) :
    OInv flow size cfg a q.time o := by
  rcases eq_or_lt_of_le (hi.now_le hq) with h | h
  · rw [← h]; exact ho
  have hne : ∀ x ∈ a.entries, x.time ≠ now := fun x hx hxt => absurd (hi.time_eq hq hx hxt) (ne_of_gt h)
  have hp := hi.run
  have hph := ho.ph
  refine ⟨ho.aux, ho.pend, ?_, ho.auxGe, ho.fl⟩
  cases hr : a.run with
  | W g =>
    rw [hr] at hp hph
    obtain ⟨h1, h2, ⟨t, h3, _⟩, h5, h6⟩ := hph
    have hpe : a.pend = [] := by
      cases hpd : a.pend with
      | nil => rfl
      | cons u r => exact absurd (hi.pend u (by simp [hpd])).1 (hne u (mem_pend (by simp [hpd])))
    have hit : a.items = [] := by
      by_contra hc
      exact hp.1 hc hpe
    refine ⟨h1, h2, ⟨t, h3, ?_⟩, h5, h6⟩
    intro w hw
    rw [hit] at hw; cases hw
  | init q0 => rw [hr] at hph; exact hph
  | H g w q0 => rw [hr] at hph; exact hph
  | S p id q0 => rw [hr] at hph; exact hph
  | T p t id q0 => rw [hr] at hph; exact hph
  | F p id q0 => rw [hr] at hph; exact hph

/-- **at the end of a run everything has been served** -/
theorem oinv_final (hi : AInv N scale F flow cfg a now) (ho : OInv flow size cfg a now o) (hend : a.entries = []) :
    drained o = true := by
  have hp := hi.run
  have hph := ho.ph
  simp only [A.entries, List.append_eq_nil_iff] at hend
  obtain ⟨hre, -, hpe⟩ := hend
  cases hr : a.run with
  | W g =>
    rw [hr] at hp hph
    obtain ⟨h1, h2, ⟨t, h3, _⟩, -, -⟩ := hph
    have hit : a.items = [] := by
      by_contra hc
      exact hp.1 hc hpe
    rw [hit] at h2 h3
    simp [drained, h1, h2, h3, ho.pend]
  | init q0 => rw [hr] at hre; simp [RPhase.entries] at hre
  | H g w q0 => rw [hr] at hre; simp [RPhase.entries] at hre
  | S p id q0 => rw [hr] at hre; simp [RPhase.entries] at hre
  | T p t id q0 => rw [hr] at hre; simp [RPhase.entries] at hre
  | F p id q0 => rw [hr] at hre; simp [RPhase.entries] at hre

/-! ## every configuration step keeps the oracle's invariant -/

/-- the source moves: only the "older `StorePut`" clause of phase `W` talks about its entries -/
theorem pho_src (s : SPhase) (hph : PhO flow size cfg a now o a.run)
    (hW : ∀ g, a.run = .W g → ∀ u ∈ a.pend, ∀ x ∈ s.entries, u.eid < x.eid) :
    PhO flow size cfg { a with src := s } now o a.run := by
  cases hr : a.run with
  | W g =>
    rw [hr] at hph
    obtain ⟨h1, h2, h3, h5, h6⟩ := hph
    refine ⟨h1, h2, h3, h5, ?_⟩
    intro hne
    obtain ⟨u, hu, -⟩ := h6 hne
    exact ⟨u, hu, hW g hr u hu⟩
  | init q0 => rw [hr] at hph; exact hph
  | H g w q0 => rw [hr] at hph; exact hph
  | S p id q0 => rw [hr] at hph; exact hph
  | T p t id q0 => rw [hr] at hph; exact hph
  | F p id q0 => rw [hr] at hph; exact hph

/-- a `StorePut` event without effect is processed -/
theorem pho_pend (l : List (QEntry ℚ)) (hph : PhO flow size cfg a now o a.run) (hW : ∀ g, a.run = .W g → a.items = []) :
    PhO flow size cfg { a with pend := l } now o a.run := by
  cases hr : a.run with
  | W g =>
    rw [hr] at hph
    obtain ⟨h1, h2, h3, h5, h6⟩ := hph
    exact ⟨h1, h2, h3, h5, fun hne => absurd (hW g hr) hne⟩
  | init q0 => rw [hr] at hph; exact hph
  | H g w q0 => rw [hr] at hph; exact hph
  | S p id q0 => rw [hr] at hph; exact hph
  | T p t id q0 => rw [hr] at hph; exact hph
  | F p id q0 => rw [hr] at hph; exact hph

/-- `run` calls `store.get()` on an empty store -/
theorem oinv_getW (ho : OInv flow size cfg a q.time o) (hG : GetOK o q.time) (hw : o.waiting = a.items.map toW)
    (hit : a.items = []) (g : EvId) :
    ∃ o', orun flow size cfg o [.get q.time] = some o' ∧ OInv flow size cfg { a with run := .W g } q.time o' := by
  refine ⟨{ o with cand := some (o.waiting, q.time) }, orun_one _ _ _ (by simp [ostep, hG]), ho.aux, ho.pend, ?_, ho.auxGe, ho.fl⟩
  refine ⟨Option.isNone_iff_eq_none.mp hG.1, hw, ⟨q.time, by rw [hw], ?_⟩, by simp [hit], fun hne => absurd hit hne⟩
  intro w hw'
  rw [hit] at hw'; cases hw'

/-- the packet with the least integer has a minimal `(stamp, arrival)` key -/
theorem least_key (hi : AInv N scale F flow cfg a now) {w x : PutRec} (hw : w ∈ a.puts) (hx : x ∈ a.puts)
    (hle : codeOf N scale w ≤ codeOf N scale x) : ¬ keyLt (toW x) (toW w) ∧ w.2.2 ≤ x.2.2 := by
  obtain ⟨-, w0, wN, -, wG⟩ := hi.putOK w hw
  obtain ⟨-, x0, xN, -, xG⟩ := hi.putOK x hx
  obtain ⟨h1, h2⟩ := code_le_of_item_le hi.grid.1 wG xG ⟨w0, wN⟩ ⟨x0, xN⟩ hle
  refine ⟨?_, h1⟩
  unfold VCOnK.keyLt toW
  simp only
  rintro (h | ⟨h3, h4⟩)
  · exact absurd h1 (not_le.mpr h)
  · have heq : w.2.2 = x.2.2 := le_antisymm h1 (not_lt.mp h3)
    have := arr_le_of_id_le a.puts hi.mono w hw x hx (h2 heq)
    exact absurd this (not_le.mpr h4)

/-- the two observations of a `put` -/
theorem orun_put {id : Int} {t x : ℚ} (hp : o.pend = none) (hs : StampOK flow cfg o id t x) :
    orun flow size cfg o [.put id t, .stamp x] =
      some { o with pend := none, aux := setA o.aux (flow id) x, waiting := o.waiting ++ [(id, x, t)],
                    cand := candPut o.cand (id, x, t) } := by
  have hs' : StampOK flow cfg { o with pend := some (id, t) } id t x := hs
  simp [orun, ostep, hp, hs']

/-- a `put`, phase by phase -/
theorem pho_put {u : QEntry ℚ} {r : PutRec} (hph : PhO flow size cfg a now o a.run) (a' : A) (hrun : a'.run = a.run)
    (hitems : a'.items = a.items ++ [r]) (hpend : a'.pend = a.pend ++ [u]) (hr1 : r.2.1 = now)
    (hH : ∀ g w q0, a.run = .H g w q0 → r.1 ≠ w.1)
    (hW : ∀ g, a.run = .W g → a.items = [] ∧ ∀ x ∈ a'.src.entries, u.eid < x.eid)
    (o' : OSt ℚ) (hb : o'.busy = o.busy) (hl : o'.lastOut = o.lastOut) (hw : o'.waiting = o.waiting ++ [toW r])
    (hc : o'.cand = candPut o.cand (toW r)) : PhO flow size cfg a' now o' a'.run := by
  have hmap : ∀ l : List PutRec, l.map toW ++ [toW r] = (l ++ [r]).map toW := by intro l; simp
  rw [hrun]
  cases hr : a.run with
  | init q0 =>
    rw [hr] at hph
    obtain ⟨h1, h2, h3, h4, h5⟩ := hph
    exact ⟨h1, hl.trans h2, hb.trans h3, by rw [hc, h4]; rfl, by rw [hw, h5, hitems, hmap]⟩
  | S p id q0 =>
    rw [hr] at hph
    obtain ⟨h1, h2, h3⟩ := hph
    exact ⟨hb.trans h1, by rw [hc, h2]; rfl, by rw [hw, h3, hitems, hmap]⟩
  | T p t id q0 =>
    rw [hr] at hph
    obtain ⟨h1, h2, s0, h3, h4⟩ := hph
    exact ⟨by rw [hc, h1]; rfl, by rw [hw, h2, hitems, hmap], s0, hb.trans h3, h4⟩
  | F p id q0 =>
    rw [hr] at hph
    obtain ⟨h1, h2, h3, h4⟩ := hph
    exact ⟨hb.trans h1, by rw [hc, h2]; rfl, hl.trans h3, by rw [hw, h4, hitems, hmap]⟩
  | W g =>
    rw [hr] at hph
    obtain ⟨h1, h2, ⟨t, h3, h4⟩, h5, h6⟩ := hph
    obtain ⟨hit, hlt⟩ := hW g hr
    rw [hit] at h2 h3
    refine ⟨hb.trans h1, by rw [hw, h2, hitems, hit]; rfl, ⟨now, ?_, ?_⟩, by rw [hitems, hit]; simp,
      fun _ => ⟨u, by rw [hpend]; simp, hlt⟩⟩
    · rw [hc, h3, hitems, hit]
      simp only [List.map_nil, candPut_nil, List.nil_append, List.map_cons]
      simp only [toW, hr1]
    · intro w hw'
      rw [hitems, hit] at hw'
      simp only [List.nil_append, List.mem_singleton] at hw'
      subst hw'
      exact ⟨hr1.symm, hr1⟩
  | H g w q0 =>
    rw [hr] at hph
    obtain ⟨h1, ⟨wl, h2, h3⟩, ⟨l, h4, h5, h6⟩, h7⟩ := hph
    refine ⟨hb.trans h1, ⟨wl ++ [r], by rw [hw, h2, hmap], ?_⟩,
      ⟨l, by rw [hc, h4]; exact candPut_ne (List.ne_nil_of_mem h5) _ _, h5, h6⟩, ?_⟩
    · rw [hitems, h3, List.filter_append]
      congr 1
      simp [hH g w q0 hr]
    · rw [hw, List.filter_append]
      cases hf : (o.waiting.filter fun y => flow y.1 = flow w.1) with
      | nil => rw [hf] at h7; simp at h7
      | cons z zs => rw [hf] at h7; simpa using h7

/-- **the stamp rule at an arrival**: the oracle accepts the `put` and `stamp` observations -/
theorem oinv_put (hi : AInv N scale F flow cfg a q.time) (hq : IsMin a q) (ho : OInv flow size cfg a q.time o) {id : Int}
    {arr : List (ℚ × Int)} (h : a.src = .wait id arr q) (r : PutRec) (hr : r = putRec flow cfg a q.time id)
    (a' : A) (u : QEntry ℚ) (hu : u.eid = e) (ev : Nat) (hrun : a'.run = a.run) (hitems : a'.items = a.items ++ [r])
    (hpend : a'.pend = a.pend ++ [u]) (hsrc : a'.src = srcNext q.time (e + 1) ev arr)
    (haux : a'.aux = upd a.aux (flow id) r.2.2) (hputs : a'.puts = a.puts ++ [r]) :
    ∃ o', orun flow size cfg o [.put id q.time, .stamp r.2.2] = some o' ∧ OInv flow size cfg a' q.time o' := by
  have hs := hi.src
  rw [h] at hs
  obtain ⟨hqp, hwk, -, hids⟩ := hs
  obtain ⟨-, hfid, -, -, -⟩ := hwk.gap (0, id) (by simp)
  obtain ⟨vt, hvl, hvpos⟩ := hi.cfgOK.vt (flow id) hfid
  have hvt : vtOf cfg (flow id) = vt := by simp [vtOf, hvl]
  have hr0 : r.1 = id := by rw [hr]; rfl
  have hr1 : r.2.1 = q.time := by rw [hr]; rfl
  have hr22 : r.2.2 = max q.time (a.aux (flow id)) + vt := by
    rw [hr]; simp only [putRec]; rw [hvt, VC.auxOf_eq]
  have hgt : a.aux (flow id) < r.2.2 := by
    rw [hr22]
    have := le_max_right q.time (a.aux (flow id))
    linarith
  have hS : StampOK flow cfg o id q.time r.2.2 :=
    ⟨(flow id, vt), lookup_mem_o _ _ _ hvl, rfl, (eqT_iff _ _).mpr (by rw [ho.aux, hr22, Num.pymax_eq])⟩
  have hrw : ((id, r.2.2, q.time) : WItem ℚ) = toW r := by rw [← hr0, ← hr1]; rfl
  refine ⟨_, orun_put ho.pend hS, ?_, rfl, ?_, ?_, ?_⟩
  · show setA o.aux (flow id) r.2.2 = a'.aux
    rw [haux, ho.aux]; rfl
  · refine pho_put ho.ph a' hrun hitems hpend hr1 ?_ ?_ _ rfl rfl (by rw [← hrw]) (by rw [← hrw])
    · intro g w q0 hrr
      have hp := hi.run
      rw [hrr] at hp
      have := hids w hp.2.2.2.1
      rw [hr0]; omega
    · intro g hrr
      have hph := ho.ph
      rw [hrr] at hph
      refine ⟨?_, ?_⟩
      · by_contra hne
        obtain ⟨u0, hu0, hlt⟩ := hph.2.2.2.2 hne
        have h1 := hlt q (by rw [h]; simp [SPhase.entries])
        obtain ⟨h2, h3⟩ := hi.pend u0 hu0
        exact hq.2 u0 (mem_pend hu0) (Or.inr ⟨h2, Or.inr ⟨h3.trans hqp.symm, h1⟩⟩)
      · intro x hx
        rw [hsrc] at hx
        rw [srcNext_eid _ _ _ _ x hx, hu]
        exact Nat.lt_succ_self e
  · intro w hw
    rw [hputs] at hw
    rw [haux]
    rcases List.mem_append.mp hw with hw | hw
    · by_cases hf : flow w.1 = flow id
      · rw [hf, upd_same]
        have := ho.auxGe w hw
        rw [hf] at this
        linarith
      · rw [upd_ne _ _ _ _ hf]
        exact ho.auxGe w hw
    · simp only [List.mem_singleton] at hw
      subst hw
      rw [hr0, upd_same]
  · rw [hputs]
    refine List.pairwise_append.mpr ⟨ho.fl, List.pairwise_singleton _ _, ?_⟩
    intro x hx y hy hf
    simp only [List.mem_singleton] at hy
    subst hy
    have := ho.auxGe x hx
    rw [hf, hr0] at this
    linarith

/-- **every configuration step keeps the oracle's invariant**: the observations of the step are accepted -/
theorem oracle_step (hi : AInv N scale F flow cfg a q.time) (hq : IsMin a q) (he : ∀ x ∈ a.entries, x.eid < e)
    (ho : OInv flow size cfg a q.time o) (h : AStep N scale flow size cfg n e a q a' new) :
    ∃ o', orun flow size cfg o new = some o' ∧ OInv flow size cfg a' q.time o' := by
  have hrun := hi.run
  have hph := ho.ph
  cases h with
  | runInit h =>
    rw [h] at hph hrun
    obtain ⟨h1, h2, h3, h4, h5⟩ := hph
    have hG : GetOK o q.time := by
      refine ⟨by simp [h3], by simp [h4], by simp [ho.pend], ?_⟩
      rw [h2]
      exact (eqT_iff _ _).mpr (by rw [h1, Stamp.zero_eq_q])
    exact oinv_getW ho hG h5 hrun.2.2.2.1 n
  | doneBlock p id0 h hit =>
    rw [h] at hph
    obtain ⟨h1, h2, h3, h4⟩ := hph
    have hG : GetOK o q.time := by
      refine ⟨by simp [h1], by simp [h2], by simp [ho.pend], ?_⟩
      rw [h3]
      exact (eqT_iff _ _).mpr rfl
    exact oinv_getW ho hG h4 hit n
  | doneHit p id0 w h hw =>
    rw [h] at hph
    obtain ⟨h1, h2, h3, h4⟩ := hph
    have hG : GetOK o q.time := by
      refine ⟨by simp [h1], by simp [h2], by simp [ho.pend], ?_⟩
      rw [h3]
      exact (eqT_iff _ _).mpr rfl
    have hwp : w ∈ a.puts := hi.sub.subset hw.1
    have hlk : ∀ x ∈ a.items, ¬ keyLt (toW x) (toW w) ∧ w.2.2 ≤ x.2.2 :=
      fun x hx => least_key hi hwp (hi.sub.subset hx) (hw.2 x hx)
    refine ⟨{ o with cand := some (o.waiting, q.time) }, orun_one _ _ _ (by simp [ostep, hG]), ho.aux, ho.pend, ?_,
      ho.auxGe, ho.fl⟩
    refine ⟨h1, ⟨a.items, h4, ?_⟩, ⟨o.waiting, rfl, ?_, ?_⟩, ?_⟩
    · exact erase_eq_filter a.items w ((hi.mono.sublist hi.sub).imp (fun hxy => hxy.1)) hw.1
    · show toW w ∈ o.waiting
      rw [h4]; exact List.mem_map_of_mem hw.1
    · intro w' hw'
      have hw'' : w' ∈ o.waiting := hw'
      rw [h4] at hw''
      obtain ⟨x, hx, rfl⟩ := List.mem_map.mp hw''
      exact (hlk x hx).1
    · show ((o.waiting.filter fun y => flow y.1 = flow w.1).head?.map (·.1)) = some w.1
      rw [h4]
      exact head_of_least a.items w (ho.fl.sublist hi.sub) hw.1 (fun x hx => (hlk x hx).2)
  | pktResume g w h =>
    rw [h] at hph
    obtain ⟨h1, ⟨wl, h2, h3⟩, ⟨l, h4, h5, h6⟩, h7⟩ := hph
    have hok : ServeOK flow o w.1 q.time := by
      unfold ServeOK
      rw [h4]
      exact ⟨by simp [h1], by simp [ho.pend], (eqT_iff _ _).mpr rfl, toW w, h5, rfl, h6, h7⟩
    refine ⟨{ o with waiting := o.waiting.filter (fun y => y.1 ≠ w.1), cand := none, busy := some (w.1, q.time) },
      orun_one _ _ _ (by simp [ostep, hok]), ho.aux, ho.pend, ?_, ho.auxGe, ho.fl⟩
    refine ⟨rfl, rfl, ?_⟩
    show o.waiting.filter (fun y => y.1 ≠ w.1) = a.items.map toW
    rw [h2, h3, List.filter_map]
    rfl
  | sendInit p id h =>
    rw [h] at hph
    obtain ⟨h1, h2, h3⟩ := hph
    exact ⟨o, rfl, ho.aux, ho.pend, ⟨h2, h3, q.time, h1, rfl⟩, ho.auxGe, ho.fl⟩
  | sendFire p t id h =>
    rw [h] at hph
    obtain ⟨h1, h2, s0, h3, h4⟩ := hph
    have hok : OutOK size cfg.rate o id q.time := by
      unfold OutOK
      rw [h3]
      exact ⟨rfl, (eqT_iff _ _).mpr h4⟩
    exact ⟨{ o with busy := none, lastOut := some q.time }, orun_one _ _ _ (by simp [ostep, hok]), ho.aux, ho.pend,
      ⟨rfl, h1, rfl, h2⟩, ho.auxGe, ho.fl⟩
  | srcInit arr h =>
    refine ⟨o, rfl, ho.aux, ho.pend, pho_src _ hph ?_, ho.auxGe, ho.fl⟩
    intro g _ u hu x hx
    rw [srcNext_eid _ _ _ _ x hx]
    exact he u (mem_pend hu)
  | srcEnd h =>
    refine ⟨o, rfl, ho.aux, ho.pend, pho_src _ hph ?_, ho.auxGe, ho.fl⟩
    intro g _ u hu x hx
    simp [SPhase.entries] at hx
  | pendNoop l1 l2 hpe hno =>
    refine ⟨o, rfl, ho.aux, ho.pend, pho_pend _ hph ?_, ho.auxGe, ho.fl⟩
    intro g hg
    by_contra hne
    exact hno ⟨hne, g, hg⟩
  | srcPut id arr h =>
    exact oinv_put hi hq ho h _ rfl _ ⟨q.time, NORMAL, e, n⟩ rfl (n + 1) rfl rfl rfl rfl rfl rfl
  | pendHand g w l1 l2 hpe h hw =>
    rw [h] at hph
    obtain ⟨h1, h2, ⟨t, h3, h4⟩, h5, h6⟩ := hph
    have hit : a.items = [w] := by
      have hm := hw.1
      cases hl : a.items with
      | nil => rw [hl] at hm; cases hm
      | cons x r =>
        rw [hl] at hm h5
        cases r with
        | nil => simp only [List.mem_singleton] at hm; rw [hm]
        | cons y r' => simp at h5
    obtain ⟨h7, h8⟩ := h4 w hw.1
    rw [hit] at h2 h3
    refine ⟨o, rfl, ho.aux, ho.pend, ?_, ho.auxGe, ho.fl⟩
    refine ⟨h1, ⟨[w], h2, by simp [hit]⟩, ⟨[toW w], ?_, by simp, ?_⟩, ?_⟩
    · show o.cand = some ([toW w], q.time)
      rw [h3, h7, h8]; rfl
    · intro w' hw'
      simp only [List.mem_singleton] at hw'
      rw [hw']; exact not_keyLt_self _
    · rw [h2]; simp [toW]

theorem orun_append (o : OSt ℚ) (l1 l2 : List (HEv ℚ)) :
    orun flow size cfg o (l1 ++ l2) = (orun flow size cfg o l1).bind fun o' => orun flow size cfg o' l2 := by
  induction l1 generalizing o with
  | nil => rfl
  | cons x r ih =>
    simp only [List.cons_append, orun]
    cases ostep flow size cfg o x with
    | none => rfl
    | some o' => simp [ih]

/-- the history form: if the oracle has accepted the history so far and stands in `OInv`, it accepts the history after the
step -/
theorem oracle_step_hist {hist : List (HEv ℚ)} (hi : AInv N scale F flow cfg a q.time) (hq : IsMin a q)
    (he : ∀ x ∈ a.entries, x.eid < e) (hr : orun flow size cfg oInit hist = some o) (ho : OInv flow size cfg a q.time o)
    (h : AStep N scale flow size cfg n e a q a' new) :
    ∃ o', orun flow size cfg oInit (hist ++ new) = some o' ∧ OInv flow size cfg a' q.time o' := by
  obtain ⟨o', h1, h2⟩ := oracle_step hi hq he ho h
  exact ⟨o', by rw [orun_append, hr]; exact h1, h2⟩

end VCK
