import OnlVerif.Lemmas.WireKFrame
/-!
# The Wire on the kernel model: kernel steps that run the source (`Wire.put`) and the store's own events
-/

set_option linter.unusedSimpArgs false

namespace WireK
open WireOnK
open TimerK (lookup resume_eq step_eq)

variable {cfg : WireCfg ℚ} {losses delays : List ℚ}
variable {s : KS} {a : A} {q : QEntry ℚ} {rest : List (QEntry ℚ)}

theorem getD_snoc_lt (l : List ℚ) (x : ℚ) (k : Nat) (h : k < l.length) : (l ++ [x]).getD k 0 = l.getD k 0 := by
  simp [List.getD_eq_getElem?_getD, List.getElem?_append_left h]

theorem getD_snoc_eq (l : List ℚ) (x : ℚ) : (l ++ [x]).getD l.length 0 = x := by
  simp [List.getD_eq_getElem?_getD]

/-- the source's `Initialize` event, nothing to send: the generator returns, its process event is triggered -/
theorem kstep_srcInitEnd (fuel : Nat) (hk : KInv s a) (hsrc : a.src = .init q [])
    (hp : popMin s.agenda = some (q, rest)) (hrest : rest.Perm (a.wire.entries ++ a.pend.toList)) :
    ∃ s', step (body cfg losses delays) (fuel + 1) s = .ok s' ∧
      KInv s' { a with src := .ending ⟨q.time, NORMAL, s.eid, 2⟩ } ∧
      s'.now = q.time ∧ outsOf s'.trace = outsOf s.trace ∧ leftsOf s'.trace = leftsOf s.trace := by
  have hsk := hk.src
  rw [hsrc] at hsk
  obtain ⟨hqe, ⟨hkind, hcbs, hout⟩, hproc, ⟨hpk, hpc, hpo⟩⟩ := hsk
  have hcbs0 := hcbs
  have hgs : 3 < s.events.size := KState.lt_of_cbs hcbs
  have h2 : (2 : ℕ) < s.events.size := by omega
  have hres := hk.res
  have hrsz := hk.rsz
  have hwf := openEvent_wf s q rest hk.wf hp
  have hc0 := hk.c0; have hct := hk.ct
  rw [step_eq _ _ _ _ _ _ hp (hqe ▸ hcbs)]
  simp only [List.foldl, runCb]
  rw [resume_eq _ _ _ _ _ _ (show (openEvent s q rest).proc? 2 = _ from hproc)]
  simp only [KState.ev, KState.res] at hkind hcbs hout hres hpk hpc hpo
  wsimp [hqe, hgs, hkind, hcbs, hout, hres, hrsz, Nat.ne_of_lt hgs, Nat.ne_of_lt h2, hpk, hpc, hpo, h2]
  have hfr : ∀ x < s.events.size, (∀ c, (s.ev x).cbs = some c → c ∉ [[Cb.resume 2], []]) → x ≠ 3 ∧ x ≠ 2 := by
    intro x _ hc
    refine ⟨?_, ?_⟩
    · rintro rfl; exact hc _ hcbs0 (by simp)
    · rintro rfl; exact hc _ (by simpa [KState.ev] using hpc) (by simp)
  refine ⟨⟨?_, ?_, ?_, ?_, ?_, ?_, ?_, ?_, ?_⟩, ?_, ?_⟩
  · exact wf_push1 hwf.1 _ rfl rfl rfl rfl (le_refl _)
  · refine (List.Perm.cons _ hrest).trans ?_
    simp only [A.entries, SPhase.entries, List.singleton_append]
    exact List.perm_middle.symm
  · exact hrsz
  · exact hres
  · refine WireEv.frame hk.wire (evFrame_of [[.resume 2], []] ?_) (by decide) (by decide) (by wsimp)
    intro x hx hc; wsimp [Nat.ne_of_lt hx, (hfr x hx hc).1, (hfr x hx hc).2]
  · refine ⟨rfl, ?_⟩
    wsimp [EvIs, h2, hpk, hpc]
  · refine pend_frame hk.pend (evFrame_of [[.resume 2], []] ?_) (by decide)
    intro x hx hc; wsimp [Nat.ne_of_lt hx, (hfr x hx hc).1, (hfr x hx hc).2]
  · wsimp [hc0]
  · intro k hk'
    wsimp [hct k hk']
  · simp [outsOf_push]
  · simp [leftsOf_push]

/-- the source's `Initialize` event: it sleeps until the first arrival -/
theorem kstep_srcInitWait (fuel : Nat) {gap : ℚ} {arr : List ℚ} (hk : KInv s a) (hsrc : a.src = .init q (gap :: arr)) (hgap : 0 ≤ gap)
    (hp : popMin s.agenda = some (q, rest)) (hrest : rest.Perm (a.wire.entries ++ a.pend.toList)) :
    ∃ s', step (body cfg losses delays) (fuel + 1) s = .ok s' ∧
      KInv s' { a with src := .wait 0 arr ⟨q.time + gap, NORMAL, s.eid, s.events.size⟩ } ∧
      s'.now = q.time ∧ outsOf s'.trace = outsOf s.trace ∧ leftsOf s'.trace = leftsOf s.trace := by
  have hsk := hk.src
  rw [hsrc] at hsk
  obtain ⟨hqe, ⟨hkind, hcbs, hout⟩, hproc, ⟨hpk, hpc, hpo⟩⟩ := hsk
  have hcbs0 := hcbs
  have hgs : 3 < s.events.size := KState.lt_of_cbs hcbs
  have h2 : (2 : ℕ) < s.events.size := by omega
  have hres := hk.res
  have hrsz := hk.rsz
  have hwf := openEvent_wf s q rest hk.wf hp
  have hc0 := hk.c0; have hct := hk.ct
  rw [step_eq _ _ _ _ _ _ hp (hqe ▸ hcbs)]
  simp only [List.foldl, runCb]
  rw [resume_eq _ _ _ _ _ _ (show (openEvent s q rest).proc? 2 = _ from hproc)]
  simp only [KState.ev, KState.res] at hkind hcbs hout hres hpk hpc hpo
  wsimp [hqe, hgs, hkind, hcbs, hout, hres, hrsz, Nat.ne_of_lt hgs, Nat.ne_of_lt h2, hpk, hpc, hpo, h2, hgap]
  have hfr : ∀ x < s.events.size, (∀ c, (s.ev x).cbs = some c → c ∉ [[Cb.resume 2]]) → x ≠ 3 := by
    intro x _ hc; rintro rfl; exact hc _ hcbs0 (by simp)
  refine ⟨⟨?_, ?_, ?_, ?_, ?_, ?_, ?_, ?_, ?_⟩, ?_, ?_⟩
  · exact wf_push1 hwf.1 _ rfl rfl rfl rfl (by show q.time ≤ q.time + gap; linarith)
  · refine (List.Perm.cons _ hrest).trans ?_
    simp only [A.entries, SPhase.entries, List.singleton_append]
    exact List.perm_middle.symm
  · exact hrsz
  · exact hres
  · refine WireEv.frame hk.wire (evFrame_of [[.resume 2]] ?_) (by decide) (by decide) (by wsimp)
    frame_ev hfr
  · refine ⟨?_, ?_, ?_⟩
    · wsimp [EvIs]
    · wsimp
    · wsimp [EvIs, Nat.ne_of_lt h2, hpk, hpc, hpo]
  · refine pend_frame hk.pend (evFrame_of [[.resume 2]] ?_) (by decide)
    frame_ev hfr
  · wsimp [hc0]
  · intro k hk'
    wsimp [hct k hk']
  · simp [outsOf_push]
  · simp [leftsOf_push]

/-- the last arrival: the source's timeout fires, `Wire.put(packet)`, the generator returns -/
theorem kstep_srcPutEnd (fuel : Nat) {next : Nat} (hk : KInv s a) (hsrc : a.src = .wait next [] q) (hn : a.pend = none) (hnext : next = a.cts.length)
    (hp : popMin s.agenda = some (q, rest)) (hrest : rest.Perm (a.wire.entries ++ a.pend.toList)) :
    ∃ s', step (body cfg losses delays) (fuel + 1) s = .ok s' ∧
      KInv s' { a with src := .ending ⟨q.time, NORMAL, s.eid + 1, 2⟩, pend := some ⟨q.time, NORMAL, s.eid, s.events.size⟩,
                       items := a.items ++ [(next : Int)], cts := a.cts ++ [q.time] } ∧
      s'.now = q.time ∧ outsOf s'.trace = outsOf s.trace ∧ leftsOf s'.trace = leftsOf s.trace := by
  have hsk := hk.src
  rw [hsrc] at hsk
  obtain ⟨⟨hkind, hcbs, hout⟩, hproc, ⟨hpk, hpc, hpo⟩⟩ := hsk
  have hcbs0 := hcbs
  have hpc0 := hpc
  have hgs : q.ev < s.events.size := KState.lt_of_cbs hcbs
  have h2 : (2 : ℕ) < s.events.size := KState.lt_of_cbs hpc
  have hne2 : q.ev ≠ 2 := by rintro h; rw [h] at hkind; rw [hkind] at hpk; cases hpk
  have hres := hk.res
  have hrsz := hk.rsz
  have hwf := openEvent_wf s q rest hk.wf hp
  have hc0 := hk.c0; have hct := hk.ct
  rw [step_eq _ _ _ _ _ _ hp (hcbs)]
  simp only [List.foldl, runCb]
  rw [resume_eq _ _ _ _ _ _ (show (openEvent s q rest).proc? 2 = _ from hproc)]
  simp only [KState.ev, KState.res] at hkind hcbs hout hres hpk hpc hpo
  wsimp [hgs, hkind, hcbs, hout, hres, hrsz, Nat.ne_of_lt hgs, Nat.ne_of_lt h2, hne2, Ne.symm hne2, hpk, hpc, hpo, hc0, h2]
  have hfr : ∀ x < s.events.size, (∀ c, (s.ev x).cbs = some c → c ∉ [[Cb.resume 2], []]) → x ≠ q.ev ∧ x ≠ 2 := by
    intro x _ hc
    refine ⟨?_, ?_⟩
    · rintro rfl; exact hc _ hcbs0 (by simp)
    · rintro rfl; exact hc _ hpc0 (by simp)
  refine ⟨⟨?_, ?_, ?_, ?_, ?_, ?_, ?_, ?_, ?_⟩, ?_, ?_⟩
  · exact wf_push2 hwf.1 _ _ rfl rfl rfl rfl rfl (le_refl _) (le_refl _)
  · rw [hn] at hrest
    simp only [A.entries, SPhase.entries, Option.toList, List.append_nil] at hrest ⊢
    refine ((List.Perm.cons _ hrest).cons _).trans ?_
    exact (List.perm_append_comm (l₁ := [_, _]) (l₂ := a.wire.entries))
  · wsimp [hrsz]
  · wsimp [hrsz]
  · refine WireEv.frame hk.wire (evFrame_of [[.resume 2], []] ?_) (by decide) (by decide) (by wsimp)
    intro x hx hc; wsimp [Nat.ne_of_lt hx, (hfr x hx hc).1, (hfr x hx hc).2]
  · refine ⟨rfl, ?_⟩
    wsimp [EvIs, h2, Nat.lt_succ_of_lt h2, hpk, hpc, Nat.ne_of_lt h2, Ne.symm hne2]
  · intro u hu
    simp only [Option.some.injEq] at hu
    subst hu
    wsimp [EvIs, Nat.ne_of_gt h2]
  · have h0 : ¬ 0 = 10 + a.cts.length := by omega
    wsimp [hnext, h0]
  · intro k hk'
    simp only [List.length_append, List.length_singleton] at hk'
    rcases Nat.lt_succ_iff_lt_or_eq.mp hk' with hlt | heq
    · have hne : ¬ 10 + a.cts.length = 10 + k := by omega
      have hne' : ¬ 10 + k = 10 + a.cts.length := by omega
      have h0 : ¬ 10 + k = 0 := by omega
      have h0' : ¬ 0 = 10 + k := by omega
      wsimp [hct k hlt, List.getElem?_append_left hlt, hne, hne', h0, h0', hnext, Nat.ne_of_lt hlt, Nat.ne_of_gt hlt]
    · subst heq
      wsimp [hnext]
  · simp [outsOf_push]
  · simp [leftsOf_push]

/-- an arrival: the source's timeout fires, `Wire.put(packet)`, then it sleeps until the next arrival -/
theorem kstep_srcPutWait (fuel : Nat) {next : Nat} {gap : ℚ} {arr : List ℚ} (hk : KInv s a) (hsrc : a.src = .wait next (gap :: arr) q) (hn : a.pend = none) (hnext : next = a.cts.length) (hgap : 0 ≤ gap)
    (hp : popMin s.agenda = some (q, rest)) (hrest : rest.Perm (a.wire.entries ++ a.pend.toList)) :
    ∃ s', step (body cfg losses delays) (fuel + 1) s = .ok s' ∧
      KInv s' { a with src := .wait (next + 1) arr ⟨q.time + gap, NORMAL, s.eid + 1, s.events.size + 1⟩,
                       pend := some ⟨q.time, NORMAL, s.eid, s.events.size⟩, items := a.items ++ [(next : Int)], cts := a.cts ++ [q.time] } ∧
      s'.now = q.time ∧ outsOf s'.trace = outsOf s.trace ∧ leftsOf s'.trace = leftsOf s.trace := by
  have hsk := hk.src
  rw [hsrc] at hsk
  obtain ⟨⟨hkind, hcbs, hout⟩, hproc, ⟨hpk, hpc, hpo⟩⟩ := hsk
  have hcbs0 := hcbs
  have hpc0 := hpc
  have hgs : q.ev < s.events.size := KState.lt_of_cbs hcbs
  have h2 : (2 : ℕ) < s.events.size := KState.lt_of_cbs hpc
  have hne2 : q.ev ≠ 2 := by rintro h; rw [h] at hkind; rw [hkind] at hpk; cases hpk
  have hres := hk.res
  have hrsz := hk.rsz
  have hwf := openEvent_wf s q rest hk.wf hp
  have hc0 := hk.c0; have hct := hk.ct
  rw [step_eq _ _ _ _ _ _ hp (hcbs)]
  simp only [List.foldl, runCb]
  rw [resume_eq _ _ _ _ _ _ (show (openEvent s q rest).proc? 2 = _ from hproc)]
  simp only [KState.ev, KState.res] at hkind hcbs hout hres hpk hpc hpo
  wsimp [hgs, hkind, hcbs, hout, hres, hrsz, Nat.ne_of_lt hgs, Nat.ne_of_lt h2, hne2, Ne.symm hne2, hpk, hpc, hpo, hc0, h2, hgap, Nat.ne_of_lt (Nat.lt_succ_of_lt hgs)]
  have hfr : ∀ x < s.events.size, (∀ c, (s.ev x).cbs = some c → c ∉ [[Cb.resume 2]]) → x ≠ q.ev := by
    intro x _ hc; rintro rfl; exact hc _ hcbs0 (by simp)
  refine ⟨⟨?_, ?_, ?_, ?_, ?_, ?_, ?_, ?_, ?_⟩, ?_, ?_⟩
  · exact wf_push2 hwf.1 _ _ rfl rfl rfl rfl rfl (by show q.time ≤ q.time + gap; linarith) (le_refl _)
  · rw [hn] at hrest
    simp only [A.entries, SPhase.entries, Option.toList, List.append_nil] at hrest ⊢
    refine ((List.Perm.cons _ hrest).cons _).trans ?_
    exact (List.perm_append_comm (l₁ := [_, _]) (l₂ := a.wire.entries))
  · wsimp [hrsz]
  · wsimp [hrsz]
  · refine WireEv.frame hk.wire (evFrame_of [[.resume 2]] ?_) (by decide) (by decide) (by wsimp)
    frame_ev hfr
  · refine ⟨?_, ?_, ?_⟩
    · wsimp [EvIs]
    · wsimp
    · have h2' : (2 : ℕ) ≠ s.events.size + 1 := by omega
      wsimp [EvIs, Nat.ne_of_lt h2, h2', Ne.symm hne2, hpk, hpc, hpo]
  · intro u hu
    simp only [Option.some.injEq] at hu
    subst hu
    wsimp [EvIs]
  · have h0 : ¬ 0 = 10 + a.cts.length := by omega
    wsimp [hnext, h0]
  · intro k hk'
    simp only [List.length_append, List.length_singleton] at hk'
    rcases Nat.lt_succ_iff_lt_or_eq.mp hk' with hlt | heq
    · have hne : ¬ 10 + a.cts.length = 10 + k := by omega
      have hne' : ¬ 10 + k = 10 + a.cts.length := by omega
      have h0 : ¬ 10 + k = 0 := by omega
      have h0' : ¬ 0 = 10 + k := by omega
      wsimp [hct k hlt, List.getElem?_append_left hlt, hne, hne', h0, h0', hnext, Nat.ne_of_lt hlt, Nat.ne_of_gt hlt]
    · subst heq
      wsimp [hnext]
  · simp [outsOf_push]
  · simp [leftsOf_push]

/-- the process event of the finished source is processed: nothing happens -/
theorem kstep_srcEnd (fuel : Nat) (hk : KInv s a) (hsrc : a.src = .ending q)
    (hp : popMin s.agenda = some (q, rest)) (hrest : rest.Perm (a.wire.entries ++ a.pend.toList)) :
    ∃ s', step (body cfg losses delays) (fuel + 1) s = .ok s' ∧ KInv s' { a with src := .done } ∧
      s'.now = q.time ∧ outsOf s'.trace = outsOf s.trace ∧ leftsOf s'.trace = leftsOf s.trace := by
  have hsk := hk.src
  rw [hsrc] at hsk
  obtain ⟨hqe, ⟨hkind, hcbs, hout⟩⟩ := hsk
  have hcbs0 := hcbs
  have hgs : 2 < s.events.size := KState.lt_of_cbs hcbs
  have hres := hk.res
  have hrsz := hk.rsz
  have hwf := openEvent_wf s q rest hk.wf hp
  have hc0 := hk.c0; have hct := hk.ct
  rw [step_eq _ _ _ _ _ _ hp (hqe ▸ hcbs)]
  simp only [KState.ev, KState.res] at hkind hcbs hout hres
  wsimp [hqe, hgs, hkind, hcbs, hout, hres, hrsz]
  have hfr : ∀ x < s.events.size, (∀ c, (s.ev x).cbs = some c → c ∉ [([] : List Cb)]) → x ≠ 2 := by
    intro x _ hc; rintro rfl; exact hc _ hcbs0 (by simp)
  refine ⟨wf_same hwf.1 rfl rfl rfl, ?_, hrsz, hres, ?_, trivial, ?_, hc0, hct⟩
  · simpa [A.entries, SPhase.entries] using hrest
  · refine WireEv.frame hk.wire (evFrame_of [[]] ?_) (by decide) (by decide) rfl
    frame_ev hfr
  · refine pend_frame hk.pend (evFrame_of [[]] ?_) (by decide)
    frame_ev hfr

/-- the `StorePut` event is processed (`_trigger_get`) and nobody waits for its item, or the waiting server finds the
store empty: nothing happens -/
theorem kstep_putIdle (fuel : Nat) (hk : KInv s a) (hpe : a.pend = some q) (hw : a.wire.getQ = [] ∨ a.items = [])
    (hp : popMin s.agenda = some (q, rest)) (hrest : rest.Perm (a.wire.entries ++ a.src.entries)) :
    ∃ s', step (body cfg losses delays) (fuel + 1) s = .ok s' ∧ KInv s' { a with pend := none } ∧
      s'.now = q.time ∧ outsOf s'.trace = outsOf s.trace ∧ leftsOf s'.trace = leftsOf s.trace := by
  obtain ⟨hkind, hcbs, hout⟩ := hk.pend q hpe
  have hcbs0 := hcbs
  have hgs : q.ev < s.events.size := KState.lt_of_cbs hcbs
  have hres := hk.res
  have hrsz := hk.rsz
  have hwf := openEvent_wf s q rest hk.wf hp
  have hc0 := hk.c0; have hct := hk.ct
  have htg : triggerGet (openEvent s q rest) 0 = openEvent s q rest := by
    cases hwire : a.wire with
    | W g t0 nl nd =>
      have hpk := hk.wire
      rw [hwire] at hpk
      have hit : a.items = [] := by
        rcases hw with hw | hw
        · simp [hwire, WPhase.getQ] at hw
        · exact hw
      have hne : g ≠ q.ev := by
        rintro rfl
        have := hpk.1.2.1
        rw [hcbs] at this
        cases this
      refine triggerGet_empty _ g ?_ ?_ ?_ ?_
      · show (s.res 0).kind = .store; rw [hres]; rfl
      · show (s.res 0).getQ = [g]; rw [hres, hwire]; rfl
      · show (s.res 0).items = []; rw [hres, hit]; rfl
      · have := hpk.1.2.2
        simp only [KState.ev] at this
        wsimp [hne, this]
    | init q0 => exact triggerGet_none _ (by show (s.res 0).getQ = []; rw [hres, hwire]; rfl)
    | H g i q0 t0 nl nd => exact triggerGet_none _ (by show (s.res 0).getQ = []; rw [hres, hwire]; rfl)
    | T t i q0 nl nd => exact triggerGet_none _ (by show (s.res 0).getQ = []; rw [hres, hwire]; rfl)
  rw [step_eq _ _ _ _ _ _ hp hcbs]
  simp only [List.foldl, runCb]
  rw [htg]
  simp only [KState.ev, KState.res] at hkind hcbs hout hres
  wsimp [hgs, hkind, hcbs, hout, hres, hrsz]
  have hfr : ∀ x < s.events.size, (∀ c, (s.ev x).cbs = some c → c ∉ [[Cb.trigGet 0]]) → x ≠ q.ev := by
    intro x _ hc; rintro rfl; exact hc _ hcbs0 (by simp)
  refine ⟨wf_same hwf.1 rfl rfl rfl, ?_, hrsz, hres, ?_, ?_, ?_, hc0, hct⟩
  · simpa [A.entries] using hrest
  · refine WireEv.frame hk.wire (evFrame_of [[.trigGet 0]] ?_) (by decide) (by decide) rfl
    frame_ev hfr
  · refine SrcEv.frame hk.src (evFrame_of [[.trigGet 0]] ?_) (by decide) (by decide) rfl
    frame_ev hfr
  · intro u hu; cases hu

/-- the `StorePut` event is processed (`_trigger_get`): the head item is handed to the waiting server, whose
`StoreGet` event is triggered -/
theorem kstep_putHand (fuel : Nat) {g : EvId} {t0 : ℚ} {nl nd : Nat} {i : Int} {is : List Int} (hk : KInv s a)
    (hpe : a.pend = some q) (hwire : a.wire = .W g t0 nl nd) (hit : a.items = i :: is)
    (hp : popMin s.agenda = some (q, rest)) (hrest : rest.Perm (a.wire.entries ++ a.src.entries)) :
    ∃ s', step (body cfg losses delays) (fuel + 1) s = .ok s' ∧
      KInv s' { a with pend := none, wire := .H g i ⟨q.time, NORMAL, s.eid, g⟩ t0 nl nd, items := is } ∧
      s'.now = q.time ∧ outsOf s'.trace = outsOf s.trace ∧ leftsOf s'.trace = leftsOf s.trace := by
  obtain ⟨hkind, hcbs, hout⟩ := hk.pend q hpe
  have hcbs0 := hcbs
  have hgs : q.ev < s.events.size := KState.lt_of_cbs hcbs
  have hres := hk.res
  have hrsz := hk.rsz
  have hwf := openEvent_wf s q rest hk.wf hp
  have hc0 := hk.c0; have hct := hk.ct
  have hpk := hk.wire
  rw [hwire] at hpk
  obtain ⟨⟨hgk, hgc, hgo⟩, hproc⟩ := hpk
  have hgc0 := hgc
  have hgg : g < s.events.size := KState.lt_of_cbs hgc
  have hne : g ≠ q.ev := by
    rintro rfl
    rw [hcbs] at hgc
    cases hgc
  rw [step_eq _ _ _ _ _ _ hp hcbs]
  simp only [List.foldl, runCb]
  rw [triggerGet_hand (openEvent s q rest) g i is hrsz (by simpa [openEvent] using hgg)
    (by show (s.res 0).kind = .store; rw [hres]; rfl) (by show (s.res 0).getQ = [g]; rw [hres, hwire]; rfl)
    (by show (s.res 0).items = i :: is; rw [hres, hit]; rfl)]
  simp only [KState.ev, KState.res] at hkind hcbs hout hres hgk hgc hgo
  wsimp [hgs, hgg, hkind, hcbs, hout, hres, hrsz, hne, Ne.symm hne, hgk, hgc, hgo]
  have hfr : ∀ x < s.events.size, (∀ c, (s.ev x).cbs = some c → c ∉ [[Cb.trigGet 0], [Cb.trigPut 0, Cb.resume 0]]) →
      x ≠ q.ev ∧ x ≠ g := by
    intro x _ hc
    refine ⟨?_, ?_⟩
    · rintro rfl; exact hc _ hcbs0 (by simp)
    · rintro rfl; exact hc _ hgc0 (by simp)
  refine ⟨?_, ?_, ?_, ?_, ?_, ?_, ?_, hc0, hct⟩
  · exact wf_push1 hwf.1 _ rfl rfl rfl rfl (le_refl _)
  · rw [hwire] at hrest
    simp only [A.entries, WPhase.entries, Option.toList, List.append_nil, List.nil_append, List.singleton_append] at hrest ⊢
    exact List.Perm.cons _ hrest
  · wsimp [hrsz]
  · wsimp [hrsz, hwire, hit, WPhase.getQ]
  · refine ⟨rfl, ?_, hproc⟩
    wsimp [EvIs, hgg, hne, hgs, hgk, hgc]
  · refine SrcEv.frame hk.src (evFrame_of [[.trigGet 0], [.trigPut 0, .resume 0]] ?_) (by decide) (by decide) rfl
    intro x hx hc; wsimp [Nat.ne_of_lt hx, (hfr x hx hc).1, (hfr x hx hc).2]
  · intro u hu; cases hu

end WireK
