import OnlVerif.Lemmas.GenScalar
import OnlVerif.Lemmas.SchedDRRProps
import OnlVerif.Generated.Drr
/-!
# Bridge between the *generated* DRR fragments and the hand-written DRR model (`Net/Sched/DRR.lean`)

`Generated/Drr.lean` is rewritten from `onl/scheduler/drr.py` on every `./check C15`: the per-class initialisation
(`quantum = MIN_QUANTUM * weight / min_weight`), the first statement of a visit, the two guards of the inner loop, the
booking after a transmission, and `put` — all *seen from one class* (`GenDrr.drrObj d q n`: credit, quantum and
`class_count` of that class).  The model keeps the dicts as association lists.  Over exact rationals.
-/

namespace GenDrr
open MQ

/-- the `DRR` object seen from a class with credit `d`, quantum `q`, `class_count` `n` -/
def drrObj (d q : ℚ) (n qc : Int) (e1 e2 e3 : Nat) : Gen.DrrObj ℚ :=
  { deficit := d, quantum := q, class_count := n, queue_count := qc, eff_wake := e1, eff_add_packet_to_queue := e2,
    eff_store_put := e3 }

/-- `__init__`: zero credit and counts, quantum `MIN_QUANTUM·w / min weight` -/
theorem init_class_eq (cfg : DRR.Cfg ℚ) (w : Nat) (d q : ℚ) (n qc : Int) (e1 e2 e3 : Nat) :
    Gen.DRR.init_class (drrObj d q n qc e1 e2 e3) w (DRR.minWeight cfg.weights) =
      drrObj 0 (DRR.quantumW cfg w) 0 0 e1 e2 e3 := by
  unfold Gen.DRR.init_class DRR.quantumW drrObj
  simp only [Num.ofInt_rat, Num.ofNat_rat', Gen.DrrObj.mk.injEq, and_true]
  push_cast
  exact ⟨rfl, by ring⟩

theorem run_visit_eq (d q : ℚ) (n qc : Int) (e1 e2 e3 : Nat) :
    Gen.DRR.run_visit (drrObj d q n qc e1 e2 e3) n = drrObj (if 0 < n then d + q else d) q n qc e1 e2 e3 := by
  unfold Gen.DRR.run_visit drrObj
  split <;> rfl

theorem run_inner_guard_eq (d q : ℚ) (n qc : Int) (e1 e2 e3 : Nat) :
    Gen.DRR.run_inner_guard (drrObj d q n qc e1 e2 e3) = decide ((Num.zero : ℚ) < d ∧ 0 < n) := by
  unfold Gen.DRR.run_inner_guard drrObj
  rfl

theorem run_send_guard_eq (d q : ℚ) (n qc : Int) (e1 e2 e3 : Nat) (p : MPkt) :
    Gen.DRR.run_send_guard (drrObj d q n qc e1 e2 e3) p.size = decide ((Num.ofNat p.size : ℚ) ≤ d) := by
  unfold Gen.DRR.run_send_guard drrObj
  rfl

theorem run_book_eq (d q : ℚ) (n qc : Int) (e1 e2 e3 : Nat) (p : MPkt) :
    Gen.DRR.run_book (drrObj d q n qc e1 e2 e3) p.size =
      drrObj (if n - 1 = 0 then 0 else d - p.size) q (n - 1) qc e1 e2 e3 := by
  unfold Gen.DRR.run_book drrObj
  simp only [Num.ofInt_rat, Num.ofNat_rat', Int.cast_natCast, Nat.cast_zero]
  split <;> rfl

theorem put_eq (d q : ℚ) (n qc total : Int) (e1 e2 e3 : Nat) :
    Gen.DRR.put (drrObj d q n qc e1 e2 e3) total =
      drrObj d q (n + 1) qc (e1 + if total = 0 then 1 else 0) (e2 + 1) (e3 + 1) := by
  unfold Gen.DRR.put drrObj
  split <;> rfl

end GenDrr
