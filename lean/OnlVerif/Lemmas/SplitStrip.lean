import OnlVerif.Lemmas.SplitAttr
import OnlVerif.Lemmas.KAccess
/-!
# Erasing `StopSimulation.callback` from callback lists (C03, stage 2): definitions, leaf updates, reads

`run(until=event)` differs from the uninterrupted run in exactly one respect: the callback list of the until-event
holds one more entry, `Cb.stop`.  `KState.stripBy P` erases every `.stop` from the callback lists of the events
selected by `P` and leaves everything else alone; `StopEq P s1 s2` says that `s1` and `s2` are equal up to such entries.

This file shows that every *leaf update* of the model commutes with the erasure (as long as the callback it adds or
removes is not `.stop` — the model itself never registers or removes `.stop`; only `run(until=…)` does) and that every
*read* the model branches on returns the same value before and after the erasure.  `SplitStripOps.lean` and
`SplitStripStep.lean` then walk the model.  Core Lean only; everything holds for every scalar type.
-/

variable {τ σ : Type}

/-- remove every `StopSimulation.callback` from a callback list -/
def stripCbs (l : List Cb) : List Cb := l.filter (· != .stop)

namespace EvRec
/-- the event record without its stop callbacks -/
def strip (r : EvRec τ) : EvRec τ := { r with cbs := r.cbs.map stripCbs }
def stripIf (b : Bool) (r : EvRec τ) : EvRec τ := if b then r.strip else r
end EvRec

namespace KState
/-- erase the stop callbacks of the events selected by `P` -/
def stripBy (P : EvId → Bool) (s : KState τ σ) : KState τ σ :=
  { s with events := s.events.mapIdx (fun i r => EvRec.stripIf (P i) r) }

/-- erase every stop callback -/
abbrev strip (s : KState τ σ) : KState τ σ := s.stripBy (fun _ => true)

/-- does the callback list of `e` hold a stop? -/
def hasStop (s : KState τ σ) (e : EvId) : Bool :=
  match (s.ev e).cbs with
  | some l => l.contains .stop
  | none => false
end KState

/-- **the relation of the simulation**: `s2` is `s1` except that callback lists of the events selected by `P` may hold
additional `.stop` entries at arbitrary positions, in either state -/
def StopEq (P : EvId → Bool) (s1 s2 : KState τ σ) : Prop := s1.stripBy P = s2.stripBy P

/-- no event selected by `P` carries a stop callback -/
def StopFree (P : EvId → Bool) (s : KState τ σ) : Prop := s.stripBy P = s

/-! ## lists -/

theorem stripCbs_append_single (l : List Cb) (cb : Cb) (h : cb ≠ .stop) : stripCbs (l ++ [cb]) = stripCbs l ++ [cb] := by
  unfold stripCbs
  rw [List.filter_append]
  congr 1
  simp [h]

theorem stripCbs_erase (l : List Cb) (cb : Cb) (h : cb ≠ .stop) : stripCbs (l.erase cb) = (stripCbs l).erase cb := by
  unfold stripCbs
  induction l with
  | nil => rfl
  | cons x xs ih =>
    by_cases hx : x = cb
    · subst hx
      simp [h]
    · have hx' : (x == cb) = false := by simpa using hx
      rw [List.erase_cons_tail (by simp [hx])]
      by_cases hs : x = .stop
      · subst hs
        simpa using ih
      · have : (x != Cb.stop) = true := by simpa using hs
        simp only [List.filter_cons, this, if_true]
        rw [List.erase_cons_tail (by simp [hx]), ih]

theorem stripCbs_contains (l : List Cb) (cb : Cb) (h : cb ≠ .stop) : (stripCbs l).contains cb = l.contains cb := by
  unfold stripCbs
  rw [Bool.eq_iff_iff]
  simp only [List.contains_iff_mem, List.mem_filter]
  constructor
  · exact fun h => h.1
  · intro hm; exact ⟨hm, by simpa using h⟩

theorem stripCbs_idem (l : List Cb) : stripCbs (stripCbs l) = stripCbs l := by
  unfold stripCbs; rw [List.filter_filter]; simp

theorem stripCbs_not_mem (l : List Cb) : Cb.stop ∉ stripCbs l := by
  unfold stripCbs; simp

theorem stripCbs_eq_self (l : List Cb) (h : Cb.stop ∉ l) : stripCbs l = l := by
  unfold stripCbs
  rw [List.filter_eq_self]
  intro a ha
  have : a ≠ Cb.stop := fun hc => h (hc ▸ ha)
  simpa using this

/-! ## records -/

namespace EvRec

theorem stripIf_default (b : Bool) : (default : EvRec τ).stripIf b = default := by cases b <;> rfl
@[kstrip] theorem stripIf_out (b : Bool) (r : EvRec τ) : (r.stripIf b).out = r.out := by cases b <;> rfl
@[kstrip] theorem stripIf_kind (b : Bool) (r : EvRec τ) : (r.stripIf b).kind = r.kind := by cases b <;> rfl
@[kstrip] theorem stripIf_defused (b : Bool) (r : EvRec τ) : (r.stripIf b).defused = r.defused := by cases b <;> rfl
@[kstrip] theorem stripIf_count (b : Bool) (r : EvRec τ) : (r.stripIf b).count = r.count := by cases b <;> rfl
@[kstrip] theorem stripIf_label (b : Bool) (r : EvRec τ) : (r.stripIf b).label = r.label := by cases b <;> rfl
@[kstrip] theorem stripIf_req (b : Bool) (r : EvRec τ) : (r.stripIf b).req = r.req := by cases b <;> rfl
@[kstrip] theorem stripIf_cbs_isNone (b : Bool) (r : EvRec τ) : (r.stripIf b).cbs.isNone = r.cbs.isNone := by
  cases b
  · rfl
  · show (r.cbs.map stripCbs).isNone = _
    cases r.cbs <;> rfl

theorem stripIf_idem (b : Bool) (r : EvRec τ) : (r.stripIf b).stripIf b = r.stripIf b := by
  cases b
  · rfl
  · show ({ r with cbs := (r.cbs.map stripCbs).map stripCbs } : EvRec τ) = _
    cases h : r.cbs with
    | none => simp [stripIf, strip, h]
    | some l => simp [stripIf, strip, h, stripCbs_idem]

end EvRec

/-! ## the state: reads -/

namespace KState
variable (P : EvId → Bool) (s : KState τ σ)

@[kstrip] theorem stripBy_now : (s.stripBy P).now = s.now := rfl
@[kstrip] theorem stripBy_agenda : (s.stripBy P).agenda = s.agenda := rfl
@[kstrip] theorem stripBy_eid : (s.stripBy P).eid = s.eid := rfl
@[kstrip] theorem stripBy_procs : (s.stripBy P).procs = s.procs := rfl
@[kstrip] theorem stripBy_active : (s.stripBy P).active = s.active := rfl
@[kstrip] theorem stripBy_trace : (s.stripBy P).trace = s.trace := rfl
@[kstrip] theorem stripBy_shared : (s.stripBy P).shared = s.shared := rfl
@[kstrip] theorem stripBy_resources : (s.stripBy P).resources = s.resources := rfl
@[kstrip] theorem stripBy_nlabel : (s.stripBy P).nlabel = s.nlabel := rfl
@[kstrip] theorem stripBy_size : (s.stripBy P).events.size = s.events.size := by simp [stripBy]
@[kstrip] theorem stripBy_proc? (p : EvId) : (s.stripBy P).proc? p = s.proc? p := rfl
@[kstrip] theorem stripBy_res (r : ResId) : (s.stripBy P).res r = s.res r := rfl

theorem ev_stripBy (e : EvId) : (s.stripBy P).ev e = (s.ev e).stripIf (P e) := by
  simp only [KState.ev, KState.stripBy, Array.getD_eq_getD_getElem?, Array.getElem?_mapIdx]
  cases s.events[e]? with
  | none => exact (EvRec.stripIf_default _).symm
  | some r => rfl

@[kstrip] theorem stripBy_out (e : EvId) : ((s.stripBy P).ev e).out = (s.ev e).out := by rw [ev_stripBy, EvRec.stripIf_out]
@[kstrip] theorem stripBy_kind (e : EvId) : ((s.stripBy P).ev e).kind = (s.ev e).kind := by rw [ev_stripBy, EvRec.stripIf_kind]
@[kstrip] theorem stripBy_defused (e : EvId) : ((s.stripBy P).ev e).defused = (s.ev e).defused := by
  rw [ev_stripBy, EvRec.stripIf_defused]
@[kstrip] theorem stripBy_count (e : EvId) : ((s.stripBy P).ev e).count = (s.ev e).count := by rw [ev_stripBy, EvRec.stripIf_count]
@[kstrip] theorem stripBy_label (e : EvId) : ((s.stripBy P).ev e).label = (s.ev e).label := by rw [ev_stripBy, EvRec.stripIf_label]
@[kstrip] theorem stripBy_req (e : EvId) : ((s.stripBy P).ev e).req = (s.ev e).req := by rw [ev_stripBy, EvRec.stripIf_req]
@[kstrip] theorem stripBy_triggered (e : EvId) : (s.stripBy P).triggered e = s.triggered e := by
  unfold triggered; rw [stripBy_out]
@[kstrip] theorem stripBy_processed (e : EvId) : (s.stripBy P).processed e = s.processed e := by
  unfold processed; rw [ev_stripBy, EvRec.stripIf_cbs_isNone]

theorem stripBy_cbs (e : EvId) : ((s.stripBy P).ev e).cbs = if P e then (s.ev e).cbs.map stripCbs else (s.ev e).cbs := by
  rw [ev_stripBy]; unfold EvRec.stripIf; split <;> rfl

/-! ## the state: leaf updates -/

theorem stripBy_setEv (e : EvId) (r : EvRec τ) : (s.setEv e r).stripBy P = (s.stripBy P).setEv e (r.stripIf (P e)) := by
  simp only [KState.setEv, KState.stripBy]
  congr 1
  apply Array.ext_getElem?
  intro i
  simp only [Array.getElem?_mapIdx, Array.getElem?_setIfInBounds, Array.size_mapIdx]
  split
  · split
    · rename_i h _; subst h; rfl
    · rfl
  · rfl

theorem stripBy_push (r : EvRec τ) (h : r.strip = r) :
    (s.events.push r).mapIdx (fun i r => EvRec.stripIf (P i) r) = (s.events.mapIdx (fun i r => EvRec.stripIf (P i) r)).push r := by
  apply Array.ext_getElem?
  intro i
  simp only [Array.getElem?_mapIdx, Array.getElem?_push, Array.size_mapIdx]
  split
  · show some (EvRec.stripIf _ r) = _
    unfold EvRec.stripIf; split <;> simp [h]
  · rfl

theorem newEv_stripBy (r : EvRec τ) (h : r.strip = r) : (s.stripBy P).newEv r = ((s.newEv r).1.stripBy P, (s.newEv r).2) := by
  simp only [KState.newEv, KState.stripBy, stripBy_push P s r h, Array.size_mapIdx]

theorem newLabelled_stripBy (r : EvRec τ) (h : r.strip = r) :
    (s.stripBy P).newLabelled r = ((s.newLabelled r).1.stripBy P, (s.newLabelled r).2) := by
  have h' : ({ r with label := s.nlabel + 1 } : EvRec τ).strip = { r with label := s.nlabel + 1 } := by
    have := congrArg EvRec.cbs h
    simp only [EvRec.strip] at this ⊢
    rw [this]
  simp only [KState.newLabelled, KState.stripBy, stripBy_push P s _ h', Array.size_mapIdx]

@[kstrip] theorem schedule_stripBy [Num τ] (e : EvId) (p : Nat) (d : τ) :
    (s.stripBy P).schedule e p d = (s.schedule e p d).stripBy P := rfl
@[kstrip] theorem scheduleAt_stripBy [Num τ] (e : EvId) (p : Nat) (t : τ) :
    (s.stripBy P).scheduleAt e p t = (s.scheduleAt e p t).stripBy P := rfl
@[kstrip] theorem emit_stripBy (o : Obs τ) : (s.stripBy P).emit o = (s.emit o).stripBy P := rfl
@[kstrip] theorem setProc_stripBy (p : EvId) (r : ProcRec σ) : (s.stripBy P).setProc p r = (s.setProc p r).stripBy P := rfl
@[kstrip] theorem setRes_stripBy (r : ResId) (x : ResRec) : (s.stripBy P).setRes r x = (s.setRes r x).stripBy P := rfl
@[kstrip] theorem setUsers_stripBy (r : ResId) (l : List EvId) : (s.stripBy P).setUsers r l = (s.setUsers r l).stripBy P := rfl
@[kstrip] theorem setLevel_stripBy (r : ResId) (x : Int) : (s.stripBy P).setLevel r x = (s.setLevel r x).stripBy P := rfl
@[kstrip] theorem setItems_stripBy (r : ResId) (l : List Int) : (s.stripBy P).setItems r l = (s.setItems r l).stripBy P := rfl
@[kstrip] theorem setPutQ_stripBy (r : ResId) (l : List EvId) : (s.stripBy P).setPutQ r l = (s.setPutQ r l).stripBy P := rfl
@[kstrip] theorem setGetQ_stripBy (r : ResId) (l : List EvId) : (s.stripBy P).setGetQ r l = (s.setGetQ r l).stripBy P := rfl
@[kstrip] theorem withActive_stripBy (a : Option EvId) :
    ({ s.stripBy P with active := a } : KState τ σ) = ({ s with active := a } : KState τ σ).stripBy P := rfl
@[kstrip] theorem withShared_stripBy (l : List (Nat × Val)) :
    ({ s.stripBy P with shared := l } : KState τ σ) = ({ s with shared := l } : KState τ σ).stripBy P := rfl

/-- structure updates `{ s with active := …, shared := …, now := …, agenda := … }` that keep the events -/
@[kstrip] theorem stripBy_mk (n : τ) (a : List (QEntry τ)) (i : Nat) (pr : List (EvId × ProcRec σ)) (ac : Option EvId)
    (t : Array (Obs τ)) (sh : List (Nat × Val)) (r : Array ResRec) (nl : Nat) :
    (KState.mk n a i (s.stripBy P).events pr ac t sh r nl) = (KState.mk n a i s.events pr ac t sh r nl).stripBy P := rfl

/-- an update of one record that does not look at the callbacks commutes with the erasure -/
theorem updEv_stripBy (e : EvId) (f : EvRec τ → EvRec τ) (hf : ∀ b r, f (r.stripIf b) = (f r).stripIf b) :
    (s.stripBy P).setEv e (f ((s.stripBy P).ev e)) = (s.setEv e (f (s.ev e))).stripBy P := by
  rw [stripBy_setEv, ev_stripBy, hf]

@[kstrip] theorem setOut_stripBy (e : EvId) (o : Outcome) : (s.stripBy P).setOut e o = (s.setOut e o).stripBy P :=
  updEv_stripBy P s e (fun r => { r with out := some o }) (by intro b r; cases b <;> rfl)
@[kstrip] theorem defuse_stripBy (e : EvId) : (s.stripBy P).defuse e = (s.defuse e).stripBy P :=
  updEv_stripBy P s e (fun r => { r with defused := true }) (by intro b r; cases b <;> rfl)
@[kstrip] theorem bumpCount_stripBy (c : EvId) : (s.stripBy P).bumpCount c = (s.bumpCount c).stripBy P := by
  unfold bumpCount
  rw [stripBy_setEv, ev_stripBy]
  congr 1
  cases P c <;> rfl
@[kstrip] theorem setUsage_stripBy (e : EvId) : (s.stripBy P).setUsage e = (s.setUsage e).stripBy P :=
  updEv_stripBy P s e (fun r => { r with req := r.req.map fun rq => { rq with usageSince := some s.now } })
    (by intro b r; cases b <;> rfl)

/-- `callbacks.remove(cb)` for a callback that is not the stop -/
theorem eraseCb_stripBy (e : EvId) (cb : Cb) (h : cb ≠ .stop) : (s.stripBy P).eraseCb e cb = (s.eraseCb e cb).stripBy P := by
  refine updEv_stripBy P s e (fun r => { r with cbs := r.cbs.map (·.erase cb) }) ?_
  intro b r
  cases b
  · rfl
  · show ({ r with cbs := (r.cbs.map stripCbs).map (·.erase cb) } : EvRec τ) = { r with cbs := (r.cbs.map (·.erase cb)).map stripCbs }
    cases r.cbs with
    | none => rfl
    | some l => simp only [Option.map_some, stripCbs_erase l cb h]

/-- `callbacks.append(cb)` for a callback that is not the stop -/
theorem addCb_stripBy (e : EvId) (cb : Cb) (h : cb ≠ .stop) : (s.stripBy P).addCb e cb = (s.addCb e cb).stripBy P := by
  refine updEv_stripBy P s e (fun r => { r with cbs := r.cbs.map (· ++ [cb]) }) ?_
  intro b r
  cases b
  · rfl
  · show ({ r with cbs := (r.cbs.map stripCbs).map (· ++ [cb]) } : EvRec τ) = { r with cbs := (r.cbs.map (· ++ [cb])).map stripCbs }
    cases r.cbs with
    | none => rfl
    | some l => simp only [Option.map_some, stripCbs_append_single l cb h]

@[kstrip] theorem eraseCb_resume_stripBy (e p : EvId) :
    (s.stripBy P).eraseCb e (.resume p) = (s.eraseCb e (.resume p)).stripBy P := eraseCb_stripBy P s e _ (by simp)
@[kstrip] theorem eraseCb_check_stripBy (e c : EvId) :
    (s.stripBy P).eraseCb e (.check c) = (s.eraseCb e (.check c)).stripBy P := eraseCb_stripBy P s e _ (by simp)
@[kstrip] theorem addCb_resume_stripBy (e p : EvId) :
    (s.stripBy P).addCb e (.resume p) = (s.addCb e (.resume p)).stripBy P := addCb_stripBy P s e _ (by simp)
@[kstrip] theorem addCb_check_stripBy (e c : EvId) :
    (s.stripBy P).addCb e (.check c) = (s.addCb e (.check c)).stripBy P := addCb_stripBy P s e _ (by simp)
@[kstrip] theorem addCb_build_stripBy (e c : EvId) :
    (s.stripBy P).addCb e (.build c) = (s.addCb e (.build c)).stripBy P := addCb_stripBy P s e _ (by simp)
@[kstrip] theorem addCb_probe_stripBy (e : EvId) (tag : Nat) :
    (s.stripBy P).addCb e (.probe tag) = (s.addCb e (.probe tag)).stripBy P := addCb_stripBy P s e _ (by simp)

@[kstrip] theorem trigger_stripBy [Num τ] (e : EvId) (o : Outcome) : (s.stripBy P).trigger e o = (s.trigger e o).stripBy P := by
  unfold trigger
  rw [setOut_stripBy, schedule_stripBy]

/-- `.stop` added to an event outside `P` stays; added to an event inside `P` it is erased again -/
theorem addCb_stop_stripBy_of_P (e : EvId) (h : P e = true) : (s.addCb e .stop).stripBy P = s.stripBy P := by
  unfold addCb
  rw [stripBy_setEv, h]
  unfold setEv stripBy
  congr 1
  apply Array.ext_getElem?
  intro i
  simp only [Array.getElem?_mapIdx, Array.getElem?_setIfInBounds, Array.size_mapIdx]
  split
  · split
    · rename_i hi hlt
      subst hi
      have : s.events[e]? = some (s.ev e) := by
        simp only [ev, Array.getD_eq_getD_getElem?]
        rw [Array.getElem?_eq_getElem hlt]; rfl
      rw [this, h]
      show some _ = some _
      congr 1
      show ({ s.ev e with cbs := ((s.ev e).cbs.map (· ++ [Cb.stop])).map stripCbs } : EvRec τ) = { s.ev e with cbs := (s.ev e).cbs.map stripCbs }
      cases (s.ev e).cbs with
      | none => rfl
      | some l => simp [stripCbs, List.filter_append]
    · rename_i hi hlt
      subst hi
      rw [Array.getElem?_eq_none (by omega)]; rfl
  · rfl

theorem stripBy_idem : (s.stripBy P).stripBy P = s.stripBy P := by
  unfold stripBy
  simp only
  congr 1
  apply Array.ext_getElem?
  intro i
  simp only [Array.getElem?_mapIdx]
  cases s.events[i]? with
  | none => rfl
  | some r => simp only [Option.map_some, EvRec.stripIf_idem]

end KState

/-! ## stop-free states -/

namespace KState
variable (P : EvId → Bool) (s : KState τ σ)

theorem hasStop_default (e : EvId) (h : s.events.size ≤ e) : s.hasStop e = false := by
  unfold hasStop ev
  rw [Array.getD_eq_getD_getElem?, Array.getElem?_eq_none h]
  rfl

theorem ev_eq_getElem (e : EvId) (h : e < s.events.size) : s.events[e]? = some (s.ev e) := by
  simp only [ev, Array.getD_eq_getD_getElem?]
  rw [Array.getElem?_eq_getElem h]; rfl

/-- a state is a fixed point of the erasure iff none of the selected events carries a stop -/
theorem stripBy_eq_self_iff : s.stripBy P = s ↔ ∀ e, P e = true → s.hasStop e = false := by
  constructor
  · intro h e hP
    have h1 := ev_stripBy P s e
    rw [h, hP] at h1
    unfold hasStop
    have h2 : (s.ev e).cbs = (s.ev e).cbs.map stripCbs := congrArg EvRec.cbs h1
    cases hc : (s.ev e).cbs with
    | none => rfl
    | some l =>
      rw [hc] at h2
      simp only [Option.map_some, Option.some.injEq] at h2
      simp only
      have := stripCbs_not_mem l
      rw [← h2] at this
      simpa using this
  · intro h
    have hev : s.events.mapIdx (fun i r => EvRec.stripIf (P i) r) = s.events := by
      apply Array.ext_getElem?
      intro i
      rw [Array.getElem?_mapIdx]
      by_cases hi : i < s.events.size
      · rw [ev_eq_getElem s i hi]
        simp only [Option.map_some, Option.some.injEq]
        cases hP : P i
        · rfl
        · have hs := h i hP
          unfold hasStop at hs
          show ({ s.ev i with cbs := (s.ev i).cbs.map stripCbs } : EvRec τ) = s.ev i
          cases hc : (s.ev i).cbs with
          | none =>
            have : s.ev i = { s.ev i with cbs := none } := by rw [← hc]
            rw [this]; rfl
          | some l =>
            rw [hc] at hs
            simp only at hs
            have hl : stripCbs l = l := stripCbs_eq_self l (by simpa using hs)
            simp only [Option.map_some, hl]
            have : s.ev i = { s.ev i with cbs := some l } := by rw [← hc]
            exact this.symm
      · rw [Array.getElem?_eq_none (Nat.le_of_not_lt hi)]; rfl
    show ({ s with events := _ } : KState τ σ) = s
    rw [hev]

theorem hasStop_stripBy (e : EvId) (h : P e = true) : (s.stripBy P).hasStop e = false :=
  (stripBy_eq_self_iff P (s.stripBy P)).mp (stripBy_idem P s) e h

theorem hasStop_stripBy_of_not (e : EvId) (h : P e = false) : (s.stripBy P).hasStop e = s.hasStop e := by
  unfold hasStop
  rw [stripBy_cbs, h]
  rfl

end KState

theorem StopFree.iff (P : EvId → Bool) (s : KState τ σ) : StopFree P s ↔ ∀ e, P e = true → s.hasStop e = false :=
  KState.stripBy_eq_self_iff P s

/-- a state without any stop is stop-free for every selection -/
theorem StopFree.mono {P Q : EvId → Bool} {s : KState τ σ} (h : StopFree P s) (hq : ∀ e, Q e = true → P e = true) :
    StopFree Q s :=
  (StopFree.iff Q s).mpr fun e he => (StopFree.iff P s).mp h e (hq e he)

theorem StopFree.stripBy (P : EvId → Bool) (s : KState τ σ) : StopFree P (s.stripBy P) := KState.stripBy_idem P s

theorem StopEq.refl (P : EvId → Bool) (s : KState τ σ) : StopEq P s s := rfl
theorem StopEq.symm {P : EvId → Bool} {s1 s2 : KState τ σ} (h : StopEq P s1 s2) : StopEq P s2 s1 := Eq.symm h
theorem StopEq.trans {P : EvId → Bool} {s1 s2 s3 : KState τ σ} (h1 : StopEq P s1 s2) (h2 : StopEq P s2 s3) :
    StopEq P s1 s3 := Eq.trans h1 h2
/-- a state and its erasure are related -/
theorem StopEq.stripBy (P : EvId → Bool) (s : KState τ σ) : StopEq P (s.stripBy P) s := KState.stripBy_idem P s
/-- related states have the same trace, clock, agenda, processes, resources -/
theorem StopEq.trace {P : EvId → Bool} {s1 s2 : KState τ σ} (h : StopEq P s1 s2) : s1.trace = s2.trace :=
  by
  have h' : (s1.stripBy P).trace = (s2.stripBy P).trace := by rw [show s1.stripBy P = s2.stripBy P from h]
  exact h'
theorem StopEq.now {P : EvId → Bool} {s1 s2 : KState τ σ} (h : StopEq P s1 s2) : s1.now = s2.now :=
  by
  have h' : (s1.stripBy P).now = (s2.stripBy P).now := by rw [show s1.stripBy P = s2.stripBy P from h]
  exact h'
theorem StopEq.agenda {P : EvId → Bool} {s1 s2 : KState τ σ} (h : StopEq P s1 s2) : s1.agenda = s2.agenda :=
  by
  have h' : (s1.stripBy P).agenda = (s2.stripBy P).agenda := by rw [show s1.stripBy P = s2.stripBy P from h]
  exact h'
/-- a stop-free state related to `s2` *is* the erasure of `s2` -/
theorem StopEq.eq_stripBy {P : EvId → Bool} {s1 s2 : KState τ σ} (h : StopEq P s1 s2) (hf : StopFree P s1) :
    s1 = s2.stripBy P := hf.symm.trans h
