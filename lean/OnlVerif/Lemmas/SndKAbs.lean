import OnlVerif.Lemmas.SndKInit
/-!
# The TCP sender on the kernel model: the executable abstraction function computes the LTS state of the configuration
-/

set_option linter.unusedSimpArgs false

namespace SndK
open SenderOnK TcpSender
open TimerK (lookup dec_enc)

theorem cellVal_eq (s : KS) (k : Nat) : cellVal s k = lookup s.shared k := rfl

theorem cellNat_of {s : KS} {k n : Nat} (h : lookup s.shared k = .int n) : cellNat s k = n := by
  unfold cellNat; rw [cellVal_eq, h]; simp

theorem cellTime_of {s : KS} {k : Nat} {x : ℚ} (h : lookup s.shared k = TimeCell.enc x) : cellTime s k = x := by
  unfold cellTime; rw [cellVal_eq, h, dec_enc]; rfl

theorem cellFlag_val {s : KS} {k : Nat} {b : Bool} (h : lookup s.shared k = flagVal b) : cellFlag s k = b := by
  unfold cellFlag; rw [cellVal_eq, h]
  cases b <;> simp [flagVal]

theorem cellFlag_of {s : KS} {k : Nat} {b : Bool} (h : lookup s.shared k = if b then .int 1 else .none) :
    cellFlag s k = b := by
  unfold cellFlag; rw [cellVal_eq, h]
  cases b <;> simp

theorem cellOptTime_of {s : KS} {k : Nat} {o : Option ℚ} (h : lookup s.shared k = optEnc o) : cellOptTime s k = o := by
  unfold cellOptTime; rw [cellVal_eq, h]
  cases o with
  | none => rfl
  | some x =>
    have e : (TimeCell.enc x : Val) = Val.preempted (some (if x.num < 0 then 1 else 0)) x.num.natAbs x.den := rfl
    have d := dec_enc x
    simp only [optEnc, e] at d ⊢
    exact d

/-- a dict whose keys are candidate keys in order is rebuilt by scanning the candidates -/
theorem filterMap_get? {β : Type} : ∀ (ks : List Nat) (l : List (Nat × β)), ks.Nodup → (AL.keys l).Sublist ks →
    ks.filterMap (fun k => (AL.get? k l).map fun v => (k, v)) = l
  | [], l, _, hs => by
    have : AL.keys l = [] := List.sublist_nil.mp hs
    cases l with
    | nil => rfl
    | cons x xs => simp [AL.keys] at this
  | k :: ks, l, hn, hs => by
    have hk : k ∉ ks := (List.nodup_cons.mp hn).1
    have hn' := (List.nodup_cons.mp hn).2
    cases l with
    | nil =>
      simp only [List.filterMap_cons, AL.get?, Option.map_none]
      exact filterMap_get? ks [] hn' (List.nil_sublist _)
    | cons x xs =>
      obtain ⟨a, b⟩ := x
      have hs' : (a :: AL.keys xs).Sublist (k :: ks) := hs
      cases hs' with
      | cons _ h =>
        -- `k` is not a key of the dict
        have hka : a ≠ k := fun e => hk (e ▸ h.subset List.mem_cons_self)
        have hnot : k ∉ AL.keys ((a, b) :: xs) := fun hm => hk (h.subset hm)
        rw [List.filterMap_cons, (AL.get?_eq_none_iff k _).mpr hnot]
        exact filterMap_get? ks ((a, b) :: xs) hn' h
      | cons_cons _ h =>
        -- `k` is the first key
        have hnot : k ∉ AL.keys xs := fun hm => hk (h.subset hm)
        rw [List.filterMap_cons]
        simp only [AL.get?, if_true, Option.map_some]
        congr 1
        have ih := filterMap_get? ks xs hn' h
        have e : ks.filterMap (fun k' => (if k = k' then some b else AL.get? k' xs).map fun v => (k', v)) =
            ks.filterMap (fun k' => (AL.get? k' xs).map fun v => (k', v)) := by
          apply List.filterMap_congr
          intro k' hk'
          have : k ≠ k' := fun e => hk (e ▸ hk')
          simp only [this, if_false]
        rw [e, ih]

theorem segKeys_nodup (mss next : Nat) (hm : 0 < mss) : (segKeys mss next).Nodup := by
  rw [segKeys_eq_cands]; exact cands_nodup mss hm _ _

theorem wakeAt_le (n : Nat) (t e : ℚ) (h : t ≤ e) : Sender.wakeAt (n + 2) t e = e := by
  rcases lt_or_eq_of_le h with hl | he
  · have := wakeAt_eq n t (e - t) (by linarith)
    rw [show t + (e - t) = e by ring] at this
    exact this
  · subst he
    show (if t < t then _ else t) = t
    rw [if_neg (lt_irrefl _)]

variable {cfg : Cfg} {s : KS} {a : A}

theorem absCC_eq (hc : CellsOK s a) : absCC s = a.S.cc := by
  have h := hc.cc
  simp only [ccCells, List.forall_mem_cons, List.not_mem_nil, IsEmpty.forall_iff, implies_true, and_true] at h
  obtain ⟨h0, h1, h2, h3, h4, h5, h6, h7, h8, h9, h10, h11, h12, h13, h14, h15⟩ := h
  unfold absCC
  rw [cellTime_of h0, cellTime_of h1, cellTime_of h2, cellTime_of h3, cellTime_of h4, cellTime_of h5, cellTime_of h6,
    cellTime_of h7, cellTime_of h8, cellTime_of h9, cellFlag_val h10, cellFlag_val h11, cellTime_of h12, cellTime_of h13,
    cellTime_of h14, cellTime_of h15]

/-- the timer record the abstraction function reads off the kernel state is the one in `timers` -/
theorem absTimerRec_eq (hk : KI none s a) (hi : AInv cfg a) {seq : Nat} (hs : seq ∈ a.tks) {r : TimerRec ℚ}
    (hg : AL.get? seq a.S.timers = some r) : absTimerRec s seq = r := by
  obtain ⟨l1, l2, l3⟩ := (hi.tm seq hs).live hg
  have htm := hk.k.tm seq hs
  have he := cellTime_of (hk.c.expire seq hs)
  have hp : cellVal s (cTmProc seq) = .ev (a.tmp seq) := hk.c.proc seq hs
  unfold absTimerRec
  simp only [he, hp]
  cases hph : a.tph seq with
  | init q =>
    rw [hph] at l3
    simp only [kernOf, hph, TmEv] at htm
    obtain ⟨_, _, hpr, hpe⟩ := htm
    have : tmResumeAt s (a.tmp seq) = some q.time := by
      unfold tmResumeAt
      rw [hpe.2.2, hpr]
      rfl
    rw [this]
    simp only
    rw [l2, wakeAt_le 6 _ _ (by rw [l3.1]; exact le_of_lt l3.2.2)]
  | sleep t q =>
    rw [hph] at l3
    simp only [kernOf, hph, TmEv] at htm
    obtain ⟨_, _, hpr, hpe⟩ := htm
    have : tmResumeAt s (a.tmp seq) = some q.time := by
      unfold tmResumeAt
      rw [hpe.2.2, hpr]
      rfl
    rw [this]
    simp only
    rw [l2, wakeAt_le 6 _ _ (by rw [l3.1])]
  | ending q => rw [hph] at l3; exact l3.elim
  | gone => rw [hph] at l3; exact l3.elim
  | running => rw [hph] at l3; exact l3.elim

/-- **the abstraction function computes the LTS state of the configuration** -/
theorem abs_eq (hk : KI none s a) (hi : AInv cfg a) : absSender cfg s = a.S := by
  have hnext := cellNat_of hk.c.next
  have e1 : (segKeys cfg.mss (cellNat s cNext)) = a.tks := by rw [hnext, hi.tks]
  have hnd : a.tks.Nodup := by rw [hi.tks]; exact segKeys_nodup _ _ hi.mpos
  have htimers : (a.tks.filterMap fun seq => if cellFlag s (cTmIn seq) then some (seq, absTimerRec s seq) else none) =
      a.S.timers := by
    rw [← filterMap_get? a.tks a.S.timers hnd hi.tkeys]
    conv_rhs => rw [filterMap_get? a.tks a.S.timers hnd hi.tkeys]
    rw [← filterMap_get? a.tks a.S.timers hnd hi.tkeys]
    apply List.filterMap_congr
    intro seq hs
    rw [cellFlag_of (hk.c.tin seq)]
    cases hg : AL.get? seq a.S.timers with
    | none => rfl
    | some r =>
      simp only [Option.isSome_some, if_true, Option.map_some]
      rw [absTimerRec_eq hk hi hs hg]
  have hsent : (a.tks.filterMap fun seq => (cellOptTime s (cSent seq)).map fun t => (seq, t)) = a.S.sent := by
    rw [← filterMap_get? a.tks a.S.sent hnd (hi.inv.keys ▸ hi.tkeys)]
    conv_rhs => rw [filterMap_get? a.tks a.S.sent hnd (hi.inv.keys ▸ hi.tkeys)]
    rw [← filterMap_get? a.tks a.S.sent hnd (hi.inv.keys ▸ hi.tkeys)]
    apply List.filterMap_congr
    intro seq _
    rw [cellOptTime_of (hk.c.sent seq)]
  have htok : (s.res tokStore).items.length = a.S.tokens := by
    have := hk.k.tok
    rw [show tokStore = 0 from rfl, this]
    simp [storeRec, kernOf]
  have hproc : absProc s = a.S.proc := by
    have hre := hk.k.run
    have hra := hi.run
    unfold absProc
    cases hph : a.run with
    | init q =>
      simp only [kernOf, hph, RunEv] at hre
      rw [hph] at hra
      rw [show runProc = 0 from rfl, hre.2.2.2.2.2, hre.2.2.1]
      simp only [Option.isSome_none, Bool.false_eq_true, if_false]
      exact hra.2.2.symm
    | blocked g t0 =>
      simp only [kernOf, hph, RunEv] at hre
      rw [hph] at hra
      rw [show runProc = 0 from rfl, hre.2.2.2.2, hre.2.1]
      simp only [Option.isSome_none, Bool.false_eq_true, if_false, hre.1.2.2]
      exact hra.1.symm
    | handed g t0 q =>
      simp only [kernOf, hph, RunEv] at hre
      rw [hph] at hra
      rw [show runProc = 0 from rfl, hre.2.2.2.2.2, hre.2.2.1]
      simp only [Option.isSome_none, Bool.false_eq_true, if_false, hre.2.1.2.2, Option.isSome_some, if_true]
      exact hra.2.2.1.symm
    | ending q =>
      simp only [kernOf, hph, RunEv] at hre
      rw [hph] at hra
      rw [show runProc = 0 from rfl, hre.2.2.2]
      simp only [okNone, Option.isSome_some, if_true]
      exact hra.1.symm
    | done =>
      simp only [kernOf, hph, RunEv] at hre
      rw [hph] at hra
      rw [show runProc = 0 from rfl, hre.2]
      simp only [okNone, Option.isSome_some, if_true]
      exact hra.symm
    | running => rw [hph] at hra; exact hra.elim
  unfold absSender
  simp only [e1, htimers, hsent, htok, hproc, absCC_eq hk.c, cellTime_of hk.c.rtt, cellTime_of hk.c.dev, cellTime_of hk.c.rto,
    hnext, cellNat_of hk.c.buf, cellNat_of hk.c.lack, cellNat_of hk.c.dup]
  rw [← hi.kind, ← hi.mss, ← hi.size, hk.k.now]
  have e1' : segKeys a.S.mss a.S.next_seq = a.tks := by rw [hi.mss, hi.tks]
  rw [e1', htimers, hsent]
  rfl

end SndK
