import Mathlib.Data.List.Basic
import Mathlib.Data.List.Nodup
import Mathlib.Tactic.Linarith
import OnlVerif.Lemmas.Route
import OnlVerif.Net.FatTree
/-! # Lemmas about `generate_fib` (`OnlVerif/Net/FatTree.lean`), for an arbitrary graph -/

namespace FatTree
open Route

/-! ### the enumerate loop: `port_to_nexthop` / `nexthop_to_port` -/

theorem enumPorts_flow (i : Nat) (l : List Nat) (t : NodeTab) :
    (enumPorts i l t).flowToPort = t.flowToPort ∧ (enumPorts i l t).flowToNexthop = t.flowToNexthop := by
  induction l generalizing i t with
  | nil => simp [enumPorts]
  | cons x r ih => simp [enumPorts, ih, NodeTab.addPort]

theorem enumPorts_ptn (i : Nat) (l : List Nat) (t : NodeTab) (q : Nat) :
    dget (enumPorts i l t).portToNexthop q = if i ≤ q ∧ q < i + l.length then l[q - i]? else dget t.portToNexthop q := by
  induction l generalizing i t with
  | nil =>
    have : ¬ (i ≤ q ∧ q < i + 0) := by omega
    simp [enumPorts]
  | cons x r ih =>
    simp only [enumPorts, ih, NodeTab.addPort, dget_dset, List.length_cons]
    by_cases h1 : i + 1 ≤ q ∧ q < i + 1 + r.length
    · have h2 : i ≤ q ∧ q < i + (r.length + 1) := by omega
      rw [if_pos h1, if_pos h2]
      have : q - i = (q - (i + 1)) + 1 := by omega
      rw [this, List.getElem?_cons_succ]
    · rw [if_neg h1]
      by_cases h3 : i = q
      · subst h3
        simp
      · have h2 : ¬ (i ≤ q ∧ q < i + (r.length + 1)) := by omega
        rw [if_neg h3, if_neg h2]

theorem enumPorts_ntp (i : Nat) (l : List Nat) (t : NodeTab) (z : Nat) (hn : l.Nodup) :
    dget (enumPorts i l t).nexthopToPort z = if z ∈ l then some (i + l.idxOf z) else dget t.nexthopToPort z := by
  induction l generalizing i t with
  | nil => simp [enumPorts]
  | cons x r ih =>
    have hx : x ∉ r := (List.nodup_cons.mp hn).1
    simp only [enumPorts, ih _ _ (List.nodup_cons.mp hn).2, NodeTab.addPort, dget_dset, List.mem_cons]
    by_cases hz : z ∈ r
    · have hne : z ≠ x := fun e => hx (e ▸ hz)
      have hne' : ¬ x = z := fun e => hne e.symm
      simp [hz, List.idxOf_cons_ne _ hne']
      omega
    · by_cases e : x = z
      · subst e; simp [hz]
      · have : ¬ z = x := fun e' => e e'.symm
        simp [hz, e, this]

theorem initTab_ptn (ns : List Nat) (q : Nat) : dget (initTab ns).portToNexthop q = ns[q]? := by
  unfold initTab
  rw [enumPorts_ptn]
  by_cases h : q < ns.length
  · simp [h]
  · simp [h, dget]

theorem initTab_ntp (ns : List Nat) (z : Nat) (hn : ns.Nodup) :
    dget (initTab ns).nexthopToPort z = if z ∈ ns then some (ns.idxOf z) else none := by
  unfold initTab
  rw [enumPorts_ntp _ _ _ _ hn]
  simp [dget]

theorem initTab_flow (ns : List Nat) : (initTab ns).flowToPort = [] ∧ (initTab ns).flowToNexthop = [] := by
  unfold initTab
  simpa using enumPorts_flow 0 ns {}

/-- position and membership in a duplicate-free list -/
theorem getElem?_eq_some_iff_idxOf (ns : List Nat) (hn : ns.Nodup) (p z : Nat) :
    ns[p]? = some z ↔ (z ∈ ns ∧ ns.idxOf z = p) := by
  constructor
  · intro h
    obtain ⟨hp, rfl⟩ := List.getElem?_eq_some_iff.mp h
    exact ⟨List.getElem_mem hp, List.Nodup.idxOf_getElem hn p hp⟩
  · rintro ⟨hz, rfl⟩
    have hlt : ns.idxOf z < ns.length := List.idxOf_lt_length_iff.mpr hz
    rw [List.getElem?_eq_getElem hlt]
    simp

/-! ### reading tables -/

theorem dget_initTables (g : Graph) (n : Nat) : dget (initTables g) n = (dget g n).map initTab := by
  unfold initTables
  exact dget_map g initTab n

/-- `a — z` is an edge of the graph: `z` is in `a`'s neighbour list -/
def Adj (g : Graph) (a z : Nat) : Prop := ∃ ns, dget g a = some ns ∧ z ∈ ns

/-- neighbour lists have no duplicates (true of every `networkx` adjacency) -/
def GraphOK (g : Graph) : Prop := ∀ n ns, dget g n = some ns → ns.Nodup

/-- the path is a walk of the (undirected) graph -/
def IsWalk (g : Graph) (path : List Nat) : Prop := ∀ seg ∈ segments path, Adj g seg.1 seg.2 ∧ Adj g seg.2 seg.1

theorem init_ntp (g : Graph) (hg : GraphOK g) (a z : Nat) (ns : List Nat) (h : dget g a = some ns) (hz : z ∈ ns) :
    nexthopToPort (initTables g) a z = some (ns.idxOf z) := by
  simp [nexthopToPort, dget_initTables, h, initTab_ntp _ _ (hg a ns h), hz]

theorem init_ptn (g : Graph) (a p : Nat) (ns : List Nat) (h : dget g a = some ns) :
    portToNexthop (initTables g) a p = ns[p]? := by
  simp [portToNexthop, dget_initTables, h, initTab_ptn]

theorem init_flow (g : Graph) (n k : Nat) : nexthopOf (initTables g) n k = none ∧ portOf (initTables g) n k = none := by
  unfold nexthopOf portOf
  rw [dget_initTables]
  cases dget g n with
  | none => simp
  | some ns => simp [initTab_flow, dget]

theorem init_port_roundtrip (g : Graph) (hg : GraphOK g) (a z : Nat) (h : Adj g a z) :
    ∃ i, nexthopToPort (initTables g) a z = some i ∧ portToNexthop (initTables g) a i = some z := by
  obtain ⟨ns, hns, hz⟩ := h
  refine ⟨ns.idxOf z, init_ntp g hg a z ns hns hz, ?_⟩
  rw [init_ptn g a _ ns hns]
  exact (getElem?_eq_some_iff_idxOf ns (hg a ns hns) _ z).mpr ⟨hz, rfl⟩

/-! ### one table write -/

theorem setFlow_spec (t : Tables) (a key z : Nat) (h : (nexthopToPort t a z).isSome) :
    ∃ t' port, setFlow t a key z = .ok t' ∧ nexthopToPort t a z = some port ∧
      (∀ n z', nexthopToPort t' n z' = nexthopToPort t n z') ∧
      (∀ n p, portToNexthop t' n p = portToNexthop t n p) ∧
      (∀ n k, nexthopOf t' n k = if a = n ∧ key = k then some z else nexthopOf t n k) ∧
      (∀ n k, portOf t' n k = if a = n ∧ key = k then some port else portOf t n k) := by
  unfold nexthopToPort at h
  cases hta : dget t a with
  | none => simp [hta] at h
  | some tab =>
    simp only [hta] at h
    obtain ⟨port, hport⟩ := Option.isSome_iff_exists.mp h
    refine ⟨dset t a (tab.setFlow key port z), port, ?_, ?_, ?_, ?_, ?_, ?_⟩
    · simp [setFlow, hta, hport]
    · simp [nexthopToPort, hta, hport]
    · intro n z'
      unfold nexthopToPort
      rw [dget_dset]
      by_cases e : a = n
      · subst e; simp [hta, NodeTab.setFlow]
      · simp [e]
    · intro n p
      unfold portToNexthop
      rw [dget_dset]
      by_cases e : a = n
      · subst e; simp [hta, NodeTab.setFlow]
      · simp [e]
    · intro n k
      unfold nexthopOf
      rw [dget_dset]
      by_cases e : a = n
      · subst e
        simp only [hta, NodeTab.setFlow, dget_dset, true_and, if_true]
      · simp [e]
    · intro n k
      unfold portOf
      rw [dget_dset]
      by_cases e : a = n
      · subst e
        simp only [hta, NodeTab.setFlow, dget_dset, true_and, if_true]
      · simp [e]

/-! ### `generate_fib` as one fold over the list of table writes -/

/-- a table write `(node, key, next hop)` -/
abbrev Write := Nat × Nat × Nat

def writeStep (t : Tables) (w : Write) : Except PyErr Tables := setFlow t w.1 w.2.1 w.2.2

/-- the writes of one path segment, in program order -/
def writesOf (tcp : Bool) (fid : Nat) (seg : Nat × Nat) : List Write :=
  (seg.1, fid, seg.2) :: (if tcp then [(seg.2, ackClass fid, seg.1)] else [])

def flowWrites (tcp : Bool) (fl : FlowRec) : List Write := (segments fl.path).flatMap (writesOf tcp fl.fid)

def allWrites (flows : List FlowRec) (tcp : Bool) : List Write := flows.flatMap (flowWrites tcp)

theorem foldE_append {σ α : Type} (f : σ → α → Except PyErr σ) (s : σ) (a b : List α) :
    foldE f s (a ++ b) = match foldE f s a with
      | .error e => .error e
      | .ok s' => foldE f s' b := by
  induction a generalizing s with
  | nil => simp [foldE]
  | cons x r ih =>
    simp only [List.cons_append, foldE]
    cases f s x with
    | error e => simp
    | ok s' => simp [ih]

theorem foldE_flatMap {σ α β : Type} (f : σ → α → Except PyErr σ) (g : β → List α) (s : σ) (l : List β) :
    foldE f s (l.flatMap g) = foldE (fun s x => foldE f s (g x)) s l := by
  induction l generalizing s with
  | nil => simp [foldE]
  | cons x r ih =>
    simp only [List.flatMap_cons, foldE_append, foldE]
    cases foldE f s (g x) with
    | error e => simp
    | ok s' => simp [ih]

theorem segStep_eq (tcp : Bool) (fid : Nat) (t : Tables) (seg : Nat × Nat) :
    segStep tcp fid t seg = foldE writeStep t (writesOf tcp fid seg) := by
  unfold segStep writesOf
  cases tcp
  · simp only [foldE, writeStep]
    cases setFlow t seg.1 fid seg.2 <;> simp [foldE]
  · simp only [foldE, writeStep, if_true]
    cases setFlow t seg.1 fid seg.2 with
    | error e => simp
    | ok t1 =>
      simp only
      cases setFlow t1 seg.2 (ackClass fid) seg.1 <;> simp

theorem generateFib_eq (g : Graph) (flows : List FlowRec) (tcp : Bool) :
    generateFib g flows tcp = foldE writeStep (initTables g) (allWrites flows tcp) := by
  unfold generateFib allWrites
  rw [foldE_flatMap]
  congr 1
  funext t fl
  unfold flowStep flowWrites
  rw [foldE_flatMap]
  congr 1
  funext t seg
  exact segStep_eq tcp fl.fid t seg

/-- the value of the last write to `(node, key)`, if any -/
def lastWrite : List Write → Nat → Nat → Option Nat
  | [], _, _ => none
  | w :: r, n, k =>
    match lastWrite r n k with
    | some z => some z
    | none => if w.1 = n ∧ w.2.1 = k then some w.2.2 else none

/-- **every write succeeds when it names an existing neighbour, and the final tables hold the last write per key** -/
theorem foldE_writes (ws : List Write) (t : Tables) (h : ∀ w ∈ ws, (nexthopToPort t w.1 w.2.2).isSome) :
    ∃ t', foldE writeStep t ws = .ok t' ∧
      (∀ n z, nexthopToPort t' n z = nexthopToPort t n z) ∧
      (∀ n p, portToNexthop t' n p = portToNexthop t n p) ∧
      (∀ n k, nexthopOf t' n k = match lastWrite ws n k with
        | some z => some z
        | none => nexthopOf t n k) ∧
      (∀ n k, portOf t' n k = match lastWrite ws n k with
        | some z => nexthopToPort t n z
        | none => portOf t n k) := by
  induction ws generalizing t with
  | nil => exact ⟨t, rfl, fun _ _ => rfl, fun _ _ => rfl, fun _ _ => rfl, fun _ _ => rfl⟩
  | cons w r ih =>
    obtain ⟨a, key, z⟩ := w
    obtain ⟨t1, port, hok, hport, hntp, hptn, hnh, hpo⟩ := setFlow_spec t a key z (h _ List.mem_cons_self)
    have h1 : ∀ w ∈ r, (nexthopToPort t1 w.1 w.2.2).isSome := by
      intro w hw
      rw [hntp]
      exact h w (List.mem_cons_of_mem _ hw)
    obtain ⟨t', hok', hntp', hptn', hnh', hpo'⟩ := ih t1 h1
    refine ⟨t', ?_, ?_, ?_, ?_, ?_⟩
    · simp only [foldE, writeStep, hok, hok']
    · intro n z'; rw [hntp', hntp]
    · intro n p; rw [hptn', hptn]
    · intro n k
      rw [hnh']
      simp only [lastWrite]
      cases lastWrite r n k with
      | some z' => rfl
      | none =>
        simp only [hnh]
        by_cases e : a = n ∧ key = k <;> simp [e]
    · intro n k
      rw [hpo']
      simp only [lastWrite]
      cases lastWrite r n k with
      | some z' => simp only [hntp]
      | none =>
        simp only [hpo]
        by_cases e : a = n ∧ key = k
        · obtain ⟨rfl, rfl⟩ := e
          simp [hport]
        · simp [e]

/-! ### which write is the last one: entries are keyed by flow id, so distinct ids do not interfere -/

theorem lastWrite_append (a b : List Write) (n k : Nat) :
    lastWrite (a ++ b) n k = match lastWrite b n k with
      | some z => some z
      | none => lastWrite a n k := by
  induction a with
  | nil => simp [lastWrite]; cases lastWrite b n k <;> rfl
  | cons w r ih =>
    simp only [List.cons_append, lastWrite, ih]
    cases lastWrite b n k <;> simp

theorem lastWrite_none_of_keys (ws : List Write) (n k : Nat) (h : ∀ w ∈ ws, w.2.1 ≠ k) : lastWrite ws n k = none := by
  induction ws with
  | nil => rfl
  | cons w r ih =>
    have h1 := ih (fun w hw => h w (List.mem_cons_of_mem _ hw))
    have h2 := h w List.mem_cons_self
    simp [lastWrite, h1, h2]

theorem flowWrites_keys (tcp : Bool) (fl : FlowRec) :
    ∀ w ∈ flowWrites tcp fl, w.2.1 = fl.fid ∨ w.2.1 = ackClass fl.fid := by
  intro w hw
  unfold flowWrites at hw
  obtain ⟨seg, _, hw⟩ := List.mem_flatMap.mp hw
  unfold writesOf at hw
  cases tcp <;> simp at hw
  · left; rw [hw]
  · rcases hw with rfl | rfl
    · left; rfl
    · right; rfl

theorem allWrites_keys (flows : List FlowRec) (tcp : Bool) :
    ∀ w ∈ allWrites flows tcp, ∃ fl ∈ flows, w.2.1 = fl.fid ∨ w.2.1 = ackClass fl.fid := by
  intro w hw
  obtain ⟨fl, hfl, hw⟩ := List.mem_flatMap.mp hw
  exact ⟨fl, hfl, flowWrites_keys tcp fl w hw⟩

/-- successor of `n` on the path -/
def nextIn : List Nat → Nat → Option Nat
  | a :: z :: r, n => if n = a then some z else nextIn (z :: r) n
  | _, _ => none

/-- predecessor of `n` on the path -/
def prevIn : List Nat → Nat → Option Nat
  | a :: z :: r, n => if n = z then some a else prevIn (z :: r) n
  | _, _ => none

theorem nextIn_mem (p : List Nat) (n z : Nat) (h : nextIn p n = some z) : n ∈ p := by
  induction p with
  | nil => simp [nextIn] at h
  | cons a r ih =>
    cases r with
    | nil => simp [nextIn] at h
    | cons b r' =>
      simp only [nextIn] at h
      by_cases e : n = a
      · subst e; exact List.mem_cons_self
      · rw [if_neg e] at h; exact List.mem_cons_of_mem _ (ih h)

theorem nextIn_none_of_notMem (p : List Nat) (n : Nat) (h : n ∉ p) : nextIn p n = none := by
  cases hh : nextIn p n with
  | none => rfl
  | some z => exact absurd (nextIn_mem p n z hh) h

theorem prevIn_mem_tail (p : List Nat) (n a : Nat) (h : prevIn p n = some a) : n ∈ p.tail := by
  induction p with
  | nil => simp [prevIn] at h
  | cons x r ih =>
    cases r with
    | nil => simp [prevIn] at h
    | cons b r' =>
      simp only [prevIn] at h
      by_cases e : n = b
      · subst e; simp
      · rw [if_neg e] at h
        have := ih h
        simp only [List.tail_cons] at this ⊢
        exact List.mem_cons_of_mem _ this

theorem segments_mem (p : List Nat) (a z : Nat) (h : (a, z) ∈ segments p) : a ∈ p ∧ z ∈ p.tail := by
  induction p with
  | nil => simp [segments] at h
  | cons x r ih =>
    cases r with
    | nil => simp [segments] at h
    | cons y r' =>
      simp only [segments, List.mem_cons, Prod.mk.injEq] at h
      rcases h with ⟨rfl, rfl⟩ | h
      · simp
      · have := ih h
        exact ⟨List.mem_cons_of_mem _ this.1, by simp only [List.tail_cons] at this ⊢; exact List.mem_cons_of_mem _ this.2⟩

theorem nextIn_of_segment (p : List Nat) (hn : p.Nodup) (a z : Nat) (h : (a, z) ∈ segments p) : nextIn p a = some z := by
  induction p with
  | nil => simp [segments] at h
  | cons x r ih =>
    cases r with
    | nil => simp [segments] at h
    | cons y r' =>
      simp only [segments, List.mem_cons, Prod.mk.injEq] at h
      rcases h with ⟨rfl, rfl⟩ | h
      · simp [nextIn]
      · have hm := (segments_mem _ a z h).1
        have hx : a ≠ x := fun e => (List.nodup_cons.mp hn).1 (e ▸ hm)
        simp only [nextIn, if_neg hx]
        exact ih (List.nodup_cons.mp hn).2 h

theorem prevIn_of_segment (p : List Nat) (hn : p.Nodup) (a z : Nat) (h : (a, z) ∈ segments p) : prevIn p z = some a := by
  induction p with
  | nil => simp [segments] at h
  | cons x r ih =>
    cases r with
    | nil => simp [segments] at h
    | cons y r' =>
      simp only [segments, List.mem_cons, Prod.mk.injEq] at h
      rcases h with ⟨rfl, rfl⟩ | h
      · simp [prevIn]
      · have hm := (segments_mem _ a z h).2
        simp only [List.tail_cons] at hm
        have hn' := List.nodup_cons.mp hn
        have hy : z ≠ y := fun e => (List.nodup_cons.mp hn'.2).1 (e ▸ hm)
        simp only [prevIn, if_neg hy]
        exact ih hn'.2 h

/-- a single flow, forward class: the last write at `n` is `n`'s successor on the path -/
theorem lastWrite_flow_fwd (tcp : Bool) (fid : Nat) (path : List Nat) (hn : path.Nodup) (n : Nat) :
    lastWrite ((segments path).flatMap (writesOf tcp fid)) n fid = nextIn path n := by
  induction path with
  | nil => simp [segments, lastWrite, nextIn]
  | cons a r ih =>
    cases r with
    | nil => simp [segments, lastWrite, nextIn]
    | cons z r' =>
      have hn' := List.nodup_cons.mp hn
      simp only [segments, List.flatMap_cons, lastWrite_append, ih hn'.2, nextIn]
      have hack : ackClass fid ≠ fid := by unfold ackClass; omega
      by_cases e : n = a
      · subst e
        rw [nextIn_none_of_notMem _ _ hn'.1]
        cases tcp <;> simp [writesOf, lastWrite, hack]
      · rw [if_neg e]
        cases nextIn (z :: r') n with
        | some x => rfl
        | none =>
          have e' : ¬ a = n := fun h => e h.symm
          cases tcp <;> simp [writesOf, lastWrite, hack, e']

/-- a single flow, ACK class: the last write at `n` is `n`'s predecessor on the path -/
theorem lastWrite_flow_ack (fid : Nat) (path : List Nat) (hn : path.Nodup) (n : Nat) :
    lastWrite ((segments path).flatMap (writesOf true fid)) n (ackClass fid) = prevIn path n := by
  induction path with
  | nil => simp [segments, lastWrite, prevIn]
  | cons a r ih =>
    cases r with
    | nil => simp [segments, lastWrite, prevIn]
    | cons z r' =>
      have hn' := List.nodup_cons.mp hn
      simp only [segments, List.flatMap_cons, lastWrite_append, ih hn'.2, prevIn]
      have hack : fid ≠ ackClass fid := by unfold ackClass; omega
      by_cases e : n = z
      · subst e
        have : prevIn (n :: r') n = none := by
          cases hh : prevIn (n :: r') n with
          | none => rfl
          | some x =>
            have := prevIn_mem_tail _ _ _ hh
            simp only [List.tail_cons] at this
            exact absurd this (List.nodup_cons.mp hn'.2).1
        rw [this]
        simp [writesOf, lastWrite]
      · rw [if_neg e]
        cases prevIn (z :: r') n with
        | some x => rfl
        | none =>
          have e' : ¬ z = n := fun h => e h.symm
          simp [writesOf, lastWrite, hack, e']

/-- **flows with distinct ids do not interfere**: in the writes of a whole flow set, the last write for a key of
flow `fl` is the last write among `fl`'s own writes -/
theorem lastWrite_all (flows : List FlowRec) (tcp : Bool)
    (hd : flows.Pairwise fun x y => x.fid ≠ y.fid) (hlt : ∀ fl ∈ flows, fl.fid < 10000) :
    ∀ fl ∈ flows, ∀ n k, (k = fl.fid ∨ k = ackClass fl.fid) →
      lastWrite (allWrites flows tcp) n k = lastWrite (flowWrites tcp fl) n k := by
  induction flows with
  | nil => simp
  | cons f0 rest ih =>
    intro fl hfl n k hk
    have hd' := List.pairwise_cons.mp hd
    have hlt0 := hlt f0 List.mem_cons_self
    simp only [allWrites, List.flatMap_cons] at ih ⊢
    rw [lastWrite_append]
    rcases List.mem_cons.mp hfl with rfl | hin
    · -- `fl` is the first flow: no later flow writes its keys
      have : lastWrite (rest.flatMap (flowWrites tcp)) n k = none := by
        apply lastWrite_none_of_keys
        intro w hw
        obtain ⟨g, hg, hw⟩ := allWrites_keys rest tcp w hw
        have hne := hd'.1 g hg
        have hgl := hlt g (List.mem_cons_of_mem _ hg)
        unfold ackClass at *
        rcases hk with rfl | rfl <;> rcases hw with hw | hw <;> omega
      rw [this]
    · rw [ih hd'.2 (fun g hg => hlt g (List.mem_cons_of_mem _ hg)) fl hin n k hk]
      cases lastWrite (flowWrites tcp fl) n k with
      | some z => rfl
      | none =>
        apply lastWrite_none_of_keys
        intro w hw
        have hw := flowWrites_keys tcp f0 w hw
        have hne := hd'.1 fl hin
        have hfl' := hlt fl (List.mem_cons_of_mem _ hin)
        unfold ackClass at *
        rcases hk with rfl | rfl <;> rcases hw with hw | hw <;> omega

theorem nextIn_last (p : List Nat) (hn : p.Nodup) (d : Nat) (hd : p.getLast? = some d) : nextIn p d = none := by
  induction p with
  | nil => simp [nextIn]
  | cons a r ih =>
    cases r with
    | nil => simp [nextIn]
    | cons z r' =>
      have hn' := List.nodup_cons.mp hn
      have hd' : (z :: r').getLast? = some d := by simpa [List.getLast?_cons_cons] using hd
      have hm : d ∈ z :: r' := List.mem_of_getLast? hd'
      have hne : d ≠ a := fun e => hn'.1 (e ▸ hm)
      simp only [nextIn, if_neg hne]
      exact ih hn'.2 hd'

/-! ### walking a table -/

theorem walk_nextIn (nh : Nat → Option Nat) (rest : List Nat) :
    ∀ src fuel, (src :: rest).Nodup → (∀ n ∈ src :: rest, nh n = nextIn (src :: rest) n) →
      (src :: rest).length ≤ fuel + 1 → walk nh fuel src = src :: rest := by
  induction rest with
  | nil =>
    intro src fuel _ hnh _
    have : nh src = none := by rw [hnh src List.mem_cons_self]; simp [nextIn]
    cases fuel <;> simp [walk, this]
  | cons z r ih =>
    intro src fuel hn hnh hf
    have hn' := List.nodup_cons.mp hn
    cases fuel with
    | zero => simp at hf
    | succ f =>
      have h1 : nh src = some z := by rw [hnh src List.mem_cons_self]; simp [nextIn]
      simp only [walk, h1]
      congr 1
      apply ih z f hn'.2
      · intro n hm
        have hne : n ≠ src := fun e => hn'.1 (e ▸ hm)
        rw [hnh n (List.mem_cons_of_mem _ hm)]
        simp [nextIn, hne]
      · simp only [List.length_cons] at hf ⊢; omega

theorem nextIn_snoc (q : List Nat) (a : Nat) (hq : q ≠ []) (hn : (q ++ [a]).Nodup) (n : Nat) :
    nextIn (q ++ [a]) n = if n = q.getLast hq then some a else nextIn q n := by
  induction q with
  | nil => exact absurd rfl hq
  | cons x r ih =>
    cases r with
    | nil =>
      by_cases e : n = x <;> simp [nextIn, e]
    | cons y r' =>
      have hn' := List.nodup_cons.mp hn
      have ih' := ih (by simp) hn'.2
      simp only [List.cons_append, nextIn] at ih' ⊢
      rw [List.getLast_cons (by simp)]
      by_cases e : n = x
      · subst e
        have : n ≠ (y :: r').getLast (by simp) := by
          intro h
          apply hn'.1
          rw [h]
          exact List.mem_append_left _ (List.getLast_mem _)
        simp [this]
      · simp only [if_neg e]
        exact ih'

theorem prevIn_eq_nextIn_reverse (p : List Nat) (hn : p.Nodup) (n : Nat) : prevIn p n = nextIn p.reverse n := by
  induction p with
  | nil => simp [prevIn, nextIn]
  | cons a r ih =>
    cases r with
    | nil => simp [prevIn, nextIn]
    | cons z r' =>
      have hn' := List.nodup_cons.mp hn
      have hne : (z :: r').reverse ≠ [] := by simp
      have hnd : ((z :: r').reverse ++ [a]).Nodup := by
        rw [← List.reverse_cons]
        exact List.nodup_reverse.mpr hn
      rw [List.reverse_cons, nextIn_snoc _ _ hne hnd]
      have hl : (z :: r').reverse.getLast hne = z := by simp
      rw [hl]
      simp only [prevIn]
      by_cases e : n = z
      · simp [e]
      · simp only [if_neg e]
        exact ih hn'.2

end FatTree
