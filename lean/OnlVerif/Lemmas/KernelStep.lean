import OnlVerif.Lemmas.KernelExt
/-! # One kernel step: the pop and the callback loop -/

variable {σ : Type}

/-- agenda invariant: nothing is due in the past, all `eid`s were issued by the counter and are pairwise different -/
structure AgendaWF (s : KState ℚ σ) : Prop where
  due : ∀ q ∈ s.agenda, s.now ≤ q.time
  eid_lt : ∀ q ∈ s.agenda, q.eid < s.eid
  distinct : s.agenda.Pairwise (fun a b => a.eid ≠ b.eid)

theorem AgendaWF.ext {s s' : KState ℚ σ} (h : AgendaWF s) (hx : Ext s s') : AgendaWF s' := by
  obtain ⟨hn, he, ⟨new, ha, hp⟩, ⟨new', ha', hf⟩⟩ := hx
  have : new' = new := List.append_cancel_right (ha'.symm.trans ha)
  subst this
  refine ⟨?_, ?_, ?_⟩
  · intro q hq
    rw [ha] at hq
    rcases List.mem_append.mp hq with hq | hq
    · rw [hn]; exact (hp q hq).1
    · rw [hn]; exact h.due q hq
  · intro q hq
    rw [ha] at hq
    rcases List.mem_append.mp hq with hq | hq
    · exact (hp q hq).2.2
    · exact Nat.lt_of_lt_of_le (h.eid_lt q hq) he
  · rw [ha, List.pairwise_append]
    refine ⟨hf.imp (fun h => Nat.ne_of_gt h), h.distinct, ?_⟩
    intro a ha b hb
    exact Nat.ne_of_gt (Nat.lt_of_lt_of_le (h.eid_lt b hb) (hp a ha).2.1)

/-- the state in which a step ended, if it processed an event -/
def StepResult.state? : StepResult ℚ σ → Option (KState ℚ σ)
  | .ok s => some s
  | .stopped _ s => some s
  | .crash _ s => some s
  | .empty => none

theorem not_keyLt_time {x q : QEntry ℚ} (h : ¬ QEntry.KeyLt x q) : q.time ≤ x.time := by
  by_contra hc
  exact h (Or.inl (not_le.mp hc))

theorem openEvent_wf (s : KState ℚ σ) (q : QEntry ℚ) (rest : List (QEntry ℚ)) (h : AgendaWF s)
    (hp : popMin s.agenda = some (q, rest)) : AgendaWF (openEvent s q rest) ∧ s.now ≤ q.time := by
  have sp := popMin_spec _ _ _ hp
  have hsub : ∀ x ∈ rest, x ∈ s.agenda := fun x hx => sp.1.symm.subset (List.mem_cons_of_mem _ hx)
  refine ⟨⟨?_, ?_, ?_⟩, h.due q (sp.1.symm.subset List.mem_cons_self)⟩
  · intro x hx; exact not_keyLt_time (sp.2 x hx)
  · intro x hx; exact h.eid_lt x (hsub x hx)
  · have := (List.Perm.pairwise_iff (R := fun a b : QEntry ℚ => a.eid ≠ b.eid) (fun {a b} h => h.symm) sp.1).mp h.distinct
    exact (List.pairwise_cons.mp this).2

theorem closeEvent_state (l : LoopSt ℚ σ) (e : EvId) : (closeEvent l e).state? = some l.s := by
  unfold closeEvent
  split
  · rfl
  · split
    · split <;> rfl
    · rfl

/-- what one `step` does to clock and agenda: it pops the minimum `q`, jumps to `q.time`, and the callback
loop only adds fresh entries due at `q.time` or later -/
theorem step_shape (body : σ → Resume → Burst ℚ σ) (fuel : Nat) (s s' : KState ℚ σ)
    (hs : (step body fuel s).state? = some s') :
    ∃ q rest, popMin s.agenda = some (q, rest) ∧ Ext (openEvent s q rest) s' := by
  unfold step at hs
  split at hs
  · cases hs
  · rename_i q rest hq
    refine ⟨q, rest, hq, ?_⟩
    split at hs
    · cases hs; exact Ext.refl _
    · rename_i cbs _
      rw [closeEvent_state] at hs
      cases hs
      exact ext_foldCbs body fuel q.ev cbs { s := openEvent s q rest }
