import OnlVerif.Lemmas.MultiQueueRun
/-!
# DRR: the bursts of `DRR.run` and the steps of the scheduler as explicit relations

`DSettles` lists the moves of the loop between two `yield`s (start of a round, end of a round, visit with / without
quantum, leaving a class, fetching, taking the parked head, sending, parking); `settles_dsettles` shows that every
accepted burst is a chain of such moves.  `DTrans` does the same for whole steps.  The DRR invariants are then
proved by induction over these relations.
-/

namespace DRR
open MQ

abbrev St := MQState ℚ (Ctl ℚ)

theorem touch_drr (cfg : Cfg ℚ) (s : St) : touch (sched cfg) s = s := rfl

/-- the class at entry `i` of `class_count` -/
def keyAt (k : Ctl ℚ) (i : Nat) : Option Nat := (k.classCount[i]?).map (·.1)

inductive DSettles (cfg : Cfg ℚ) : St → St → Prop
  | topGo (s s' : St) : s.ctl.pc = .top → 0 < total s.queueCount →
      DSettles cfg { s with ctl := { s.ctl with pc := .visit 0 } } s' → DSettles cfg s s'
  | topBlock (s : St) : s.ctl.pc = .top → total s.queueCount = 0 →
      DSettles cfg s (blockOnToken { s with ctl := { s.ctl with pc := .top } })
  | topSpin (s s' : St) : s.ctl.pc = .top → ¬ 0 < total s.queueCount → total s.queueCount ≠ 0 →
      DSettles cfg { s with ctl := { s.ctl with pc := .top } } s' → DSettles cfg s s'
  | roundEnd (s : St) (i : Nat) (s' : St) : s.ctl.pc = .visit i → s.ctl.classCount[i]? = none →
      DSettles cfg { s with ctl := { s.ctl with pc := .top } } s' → DSettles cfg s s'
  | visitAdd (s : St) (i cls : Nat) (n : Int) (d q : ℚ) (s' : St) : s.ctl.pc = .visit i →
      s.ctl.classCount[i]? = some (cls, n) → 0 < n → lookup s.ctl.deficit cls = some d → quantum cfg cls = some q →
      DSettles cfg { s with ctl := { addQuantum s.ctl cls d q with pc := .inner i } } s' → DSettles cfg s s'
  | visitSkip (s : St) (i cls : Nat) (n : Int) (s' : St) : s.ctl.pc = .visit i →
      s.ctl.classCount[i]? = some (cls, n) → ¬ 0 < n →
      DSettles cfg { s with ctl := { s.ctl with pc := .inner i } } s' → DSettles cfg s s'
  | innerExit (s : St) (i cls : Nat) (n : Int) (d : ℚ) (s' : St) : s.ctl.pc = .inner i →
      s.ctl.classCount[i]? = some (cls, n) → lookup s.ctl.deficit cls = some d → ¬ (0 < d ∧ 0 < n) →
      DSettles cfg { s with ctl := { s.ctl with pc := .visit (i + 1) } } s' → DSettles cfg s s'
  | innerGet (s : St) (i cls : Nat) (n : Int) (d : ℚ) (s' : St) : s.ctl.pc = .inner i →
      s.ctl.classCount[i]? = some (cls, n) → lookup s.ctl.deficit cls = some d → 0 < d → 0 < n →
      lookupD s.hol cls none = none →
      issueGet { s with ctl := { s.ctl with pc := .gotPkt i } } cls = .ok s' → DSettles cfg s s'
  | takeSend (s : St) (i cls : Nat) (n : Int) (d : ℚ) (p : MPkt) : s.ctl.pc = .inner i →
      s.ctl.classCount[i]? = some (cls, n) → lookup s.ctl.deficit cls = some d → 0 < d → 0 < n →
      lookupD s.hol cls none = some p → classOf cfg p.flow = some cls → (p.size : ℚ) ≤ d →
      DSettles cfg s (spawn { s with ctl := { s.ctl with pc := .sent i }, hol := setKey s.hol cls none } p true)
  | takePark (s : St) (i cls : Nat) (n : Int) (d : ℚ) (p : MPkt) (s' : St) : s.ctl.pc = .inner i →
      s.ctl.classCount[i]? = some (cls, n) → lookup s.ctl.deficit cls = some d → 0 < d → 0 < n →
      lookupD s.hol cls none = some p → classOf cfg p.flow = some cls → ¬ (p.size : ℚ) ≤ d →
      DSettles cfg { s with ctl := { s.ctl with pc := .visit (i + 1) }, hol := setKey (setKey s.hol cls none) cls (some p) } s' →
      DSettles cfg s s'

/-- the decision of `onPkt` at `gotPkt i` -/
theorem onPkt_cases (cfg : Cfg ℚ) (k : Ctl ℚ) (v : View) (cls : Nat) (p : MPkt) (i : Nat) (r : PktDec (Ctl ℚ))
    (hpc : k.pc = .gotPkt i) (h : (sched cfg).onPkt k v cls p = r) :
    (∃ m, r = .fail m) ∨
    (∃ d, lookup k.deficit cls = some d ∧ classOf cfg p.flow = some cls ∧
      (((p.size : ℚ) ≤ d ∧ r = .send true { k with pc := .sent i }) ∨
       (¬ (p.size : ℚ) ≤ d ∧ r = .park { k with pc := .visit (i + 1) }))) := by
  simp only [sched, onPkt, hpc] at h
  split at h
  · exact Or.inl ⟨_, h.symm⟩
  · rename_i d hd
    split at h
    · rename_i hcl
      split at h
      · rename_i hle
        exact Or.inr ⟨d, hd, hcl, Or.inl ⟨by simpa [Num.ofNat] using hle, h.symm⟩⟩
      · rename_i hle
        exact Or.inr ⟨d, hd, hcl, Or.inr ⟨by simpa [Num.ofNat] using hle, h.symm⟩⟩
    · exact Or.inl ⟨_, h.symm⟩

theorem settles_dsettles (cfg : Cfg ℚ) (s s' : St) (hs : Settles (sched cfg) s s') : DSettles cfg s s' := by
  induction hs with
  | goto s k s' hm _ ih =>
    simp only [touch_drr] at hm ih
    simp only [sched, micro] at hm
    split at hm
    · rename_i hpc
      split at hm
      · rename_i ht
        simp only [Micro.goto.injEq] at hm; subst hm
        exact DSettles.topGo s s' hpc (by simpa [view] using ht) ih
      · rename_i ht
        split at hm
        · cases hm
        · rename_i ht0
          simp only [Micro.goto.injEq] at hm; subst hm
          exact DSettles.topSpin s s' hpc (by simpa [view] using ht) (by simpa [view] using ht0) ih
    · rename_i i hpc
      split at hm
      · rename_i hnone
        simp only [Micro.goto.injEq] at hm; subst hm
        exact DSettles.roundEnd s i s' hpc hnone ih
      · rename_i cls n hcc
        split at hm
        · rename_i hn
          split at hm
          · rename_i d qq hd hq
            simp only [Micro.goto.injEq] at hm; subst hm
            exact DSettles.visitAdd s i cls n d qq s' hpc hcc hn hd hq ih
          · cases hm
        · rename_i hn
          simp only [Micro.goto.injEq] at hm; subst hm
          exact DSettles.visitSkip s i cls n s' hpc hcc hn ih
    · rename_i i hpc
      split at hm
      · cases hm
      · rename_i cls n hcc
        split at hm
        · cases hm
        · rename_i d hd
          split at hm
          · split at hm <;> cases hm
          · rename_i hcond
            simp only [Micro.goto.injEq] at hm; subst hm
            exact DSettles.innerExit s i cls n d s' hpc hcc hd (by simpa [zero_eq'] using hcond) ih
    · cases hm
    · cases hm
  | get s c k s' hm hg =>
    simp only [touch_drr] at hm hg
    simp only [sched, micro] at hm
    split at hm
    · split at hm
      · cases hm
      · split at hm <;> cases hm
    · split at hm
      · cases hm
      · split at hm
        · split at hm <;> cases hm
        · cases hm
    · rename_i i hpc
      split at hm
      · cases hm
      · rename_i cls n hcc
        split at hm
        · cases hm
        · rename_i d hd
          split at hm
          · rename_i hcond
            split at hm
            · cases hm
            · rename_i hpk
              simp only [Micro.get.injEq] at hm
              obtain ⟨rfl, rfl⟩ := hm
              have hc' : 0 < d ∧ 0 < n := by simpa [zero_eq'] using hcond
              exact DSettles.innerGet s i cls n d s' hpc hcc hd hc'.1 hc'.2 (by simpa [view] using hpk) hg
          · cases hm
    · cases hm
    · cases hm
  | block s k hm =>
    simp only [touch_drr] at hm ⊢
    simp only [sched, micro] at hm
    split at hm
    · rename_i hpc
      split at hm
      · cases hm
      · split at hm
        · rename_i ht0
          simp only [Micro.block.injEq] at hm; subst hm
          exact DSettles.topBlock s hpc (by simpa [view] using ht0)
        · cases hm
    · split at hm
      · cases hm
      · split at hm
        · split at hm <;> cases hm
        · cases hm
    · split at hm
      · cases hm
      · split at hm
        · cases hm
        · split at hm
          · split at hm <;> cases hm
          · cases hm
    · cases hm
    · cases hm
  | takeSend s c k p e k' hm hp hd =>
    simp only [touch_drr] at hm hp hd ⊢
    simp only [sched, micro] at hm
    split at hm
    · split at hm
      · cases hm
      · split at hm <;> cases hm
    · split at hm
      · cases hm
      · split at hm
        · split at hm <;> cases hm
        · cases hm
    · rename_i i hpc
      split at hm
      · cases hm
      · rename_i cls n hcc
        split at hm
        · cases hm
        · rename_i d hdef
          split at hm
          · rename_i hcond
            split at hm
            · simp only [Micro.take.injEq] at hm
              obtain ⟨rfl, rfl⟩ := hm
              have hc' : 0 < d ∧ 0 < n := by simpa [zero_eq'] using hcond
              rcases onPkt_cases cfg _ _ cls p i _ rfl hd with ⟨m, hx⟩ | ⟨d', hd', hcl, hx⟩
              · cases hx
              · have : d' = d := by
                  have : lookup s.ctl.deficit cls = some d' := hd'
                  rw [hdef] at this; exact (Option.some.inj this).symm
                subst this
                rcases hx with ⟨hle, hx⟩ | ⟨hle, hx⟩
                · simp only [PktDec.send.injEq] at hx
                  obtain ⟨rfl, rfl⟩ := hx
                  exact DSettles.takeSend s i cls n d' p hpc hcc hdef hc'.1 hc'.2 hp hcl hle
                · cases hx
            · cases hm
          · cases hm
    · cases hm
    · cases hm
  | takePark s c k p k' s2 s' hm hp hd hpk _ ih =>
    simp only [touch_drr] at hm hp hd hpk
    simp only [sched, micro] at hm
    split at hm
    · split at hm
      · cases hm
      · split at hm <;> cases hm
    · split at hm
      · cases hm
      · split at hm
        · split at hm <;> cases hm
        · cases hm
    · rename_i i hpc
      split at hm
      · cases hm
      · rename_i cls n hcc
        split at hm
        · cases hm
        · rename_i d hdef
          split at hm
          · rename_i hcond
            split at hm
            · simp only [Micro.take.injEq] at hm
              obtain ⟨rfl, rfl⟩ := hm
              have hc' : 0 < d ∧ 0 < n := by simpa [zero_eq'] using hcond
              rcases onPkt_cases cfg _ _ cls p i _ rfl hd with ⟨m, hx⟩ | ⟨d', hd', hcl, hx⟩
              · cases hx
              · have : d' = d := by
                  have : lookup s.ctl.deficit cls = some d' := hd'
                  rw [hdef] at this; exact (Option.some.inj this).symm
                subst this
                rcases hx with ⟨hle, hx⟩ | ⟨hle, hx⟩
                · cases hx
                · simp only [PktDec.park.injEq] at hx
                  subst hx
                  unfold park at hpk
                  simp only [lookupD_setKey_same, Except.ok.injEq] at hpk
                  subst hpk
                  exact DSettles.takePark s i cls n d' p s' hpc hcc hdef hc'.1 hc'.2 hp hcl hle ih
            · cases hm
          · cases hm
    · cases hm
    · cases hm

/-- the steps of a DRR scheduler -/
inductive DTrans (cfg : Cfg ℚ) : St → MAct ℚ → St → MOut ℚ → Prop
  | init (s s' : St) : s.phase = .idle → DSettles cfg { s with phase := Phase.running } s' → DTrans cfg s .init s' .nothing
  | put (s : St) (p : MPkt) (cls : Nat) (n : Int) : classOf cfg p.flow = some cls → lookup s.ctl.classCount cls = some n →
      DTrans cfg s (.put p)
        (enqueue (countIn (postToken { s with ctl := { s.ctl with classCount := setKey s.ctl.classCount cls (n + 1) } }) p) cls p)
        .accepted
  | tokenHandoff (s : St) (n : Nat) : s.phase = .waitToken → s.tokens = n + 1 →
      DTrans cfg s .tokenHandoff { s with tokens := n, phase := .tokenHanded } .nothing
  | wake (s s' : St) : s.phase = .tokenHanded → DSettles cfg { s with phase := Phase.running } s' → DTrans cfg s .wake s' .nothing
  | resumeSend (s : St) (cls : Nat) (p : MPkt) (i : Nat) (d : ℚ) : s.phase = .pktHanded cls p → s.ctl.pc = .gotPkt i →
      lookup s.ctl.deficit cls = some d → classOf cfg p.flow = some cls → (p.size : ℚ) ≤ d →
      DTrans cfg s .pktResume (spawn { s with phase := Phase.running, ctl := { s.ctl with pc := .sent i } } p true) .nothing
  | resumePark (s : St) (cls : Nat) (p : MPkt) (i : Nat) (d : ℚ) (s' : St) : s.phase = .pktHanded cls p →
      s.ctl.pc = .gotPkt i → lookup s.ctl.deficit cls = some d → classOf cfg p.flow = some cls → ¬ (p.size : ℚ) ≤ d →
      lookupD s.hol cls none = none →
      DSettles cfg { s with phase := Phase.running, ctl := { s.ctl with pc := .visit (i + 1) }, hol := setKey s.hol cls (some p) } s' →
      DTrans cfg s .pktResume s' .nothing
  | sendInit (s : St) (p : MPkt) : s.phase = .spawned p →
      DTrans cfg s .sendInit { s with currentPacket := some p, phase := .sending p (s.now + txTime (sched cfg) p) }
        (.started p (s.now + txTime (sched cfg) p))
  | sendFire (s : St) (p : MPkt) (due : ℚ) : s.phase = .sending p due → s.now = due →
      DTrans cfg s .sendFire { countOut s p with currentPacket := none, phase := .finished p } (.depart p)
  | sendDone (s : St) (p : MPkt) (i cls : Nat) (n : Int) (d : ℚ) (s' : St) : s.phase = .finished p → s.ctl.pc = .sent i →
      s.ctl.classCount[i]? = some (cls, n) → lookup s.ctl.deficit cls = some d →
      DSettles cfg { s with phase := Phase.running, ctl := { book s.ctl cls d n p with pc := .inner i } } s' →
      DTrans cfg s .sendDone s' .nothing
  | tickIdle (s : St) (t : ℚ) : s.now ≤ t → s.phase = .waitToken → s.tokens = 0 →
      DTrans cfg s (.tick t) { s with now := t } .nothing
  | tickBusy (s : St) (t : ℚ) (p : MPkt) (due : ℚ) : s.now ≤ t → s.phase = .sending p due → t ≤ due →
      DTrans cfg s (.tick t) { s with now := t } .nothing
  | sample (s : St) (inc : Bool) : DTrans cfg s (.sample inc) s (.samples (monitorSample s inc))

theorem step_dtrans (cfg : Cfg ℚ) (s s' : St) (a : MAct ℚ) (o : MOut ℚ) (h : step (sched cfg) s a = .ok (s', o)) :
    DTrans cfg s a s' o := by
  have ht := step_trans (sched cfg) s s' a o h
  cases ht with
  | init _ hp hr =>
    exact DTrans.init s s' hp (settles_dsettles cfg _ s' (resumeLoop_settles (sched cfg) s s' hr))
  | put p c k hc hk =>
    simp only [sched, onPut] at hk
    split at hk
    · cases hk
    · rename_i n hn
      simp only [Except.ok.injEq] at hk
      subst hk
      exact DTrans.put s p c n hc hn
  | tokenHandoff n hp htk => exact DTrans.tokenHandoff s n hp htk
  | wake _ hp hr =>
    exact DTrans.wake s s' hp (settles_dsettles cfg _ s' (resumeLoop_settles (sched cfg) s s' hr))
  | resumeSend c p e k hp hd =>
    cases hpc : s.ctl.pc with
    | gotPkt i =>
      rcases onPkt_cases cfg _ _ c p i _ hpc hd with ⟨m, hx⟩ | ⟨d, hdef, hcl, hx⟩
      · cases hx
      · rcases hx with ⟨hle, hx⟩ | ⟨hle, hx⟩
        · simp only [PktDec.send.injEq] at hx
          obtain ⟨rfl, rfl⟩ := hx
          exact DTrans.resumeSend s c p i d hp hpc hdef hcl hle
        · cases hx
    | top => simp [sched, onPkt, hpc] at hd
    | visit i => simp [sched, onPkt, hpc] at hd
    | inner i => simp [sched, onPkt, hpc] at hd
    | sent i => simp [sched, onPkt, hpc] at hd
  | resumePark c p k s2 _ hp hd hpk hr =>
    cases hpc : s.ctl.pc with
    | gotPkt i =>
      rcases onPkt_cases cfg _ _ c p i _ hpc hd with ⟨m, hx⟩ | ⟨d, hdef, hcl, hx⟩
      · cases hx
      · rcases hx with ⟨hle, hx⟩ | ⟨hle, hx⟩
        · cases hx
        · simp only [PktDec.park.injEq] at hx
          subst hx
          unfold park at hpk
          split at hpk
          · cases hpk
          · rename_i hnone
            simp only [Except.ok.injEq] at hpk
            subst hpk
            exact DTrans.resumePark s c p i d s' hp hpc hdef hcl hle hnone
              (settles_dsettles cfg _ s' (resumeLoop_settles (sched cfg) _ s' hr))
    | top => simp [sched, onPkt, hpc] at hd
    | visit i => simp [sched, onPkt, hpc] at hd
    | inner i => simp [sched, onPkt, hpc] at hd
    | sent i => simp [sched, onPkt, hpc] at hd
  | sendInit p hp => exact DTrans.sendInit s p hp
  | sendFire p due hp hnow => exact DTrans.sendFire s p due hp hnow
  | sendDone p k _ hp hk hr =>
    simp only [sched, onDone] at hk
    split at hk
    · rename_i i hpc
      split at hk
      · cases hk
      · rename_i cls n hcc
        split at hk
        · cases hk
        · rename_i d hdef
          simp only [Except.ok.injEq] at hk
          subst hk
          exact DTrans.sendDone s p i cls n d s' hp hpc hcc hdef
            (settles_dsettles cfg _ s' (resumeLoop_settles (sched cfg) _ s' hr))
    · cases hk
  | tickIdle t h1 h2 h3 => exact DTrans.tickIdle s t h1 h2 h3
  | tickBusy t p due h1 h2 h3 => exact DTrans.tickBusy s t p due h1 h2 h3
  | sample inc => exact DTrans.sample s inc

end DRR
