import OnlVerif.Lemmas.DRRKRefine
import OnlVerif.Props.C15
/-!
# The DRR scheduler on the kernel model: windows of kernel runs are windows of the LTS (for the fairness bound)
-/

set_option linter.unusedSimpArgs false

namespace DRRK
open DRROnK QEntry MQ

variable {F : Nat} {flow size : Int → Nat} {cfg : DRR.Cfg ℚ} {Lmax P : Nat}

/-- a stretch of a kernel run in every state of which `Pr` holds -/
inductive KWin (body : St → Resume → Burst ℚ St) (fuel : Nat) (Pr : KS → Prop) : KS → KS → Prop
  | nil (s : KS) : Pr s → KWin body fuel Pr s s
  | cons (s s' s'' : KS) : Pr s → (step body fuel s).state? = some s' → KWin body fuel Pr s' s'' → KWin body fuel Pr s s''

/-- bytes of class `c` among a list of packets -/
def pkBytes (cfg : DRR.Cfg ℚ) (c : Nat) (l : List MPkt) : Int :=
  (l.map fun p => if DRR.classOf cfg p.flow = some c then (p.size : Int) else 0).sum

theorem pkBytes_append (c : Nat) (l1 l2 : List MPkt) : pkBytes cfg c (l1 ++ l2) = pkBytes cfg c l1 + pkBytes cfg c l2 := by
  simp [pkBytes]

theorem window_append {L : ℚ} {Pr : DRR.St → Prop} {s s' s'' : DRR.St} {o1 o2 : List (MOut ℚ)}
    (h1 : DRR.Window cfg L Pr s o1 s') (h2 : DRR.Window cfg L Pr s' o2 s'') : DRR.Window cfg L Pr s (o1 ++ o2) s'' := by
  induction h1 with
  | nil s hp => exact h2
  | cons s a s1 o outs s2 hp ha hs hw ih => exact DRR.Window.cons s a s1 o (outs ++ o2) s'' hp ha hs (ih h2)

theorem bytesOut_append (c : Nat) (o1 o2 : List (MOut ℚ)) :
    DRR.bytesOut cfg c (o1 ++ o2) = DRR.bytesOut cfg c o1 + DRR.bytesOut cfg c o2 := by
  simp [DRR.bytesOut]

/-- at most one accepted action between two states that satisfy `Pr` is a window -/
theorem window_short {L : ℚ} {Pr : DRR.St → Prop} {s s' : DRR.St} {acts : List (MAct ℚ)} {ins outs : List MPkt}
    (hlen : acts.length ≤ 1) (ha : ∀ x ∈ acts, DRR.ActOk L x) (hr : runActs (DRR.sched cfg) s acts = .ok (s', ins, outs))
    (hp : Pr s) (hp' : Pr s') :
    ∃ mouts, DRR.Window cfg L Pr s mouts s' ∧ ∀ c, DRR.bytesOut cfg c mouts = pkBytes cfg c outs := by
  match acts, hlen with
  | [], _ =>
    simp only [runActs, Except.ok.injEq, Prod.mk.injEq] at hr
    obtain ⟨rfl, -, rfl⟩ := hr
    exact ⟨[], DRR.Window.nil s hp, fun c => by simp [DRR.bytesOut, pkBytes]⟩
  | [x], _ =>
    simp only [runActs] at hr
    cases hs : MQ.step (DRR.sched cfg) s x with
    | error m => rw [hs] at hr; cases hr
    | ok so =>
      obtain ⟨s1, o⟩ := so
      rw [hs] at hr
      simp only [Except.ok.injEq, Prod.mk.injEq, List.append_nil] at hr
      obtain ⟨rfl, -, rfl⟩ := hr
      refine ⟨[o], DRR.Window.cons s x s1 o [] s1 hp (ha x (by simp)) hs (DRR.Window.nil s1 hp'), ?_⟩
      intro c
      cases o <;> simp [DRR.bytesOut, DRR.depB, pkBytes]

variable {s s' : KS} {a : A} {q : QEntry ℚ} {rest : List (QEntry ℚ)}

/-- a property of the LTS state that only looks at the control state of the loop does not see the clock -/
theorem toM_ctl (a : A) (hist : List (HEv ℚ)) (t t' : ℚ) :
    (toM cfg.flows flow size a hist t).ctl = (toM cfg.flows flow size a hist t').ctl := rfl

/-- **a window of a kernel run is a window of the LTS** -/
theorem kwin_window (fuel : Nat) (ia ib ca cb : Nat) {s1 s2 : KS} {a1 : A} (h1 : Inv2 F flow size cfg Lmax P s1 a1)
    (hw : KWin (prog F flow size cfg P) (fuel + 1) (fun x => DRR.Both ia ib ca cb (absDRR cfg flow size x)) s1 s2) :
    ∃ a2 mouts new, Inv2 F flow size cfg Lmax P s2 a2 ∧ histOf s2.trace = histOf s1.trace ++ new ∧
      DRR.Window cfg (Lmax : ℚ) (DRR.Both ia ib ca cb) (absDRR cfg flow size s1) mouts (absDRR cfg flow size s2) ∧
      ∀ c, DRR.bytesOut cfg c mouts = pkBytes cfg c (outPk flow size new) := by
  induction hw generalizing a1 with
  | nil s hp => exact ⟨a1, [], [], h1, by simp, DRR.Window.nil _ hp, fun c => by simp [DRR.bytesOut, pkBytes, outPk]⟩
  | cons s s' s'' hp hs hw ih =>
    cases hpop : popMin s.agenda with
    | none => simp [_root_.step, hpop, StepResult.state?] at hs
    | some qr =>
      obtain ⟨q, rest⟩ := qr
      obtain ⟨s1', a', new, g1, g2, -, -, -, g6, acts0, acts, hl0, hl, hact, r0, r1, -⟩ := inv_step_lts fuel h1 hpop
      rw [g1] at hs
      simp only [StepResult.state?, Option.some.injEq] at hs
      subst hs
      obtain ⟨a2, mouts, new2, k1, k2, k3, k4⟩ := ih g2
      have hp' : DRR.Both ia ib ca cb (absDRR cfg flow size s1') := by
        cases hw with
        | nil _ h => exact h
        | cons _ _ _ h _ _ => exact h
      rw [absDRR_eq h1] at hp ⊢
      rw [absDRR_eq g2] at hp' k3
      have hmid : DRR.Both ia ib ca cb (toM cfg.flows flow size a1 (histOf s.trace) s1'.now) := by
        unfold DRR.Both at hp ⊢
        rw [toM_ctl a1 (histOf s.trace) s1'.now s.now]
        exact hp
      obtain ⟨m0, w0, b0⟩ := window_short hl0 (fun x hx => hact x (List.mem_append_left _ hx)) r0 hp hmid
      obtain ⟨m1, w1, b1⟩ := window_short hl (fun x hx => hact x (List.mem_append_right _ hx)) r1 hmid hp'
      refine ⟨a2, m0 ++ m1 ++ mouts, new ++ new2, k1, by rw [k2, g6, List.append_assoc], window_append (window_append w0 w1) k3, ?_⟩
      intro c
      rw [bytesOut_append, bytesOut_append, b0, b1, k4, outPk_append, pkBytes_append]
      simp [pkBytes]

end DRRK
