import OnlVerif.Lemmas.WireKStepWire
import OnlVerif.Lemmas.WireKStepSrc
import OnlVerif.Lemmas.WireKAbsStep
import OnlVerif.Lemmas.WireKRec
import OnlVerif.Lemmas.ResStep
/-!
# The Wire on the kernel model: every kernel step is a configuration step; whole runs
-/

set_option linter.unusedSimpArgs false

namespace WireK
open WireOnK QEntry
open TimerK (lookup plookup proc?_eq)

variable {cfg : WireCfg ℚ} {losses delays : List ℚ} {arrivals : List ℚ}
variable {s : KS} {a : A} {q : QEntry ℚ} {rest : List (QEntry ℚ)}

/-- **every configuration step is sound** -/
theorem astep_sound {now : ℚ} {a' : A} {outs new : List (Int × ℚ)} {lf : List Int}
    (hi : AInv cfg losses delays arrivals a now outs) (hq : IsMin a q) (hs : AStep cfg losses delays a q a' new lf) :
    AInv cfg losses delays arrivals a' q.time (outs ++ new) ∧ a'.mu + 1 ≤ a.mu := by
  have hi' := hi.advance hq
  cases hs with
  | wireInit g h => exact stepOK_wireInit hi' g h
  | srcInitEnd q' h ht hp => exact stepOK_srcInitEnd hi' q' h ht hp
  | srcInitWait q' gap rest h ht hp => exact stepOK_srcInitWait hi' q' gap rest h ht hp
  | srcPutEnd u q' next h hn hu ht => exact stepOK_srcPutEnd hi' hq u q' next h hn hu ht
  | srcPutWait u q' next gap rest h hn hu ht ho => exact stepOK_srcPutWait hi' hq u q' next gap rest h hn hu ht ho
  | putIdle h hw => exact stepOK_putIdle hi' h hw
  | putHand q' g t0 nl nd i is h hw hit ht => exact stepOK_putHand hi' q' g t0 nl nd i is h hw hit ht
  | serveLostIdle g g' id t0 nl nd h hl hit => exact stepOK_serveLostIdle hi' g g' id t0 nl nd h hl hit
  | serveLostNext q' g g' id t0 nl nd i is h hl hit ht => exact stepOK_serveLostNext hi' q' g g' id t0 nl nd i is h hl hit ht
  | serveWait q' g t id t0 nl nd h hl hw ht => exact stepOK_serveWait hi' q' g t id t0 nl nd h hl hw ht
  | serveOutIdle g g' id t0 nl nd h hl hw hit => exact stepOK_serveOutIdle hi' g g' id t0 nl nd h hl hw hit
  | serveOutNext q' g g' id t0 nl nd i is h hl hw hit ht =>
    exact stepOK_serveOutNext hi' q' g g' id t0 nl nd i is h hl hw hit ht
  | fireIdle t g id nl nd h hit => exact stepOK_fireIdle hi' t g id nl nd h hit
  | fireNext q' t g id nl nd i is h hit ht => exact stepOK_fireNext hi' q' t g id nl nd i is h hit ht
  | srcEnd h => exact stepOK_srcEnd hi' h

/-- what `popMin` returns is a minimal entry of the configuration -/
theorem isMin_of_pop (hk : KInv s a) (hp : popMin s.agenda = some (q, rest)) :
    IsMin a q ∧ a.entries.Perm (q :: rest) := by
  have sp := popMin_spec _ _ _ hp
  have hperm : a.entries.Perm (q :: rest) := hk.ag.symm.trans sp.1
  refine ⟨⟨hperm.symm.subset List.mem_cons_self, ?_⟩, hperm⟩
  intro x hx
  rcases List.mem_cons.mp (hperm.subset hx) with rfl | hx
  · exact KeyLt.irrefl _
  · exact sp.2 x hx

/-- **one kernel step = one configuration step** -/
theorem kstep (fuel : Nat) {outs : List (Int × ℚ)} (hk : KInv s a)
    (hi : AInv cfg losses delays arrivals a s.now outs) (hp : popMin s.agenda = some (q, rest)) :
    ∃ s' a' new lf, step (body cfg losses delays) (fuel + 1) s = .ok s' ∧ KInv s' a' ∧ AStep cfg losses delays a q a' new lf ∧
      s'.now = q.time ∧ outsOf s'.trace = outsOf s.trace ++ new ∧ leftsOf s'.trace = leftsOf s.trace ++ lf := by
  obtain ⟨hmin, hperm⟩ := isMin_of_pop hk hp
  have hq := hmin.1
  simp only [A.entries, List.mem_append] at hq
  rcases hq with hq | hq | hq
  · -- an entry of the wire process
    have hrest : rest.Perm (a.src.entries ++ a.pend.toList) := by
      cases hwire : a.wire with
      | W g t0 nl nd => simp [hwire, WPhase.entries] at hq
      | init q0 =>
        simp only [hwire, WPhase.entries, List.mem_singleton] at hq; subst hq
        simp only [A.entries, hwire, WPhase.entries, List.singleton_append] at hperm
        exact hperm.cons_inv.symm
      | H g id q0 t0 nl nd =>
        simp only [hwire, WPhase.entries, List.mem_singleton] at hq; subst hq
        simp only [A.entries, hwire, WPhase.entries, List.singleton_append] at hperm
        exact hperm.cons_inv.symm
      | T t id q0 nl nd =>
        simp only [hwire, WPhase.entries, List.mem_singleton] at hq; subst hq
        simp only [A.entries, hwire, WPhase.entries, List.singleton_append] at hperm
        exact hperm.cons_inv.symm
    have hpa := hi.wire
    cases hwire : a.wire with
    | W g t0 nl nd => simp [hwire, WPhase.entries] at hq
    | init q0 =>
      simp only [hwire, WPhase.entries, List.mem_singleton] at hq; subst hq
      rw [hwire] at hpa
      obtain ⟨s', h1, h2, h3, h4, h5⟩ :=
        kstep_wireInit (cfg := cfg) (losses := losses) (delays := delays) fuel hk hwire hpa.2.2.1 hp hrest
      exact ⟨s', _, [], [], h1, h2, AStep.wireInit a q _ hwire, h3, by simpa using h4, by simpa using h5⟩
    | H g id q0 t0 nl nd =>
      simp only [hwire, WPhase.entries, List.mem_singleton] at hq; subst hq
      rw [hwire] at hpa
      obtain ⟨hqt, -, hmax, -, hid⟩ := hpa
      have hnow : max t0 (a.ctOf id) = q.time := by rw [hmax, hqt]
      cases hl : isLost cfg (draw losses nl) with
      | true =>
        cases hit : a.items with
        | nil =>
          obtain ⟨s', h1, h2, h3, h4, h5⟩ := kstep_serveLostIdle (delays := delays) fuel hk hwire hid hnow hl hit hp hrest
          exact ⟨s', _, [], _, h1, h2, AStep.serveLostIdle a q g _ id t0 nl nd hwire hl hit, h3, by simpa using h4, h5⟩
        | cons i is =>
          obtain ⟨s', h1, h2, h3, h4, h5⟩ := kstep_serveLostNext (delays := delays) fuel hk hwire hid hnow hl hit hp hrest
          exact ⟨s', _, [], _, h1, h2, AStep.serveLostNext a q _ g _ id t0 nl nd i is hwire hl hit ⟨rfl, rfl⟩, h3, by simpa using h4, h5⟩
      | false =>
        by_cases hw : q.time - a.ctOf id < draw delays nd
        · obtain ⟨s', h1, h2, h3, h4, h5⟩ := kstep_serveWait fuel hk hwire hid hnow hl hw hp hrest
          exact ⟨s', _, [], [], h1, h2, AStep.serveWait a q _ g _ id t0 nl nd hwire hl hw ⟨rfl, rfl⟩, h3, by simpa using h4, by simpa using h5⟩
        · cases hit : a.items with
          | nil =>
            obtain ⟨s', h1, h2, h3, h4, h5⟩ := kstep_serveOutIdle fuel hk hwire hid hnow hl hw hit hp hrest
            exact ⟨s', _, _, _, h1, h2, AStep.serveOutIdle a q g _ id t0 nl nd hwire hl hw hit, h3, h4, h5⟩
          | cons i is =>
            obtain ⟨s', h1, h2, h3, h4, h5⟩ := kstep_serveOutNext fuel hk hwire hid hnow hl hw hit hp hrest
            exact ⟨s', _, _, _, h1, h2, AStep.serveOutNext a q _ g _ id t0 nl nd i is hwire hl hw hit ⟨rfl, rfl⟩, h3, h4, h5⟩
    | T t id q0 nl nd =>
      simp only [hwire, WPhase.entries, List.mem_singleton] at hq; subst hq
      cases hit : a.items with
      | nil =>
        obtain ⟨s', h1, h2, h3, h4, h5⟩ :=
          kstep_fireIdle (cfg := cfg) (losses := losses) (delays := delays) fuel hk hwire hit hp hrest
        exact ⟨s', _, _, _, h1, h2, AStep.fireIdle a q t _ id nl nd hwire hit, h3, h4, h5⟩
      | cons i is =>
        obtain ⟨s', h1, h2, h3, h4, h5⟩ :=
          kstep_fireNext (cfg := cfg) (losses := losses) (delays := delays) fuel hk hwire hit hp hrest
        exact ⟨s', _, _, _, h1, h2, AStep.fireNext a q _ t _ id nl nd i is hwire hit ⟨rfl, rfl⟩, h3, h4, h5⟩
  · -- an entry of the source process
    have hrest : rest.Perm (a.wire.entries ++ a.pend.toList) := by
      have : (q :: (a.wire.entries ++ a.pend.toList)).Perm (q :: rest) := by
        refine List.Perm.trans ?_ hperm
        cases hsrc : a.src with
        | done => simp [hsrc, SPhase.entries] at hq
        | init q0 arr =>
          simp only [hsrc, SPhase.entries, List.mem_singleton] at hq; subst hq
          simp only [A.entries, hsrc, SPhase.entries, List.singleton_append]
          exact List.perm_middle.symm
        | wait next arr q0 =>
          simp only [hsrc, SPhase.entries, List.mem_singleton] at hq; subst hq
          simp only [A.entries, hsrc, SPhase.entries, List.singleton_append]
          exact List.perm_middle.symm
        | ending q0 =>
          simp only [hsrc, SPhase.entries, List.mem_singleton] at hq; subst hq
          simp only [A.entries, hsrc, SPhase.entries, List.singleton_append]
          exact List.perm_middle.symm
      exact this.cons_inv.symm
    have hsa := hi.src
    cases hsrc : a.src with
    | done => simp [hsrc, SPhase.entries] at hq
    | init q0 arr =>
      simp only [hsrc, SPhase.entries, List.mem_singleton] at hq; subst hq
      rw [hsrc] at hsa
      cases arr with
      | nil =>
        obtain ⟨s', h1, h2, h3, h4, h5⟩ :=
          kstep_srcInitEnd (cfg := cfg) (losses := losses) (delays := delays) fuel hk hsrc hp hrest
        exact ⟨s', _, [], [], h1, h2, AStep.srcInitEnd a q _ hsrc rfl rfl, h3, by simpa using h4, by simpa using h5⟩
      | cons gap arr =>
        have hgap : 0 ≤ gap := hsa.2.2.1 gap (by simp)
        obtain ⟨s', h1, h2, h3, h4, h5⟩ :=
          kstep_srcInitWait (cfg := cfg) (losses := losses) (delays := delays) fuel hk hsrc hgap hp hrest
        exact ⟨s', _, [], [], h1, h2, AStep.srcInitWait a q _ gap arr hsrc rfl rfl, h3, by simpa using h4, by simpa using h5⟩
    | ending q0 =>
      simp only [hsrc, SPhase.entries, List.mem_singleton] at hq; subst hq
      obtain ⟨s', h1, h2, h3, h4, h5⟩ := kstep_srcEnd (cfg := cfg) (losses := losses) (delays := delays) fuel hk hsrc hp hrest
      exact ⟨s', _, [], [], h1, h2, AStep.srcEnd a q hsrc, h3, by simpa using h4, by simpa using h5⟩
    | wait next arr q0 =>
      simp only [hsrc, SPhase.entries, List.mem_singleton] at hq; subst hq
      rw [hsrc] at hsa
      have hn : a.pend = none := by
        cases hpe : a.pend with
        | none => rfl
        | some u =>
          exfalso
          have hu := hi.pend u hpe
          exact hi.not_eid_lt hmin (mem_pend hpe) hu.1 (hu.2.trans hsa.1.symm) (hsa.2.2.2 u hpe)
      cases arr with
      | nil =>
        obtain ⟨s', h1, h2, h3, h4, h5⟩ :=
          kstep_srcPutEnd (cfg := cfg) (losses := losses) (delays := delays) fuel hk hsrc hn hsa.2.2.1 hp hrest
        exact ⟨s', _, [], [], h1, h2, AStep.srcPutEnd a q _ _ next hsrc hn ⟨rfl, rfl⟩ ⟨rfl, rfl⟩, h3, by simpa using h4, by simpa using h5⟩
      | cons gap arr =>
        have hgap : 0 ≤ gap := hsa.2.1 gap (by simp)
        obtain ⟨s', h1, h2, h3, h4, h5⟩ :=
          kstep_srcPutWait (cfg := cfg) (losses := losses) (delays := delays) fuel hk hsrc hn hsa.2.2.1 hgap hp hrest
        exact ⟨s', _, [], [], h1, h2, AStep.srcPutWait a q _ _ next gap arr hsrc hn ⟨rfl, rfl⟩ ⟨rfl, rfl⟩ (Nat.lt_succ_self _), h3, by simpa using h4, by simpa using h5⟩
  · -- the pending `StorePut` event
    have hpe : a.pend = some q := by
      cases hpe : a.pend with
      | none => simp [hpe] at hq
      | some u => simp [hpe] at hq; rw [hq]
    have hrest : rest.Perm (a.wire.entries ++ a.src.entries) := by
      have : (q :: (a.wire.entries ++ a.src.entries)).Perm (q :: rest) := by
        refine List.Perm.trans ?_ hperm
        simp only [A.entries, hpe, Option.toList]
        rw [← List.append_assoc]
        exact (List.perm_append_comm (l₁ := [q])).trans (by simp)
      exact this.cons_inv.symm
    by_cases hw : ∃ g t0 nl nd i is, a.wire = .W g t0 nl nd ∧ a.items = i :: is
    · obtain ⟨g, t0, nl, nd, i, is, hwire, hit⟩ := hw
      obtain ⟨s', h1, h2, h3, h4, h5⟩ :=
        kstep_putHand (cfg := cfg) (losses := losses) (delays := delays) fuel hk hpe hwire hit hp hrest
      exact ⟨s', _, [], [], h1, h2, AStep.putHand a q _ g t0 nl nd i is hpe hwire hit ⟨rfl, rfl⟩, h3, by simpa using h4, by simpa using h5⟩
    · have hw' : a.wire.getQ = [] ∨ a.items = [] := by
        cases hwire : a.wire with
        | W g t0 nl nd =>
          right
          cases hit : a.items with
          | nil => rfl
          | cons i is => exact absurd ⟨g, t0, nl, nd, i, is, hwire, hit⟩ hw
        | init q0 => left; rfl
        | H g i q0 t0 nl nd => left; rfl
        | T t i q0 nl nd => left; rfl
      obtain ⟨s', h1, h2, h3, h4, h5⟩ :=
        kstep_putIdle (cfg := cfg) (losses := losses) (delays := delays) fuel hk hpe hw' hp hrest
      exact ⟨s', _, [], [], h1, h2, AStep.putIdle a q hpe hw', h3, by simpa using h4, by simpa using h5⟩

/-! ## the combined invariant -/

/-- the kernel state `s` of the run on `arrivals` is the configuration `a`, and `a` is sound -/
structure Inv (cfg : WireCfg ℚ) (losses delays arrivals : List ℚ) (s : KS) (a : A) : Prop where
  k : KInv s a
  a : AInv cfg losses delays arrivals a s.now (outsOf s.trace)

/-- **one kernel step**: it is `.ok`, keeps the invariant and uses one unit of the step budget -/
theorem inv_step (fuel : Nat) (h : Inv cfg losses delays arrivals s a) (hp : popMin s.agenda = some (q, rest)) :
    ∃ s' a', step (body cfg losses delays) (fuel + 1) s = .ok s' ∧ Inv cfg losses delays arrivals s' a' ∧ a'.mu + 1 ≤ a.mu := by
  obtain ⟨s', a', new, lf, h1, h2, h3, h4, h5, -⟩ := kstep fuel h.k h.a hp
  obtain ⟨g1, g2⟩ := astep_sound h.a (isMin_of_pop h.k hp).1 h3
  refine ⟨s', a', h1, ⟨h2, ?_⟩, g2⟩
  rw [h4, h5]; exact g1

/-- with an empty agenda everything has been served: the trace holds exactly what the wire's arithmetic prescribes -/
theorem inv_final (h : Inv cfg losses delays arrivals s a) (he : s.agenda = []) :
    outsOf s.trace = deliv cfg losses delays 0 0 0 (futureOf 0 0 arrivals) ∧ a.items = [] ∧ a.mu = 0 := by
  have hag := h.k.ag
  rw [he] at hag
  have hent : a.entries = [] := List.Perm.eq_nil hag.symm
  simp only [A.entries, List.append_eq_nil_iff] at hent
  obtain ⟨hpo, hsr, hpe⟩ := hent
  have hpe' : a.pend = none := by
    cases hp : a.pend with
    | none => rfl
    | some u => simp [hp] at hpe
  cases hwire : a.wire with
  | init q0 => simp [hwire, WPhase.entries] at hpo
  | H g id q0 t0 nl nd => simp [hwire, WPhase.entries] at hpo
  | T t id q0 nl nd => simp [hwire, WPhase.entries] at hpo
  | W g t0 nl nd =>
    cases hsrc : a.src with
    | init q0 arr => simp [hsrc, SPhase.entries] at hsr
    | wait next arr q0 => simp [hsrc, SPhase.entries] at hsr
    | ending q0 => simp [hsrc, SPhase.entries] at hsr
    | done =>
      have hit : a.items = [] := by
        by_contra hc
        have := h.a.idle (by simp [hwire, WPhase.idle]) hc
        rw [hpe'] at this; cases this
      refine ⟨?_, hit, ?_⟩
      · have := h.a.ghost
        simpa [pred, hwire, A.waiting, hit, hsrc, SPhase.future, deliv] using this
      · simp [A.mu, hwire, hsrc, hpe', hit, WPhase.mu, SPhase.mu]

theorem popMin_none {l : List (QEntry ℚ)} (h : popMin l = none) : l = [] := by
  cases l with
  | nil => rfl
  | cons x xs =>
    unfold popMin at h
    cases hp : popMin xs with
    | none => rw [hp] at h; cases h
    | some mr => rw [hp] at h; simp only at h; split at h <;> cases h

/-- **`run()` returns**: with more step budget than the configuration needs, `runLoop` ends with an empty agenda -/
theorem run_returns (fuel : Nat) : ∀ (n : Nat) (s : KS) (a : A), Inv cfg losses delays arrivals s a → a.mu < n →
    ∃ sF aF, runLoop (body cfg losses delays) (fuel + 1) none n s = .returned .none sF ∧
      Inv cfg losses delays arrivals sF aF ∧ sF.agenda = []
  | 0, _, _, _, hmu => absurd hmu (Nat.not_lt_zero _)
  | n + 1, s, a, h, hmu => by
    cases hp : popMin s.agenda with
    | none =>
      refine ⟨s, a, ?_, h, popMin_none hp⟩
      simp [runLoop, step, hp]
    | some qr =>
      obtain ⟨q, rest⟩ := qr
      obtain ⟨s', a', h1, h2, h3⟩ := inv_step fuel h hp
      have := run_returns fuel n s' a' h2 (by omega)
      simpa [runLoop, h1] using this

/-! ## the initial state -/

/-- the configuration of the initial state -/
def a0 (arrivals : List ℚ) : A :=
  { wire := .init ⟨0, URGENT, 0, 1⟩, src := .init ⟨0, URGENT, 1, 3⟩ arrivals, pend := none, items := [], cts := [] }

theorem inv_init (arrivals : List ℚ) (hg : GapsOK arrivals) :
    Inv cfg losses delays arrivals (initState arrivals) (a0 arrivals) := by
  simp [-Array.getD_eq_getD_getElem?, initState, doCall, KState.newLabelled, KState.newEv, KState.setProc, KState.schedule,
    zero_eq', cRec, a0]
  refine ⟨⟨⟨?_, ?_, ?_⟩, ?_, ?_, ?_, ?_, ?_, ?_, ?_, ?_⟩, ⟨?_, ?_, ?_, ?_, ?_, ?_, ?_⟩⟩
  · intro q hq; simp at hq; rcases hq with rfl | rfl <;> simp
  · intro q hq; simp at hq; rcases hq with rfl | rfl <;> simp
  · simp
  · simp only [A.entries, WPhase.entries, SPhase.entries, Option.toList, List.append_nil, List.singleton_append]
    exact List.Perm.swap _ _ _
  · simp
  · simp [KState.res, WPhase.getQ, storeRec]
  · refine ⟨rfl, ?_, ?_⟩
    · simp [EvIs, KState.ev]
    · simp [proc?_eq, plookup]
  · refine ⟨rfl, ?_, ?_, ?_⟩
    · simp [EvIs, KState.ev]
    · simp [proc?_eq, plookup]
    · simp [EvIs, KState.ev]
  · intro u hu; cases hu
  · simp [lookup]
  · intro k hk; simp at hk
  · exact ⟨rfl, rfl, rfl, rfl, rfl⟩
  · exact ⟨rfl, rfl, hg, rfl, rfl⟩
  · intro u hu; cases hu
  · intro _ h; exact absurd rfl h
  · intro x hx
    simp [A.entries, WPhase.entries, SPhase.entries] at hx
    rcases hx with rfl | rfl <;> simp
  · intro i hi; cases hi
  · simp [outsOf, pred, A.waiting, SPhase.future]

end WireK
