import OnlVerif.Lemmas.REDKFrame
/-!
# Generator → REDPort → sink on the kernel model: kernel steps that run `Port.run` (and `PacketSink.put`)

Each lemma executes `Environment.step` of the kernel model symbolically on a state with configuration `a` whose next
agenda entry belongs to the port process, and shows that the resulting state has the configuration `AStep` names.
-/

set_option linter.unusedSimpArgs false

namespace REDK
open REDOnK

variable {c : Cfg ℚ} {sizes0 : List Nat}
variable {s : KS} {a : A} {q : QEntry ℚ} {rest : List (QEntry ℚ)}

theorem txTime_nonneg (hr : 0 < c.rate) (id : Int) : 0 ≤ txTime sizes0 c.rate id := by
  unfold txTime; rw [Num.ofNat_rat]; exact div_nonneg (Nat.cast_nonneg _) (le_of_lt hr)

/-- the port's `Initialize` event: `Port.run` starts, finds the store empty and blocks in `store.get()` -/
theorem kstep_portInit (fuel : Nat) (hk : KInv s a) (hport : a.port = .init q) (hit : a.items = [])
    (hp : popMin s.agenda = some (q, rest)) (hrest : rest.Perm (a.src.entries ++ a.pend.toList)) :
    ∃ s', step (body c sizes0) (fuel + 1) s = .ok s' ∧ KInv s' { a with port := .W s.events.size, len := a.len - 1 } ∧
      s'.now = q.time ∧ viewsOf s'.trace = viewsOf s.trace := by
  have hpk := hk.port
  rw [hport] at hpk
  obtain ⟨hqe, ⟨hkind, hcbs, hout⟩, hproc⟩ := hpk
  have hcbs0 := hcbs
  have hgs : 1 < s.events.size := KState.lt_of_cbs hcbs
  have hres := hk.res
  have hrsz := hk.rsz
  have hwf := openEvent_wf s q rest hk.wf hp
  have hc0 := hk.c0; have hc1 := hk.c1; have hc2 := hk.c2; have hc3 := hk.c3; have hc4 := hk.c4
  have hc5 := hk.c5; have hc6 := hk.c6; have hc7 := hk.c7; have hc8 := hk.c8
  rw [step_eq _ _ _ _ _ _ hp (hqe ▸ hcbs)]
  simp only [List.foldl, runCb]
  rw [resume_eq _ _ _ _ _ _ (show (openEvent s q rest).proc? 0 = _ from hproc)]
  simp only [KState.ev, KState.res] at hkind hcbs hout hres
  rw [hport, hit] at hres
  ksimp [hqe, hgs, hkind, hcbs, hout, hres, hrsz, Nat.ne_of_lt hgs, PPhase.getQ, hc6]
  have hfr : ∀ x < s.events.size, (∀ c, (s.ev x).cbs = some c → c ∉ [[Cb.resume 0]]) → x ≠ 1 := by
    intro x _ hc; rintro rfl; exact hc _ hcbs0 (by simp)
  refine ⟨⟨?_, hrest, ?_, ?_, ?_, ?_, ?_, ?_, ?_, ?_, ?_, ?_, ?_, ?_, ?_, ?_⟩, ?_⟩
  · exact wf_same hwf.1 rfl rfl rfl
  · ksimp [hrsz]
  · ksimp [hrsz, hit, PPhase.getQ]
  · refine ⟨?_, ?_⟩
    · ksimp [EvIs]
    · ksimp
  · refine SrcEv.frame hk.src (evFrame_of [[.resume 0]] ?_) (by decide) (by decide) (by ksimp)
    frame_ev hfr
  · refine pend_frame hk.pend (evFrame_of [[.resume 0]] ?_) (by decide)
    frame_ev hfr
  · ksimp [hc0]
  · ksimp [hc1]
  · ksimp [hc2]
  · ksimp [hc3]
  · ksimp [hc4]
  · ksimp [hc5]
  · ksimp
  · ksimp [hc7]
  · ksimp [hc8]
  · simp [viewsOf_push]

/-- the `StoreGet` event of the port: the server resumes with the packet and starts to transmit -/
theorem kstep_serve (fuel : Nat) (hr : 0 < c.rate) {g : EvId} {id : Int} (hk : KInv s a) (hport : a.port = .H g id q)
    (hp : popMin s.agenda = some (q, rest)) (hrest : rest.Perm (a.src.entries ++ a.pend.toList)) :
    ∃ s', step (body c sizes0) (fuel + 1) s = .ok s' ∧
      KInv s' { a with port := .T s.events.size id ⟨q.time + txTime sizes0 c.rate id, NORMAL, s.eid, s.events.size⟩,
                       busy := true, bsz := szOf sizes0 id } ∧
      s'.now = q.time ∧ viewsOf s'.trace = viewsOf s.trace := by
  have hpk := hk.port
  rw [hport] at hpk
  obtain ⟨hqe, ⟨hkind, hcbs, hout⟩, hproc⟩ := hpk
  have hcbs0 := hcbs
  have hgs : g < s.events.size := KState.lt_of_cbs hcbs
  have hres := hk.res
  have hrsz := hk.rsz
  have htx := txTime_nonneg (c := c) (sizes0 := sizes0) hr id
  have hwf := openEvent_wf s q rest hk.wf hp
  have hc0 := hk.c0; have hc1 := hk.c1; have hc2 := hk.c2; have hc3 := hk.c3; have hc4 := hk.c4
  have hc5 := hk.c5; have hc6 := hk.c6; have hc7 := hk.c7; have hc8 := hk.c8
  rw [step_eq _ _ _ _ _ _ hp (hqe ▸ hcbs)]
  simp only [List.foldl, runCb]
  rw [triggerPut_none _ (by show (s.res 0).putQ = []; rw [hres]; rfl)]
  rw [resume_eq _ _ _ _ _ _ (show (openEvent s q rest).proc? 0 = _ from hproc)]
  simp only [KState.ev, KState.res] at hkind hcbs hout hres
  ksimp [hqe, hgs, hkind, hcbs, hout, hres, hrsz, htx, hr, Nat.ne_of_lt hgs]
  have hfr : ∀ x < s.events.size, (∀ c, (s.ev x).cbs = some c → c ∉ [[Cb.trigPut 0, Cb.resume 0]]) → x ≠ g := by
    intro x _ hc; rintro rfl; exact hc _ hcbs0 (by simp)
  refine ⟨⟨?_, ?_, hrsz, ?_, ?_, ?_, ?_, ?_, ?_, ?_, ?_, ?_, ?_, ?_, ?_, ?_⟩, ?_⟩
  · exact wf_push1 hwf.1 _ rfl rfl rfl rfl (by show q.time ≤ q.time + txTime sizes0 c.rate id; linarith)
  · exact List.Perm.cons _ hrest
  · rw [hport] at hres; exact hres
  · refine ⟨rfl, ?_, ?_⟩
    · ksimp [EvIs]
    · ksimp
  · refine SrcEv.frame hk.src (evFrame_of [[.trigPut 0, .resume 0]] ?_) (by decide) (by decide) (by ksimp)
    frame_ev hfr
  · refine pend_frame hk.pend (evFrame_of [[.trigPut 0, .resume 0]] ?_) (by decide)
    frame_ev hfr
  · ksimp [hc0]
  · ksimp [hc1]
  · ksimp
  · ksimp
  · ksimp [hc4]
  · ksimp [hc5]
  · ksimp [hc6]
  · ksimp [hc7]
  · ksimp [hc8]
  · simp [viewsOf_push]

/-- `rate ≤ 0`: the `StoreGet` event of the port: the packet is forwarded in the same burst; the store is empty -/
theorem kstep_serveNowIdle (fuel : Nat) (hr : ¬ 0 < c.rate) {g : EvId} {id : Int} (hk : KInv s a)
    (hport : a.port = .H g id q) (hit : a.items = []) (hp : popMin s.agenda = some (q, rest))
    (hrest : rest.Perm (a.src.entries ++ a.pend.toList)) :
    ∃ s', step (body c sizes0) (fuel + 1) s = .ok s' ∧
      KInv s' { a with port := .W s.events.size, bytes := a.bytes - (szOf sizes0 id : Int), busy := false, bsz := 0, len := a.len - 1, scnt := a.scnt + 1, sbytes := a.sbytes + szOf sizes0 id } ∧
      s'.now = q.time ∧ viewsOf s'.trace = viewsOf s.trace ++ [.out id q.time, .sink id q.time] := by
  have hpk := hk.port
  rw [hport] at hpk
  obtain ⟨hqe, ⟨hkind, hcbs, hout⟩, hproc⟩ := hpk
  have hcbs0 := hcbs
  have hgs : g < s.events.size := KState.lt_of_cbs hcbs
  have hres := hk.res
  have hrsz := hk.rsz
  have hwf := openEvent_wf s q rest hk.wf hp
  have hc0 := hk.c0; have hc1 := hk.c1; have hc2 := hk.c2; have hc3 := hk.c3; have hc4 := hk.c4
  have hc5 := hk.c5; have hc6 := hk.c6; have hc7 := hk.c7; have hc8 := hk.c8
  rw [step_eq _ _ _ _ _ _ hp (hqe ▸ hcbs)]
  simp only [List.foldl, runCb]
  rw [triggerPut_none _ (by show (s.res 0).putQ = []; rw [hres]; rfl)]
  rw [resume_eq _ _ _ _ _ _ (show (openEvent s q rest).proc? 0 = _ from hproc)]
  simp only [KState.ev, KState.res] at hkind hcbs hout hres
  rw [hport, hit] at hres
  ksimp [hqe, hgs, hkind, hcbs, hout, hres, hrsz, hr, Nat.ne_of_lt hgs, PPhase.getQ, hc0, hc6, hc7, hc8]
  have hfr : ∀ x < s.events.size, (∀ c, (s.ev x).cbs = some c → c ∉ [[Cb.trigPut 0, Cb.resume 0]]) → x ≠ g := by
    intro x _ hc; rintro rfl; exact hc _ hcbs0 (by simp)
  refine ⟨⟨?_, hrest, ?_, ?_, ?_, ?_, ?_, ?_, ?_, ?_, ?_, ?_, ?_, ?_, ?_, ?_⟩, ?_⟩
  · exact wf_same hwf.1 rfl rfl rfl
  · ksimp [hrsz]
  · ksimp [hrsz, hit, PPhase.getQ]
  · refine ⟨?_, ?_⟩
    · ksimp [EvIs]
    · ksimp
  · refine SrcEv.frame hk.src (evFrame_of [[.trigPut 0, .resume 0]] ?_) (by decide) (by decide) (by ksimp)
    frame_ev hfr
  · refine pend_frame hk.pend (evFrame_of [[.trigPut 0, .resume 0]] ?_) (by decide)
    frame_ev hfr
  · ksimp
  · ksimp [hc1]
  · ksimp
  · ksimp
  · ksimp [hc4]
  · ksimp [hc5]
  · ksimp [hc6]
  · ksimp [hc7]
  · ksimp [hc8]
  · simp [viewsOf_push]

/-- `rate ≤ 0`: the packet is forwarded in the burst that took it and the next packet is taken at once -/
theorem kstep_serveNowNext (fuel : Nat) (hr : ¬ 0 < c.rate) {g : EvId} {id i : Int} {is : List Int} (hk : KInv s a)
    (hport : a.port = .H g id q) (hit : a.items = i :: is) (hp : popMin s.agenda = some (q, rest))
    (hrest : rest.Perm (a.src.entries ++ a.pend.toList)) :
    ∃ s', step (body c sizes0) (fuel + 1) s = .ok s' ∧
      KInv s' { a with port := .H s.events.size i ⟨q.time, NORMAL, s.eid, s.events.size⟩, items := is,
                       bytes := a.bytes - (szOf sizes0 id : Int), busy := false, bsz := 0, len := a.len - 1, scnt := a.scnt + 1, sbytes := a.sbytes + szOf sizes0 id } ∧
      s'.now = q.time ∧ viewsOf s'.trace = viewsOf s.trace ++ [.out id q.time, .sink id q.time] := by
  have hpk := hk.port
  rw [hport] at hpk
  obtain ⟨hqe, ⟨hkind, hcbs, hout⟩, hproc⟩ := hpk
  have hcbs0 := hcbs
  have hgs : g < s.events.size := KState.lt_of_cbs hcbs
  have hres := hk.res
  have hrsz := hk.rsz
  have hwf := openEvent_wf s q rest hk.wf hp
  have hc0 := hk.c0; have hc1 := hk.c1; have hc2 := hk.c2; have hc3 := hk.c3; have hc4 := hk.c4
  have hc5 := hk.c5; have hc6 := hk.c6; have hc7 := hk.c7; have hc8 := hk.c8
  rw [step_eq _ _ _ _ _ _ hp (hqe ▸ hcbs)]
  simp only [List.foldl, runCb]
  rw [triggerPut_none _ (by show (s.res 0).putQ = []; rw [hres]; rfl)]
  rw [resume_eq _ _ _ _ _ _ (show (openEvent s q rest).proc? 0 = _ from hproc)]
  simp only [KState.ev, KState.res] at hkind hcbs hout hres
  rw [hport, hit] at hres
  ksimp [hqe, hgs, hkind, hcbs, hout, hres, hrsz, hr, Nat.ne_of_lt hgs, PPhase.getQ, hc0, hc6, hc7, hc8]
  have hfr : ∀ x < s.events.size, (∀ c, (s.ev x).cbs = some c → c ∉ [[Cb.trigPut 0, Cb.resume 0]]) → x ≠ g := by
    intro x _ hc; rintro rfl; exact hc _ hcbs0 (by simp)
  refine ⟨⟨?_, ?_, ?_, ?_, ?_, ?_, ?_, ?_, ?_, ?_, ?_, ?_, ?_, ?_, ?_, ?_⟩, ?_⟩
  · exact wf_push1 hwf.1 _ rfl rfl rfl rfl (le_refl _)
  · exact List.Perm.cons _ hrest
  · ksimp [hrsz]
  · ksimp [hrsz, hit, PPhase.getQ]
  · refine ⟨rfl, ?_, ?_⟩
    · ksimp [EvIs]
    · ksimp
  · refine SrcEv.frame hk.src (evFrame_of [[.trigPut 0, .resume 0]] ?_) (by decide) (by decide) (by ksimp)
    frame_ev hfr
  · refine pend_frame hk.pend (evFrame_of [[.trigPut 0, .resume 0]] ?_) (by decide)
    frame_ev hfr
  · ksimp
  · ksimp [hc1]
  · ksimp
  · ksimp
  · ksimp [hc4]
  · ksimp [hc5]
  · ksimp [hc6]
  · ksimp [hc7]
  · ksimp [hc8]
  · simp [viewsOf_push]

/-- the transmission timeout fires and the store is empty: `out.put(packet)`, then the server blocks in `get` -/
theorem kstep_fireIdle (fuel : Nat) {t : EvId} {id : Int} (hk : KInv s a) (hport : a.port = .T t id q)
    (hit : a.items = []) (hp : popMin s.agenda = some (q, rest))
    (hrest : rest.Perm (a.src.entries ++ a.pend.toList)) :
    ∃ s', step (body c sizes0) (fuel + 1) s = .ok s' ∧
      KInv s' { a with port := .W s.events.size, bytes := a.bytes - (szOf sizes0 id : Int), busy := false, bsz := 0, len := a.len - 1, scnt := a.scnt + 1, sbytes := a.sbytes + szOf sizes0 id } ∧
      s'.now = q.time ∧ viewsOf s'.trace = viewsOf s.trace ++ [.out id q.time, .sink id q.time] := by
  have hpk := hk.port
  rw [hport] at hpk
  obtain ⟨hqe, ⟨hkind, hcbs, hout⟩, hproc⟩ := hpk
  have hcbs0 := hcbs
  have hgs : t < s.events.size := KState.lt_of_cbs hcbs
  have hres := hk.res
  have hrsz := hk.rsz
  have hwf := openEvent_wf s q rest hk.wf hp
  have hc0 := hk.c0; have hc1 := hk.c1; have hc2 := hk.c2; have hc3 := hk.c3; have hc4 := hk.c4
  have hc5 := hk.c5; have hc6 := hk.c6; have hc7 := hk.c7; have hc8 := hk.c8
  rw [step_eq _ _ _ _ _ _ hp (hqe ▸ hcbs)]
  simp only [List.foldl, runCb]
  rw [resume_eq _ _ _ _ _ _ (show (openEvent s q rest).proc? 0 = _ from hproc)]
  simp only [KState.ev, KState.res] at hkind hcbs hout hres
  rw [hport, hit] at hres
  ksimp [hqe, hgs, hkind, hcbs, hout, hres, hrsz, Nat.ne_of_lt hgs, PPhase.getQ, hc0, hc6, hc7, hc8]
  have hfr : ∀ x < s.events.size, (∀ c, (s.ev x).cbs = some c → c ∉ [[Cb.resume 0]]) → x ≠ t := by
    intro x _ hc; rintro rfl; exact hc _ hcbs0 (by simp)
  refine ⟨⟨?_, hrest, ?_, ?_, ?_, ?_, ?_, ?_, ?_, ?_, ?_, ?_, ?_, ?_, ?_, ?_⟩, ?_⟩
  · exact wf_same hwf.1 rfl rfl rfl
  · ksimp [hrsz]
  · ksimp [hrsz, hit, PPhase.getQ]
  · refine ⟨?_, ?_⟩
    · ksimp [EvIs]
    · ksimp
  · refine SrcEv.frame hk.src (evFrame_of [[.resume 0]] ?_) (by decide) (by decide) (by ksimp)
    frame_ev hfr
  · refine pend_frame hk.pend (evFrame_of [[.resume 0]] ?_) (by decide)
    frame_ev hfr
  · ksimp
  · ksimp [hc1]
  · ksimp
  · ksimp
  · ksimp [hc4]
  · ksimp [hc5]
  · ksimp [hc6]
  · ksimp [hc7]
  · ksimp [hc8]
  · simp [viewsOf_push]

/-- the transmission timeout fires and a packet waits: `out.put(packet)`, then `store.get()` is served at once -/
theorem kstep_fireNext (fuel : Nat) {t : EvId} {id i : Int} {is : List Int} (hk : KInv s a)
    (hport : a.port = .T t id q) (hit : a.items = i :: is) (hp : popMin s.agenda = some (q, rest))
    (hrest : rest.Perm (a.src.entries ++ a.pend.toList)) :
    ∃ s', step (body c sizes0) (fuel + 1) s = .ok s' ∧
      KInv s' { a with port := .H s.events.size i ⟨q.time, NORMAL, s.eid, s.events.size⟩, items := is,
                       bytes := a.bytes - (szOf sizes0 id : Int), busy := false, bsz := 0, len := a.len - 1, scnt := a.scnt + 1, sbytes := a.sbytes + szOf sizes0 id } ∧
      s'.now = q.time ∧ viewsOf s'.trace = viewsOf s.trace ++ [.out id q.time, .sink id q.time] := by
  have hpk := hk.port
  rw [hport] at hpk
  obtain ⟨hqe, ⟨hkind, hcbs, hout⟩, hproc⟩ := hpk
  have hcbs0 := hcbs
  have hgs : t < s.events.size := KState.lt_of_cbs hcbs
  have hres := hk.res
  have hrsz := hk.rsz
  have hwf := openEvent_wf s q rest hk.wf hp
  have hc0 := hk.c0; have hc1 := hk.c1; have hc2 := hk.c2; have hc3 := hk.c3; have hc4 := hk.c4
  have hc5 := hk.c5; have hc6 := hk.c6; have hc7 := hk.c7; have hc8 := hk.c8
  rw [step_eq _ _ _ _ _ _ hp (hqe ▸ hcbs)]
  simp only [List.foldl, runCb]
  rw [resume_eq _ _ _ _ _ _ (show (openEvent s q rest).proc? 0 = _ from hproc)]
  simp only [KState.ev, KState.res] at hkind hcbs hout hres
  rw [hport, hit] at hres
  ksimp [hqe, hgs, hkind, hcbs, hout, hres, hrsz, Nat.ne_of_lt hgs, PPhase.getQ, hc0, hc6, hc7, hc8]
  have hfr : ∀ x < s.events.size, (∀ c, (s.ev x).cbs = some c → c ∉ [[Cb.resume 0]]) → x ≠ t := by
    intro x _ hc; rintro rfl; exact hc _ hcbs0 (by simp)
  refine ⟨⟨?_, ?_, ?_, ?_, ?_, ?_, ?_, ?_, ?_, ?_, ?_, ?_, ?_, ?_, ?_, ?_⟩, ?_⟩
  · exact wf_push1 hwf.1 _ rfl rfl rfl rfl (le_refl _)
  · exact List.Perm.cons _ hrest
  · ksimp [hrsz]
  · ksimp [hrsz, hit, PPhase.getQ]
  · refine ⟨rfl, ?_, ?_⟩
    · ksimp [EvIs]
    · ksimp
  · refine SrcEv.frame hk.src (evFrame_of [[.resume 0]] ?_) (by decide) (by decide) (by ksimp)
    frame_ev hfr
  · refine pend_frame hk.pend (evFrame_of [[.resume 0]] ?_) (by decide)
    frame_ev hfr
  · ksimp
  · ksimp [hc1]
  · ksimp
  · ksimp
  · ksimp [hc4]
  · ksimp [hc5]
  · ksimp [hc6]
  · ksimp [hc7]
  · ksimp [hc8]
  · simp [viewsOf_push]

end REDK
