import OnlVerif.Lemmas.GenScalar
import OnlVerif.Net.Port
import OnlVerif.Generated.Port
/-!
# Bridge between the *generated* `Port` / `REDPort` definitions and the hand-written model (`Net/Port.lean`)

`Generated/Port.lean` is rewritten from `onl/netdev/port.py` and `red_port.py` on every `./check C09`.  The model keeps the
counters as `Nat`, `busy` as `Bool` and the effects of `put` as its result `(state, accepted?, packet)`; the generated code
keeps Python ints as `Int` and counts effects in `eff_*` fields.  `GenPort.obj` / `GenPort.redObj` is the explicit
encoding: the Python object that a model configuration + state stands for.  The lemmas hold for every scalar type.
-/

namespace GenPort
variable {α : Type} [Num α]

/-- the `Port` object a model configuration `c` and device state `d` stand for; `out` = an `out` is attached,
`puts` / `outs` = how often `self.store.put(packet)` / `self.out.put(packet)` have been called so far -/
def obj (c : PortCfg α) (d : PortSt α) (out : Bool) (puts outs : Nat) : Gen.PortObj α :=
  { rate := c.rate, qlimit := c.qlimit, limit_bytes := c.limitBytes, element_id := c.hasId, out := out,
    byte_size := d.byteSize, packets_received := d.received, packets_dropped := d.dropped,
    busy := if d.busy then 1 else 0, busy_packet_size := d.busySize,
    eff_store_put := puts, eff_perhop_stamp := d.stamps, eff_out_put := outs }

/-- the `REDPort` object (the fields `REDPort.put` touches) for configuration `c` with RED parameters `red`
(max_threshold, min_threshold, max_probability, weight_factor) and `qlimit = q` -/
def redObj (c : PortCfg α) (red : α × α × α × Nat) (q : Int) (d : PortSt α) (puts : Nat) : Gen.RedPortObj α :=
  { qlimit := q, limit_bytes := c.limitBytes, byte_size := d.byteSize, packets_received := d.received,
    packets_dropped := d.dropped, max_probability := red.2.2.1, max_threshold := red.1, min_threshold := red.2.1,
    weight_factor := red.2.2.2, average_queue_size := d.avg, eff_store_put := puts }

/-- 1 if the admission result says "accepted" -/
def acc (r : PortSt α × Bool × Pkt α) : Nat := if r.2.1 then 1 else 0

theorem ofInt_natCast (n : Nat) : (Num.ofInt (n : Int) : α) = Num.ofNat n := rfl

theorem ofInt_of_nonneg (i : Int) (h : 0 ≤ i) : (Num.ofInt i : α) = Num.ofNat i.toNat := by
  obtain ⟨n, rfl⟩ := Int.eq_ofNat_of_zero_le h
  rfl

theorem put_eq (c : PortCfg α) (d : PortSt α) (out : Bool) (puts outs waiting : Nat) (p : Pkt α) :
    Gen.Port.put (obj c d out puts outs) waiting p.size =
      obj c (Port.admitPlain c d waiting p).1 out (puts + acc (Port.admitPlain c d waiting p)) outs := by
  unfold Gen.Port.put Port.admitPlain Port.tailDrop acc obj Port.refuse Port.accept
  cases hq : c.qlimit <;> cases hb : c.limitBytes <;> cases hi : c.hasId <;> simp <;> split <;> simp_all

/-! ### `Port.run` -/

theorem run_start_eq (c : PortCfg α) (d : PortSt α) (out : Bool) (puts outs : Nat) (now x y : α) (p : Pkt α) :
    Gen.Port.run_start (obj c d out puts outs) p.size = obj c (Port.onResume c d now x y p).1 out puts outs := by
  have h : (Port.onResume c d now x y p).1 = { d with busy := true, busySize := p.size } := by
    unfold Port.onResume; split <;> rfl
  rw [h]
  simp [Gen.Port.run_start, obj]

theorem run_tx_guard_eq (c : PortCfg α) (d : PortSt α) (out : Bool) (puts outs : Nat) :
    Gen.Port.run_tx_guard (obj c d out puts outs) = decide (Num.zero < c.rate) := by
  unfold Gen.Port.run_tx_guard obj
  rfl

/-- over exact rationals (insensitive to `8` vs `8.0` or to the association of the product in the source) -/
theorem run_tx_delay_eq (c : PortCfg ℚ) (d : PortSt ℚ) (out : Bool) (puts outs : Nat) (p : Pkt ℚ) :
    Gen.Port.run_tx_delay (obj c d out puts outs) p.size = Port.txTime c p := by
  unfold Gen.Port.run_tx_delay Port.txTime obj
  simp only [Num.ofInt_rat, Num.ofNat_rat']
  push_cast
  ring

theorem run_next_eq (c : PortCfg ℚ) (d : PortSt ℚ) (out : Bool) (puts outs : Nat) (now x y : ℚ) (p : Pkt ℚ) :
    (Port.onResume c d now x y p).2.2 =
      if Gen.Port.run_tx_guard (obj c d out puts outs) = true
      then Next.wait (Gen.Port.run_tx_delay (obj c d out puts outs) p.size) else Next.emit := by
  rw [run_tx_guard_eq, run_tx_delay_eq]
  unfold Port.onResume
  split <;> simp_all

theorem run_done_eq (c : PortCfg α) (d : PortSt α) (puts outs : Nat) (p : Pkt α) :
    Gen.Port.run_done (obj c d true puts outs) p.size = obj c (Port.onDone d p) true puts (outs + 1) := by
  unfold Gen.Port.run_done Port.onDone obj
  simp only [if_true, Bool.false_eq_true, if_false]
  rfl

/-! ### `REDPort.put` -/

theorem redCur_eq (c : PortCfg α) (d : PortSt α) (waiting : Nat) (hb : 0 ≤ d.byteSize) :
    (Num.ofInt (if c.limitBytes = true then d.byteSize else (waiting : Int)) : α) = Port.redCur c d waiting := by
  unfold Port.redCur
  split
  · exact ofInt_of_nonneg _ hb
  · rfl

/-- the translated method is the composition of its two translated fragments (by unfolding) -/
theorem red_split {α : Type} [Num α] (s : Gen.RedPortObj α) (waiting size : Int) (u : α) :
    Gen.REDPort.put s waiting size u = Gen.REDPort.put_decide (Gen.REDPort.put_average s waiting) size u := rfl

/-- the state after the average update, as a model state -/
def avgSt (c : PortCfg ℚ) (red : ℚ × ℚ × ℚ × Nat) (d : PortSt ℚ) (waiting : Nat) : PortSt ℚ :=
  { d with received := d.received + 1,
           avg := Port.redAvg d.avg (Port.redCur c { d with received := d.received + 1 } waiting) red.2.2.2 }

theorem red_average_eq (c : PortCfg ℚ) (red : ℚ × ℚ × ℚ × Nat) (q : Int) (d : PortSt ℚ) (puts waiting : Nat)
    (hb : 0 ≤ d.byteSize) :
    Gen.REDPort.put_average (redObj c red q d puts) waiting = redObj c red q (avgSt c red d waiting) puts := by
  have hc : Port.redCur c { d with received := d.received + 1 } waiting =
      (((if c.limitBytes = true then d.byteSize else (waiting : Int)) : Int) : ℚ) := by
    rw [← Num.ofInt_rat]
    exact (redCur_eq c { d with received := d.received + 1 } waiting hb).symm
  unfold avgSt
  rw [hc]
  unfold Gen.REDPort.put_average Port.redAvg redObj
  simp only [Num.ofInt_rat, Num.ofNat_rat', Num.powNeg_rat, Gen.RedPortObj.mk.injEq, true_and, and_true]
  refine ⟨by push_cast; rfl, ?_⟩
  push_cast
  ring

theorem red_decide_eq {α : Type} [Num α] (c : PortCfg α) (red : α × α × α × Nat) (q : Int) (d : PortSt α) (puts : Nat)
    (p : Pkt α) (hq : c.qlimit = some q) (h0 : 0 ≤ q) :
    Gen.REDPort.put_decide (redObj c red q d puts) p.size p.draw =
      redObj c red q
        (if Port.redDrop (Port.redLimit c) red.1 red.2.1 red.2.2.1 d.avg p.draw = true then Port.refuse d p else Port.accept d p).1
        (puts + acc (if Port.redDrop (Port.redLimit c) red.1 red.2.1 red.2.2.1 d.avg p.draw = true then Port.refuse d p else Port.accept d p)) := by
  have hl : Port.redLimit c = (Num.ofInt q : α) := by
    unfold Port.redLimit; rw [hq]; exact (ofInt_of_nonneg q h0).symm
  rw [hl]
  unfold Gen.REDPort.put_decide Port.redDrop Port.refuse Port.accept acc redObj
  dsimp only
  repeat' split
  all_goals simp_all

/-- `REDPort.put` (translated) = `Port.admitRed` (model) under the encoding, over exact rationals: the average update is
compared up to ring identities, the decision tree literally -/
theorem red_put_eq (c : PortCfg ℚ) (red : ℚ × ℚ × ℚ × Nat) (q : Int) (d : PortSt ℚ) (puts waiting : Nat) (p : Pkt ℚ)
    (hq : c.qlimit = some q) (h0 : 0 ≤ q) (hb : 0 ≤ d.byteSize) :
    Gen.REDPort.put (redObj c red q d puts) waiting p.size p.draw =
      redObj c red q (Port.admitRed c red d waiting p).1 (puts + acc (Port.admitRed c red d waiting p)) := by
  rw [red_split, red_average_eq c red q d puts waiting hb, red_decide_eq c red q _ puts p hq h0]
  rfl

end GenPort
