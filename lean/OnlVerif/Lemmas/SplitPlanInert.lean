import OnlVerif.Lemmas.SplitPlanView
/-!
# Split plans on a state in which nothing is queued (C03): the case of an empty event table

`run(until=number)` on an empty event table (`u = 0`) is outside `SplitCfg` (which needs `0 < u`).  It is covered here, more
generally for every state whose agenda is empty: `step()` raises `EmptySchedule`, `run(until=event)` returns at once or
raises, `run(until=number)` only advances the clock (and leaves one dead sentinel record) — trace and process table are
untouched, so a split plan on such a state observes exactly what the uninterrupted run (zero steps) observes.
A well-scoped state with an empty event table has an empty agenda, an empty trace and no process.
-/

variable {σ : Type}

namespace SplitPlan
open SplitWF SplitCfg

theorem ev_plant (t : ℚ) (s : KState ℚ σ) :
    (plant t s).ev s.events.size = { kind := .sentinel, cbs := some [.stop], out := some (.ok .none) } := by
  unfold plant KState.addCb
  have hev : ((s.newEv { kind := .sentinel, cbs := some [], out := some (.ok .none) }).1.scheduleAt s.events.size URGENT t).ev
      s.events.size = { kind := .sentinel, cbs := some [], out := some (.ok .none) } := by
    show (s.newEv _).1.ev s.events.size = _
    rw [KState.ev_newEv, if_pos rfl]
  rw [hev, KState.ev_setEv, if_pos ⟨rfl, by simp [KState.scheduleAt, KState.newEv]⟩]
  rfl

/-- the state in which `run(until=t)` returns when nothing is queued -/
def inertAfter (t : ℚ) (s : KState ℚ σ) : KState ℚ σ :=
  openEvent (plant t s) { time := t, prio := URGENT, eid := s.eid, ev := s.events.size } []

theorem step_plant_inert (body : σ → Resume → Burst ℚ σ) (fuel : Nat) (t : ℚ) (s : KState ℚ σ) (hag : s.agenda = []) :
    step body fuel (plant t s) = .stopped (.ok .none) (inertAfter t s) := by
  have ha : (plant t s).agenda = [{ time := t, prio := URGENT, eid := s.eid, ev := s.events.size }] := by
    show { time := t, prio := URGENT, eid := s.eid, ev := s.events.size } :: s.agenda = _
    rw [hag]
  have hpop : popMin (plant t s).agenda =
      some ({ time := t, prio := URGENT, eid := s.eid, ev := s.events.size }, []) := by rw [ha]; rfl
  unfold step
  rw [hpop]
  simp only
  rw [ev_plant]
  simp only
  have hout : ((inertAfter t s).ev s.events.size).out = some (.ok .none) := by
    show ((openEvent (plant t s) _ []).ev s.events.size).out = _
    have : (openEvent (plant t s) { time := t, prio := URGENT, eid := s.eid, ev := s.events.size } []).ev s.events.size =
        ((plant t s).setEv s.events.size { (plant t s).ev s.events.size with cbs := none }).ev s.events.size := rfl
    rw [this, KState.ev_setEv]
    split
    · rw [ev_plant]
    · rw [ev_plant]
  show closeEvent ([Cb.stop].foldl (runCb body fuel s.events.size) { s := inertAfter t s }) s.events.size = _
  simp only [List.foldl_cons, List.foldl_nil, runCb, hout, Option.getD_some]
  rfl

/-- **`run(until=t)` on a state in which nothing is queued only advances the clock** -/
theorem runUntilTime_inert (body : σ → Resume → Burst ℚ σ) (fuel n : Nat) (t : ℚ) (s s' : KState ℚ σ) (v : Val)
    (hag : s.agenda = []) (h : runUntilTime body fuel n t s = .returned v s') :
    v = .none ∧ s' = inertAfter t s := by
  have hlt : s.now < t := by
    apply Classical.byContradiction
    intro hc
    unfold runUntilTime at h
    rw [if_pos (not_lt.mp hc)] at h
    cases h
  rw [runUntilTime_eq body fuel n t s hlt] at h
  cases n with
  | zero => cases h
  | succ n =>
    simp only [runLoop, step_plant_inert body fuel t s hag] at h
    have hout : ((inertAfter t s).ev s.events.size).out = some (.ok .none) := by
      have : (inertAfter t s).ev s.events.size =
          ((plant t s).setEv s.events.size { (plant t s).ev s.events.size with cbs := none }).ev s.events.size := rfl
      rw [this, KState.ev_setEv]
      split
      · rw [ev_plant]
      · rw [ev_plant]
    unfold onStop at h
    simp only [Option.bind_some, hout] at h
    cases h
    exact ⟨rfl, rfl⟩

theorem inertAfter_facts (t : ℚ) (s : KState ℚ σ) :
    (inertAfter t s).trace = s.trace ∧ (inertAfter t s).procs = s.procs ∧ (inertAfter t s).agenda = [] ∧
      (inertAfter t s).now = t ∧ (inertAfter t s).shared = s.shared ∧ (inertAfter t s).resources = s.resources :=
  ⟨rfl, rfl, rfl, rfl, rfl, rfl⟩

/-- a piece run on a state in which nothing is queued changes neither trace nor process table, and queues nothing -/
theorem piece_inert (body : σ → Resume → Burst ℚ σ) (fuel budget : Nat) (p : Piece) (s s' : KState ℚ σ) (hag : s.agenda = [])
    (h : p.run body fuel budget s = some s') : s'.trace = s.trace ∧ s'.procs = s.procs ∧ s'.agenda = [] := by
  have hempty : step body fuel s = .empty := by unfold step; rw [hag]; rfl
  cases p with
  | step n =>
    simp only [Piece.run] at h
    cases n with
    | zero => cases h; exact ⟨rfl, rfl, hag⟩
    | succ n => rw [stepN_succ, hempty] at h; cases h
  | untilEvent e =>
    simp only [Piece.run] at h
    cases hr : runUntilEvent body fuel budget e s with
    | returned v s1 =>
      rw [hr] at h
      cases h
      unfold runUntilEvent at hr
      split at hr
      · split at hr <;> (cases hr; exact ⟨rfl, rfl, hag⟩)
      · have hempty' : step body fuel (s.addCb e .stop) = .empty := by
          unfold step
          rw [show (s.addCb e .stop).agenda = s.agenda from rfl, hag]; rfl
        cases budget with
        | zero => cases hr
        | succ b => simp only [runLoop, hempty', Option.isSome_some, if_true] at hr; cases hr
    | raised x s1 => rw [hr] at h; cases h
    | outOfFuel s1 => rw [hr] at h; cases h
  | untilTime t =>
    simp only [Piece.run] at h
    cases hr : runUntilTime body fuel budget t s with
    | returned v s1 =>
      rw [hr] at h
      cases h
      obtain ⟨_, rfl⟩ := runUntilTime_inert body fuel budget t s s' v hag hr
      exact ⟨rfl, rfl, rfl⟩
    | raised x s1 => rw [hr] at h; cases h
    | outOfFuel s1 => rw [hr] at h; cases h

/-- **a split plan on a state in which nothing is queued leaves trace and process table untouched** -/
theorem execPlan_inert (body : σ → Resume → Burst ℚ σ) (fuel budget : Nat) : ∀ (plan : List Piece) (s s' : KState ℚ σ),
    s.agenda = [] → execPlan body fuel budget plan s = some s' → s'.trace = s.trace ∧ s'.procs = s.procs ∧ s'.agenda = []
  | [], s, s', hag, h => by cases h; exact ⟨rfl, rfl, hag⟩
  | p :: ps, s, s', hag, h => by
    unfold execPlan at h
    cases hp : p.run body fuel budget s with
    | none => rw [hp] at h; cases h
    | some s1 =>
      rw [hp] at h
      simp only [Option.bind_some] at h
      obtain ⟨h1, h2, h3⟩ := piece_inert body fuel budget p s s1 hag hp
      obtain ⟨h4, h5, h6⟩ := execPlan_inert body fuel budget ps s1 s' h3 h
      exact ⟨h4.trans h1, h5.trans h2, h6⟩

/-- **a well-scoped state with an empty event table is inert**: nothing queued, nothing observed, no process -/
theorem empty_table_inert {I : IdSt σ} (s : KState ℚ σ) (h : WS I s) (h0 : s.events.size = 0) :
    s.agenda = [] ∧ s.procs = [] ∧ s.trace = #[] := by
  refine ⟨?_, ?_, ?_⟩
  · apply List.eq_nil_iff_forall_not_mem.mpr
    intro q hq
    have := h.agenda q hq
    rw [h0] at this
    exact Nat.not_lt_zero _ this
  · apply List.eq_nil_iff_forall_not_mem.mpr
    intro pr hpr
    have := (h.procs pr hpr).1
    rw [h0] at this
    exact Nat.not_lt_zero _ this
  · have : s.trace.toList = [] := by
      apply List.eq_nil_iff_forall_not_mem.mpr
      intro o ho
      have := h.trace o ho
      rw [h0] at this
      cases o <;> exact Nat.not_lt_zero _ this.1
    exact Array.toList_eq_nil_iff.mp this

end SplitPlan
