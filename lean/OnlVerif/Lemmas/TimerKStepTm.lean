import OnlVerif.Lemmas.TimerKFrame
/-!
# The Timer on the kernel model: kernel steps that run `Timer.run`

Each lemma executes `Environment.step` of the kernel model symbolically on a state with configuration `a` whose next
agenda entry belongs to a timer process (its `Initialize`, the `Interruption` sent to it, its sleep timeout) or has
nothing left to do, and shows that the resulting state has the configuration the lemma names.
-/

set_option linter.unusedSimpArgs false

namespace TimerK
open TimerOnK

variable {auto : Bool} {arg : Int} {cbs : List (Option Op)}
variable {s : KS} {a : A} {q : QEntry ℚ} {rest : List (QEntry ℚ)}

/-- the `Initialize` event of `self.proc`: `Timer.run` starts, reads `expire_time` and sleeps until then -/
theorem kstep_tmInit (fuel : Nat) (hk : KInv s a) (hph : a.ph = .init q) (hold : a.old = none)
    (hexp : q.time < a.expire) (hp : popMin s.agenda = some (q, rest))
    (hrest : rest.Perm (oldEntries a.old ++ (a.ctl.entries ++ a.noop))) :
    ∃ s', step (body auto arg cbs) (fuel + 1) s = .ok s' ∧
      KInv s' { a with ph := .sleep s.events.size ⟨a.expire, NORMAL, s.eid, s.events.size⟩ } ∧
      s'.now = q.time ∧ histOf s'.trace = histOf s.trace := by
  have htm := hk.tm
  rw [hph] at htm
  obtain ⟨hqe, ⟨hkind, hcbs, hout⟩, hproc, hpe⟩ := htm
  have hgs : a.cur + 1 < s.events.size := KState.lt_of_cbs hcbs
  have hwf := openEvent_wf s q rest hk.wf hp
  have hc0 := hk.c0; have hc1 := hk.c1; have hc2 := hk.c2; have hc3 := hk.c3; have hc4 := hk.c4; have hc5 := hk.c5; have hc6 := hk.c6
  have hnd := hk.nd
  have hlt := hk.idlt
  rw [step_eq _ _ _ _ _ _ hp (hqe ▸ hcbs)]
  simp only [List.foldl, runCb]
  rw [resume_eq _ _ _ _ _ _ (show (openEvent s q rest).proc? a.cur = _ from hproc)]
  simp only [KState.ev] at hkind hcbs hout
  have hd : 0 ≤ a.expire - q.time := by linarith
  tsimp [hqe, hgs, hkind, hcbs, hout, Nat.ne_of_lt hgs, hc1, hexp, hd]
  simp only [idsk, hph, hold, hqe] at hnd hlt
  refine ⟨⟨?_, ?_, ?_, ?_, ?_, ?_, ?_, ?_, ?_, ?_, ?_, ?_, ?_, ?_⟩, ?_⟩
  · exact wf_push1 hwf.1 _ rfl rfl rfl rfl (by show q.time ≤ a.expire; linarith)
  · simp only [A.entries, TPhase.entries, List.singleton_append]
    exact List.Perm.cons _ hrest
  · refine ⟨rfl, ?_, ?_, ?_⟩
    · tsimp [EvIs]
    · tsimp
    · exact hpe.keep (X := [a.cur + 1]) (by evkeep) (by simp)
  · intro o ho; rw [hold] at ho; cases ho
  · refine hk.ctl.keep (X := [a.cur + 1]) (by evkeep) ?_ ?_
    · intro e he; simp only [List.mem_singleton]; rintro rfl; exact hnd.2.1.1 he
    · intro hm
      have : a.cp ≠ a.cur := fun h => hnd.1.2.1 (h ▸ hm)
      tsimp [this]
  · intro x hx
    refine (hk.noop x hx).keep (X := [a.cur + 1]) (by evkeep) ?_
    simp only [List.mem_singleton]; rintro h; exact hnd.2.1.2 (h ▸ mem_evs_of hx)
  · have hf := fresh_notin0 (l := evs a.noop) (n := s.events.size) (fun e he => hlt.2.2 e (Or.inr he))
    have hf2 := fresh_notin0 (l := a.ctl.ids a.cp) (n := s.events.size) (fun e he => hlt.2.2 e (Or.inl he))
    simp only [idsk, hold]
    grind
  · tsimp [hc0]
  · tsimp [hc1]
  · tsimp [hc2]
  · tsimp [hc3]
  · tsimp [hc4]
  · tsimp [hc5]
  · tsimp [hc6, oldStat, hold]
  · simp [histOf_push]


/-- the `Interruption` of the previous process: it is detached from its timeout, catches `Interrupt` and ends -/
theorem kstep_intr (fuel : Nat) (hk : KInv s a) {o : Old} (hold : a.old = some o) (hq : q = o.qi)
    (hp : popMin s.agenda = some (q, rest))
    (hrest : rest.Perm (a.ph.entries ++ ([o.qt] ++ (a.ctl.entries ++ a.noop)))) :
    ∃ s', step (body auto arg cbs) (fuel + 1) s = .ok s' ∧
      KInv s' { a with old := none, dead := a.dead ++ [o.p], noop := a.noop ++ [o.qt, ⟨q.time, NORMAL, s.eid, o.p⟩] } ∧
      s'.now = q.time ∧ histOf s'.trace = histOf s.trace := by
  subst hq
  obtain ⟨hqe, ⟨hkind, hcbs, hout⟩, hdef, hqt, ⟨htk, htc, hto⟩, hproc, ⟨hpk, hpc, hpo⟩⟩ := hk.old o hold
  have hgi : o.iv < s.events.size := KState.lt_of_cbs hcbs
  have hgt : o.t < s.events.size := KState.lt_of_cbs htc
  have hgp : o.p < s.events.size := KState.lt_of_cbs hpc
  have hwf := openEvent_wf s o.qi rest hk.wf hp
  have hc0 := hk.c0; have hc1 := hk.c1; have hc2 := hk.c2; have hc3 := hk.c3; have hc4 := hk.c4; have hc5 := hk.c5; have hc6 := hk.c6
  obtain ⟨nph, nold, nctl, nnoop, dph, dold, dctl⟩ := (ids_nodup_iff a).mp hk.nd
  have hlt := hk.idlt
  simp only [hold, oldIds, List.nodup_cons, List.mem_cons, List.not_mem_nil, or_false, not_or, forall_eq_or_imp,
    List.nodup_nil, and_true, not_false_eq_true, imp_false, forall_eq, IsEmpty.forall_iff, implies_true] at nold dold dph
  obtain ⟨⟨hne1, hne2⟩, hne3⟩ := nold
  have hmono : ∀ S, step (body auto arg cbs) (fuel + 1) s = .ok S → TrigMono s S :=
    fun S h => step_trigMono _ _ _ _ (by rw [h]; rfl)
  revert hmono
  rw [step_eq _ _ _ _ _ _ hp (hqe ▸ hcbs)]
  simp only [List.foldl, runCb]
  simp only [KState.ev] at hkind hcbs hout hdef htk htc hto hpk hpc hpo
  have e1 : ((openEvent s o.qi rest).ev o.qi.ev).kind = .intr o.p := by tsimp [hqe, hgi, hkind]
  have e2 : (openEvent s o.qi rest).triggered o.p = false := by tsimp [hqe, hgi, hpo, Ne.symm hne1]
  have e3 : (openEvent s o.qi rest).proc? o.p = some { st := .tmSleep o.qt.time, target := some o.t } := hproc
  simp only [e1, deliverInterrupt, e2, e3, Bool.false_eq_true, if_false]
  rw [resume_eq _ _ _ _ _ _ (show ((openEvent s o.qi rest).eraseCb o.t (.resume o.p)).proc? o.p = _ from hproc)]
  tsimp [hqe, hgi, hgt, hgp, hkind, hcbs, hout, hdef, htk, htc, hto, hpk, hpc, hpo, hne1, hne2, hne3, Ne.symm hne1, Ne.symm hne2,
    Ne.symm hne3, intrExc]
  intro hmono
  refine ⟨⟨?_, ?_, ?_, ?_, ?_, ?_, ?_, ?_, ?_, ?_, ?_, ?_, ?_, ?_⟩, ?_⟩
  · exact wf_push1 hwf.1 _ rfl rfl rfl rfl (le_refl _)
  · simp only [A.entries, oldEntries]
    perm_count hrest
  · refine hk.tm.keep (X := [o.iv, o.t, o.p]) (by evkeep) ?_ ?_ (fun _ => hmono)
    · intro e he
      have := (dph e he).1
      simp only [List.mem_cons, List.not_mem_nil, or_false, not_or]
      exact ⟨this.1, this.2.2, this.2.1⟩
    · intro hm
      have : a.cur ≠ o.p := (dph _ hm).1.2.1
      tsimp [this]
  · intro o' ho'; cases ho'
  · refine hk.ctl.keep (X := [o.iv, o.t, o.p]) (by evkeep) ?_ ?_
    · intro e he
      simp only [List.mem_cons, List.not_mem_nil, or_false, not_or]
      exact ⟨fun h => dold.1.1 (h ▸ he), fun h => dold.2.2.1 (h ▸ he), fun h => dold.2.1.1 (h ▸ he)⟩
    · intro hm
      have : a.cp ≠ o.p := fun h => dold.2.1.1 (h ▸ hm)
      tsimp [this]
  · intro x hx
    simp only [List.mem_append, List.mem_cons, List.not_mem_nil, or_false] at hx
    rcases hx with hx | rfl | rfl
    · refine (hk.noop x hx).keep (X := [o.iv, o.t, o.p]) (by evkeep) ?_
      simp only [List.mem_cons, List.not_mem_nil, or_false, not_or]
      have hm := mem_evs_of hx
      exact ⟨fun h => dold.1.2 (h ▸ hm), fun h => dold.2.2.2 (h ▸ hm), fun h => dold.2.1.2 (h ▸ hm)⟩
    · tsimp [NoopEv, hqt, hgt, hgp, hne3, Ne.symm hne3, Ne.symm hne2]
    · tsimp [NoopEv, hgp]
  · have hnd := hk.nd
    simp only [idsk, hold] at hnd
    simp only [idsk, hqt]
    clear hmono hwf hp hrest
    grind
  · tsimp [hc0]
  · tsimp [hc1]
  · tsimp [hc2]
  · tsimp [hc3]
  · tsimp [hc4]
  · tsimp [hc5]
  · tsimp [hc6, oldStat, hold]
  · simp [histOf_push]


set_option hygiene false in
/-- the fields of `KInv` after the wake-up, case by case -/
macro "wakeSleep_leaf" : tactic => `(tactic| (
      have hcont' := hcont
      try simp only [lt_add_iff_pos_right] at hcont'
      have hd' := le_of_lt hcont'
      have hd : 0 ≤ a.expire - q.time ∨ True := Or.inr trivial
      tsimp [hqe, hgs, hgc, hkind, hcbs, hout, Nat.ne_of_lt hgs, Nat.ne_of_lt hgc, hc0, hc1, hc2, hc4, hc5, hcont, hcont', hd', hst, hcb,
        hpk, hpo, hact, le_of_lt hT, hne, Ne.symm hne]
      intro _hm
      refine ⟨⟨?_, ?_, ?_, ?_, ?_, ?_, ?_, ?_, ?_, ?_, ?_, ?_, ?_, ?_⟩, ?_⟩
      · exact wf_push1 hwf.1 _ rfl rfl rfl rfl (le_of_lt hcont)
      · simp only [A.entries, TPhase.entries, List.singleton_append]
        exact List.Perm.cons _ hrest
      · refine ⟨rfl, ?_, ?_, ?_⟩
        · tsimp [EvIs]
        · tsimp
        · exact hpe.keep (X := [t]) (by evkeep) (by simp [hne])
      · intro o ho; rw [hold] at ho; cases ho
      · refine hk.ctl.keep (X := [t]) (by evkeep) ?_ ?_
        · intro e he; simp only [List.mem_singleton]; rintro rfl; exact (dph.2 _ rfl).1 he
        · intro hm
          have : a.cp ≠ a.cur := fun h => dph.1.1 (h ▸ hm)
          tsimp [this]
      · intro x hx
        refine (hk.noop x hx).keep (X := [t]) (by evkeep) ?_
        simp only [List.mem_singleton]; rintro h; exact (dph.2 _ rfl).2 (h ▸ mem_evs_of hx)
      · simp only [idsk, hold]
        grind
      · tsimp [hc0]
      · tsimp [hc1]
      · tsimp [hc2]
      · tsimp [hc3]
      · tsimp [hc4]
      · tsimp [hc5]
      · tsimp [hc6, oldStat, hold]
      · simp [histOf_push]))

/-- the sleep timeout of `self.proc` is processed and the loop goes on: the process sleeps again -/
theorem kstep_wakeSleep (fuel : Nat) (hk : KInv s a) {t : EvId} (hph : a.ph = .sleep t q) (hold : a.old = none)
    (hT : 0 < a.timeout) (hcont : q.time < (wakeCells auto cbs q.time a).expire)
    (hp : popMin s.agenda = some (q, rest)) (hrest : rest.Perm (oldEntries a.old ++ (a.ctl.entries ++ a.noop))) :
    ∃ s', step (body auto arg cbs) (fuel + 1) s = .ok s' ∧
      KInv s' { wakeCells auto cbs q.time a with
                  ph := .sleep s.events.size ⟨(wakeCells auto cbs q.time a).expire, NORMAL, s.eid, s.events.size⟩ } ∧
      s'.now = q.time ∧ histOf s'.trace = histOf s.trace ++ wakeFires a q.time := by
  have htm := hk.tm
  rw [hph] at htm
  obtain ⟨hqe, ⟨hkind, hcbs, hout⟩, hproc, hpe⟩ := htm
  obtain ⟨hpk, hpc, hpo⟩ := hpe
  have hgs : t < s.events.size := KState.lt_of_cbs hcbs
  have hgc : a.cur < s.events.size := KState.lt_of_cbs hpc
  have hwf := openEvent_wf s q rest hk.wf hp
  have hc0 := hk.c0; have hc1 := hk.c1; have hc2 := hk.c2; have hc3 := hk.c3; have hc4 := hk.c4; have hc5 := hk.c5; have hc6 := hk.c6
  obtain ⟨nph, nold, nctl, nnoop, dph, dold, dctl⟩ := (ids_nodup_iff a).mp hk.nd
  have hlt := hk.idlt
  have hnd := hk.nd
  simp only [idsk, hph, hold] at hnd hlt nph dph
  have hne : a.cur ≠ t := nph
  have hmono : ∀ S, step (body auto arg cbs) (fuel + 1) s = .ok S → TrigMono s S :=
    fun S h => step_trigMono _ _ _ _ (by rw [h]; rfl)
  revert hmono
  rw [step_eq _ _ _ _ _ _ hp (hqe ▸ hcbs)]
  simp only [List.foldl, runCb]
  rw [resume_eq _ _ _ _ _ _ (show (openEvent s q rest).proc? a.cur = _ from hproc)]
  simp only [KState.ev] at hkind hcbs hout hpk hpc hpo
  have hact : ∀ x : EvId, (some a.cur = some x) = (a.cur = x) := fun x => by simp
  have hpe : EvIs s a.cur .proc [] none := ⟨hpk, hpc, hpo⟩
  unfold wakeCells wakeFires at *
  rcases Bool.eq_false_or_eq_true a.stopped with hst | hst
  · have hcb : True := trivial
    simp only [hst, if_true] at hcont hc0 ⊢
    wakeSleep_leaf
  · simp only [hst, Bool.false_eq_true, if_false] at hcont hc0 ⊢
    unfold fireA at *
    rcases hcb : cbAt cbs (a.fired : Int) with _ | (_ | tau) <;> cases auto <;>
      simp only [hcb, cbCells, rearm, Bool.false_eq_true, if_false, if_true] at hcont ⊢
    all_goals first | exact absurd hcont (lt_irrefl _) | skip
    all_goals wakeSleep_leaf

set_option hygiene false in
/-- the fields of `KInv` after the wake-up, case by case -/
macro "wakeDead_leaf" : tactic => `(tactic| (
      have hcont' := hcont
      try simp only [lt_add_iff_pos_right] at hcont'
      tsimp [hqe, hgs, hgc, hkind, hcbs, hout, Nat.ne_of_lt hgs, Nat.ne_of_lt hgc, hc0, hc1, hc2, hc4, hc5, hcont, hcont', hst, hcb,
        hpk, hpc, hpo, hact, hne, Ne.symm hne]
      intro _hm
      refine ⟨⟨?_, ?_, ?_, ?_, ?_, ?_, ?_, ?_, ?_, ?_, ?_, ?_, ?_, ?_⟩, ?_⟩
      · exact wf_push1 hwf.1 _ rfl rfl rfl rfl (le_refl _)
      · simp only [A.entries, TPhase.entries, List.nil_append]
        perm_count hrest
      · refine ⟨?_, ?_⟩
        · tsimp [hgc, hpk]
        · tsimp [hgc]
      · intro o ho; rw [hold] at ho; cases ho
      · refine hk.ctl.keep (X := [t, a.cur]) (by evkeep) ?_ ?_
        · intro e he
          simp only [List.mem_cons, List.not_mem_nil, or_false, not_or]
          exact ⟨fun h => (dph.2 _ rfl).1 (h ▸ he), fun h => dph.1.1 (h ▸ he)⟩
        · intro hm
          have : a.cp ≠ a.cur := fun h => dph.1.1 (h ▸ hm)
          tsimp [this]
      · intro x hx
        simp only [List.mem_append, List.mem_singleton] at hx
        rcases hx with hx | rfl
        · refine (hk.noop x hx).keep (X := [t, a.cur]) (by evkeep) ?_
          simp only [List.mem_cons, List.not_mem_nil, or_false, not_or]
          have hm := mem_evs_of hx
          exact ⟨fun h => (dph.2 _ rfl).2 (h ▸ hm), fun h => dph.1.2 (h ▸ hm)⟩
        · tsimp [NoopEv, hgc]
      · simp only [idsk, hold]
        grind
      · tsimp [hc0]
      · tsimp [hc1]
      · tsimp [hc2]
      · tsimp [hc3]
      · tsimp [hc4]
      · tsimp [hc5]
      · tsimp [hc6, oldStat, hold]
      · simp [histOf_push]))

/-- the sleep timeout of `self.proc` is processed and the loop ends: the generator returns -/
theorem kstep_wakeDead (fuel : Nat) (hk : KInv s a) {t : EvId} (hph : a.ph = .sleep t q) (hold : a.old = none)
    (hT : 0 < a.timeout) (hcont : ¬ q.time < (wakeCells auto cbs q.time a).expire)
    (hp : popMin s.agenda = some (q, rest)) (hrest : rest.Perm (oldEntries a.old ++ (a.ctl.entries ++ a.noop))) :
    ∃ s', step (body auto arg cbs) (fuel + 1) s = .ok s' ∧
      KInv s' { wakeCells auto cbs q.time a with
                  ph := .dead, noop := a.noop ++ [⟨q.time, NORMAL, s.eid, a.cur⟩] } ∧
      s'.now = q.time ∧ histOf s'.trace = histOf s.trace ++ wakeFires a q.time := by
  have htm := hk.tm
  rw [hph] at htm
  obtain ⟨hqe, ⟨hkind, hcbs, hout⟩, hproc, hpe⟩ := htm
  obtain ⟨hpk, hpc, hpo⟩ := hpe
  have hgs : t < s.events.size := KState.lt_of_cbs hcbs
  have hgc : a.cur < s.events.size := KState.lt_of_cbs hpc
  have hwf := openEvent_wf s q rest hk.wf hp
  have hc0 := hk.c0; have hc1 := hk.c1; have hc2 := hk.c2; have hc3 := hk.c3; have hc4 := hk.c4; have hc5 := hk.c5; have hc6 := hk.c6
  obtain ⟨nph, nold, nctl, nnoop, dph, dold, dctl⟩ := (ids_nodup_iff a).mp hk.nd
  have hlt := hk.idlt
  have hnd := hk.nd
  simp only [idsk, hph, hold] at hnd hlt nph dph
  have hne : a.cur ≠ t := nph
  have hmono : ∀ S, step (body auto arg cbs) (fuel + 1) s = .ok S → TrigMono s S :=
    fun S h => step_trigMono _ _ _ _ (by rw [h]; rfl)
  revert hmono
  rw [step_eq _ _ _ _ _ _ hp (hqe ▸ hcbs)]
  simp only [List.foldl, runCb]
  rw [resume_eq _ _ _ _ _ _ (show (openEvent s q rest).proc? a.cur = _ from hproc)]
  simp only [KState.ev] at hkind hcbs hout hpk hpc hpo
  have hact : ∀ x : EvId, (some a.cur = some x) = (a.cur = x) := fun x => by simp
  have hpe : EvIs s a.cur .proc [] none := ⟨hpk, hpc, hpo⟩
  unfold wakeCells wakeFires at *
  rcases Bool.eq_false_or_eq_true a.stopped with hst | hst
  · have hcb : True := trivial
    simp only [hst, if_true] at hcont hc0 ⊢
    wakeDead_leaf
  · simp only [hst, Bool.false_eq_true, if_false] at hcont hc0 ⊢
    unfold fireA at *
    rcases hcb : cbAt cbs (a.fired : Int) with _ | (_ | tau) <;> cases auto <;>
      simp only [hcb, cbCells, rearm, Bool.false_eq_true, if_false, if_true] at hcont ⊢
    all_goals first | exact absurd (by linarith) hcont | skip
    all_goals wakeDead_leaf

/-- an entry with nothing left to do (the timeout of an interrupted process, the process event of a finished
generator) is processed: nothing happens -/
theorem kstep_noop (fuel : Nat) (hk : KInv s a) {l1 l2 : List (QEntry ℚ)} (hq : a.noop = l1 ++ q :: l2)
    (hp : popMin s.agenda = some (q, rest))
    (hrest : rest.Perm (a.ph.entries ++ (oldEntries a.old ++ (a.ctl.entries ++ (l1 ++ l2))))) :
    ∃ s', step (body auto arg cbs) (fuel + 1) s = .ok s' ∧ KInv s' { a with noop := l1 ++ l2 } ∧
      s'.now = q.time ∧ histOf s'.trace = histOf s.trace := by
  have hqm : q ∈ a.noop := by rw [hq]; simp
  obtain ⟨hcbs, ⟨v, hout⟩, hkd⟩ := hk.noop q hqm
  have hgs : q.ev < s.events.size := KState.lt_of_cbs hcbs
  have hwf := openEvent_wf s q rest hk.wf hp
  have hc0 := hk.c0; have hc1 := hk.c1; have hc2 := hk.c2; have hc3 := hk.c3; have hc4 := hk.c4; have hc5 := hk.c5; have hc6 := hk.c6
  obtain ⟨nph, nold, nctl, nnoop, dph, dold, dctl⟩ := (ids_nodup_iff a).mp hk.nd
  have hnd := hk.nd
  have hqe : q.ev ∈ evs a.noop := mem_evs_of hqm
  simp only [idsk, hq] at hnd nnoop
  have hmono : ∀ S, step (body auto arg cbs) (fuel + 1) s = .ok S → TrigMono s S :=
    fun S h => step_trigMono _ _ _ _ (by rw [h]; rfl)
  revert hmono
  rw [step_eq _ _ _ _ _ _ hp hcbs]
  simp only [KState.ev] at hcbs hout
  tsimp [hgs, hcbs, hout]
  intro hmono
  refine ⟨wf_same hwf.1 rfl rfl rfl, ?_, ?_, ?_, ?_, ?_, ?_, ?_, ?_, ?_, ?_, ?_, ?_, ?_⟩
  · simpa [A.entries] using hrest
  · refine hk.tm.keep (X := [q.ev]) (by evkeep) ?_ ?_ (fun _ => hmono)
    · intro e he; simp only [List.mem_singleton]; rintro rfl; exact (dph _ he).2.2 hqe
    · intro _; tsimp
  · intro o ho
    refine (hk.old o ho).keep (X := [q.ev]) (by evkeep) ?_ (by tsimp)
    intro e he; simp only [List.mem_singleton]; rintro rfl; exact (dold _ (ho ▸ he)).2 hqe
  · refine hk.ctl.keep (X := [q.ev]) (by evkeep) ?_ ?_
    · intro e he; simp only [List.mem_singleton]; rintro rfl; exact dctl _ he hqe
    · intro _; tsimp
  · intro x hx
    refine (hk.noop x (by rw [hq]; simp only [List.mem_append, List.mem_cons] at hx ⊢; tauto)).keep (X := [q.ev]) (by evkeep) ?_
    simp only [List.mem_singleton]
    intro h
    have hx' := mem_evs_of hx
    simp only [evs_append, List.mem_append] at hx'
    rw [h] at hx'
    grind
  · simp only [idsk]
    grind
  · exact hc0
  · exact hc1
  · exact hc2
  · exact hc3
  · exact hc4
  · exact hc5
  · exact hc6

end TimerK
