import OnlVerif.Lemmas.StampInv
import OnlVerif.Net.Sched.VC
/-!
# VirtualClock on the StampServer: stamp rule, per-class increasing stamps, no exception
-/

namespace VC
open Stamp

abbrev VState := StState ℚ (VcSt ℚ)

/-- class of a flow -/
def clsOf (c : VcCfg ℚ) (f : Nat) : Option Nat := lookup c.flow2class f

/-- the initial state of a VirtualClock scheduler -/
def start (c : VcCfg ℚ) (t0 : ℚ) : VState := Stamp.init (VC.init0 c) t0

/-- `max(now, auxVC) + vtick` -/
theorem auxOf_eq (now a vt : ℚ) : auxOf now a vt = max now a + vt := by
  unfold auxOf; rw [Num.pymax_eq]

/-- `vc` restarts from the real time when it is 0 (the `if self.vc[c] == 0` quirk), then grows by `vtick·8·size` -/
theorem vcOf_eq (v now vt : ℚ) (size : Nat) : vcOf v now vt size = (if v = 0 then now else v) + vt * size * 8 := by
  unfold vcOf vcBase
  rw [zero_eq_q]
  simp only [Num.eqb_iff]
  rfl

/-- an accepted `put`, step by step -/
theorem put_spec (c : VcCfg ℚ) (st st' : VcSt ℚ) (now : ℚ) (total : Int) (A : ℚ) (p : SPkt)
    (h : put c st now total p = .ok (st', A)) :
    ∃ k v a vt, lookup c.flow2class p.flow = some k ∧ lookup st.vc k = some v ∧ lookup st.aux k = some a ∧
      lookup c.vticks k = some vt ∧ A = auxOf now a vt ∧
      st' = { vc := setKey st.vc k (vcOf v now vt p.size), aux := setKey st.aux k (auxOf now a vt) } := by
  unfold put at h
  split at h
  · cases h
  · rename_i k hk
    split at h
    · cases h
    · rename_i v hv
      split at h
      · cases h
      · rename_i a ha
        split at h
        · cases h
        · rename_i vt hvt
          simp only [Except.ok.injEq, Prod.mk.injEq] at h
          obtain ⟨rfl, rfl⟩ := h
          exact ⟨k, v, a, vt, hk, hv, ha, hvt, rfl, rfl⟩

theorem put_ok (c : VcCfg ℚ) (st : VcSt ℚ) (now : ℚ) (total : Int) (p : SPkt) (k : Nat) (v a vt : ℚ)
    (hk : lookup c.flow2class p.flow = some k) (hv : lookup st.vc k = some v) (ha : lookup st.aux k = some a)
    (hvt : lookup c.vticks k = some vt) : ∃ r, put c st now total p = .ok r := by
  unfold put
  simp only [hk, hv, ha, hvt]
  exact ⟨_, rfl⟩

/-- positive rate and vticks -/
structure Pos (c : VcCfg ℚ) : Prop where
  rate : 0 < c.rate
  vt : ∀ k v, lookup c.vticks k = some v → 0 < v

/-- waiting packets of one class carry strictly increasing stamps -/
def ClsSorted (c : VcCfg ℚ) (l : List (Item ℚ)) : Prop :=
  l.Pairwise fun a b => clsOf c a.pkt.flow = clsOf c b.pkt.flow → a.stamp < b.stamp

theorem ClsSorted.flowSorted {c : VcCfg ℚ} {l : List (Item ℚ)} (h : ClsSorted c l) : FlowSorted l :=
  List.Pairwise.imp (fun {a b} hab hf => hab (by rw [hf])) h

structure VInv (c : VcCfg ℚ) (s : VState) : Prop where
  /-- `vc` and `aux_vc` have exactly the classes of `vticks` -/
  kvc : ∀ k, (lookup c.vticks k).isSome → (lookup s.sch.vc k).isSome
  kaux : ∀ k, (lookup c.vticks k).isSome → (lookup s.sch.aux k).isSome
  cap : ∀ it ∈ s.items, ∀ k, clsOf c it.pkt.flow = some k → ∃ A, lookup s.sch.aux k = some A ∧ it.stamp ≤ A
  srt : ClsSorted c s.items

theorem lookup_map_zero (l : List (Nat × ℚ)) (k : Nat) :
    (lookup l k).isSome → (lookup (l.map fun kv => (kv.1, (Num.zero : ℚ))) k).isSome := by
  induction l with
  | nil => simp [lookup]
  | cons x r ih =>
    obtain ⟨a, b⟩ := x
    simp only [lookup, List.map_cons]
    by_cases h : a = k
    · simp [h]
    · simp only [h, if_false]; exact ih

theorem init_vinv (c : VcCfg ℚ) (t0 : ℚ) : VInv c (start c t0) := by
  refine ⟨?_, ?_, ?_, ?_⟩
  · intro k hk; exact lookup_map_zero _ _ hk
  · intro k hk; exact lookup_map_zero _ _ hk
  · intro it hit; simp [start, Stamp.init] at hit
  · simp [ClsSorted, start, Stamp.init]

/-- **`VInv` is an invariant** (positive vticks). -/
theorem step_vinv {c : VcCfg ℚ} (hp : Pos c) {s s' : VState} {a : StAct ℚ} {o : StOut} (hv : VInv c s)
    (ht : Trans (sched c) s a s' o) : VInv c s' := by
  have sub : ∀ (l : List (Item ℚ)), l.Sublist s.items →
      VInv c { s with items := l } := by
    intro l hl
    exact ⟨hv.kvc, hv.kaux, fun it hit k hk => hv.cap it (hl.subset hit) k hk, hv.srt.sublist hl⟩
  cases ht with
  | initBlock h1 h2 => exact ⟨hv.kvc, hv.kaux, hv.cap, hv.srt⟩
  | initServe id it rest h1 h2 =>
    obtain ⟨pre, post, hl, rfl⟩ := held_picked h2
    have := sub (pre ++ post) (by rw [hl]; simp)
    exact ⟨this.kvc, this.kaux, this.cap, this.srt⟩
  | handoff id it rest h1 h2 =>
    obtain ⟨pre, post, hl, rfl⟩ := held_picked h2
    have := sub (pre ++ post) (by rw [hl]; simp)
    exact ⟨this.kvc, this.kaux, this.cap, this.srt⟩
  | resume it h1 => exact ⟨hv.kvc, hv.kaux, hv.cap, hv.srt⟩
  | sendInit p h1 h2 h3 => exact ⟨hv.kvc, hv.kaux, hv.cap, hv.srt⟩
  | sendFire p due h1 h2 => exact ⟨hv.kvc, hv.kaux, hv.cap, hv.srt⟩
  | tick t h1 => exact ⟨hv.kvc, hv.kaux, hv.cap, hv.srt⟩
  | sample b => exact hv
  | doneBlock p sch h1 h2 h3 =>
    have : sch = s.sch := by
      have h2' : done s.sch s.now p = .ok sch := h2
      simp only [done, Except.ok.injEq] at h2'
      exact h2'.symm
    subst this
    exact ⟨hv.kvc, hv.kaux, hv.cap, hv.srt⟩
  | doneServe p sch id it rest h1 h2 h3 =>
    have : sch = s.sch := by
      have h2' : done s.sch s.now p = .ok sch := h2
      simp only [done, Except.ok.injEq] at h2'
      exact h2'.symm
    subst this
    obtain ⟨pre, post, hl, rfl⟩ := held_picked h3
    have := sub (pre ++ post) (by rw [hl]; simp)
    exact ⟨this.kvc, this.kaux, this.cap, this.srt⟩
  | put p sch stamp h1 =>
    obtain ⟨k, v, a, vt, hk, hvv, ha, hvt, rfl, rfl⟩ := put_spec c _ _ _ (qcTotal s.queueCount) _ _ h1
    have hgt : a < auxOf s.now a vt := by
      rw [auxOf_eq]
      have := hp.vt k vt hvt
      have := le_max_right s.now a
      linarith
    refine ⟨?_, ?_, ?_, ?_⟩
    · intro k' hk'
      show (lookup (setKey s.sch.vc k _) k').isSome
      rw [lookup_setKey]
      by_cases h : k' = k
      · simp [h]
      · simp only [h, if_false]; exact hv.kvc k' hk'
    · intro k' hk'
      show (lookup (setKey s.sch.aux k _) k').isSome
      rw [lookup_setKey]
      by_cases h : k' = k
      · simp [h]
      · simp only [h, if_false]; exact hv.kaux k' hk'
    · intro it hit k' hk'
      simp only [enqueue, List.mem_append, List.mem_singleton] at hit
      show ∃ A, lookup (setKey s.sch.aux k _) k' = some A ∧ _
      rw [lookup_setKey]
      rcases hit with hit | rfl
      · obtain ⟨A0, hA0, hle⟩ := hv.cap it hit k' hk'
        by_cases h : k' = k
        · subst h
          rw [ha] at hA0; cases hA0
          exact ⟨_, by simp, le_of_lt (lt_of_le_of_lt hle hgt)⟩
        · exact ⟨A0, by simp [h, hA0], hle⟩
      · simp only [clsOf] at hk'
        rw [hk] at hk'
        cases hk'
        exact ⟨_, by simp, le_refl _⟩
    · simp only [enqueue, ClsSorted]
      refine List.pairwise_append.mpr ⟨hv.srt, by simp, ?_⟩
      intro x hx y hy hcls
      simp only [List.mem_singleton] at hy
      subst hy
      simp only [clsOf] at hcls
      rw [hk] at hcls
      obtain ⟨A0, hA0, hle⟩ := hv.cap x hx k hcls
      rw [ha] at hA0; cases hA0
      exact lt_of_le_of_lt hle hgt

theorem run_vinv (c : VcCfg ℚ) (hp : Pos c) {t0 : ℚ} {s : VState} {ins outs : List SPkt}
    (h : Run (sched c) (start c t0) s ins outs) : GInv s ∧ VInv c s := by
  induction h with
  | nil => exact ⟨init_ginv _ _, init_vinv c t0⟩
  | snoc _ ht ih => exact ⟨(step_ginv ih.1 ht).1, step_vinv hp ih.2 ht⟩

/-- **VirtualClock never raises** in a reachable state, whatever ties there are, as long as arriving packets belong
to configured flows. -/
theorem step_no_raise {c : VcCfg ℚ} (hp : Pos c) {s : VState} (hv : VInv c s) (a : StAct ℚ)
    (hconf : ∀ p, a = .put p → ∃ k vt, clsOf c p.flow = some k ∧ lookup c.vticks k = some vt) (e : String) :
    step (sched c) s a ≠ .error (.raise e) := by
  apply step_no_raise_of (d := sched c) hp.rate s a
  · intro p hpa
    obtain ⟨k, vt, hk, hvt⟩ := hconf p hpa
    obtain ⟨v, hvv⟩ := Option.isSome_iff_exists.mp (hv.kvc k (by simp [hvt]))
    obtain ⟨a', ha'⟩ := Option.isSome_iff_exists.mp (hv.kaux k (by simp [hvt]))
    exact put_ok c s.sch s.now (qcTotal s.queueCount) p k v a' vt hk hvv ha' hvt
  · intro p _
    exact ⟨s.sch, rfl⟩

end VC
