import OnlVerif.Lemmas.MultiQueue
/-!
# MultiQueueServer: the generic invariant

For every scheduler record that blocks only when `total_packets == 0` and never issues a `get` on a class with a
parked head-of-line packet (`Lawful`), every reachable state satisfies `Inv`:

* the per-flow counters equal the packets/bytes of that flow held (waiting, parked, handed, in transmission),
* `total_packets` equals the number of packets held,
* no lost wake-up: blocked on the token store without a token ⇒ nothing is held,
* `current_packet` is the packet of the sender process,

and every accepted step conserves the packets of every class as *lists* (`step_conserves`).
-/

namespace MQ
variable {κ : Type}

/-- the scheduler never parks a packet (SP, RR, WRR) -/
def NeverParks (sc : Sched ℚ κ) : Prop := ∀ k v c p k', sc.onPkt k v c p ≠ .park k'

structure Lawful (sc : Sched ℚ κ) : Prop where
  block_total : ∀ k v k', sc.micro k v = .block k' → v.total = 0
  get_no_hol : ∀ k v c k', sc.micro k v = .get c k' → v.parked c = none ∨ NeverParks sc

/-- the packet the loop / its sender holds outside the stores -/
def inHand (s : MQState ℚ κ) : List MPkt :=
  match s.phase with
  | .pktHanded _ p => [p]
  | .spawned p => [p]
  | .sending p _ => [p]
  | _ => []

def wsum (w : MPkt → Int) (l : List MPkt) : Int := (l.map w).sum

def wOpt (w : MPkt → Int) : Option MPkt → Int
  | some p => w p
  | none => 0

@[simp] theorem wsum_nil (w : MPkt → Int) : wsum w [] = 0 := rfl
@[simp] theorem wsum_cons (w : MPkt → Int) (p : MPkt) (l : List MPkt) : wsum w (p :: l) = w p + wsum w l := by
  simp [wsum]
@[simp] theorem wsum_append (w : MPkt → Int) (l1 l2 : List MPkt) : wsum w (l1 ++ l2) = wsum w l1 + wsum w l2 := by
  simp [wsum]
@[simp] theorem wOpt_none (w : MPkt → Int) : wOpt w none = 0 := rfl
@[simp] theorem wOpt_some (w : MPkt → Int) (p : MPkt) : wOpt w (some p) = w p := rfl

/-- `w`-weight of everything held: in hand, parked, stored -/
def W (w : MPkt → Int) (s : MQState ℚ κ) : Int :=
  wsum w (inHand s) + wsumMap (wOpt w) s.hol + wsumMap (wsum w) s.stores

/-- the packets of class `c` that are held, oldest first -/
def heldC (sc : Sched ℚ κ) (s : MQState ℚ κ) (c : Nat) : List MPkt :=
  (inHand s).filter (fun p => decide (sc.classOf p.flow = some c)) ++ (lookupD s.hol c none).toList ++ storeOf s.stores c

/-- indicator weights -/
def one (f : Nat) (p : MPkt) : Int := if p.flow = f then 1 else 0
def bytesOf (f : Nat) (p : MPkt) : Int := if p.flow = f then (p.size : Int) else 0

structure Inv (sc : Sched ℚ κ) (s : MQState ℚ κ) : Prop where
  storeClass : ∀ c p, p ∈ storeOf s.stores c → sc.classOf p.flow = some c
  holClass : ∀ c p, lookupD s.hol c none = some p → sc.classOf p.flow = some c
  handClass : ∀ c p, s.phase = .pktHanded c p → sc.classOf p.flow = some c
  count : ∀ f, cnt s.queueCount f = W (one f) s
  bytes : ∀ f, cnt s.queueBytes f = W (bytesOf f) s
  tot : total s.queueCount = W (fun _ => 1) s
  wake : s.phase = .waitToken → s.tokens = 0 → total s.queueCount = 0
  curTx : ∀ p d, s.phase = .sending p d → s.currentPacket = some p
  curOnly : ∀ p, s.currentPacket = some p → s.phase = .spawned p ∨ ∃ d, s.phase = .sending p d
  holNone : NeverParks sc → ∀ c, lookupD s.hol c none = none

/-! ### the primitives -/

theorem W_stores_set (w : MPkt → Int) (m : List (Nat × List MPkt)) (c : Nat) (l : List MPkt) :
    wsumMap (wsum w) (setKey m c l) + wsum w (storeOf m c) = wsumMap (wsum w) m + wsum w l :=
  wsumMap_setKey (wsum w) [] rfl m c l

theorem W_hol_set (w : MPkt → Int) (m : List (Nat × Option MPkt)) (c : Nat) (v : Option MPkt) :
    wsumMap (wOpt w) (setKey m c v) + wOpt w (lookupD m c none) = wsumMap (wOpt w) m + wOpt w v :=
  wsumMap_setKey (wOpt w) none rfl m c v

theorem storeOf_setKey (m : List (Nat × List MPkt)) (c c' : Nat) (l : List MPkt) :
    storeOf (setKey m c l) c' = if c' = c then l else storeOf m c' := lookupD_setKey m c c' l []

/-- reading `queue_count[f]` and moving the control point changes nothing the invariant speaks about -/
theorem inv_touch_ctl (sc : Sched ℚ κ) (s : MQState ℚ κ) (k : κ) (h : Inv sc s) :
    Inv sc { touch sc s with ctl := k } := by
  unfold touch
  split
  · exact ⟨h.storeClass, h.holClass, h.handClass,
      fun f => by show cnt (bump s.queueCount _ 0) f = W (one f) s; rw [cnt_bump_zero]; exact h.count f,
      h.bytes, by show total (bump s.queueCount _ 0) = W (fun _ => 1) s; rw [total_bump]; simpa using h.tot,
      fun h1 h2 => by show total (bump s.queueCount _ 0) = 0; rw [total_bump]; simpa using h.wake h1 h2,
      h.curTx, h.curOnly, h.holNone⟩
  · exact ⟨h.storeClass, h.holClass, h.handClass, h.count, h.bytes, h.tot, h.wake, h.curTx, h.curOnly, h.holNone⟩

theorem touch_phase (sc : Sched ℚ κ) (s : MQState ℚ κ) : (touch sc s).phase = s.phase := by
  unfold touch; split <;> rfl
theorem touch_hol (sc : Sched ℚ κ) (s : MQState ℚ κ) : (touch sc s).hol = s.hol := by
  unfold touch; split <;> rfl
theorem touch_stores (sc : Sched ℚ κ) (s : MQState ℚ κ) : (touch sc s).stores = s.stores := by
  unfold touch; split <;> rfl
theorem touch_cur (sc : Sched ℚ κ) (s : MQState ℚ κ) : (touch sc s).currentPacket = s.currentPacket := by
  unfold touch; split <;> rfl
theorem touch_tokens (sc : Sched ℚ κ) (s : MQState ℚ κ) : (touch sc s).tokens = s.tokens := by
  unfold touch; split <;> rfl
theorem touch_now (sc : Sched ℚ κ) (s : MQState ℚ κ) : (touch sc s).now = s.now := by
  unfold touch; split <;> rfl
theorem touch_ctl (sc : Sched ℚ κ) (s : MQState ℚ κ) : (touch sc s).ctl = s.ctl := by
  unfold touch; split <;> rfl
theorem touch_total (sc : Sched ℚ κ) (s : MQState ℚ κ) : total (touch sc s).queueCount = total s.queueCount := by
  unfold touch; split
  · show total (bump s.queueCount _ 0) = _; rw [total_bump]; simp
  · rfl
theorem touch_cnt (sc : Sched ℚ κ) (s : MQState ℚ κ) (f : Nat) : cnt (touch sc s).queueCount f = cnt s.queueCount f := by
  unfold touch; split
  · show cnt (bump s.queueCount _ 0) f = _; rw [cnt_bump_zero]
  · rfl
theorem touch_bytes (sc : Sched ℚ κ) (s : MQState ℚ κ) : (touch sc s).queueBytes = s.queueBytes := by
  unfold touch; split <;> rfl

theorem heldC_touch_ctl (sc : Sched ℚ κ) (s : MQState ℚ κ) (k : κ) (c : Nat) :
    heldC sc { touch sc s with ctl := k } c = heldC sc s c := by
  simp only [heldC, inHand, touch_phase, touch_hol, touch_stores]

/-- no packet is in hand while the loop runs -/
theorem cur_none_of_running (sc : Sched ℚ κ) (s : MQState ℚ κ) (h : Inv sc s) (hr : s.phase = .running) :
    s.currentPacket = none := by
  cases hc : s.currentPacket with
  | none => rfl
  | some p =>
    rcases h.curOnly p hc with h1 | ⟨d, h1⟩ <;> rw [hr] at h1 <;> cases h1

/-- `yield store.get()` on a class without a parked packet -/
theorem inv_issueGet (sc : Sched ℚ κ) (s s' : MQState ℚ κ) (c : Nat) (h : Inv sc s) (hr : s.phase = .running)
    (hh : lookupD s.hol c none = none) (hg : issueGet s c = .ok s') :
    Inv sc s' ∧ (∀ c', heldC sc s' c' = heldC sc s c') ∧ s'.ctl = s.ctl ∧ s'.now = s.now ∧
      ∃ p rest, storeOf s.stores c = p :: rest ∧ s'.phase = .pktHanded c p ∧ s'.stores = setKey s.stores c rest := by
  unfold issueGet at hg
  split at hg
  · rename_i p rest hst
    simp only [Except.ok.injEq] at hg
    subst hg
    have hcur := cur_none_of_running sc s h hr
    have hpc : sc.classOf p.flow = some c := h.storeClass c p (by rw [hst]; simp)
    have hW : ∀ w, W w ({ s with stores := setKey s.stores c rest, phase := Phase.pktHanded c p } : MQState ℚ κ) = W w s := by
      intro w
      have := W_stores_set w s.stores c rest
      rw [hst] at this
      simp only [W, inHand, hr, wsum_cons, wsum_nil] at this ⊢
      omega
    refine ⟨⟨?_, h.holClass, ?_, ?_, ?_, ?_, ?_, ?_, ?_, h.holNone⟩, ?_, rfl, rfl, p, rest, hst, rfl, rfl⟩
    · intro c' q hq
      simp only [storeOf_setKey] at hq
      split at hq
      · rename_i hc; subst hc
        exact h.storeClass c' q (by rw [hst]; exact List.mem_cons_of_mem _ hq)
      · exact h.storeClass c' q hq
    · intro c' q hq; cases hq; exact hpc
    · intro f; rw [hW]; exact h.count f
    · intro f; rw [hW]; exact h.bytes f
    · rw [hW]; exact h.tot
    · intro h1; cases h1
    · intro q d h1; cases h1
    · intro q h1; rw [hcur] at h1; cases h1
    · intro c'
      simp only [heldC, inHand, hr, storeOf_setKey, List.filter_cons, List.filter_nil, hpc]
      by_cases hc : c' = c
      · subst hc
        simp [hh, hst]
      · have : (some c = some c') = False := by simp [Ne.symm hc]
        simp [hc, this]
  · cases hg

/-- `yield packets_available.get()` with `total_packets == 0` -/
theorem inv_block (sc : Sched ℚ κ) (s : MQState ℚ κ) (h : Inv sc s) (hr : s.phase = .running)
    (ht : total s.queueCount = 0) :
    Inv sc (blockOnToken s) ∧ (∀ c', heldC sc (blockOnToken s) c' = heldC sc s c') := by
  have hcur := cur_none_of_running sc s h hr
  unfold blockOnToken
  split
  · refine ⟨⟨h.storeClass, h.holClass, ?_, ?_, ?_, ?_, ?_, ?_, ?_, h.holNone⟩, ?_⟩
    · intro c' q hq; cases hq
    · intro f; have := h.count f; simpa [W, inHand, hr] using this
    · intro f; have := h.bytes f; simpa [W, inHand, hr] using this
    · have := h.tot; simpa [W, inHand, hr] using this
    · intro h1; cases h1
    · intro q d h1; cases h1
    · intro q h1; rw [hcur] at h1; cases h1
    · intro c'; simp [heldC, inHand, hr]
  · refine ⟨⟨h.storeClass, h.holClass, ?_, ?_, ?_, ?_, ?_, ?_, ?_, h.holNone⟩, ?_⟩
    · intro c' q hq; cases hq
    · intro f; have := h.count f; simpa [W, inHand, hr] using this
    · intro f; have := h.bytes f; simpa [W, inHand, hr] using this
    · have := h.tot; simpa [W, inHand, hr] using this
    · intro _ _; exact ht
    · intro q d h1; cases h1
    · intro q h1; rw [hcur] at h1; cases h1
    · intro c'; simp [heldC, inHand, hr]

/-- a parked packet is taken and sent -/
theorem inv_takeSend (sc : Sched ℚ κ) (s : MQState ℚ κ) (c : Nat) (p : MPkt) (e : Bool) (k' : κ) (h : Inv sc s)
    (hr : s.phase = .running) (hp : lookupD s.hol c none = some p) :
    Inv sc (spawn { s with ctl := k', hol := setKey s.hol c none } p e) ∧
    (∀ c', heldC sc (spawn { s with ctl := k', hol := setKey s.hol c none } p e) c' = heldC sc s c') := by
  have hcur := cur_none_of_running sc s h hr
  have hpc := h.holClass c p hp
  have hW : ∀ w, W w (spawn { s with ctl := k', hol := setKey s.hol c none } p e) = W w s := by
    intro w
    have := W_hol_set w s.hol c none
    rw [hp] at this
    simp only [W, inHand, hr, spawn, wsum_cons, wsum_nil, wOpt_some, wOpt_none] at this ⊢
    omega
  refine ⟨⟨h.storeClass, ?_, ?_, ?_, ?_, ?_, ?_, ?_, ?_, ?_⟩, ?_⟩
  rotate_left 9
  · intro c'
    simp only [heldC, inHand, hr, spawn, lookupD_setKey, List.filter_cons, List.filter_nil, hpc]
    by_cases hc : c' = c
    · subst hc
      simp [hp]
    · have : (some c = some c') = False := by simp [Ne.symm hc]
      simp [hc, this]
  · intro c' q hq
    simp only [spawn, lookupD_setKey] at hq
    split at hq
    · cases hq
    · exact h.holClass c' q hq
  · intro c' q hq; cases hq
  · intro f; rw [hW]; exact h.count f
  · intro f; rw [hW]; exact h.bytes f
  · rw [hW]; exact h.tot
  · intro h1; cases h1
  · intro q d h1; cases h1
  · intro q h1
    simp only [spawn, hcur] at h1
    split at h1
    · cases h1; exact Or.inl rfl
    · cases h1
  · intro hn c'
    simp only [spawn, lookupD_setKey]
    split
    · rfl
    · exact h.holNone hn c'

/-- the loop parks the packet it holds (`s0` = the state with the packet in the air) -/
theorem inv_park_back (sc : Sched ℚ κ) (s s2 : MQState ℚ κ) (c : Nat) (p : MPkt) (k' : κ) (h : Inv sc s)
    (hr : s.phase = .running) (hp : lookupD s.hol c none = some p)
    (hpk : park { s with ctl := k', hol := setKey s.hol c none } c p = .ok s2) :
    Inv sc s2 ∧ (∀ c', heldC sc s2 c' = heldC sc s c') ∧ s2.phase = .running ∧ s2.ctl = k' ∧ s2.now = s.now ∧
      s2.stores = s.stores ∧ s2.queueCount = s.queueCount ∧ (∀ c', lookupD s2.hol c' none = lookupD s.hol c' none) := by
  unfold park at hpk
  simp only [lookupD_setKey_same] at hpk
  simp only [Except.ok.injEq] at hpk
  subst hpk
  have hl : ∀ c', lookupD (setKey (setKey s.hol c none) c (some p)) c' none = lookupD s.hol c' none := by
    intro c'
    simp only [lookupD_setKey]
    split
    · rename_i hc; rw [hc, hp]
    · rfl
  have hW : ∀ w, wsumMap (wOpt w) (setKey (setKey s.hol c none) c (some p)) = wsumMap (wOpt w) s.hol := by
    intro w
    have h1 := W_hol_set w s.hol c none
    have h2 := W_hol_set w (setKey s.hol c none) c (some p)
    rw [hp] at h1
    rw [lookupD_setKey_same] at h2
    simp only [wOpt_some, wOpt_none] at h1 h2
    omega
  refine ⟨⟨h.storeClass, ?_, ?_, ?_, ?_, ?_, ?_, ?_, ?_, fun hn c' => by rw [hl]; exact h.holNone hn c'⟩, ?_, hr, rfl, rfl, rfl, rfl, hl⟩
  · intro c' q hq; rw [hl] at hq; exact h.holClass c' q hq
  · intro c' q hq; rw [hr] at hq; cases hq
  · intro f; have := h.count f; simp only [W, inHand, hr, hW] at this ⊢; exact this
  · intro f; have := h.bytes f; simp only [W, inHand, hr, hW] at this ⊢; exact this
  · have := h.tot; simp only [W, inHand, hr, hW] at this ⊢; exact this
  · intro h1; rw [hr] at h1; cases h1
  · intro q d h1; rw [hr] at h1; cases h1
  · exact h.curOnly
  · intro c'; simp only [heldC, inHand, hr, hl]

/-! ### a burst keeps the invariant and the per-class contents -/

theorem settles_inv (sc : Sched ℚ κ) (L : Lawful sc) (s s' : MQState ℚ κ) (hs : Settles sc s s')
    (hr : s.phase = .running) (h : Inv sc s) :
    Inv sc s' ∧ (∀ c, heldC sc s' c = heldC sc s c) := by
  induction hs with
  | goto s k s' hm _ ih =>
    have := ih (by simp [touch_phase, hr]) (inv_touch_ctl sc s k h)
    exact ⟨this.1, fun c => by rw [this.2 c, heldC_touch_ctl]⟩
  | get s c k s' hm hg =>
    have hh : lookupD (touch sc s).hol c none = none := by
      rcases L.get_no_hol _ _ _ _ hm with hh | hh
      · simpa [view] using hh
      · exact (inv_touch_ctl sc s k h).holNone hh c
    have := inv_issueGet sc { touch sc s with ctl := k } s' c (inv_touch_ctl sc s k h) (by simp [touch_phase, hr])
      hh hg
    exact ⟨this.1, fun c' => by rw [this.2.1 c', heldC_touch_ctl]⟩
  | block s k hm =>
    have ht := L.block_total _ _ _ hm
    have := inv_block sc { touch sc s with ctl := k } (inv_touch_ctl sc s k h) (by simp [touch_phase, hr])
      (by simpa [view] using ht)
    exact ⟨this.1, fun c' => by rw [this.2 c', heldC_touch_ctl]⟩
  | takeSend s c k p e k' hm hp hd =>
    have := inv_takeSend sc { touch sc s with ctl := k } c p e k' (inv_touch_ctl sc s k h) (by simp [touch_phase, hr]) hp
    exact ⟨this.1, fun c' => by rw [this.2 c', heldC_touch_ctl]⟩
  | takePark s c k p k' s2 s' hm hp hd hpk _ ih =>
    have := inv_park_back sc { touch sc s with ctl := k } s2 c p k' (inv_touch_ctl sc s k h) (by simp [touch_phase, hr]) hp hpk
    have h2 := ih this.2.2.1 this.1
    exact ⟨h2.1, fun c' => by rw [h2.2 c', this.2.1 c', heldC_touch_ctl]⟩

theorem resumeLoop_settles (sc : Sched ℚ κ) (s s' : MQState ℚ κ) (h : resumeLoop sc s = .ok s') :
    Settles sc { s with phase := Phase.running } s' := settle_settles sc _ _ _ h

end MQ
