import OnlVerif.Lemmas.PortKStepPort
import OnlVerif.Lemmas.PortKStepSrc
import OnlVerif.Lemmas.PortKAbsStep
/-!
# The Port on the kernel model: every kernel step is a configuration step; whole runs
-/

set_option linter.unusedSimpArgs false

namespace PortK
open PortOnK QEntry

variable {size : Int → Nat} {rate : ℚ} {ql : Option Int} {arrivals : List (ℚ × Int)}
variable {s : KS} {a : A} {q : QEntry ℚ} {rest : List (QEntry ℚ)}

/-- what `popMin` returns is a minimal entry of the configuration -/
theorem isMin_of_pop (hk : KInv s a) (hp : popMin s.agenda = some (q, rest)) :
    IsMin a q ∧ a.entries.Perm (q :: rest) := by
  have sp := popMin_spec _ _ _ hp
  have hperm : a.entries.Perm (q :: rest) := hk.ag.symm.trans sp.1
  refine ⟨⟨hperm.symm.subset List.mem_cons_self, ?_⟩, hperm⟩
  intro x hx
  rcases List.mem_cons.mp (hperm.subset hx) with rfl | hx
  · exact KeyLt.irrefl _
  · exact sp.2 x hx

/-- **one kernel step = one configuration step** -/
theorem kstep (fuel : Nat) {outs : List (Int × ℚ)} (hk : KInv s a)
    (hi : AInv size rate ql arrivals a s.now outs) (hp : popMin s.agenda = some (q, rest)) :
    ∃ s' a' new, step (body size rate ql) (fuel + 1) s = .ok s' ∧ KInv s' a' ∧ AStep size rate ql a q a' new ∧
      s'.now = q.time ∧ outsOf s'.trace = outsOf s.trace ++ new := by
  obtain ⟨hmin, hperm⟩ := isMin_of_pop hk hp
  have hq := hmin.1
  simp only [A.entries, List.mem_append] at hq
  rcases hq with hq | hq | hq
  · -- an entry of the port process
    have hrest : rest.Perm (a.src.entries ++ a.pend.toList) := by
      cases hport : a.port with
      | W g => simp [hport, PPhase.entries] at hq
      | init q0 =>
        simp only [hport, PPhase.entries, List.mem_singleton] at hq; subst hq
        simp only [A.entries, hport, PPhase.entries, List.singleton_append] at hperm
        exact hperm.cons_inv.symm
      | H g id q0 =>
        simp only [hport, PPhase.entries, List.mem_singleton] at hq; subst hq
        simp only [A.entries, hport, PPhase.entries, List.singleton_append] at hperm
        exact hperm.cons_inv.symm
      | T t id q0 =>
        simp only [hport, PPhase.entries, List.mem_singleton] at hq; subst hq
        simp only [A.entries, hport, PPhase.entries, List.singleton_append] at hperm
        exact hperm.cons_inv.symm
    cases hport : a.port with
    | W g => simp [hport, PPhase.entries] at hq
    | init q0 =>
      simp only [hport, PPhase.entries, List.mem_singleton] at hq; subst hq
      have hpa := hi.port
      rw [hport] at hpa
      obtain ⟨s', h1, h2, h3, h4⟩ := kstep_portInit (size := size) (rate := rate) (ql := ql) fuel hk hport hpa.2.2.1 hp hrest
      exact ⟨s', _, [], h1, h2, AStep.portInit a q _ hport, h3, by simpa using h4⟩
    | H g id q0 =>
      simp only [hport, PPhase.entries, List.mem_singleton] at hq; subst hq
      by_cases hr : 0 < rate
      · obtain ⟨s', h1, h2, h3, h4⟩ := kstep_serve (size := size) (ql := ql) fuel hr hk hport hp hrest
        exact ⟨s', _, [], h1, h2, AStep.serveTx a q _ g _ id hport hr ⟨rfl, rfl⟩, h3, by simpa using h4⟩
      · cases hit : a.items with
        | nil =>
          obtain ⟨s', h1, h2, h3, h4⟩ := kstep_serveNowIdle (size := size) (ql := ql) fuel hr hk hport hit hp hrest
          exact ⟨s', _, _, h1, h2, AStep.serveNowIdle a q g _ id hport hr hit, h3, h4⟩
        | cons i is =>
          obtain ⟨s', h1, h2, h3, h4⟩ := kstep_serveNowNext (size := size) (ql := ql) fuel hr hk hport hit hp hrest
          exact ⟨s', _, _, h1, h2, AStep.serveNowNext a q _ g _ id i is hport hr hit ⟨rfl, rfl⟩, h3, h4⟩
    | T t id q0 =>
      simp only [hport, PPhase.entries, List.mem_singleton] at hq; subst hq
      cases hit : a.items with
      | nil =>
        obtain ⟨s', h1, h2, h3, h4⟩ := kstep_fireIdle (size := size) (rate := rate) (ql := ql) fuel hk hport hit hp hrest
        exact ⟨s', _, _, h1, h2, AStep.fireIdle a q t _ id hport hit, h3, h4⟩
      | cons i is =>
        obtain ⟨s', h1, h2, h3, h4⟩ := kstep_fireNext (size := size) (rate := rate) (ql := ql) fuel hk hport hit hp hrest
        exact ⟨s', _, _, h1, h2, AStep.fireNext a q _ t _ id i is hport hit ⟨rfl, rfl⟩, h3, h4⟩
  · -- an entry of the source process
    have hrest : rest.Perm (a.port.entries ++ a.pend.toList) := by
      have : (q :: (a.port.entries ++ a.pend.toList)).Perm (q :: rest) := by
        refine List.Perm.trans ?_ hperm
        cases hsrc : a.src with
        | done => simp [hsrc, SPhase.entries] at hq
        | init q0 arr =>
          simp only [hsrc, SPhase.entries, List.mem_singleton] at hq; subst hq
          simp only [A.entries, hsrc, SPhase.entries, List.singleton_append]
          exact List.perm_middle.symm
        | wait id arr q0 =>
          simp only [hsrc, SPhase.entries, List.mem_singleton] at hq; subst hq
          simp only [A.entries, hsrc, SPhase.entries, List.singleton_append]
          exact List.perm_middle.symm
        | ending q0 =>
          simp only [hsrc, SPhase.entries, List.mem_singleton] at hq; subst hq
          simp only [A.entries, hsrc, SPhase.entries, List.singleton_append]
          exact List.perm_middle.symm
      exact this.cons_inv.symm
    have hsa := hi.src
    cases hsrc : a.src with
    | done => simp [hsrc, SPhase.entries] at hq
    | init q0 arr =>
      simp only [hsrc, SPhase.entries, List.mem_singleton] at hq; subst hq
      rw [hsrc] at hsa
      cases arr with
      | nil =>
        obtain ⟨s', h1, h2, h3, h4⟩ := kstep_srcInitEnd (size := size) (rate := rate) (ql := ql) fuel hk hsrc hp hrest
        exact ⟨s', _, [], h1, h2, AStep.srcInitEnd a q _ hsrc rfl rfl, h3, by simpa using h4⟩
      | cons x arr =>
        obtain ⟨gap, id⟩ := x
        have hgap : 0 ≤ gap := hsa.2.2.1 (gap, id) (by simp)
        obtain ⟨s', h1, h2, h3, h4⟩ := kstep_srcInitWait (size := size) (rate := rate) (ql := ql) fuel hk hsrc hgap hp hrest
        exact ⟨s', _, [], h1, h2, AStep.srcInitWait a q _ gap id arr hsrc rfl rfl, h3, by simpa using h4⟩
    | ending q0 =>
      simp only [hsrc, SPhase.entries, List.mem_singleton] at hq; subst hq
      obtain ⟨s', h1, h2, h3, h4⟩ := kstep_srcEnd (size := size) (rate := rate) (ql := ql) fuel hk hsrc hp hrest
      exact ⟨s', _, [], h1, h2, AStep.srcEnd a q hsrc, h3, by simpa using h4⟩
    | wait id arr q0 =>
      simp only [hsrc, SPhase.entries, List.mem_singleton] at hq; subst hq
      rw [hsrc] at hsa
      have hn : a.pend = none := by
        cases hpe : a.pend with
        | none => rfl
        | some u =>
          exfalso
          have hu := hi.pend u hpe
          exact hi.not_eid_lt hmin (mem_pend hpe) hu.1 (hu.2.trans hsa.1.symm) (hsa.2.2 u hpe)
      have hrefuse : ∀ b : Int, (refuses ql b = false → ∀ l, ql = some l → ¬ l < b) ∧
          (refuses ql b = true → ∃ l, ql = some l ∧ l < b) := by
        intro b
        cases ql with
        | none => simp [refuses]
        | some l => simp [refuses]
      cases hacc : refuses ql (a.bytes + (size id : Int)) with
      | false =>
        have hacc' := (hrefuse _).1 hacc
        cases arr with
        | nil =>
          obtain ⟨s', h1, h2, h3, h4⟩ :=
            kstep_srcPutEnd (size := size) (rate := rate) (ql := ql) fuel hk hsrc hn hacc hp hrest
          exact ⟨s', _, [], h1, h2, AStep.srcPutEnd a q _ _ id hsrc hn hacc' ⟨rfl, rfl⟩ ⟨rfl, rfl⟩, h3, by simpa using h4⟩
        | cons x arr =>
          obtain ⟨gap, id'⟩ := x
          have hgap : 0 ≤ gap := hsa.2.1 (gap, id') (by simp)
          obtain ⟨s', h1, h2, h3, h4⟩ :=
            kstep_srcPutWait (size := size) (rate := rate) (ql := ql) fuel hk hsrc hn hgap hacc hp hrest
          exact ⟨s', _, [], h1, h2,
            AStep.srcPutWait a q _ _ id gap id' arr hsrc hn hacc' ⟨rfl, rfl⟩ ⟨rfl, rfl⟩ (Nat.lt_succ_self _), h3,
            by simpa using h4⟩
      | true =>
        obtain ⟨l, hl, hdrop⟩ := (hrefuse _).2 hacc
        cases arr with
        | nil =>
          obtain ⟨s', h1, h2, h3, h4⟩ :=
            kstep_srcDropEnd (size := size) (rate := rate) (ql := ql) fuel hk hsrc hacc hp hrest
          exact ⟨s', _, [], h1, h2, AStep.srcDropEnd a q _ id l hsrc hn hl hdrop ⟨rfl, rfl⟩, h3, by simpa using h4⟩
        | cons x arr =>
          obtain ⟨gap, id'⟩ := x
          have hgap : 0 ≤ gap := hsa.2.1 (gap, id') (by simp)
          obtain ⟨s', h1, h2, h3, h4⟩ :=
            kstep_srcDropWait (size := size) (rate := rate) (ql := ql) fuel hk hsrc hgap hacc hp hrest
          exact ⟨s', _, [], h1, h2, AStep.srcDropWait a q _ id gap id' arr l hsrc hn hl hdrop ⟨rfl, rfl⟩, h3,
            by simpa using h4⟩
  · -- the pending `StorePut` event
    have hpe : a.pend = some q := by
      cases hpe : a.pend with
      | none => simp [hpe] at hq
      | some u => simp [hpe] at hq; rw [hq]
    have hrest : rest.Perm (a.port.entries ++ a.src.entries) := by
      have : (q :: (a.port.entries ++ a.src.entries)).Perm (q :: rest) := by
        refine List.Perm.trans ?_ hperm
        simp only [A.entries, hpe, Option.toList]
        rw [← List.append_assoc]
        exact (List.perm_append_comm (l₁ := [q])).trans (by simp)
      exact this.cons_inv.symm
    by_cases hw : ∃ g i is, a.port = .W g ∧ a.items = i :: is
    · obtain ⟨g, i, is, hport, hit⟩ := hw
      obtain ⟨s', h1, h2, h3, h4⟩ := kstep_putHand (size := size) (rate := rate) (ql := ql) fuel hk hpe hport hit hp hrest
      exact ⟨s', _, [], h1, h2, AStep.putHand a q _ g i is hpe hport hit ⟨rfl, rfl⟩, h3, by simpa using h4⟩
    · have hw' : a.port.getQ = [] ∨ a.items = [] := by
        cases hport : a.port with
        | W g =>
          right
          cases hit : a.items with
          | nil => rfl
          | cons i is => exact absurd ⟨g, i, is, hport, hit⟩ hw
        | init q0 => left; rfl
        | H g i q0 => left; rfl
        | T t i q0 => left; rfl
      obtain ⟨s', h1, h2, h3, h4⟩ := kstep_putIdle (size := size) (rate := rate) (ql := ql) fuel hk hpe hw' hp hrest
      exact ⟨s', _, [], h1, h2, AStep.putIdle a q hpe hw', h3, by simpa using h4⟩

/-! ## the combined invariant -/

/-- the kernel state `s` of the run on `arrivals` is the configuration `a`, and `a` is sound -/
structure Inv (size : Int → Nat) (rate : ℚ) (ql : Option Int) (arrivals : List (ℚ × Int)) (s : KS) (a : A) :
    Prop where
  k : KInv s a
  a : AInv size rate ql arrivals a s.now (outsOf s.trace)

/-- **one kernel step**: it is `.ok`, keeps the invariant, uses one unit of the step budget, appends the departures
`new` to the trace, and is a sequence of actions the Port LTS accepts from `toF a` to `toF a'` -/
theorem inv_step (fuel : Nat) (h : Inv size rate ql arrivals s a)
    (hp : popMin s.agenda = some (q, rest)) :
    ∃ s' a' new, step (body size rate ql) (fuel + 1) s = .ok s' ∧ Inv size rate ql arrivals s' a' ∧ a'.mu + 1 ≤ a.mu ∧
      outsOf s'.trace = outsOf s.trace ++ new ∧
      ∃ acts insI, a'.accIds = a.accIds ++ insI ∧
        Fifo.runActs (Port.dev (cfg rate ql)) (toF size a s.now) acts =
          .ok (toF size a' s'.now, insI.map Int.toNat, new.map (·.1.toNat)) := by
  obtain ⟨s', a', new, h1, h2, h3, h4, h5⟩ := kstep fuel h.k h.a hp
  obtain ⟨g1, g2, g3⟩ := astep_sound h.a (isMin_of_pop h.k hp).1 h3
  refine ⟨s', a', new, h1, ⟨h2, ?_⟩, g2, h5, ?_⟩
  · rw [h4, h5]; exact g1
  · rw [h4]; exact g3

theorem popMin_none {l : List (QEntry ℚ)} (h : popMin l = none) : l = [] := by
  cases l with
  | nil => rfl
  | cons x xs =>
    unfold popMin at h
    cases hp : popMin xs with
    | none => rw [hp] at h; cases h
    | some mr => rw [hp] at h; simp only at h; split at h <;> cases h

/-- with an empty agenda everything has left: the trace holds exactly the departure recurrence -/
theorem inv_final (h : Inv size rate ql arrivals s a) (he : s.agenda = []) :
    (ql = none → outsOf s.trace = departures size rate none 0 arrivals) ∧ a.items = [] ∧
      a.putIds = arrivals.map (·.2) ∧ a.mu = 0 := by
  have hag := h.k.ag
  rw [he] at hag
  have hent : a.entries = [] := List.Perm.eq_nil hag.symm
  simp only [A.entries, List.append_eq_nil_iff] at hent
  obtain ⟨hpo, hsr, hpe⟩ := hent
  have hpe' : a.pend = none := by
    cases hp : a.pend with
    | none => rfl
    | some u => simp [hp] at hpe
  cases hport : a.port with
  | init q0 => simp [hport, PPhase.entries] at hpo
  | H g id q0 => simp [hport, PPhase.entries] at hpo
  | T t id q0 => simp [hport, PPhase.entries] at hpo
  | W g =>
    cases hsrc : a.src with
    | init q0 arr => simp [hsrc, SPhase.entries] at hsr
    | wait id arr q0 => simp [hsrc, SPhase.entries] at hsr
    | ending q0 => simp [hsrc, SPhase.entries] at hsr
    | done =>
      have hit : a.items = [] := by
        by_contra hc
        have := h.a.idle (by simp [hport, PPhase.idle]) hc
        rw [hpe'] at this; cases this
      refine ⟨?_, hit, ?_, ?_⟩
      · intro hql
        have := h.a.ghost hql
        simpa [pred, hport, hit, hsrc, SPhase.todo, departures] using this
      · have := h.a.puts
        simpa [hsrc, SPhase.ids] using this.symm
      · simp [A.mu, hport, hsrc, hpe', hit, PPhase.mu, SPhase.mu]

/-- **`run()` returns**: with more step budget than the configuration needs, `runLoop` ends with an empty agenda -/
theorem run_returns (fuel : Nat) : ∀ (n : Nat) (s : KS) (a : A), Inv size rate ql arrivals s a → a.mu < n →
    ∃ sF aF, runLoop (body size rate ql) (fuel + 1) none n s = .returned .none sF ∧ Inv size rate ql arrivals sF aF ∧
      sF.agenda = []
  | 0, _, _, _, hmu => absurd hmu (Nat.not_lt_zero _)
  | n + 1, s, a, h, hmu => by
    cases hp : popMin s.agenda with
    | none =>
      refine ⟨s, a, ?_, h, popMin_none hp⟩
      simp [runLoop, step, hp]
    | some qr =>
      obtain ⟨q, rest⟩ := qr
      obtain ⟨s', a', new, h1, h2, h3, -, -⟩ := inv_step fuel h hp
      have := run_returns fuel n s' a' h2 (by omega)
      simpa [runLoop, h1] using this

/-! ## the initial state -/

/-- the configuration of the initial state -/
def a0 (arrivals : List (ℚ × Int)) : A :=
  { port := .init ⟨0, URGENT, 0, 1⟩, src := .init ⟨0, URGENT, 1, 3⟩ arrivals, pend := none, items := [], bytes := 0,
    recv := 0, busy := false, bsz := 0, last := none, putIds := [], dropped := 0, accIds := [] }

/-- the initial state written out -/
def initFlat (arrivals : List (ℚ × Int)) : KS :=
  { now := 0,
    agenda := [{ time := 0, prio := URGENT, eid := 1, ev := 3 }, { time := 0, prio := URGENT, eid := 0, ev := 1 }],
    eid := 2,
    events :=
      #[{ kind := Kind.proc, cbs := some [], out := none, label := 1 },
        { kind := Kind.init 0, cbs := some [Cb.resume 0], out := some (Outcome.ok Val.none) },
        { kind := Kind.proc, cbs := some [], out := none, label := 2 },
        { kind := Kind.init 2, cbs := some [Cb.resume 2], out := some (Outcome.ok Val.none) }],
    procs := [(2, { st := PSt.src none arrivals, target := some 3 }), (0, { st := PSt.portStart, target := some 1 })],
    shared := [(0, Val.int 0), (1, Val.int 0), (2, Val.int 0), (3, Val.int 0), (4, Val.int 0)],
    resources := #[{ kind := ResKind.store, capacity := none }], nlabel := 2 }

theorem initState_eq (arrivals : List (ℚ × Int)) : (initState arrivals : KS) = initFlat arrivals := by
  simp [-Array.getD_eq_getD_getElem?, initState, doCall, KState.newLabelled, KState.newEv, KState.setProc, KState.schedule,
    zero_eq', initFlat, cByteSize, cReceived, cBusy, cBusySize, cDropped]

theorem inv_init (arrivals : List (ℚ × Int)) (hg : GapsOK arrivals) :
    Inv size rate ql arrivals (initState arrivals) (a0 arrivals) := by
  rw [initState_eq]
  refine ⟨⟨⟨?_, ?_, ?_⟩, ?_, ?_, ?_, ?_, ?_, ?_, ?_, ?_, ?_, ?_, ?_⟩, ⟨?_, ?_, ?_, ?_, ?_, ?_, ?_, ?_, ?_, ?_, ?_⟩⟩
  · intro q hq; simp [initFlat] at hq; rcases hq with rfl | rfl <;> simp [initFlat]
  · intro q hq; simp [initFlat] at hq; rcases hq with rfl | rfl <;> simp [initFlat]
  · simp [initFlat]
  · simp only [initFlat, a0, A.entries, PPhase.entries, SPhase.entries, Option.toList, List.append_nil, List.singleton_append]
    exact List.Perm.swap _ _ _
  · simp [initFlat]
  · simp [initFlat, KState.res, a0, PPhase.getQ, storeRec]
  · refine ⟨rfl, ?_, ?_⟩
    · simp [EvIs, KState.ev, initFlat]
    · simp [proc?_eq, plookup, initFlat]
  · refine ⟨rfl, ?_, ?_, ?_⟩
    · simp [EvIs, KState.ev, initFlat]
    · simp [proc?_eq, plookup, initFlat]
    · simp [EvIs, KState.ev, initFlat]
  · intro u hu; cases hu
  · simp [initFlat, lookup, a0]
  · simp [initFlat, lookup, a0]
  · simp [initFlat, lookup, a0]
  · simp [initFlat, lookup, a0]
  · simp [initFlat, lookup, a0]
  · exact ⟨rfl, rfl, rfl, rfl, rfl⟩
  · exact ⟨rfl, rfl, hg, rfl⟩
  · intro u hu; cases hu
  · intro _ h; exact absurd rfl h
  · intro d hd; cases hd
  · intro x hx
    simp [a0, A.entries, PPhase.entries, SPhase.entries] at hx
    rcases hx with rfl | rfl <;> simp [initFlat]
  · intro _; simp [initFlat, outsOf, pred, a0, SPhase.todo]
  · simp [a0, SPhase.ids]
  · rfl
  · rfl
  · intro _; rfl
/-! ## the abstraction function -/

theorem find?_unique {α} (l : List α) (p : α → Bool) (x : α) (hx : x ∈ l) (hp : p x = true)
    (hu : ∀ y ∈ l, p y = true → y = x) : l.find? p = some x := by
  cases h : l.find? p with
  | none => exact absurd hp (by simpa using List.find?_eq_none.mp h x hx)
  | some y => rw [hu y (List.mem_of_find?_eq_some h) (List.find?_some h)]

theorem cellInt_of {k : Nat} {n : Int} (h : lookup s.shared k = .int n) : cellInt s k = n := by
  unfold cellInt
  have : ((s.shared.find? (·.1 == k)).map (·.2)).getD Val.none = .int n := h
  rw [this]

/-- the port's timeout entry is the only agenda entry of its event -/
theorem dueOf_eq (hk : KInv s a) {t : EvId} {id : Int} {q : QEntry ℚ} (hport : a.port = .T t id q) :
    dueOf s t = q.time := by
  have hpk := hk.port
  rw [hport] at hpk
  obtain ⟨hqe, ⟨_, hcbs, _⟩, _⟩ := hpk
  have hq : q ∈ s.agenda := hk.ag.symm.subset (mem_port (by simp [hport, PPhase.entries]))
  have : s.agenda.find? (·.ev == t) = some q := by
    refine find?_unique _ _ q hq (by simp [hqe]) ?_
    intro y hy hyt
    have hyt' : y.ev = t := by simpa using hyt
    have hy' := hk.ag.subset hy
    simp only [A.entries, hport, PPhase.entries, List.mem_append, List.mem_singleton] at hy'
    rcases hy' with rfl | hy' | hy'
    · rfl
    · exfalso
      have hsk := hk.src
      cases hsrc : a.src with
      | done => simp [hsrc, SPhase.entries] at hy'
      | init q0 arr =>
        simp only [hsrc, SPhase.entries, List.mem_singleton] at hy'; subst hy'
        rw [hsrc] at hsk
        have := hsk.2.1.2.1
        rw [← hsk.1, hyt', hcbs] at this; cases this
      | wait i arr q0 =>
        simp only [hsrc, SPhase.entries, List.mem_singleton] at hy'; subst hy'
        rw [hsrc] at hsk
        have := hsk.1.2.1
        rw [hyt', hcbs] at this; cases this
      | ending q0 =>
        simp only [hsrc, SPhase.entries, List.mem_singleton] at hy'; subst hy'
        rw [hsrc] at hsk
        have := hsk.2.2.1
        rw [← hsk.1, hyt', hcbs] at this; cases this
    · exfalso
      cases hpe : a.pend with
      | none => simp [hpe] at hy'
      | some u =>
        simp [hpe] at hy'; subst hy'
        have := (hk.pend y hpe).2.1
        rw [hyt', hcbs] at this; cases this
  unfold dueOf
  rw [this]; rfl

/-- **the abstraction function reads the configuration's LTS state off the kernel state** -/
theorem absPort_eq (hk : KInv s a) : absPort size s = toF size a s.now := by
  have hdev : absDev s =
      { byteSize := a.bytes, received := a.recv, dropped := a.dropped, busy := a.busy, busySize := a.bsz, avg := 0 } := by
    unfold absDev
    simp only [cByteSize, cReceived, cBusy, cBusySize, cDropped]
    rw [cellInt_of hk.c0, cellInt_of hk.c1, cellInt_of hk.c2, cellInt_of hk.c3, cellInt_of hk.c4, zero_eq']
    cases a.busy <;> simp
  have hitems : (s.res storeId).items = a.items := by
    show (s.res 0).items = a.items; rw [hk.res]; rfl
  have hpk := hk.port
  unfold absPort toF
  cases hport : a.port with
  | init q =>
    rw [hport] at hpk
    simp [portProc, hpk.2.2, hdev, hitems]
  | W g =>
    rw [hport] at hpk
    simp [portProc, hpk.2, hpk.1.2.2, hdev, hitems]
  | H g id q =>
    rw [hport] at hpk
    simp [portProc, hpk.2.2, hpk.2.1.2.2, hdev, hitems]
  | T t id q =>
    rw [hport] at hpk
    simp [portProc, hpk.2.2, hdev, hitems, dueOf_eq hk hport]

theorem absPort_dev (size : Int → Nat) (s : KS) : (absPort size s).dev = absDev s := by
  unfold absPort
  split
  · split <;> rfl
  · rfl
  · rfl

/-! ## every reachable state -/

theorem toF_a0 (arrivals : List (ℚ × Int)) : toF size (a0 arrivals) 0 = Fifo.init ({ avg := 0 } : PortSt ℚ) 0 := rfl

/-- ids handed to `put` so far = the first `packets_received` arrivals -/
theorem putIds_eq (h : Inv size rate ql arrivals s a) :
    a.putIds = (arrivals.take (cellInt s cReceived).toNat).map (·.2) := by
  have h1 := h.a.puts
  have h2 := h.a.nput
  have hc : cellInt s cReceived = a.recv := cellInt_of h.k.c1
  rw [hc, Int.toNat_natCast, List.map_take, h1, ← h2, List.take_left' rfl]

/-- **every state reachable by kernel steps is a sound configuration, and the run so far is an admissible run of
the Port LTS** from its initial state to the configuration's LTS state, with the same arrivals and departures -/
theorem reach_inv (fuel : Nat) (hg : GapsOK arrivals) {s : KS}
    (h : KReach (body size rate ql) (fuel + 1) (initState arrivals) s) :
    ∃ a acts, Inv size rate ql arrivals s a ∧
      Fifo.runActs (Port.dev (cfg rate ql)) (Fifo.init ({ avg := 0 } : PortSt ℚ) 0) acts =
        .ok (toF size a s.now, a.accIds.map Int.toNat, (outsOf s.trace).map (·.1.toNat)) := by
  induction h with
  | init =>
    refine ⟨a0 arrivals, [], inv_init arrivals hg, ?_⟩
    rw [initState_eq]
    rfl
  | @step s s' _ hs ih =>
    obtain ⟨a, acts, hi, hrun⟩ := ih
    cases hp : popMin s.agenda with
    | none => simp [step, hp, StepResult.state?] at hs
    | some qr =>
      obtain ⟨q, rest⟩ := qr
      obtain ⟨s'', a', new, h1, h2, -, h4, acts', insI, h5, h6⟩ := inv_step fuel hi hp
      rw [h1] at hs
      simp only [StepResult.state?, Option.some.injEq] at hs
      subst hs
      refine ⟨a', acts ++ acts', h2, ?_⟩
      have := runActs_append _ _ _ _ _ _ _ _ _ _ hrun h6
      rw [this, h5, h4]
      simp

end PortK
