import OnlVerif.Lemmas.ConserveBase
/-!
# C06 / C07: queue discipline along whole runs

* `QSorted`: every put queue is sorted by rank — creation order for the plain classes,
  `(priority, request time, preempting-first, creation)` for `PriorityResource` / `PreemptiveResource`; every get
  queue is in creation order.
* `GrantOrd s s'` (transitive, so it speaks about whole runs): if `a` is queued before `b` in `s` and `b` has been
  granted in `s'`, then `a` has been granted in `s'` too, or was cancelled (left the queue untriggered); requests that
  stay queued keep their relative order; a cancelled request is never granted.  For get queues the first clause is
  claimed for every class except `FilterStore`.
-/

variable {σ : Type}

namespace Conserve

/-! ## `keyLt` is a strict weak order -/

theorem keyLt_iff (a b : ReqData ℚ) : keyLt a b = true ↔
    a.prio < b.prio ∨ (a.prio = b.prio ∧ (a.time < b.time ∨ (a.time = b.time ∧ a.preempt = true ∧ b.preempt = false))) := by
  unfold keyLt
  simp only [Bool.or_eq_true, Bool.and_eq_true, decide_eq_true_eq, beq_iff_eq, Bool.not_eq_true', decide_eq_false_iff_not,
    not_lt]
  constructor
  · rintro (h | ⟨h1, h2 | ⟨h2, h3, h4⟩⟩)
    · exact Or.inl h
    · exact Or.inr ⟨h1, Or.inl h2⟩
    · rcases lt_or_eq_of_le h2 with h | h
      · exact Or.inr ⟨h1, Or.inl h⟩
      · exact Or.inr ⟨h1, Or.inr ⟨h, h3, h4⟩⟩
  · rintro (h | ⟨h1, h2 | ⟨h2, h3, h4⟩⟩)
    · exact Or.inl h
    · exact Or.inr ⟨h1, Or.inl h2⟩
    · exact Or.inr ⟨h1, Or.inr ⟨le_of_eq h2, h3, h4⟩⟩

theorem keyLt_asymm {a b : ReqData ℚ} (h : keyLt a b = true) : keyLt b a = false := by
  cases hb : keyLt b a with
  | false => rfl
  | true =>
    exfalso
    rw [keyLt_iff] at h hb
    rcases h with h | ⟨h1, h | ⟨h2, h3, h4⟩⟩ <;> rcases hb with g | ⟨g1, g | ⟨g2, g3, g4⟩⟩ <;>
      first | omega | linarith | (rw [h3] at g4; cases g4)

theorem keyLt_trans {a b c : ReqData ℚ} (h : keyLt a b = true) (g : keyLt b c = true) : keyLt a c = true := by
  rw [keyLt_iff] at h g ⊢
  rcases h with h | ⟨h1, h | ⟨h2, h3, h4⟩⟩ <;> rcases g with g | ⟨g1, g | ⟨g2, g3, g4⟩⟩
  · exact Or.inl (by omega)
  · exact Or.inl (by omega)
  · exact Or.inl (by omega)
  · exact Or.inl (by omega)
  · exact Or.inr ⟨by omega, Or.inl (by linarith)⟩
  · exact Or.inr ⟨by omega, Or.inl (by linarith)⟩
  · exact Or.inl (by omega)
  · exact Or.inr ⟨by omega, Or.inl (by linarith)⟩
  · rw [h4] at g3; cases g3

/-- negative transitivity -/
theorem keyLt_cotrans {a c : ReqData ℚ} (b : ReqData ℚ) (h : keyLt a c = true) : keyLt a b = true ∨ keyLt b c = true := by
  rw [keyLt_iff] at h
  rw [keyLt_iff, keyLt_iff]
  rcases lt_trichotomy a.prio b.prio with p | p | p
  · exact Or.inl (Or.inl p)
  · rcases lt_trichotomy a.time b.time with t | t | t
    · exact Or.inl (Or.inr ⟨p, Or.inl t⟩)
    · rcases h with h | ⟨h1, h | ⟨h2, h3, h4⟩⟩
      · exact Or.inr (Or.inl (by omega))
      · exact Or.inr (Or.inr ⟨by omega, Or.inl (by linarith)⟩)
      · cases hb : b.preempt with
        | true => exact Or.inr (Or.inr ⟨by omega, Or.inr ⟨by linarith, rfl, h4⟩⟩)
        | false => exact Or.inl (Or.inr ⟨p, Or.inr ⟨t, h3, rfl⟩⟩)
    · rcases h with h | ⟨h1, h | ⟨h2, h3, h4⟩⟩
      · exact Or.inr (Or.inl (by omega))
      · exact Or.inr (Or.inr ⟨by omega, Or.inl (by linarith)⟩)
      · exact Or.inr (Or.inr ⟨by omega, Or.inl (by linarith)⟩)
  · rcases h with h | ⟨h1, h⟩
    · exact Or.inr (Or.inl (by omega))
    · exact Or.inr (Or.inl (by omega))

theorem keyLt_of_core {s s' : KState ℚ σ} {a b : EvId} (ha : coreOf s' a = coreOf s a) (hb : coreOf s' b = coreOf s b) :
    keyLt (reqOf s' a) (reqOf s' b) = keyLt (reqOf s a) (reqOf s b) := by
  unfold keyLt
  rw [prio_of_core ha, prio_of_core hb, time_of_core ha, time_of_core hb, preempt_of_core ha, preempt_of_core hb]

/-! ## rank -/

/-- `a` ranks strictly before `b`: creation order, preceded by the request key for the two priority classes -/
def rankLt (s : KState ℚ σ) (prio : Bool) (a b : EvId) : Prop :=
  if prio then keyLt (reqOf s a) (reqOf s b) = true ∨ (keyLt (reqOf s b) (reqOf s a) = false ∧ a < b) else a < b

theorem rankLt_asymm {s : KState ℚ σ} {prio : Bool} {a b : EvId} (h : rankLt s prio a b) : ¬ rankLt s prio b a := by
  unfold rankLt at h ⊢
  cases prio
  · simp only [Bool.false_eq_true, if_false] at h ⊢; exact Nat.lt_asymm h
  · simp only [if_true] at h ⊢
    rintro (g | ⟨g1, g2⟩)
    · rcases h with h | ⟨h1, _⟩
      · rw [keyLt_asymm h] at g; cases g
      · rw [h1] at g; cases g
    · rcases h with h | ⟨_, h2⟩
      · rw [h] at g1; cases g1
      · exact Nat.lt_asymm h2 g2

theorem rankLt_of_core {s s' : KState ℚ σ} {prio : Bool} {a b : EvId} (ha : coreOf s' a = coreOf s a)
    (hb : coreOf s' b = coreOf s b) : rankLt s' prio a b ↔ rankLt s prio a b := by
  unfold rankLt
  rw [keyLt_of_core ha hb, keyLt_of_core hb ha]

/-- `SortedQueue.append` keeps the queue sorted by rank: the new request goes behind every request that does not rank
after it (stable) -/
theorem pairwise_insertSorted (s : KState ℚ σ) (e : EvId) (l : List EvId) (hs : l.Pairwise (rankLt s true))
    (hlt : ∀ x ∈ l, x < e) : (insertSorted s e l).Pairwise (rankLt s true) := by
  induction l with
  | nil => simp [insertSorted]
  | cons x xs ih =>
    have hx := List.pairwise_cons.mp hs
    unfold insertSorted
    split
    · rename_i hk
      refine List.pairwise_cons.mpr ⟨?_, hs⟩
      intro y hy
      rcases List.mem_cons.mp hy with rfl | hy
      · unfold rankLt; simp only [if_true]; exact Or.inl hk
      · have hxy := hx.1 y hy
        unfold rankLt at hxy ⊢
        simp only [if_true] at hxy ⊢
        left
        rcases hxy with hxy | ⟨hxy, _⟩
        · exact keyLt_trans hk hxy
        · rcases keyLt_cotrans (reqOf s y) hk with h | h
          · exact h
          · rw [hxy] at h; cases h
    · rename_i hk
      refine List.pairwise_cons.mpr ⟨?_, ih hx.2 (fun y hy => hlt y (List.mem_cons_of_mem _ hy))⟩
      intro y hy
      rw [mem_insertSorted] at hy
      rcases hy with rfl | hy
      · unfold rankLt; simp only [if_true]
        by_cases hxe : keyLt (reqOf s x) (reqOf s y) = true
        · exact Or.inl hxe
        · exact Or.inr ⟨by simpa using hk, hlt x List.mem_cons_self⟩
      · exact hx.1 y hy

/-! ## position in a queue -/

/-- `a` stands before `b` in `l` -/
def Before (l : List EvId) (a b : EvId) : Prop := [a, b].Sublist l

theorem Before.mem {l : List EvId} {a b : EvId} (h : Before l a b) : a ∈ l ∧ b ∈ l :=
  ⟨h.subset List.mem_cons_self, h.subset (List.mem_cons_of_mem _ List.mem_cons_self)⟩

theorem Before.of_sublist {l l' : List EvId} {a b : EvId} (h : Before l a b) (hs : l.Sublist l') : Before l' a b :=
  List.Sublist.trans h hs

theorem Before.erase {l : List EvId} {a b e : EvId} (h : Before l a b) (ha : a ≠ e) (hb : b ≠ e) : Before (l.erase e) a b := by
  have := List.Sublist.erase e h
  rwa [List.erase_of_not_mem (by simp [Ne.symm ha, Ne.symm hb])] at this

/-- nothing stands before the head -/
theorem not_before_head {e : EvId} {rest : List EvId} (hn : (e :: rest).Nodup) (a : EvId) : ¬ Before (e :: rest) a e := by
  intro h
  have hne := (List.nodup_cons.mp hn).1
  unfold Before at h
  rw [List.sublist_cons_iff] at h
  rcases h with h | ⟨r, h1, h2⟩
  · exact hne (h.subset (List.mem_cons_of_mem _ List.mem_cons_self))
  · injection h1 with h1 h3
    subst h3
    exact hne (h2.subset List.mem_cons_self)

/-- what stands before `e` in `pre ++ e :: rest` is in `pre` -/
theorem mem_pre_of_before {pre rest : List EvId} {e a : EvId} (hn : (pre ++ e :: rest).Nodup)
    (h : Before (pre ++ e :: rest) a e) : a ∈ pre := by
  induction pre with
  | nil => exact absurd h (not_before_head hn a)
  | cons p ps ih =>
    unfold Before at h
    rw [List.cons_append, List.sublist_cons_iff] at h
    rcases h with h | ⟨r, h1, _⟩
    · exact List.mem_cons_of_mem _ (ih (List.nodup_cons.mp hn).2 h)
    · injection h1 with h1 _
      rw [h1]; exact List.mem_cons_self

/-- in a duplicate-free list sorted by an asymmetric relation, the relation decides the position -/
theorem before_of_rel {R : EvId → EvId → Prop} (hasymm : ∀ a b, R a b → ¬ R b a) :
    ∀ {l : List EvId}, l.Pairwise R → ∀ {a b : EvId}, a ∈ l → b ∈ l → R a b → Before l a b
  | [], _, _, _, ha, _, _ => by cases ha
  | x :: xs, hp, a, b, ha, hb, hr => by
    have hx := List.pairwise_cons.mp hp
    rcases List.mem_cons.mp ha with rfl | ha'
    · rcases List.mem_cons.mp hb with rfl | hb'
      · exact absurd hr (hasymm _ _ hr)
      · exact List.Sublist.cons_cons _ (List.singleton_sublist.mpr hb')
    · rcases List.mem_cons.mp hb with rfl | hb'
      · exact absurd (hx.1 a ha') (hasymm _ _ hr)
      · exact List.Sublist.cons _ (before_of_rel hasymm hx.2 ha' hb' hr)

/-! ## the order relation between two states, for one queue -/

/-- `mine`: the requests this queue is for; `Q, out`: queue and outcomes before; `Q', out'`: after; `P`: the class
serves strictly in queue order -/
structure QOrd (mine : EvId → Prop) (P : Prop) (Q Q' : List EvId) (out out' : EvId → Option Outcome) : Prop where
  /-- granted in queue order -/
  order : P → ∀ a b, Before Q a b → out' b ≠ none → out' a ≠ none ∨ (a ∉ Q' ∧ out' a = none)
  /-- those who stay keep their order -/
  keep : ∀ a b, Before Q a b → a ∈ Q' → b ∈ Q' → Before Q' a b
  /-- a request that left the queue untriggered (cancelled) is never granted and never comes back -/
  dead : ∀ a, mine a → a ∉ Q → out a = none → a ∉ Q' ∧ out' a = none

namespace QOrd

theorem trans {mine1 mine2 : EvId → Prop} {P : Prop} {Q1 Q2 Q3 : List EvId} {o1 o2 o3 : EvId → Option Outcome}
    (h12 : QOrd mine1 P Q1 Q2 o1 o2) (h23 : QOrd mine2 P Q2 Q3 o2 o3) (hm : ∀ a, mine1 a → mine2 a)
    (hq1 : ∀ a ∈ Q1, mine1 a) (hu3 : ∀ a ∈ Q3, o3 a = none) (hstab : ∀ a, mine1 a → o2 a ≠ none → o3 a ≠ none) :
    QOrd mine1 P Q1 Q3 o1 o3 := by
  refine ⟨?_, ?_, ?_⟩
  · intro hP a b hab hb3
    have hma := hm a (hq1 a hab.mem.1)
    have hmb := hm b (hq1 b hab.mem.2)
    by_cases hb2 : o2 b = none
    · have hbQ : b ∈ Q2 := by
        by_contra hc
        exact hb3 (h23.dead b hmb hc hb2).2
      by_cases ha2 : o2 a = none
      · by_cases haQ : a ∈ Q2
        · exact h23.order hP a b (h12.keep a b hab haQ hbQ) hb3
        · exact Or.inr (h23.dead a hma haQ ha2)
      · exact Or.inl (hstab a (hq1 a hab.mem.1) ha2)
    · rcases h12.order hP a b hab hb2 with ha2 | ⟨haQ, ha2⟩
      · exact Or.inl (hstab a (hq1 a hab.mem.1) ha2)
      · exact Or.inr (h23.dead a hma haQ ha2)
  · intro a b hab ha3 hb3
    have hin : ∀ x, x ∈ Q1 → x ∈ Q3 → x ∈ Q2 := by
      intro x hx1 hx3
      by_contra hc
      by_cases hx2 : o2 x = none
      · exact (h23.dead x (hm x (hq1 x hx1)) hc hx2).1 hx3
      · exact hstab x (hq1 x hx1) hx2 (hu3 x hx3)
    exact h23.keep a b (h12.keep a b hab (hin a hab.mem.1 ha3) (hin b hab.mem.2 hb3)) ha3 hb3
  · intro a hma haQ ha1
    obtain ⟨h1, h2⟩ := h12.dead a hma haQ ha1
    exact h23.dead a (hm a hma) h1 h2

/-- the queue is untouched and the outcomes of its requests are untouched -/
theorem of_same {mine : EvId → Prop} {P : Prop} {Q Q' : List EvId} {o o' : EvId → Option Outcome} (hQ : Q' = Q)
    (ho : ∀ a, mine a → o' a = o a) (hm : ∀ a ∈ Q, mine a) (hu : ∀ a ∈ Q, o a = none) : QOrd mine P Q Q' o o' := by
  subst hQ
  refine ⟨?_, fun a b h _ _ => h, ?_⟩
  · intro _ a b hab hb
    exfalso
    apply hb
    rw [ho b (hm b hab.mem.2)]; exact hu b hab.mem.2
  · intro a hma haQ ha
    exact ⟨haQ, by rw [ho a hma]; exact ha⟩

/-- one request leaves the queue: cancelled (outcomes untouched) or granted — and then, for a class that serves in
queue order, it was the head -/
theorem of_erase {mine : EvId → Prop} {P : Prop} {Q Q' : List EvId} {o o' : EvId → Option Outcome} {e : EvId}
    (hQ : Q' = Q.erase e) (hnd : Q.Nodup) (heQ : e ∈ Q) (ho : ∀ a, a ≠ e → o' a = o a) (hu : ∀ a ∈ Q, o a = none)
    (hhead : o' e ≠ none → P → ∃ rest, Q = e :: rest) : QOrd mine P Q Q' o o' := by
  subst hQ
  refine ⟨?_, ?_, ?_⟩
  · intro hP a b hab hb
    by_cases hbe : b = e
    · subst hbe
      obtain ⟨rest, hr⟩ := hhead hb hP
      rw [hr] at hab hnd
      exact absurd hab (not_before_head hnd a)
    · exfalso
      apply hb
      rw [ho b hbe]; exact hu b hab.mem.2
  · intro a b hab ha hb
    rw [hnd.mem_erase_iff] at ha hb
    exact hab.erase ha.1 hb.1
  · intro a _ haQ ha
    have hae : a ≠ e := fun hc => haQ (hc ▸ heQ)
    exact ⟨fun hc => haQ (List.mem_of_mem_erase hc), by rw [ho a hae]; exact ha⟩

/-- the queue grows by fresh requests; outcomes of the old ones are untouched -/
theorem of_grow {mine : EvId → Prop} {P : Prop} {Q Q' : List EvId} {o o' : EvId → Option Outcome}
    (hsub : Q.Sublist Q') (hnew : ∀ a ∈ Q', a ∈ Q ∨ ¬ mine a) (ho : ∀ a, mine a → o' a = o a) (hm : ∀ a ∈ Q, mine a)
    (hu : ∀ a ∈ Q, o a = none) : QOrd mine P Q Q' o o' := by
  refine ⟨?_, fun a b h _ _ => h.of_sublist hsub, ?_⟩
  · intro _ a b hab hb
    exfalso
    apply hb
    rw [ho b (hm b hab.mem.2)]; exact hu b hab.mem.2
  · intro a hma haQ ha
    refine ⟨?_, by rw [ho a hma]; exact ha⟩
    intro hc
    rcases hnew a hc with h | h
    · exact haQ h
    · exact h hma

end QOrd

/-! ## the relation on kernel states -/

/-- queues are sorted by rank -/
structure QSorted (s : KState ℚ σ) : Prop where
  put : ∀ r, (s.res r).putQ.Pairwise (rankLt s (isPrioKind (s.res r).kind))
  get : ∀ r, (s.res r).getQ.Pairwise (fun a b => a < b)

/-- the order relation for every queue -/
structure GrantOrd (s s' : KState ℚ σ) : Prop where
  put : ∀ r, QOrd (fun a => (s.ev a).kind = .put r) True (s.res r).putQ (s'.res r).putQ
    (fun a => (s.ev a).out) (fun a => (s'.ev a).out)
  get : ∀ r, QOrd (fun a => (s.ev a).kind = .get r) ((s.res r).kind ≠ .fstore) (s.res r).getQ (s'.res r).getQ
    (fun a => (s.ev a).out) (fun a => (s'.ev a).out)

def QueueRel (s s' : KState ℚ σ) : Prop := Base s s' ∧ (WF s → GrantOrd s s' ∧ (QSorted s → QSorted s'))

/-- a unit that leaves all queues and the kinds, outcomes and data of all request events alone -/
theorem grantOrd_of_same {s s' : KState ℚ σ} (hW : WF s) (hp : ∀ r, (s'.res r).putQ = (s.res r).putQ)
    (hg : ∀ r, (s'.res r).getQ = (s.res r).getQ) (ho : ∀ a, isReq s a = true → (s'.ev a).out = (s.ev a).out) :
    GrantOrd s s' :=
  ⟨fun r => QOrd.of_same (hp r) (fun a ha => ho a (isReq_of_put ha)) (fun a ha => (hW.putQ r a ha).1)
      (fun a ha => (hW.putQ r a ha).2),
   fun r => QOrd.of_same (hg r) (fun a ha => ho a (isReq_of_get ha)) (fun a ha => (hW.getQ r a ha).1)
      (fun a ha => (hW.getQ r a ha).2)⟩

theorem qSorted_of_same {s s' : KState ℚ σ} (hW : WF s) (hk : ∀ r, (s'.res r).kind = (s.res r).kind)
    (hp : ∀ r, (s'.res r).putQ.Sublist (s.res r).putQ) (hg : ∀ r, (s'.res r).getQ.Sublist (s.res r).getQ)
    (hc : ∀ a, isReq s a = true → coreOf s' a = coreOf s a) : QSorted s → QSorted s' := by
  intro hS
  refine ⟨?_, fun r => (hS.get r).sublist (hg r)⟩
  intro r
  rw [hk]
  have h1 := (hS.put r).sublist (hp r)
  refine h1.imp_of_mem ?_
  intro a b ha hb hab
  have ha' := (hW.putQ r a ((hp r).subset ha)).1
  have hb' := (hW.putQ r b ((hp r).subset hb)).1
  exact (rankLt_of_core (hc a (isReq_of_put ha')) (hc b (isReq_of_put hb'))).mpr hab

theorem QueueRel.trans {s1 s2 s3 : KState ℚ σ} (h12 : QueueRel s1 s2) (h23 : QueueRel s2 s3) : QueueRel s1 s3 := by
  refine ⟨h12.1.trans h23.1, ?_⟩
  intro hW
  have hW2 := h12.1.keepWF hW
  have hW3 := h23.1.keepWF hW2
  obtain ⟨g12, q12⟩ := h12.2 hW
  obtain ⟨g23, q23⟩ := h23.2 hW2
  refine ⟨⟨?_, ?_⟩, fun h => q23 (q12 h)⟩
  · intro r
    refine QOrd.trans (g12.put r) (g23.put r) ?_ (fun a ha => (hW.putQ r a ha).1) (fun a ha => (hW3.putQ r a ha).2) ?_
    · intro a ha
      show (s2.ev a).kind = .put r
      rw [h12.1.kind a (lt_size_of_kind (by rw [ha]; simp))]; exact ha
    · intro a ha h2
      have hlt : a < s1.events.size := lt_size_of_kind (by rw [ha]; simp)
      have hr2 : isReq s2 a = true := by rw [h12.1.isReq_eq hlt]; exact isReq_of_put ha
      show (s3.ev a).out ≠ none
      rw [h23.1.outStable a hr2 h2]; exact h2
  · intro r
    have hk : ((s2.res r).kind ≠ .fstore) = ((s1.res r).kind ≠ .fstore) := by rw [h12.1.resKind]
    have g23r := g23.get r
    rw [hk] at g23r
    refine QOrd.trans (g12.get r) g23r ?_ (fun a ha => (hW.getQ r a ha).1) (fun a ha => (hW3.getQ r a ha).2) ?_
    · intro a ha
      show (s2.ev a).kind = .get r
      rw [h12.1.kind a (lt_size_of_kind (by rw [ha]; simp))]; exact ha
    · intro a ha h2
      have hlt : a < s1.events.size := lt_size_of_kind (by rw [ha]; simp)
      have hr2 : isReq s2 a = true := by rw [h12.1.isReq_eq hlt]; exact isReq_of_get ha
      show (s3.ev a).out ≠ none
      rw [h23.1.outStable a hr2 h2]; exact h2

theorem kind_ne_of_ne {r r' : ResId} (h : r' ≠ r) : Kind.put r' ≠ Kind.put r := by
  intro hc; injection hc with hc; exact h hc

/-- the order relation for a granted put (the head of its queue) -/
theorem grantOrd_put {s s' : KState ℚ σ} {r0 : ResId} {e : EvId} {rest : List EvId} (hW : WF s)
    (hq : (s.res r0).putQ = e :: rest) (hE : PutEffect s s' r0 e) : GrantOrd s s' := by
  have hmem : e ∈ (s.res r0).putQ := by rw [hq]; exact List.mem_cons_self
  have hew := hW.putQ r0 e hmem
  constructor
  · intro r
    by_cases hr : r = r0
    · subst hr
      exact QOrd.of_erase hE.putQ (hW.putNodup r) hmem (fun a ha => hE.outOther a ha) (fun a ha => (hW.putQ r a ha).2)
        (fun _ _ => ⟨rest, hq⟩)
    · refine QOrd.of_same (by rw [hE.resOther r hr]) ?_ (fun a ha => (hW.putQ r a ha).1) (fun a ha => (hW.putQ r a ha).2)
      intro a ha
      apply hE.outOther
      intro hc; subst hc
      rw [hew.1] at ha; injection ha with ha; exact hr ha.symm
  · intro r
    have hQ : (s'.res r).getQ = (s.res r).getQ := by
      by_cases hr : r = r0
      · subst hr; exact hE.getQ
      · rw [hE.resOther r hr]
    refine QOrd.of_same hQ ?_ (fun a ha => (hW.getQ r a ha).1) (fun a ha => (hW.getQ r a ha).2)
    intro a ha
    apply hE.outOther
    intro hc; subst hc
    rw [hew.1] at ha; cases ha

/-- the order relation for a granted get -/
theorem grantOrd_get {s s' : KState ℚ σ} {r0 : ResId} {e : EvId} {v : Val} {pre rest : List EvId} (hW : WF s)
    (hq : (s.res r0).getQ = pre ++ e :: rest) (hpre : ∀ a ∈ pre, (s.res r0).kind = .fstore ∧ getItem s r0 a = none)
    (hE : GetEffect s s' r0 e v) : GrantOrd s s' := by
  have hmem : e ∈ (s.res r0).getQ := by rw [hq]; simp
  have hew := hW.getQ r0 e hmem
  constructor
  · intro r
    have hQ : (s'.res r).putQ = (s.res r).putQ := by
      by_cases hr : r = r0
      · subst hr; exact hE.putQ
      · rw [hE.resOther r hr]
    refine QOrd.of_same hQ ?_ (fun a ha => (hW.putQ r a ha).1) (fun a ha => (hW.putQ r a ha).2)
    intro a ha
    apply hE.outOther
    intro hc; subst hc
    rw [hew.1] at ha; cases ha
  · intro r
    by_cases hr : r = r0
    · subst hr
      refine QOrd.of_erase hE.getQ (hW.getNodup r) hmem (fun a ha => hE.outOther a ha) (fun a ha => (hW.getQ r a ha).2) ?_
      intro _ hP
      cases pre with
      | nil => exact ⟨rest, hq⟩
      | cons p ps => exact absurd (hpre p List.mem_cons_self).1 hP
    · refine QOrd.of_same (by rw [hE.resOther r hr]) ?_ (fun a ha => (hW.getQ r a ha).1) (fun a ha => (hW.getQ r a ha).2)
      intro a ha
      apply hE.outOther
      intro hc; subst hc
      rw [hew.1] at ha; injection ha with ha; exact hr ha.symm

/-- events of a state that are requests exist -/
theorem lt_size_of_put {s : KState ℚ σ} {a : EvId} {r : ResId} (h : (s.ev a).kind = .put r) : a < s.events.size :=
  lt_size_of_kind (by rw [h]; simp)
theorem lt_size_of_get {s : KState ℚ σ} {a : EvId} {r : ResId} (h : (s.ev a).kind = .get r) : a < s.events.size :=
  lt_size_of_kind (by rw [h]; simp)

/-- `Put.__init__`: the order relation and sortedness -/
theorem queueRel_newPut (s : KState ℚ σ) (r0 : ResId) (rq : ReqData ℚ) : QueueRel s (newPutSt s r0 rq) := by
  have hB := Base.of_newPut s r0 rq
  have hN := newPut_ev s r0 rq
  refine ⟨hB, ?_⟩
  intro hW
  have hold : ∀ a, isReq s a = true → (newPutSt s r0 rq).ev a = s.ev a := fun a ha => hN.old a (lt_size_of_isReq ha)
  have hgetQ : ∀ r, ((newPutSt s r0 rq).res r).getQ = (s.res r).getQ := by
    intro r
    by_cases h : r = r0
    · subst h
      by_cases hr : r < s.resources.size
      · rw [newPut_res_in s r rq hr]
      · rw [newPut_res_out s r rq hr]
    · rw [newPut_resOther s r0 rq r h]
  have hputlt : ∀ r, ∀ a ∈ (s.res r).putQ, a < s.events.size := fun r a ha => lt_size_of_put (hW.putQ r a ha).1
  have hcoreOld : ∀ a, a < s.events.size → coreOf (newPutSt s r0 rq) a = coreOf s a := fun a ha => hB.core a ha
  refine ⟨⟨?_, ?_⟩, ?_⟩
  · intro r
    have hsub : (s.res r).putQ.Sublist ((newPutSt s r0 rq).res r).putQ ∧
        ∀ a ∈ ((newPutSt s r0 rq).res r).putQ, a ∈ (s.res r).putQ ∨ a = s.events.size := by
      by_cases h : r = r0
      · subst h
        by_cases hr : r < s.resources.size
        · rw [newPut_res_in s r rq hr]
          simp only
          split
          · exact ⟨sublist_insertSorted _ _ _, fun a ha => by
              rw [mem_insertSorted] at ha; rcases ha with ha | ha; exact Or.inr ha; exact Or.inl ha⟩
          · exact ⟨List.sublist_append_left _ _, fun a ha => by
              rcases List.mem_append.mp ha with ha | ha
              · exact Or.inl ha
              · exact Or.inr (List.mem_singleton.mp ha)⟩
        · rw [newPut_res_out s r rq hr]; exact ⟨List.Sublist.refl _, fun a ha => Or.inl ha⟩
      · rw [newPut_resOther s r0 rq r h]; exact ⟨List.Sublist.refl _, fun a ha => Or.inl ha⟩
    refine QOrd.of_grow hsub.1 ?_ (fun a ha => by rw [hold a (isReq_of_put ha)]) (fun a ha => (hW.putQ r a ha).1)
      (fun a ha => (hW.putQ r a ha).2)
    intro a ha
    rcases hsub.2 a ha with h | h
    · exact Or.inl h
    · right
      intro hk
      exact absurd (lt_size_of_put hk) (by rw [h]; exact Nat.lt_irrefl _)
  · intro r
    exact QOrd.of_same (hgetQ r) (fun a ha => by rw [hold a (isReq_of_get ha)]) (fun a ha => (hW.getQ r a ha).1)
      (fun a ha => (hW.getQ r a ha).2)
  · intro hS
    refine ⟨?_, fun r => by rw [hgetQ]; exact hS.get r⟩
    intro r
    rw [hB.resKind]
    -- the old queue is still sorted when ranks are read in the new state
    have hold' : (s.res r).putQ.Pairwise (rankLt (newPutSt s r0 rq) (isPrioKind (s.res r).kind)) := by
      refine (hS.put r).imp_of_mem ?_
      intro a b ha hb hab
      exact (rankLt_of_core (hcoreOld a (hputlt r a ha)) (hcoreOld b (hputlt r b hb))).mpr hab
    by_cases h : r = r0
    · subst h
      by_cases hr : r < s.resources.size
      · rw [newPut_res_in s r rq hr]
        simp only
        cases hp : isPrioKind (s.res r).kind with
        | true =>
          rw [hp] at hold'
          simp only [if_true]
          exact pairwise_insertSorted _ _ _ hold' (hputlt r)
        | false =>
          rw [hp] at hold'
          simp only [Bool.false_eq_true, if_false]
          rw [List.pairwise_append]
          refine ⟨hold', List.pairwise_singleton _ _, ?_⟩
          intro a ha b hb
          rw [List.mem_singleton] at hb; subst hb
          unfold rankLt; simp only [Bool.false_eq_true, if_false]
          exact hputlt r a ha
      · rw [newPut_res_out s r rq hr]; exact hold'
    · rw [newPut_resOther s r0 rq r h]; exact hold'

/-- `Get.__init__`: the order relation and sortedness -/
theorem queueRel_newGet (s : KState ℚ σ) (r0 : ResId) (rq : ReqData ℚ) : QueueRel s (newGetSt s r0 rq) := by
  have hB := Base.of_newGet s r0 rq
  have hN := newGet_ev s r0 rq
  refine ⟨hB, ?_⟩
  intro hW
  have hold : ∀ a, isReq s a = true → (newGetSt s r0 rq).ev a = s.ev a := fun a ha => hN.old a (lt_size_of_isReq ha)
  have hputQ : ∀ r, ((newGetSt s r0 rq).res r).putQ = (s.res r).putQ := by
    intro r
    by_cases h : r = r0
    · subst h
      by_cases hr : r < s.resources.size
      · rw [newGet_res_in s r rq hr]
      · rw [newGet_res_out s r rq hr]
    · rw [newGet_resOther s r0 rq r h]
  have hgetlt : ∀ r, ∀ a ∈ (s.res r).getQ, a < s.events.size := fun r a ha => lt_size_of_get (hW.getQ r a ha).1
  have hputlt : ∀ r, ∀ a ∈ (s.res r).putQ, a < s.events.size := fun r a ha => lt_size_of_put (hW.putQ r a ha).1
  refine ⟨⟨?_, ?_⟩, ?_⟩
  · intro r
    exact QOrd.of_same (hputQ r) (fun a ha => by rw [hold a (isReq_of_put ha)]) (fun a ha => (hW.putQ r a ha).1)
      (fun a ha => (hW.putQ r a ha).2)
  · intro r
    have hsub : (s.res r).getQ.Sublist ((newGetSt s r0 rq).res r).getQ ∧
        ∀ a ∈ ((newGetSt s r0 rq).res r).getQ, a ∈ (s.res r).getQ ∨ a = s.events.size := by
      by_cases h : r = r0
      · subst h
        by_cases hr : r < s.resources.size
        · rw [newGet_res_in s r rq hr]
          exact ⟨List.sublist_append_left _ _, fun a ha => by
            rcases List.mem_append.mp ha with ha | ha
            · exact Or.inl ha
            · exact Or.inr (List.mem_singleton.mp ha)⟩
        · rw [newGet_res_out s r rq hr]; exact ⟨List.Sublist.refl _, fun a ha => Or.inl ha⟩
      · rw [newGet_resOther s r0 rq r h]; exact ⟨List.Sublist.refl _, fun a ha => Or.inl ha⟩
    refine QOrd.of_grow hsub.1 ?_ (fun a ha => by rw [hold a (isReq_of_get ha)]) (fun a ha => (hW.getQ r a ha).1)
      (fun a ha => (hW.getQ r a ha).2)
    intro a ha
    rcases hsub.2 a ha with h | h
    · exact Or.inl h
    · right
      intro hk
      exact absurd (lt_size_of_get hk) (by rw [h]; exact Nat.lt_irrefl _)
  · intro hS
    refine ⟨?_, ?_⟩
    · intro r
      rw [hB.resKind, hputQ]
      refine (hS.put r).imp_of_mem ?_
      intro a b ha hb hab
      exact (rankLt_of_core (hB.core a (hputlt r a ha)) (hB.core b (hputlt r b hb))).mpr hab
    · intro r
      by_cases h : r = r0
      · subst h
        by_cases hr : r < s.resources.size
        · rw [newGet_res_in s r rq hr]
          show ((s.res r).getQ ++ [s.events.size]).Pairwise _
          rw [List.pairwise_append]
          refine ⟨hS.get r, List.pairwise_singleton _ _, ?_⟩
          intro a ha b hb
          rw [List.mem_singleton] at hb; subst hb
          exact hgetlt r a ha
        · rw [newGet_res_out s r rq hr]; exact hS.get r
      · rw [newGet_resOther s r0 rq r h]; exact hS.get r

theorem QueueRel.crel : CRel (QueueRel (σ := σ)) where
  refl s := ⟨Base.refl s, fun hW => ⟨grantOrd_of_same hW (fun _ => rfl) (fun _ => rfl) (fun _ _ => rfl), fun h => h⟩⟩
  trans := QueueRel.trans
  toBase h := h.1
  frame s s' _ h := ⟨Base.of_frame h, fun hW =>
    ⟨grantOrd_of_same hW (fun r => (h.res r).putQ) (fun r => (h.res r).getQ) (fun a _ => h.out a),
     qSorted_of_same hW (fun r => (h.res r).kind) (fun r => by rw [(h.res r).putQ]) (fun r => by rw [(h.res r).getQ])
       (fun a _ => h.core a)⟩⟩
  alloc s s' x _ he hk hc hr hp := by
    have hB := Base.of_alloc x he hk hc hr hp
    have hres : ∀ r, s'.res r = s.res r := fun r => by simp only [KState.res, hr]
    have hold : ∀ a, isReq s a = true → s'.ev a = s.ev a := by
      intro a ha; rw [Base.ev_of_push he, if_neg (Nat.ne_of_lt (lt_size_of_isReq ha))]
    refine ⟨hB, fun hW => ⟨grantOrd_of_same hW (fun r => by rw [hres]) (fun r => by rw [hres])
      (fun a ha => by rw [hold a ha]),
      qSorted_of_same hW (fun r => by rw [hres]) (fun r => by rw [hres]) (fun r => by rw [hres])
        (fun a ha => hB.core a (lt_size_of_isReq ha))⟩⟩
  trigNR s e o _ hn := by
    have hB := Base.of_trigNR s e o hn
    refine ⟨hB, fun hW => ⟨grantOrd_of_same hW (fun _ => rfl) (fun _ => rfl) ?_,
      qSorted_of_same hW (fun _ => rfl) (fun _ => List.Sublist.refl _) (fun _ => List.Sublist.refl _)
        (fun a _ => coreOf_setOut s e o a)⟩⟩
    intro a ha
    apply out_setOut_other
    intro hc; subst hc; rw [hn] at ha; cases ha
  grantPut s r0 e rest hW hq _ := by
    have hE := Base.putEffect_of_guard hW hq
    have hmem : e ∈ (s.res r0).putQ := by rw [hq]; exact List.mem_cons_self
    have hB := Base.of_putEffect hW hmem hE
    refine ⟨hB, fun _ => ⟨grantOrd_put hW hq hE, qSorted_of_same hW hB.resKind ?_ ?_ (fun a _ => hE.core a)⟩⟩
    · intro r
      by_cases hr : r = r0
      · subst hr; rw [hE.putQ]; exact List.erase_sublist
      · rw [hE.resOther r hr]
    · intro r
      by_cases hr : r = r0
      · subst hr; rw [hE.getQ]
      · rw [hE.resOther r hr]
  grantGet s r0 e v pre rest hW hq hgi hpre := by
    have hE := Base.getEffect_of_guard hW hq hgi
    have hmem : e ∈ (s.res r0).getQ := by rw [hq]; simp
    have hB := Base.of_getEffect hW hmem hE
    refine ⟨hB, fun _ => ⟨grantOrd_get hW hq hpre hE, qSorted_of_same hW hB.resKind ?_ ?_ (fun a _ => hE.core a)⟩⟩
    · intro r
      by_cases hr : r = r0
      · subst hr; rw [hE.putQ]
      · rw [hE.resOther r hr]
    · intro r
      by_cases hr : r = r0
      · subst hr; rw [hE.getQ]; exact List.erase_sublist
      · rw [hE.resOther r hr]
  newPut s r0 rq _ := queueRel_newPut s r0 rq
  newGet s r0 rq _ := queueRel_newGet s r0 rq
  cancelPut s r0 e hW hout hk hmem := by
    have hB := Base.of_cancelPut s r0 e
    have hres : ∀ r, ((dropPutQ s r0 e).res r).getQ = (s.res r).getQ ∧
        ((dropPutQ s r0 e).res r).putQ = if r = r0 then (s.res r).putQ.erase e else (s.res r).putQ := by
      intro r
      rw [dropPutQ_res]
      by_cases hr : r = r0
      · subst hr
        rw [if_pos ⟨rfl, lt_rsize_of_putQ (List.ne_nil_of_mem hmem)⟩, if_pos rfl]; exact ⟨rfl, rfl⟩
      · rw [if_neg (fun hc => hr hc.1), if_neg hr]; exact ⟨rfl, rfl⟩
    refine ⟨hB, fun _ => ⟨⟨?_, ?_⟩, qSorted_of_same hW hB.resKind ?_ ?_ (fun _ _ => rfl)⟩⟩
    · intro r
      by_cases hr : r = r0
      · subst hr
        refine QOrd.of_erase (by rw [(hres r).2, if_pos rfl]) (hW.putNodup r) hmem (fun _ _ => rfl)
          (fun a ha => (hW.putQ r a ha).2) ?_
        intro h; exact absurd hout h
      · exact QOrd.of_same (by rw [(hres r).2, if_neg hr]) (fun _ _ => rfl) (fun a ha => (hW.putQ r a ha).1)
          (fun a ha => (hW.putQ r a ha).2)
    · intro r
      exact QOrd.of_same (hres r).1 (fun _ _ => rfl) (fun a ha => (hW.getQ r a ha).1) (fun a ha => (hW.getQ r a ha).2)
    · intro r
      rw [(hres r).2]; split
      · exact List.erase_sublist
      · exact List.Sublist.refl _
    · intro r; rw [(hres r).1]
  cancelGet s r0 e hW hout hk hmem := by
    have hB := Base.of_cancelGet s r0 e
    have hres : ∀ r, ((dropGetQ s r0 e).res r).putQ = (s.res r).putQ ∧
        ((dropGetQ s r0 e).res r).getQ = if r = r0 then (s.res r).getQ.erase e else (s.res r).getQ := by
      intro r
      rw [dropGetQ_res]
      by_cases hr : r = r0
      · subst hr
        rw [if_pos ⟨rfl, lt_rsize_of_getQ (List.ne_nil_of_mem hmem)⟩, if_pos rfl]; exact ⟨rfl, rfl⟩
      · rw [if_neg (fun hc => hr hc.1), if_neg hr]; exact ⟨rfl, rfl⟩
    refine ⟨hB, fun _ => ⟨⟨?_, ?_⟩, qSorted_of_same hW hB.resKind ?_ ?_ (fun _ _ => rfl)⟩⟩
    · intro r
      exact QOrd.of_same (hres r).1 (fun _ _ => rfl) (fun a ha => (hW.putQ r a ha).1) (fun a ha => (hW.putQ r a ha).2)
    · intro r
      by_cases hr : r = r0
      · subst hr
        refine QOrd.of_erase (by rw [(hres r).2, if_pos rfl]) (hW.getNodup r) hmem (fun _ _ => rfl)
          (fun a ha => (hW.getQ r a ha).2) ?_
        intro h; exact absurd hout h
      · exact QOrd.of_same (by rw [(hres r).2, if_neg hr]) (fun _ _ => rfl) (fun a ha => (hW.getQ r a ha).1)
          (fun a ha => (hW.getQ r a ha).2)
    · intro r; rw [(hres r).1]
    · intro r
      rw [(hres r).2]; split
      · exact List.erase_sublist
      · exact List.Sublist.refl _

/-- queues of an initial state (all empty) are sorted -/
theorem QSorted.of_empty (s : KState ℚ σ) (h : ∀ r, (s.res r).putQ = [] ∧ (s.res r).getQ = []) : QSorted s :=
  ⟨fun r => by rw [(h r).1]; exact List.Pairwise.nil, fun r => by rw [(h r).2]; exact List.Pairwise.nil⟩

/-- **queue discipline between any two states of a run inside the domain** -/
theorem reach_queue (body : σ → Resume → Burst ℚ σ) (fuel : Nat) (s s' : KState ℚ σ) (hW : WF s)
    (hr : SafeReach body fuel s s') : GrantOrd s s' ∧ (QSorted s → QSorted s') :=
  (QueueRel.crel.reach body fuel s s' hW hr).2 hW

end Conserve
