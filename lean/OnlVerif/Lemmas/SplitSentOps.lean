import OnlVerif.Lemmas.SplitSent
/-!
# The sentinel transformation commutes with every operation of `Kernel/Ops.lean` (C03, stage 3)

For every state transformer `f` of the model and every state `s` after the split (`c.Inv s`):
`f (c.T q s) (renamed arguments) = c.T q (f s arguments)`, the other results (replies, flags, fresh ids) being the
renamed ones.  Proof pattern: unfold `f` on both sides, rewrite with `ksent`, split the branches.
-/

variable {σ : Type}

/-- split every `if`/`match` of both sides and close the branches -/
macro "tsplit" : tactic => `(tactic| ((repeat' split) <;> (first | rfl | contradiction | (simp_all; done))))
/-- rewrite with `ksent`; the invariant `h` of the start state discharges the side conditions (through the `Inv.…` lemmas) -/
macro "tsimp" "[" h:Lean.Parser.Tactic.simpLemma,* "]" : tactic =>
  `(tactic| simp (maxDischargeDepth := 12) only [ksent, $h,*])
/-- the same, rewriting with `ksent` and the invariant `h` in every branch -/
macro "tsplit" "[" h:Lean.Parser.Tactic.simpLemma,* "]" : tactic =>
  `(tactic| ((repeat' split) <;> (first | rfl | contradiction | (tsimp [$h,*]; done) | (simp_all; done))))

namespace SplitCfg
variable (c : SplitCfg σ) (q : Bool) (s : KState ℚ σ)

@[ksent] theorem r_reqOf (h : c.Inv s) (e : Nat) : reqOf (c.T q s) (c.ρ e) = rnReq c.ρ (reqOf s e) := by
  unfold reqOf
  rw [c.req_T q s h]
  cases (s.ev e).req with
  | none => simp only [Option.map_none, Option.getD_none, rnReq, c.ρ_zero, Option.map_none]
  | some rq => rfl

omit s q in
@[ksent] theorem r_keyLt (a b : ReqData ℚ) : keyLt (rnReq c.ρ a) (rnReq c.ρ b) = keyLt a b := rfl

@[ksent] theorem r_insertSorted (h : c.Inv s) (e : Nat) (l : List EvId) :
    insertSorted (c.T q s) (c.ρ e) (l.map c.ρ) = (insertSorted s e l).map c.ρ := by
  induction l with
  | nil => rfl
  | cons x xs ih =>
    simp only [List.map_cons, insertSorted, c.r_reqOf q s h, r_keyLt, ih]
    split <;> rfl

@[ksent] theorem r_worstUser (h : c.Inv s) (l : List EvId) :
    worstUser (c.T q s) (l.map c.ρ) = (worstUser s l).map c.ρ := by
  induction l with
  | nil => rfl
  | cons x xs ih =>
    simp only [List.map_cons, worstUser, ih]
    cases worstUser s xs with
    | none => rfl
    | some w =>
      simp only [Option.map_some, c.r_reqOf q s h, r_keyLt]
      split <;> rfl

theorem T_mkInterrupt (h : c.Inv s) (p : Nat) (v : Val) :
    mkInterrupt (c.T q s) (c.ρ p) (rnVal c.ρ v) = (c.T q (mkInterrupt s p v).1, (mkInterrupt s p v).2) := by
  unfold mkInterrupt
  tsimp [h]
  repeat' split
  all_goals first | rfl | skip
  tsimp [h]

variable {c s} in
@[ksent] theorem Inv.mkInterrupt (h : c.Inv s) (p : Nat) (v : Val) : c.Inv (mkInterrupt s p v).1 :=
  h.mono (Grow.krel.mkInterrupt s p v)
@[ksent] theorem i_mkInterrupt (h : c.Inv s) (p : Nat) (v : Val) :
    c.T q (mkInterrupt s p v).1 = (mkInterrupt (c.T q s) (c.ρ p) (rnVal c.ρ v)).1 := by rw [c.T_mkInterrupt q s h]
@[ksent] theorem r_mkInterrupt (h : c.Inv s) (p : Nat) (v : Val) :
    (mkInterrupt (c.T q s) (c.ρ p) (rnVal c.ρ v)).2 = (mkInterrupt s p v).2 := by rw [c.T_mkInterrupt q s h]

theorem T_preemptStep (h : c.Inv s) (r : ResId) (e : Nat) :
    preemptStep (c.T q s) r (c.ρ e) = c.T q (preemptStep s r e) := by
  unfold preemptStep
  tsimp [h]
  cases hw : worstUser s (s.res r).users with
  | none => simp only [Option.map_none]
  | some w =>
    simp only [Option.map_some, ksent, h]
    cases hp : (reqOf s w).proc with
    | none => simp only [Option.map_none, ksent, h]
    | some vp => simp only [Option.map_some, ksent, h]

variable {c s} in
@[ksent] theorem Inv.preemptStep (h : c.Inv s) (r : ResId) (e : Nat) : c.Inv (preemptStep s r e) :=
  h.mono (Grow.krel.preemptStep s r e)
@[ksent] theorem i_preemptStep (h : c.Inv s) (r : ResId) (e : Nat) :
    c.T q (preemptStep s r e) = preemptStep (c.T q s) r (c.ρ e) := (c.T_preemptStep q s h r e).symm

theorem T_prePut (h : c.Inv s) (r : ResId) (e : Nat) : prePut (c.T q s) r (c.ρ e) = c.T q (prePut s r e) := by
  unfold prePut
  tsimp [h]

variable {c s} in
@[ksent] theorem Inv.prePut (h : c.Inv s) (r : ResId) (e : Nat) : c.Inv (prePut s r e) := h.mono (Grow.krel.prePut s r e)
@[ksent] theorem i_prePut (h : c.Inv s) (r : ResId) (e : Nat) : c.T q (prePut s r e) = prePut (c.T q s) r (c.ρ e) :=
  (c.T_prePut q s h r e).symm

@[ksent] theorem r_canPut (h : c.Inv s) (r : ResId) (e : Nat) : canPut (c.T q s) r (c.ρ e) = canPut s r e := by
  unfold canPut
  tsimp [h]

theorem T_applyPut (h : c.Inv s) (r : ResId) (e : Nat) : applyPut (c.T q s) r (c.ρ e) = c.T q (applyPut s r e) := by
  unfold applyPut
  tsimp [h]
  repeat' split
  all_goals first | rfl | contradiction | skip
  all_goals tsimp [h]

theorem grow_applyPut (s : KState ℚ σ) (r : ResId) (e : Nat) : Grow s (applyPut s r e) := by
  unfold applyPut
  simp only
  split <;> exact ⟨Nat.le_succ _, by simp [KState.trigger, KState.schedule, KState.setOut, KState.setEv, KState.setUsage,
    KState.setUsers, KState.setLevel, KState.setItems, KState.setRes]⟩

variable {c s} in
@[ksent] theorem Inv.applyPut (h : c.Inv s) (r : ResId) (e : Nat) : c.Inv (applyPut s r e) := h.mono (grow_applyPut s r e)
@[ksent] theorem i_applyPut (h : c.Inv s) (r : ResId) (e : Nat) : c.T q (applyPut s r e) = applyPut (c.T q s) r (c.ρ e) :=
  (c.T_applyPut q s h r e).symm

theorem T_doPut (h : c.Inv s) (r : ResId) (e : Nat) :
    doPut (c.T q s) r (c.ρ e) = (c.T q (doPut s r e).1, (doPut s r e).2) := by
  unfold doPut
  rw [c.T_prePut q s h, c.r_canPut q _ (h.prePut r e), c.T_applyPut q _ (h.prePut r e)]
  split <;> rfl

variable {c s} in
@[ksent] theorem Inv.doPut (h : c.Inv s) (r : ResId) (e : Nat) : c.Inv (doPut s r e).1 := h.mono (Grow.krel.doPut s r e)
@[ksent] theorem i_doPut (h : c.Inv s) (r : ResId) (e : Nat) : c.T q (doPut s r e).1 = (doPut (c.T q s) r (c.ρ e)).1 := by
  rw [c.T_doPut q s h]
@[ksent] theorem r_doPut (h : c.Inv s) (r : ResId) (e : Nat) : (doPut (c.T q s) r (c.ρ e)).2 = (doPut s r e).2 := by
  rw [c.T_doPut q s h]

@[ksent] theorem r_getItem (h : c.Inv s) (r : ResId) (e : Nat) : getItem (c.T q s) r (c.ρ e) = getItem s r e := by
  unfold getItem
  tsimp [h]

omit c q in
theorem getItem_closed (ρ : EvId → EvId) (r : ResId) (e : Nat) (v : Val) (hv : getItem s r e = some v) : rnVal ρ v = v := by
  unfold getItem at hv
  simp only at hv
  split at hv
  · cases hv; rfl
  · cases hv; rfl
  · cases hv; rfl
  · split at hv <;> cases hv; rfl
  · cases hh : (s.res r).items.head? <;> rw [hh] at hv <;> cases hv; rfl
  · cases hh : listMin (s.res r).items <;> rw [hh] at hv <;> cases hv; rfl
  · cases hh : (s.res r).items.find? (filterOk (reqOf s e).filter) <;> rw [hh] at hv <;> cases hv; rfl

theorem T_takeOut (h : c.Inv s) (r : ResId) (e : Nat) (v : Val) :
    takeOut (c.T q s) r (c.ρ e) v = c.T q (takeOut s r e v) := by
  unfold takeOut
  tsimp [h]
  all_goals tsplit [h]

theorem grow_takeOut (s : KState ℚ σ) (r : ResId) (e : Nat) (v : Val) : Grow s (takeOut s r e v) := by
  unfold takeOut
  simp only
  repeat' split
  all_goals exact ⟨Nat.le_refl _, Nat.le_refl _⟩

variable {c s} in
@[ksent] theorem Inv.takeOut (h : c.Inv s) (r : ResId) (e : Nat) (v : Val) : c.Inv (takeOut s r e v) :=
  h.mono (grow_takeOut s r e v)
@[ksent] theorem i_takeOut (h : c.Inv s) (r : ResId) (e : Nat) (v : Val) :
    c.T q (takeOut s r e v) = takeOut (c.T q s) r (c.ρ e) v := (c.T_takeOut q s h r e v).symm

theorem T_doGet (h : c.Inv s) (r : ResId) (e : Nat) :
    doGet (c.T q s) r (c.ρ e) = (c.T q (doGet s r e).1, (doGet s r e).2) := by
  unfold doGet
  rw [c.r_getItem q s h]
  cases hv : getItem s r e with
  | none => tsimp [h]
  | some v =>
    have := getItem_closed s c.ρ r e v hv
    tsimp [h, this]

variable {c s} in
@[ksent] theorem Inv.doGet (h : c.Inv s) (r : ResId) (e : Nat) : c.Inv (doGet s r e).1 := h.mono (Grow.krel.doGet s r e)
@[ksent] theorem i_doGet (h : c.Inv s) (r : ResId) (e : Nat) : c.T q (doGet s r e).1 = (doGet (c.T q s) r (c.ρ e)).1 := by
  rw [c.T_doGet q s h]
@[ksent] theorem r_doGet (h : c.Inv s) (r : ResId) (e : Nat) : (doGet (c.T q s) r (c.ρ e)).2 = (doGet s r e).2 := by
  rw [c.T_doGet q s h]

theorem T_dropPutQ (r : ResId) (e : Nat) : dropPutQ (c.T q s) r (c.ρ e) = c.T q (dropPutQ s r e) := by
  unfold dropPutQ
  simp only [ksent]
theorem T_dropGetQ (r : ResId) (e : Nat) : dropGetQ (c.T q s) r (c.ρ e) = c.T q (dropGetQ s r e) := by
  unfold dropGetQ
  simp only [ksent]
variable {c s} in
@[ksent] theorem Inv.dropPutQ (h : c.Inv s) (r : ResId) (e : Nat) : c.Inv (dropPutQ s r e) := h.setPutQ _ _
variable {c s} in
@[ksent] theorem Inv.dropGetQ (h : c.Inv s) (r : ResId) (e : Nat) : c.Inv (dropGetQ s r e) := h.setGetQ _ _
@[ksent] theorem i_dropPutQ (r : ResId) (e : Nat) : c.T q (dropPutQ s r e) = dropPutQ (c.T q s) r (c.ρ e) :=
  (c.T_dropPutQ q s r e).symm
@[ksent] theorem i_dropGetQ (r : ResId) (e : Nat) : c.T q (dropGetQ s r e) = dropGetQ (c.T q s) r (c.ρ e) :=
  (c.T_dropGetQ q s r e).symm

theorem T_scanPut (r : ResId) (l : List EvId) (s : KState ℚ σ) (h : c.Inv s) :
    scanPut r (l.map c.ρ) (c.T q s) = c.T q (scanPut r l s) := by
  induction l generalizing s with
  | nil => rfl
  | cons e rest ih =>
    simp only [List.map_cons, scanPut]
    rw [c.T_doPut q s h]
    simp only
    rw [c.r_triggered q _ (h.doPut r e), c.T_dropPutQ]
    by_cases h1 : (doPut s r e).1.triggered e = true <;> by_cases h2 : (doPut s r e).2 = true <;>
      simp only [h1, h2, if_true, if_false, Bool.false_eq_true]
    · exact ih _ ((h.doPut r e).dropPutQ r e)
    · exact ih _ (h.doPut r e)

theorem T_scanGet (r : ResId) (l : List EvId) (s : KState ℚ σ) (h : c.Inv s) :
    scanGet r (l.map c.ρ) (c.T q s) = c.T q (scanGet r l s) := by
  induction l generalizing s with
  | nil => rfl
  | cons e rest ih =>
    simp only [List.map_cons, scanGet]
    rw [c.T_doGet q s h]
    simp only
    rw [c.r_triggered q _ (h.doGet r e), c.T_dropGetQ]
    by_cases h1 : (doGet s r e).1.triggered e = true <;> by_cases h2 : (doGet s r e).2 = true <;>
      simp only [h1, h2, if_true, if_false, Bool.false_eq_true]
    · exact ih _ ((h.doGet r e).dropGetQ r e)
    · exact ih _ (h.doGet r e)

theorem T_triggerPut (h : c.Inv s) (r : ResId) : triggerPut (c.T q s) r = c.T q (triggerPut s r) := by
  unfold triggerPut
  rw [c.r_res]
  exact c.T_scanPut q r _ s h
theorem T_triggerGet (h : c.Inv s) (r : ResId) : triggerGet (c.T q s) r = c.T q (triggerGet s r) := by
  unfold triggerGet
  rw [c.r_res]
  exact c.T_scanGet q r _ s h
variable {c s} in
@[ksent] theorem Inv.triggerPut (h : c.Inv s) (r : ResId) : c.Inv (triggerPut s r) := h.mono (Grow.krel.triggerPut s r)
variable {c s} in
@[ksent] theorem Inv.triggerGet (h : c.Inv s) (r : ResId) : c.Inv (triggerGet s r) := h.mono (Grow.krel.triggerGet s r)
@[ksent] theorem i_triggerPut (h : c.Inv s) (r : ResId) : c.T q (triggerPut s r) = triggerPut (c.T q s) r :=
  (c.T_triggerPut q s h r).symm
@[ksent] theorem i_triggerGet (h : c.Inv s) (r : ResId) : c.T q (triggerGet s r) = triggerGet (c.T q s) r :=
  (c.T_triggerGet q s h r).symm

theorem T_enqPut (h : c.Inv s) (r : ResId) (e : Nat) : enqPut (c.T q s) r (c.ρ e) = c.T q (enqPut s r e) := by
  unfold enqPut
  tsimp [h]
  all_goals tsplit [h]
theorem T_enqGet (r : ResId) (e : Nat) : enqGet (c.T q s) r (c.ρ e) = c.T q (enqGet s r e) := by
  unfold enqGet
  simp only [ksent]
variable {c s} in
@[ksent] theorem Inv.enqPut (h : c.Inv s) (r : ResId) (e : Nat) : c.Inv (enqPut s r e) := h.setPutQ _ _
variable {c s} in
@[ksent] theorem Inv.enqGet (h : c.Inv s) (r : ResId) (e : Nat) : c.Inv (enqGet s r e) := h.setGetQ _ _
@[ksent] theorem i_enqPut (h : c.Inv s) (r : ResId) (e : Nat) : c.T q (enqPut s r e) = enqPut (c.T q s) r (c.ρ e) :=
  (c.T_enqPut q s h r e).symm
@[ksent] theorem i_enqGet (r : ResId) (e : Nat) : c.T q (enqGet s r e) = enqGet (c.T q s) r (c.ρ e) :=
  (c.T_enqGet q s r e).symm

theorem T_mkPut (h : c.Inv s) (r : ResId) (rq : ReqData ℚ) :
    mkPut (c.T q s) r (rnReq c.ρ rq) = (c.T q (mkPut s r rq).1, c.ρ (mkPut s r rq).2) := by
  unfold mkPut
  tsimp [h]
theorem T_mkGet (h : c.Inv s) (r : ResId) (rq : ReqData ℚ) :
    mkGet (c.T q s) r (rnReq c.ρ rq) = (c.T q (mkGet s r rq).1, c.ρ (mkGet s r rq).2) := by
  unfold mkGet
  tsimp [h]

theorem grow_mkPut (s : KState ℚ σ) (r : ResId) (rq : ReqData ℚ) : Grow s (mkPut s r rq).1 := by
  unfold mkPut
  simp only
  refine Grow.krel.trans ?_ (Grow.krel.triggerPut _ _)
  exact ⟨Nat.le_refl _, by simp [enqPut, KState.newLabelled, KState.setPutQ, KState.setRes]⟩
theorem grow_mkGet (s : KState ℚ σ) (r : ResId) (rq : ReqData ℚ) : Grow s (mkGet s r rq).1 := by
  unfold mkGet
  simp only
  refine Grow.krel.trans ?_ (Grow.krel.triggerGet _ _)
  exact ⟨Nat.le_refl _, by simp [enqGet, KState.newLabelled, KState.setGetQ, KState.setRes]⟩
variable {c s} in
@[ksent] theorem Inv.mkPut (h : c.Inv s) (r : ResId) (rq : ReqData ℚ) : c.Inv (mkPut s r rq).1 := h.mono (grow_mkPut s r rq)
variable {c s} in
@[ksent] theorem Inv.mkGet (h : c.Inv s) (r : ResId) (rq : ReqData ℚ) : c.Inv (mkGet s r rq).1 := h.mono (grow_mkGet s r rq)

theorem T_cancelReq (h : c.Inv s) (e : Nat) :
    cancelReq (c.T q s) (c.ρ e) = (c.T q (cancelReq s e).1, (cancelReq s e).2) := by
  unfold cancelReq
  tsimp [h]
  cases hk : (s.ev e).kind <;> tsimp [h] <;> tsplit [h]

variable {c s} in
@[ksent] theorem Inv.cancelReq (h : c.Inv s) (e : Nat) : c.Inv (cancelReq s e).1 := h.mono (Grow.krel.cancelReq s e)

/-! ## conditions -/

@[ksent] theorem r_condOps (h : c.Inv s) (cd : Nat) :
    condOps (c.T q s) (c.ρ cd) = ((condOps s cd).1, (condOps s cd).2.map c.ρ) := by
  unfold condOps
  tsimp [h]
  cases (s.ev cd).kind <;> rfl

@[ksent] theorem r_isCond (h : c.Inv s) (e : Nat) : isCond (c.T q s) (c.ρ e) = isCond s e := by
  unfold isCond
  tsimp [h]
  cases (s.ev e).kind <;> rfl

theorem T_condCheck (h : c.Inv s) (cd e : Nat) : condCheck (c.T q s) (c.ρ cd) (c.ρ e) = c.T q (condCheck s cd e) := by
  unfold condCheck
  tsimp [h]
  cases ho : (s.ev e).out with
  | none => tsimp [h]
  | some o =>
    cases o with
    | ok v => tsimp [h]
    | fail x => tsimp [h]

variable {c s} in
@[ksent] theorem Inv.condCheck (h : c.Inv s) (cd e : Nat) : c.Inv (condCheck s cd e) := h.mono (Grow.krel.condCheck s cd e)
@[ksent] theorem i_condCheck (h : c.Inv s) (cd e : Nat) :
    c.T q (condCheck s cd e) = condCheck (c.T q s) (c.ρ cd) (c.ρ e) := (c.T_condCheck q s h cd e).symm

theorem T_eraseCheck (h : c.Inv s) (cd e : Nat) : eraseCheck (c.T q s) (c.ρ cd) (c.ρ e) = c.T q (eraseCheck s cd e) := by
  unfold eraseCheck
  tsimp [h]
  cases hc : (s.ev e).cbs with
  | none => rfl
  | some l =>
    have := c.r_containsCb l (.check cd)
    simp only [rnCb_check] at this
    simp only [Option.map_some, this]
    have h2 := c.i_eraseCb q s h e (.check cd)
    simp only [rnCb_check] at h2
    split
    · rw [h2]
    · rfl

variable {c s} in
@[ksent] theorem Inv.eraseCheck (h : c.Inv s) (cd e : Nat) : c.Inv (eraseCheck s cd e) := h.mono (Grow.krel.eraseCheck s cd e)
@[ksent] theorem i_eraseCheck (h : c.Inv s) (cd e : Nat) :
    c.T q (eraseCheck s cd e) = eraseCheck (c.T q s) (c.ρ cd) (c.ρ e) := (c.T_eraseCheck q s h cd e).symm

/-- a fold over renamed operands -/
theorem T_foldl (f : KState ℚ σ → EvId → KState ℚ σ) (f' : KState ℚ σ → EvId → KState ℚ σ)
    (hf : ∀ s e, c.Inv s → f' (c.T q s) (c.ρ e) = c.T q (f s e)) (hi : ∀ s e, c.Inv s → c.Inv (f s e))
    (l : List EvId) (s : KState ℚ σ) (h : c.Inv s) :
    (l.map c.ρ).foldl f' (c.T q s) = c.T q (l.foldl f s) ∧ c.Inv (l.foldl f s) := by
  induction l generalizing s with
  | nil => exact ⟨rfl, h⟩
  | cons e rest ih =>
    simp only [List.map_cons, List.foldl_cons]
    rw [hf s e h]
    exact ih _ (hi s e h)

theorem T_removeChecks (fuel : Nat) (cd : Nat) (s : KState ℚ σ) (h : c.Inv s) :
    removeChecks fuel (c.ρ cd) (c.T q s) = c.T q (removeChecks fuel cd s) := by
  induction fuel generalizing cd s with
  | zero => rfl
  | succ n ih =>
    unfold removeChecks
    rw [c.r_condOps q s h]
    simp only
    refine (c.T_foldl q _ _ ?_ ?_ _ s h).1
    · intro s e hs
      rw [c.T_eraseCheck q s hs, c.r_isCond q _ (hs.eraseCheck cd e)]
      split
      · exact ih e _ (hs.eraseCheck cd e)
      · rfl
    · intro s e hs
      split
      · exact (hs.eraseCheck cd e).mono (Grow.krel.removeChecks _ _ _)
      · exact hs.eraseCheck cd e

variable {c s} in
@[ksent] theorem Inv.removeChecks (h : c.Inv s) (fuel cd : Nat) : c.Inv (removeChecks fuel cd s) :=
  h.mono (Grow.krel.removeChecks fuel cd s)

theorem r_populate (h : c.Inv s) (fuel : Nat) (cd : Nat) :
    populate fuel (c.T q s) (c.ρ cd) = (populate fuel s cd).map c.ρ := by
  induction fuel generalizing cd with
  | zero => rfl
  | succ n ih =>
    unfold populate
    rw [c.r_condOps q s h]
    simp only [List.flatMap_map, List.map_flatMap]
    congr 1
    funext e
    rw [c.r_isCond q s h, c.r_processed q s h, ih]
    split
    · rfl
    · split <;> rfl

/-- the fuel `id + 1` that `Condition._build_value` of condition `cd` gets is sufficient: one more unit changes nothing
(true whenever the operands of every condition were created before the condition, `CondWF`) -/
def FuelOK (cd : Nat) : Prop :=
  removeChecks (c.ρ cd + 1) cd s = removeChecks (cd + 1) cd s ∧
  populate (c.ρ cd + 1) (removeChecks (cd + 1) cd s) cd = populate (cd + 1) (removeChecks (cd + 1) cd s) cd

theorem FuelOK_of_lt (cd : Nat) (hlt : cd < c.u) : c.FuelOK s cd := by
  unfold FuelOK
  rw [c.ρ_lt hlt]
  exact ⟨rfl, rfl⟩

theorem T_condBuild (h : c.Inv s) (cd : Nat) (hf : c.FuelOK s cd) :
    condBuild (c.T q s) (c.ρ cd) = c.T q (condBuild s cd) := by
  unfold condBuild
  simp only
  rw [c.T_removeChecks q _ cd s h, hf.1, c.out_T q _ (h.removeChecks _ _)]
  cases ho : ((removeChecks (cd + 1) cd s).ev cd).out with
  | none => rfl
  | some o =>
    cases o with
    | fail x => rfl
    | ok v =>
      simp only [Option.map_some, rnOutcome_ok]
      rw [c.r_populate q _ (h.removeChecks _ _), hf.2, c.i_setOut q _ (h.removeChecks _ _)]
      rfl

variable {c s} in
@[ksent] theorem Inv.condBuild (h : c.Inv s) (cd : Nat) : c.Inv (condBuild s cd) := h.mono (Grow.krel.condBuild s cd)

theorem T_mkCond (h : c.Inv s) (all : Bool) (ops : List EvId) :
    mkCond (c.T q s) all (ops.map c.ρ) = (c.T q (mkCond s all ops).1, c.ρ (mkCond s all ops).2) := by
  unfold mkCond
  have hrec : ({ kind := .cond all (ops.map c.ρ), cbs := some [], out := none } : EvRec ℚ) =
      rnRec c.ρ { kind := .cond all ops, cbs := some [], out := none } := rfl
  rw [hrec, c.T_newLabelled q s h]
  simp only [List.isEmpty_map]
  have h1 : c.Inv (s.newLabelled { kind := .cond all ops, cbs := some [], out := none }).1 := h.newLabelled _
  have hcn : (s.newLabelled { kind := .cond all ops, cbs := some [], out := none }).2 = s.events.size := rfl
  simp only [hcn]
  split
  · tsimp [h1]
  · have hf := c.T_foldl q
      (fun st e => if st.processed e then condCheck st s.events.size e else st.addCb e (.check s.events.size))
      (fun st e => if st.processed e then condCheck st (c.ρ s.events.size) e else st.addCb e (.check (c.ρ s.events.size)))
      (by
        intro st e hst
        rw [c.r_processed q st hst]
        split
        · exact c.T_condCheck q st hst _ _
        · have := c.i_addCb q st hst e (.check s.events.size)
          simp only [rnCb_check] at this
          exact this.symm)
      (by
        intro st e hst
        split
        · exact hst.condCheck _ _
        · exact hst.addCb _ _)
      ops _ h1
    rw [hf.1]
    have := c.i_addCb q _ hf.2 s.events.size (.build s.events.size)
    simp only [rnCb_build] at this
    rw [this]

variable {c s} in
@[ksent] theorem Inv.mkCond (h : c.Inv s) (all : Bool) (ops : List EvId) : c.Inv (mkCond s all ops).1 :=
  h.mono (Grow.krel.mkCond s all ops)

@[ksent] theorem r_renderSimple (h : c.Inv s) (v : Val) : renderSimple (c.T q s) (rnVal c.ρ v) = renderSimple s v := by
  unfold renderSimple
  cases v <;> tsimp [h]

theorem r_freezeVal (h : c.Inv s) (v : Val) : freezeVal (c.T q s) (rnVal c.ρ v) = rnVal c.ρ (freezeVal s v) := by
  unfold freezeVal
  cases v <;> tsimp [h]
  case cv keys =>
    congr 2
    simp only [List.map_map]
    congr 2
    apply List.map_congr_left
    intro k _
    simp only [Function.comp]
    tsimp [h]
    cases ho : (s.ev k).out with
    | none => rfl
    | some o =>
      cases o with
      | ok v => simp only [Option.map_some, rnOutcome_ok, c.r_renderSimple q s h]
      | fail x => rfl

omit c q in
@[ksent] theorem newEv_snd' (r : EvRec ℚ) : (s.newEv r).2 = s.events.size := rfl
omit c q in
@[ksent] theorem newLabelled_snd' (r : EvRec ℚ) : (s.newLabelled r).2 = s.events.size := rfl

omit c q in
theorem mkInterrupt_err_closed (ρ : EvId → EvId) (p : Nat) (v : Val) (x : Exc) (hx : (mkInterrupt s p v).2 = some x) :
    rnExc ρ x = x := by
  unfold mkInterrupt at hx
  split at hx
  · cases hx; rfl
  · split at hx
    · cases hx; rfl
    · cases hx

omit c q in
theorem cancelReq_err_closed (ρ : EvId → EvId) (e : Nat) (x : Exc) (hx : (cancelReq s e).2 = some x) : rnExc ρ x = x := by
  unfold cancelReq at hx
  repeat' split at hx
  all_goals first | (cases hx; rfl) | cases hx

omit c q in
theorem pair_eta {α β : Type} (p : α × β) : p = (p.1, p.2) := rfl

theorem T_doCall (h : c.Inv s) (self : Nat) (cl : Call ℚ σ) :
    doCall (c.T q s) (c.ρ self) (rnCall c.ρ c.rσ cl) = (c.T q (doCall s self cl).1, rnReply c.ρ (doCall s self cl).2) := by
  cases cl <;> simp only [rnCall, doCall]
  case timeout d v => tsimp [h]; all_goals tsplit [h]
  case event => tsimp [h]
  case succeed e v => tsimp [h]; all_goals tsplit [h]
  case fail e x => tsimp [h]; all_goals tsplit [h]
  case spawn st => tsimp [h]
  case interrupt p cause =>
    have hk : (rnKind c.ρ (s.ev p).kind != Kind.proc) = ((s.ev p).kind != Kind.proc) := by cases (s.ev p).kind <;> rfl
    rw [c.kind_T q s h, hk, c.T_mkInterrupt q s h]
    split
    · rfl
    · rw [pair_eta (mkInterrupt s p cause)]
      cases ho : (mkInterrupt s p cause).2 with
      | none => rfl
      | some x => simp only [rnReply, mkInterrupt_err_closed s c.ρ p cause x ho]
  case probe e tag => tsimp [h]; all_goals tsplit [h]
  case cond all ops => rw [c.T_mkCond q s h]; rfl
  case request r prio pre =>
    have := c.T_mkPut q s h r { res := r, prio := prio, preempt := pre, time := s.now, proc := s.active }
    simp only [rnReq_mk, c.r_ρ_zero] at this
    simp only [c.r_res, rnRes_kind, c.r_now, c.r_active, this]
    split <;> rfl
  case release r req =>
    have := c.T_mkGet q s h r { res := r, time := s.now, proc := s.active, releaseOf := req }
    simp only [rnReq_mk] at this
    simp only [c.r_res, rnRes_kind, c.r_now, c.r_active, this]
    split <;> rfl
  case cancel e =>
    rw [c.T_cancelReq q s h, pair_eta (cancelReq s e)]
    cases ho : (cancelReq s e).2 with
    | none => rfl
    | some x => simp only [rnReply, cancelReq_err_closed s c.ρ e x ho]
  case cput r a =>
    have := c.T_mkPut q s h r { res := r, amount := a, time := s.now, proc := s.active }
    simp only [rnReq_mk, c.r_ρ_zero] at this
    simp only [c.r_res, rnRes_kind, c.r_now, c.r_active, this]
    split
    · rfl
    · split <;> rfl
  case cget r a =>
    have := c.T_mkGet q s h r { res := r, amount := a, time := s.now, proc := s.active }
    simp only [rnReq_mk, c.r_ρ_zero] at this
    simp only [c.r_res, rnRes_kind, c.r_now, c.r_active, this]
    split
    · rfl
    · split <;> rfl
  case sput r it =>
    have := c.T_mkPut q s h r { res := r, item := it, time := s.now, proc := s.active }
    simp only [rnReq_mk, c.r_ρ_zero] at this
    simp only [c.r_res, rnRes_kind, c.r_now, c.r_active, this]
    split <;> rfl
  case sget r f =>
    have := c.T_mkGet q s h r { res := r, filter := f, time := s.now, proc := s.active }
    simp only [rnReq_mk, c.r_ρ_zero] at this
    simp only [c.r_res, rnRes_kind, c.r_now, c.r_active, this]
    split <;> rfl
  case log what v =>
    rw [c.r_freezeVal q s h]
    tsimp [h]
  case load k =>
    tsimp [h]
    cases (s.shared.find? (·.1 == k)) <;> rfl
  case store k v => tsimp [h]

variable {c s} in
@[ksent] theorem Inv.doCall (h : c.Inv s) (self : Nat) (cl : Call ℚ σ) : c.Inv (doCall s self cl).1 :=
  h.mono (Grow.krel.doCall s self cl)

end SplitCfg
