import OnlVerif.Lemmas.KernelRel
import OnlVerif.Lemmas.KAccess
/-!
# Events only move forward: processed stays processed, and event records are never deallocated

`EvMono s s'`: every event of `s` still exists in `s'`, with the same kind; if it was processed in `s`
(callbacks detached) it is processed in `s'`: nothing can ever be registered on it or invoked for it again.
-/

variable {σ : Type}

structure EvMono (s s' : KState ℚ σ) : Prop where
  size_le : s.events.size ≤ s'.events.size
  kind : ∀ e, e < s.events.size → (s'.ev e).kind = (s.ev e).kind
  processed : ∀ e, e < s.events.size → (s.ev e).cbs = none → (s'.ev e).cbs = none

namespace EvMono

theorem refl (s : KState ℚ σ) : EvMono s s := ⟨Nat.le_refl _, fun _ _ => rfl, fun _ _ h => h⟩

theorem trans {s1 s2 s3 : KState ℚ σ} (h12 : EvMono s1 s2) (h23 : EvMono s2 s3) : EvMono s1 s3 :=
  ⟨Nat.le_trans h12.size_le h23.size_le,
   fun e he => (h23.kind e (Nat.lt_of_lt_of_le he h12.size_le)).trans (h12.kind e he),
   fun e he hp => h23.processed e (Nat.lt_of_lt_of_le he h12.size_le) (h12.processed e he hp)⟩

/-- updates that do not touch the event table -/
theorem of_frame {s s' : KState ℚ σ} (h : s'.events = s.events) : EvMono s s' := by
  have hev : ∀ e, s'.ev e = s.ev e := fun e => by simp [KState.ev, h]
  exact ⟨by rw [h], fun e _ => by rw [hev], fun e _ hp => by rw [hev]; exact hp⟩

/-- an update of one record that keeps the kind and does not re-attach callbacks to a processed event -/
theorem of_setEv (s : KState ℚ σ) (e : EvId) (r : EvRec ℚ) (hk : r.kind = (s.ev e).kind)
    (hc : (s.ev e).cbs = none → r.cbs = none) : EvMono s (s.setEv e r) := by
  refine ⟨by simp [KState.setEv], ?_, ?_⟩
  · intro e' _
    rw [KState.ev_setEv]
    split
    · rename_i h; rw [h.1]; exact hk
    · rfl
  · intro e' _ hp
    rw [KState.ev_setEv]
    split
    · rename_i h; rw [h.1] at hp; exact hc hp
    · exact hp

theorem of_push (s : KState ℚ σ) (s' : KState ℚ σ) (r : EvRec ℚ) (h : s'.events = s.events.push r) : EvMono s s' := by
  have hev : ∀ e, e < s.events.size → s'.ev e = s.ev e := by
    intro e he
    simp only [KState.ev, h, getD_push]
    rw [if_neg (Nat.ne_of_lt he)]
  exact ⟨by rw [h]; simp, fun e he => by rw [hev e he], fun e he hp => by rw [hev e he]; exact hp⟩

theorem krel : KRel (EvMono (σ := σ)) where
  refl := refl
  trans := trans
  emit _ _ := of_frame rfl
  active _ _ := of_frame rfl
  shared _ _ := of_frame rfl
  setProc _ _ _ := of_frame rfl
  schedule _ _ _ _ _ _ := of_frame rfl
  newEv s r _ := of_push s _ r rfl
  newLabelled s r _ := of_push s _ _ rfl
  newReq s r _ _ _ := of_push s _ _ rfl
  setOut s e o := of_setEv s e _ rfl (fun h => h)
  defuse s e := of_setEv s e _ rfl (fun h => h)
  bumpCount s e := of_setEv s e _ rfl (fun h => h)
  setUsage s e := of_setEv s e _ rfl (fun h => h)
  eraseCb s e cb := of_setEv s e _ rfl (fun h => by simp [h])
  addCb s e cb _ := by
    unfold KState.addCb
    exact of_setEv s e _ rfl (fun h => by simp [h])
  eraseUser _ _ _ := of_frame rfl
  addUser _ _ _ _ _ := of_frame rfl
  addLevel _ _ _ _ _ := of_frame rfl
  subLevel _ _ _ _ _ := of_frame rfl
  addItem _ _ _ _ _ := of_frame rfl
  tailItems _ _ := of_frame rfl
  eraseItem _ _ _ := of_frame rfl
  dropPutQ _ _ _ := of_frame rfl
  dropGetQ _ _ _ := of_frame rfl
  enqPut _ _ _ _ := of_frame rfl
  enqGet _ _ _ _ := of_frame rfl

end EvMono
