import OnlVerif.Lemmas.Scalar
import OnlVerif.Kernel.Step
/-!
# A generic skeleton for kernel invariants

Every state transformer of model `K` is a composition of a small number of *leaf updates* (one
attribute assignment of the Python code each).  `KRel R` says that the relation `R` between a state
and a later state contains every leaf update (under the guard the code has established at that
point) and is reflexive and transitive.  The lemmas below then show, once and for all, that `R`
relates `s` to `f s` for every transformer `f` of the model — API calls, bursts, `_resume`, the
resource scans, condition bookkeeping, the whole callback loop of a step.

A kernel invariant `I` is proved for all programs by instantiating `R s s' := I s → I s'`
(or a two-state relation such as `Ext`) and checking the leaves.
-/

variable {σ : Type}

structure KRel (R : KState ℚ σ → KState ℚ σ → Prop) : Prop where
  refl : ∀ s, R s s
  trans : ∀ {s1 s2 s3}, R s1 s2 → R s2 s3 → R s1 s3
  -- bookkeeping that no invariant of interest looks at
  emit : ∀ s o, R s (s.emit o)
  active : ∀ s a, R s { s with active := a }
  shared : ∀ s l, R s { s with shared := l }
  setProc : ∀ s p r, R s (s.setProc p r)
  -- events
  /-- a fresh event record; request records carry a positive amount when they are container requests -/
  newEv : ∀ s (r : EvRec ℚ), r.req = none → R s (s.newEv r).1
  newLabelled : ∀ s (r : EvRec ℚ), r.req = none → R s (s.newLabelled r).1
  /-- a fresh request event; its amount is never negative (`ContainerPut/Get` refuse `amount <= 0`) -/
  newReq : ∀ s (r : EvRec ℚ) (rq : ReqData ℚ), r.req = some rq → 0 ≤ rq.amount → R s (s.newLabelled r).1
  /-- `Environment.schedule`; URGENT entries are always scheduled for the current instant -/
  schedule : ∀ s e p (d : ℚ), 0 ≤ d → (p = URGENT → d = 0) → R s (s.schedule e p d)
  setOut : ∀ s e o, R s (s.setOut e o)
  defuse : ∀ s e, R s (s.defuse e)
  bumpCount : ∀ s c, R s (s.bumpCount c)
  setUsage : ∀ s e, R s (s.setUsage e)
  eraseCb : ∀ s e cb, R s (s.eraseCb e cb)
  /-- `callbacks.append(cb)`; the model itself never registers `StopSimulation.callback` (only `run(until=…)` does) -/
  addCb : ∀ s e cb, cb ≠ Cb.stop → R s (s.addCb e cb)
  -- resources
  eraseUser : ∀ s r w, R s (s.setUsers r ((s.res r).users.erase w))
  addUser : ∀ s r e, isResKind (s.res r).kind = true → hasRoom (s.res r).capacity (s.res r).users.length = true →
    R s (s.setUsers r ((s.res r).users ++ [e]))
  addLevel : ∀ s r e, (s.res r).kind = .container → canPut s r e = true →
    R s (s.setLevel r ((s.res r).level + (reqOf s e).amount))
  subLevel : ∀ s r e, (s.res r).kind = .container → (reqOf s e).amount ≤ (s.res r).level →
    R s (s.setLevel r ((s.res r).level - (reqOf s e).amount))
  addItem : ∀ s r x, isStoreKind (s.res r).kind = true → hasRoom (s.res r).capacity (s.res r).items.length = true →
    R s (s.setItems r ((s.res r).items ++ [x]))
  tailItems : ∀ s r, R s (s.setItems r (s.res r).items.tail)
  eraseItem : ∀ s r x, R s (s.setItems r ((s.res r).items.erase x))
  dropPutQ : ∀ s r e, R s (dropPutQ s r e)
  dropGetQ : ∀ s r e, R s (dropGetQ s r e)
  enqPut : ∀ s r e, e + 1 = s.events.size → R s (enqPut s r e)
  enqGet : ∀ s r e, e + 1 = s.events.size → R s (enqGet s r e)

namespace KRel
variable {R : KState ℚ σ → KState ℚ σ → Prop} (K : KRel R)
include K

theorem trigger (s : KState ℚ σ) (e : EvId) (o : Outcome) : R s (s.trigger e o) := by
  unfold KState.trigger
  exact K.trans (K.setOut s e o) (K.schedule _ _ _ _ (by rw [zero_eq']) (fun h => absurd h (by decide)))

theorem mkInterrupt (s : KState ℚ σ) (p : EvId) (c : Val) : R s (mkInterrupt s p c).1 := by
  unfold _root_.mkInterrupt
  split
  · exact K.refl s
  · split
    · exact K.refl s
    · exact K.trans (K.newEv s _ rfl) (K.schedule _ _ _ _ (by rw [zero_eq']) (fun _ => zero_eq'))

theorem preemptStep (s : KState ℚ σ) (r : ResId) (e : EvId) : R s (preemptStep s r e) := by
  unfold _root_.preemptStep
  simp only
  split
  · split
    · exact K.refl s
    · split
      · split
        · exact K.trans (K.eraseUser s r _) (K.mkInterrupt _ _ _)
        · exact K.eraseUser s r _
      · exact K.refl s
  · exact K.refl s

theorem prePut (s : KState ℚ σ) (r : ResId) (e : EvId) : R s (prePut s r e) := by
  unfold _root_.prePut
  split
  · exact K.preemptStep s r e
  · exact K.refl s

theorem applyPut (s : KState ℚ σ) (r : ResId) (e : EvId) (h : canPut s r e = true) : R s (applyPut s r e) := by
  unfold _root_.applyPut
  unfold canPut at h
  simp only at h ⊢
  split <;> rename_i hk <;> simp only [hk] at h
  · exact K.trans (K.trans (K.addUser s r e (by unfold isResKind; rw [hk]; decide) h) (K.setUsage _ _)) (K.trigger _ _ _)
  · exact K.trans (K.trans (K.addUser s r e (by unfold isResKind; rw [hk]; decide) h) (K.setUsage _ _)) (K.trigger _ _ _)
  · exact K.trans (K.trans (K.addUser s r e (by unfold isResKind; rw [hk]; decide) h) (K.setUsage _ _)) (K.trigger _ _ _)
  · refine K.trans (K.addLevel s r e hk ?_) (K.trigger _ _ _)
    unfold canPut; simp only [hk]; exact h
  · exact K.trans (K.addItem s r _ (by unfold isStoreKind; rw [hk]; decide) h) (K.trigger _ _ _)
  · exact K.trans (K.addItem s r _ (by unfold isStoreKind; rw [hk]; decide) h) (K.trigger _ _ _)
  · exact K.trans (K.addItem s r _ (by unfold isStoreKind; rw [hk]; decide) h) (K.trigger _ _ _)

theorem doPut (s : KState ℚ σ) (r : ResId) (e : EvId) : R s (doPut s r e).1 := by
  unfold _root_.doPut
  split
  · rename_i h
    exact K.trans (K.prePut s r e) (K.applyPut _ _ _ h)
  · exact K.prePut s r e

theorem takeOut (s : KState ℚ σ) (r : ResId) (e : EvId) (v : Val) (h : getItem s r e = some v) :
    R s (takeOut s r e v) := by
  unfold _root_.takeOut
  unfold getItem at h
  simp only at h ⊢
  split <;> rename_i hk <;> simp only [hk] at h
  · exact K.eraseUser s r _
  · exact K.eraseUser s r _
  · exact K.eraseUser s r _
  · refine K.subLevel s r e hk ?_
    split at h
    · assumption
    · cases h
  · exact K.tailItems s r
  · split
    · exact K.eraseItem s r _
    · exact K.refl s
  · split
    · exact K.eraseItem s r _
    · exact K.refl s

theorem doGet (s : KState ℚ σ) (r : ResId) (e : EvId) : R s (doGet s r e).1 := by
  unfold _root_.doGet
  split
  · rename_i v h
    exact K.trans (K.takeOut s r e v h) (K.trigger _ _ _)
  · exact K.refl s

theorem scanPut (r : ResId) (q : List EvId) (s : KState ℚ σ) : R s (scanPut r q s) := by
  induction q generalizing s with
  | nil => exact K.refl s
  | cons e rest ih =>
    unfold _root_.scanPut
    simp only
    have h1 : R s (if (_root_.doPut s r e).1.triggered e then _root_.dropPutQ (_root_.doPut s r e).1 r e
        else (_root_.doPut s r e).1) := by
      split
      · exact K.trans (K.doPut s r e) (K.dropPutQ _ _ _)
      · exact K.doPut s r e
    split
    · exact K.trans h1 (ih _)
    · exact h1

theorem scanGet (r : ResId) (q : List EvId) (s : KState ℚ σ) : R s (scanGet r q s) := by
  induction q generalizing s with
  | nil => exact K.refl s
  | cons e rest ih =>
    unfold _root_.scanGet
    simp only
    have h1 : R s (if (_root_.doGet s r e).1.triggered e then _root_.dropGetQ (_root_.doGet s r e).1 r e
        else (_root_.doGet s r e).1) := by
      split
      · exact K.trans (K.doGet s r e) (K.dropGetQ _ _ _)
      · exact K.doGet s r e
    split
    · exact K.trans h1 (ih _)
    · exact h1

theorem triggerPut (s : KState ℚ σ) (r : ResId) : R s (triggerPut s r) := K.scanPut r _ s
theorem triggerGet (s : KState ℚ σ) (r : ResId) : R s (triggerGet s r) := K.scanGet r _ s

theorem mkPut (s : KState ℚ σ) (r : ResId) (rq : ReqData ℚ) (hpos : 0 ≤ rq.amount) : R s (mkPut s r rq).1 := by
  unfold _root_.mkPut
  simp only
  refine K.trans (K.trans (K.newReq s _ rq rfl hpos) (K.enqPut _ r _ ?_)) (K.triggerPut _ _)
  simp [KState.newLabelled]

theorem mkGet (s : KState ℚ σ) (r : ResId) (rq : ReqData ℚ) (hpos : 0 ≤ rq.amount) : R s (mkGet s r rq).1 := by
  unfold _root_.mkGet
  simp only
  refine K.trans (K.trans (K.newReq s _ rq rfl hpos) (K.enqGet _ r _ ?_)) (K.triggerGet _ _)
  simp [KState.newLabelled]

theorem cancelReq (s : KState ℚ σ) (e : EvId) : R s (cancelReq s e).1 := by
  unfold _root_.cancelReq
  split
  · exact K.refl s
  · split
    · split
      · exact K.trans (K.dropPutQ s _ _) (K.triggerPut _ _)
      · exact K.refl s
    · split
      · exact K.trans (K.dropGetQ s _ _) (K.triggerGet _ _)
      · exact K.refl s
    · exact K.refl s

theorem condCheck (s : KState ℚ σ) (c e : EvId) : R s (condCheck s c e) := by
  unfold _root_.condCheck
  split
  · exact K.refl s
  · split
    · exact K.trans (K.trans (K.bumpCount s c) (K.defuse _ _)) (K.trigger _ _ _)
    · split
      · exact K.trans (K.bumpCount s c) (K.trigger _ _ _)
      · exact K.bumpCount s c

theorem foldl {α : Type} (f : KState ℚ σ → α → KState ℚ σ) (hf : ∀ s a, R s (f s a)) (l : List α)
    (s : KState ℚ σ) : R s (l.foldl f s) := by
  induction l generalizing s with
  | nil => exact K.refl s
  | cons a l ih => exact K.trans (hf s a) (ih _)

theorem eraseCheck (s : KState ℚ σ) (c e : EvId) : R s (eraseCheck s c e) := by
  unfold _root_.eraseCheck
  split
  · split
    · exact K.eraseCb s _ _
    · exact K.refl s
  · exact K.refl s

theorem removeChecks (fuel : Nat) (c : EvId) (s : KState ℚ σ) : R s (removeChecks fuel c s) := by
  induction fuel generalizing c s with
  | zero => exact K.refl s
  | succ n ih =>
    unfold _root_.removeChecks
    apply K.foldl
    intro s e
    split
    · exact K.trans (K.eraseCheck s c e) (ih _ _)
    · exact K.eraseCheck s c e

theorem condBuild (s : KState ℚ σ) (c : EvId) : R s (condBuild s c) := by
  unfold _root_.condBuild
  simp only
  split
  · exact K.trans (K.removeChecks _ _ s) (K.setOut _ _ _)
  · exact K.removeChecks _ _ s

theorem mkCond (s : KState ℚ σ) (all : Bool) (ops : List EvId) : R s (mkCond s all ops).1 := by
  unfold _root_.mkCond
  simp only
  split
  · exact K.trans (K.newLabelled s _ rfl) (K.trigger _ _ _)
  · refine K.trans (K.trans (K.newLabelled s _ rfl) (K.foldl _ ?_ _ _)) (K.addCb _ _ _ (by simp))
    intro s e
    split
    · exact K.condCheck _ _ _
    · exact K.addCb _ _ _ (by simp)

theorem doCall (s : KState ℚ σ) (self : EvId) (c : Call ℚ σ) : R s (doCall s self c).1 := by
  cases c <;> simp only [_root_.doCall]
  case timeout d v =>
    split
    · exact K.refl s
    · rename_i hd
      exact K.trans (K.newLabelled s _ rfl) (K.schedule _ _ _ _ (by rw [zero_eq'] at hd; exact not_lt.mp hd)
        (fun h => absurd h (by decide)))
  case event => exact K.newLabelled s _ rfl
  case succeed e v => split <;> first | exact K.refl s | exact K.trigger s _ _
  case fail e x => split <;> first | exact K.refl s | exact K.trigger s _ _
  case spawn st =>
    exact K.trans (K.trans (K.trans (K.newLabelled s _ rfl) (K.newEv _ _ rfl))
      (K.schedule _ _ _ _ (by rw [zero_eq']) (fun _ => zero_eq'))) (K.setProc _ _ _)
  case interrupt p cause =>
    split
    · exact K.refl s
    · have := K.mkInterrupt s p cause
      generalize _root_.mkInterrupt s p cause = r at this ⊢
      obtain ⟨s1, o⟩ := r
      cases o <;> exact this
  case probe e tag => split <;> first | exact K.refl s | exact K.addCb s _ _ (by simp)
  case cond all ops => exact K.mkCond s all ops
  case request r prio pre =>
    split
    · exact K.refl s
    · exact K.mkPut s r _ (le_refl _)
  case release r req =>
    split
    · exact K.refl s
    · exact K.mkGet s r _ (le_refl _)
  case cancel e =>
    have := K.cancelReq s e
    generalize _root_.cancelReq s e = r at this ⊢
    obtain ⟨s1, o⟩ := r
    cases o <;> exact this
  case cput r a =>
    split
    · exact K.refl s
    · split
      · exact K.refl s
      · rename_i ha
        exact K.mkPut s r _ (le_of_lt (not_le.mp ha))
  case cget r a =>
    split
    · exact K.refl s
    · split
      · exact K.refl s
      · rename_i ha
        exact K.mkGet s r _ (le_of_lt (not_le.mp ha))
  case sput r it =>
    split
    · exact K.refl s
    · exact K.mkPut s r _ (le_refl _)
  case sget r f =>
    split
    · exact K.refl s
    · exact K.mkGet s r _ (le_refl _)
  case log what v => exact K.emit s _
  case load k => exact K.refl s
  case store k v => exact K.shared s _

theorem noteErr (self : EvId) (sr : KState ℚ σ × Reply) : R sr.1 (noteErr self sr) := by
  unfold _root_.noteErr
  split
  · exact K.emit _ _
  · exact K.refl _

theorem runBurst (self : EvId) (b : Burst ℚ σ) (s : KState ℚ σ) : R s (runBurst self b s).1 := by
  induction b generalizing s with
  | call c k ih =>
    simp only [_root_.runBurst]
    exact K.trans (K.trans (K.doCall s self c) (K.noteErr self _)) (ih _ _)
  | yield e st => exact K.refl s
  | ret v => exact K.refl s
  | raise x => exact K.refl s

theorem deliver (s : KState ℚ σ) (p e : EvId) : R s (deliver s p e).1 := by
  show R s (deliverSt s p e)
  unfold deliverSt
  split
  · exact K.trans (K.active s _) (K.defuse _ _)
  · exact K.active s _

theorem finishProc (s : KState ℚ σ) (p : EvId) (pr : ProcRec σ) (o : Outcome) : R s (finishProc s p pr o) := by
  unfold _root_.finishProc
  exact K.trans (K.trans (K.trans (K.trigger s _ _) (K.emit _ _)) (K.setProc _ _ _)) (K.active _ _)

theorem register (s s' : KState ℚ σ) (p e' : EvId) (h : register s p e' = some s') : R s s' := by
  unfold _root_.register at h
  split at h
  · cases h
  · cases h
    exact K.trans (K.addCb s _ _ (by simp)) (K.active _ _)

theorem resume (body : σ → Resume → Burst ℚ σ) (p : EvId) (fuel : Nat) (e : EvId) (s : KState ℚ σ) :
    R s (resume body p fuel e s) := by
  induction fuel generalizing e s with
  | zero => exact K.refl s
  | succ n ih =>
    unfold _root_.resume
    split
    · exact K.refl s
    · rename_i pr _
      simp only
      have hb : R s (_root_.runBurst p (body pr.st (_root_.deliver s p e).2)
          ((_root_.deliver s p e).1.emit (.resumed p (_root_.deliver s p e).2 (_root_.deliver s p e).1.now))).1 :=
        K.trans (K.trans (K.deliver s p e) (K.emit _ _)) (K.runBurst _ _ _)
      split
      · exact K.trans hb (K.finishProc _ _ _ _)
      · exact K.trans hb (K.finishProc _ _ _ _)
      · split
        · rename_i s3 hr
          exact K.trans (K.trans hb (K.setProc _ _ _)) (K.register _ _ _ _ hr)
        · exact K.trans (K.trans hb (K.setProc _ _ _)) (ih _ _)

theorem deliverInterrupt (body : σ → Resume → Burst ℚ σ) (fuel : Nat) (iv p : EvId) (s : KState ℚ σ) :
    R s (deliverInterrupt body fuel iv p s) := by
  unfold _root_.deliverInterrupt
  split
  · exact K.refl s
  · split
    · exact K.refl s
    · split
      · exact K.trans (K.eraseCb s _ _) (K.resume _ _ _ _ _)
      · exact K.resume _ _ _ _ _

theorem runCb (body : σ → Resume → Burst ℚ σ) (fuel : Nat) (e : EvId) (l : LoopSt ℚ σ) (cb : Cb) :
    R l.s (runCb body fuel e l cb).s := by
  unfold _root_.runCb
  simp only
  cases cb with
  | resume p => exact K.resume _ _ _ _ _
  | probe tag => exact K.emit _ _
  | stop => exact K.refl _
  | intr iv =>
    simp only
    split
    · exact K.deliverInterrupt _ _ _ _ _
    · exact K.refl _
  | check c => exact K.condCheck _ _ _
  | build c => exact K.condBuild _ _
  | trigPut r => exact K.triggerPut _ _
  | trigGet r => exact K.triggerGet _ _

/-- **The callback loop of a step stays inside `R`.** -/
theorem foldCbs (body : σ → Resume → Burst ℚ σ) (fuel : Nat) (e : EvId) (cbs : List Cb) (l : LoopSt ℚ σ) :
    R l.s (cbs.foldl (_root_.runCb body fuel e) l).s := by
  induction cbs generalizing l with
  | nil => exact K.refl _
  | cons c cs ih => exact K.trans (K.runCb body fuel e l c) (ih _)

end KRel
