import OnlVerif.Lemmas.Scalar
import OnlVerif.Net.MultiQueue
/-!
# MultiQueueServer: dictionary lemmas, the loop's burst as a relation (`Settles`), the transitions as a relation (`Trans`)

`step_trans` turns an accepted `MQ.step` into one explicit case, `settle_settles` an accepted burst of the loop
into a derivation; invariants are then proved by `cases`/`induction` instead of unfolding the functions again.
-/

namespace MQ
variable {κ : Type} {β : Type}

/-! ### dictionaries -/

theorem lookup_setKey_same (m : List (Nat × β)) (k : Nat) (v : β) : lookup (setKey m k v) k = some v := by
  induction m with
  | nil => simp [setKey, lookup]
  | cons a r ih =>
    obtain ⟨k', v'⟩ := a
    by_cases h : k' = k
    · simp [setKey, lookup, h]
    · simp [setKey, lookup, h, ih]

theorem lookup_setKey_ne (m : List (Nat × β)) (k k' : Nat) (v : β) (h : k' ≠ k) :
    lookup (setKey m k v) k' = lookup m k' := by
  induction m with
  | nil => simp [setKey, lookup, Ne.symm h]
  | cons a r ih =>
    obtain ⟨k1, v1⟩ := a
    by_cases h1 : k1 = k
    · subst h1
      simp [setKey, lookup, Ne.symm h]
    · by_cases h2 : k1 = k'
      · subst h2
        simp [setKey, lookup, h1]
      · simp [setKey, lookup, h1, h2, ih]

theorem lookupD_setKey_same (m : List (Nat × β)) (k : Nat) (v d : β) : lookupD (setKey m k v) k d = v := by
  simp [lookupD, lookup_setKey_same]

theorem lookupD_setKey_ne (m : List (Nat × β)) (k k' : Nat) (v d : β) (h : k' ≠ k) :
    lookupD (setKey m k v) k' d = lookupD m k' d := by
  simp [lookupD, lookup_setKey_ne _ _ _ _ h]

theorem lookupD_setKey (m : List (Nat × β)) (k k' : Nat) (v d : β) :
    lookupD (setKey m k v) k' d = if k' = k then v else lookupD m k' d := by
  by_cases h : k' = k
  · subst h; simp [lookupD_setKey_same]
  · simp [h, lookupD_setKey_ne _ _ _ _ _ h]

theorem cnt_bump (m : List (Nat × Int)) (k : Nat) (d : Int) (k' : Nat) :
    cnt (bump m k d) k' = cnt m k' + if k' = k then d else 0 := by
  induction m with
  | nil =>
    by_cases h : k' = k
    · simp [bump, cnt, lookup, h]
    · simp [bump, cnt, lookup, h, Ne.symm h]
  | cons a r ih =>
    obtain ⟨k1, v1⟩ := a
    by_cases h1 : k1 = k
    · subst h1
      by_cases h2 : k' = k1
      · subst h2; simp [bump, cnt, lookup]
      · simp [bump, cnt, lookup, h2, Ne.symm h2]
    · by_cases h2 : k1 = k'
      · subst h2
        simp [bump, cnt, lookup, h1]
      · simp only [bump, h1, if_false, cnt, lookup, h2] at ih ⊢
        exact ih

theorem total_bump (m : List (Nat × Int)) (k : Nat) (d : Int) : total (bump m k d) = total m + d := by
  induction m with
  | nil => simp [bump, total]
  | cons a r ih =>
    obtain ⟨k1, v1⟩ := a
    by_cases h1 : k1 = k
    · simp [bump, total, h1]; omega
    · simp [bump, total, h1, ih]; omega

/-- keys of `bump m k 0` look up as in `m` -/
theorem cnt_bump_zero (m : List (Nat × Int)) (k k' : Nat) : cnt (bump m k 0) k' = cnt m k' := by
  rw [cnt_bump]; split <;> simp

/-- weighted sum over the values of a dictionary -/
def wsumMap (g : β → Int) : List (Nat × β) → Int
  | [] => 0
  | (_, v) :: r => g v + wsumMap g r

theorem wsumMap_setKey (g : β → Int) (d : β) (hd : g d = 0) (m : List (Nat × β)) (k : Nat) (v : β) :
    wsumMap g (setKey m k v) + g (lookupD m k d) = wsumMap g m + g v := by
  induction m with
  | nil => simp [setKey, wsumMap, lookupD, lookup, hd]
  | cons a r ih =>
    obtain ⟨k1, v1⟩ := a
    by_cases h1 : k1 = k
    · simp [setKey, wsumMap, lookupD, lookup, h1]; omega
    · simp only [setKey, h1, if_false, wsumMap, lookupD, lookup] at ih ⊢
      omega

/-! ### a burst of the loop as a derivation -/

/-- `Settles sc s s'`: started at `s`, the loop runs to its next `yield` and is then in `s'` -/
inductive Settles (sc : Sched ℚ κ) : MQState ℚ κ → MQState ℚ κ → Prop
  | goto (s : MQState ℚ κ) (k : κ) (s' : MQState ℚ κ) :
      sc.micro (touch sc s).ctl (view (touch sc s)) = .goto k →
      Settles sc { touch sc s with ctl := k } s' → Settles sc s s'
  | get (s : MQState ℚ κ) (c : Nat) (k : κ) (s' : MQState ℚ κ) :
      sc.micro (touch sc s).ctl (view (touch sc s)) = .get c k →
      issueGet { touch sc s with ctl := k } c = .ok s' → Settles sc s s'
  | block (s : MQState ℚ κ) (k : κ) :
      sc.micro (touch sc s).ctl (view (touch sc s)) = .block k →
      Settles sc s (blockOnToken { touch sc s with ctl := k })
  | takeSend (s : MQState ℚ κ) (c : Nat) (k : κ) (p : MPkt) (e : Bool) (k' : κ) :
      sc.micro (touch sc s).ctl (view (touch sc s)) = .take c k →
      lookupD (touch sc s).hol c none = some p →
      sc.onPkt k (view { touch sc s with ctl := k, hol := setKey (touch sc s).hol c none }) c p = .send e k' →
      Settles sc s (spawn { ({ touch sc s with ctl := k, hol := setKey (touch sc s).hol c none } : MQState ℚ κ) with ctl := k' } p e)
  | takePark (s : MQState ℚ κ) (c : Nat) (k : κ) (p : MPkt) (k' : κ) (s2 s' : MQState ℚ κ) :
      sc.micro (touch sc s).ctl (view (touch sc s)) = .take c k →
      lookupD (touch sc s).hol c none = some p →
      sc.onPkt k (view { touch sc s with ctl := k, hol := setKey (touch sc s).hol c none }) c p = .park k' →
      park { ({ touch sc s with ctl := k, hol := setKey (touch sc s).hol c none } : MQState ℚ κ) with ctl := k' } c p = .ok s2 →
      Settles sc s2 s' → Settles sc s s'

theorem settle_settles (sc : Sched ℚ κ) (n : Nat) (s s' : MQState ℚ κ) (h : settle sc n s = .ok s') :
    Settles sc s s' := by
  induction n generalizing s with
  | zero => simp [settle] at h
  | succ n ih =>
    simp only [settle] at h
    split at h
    · rename_i k hm
      exact Settles.goto s k s' hm (ih _ h)
    · rename_i c k hm
      exact Settles.get s c k s' hm h
    · rename_i k hm
      simp only [Except.ok.injEq] at h
      subst h
      exact Settles.block s k hm
    · cases h
    · rename_i c k hm
      split at h
      · cases h
      · rename_i p hp
        split at h
        · rename_i e k' hd
          simp only [Except.ok.injEq] at h
          subst h
          exact Settles.takeSend s c k p e k' hm hp hd
        · rename_i k' hd
          split at h
          · rename_i s2 hpk
            exact Settles.takePark s c k p k' s2 s' hm hp hd hpk (ih _ h)
          · cases h
        · cases h

/-! ### the transitions -/

inductive Trans (sc : Sched ℚ κ) : MQState ℚ κ → MAct ℚ → MQState ℚ κ → MOut ℚ → Prop
  | init (s s' : MQState ℚ κ) : s.phase = .idle → resumeLoop sc s = .ok s' → Trans sc s .init s' .nothing
  | put (s : MQState ℚ κ) (p : MPkt) (c : Nat) (k : κ) : sc.classOf p.flow = some c → sc.onPut s.ctl c p = .ok k →
      Trans sc s (.put p) (enqueue (countIn (postToken { s with ctl := k }) p) c p) .accepted
  | tokenHandoff (s : MQState ℚ κ) (n : Nat) : s.phase = .waitToken → s.tokens = n + 1 →
      Trans sc s .tokenHandoff { s with tokens := n, phase := .tokenHanded } .nothing
  | wake (s s' : MQState ℚ κ) : s.phase = .tokenHanded → resumeLoop sc s = .ok s' → Trans sc s .wake s' .nothing
  | resumeSend (s : MQState ℚ κ) (c : Nat) (p : MPkt) (e : Bool) (k : κ) : s.phase = .pktHanded c p →
      sc.onPkt s.ctl (view { s with phase := Phase.running }) c p = .send e k →
      Trans sc s .pktResume (spawn { ({ s with phase := Phase.running } : MQState ℚ κ) with ctl := k } p e) .nothing
  | resumePark (s : MQState ℚ κ) (c : Nat) (p : MPkt) (k : κ) (s2 s' : MQState ℚ κ) : s.phase = .pktHanded c p →
      sc.onPkt s.ctl (view { s with phase := Phase.running }) c p = .park k →
      park { ({ s with phase := Phase.running } : MQState ℚ κ) with ctl := k } c p = .ok s2 →
      resumeLoop sc s2 = .ok s' → Trans sc s .pktResume s' .nothing
  | sendInit (s : MQState ℚ κ) (p : MPkt) : s.phase = .spawned p →
      Trans sc s .sendInit { s with currentPacket := some p, phase := .sending p (s.now + txTime sc p) }
        (.started p (s.now + txTime sc p))
  | sendFire (s : MQState ℚ κ) (p : MPkt) (due : ℚ) : s.phase = .sending p due → s.now = due →
      Trans sc s .sendFire { countOut s p with currentPacket := none, phase := .finished p } (.depart p)
  | sendDone (s : MQState ℚ κ) (p : MPkt) (k : κ) (s' : MQState ℚ κ) : s.phase = .finished p →
      sc.onDone s.ctl p = .ok k → resumeLoop sc { s with ctl := k } = .ok s' → Trans sc s .sendDone s' .nothing
  | tickIdle (s : MQState ℚ κ) (t : ℚ) : s.now ≤ t → s.phase = .waitToken → s.tokens = 0 →
      Trans sc s (.tick t) { s with now := t } .nothing
  | tickBusy (s : MQState ℚ κ) (t : ℚ) (p : MPkt) (due : ℚ) : s.now ≤ t → s.phase = .sending p due → t ≤ due →
      Trans sc s (.tick t) { s with now := t } .nothing
  | sample (s : MQState ℚ κ) (inc : Bool) : Trans sc s (.sample inc) s (.samples (monitorSample s inc))

theorem withOut_ok (o : MOut ℚ) (r : Except String (MQState ℚ κ)) (s' : MQState ℚ κ) (o' : MOut ℚ)
    (h : withOut o r = .ok (s', o')) : r = .ok s' ∧ o' = o := by
  unfold withOut at h
  split at h
  · simp only [Except.ok.injEq, Prod.mk.injEq] at h
    obtain ⟨rfl, rfl⟩ := h
    exact ⟨rfl, rfl⟩
  · cases h

theorem step_trans (sc : Sched ℚ κ) (s s' : MQState ℚ κ) (a : MAct ℚ) (o : MOut ℚ)
    (h : step sc s a = .ok (s', o)) : Trans sc s a s' o := by
  cases a with
  | init =>
    simp only [step] at h
    split at h
    · rename_i hp
      obtain ⟨h1, rfl⟩ := withOut_ok _ _ _ _ h
      exact Trans.init s s' hp h1
    · cases h
  | put p =>
    simp only [step, doPut] at h
    split at h
    · cases h
    · rename_i c hc
      split at h
      · cases h
      · rename_i k hk
        simp only [Except.ok.injEq, Prod.mk.injEq] at h
        obtain ⟨rfl, rfl⟩ := h
        exact Trans.put s p c k hc hk
  | tokenHandoff =>
    simp only [step] at h
    split at h
    · rename_i n hp ht
      simp only [Except.ok.injEq, Prod.mk.injEq] at h
      obtain ⟨rfl, rfl⟩ := h
      exact Trans.tokenHandoff s n hp ht
    · cases h
    · cases h
  | wake =>
    simp only [step] at h
    split at h
    · rename_i hp
      obtain ⟨h1, rfl⟩ := withOut_ok _ _ _ _ h
      exact Trans.wake s s' hp h1
    · cases h
  | pktResume =>
    simp only [step] at h
    split at h
    · rename_i c p hp
      simp only [doPktResume] at h
      split at h
      · rename_i e k hd
        simp only [Except.ok.injEq, Prod.mk.injEq] at h
        obtain ⟨rfl, rfl⟩ := h
        exact Trans.resumeSend s c p e k hp hd
      · rename_i k hd
        split at h
        · rename_i s2 hpk
          obtain ⟨h1, rfl⟩ := withOut_ok _ _ _ _ h
          exact Trans.resumePark s c p k s2 s' hp hd hpk h1
        · cases h
      · cases h
    · cases h
  | sendInit =>
    simp only [step] at h
    split at h
    · rename_i p hp
      simp only [Except.ok.injEq, Prod.mk.injEq] at h
      obtain ⟨rfl, rfl⟩ := h
      exact Trans.sendInit s p hp
    · cases h
  | sendFire =>
    simp only [step] at h
    split at h
    · rename_i p due hp
      split at h
      · cases h
      · rename_i h1
        split at h
        · cases h
        · rename_i h2
          simp only [Except.ok.injEq, Prod.mk.injEq] at h
          obtain ⟨rfl, rfl⟩ := h
          exact Trans.sendFire s p due hp (le_antisymm (not_lt.mp h2) (not_lt.mp h1))
    · cases h
  | sendDone =>
    simp only [step] at h
    split at h
    · rename_i p hp
      simp only [doSendDone] at h
      split at h
      · cases h
      · rename_i k hk
        obtain ⟨h1, rfl⟩ := withOut_ok _ _ _ _ h
        exact Trans.sendDone s p k s' hp hk h1
    · cases h
  | tick t =>
    simp only [step, doTick] at h
    split at h
    · cases h
    · rename_i h1
      split at h
      · rename_i hp
        split at h
        · rename_i ht
          simp only [Except.ok.injEq, Prod.mk.injEq] at h
          obtain ⟨rfl, rfl⟩ := h
          exact Trans.tickIdle s t (not_lt.mp h1) hp ht
        · cases h
      · rename_i p due hp
        split at h
        · cases h
        · rename_i h2
          simp only [Except.ok.injEq, Prod.mk.injEq] at h
          obtain ⟨rfl, rfl⟩ := h
          exact Trans.tickBusy s t p due (not_lt.mp h1) hp (not_lt.mp h2)
      · cases h
      · cases h
  | sample inc =>
    simp only [step, Except.ok.injEq, Prod.mk.injEq] at h
    obtain ⟨rfl, rfl⟩ := h
    exact Trans.sample s inc

/-- the converse for `tick`: it is admissible exactly when the loop is blocked without a token, or a transmission
is in progress and its end is not passed -/
theorem tick_ok_iff (sc : Sched ℚ κ) (s : MQState ℚ κ) (t : ℚ) :
    (∃ s' o, step sc s (.tick t) = .ok (s', o)) ↔
      s.now ≤ t ∧ ((s.phase = .waitToken ∧ s.tokens = 0) ∨ ∃ p due, s.phase = .sending p due ∧ t ≤ due) := by
  constructor
  · rintro ⟨s', o, h⟩
    have ht := step_trans sc s s' _ o h
    cases ht with
    | tickIdle _ h1 h2 h3 => exact ⟨h1, Or.inl ⟨h2, h3⟩⟩
    | tickBusy _ p due h1 h2 h3 => exact ⟨h1, Or.inr ⟨p, due, h2, h3⟩⟩
  · rintro ⟨h1, h2⟩
    simp only [step, doTick]
    rw [if_neg (not_lt.mpr h1)]
    rcases h2 with ⟨hp, ht⟩ | ⟨p, due, hp, ht⟩
    · rw [hp]; simp only [ht, if_true]; exact ⟨_, _, rfl⟩
    · rw [hp]; simp only; rw [if_neg (not_lt.mpr ht)]; exact ⟨_, _, rfl⟩

end MQ
