import OnlVerif.Lemmas.SndKRun2
/-!
# The TCP sender on the kernel model: a whole burst of `run` (LTS action `wake`)
-/

set_option linter.unusedSimpArgs false

namespace SndK
open SenderOnK TcpSender TcpScalar

variable {s : KS} {a : A}

/-- the invariants at the end of a burst of `run`: only `tokens`, `proc` and the phase of `run` have changed -/
theorem ARun.finish {cfg : Cfg} (hr : ARun cfg a) (tk : Nat) (pc : Proc) (ph : RPhase)
    (hrunA : RunA { a with S := { a.S with tokens := tk, proc := pc }, run := ph, cur := none } ph) :
    AInv cfg { a with S := { a.S with tokens := tk, proc := pc }, run := ph, cur := none } :=
  ⟨hr.inv.transfer rfl rfl rfl rfl rfl hr.inv.buf, hr.kind, hr.mss, hr.size, hr.mpos, hr.spos, hr.dvd, hr.tks, hr.nmul, hr.bufle,
    hr.tkeys, rfl, hrunA, hr.scr.congr rfl, hr.pend, fun seq hs => (hr.tm seq hs).congr rfl rfl rfl rfl, hr.putAt⟩

/-- `ARun` only looks at these components -/
theorem ARun.refill {cfg : Cfg} (hr : ARun cfg a) : ARun cfg { a with S := a.S.refill } := by
  obtain ⟨fa, fb, fc, fd, fe, ff, fg, fh, fi, fj, fk⟩ := refill_frame a.S
  obtain ⟨g1, g2, g3⟩ := refill_more a.S
  refine ⟨inv_refill hr.inv, fa.trans hr.kind, fh.trans hr.mss, g1.trans hr.size, hr.mpos, hr.spos, hr.dvd, ?_, ?_,
    refill_buf_le hr, ?_, g2.trans hr.proc, hr.scr.congr fi, fun u hu => by
      show u.time = a.S.refill.now ∧ _
      rw [fi]; exact hr.pend u hu, fun seq hs => (hr.tm seq hs).congr (by show AL.get? seq a.S.refill.timers = _; rw [fc]) rfl rfl fi,
    by show a.putAt ≤ a.S.refill.now; rw [fi]; exact hr.putAt⟩
  · show a.tks = segKeys cfg.mss a.S.refill.next_seq
    rw [ff]; exact hr.tks
  · show cfg.mss ∣ a.S.refill.next_seq
    rw [ff]; exact hr.nmul
  · show (AL.keys a.S.refill.timers).Sublist a.tks
    rw [fc]; exact hr.tkeys

theorem div_step {x m : Nat} (hm : 0 < m) (h : m ≤ x) : (x - m) / m + 1 = x / m := by
  have : x = (x - m) + m := by omega
  conv_rhs => rw [this]
  rw [Nat.add_div_right _ hm]

/-- **a resumption of `run`**: the program and the LTS go through the sending loop in lockstep; the loop ends (`return`,
or `yield self.cwnd_avaialbe.get()`) before the unrolling bound -/
theorem frag_run {cfg : Cfg} (fuel : Nat) {pr : ProcRec St} {e : EvId} (htag : tagOf pr.st = 1) :
    ∀ (n : Nat) (s : KS) (a : A) (outs : List (Tx ℚ)), KI (some 0) s a → ARun cfg a → a.run = .running → a.cur = some e →
      (cfg.size - a.S.next_seq) / cfg.mss + 1 ≤ n →
      ∃ S a' new, TimerK.afterBurst (body cfg) 0 fuel pr (runBurst 0 (sndRun cfg a.S.now n) s) = S ∧
        KI none S a' ∧ (∃ v, (S.ev e).out = some (.ok v)) ∧
        Sender.runLoop n a.S outs = .ok a'.S (outs ++ new) ∧ a'.txs = a.txs ++ new.map txPair ∧ AInv cfg a'
  | 0, _, _, _, _, _, _, _, hn => absurd hn (Nat.not_succ_le_zero _)
  | n + 1, s, a, outs, h, hr, hrun, hcur, hn => by
    obtain ⟨fa, fb, fc, fd, fe, ff, fg, fh, fi, fj, fk⟩ := refill_frame a.S
    by_cases hd : (cfg.size != 0 && decide (a.S.next_seq ≥ cfg.size)) = true
    · -- the flow is done
      obtain ⟨g1, g2⟩ := run_ret_end (pr := pr) h hrun hcur htag
      refine ⟨_, _, [], ?_, g1, g2, ?_, by simp, ?_⟩
      · show TimerK.afterBurst (body cfg) 0 fuel pr (runBurst 0 (loadNat cNext _) s) = _
        rw [rb_loadNat h.c.next, if_pos hd]
        exact afterBurst_ret (body cfg) 0 fuel pr s _
      · unfold Sender.runLoop Sender.sendStep
        rw [flowDone_eq hr, hd]
        simp
      · have := hr.finish a.S.tokens .finished (.ending ⟨s.now + Num.zero, NORMAL, s.eid, 0⟩) ⟨rfl, rfl⟩
        exact this
    · by_cases hg : a.S.refill.guard = true
      · -- a segment is sent
        obtain ⟨s1, r1, h1, hs1⟩ := run_iter_sent h hr n hd hg
        have hr1 := hr.emit _ _ hs1
        have hle : a.S.next_seq + cfg.mss ≤ cfg.size := by
          have := hr1.inv.buf
          have hb := hr1.bufle
          have e1 : (aEmit a cfg.mss s.events.size s.eid).S.next_seq = a.S.next_seq + cfg.mss := rfl
          rw [e1] at this
          exact le_trans this hb
        have hn1 : (cfg.size - (aEmit a cfg.mss s.events.size s.eid).S.next_seq) / cfg.mss + 1 ≤ n := by
          show (cfg.size - (a.S.next_seq + cfg.mss)) / cfg.mss + 1 ≤ n
          have := div_step hr.mpos (show cfg.mss ≤ cfg.size - a.S.next_seq by omega)
          rw [Nat.sub_add_eq]
          omega
        obtain ⟨S, a', new, e1, e2, e3, e4, e5, e6⟩ := frag_run fuel htag n s1 _
          (outs ++ [{ seq := a.S.next_seq, size := cfg.mss, stamp := a.S.now, kind := .new }]) h1 hr1 hrun hcur hn1
        refine ⟨S, a', { seq := a.S.next_seq, size := cfg.mss, stamp := a.S.now, kind := .new } :: new, ?_, e2, e3, ?_, ?_, e6⟩
        · rw [r1]
          have : (aEmit a cfg.mss s.events.size s.eid).S.now = a.S.now := fi
          rw [this] at e1
          exact e1
        · unfold Sender.runLoop
          rw [hs1]
          simp only
          rw [e4]
          simp
        · rw [e5]
          show a.txs ++ [(a.S.next_seq, a.S.now)] ++ _ = _
          simp [txPair]
      · -- the window is closed: `yield self.cwnd_avaialbe.get()`
        obtain ⟨s1, r1, h1, _, _⟩ := frag_refill (p := 0) h hr hd
        have hrr := hr.refill
        obtain ⟨g1, g2, g3⟩ := refill_more a.S
        have hK : runBurst 0 (sndRun cfg a.S.now (n + 1)) s = runBurst 0 (sndWait a.S.now) s1 := by
          show runBurst 0 (loadNat cNext _) s = _
          rw [rb_loadNat h.c.next, if_neg hd, rb_loadNat h.c.buf, r1, rb_loadNat h1.c.lack, rb_loadTime (cCwnd_cell h1.c.cc)]
          have hg' : ¬ TCPPacketGenerator.run_send_guard (Num.ofNat a.S.next_seq : ℚ) (Num.ofNat cfg.mss)
              (Num.ofNat a.S.refill.send_buffer) (Num.ofNat a.S.refill.last_ack) a.S.refill.cc.cwnd = true := by
            rw [fg, fb, ← guard_eq hr]; exact hg
          rw [if_neg hg']
        have hL : a.S.sendStep = .yielded a.S.refill.getToken := by
          unfold Sender.sendStep
          have hfd : a.S.flowDone = false := by rw [flowDone_eq hr]; simpa using hd
          rw [hfd]
          simp only [Bool.false_eq_true, if_false, hg]
        cases htk : a.S.refill.tokens with
        | zero =>
          obtain ⟨S, q1, q2, q3⟩ := run_miss_end (body cfg) fuel (pr := pr) (now := a.S.now) (a := { a with S := a.S.refill })
            h1 hrun hcur htk
          refine ⟨S, _, [], by rw [hK]; exact q1, q2, q3, ?_, by simp, ?_⟩
          · unfold Sender.runLoop
            rw [hL]
            simp only [List.append_nil]
            unfold Sender.getToken
            simp [htk]
          · have := hrr.finish a.S.refill.tokens .blocked (.blocked s1.events.size a.S.now)
              ⟨rfl, by show a.S.now ≤ a.S.refill.now; rw [fi], by show a.S.refill.tokens ≤ _; omega,
                fun hp => by have : 0 < a.S.refill.tokens := hp; omega⟩
            exact this
        | succ m =>
          obtain ⟨S, q1, q2, q3⟩ := run_hit_end (body cfg) fuel (pr := pr) (now := a.S.now) (n := m)
            (a := { a with S := a.S.refill }) h1 hrun hcur htk
          refine ⟨S, _, [], by rw [hK]; exact q1, q2, q3, ?_, by simp, ?_⟩
          · unfold Sender.runLoop
            rw [hL]
            simp only [List.append_nil]
            unfold Sender.getToken
            simp [htk]
          · have hnow1 : s1.now = a.S.now := h1.k.now.trans fi
            have := hrr.finish m .runnable (.handed s1.events.size a.S.now ⟨s1.now, NORMAL, s1.eid, s1.events.size⟩)
              ⟨hnow1.trans fi.symm, rfl, rfl, by
                show Num.pymax a.S.now a.putAt = a.S.refill.now
                rw [fi]
                unfold Num.pymax
                rw [if_neg (not_lt.mpr hr.putAt)]⟩
            exact this

end SndK
