import OnlVerif.Lemmas.StrandGrant
/-!
# Post-conditions of the queue scans `_trigger_put` / `_trigger_get`

After a complete scan the head of the scanned queue is blocked (for the get queue of a `FilterStore`: every queued get
is blocked); the scan either changed nothing or left a rescan of the opposite queue pending.
-/

variable {σ : Type}

/-! ## one granted put -/

theorem grantPut_step {s : KState ℚ σ} (h : Pkg s none) (r : ResId) (e : EvId) (rest : List EvId)
    (hq : (s.res r).putQ = e :: rest) (hok : putOk s r e = true) :
    doPut s r e = (applyPut (prePut s r e) r e, true) ∧ (applyPut (prePut s r e) r e).triggered e = true ∧
    Pkg (dropPutQ (applyPut (prePut s r e) r e) r e) none ∧
    RStep r s (dropPutQ (applyPut (prePut s r e) r e) r e) ∧
    ((dropPutQ (applyPut (prePut s r e) r e) r e).res r).putQ = rest ∧
    ((dropPutQ (applyPut (prePut s r e) r e) r e).res r).getQ = (s.res r).getQ ∧
    ∀ rem, Pend (dropPutQ (applyPut (prePut s r e) r e) r e) rem (.trigGet r) := by
  have hmem : e ∈ (s.res r).putQ := by rw [hq]; exact List.mem_cons_self
  obtain ⟨hkind, _, l, hl, hml⟩ := h.putQ r e hmem
  have hin : e < s.events.size := KState.lt_of_cbs hl
  obtain ⟨ha, ra, qa⟩ := prePut_pkg (h.weaken (ex := some e)) r e
  have hina : e < (prePut s r e).events.size := Nat.lt_of_lt_of_le hin ra.fr.size_le
  obtain ⟨la, hla, hma⟩ := ra.fr.cbs e l hl
  unfold putOk at hok
  obtain ⟨hb, rb, qb⟩ := applyPut_pkg r e ha hina hok
  have haft := fun rem => applyPut_after (prePut s r e) r e hina rem (.trigGet r) la hla (hma _ rfl hml)
  obtain ⟨hc, rc⟩ := dropPutQ_pkg hb r e
  have hqb : ((applyPut (prePut s r e) r e).res r).putQ = e :: rest := by rw [(qb r).1, (qa r).1, hq]
  have hrin : r < (applyPut (prePut s r e) r e).resources.size := res_lt_of_putQ (by rw [hqb]; simp)
  have hres := res_dropPutQ (applyPut (prePut s r e) r e) r e hrin
  have hputQ : ((dropPutQ (applyPut (prePut s r e) r e) r e).res r).putQ = rest := by
    rw [hres]; show ((applyPut (prePut s r e) r e).res r).putQ.erase e = rest
    rw [hqb, List.erase_cons_head]
  have hall : RStep r s (dropPutQ (applyPut (prePut s r e) r e) r e) := (ra.trans rb).trans rc
  refine ⟨by unfold doPut; rw [if_pos hok], (haft []).1, ?_, hall, hputQ, ?_, ?_⟩
  · refine hc.unexempt (noQ_of_put hc r e ?_ ?_)
    · rw [hall.fr.kind e hin]; exact hkind
    · rw [hputQ]
      have := h.nodupP r
      rw [hq] at this
      exact (List.nodup_cons.mp this).1
  · rw [hres]; show ((applyPut (prePut s r e) r e).res r).getQ = _
    rw [(qb r).2, (qa r).2]
  · intro rem
    exact (haft rem).2.mono rc.fr rfl

theorem scanPut_cons_grant (r : ResId) (e : EvId) (rest : List EvId) (s sb : KState ℚ σ)
    (hd : doPut s r e = (sb, true)) (ht : sb.triggered e = true) :
    scanPut r (e :: rest) s = scanPut r rest (dropPutQ sb r e) := by
  rw [scanPut]
  simp only [hd, ht, if_true]

theorem scanPut_cons_block (r : ResId) (e : EvId) (rest : List EvId) (s : KState ℚ σ)
    (hd : doPut s r e = (s, false)) (ht : s.triggered e = false) :
    scanPut r (e :: rest) s = s := by
  rw [scanPut]
  simp only [hd, ht, Bool.false_eq_true, if_false]

/-- **Post-condition of `_trigger_put`**: the head of the put queue is blocked afterwards; nothing but resource `r`
was touched; either nothing happened at all or a rescan of the get queue is pending. -/
theorem scanPut_post (r : ResId) : ∀ (q : List EvId) (s : KState ℚ σ), Pkg s none → (s.res r).putQ = q →
    Pkg (scanPut r q s) none ∧ RStep r s (scanPut r q s) ∧ ((scanPut r q s).res r).getQ = (s.res r).getQ ∧
    PutBlocked (scanPut r q s) r ∧ (scanPut r q s = s ∨ ∀ rem, Pend (scanPut r q s) rem (.trigGet r))
  | [], s, h, hq => by
    refine ⟨h, RStep.refl r s, rfl, ?_, Or.inl rfl⟩
    intro e he
    change (s.res r).putQ.head? = some e at he
    rw [hq] at he; cases he
  | e :: rest, s, h, hq => by
    by_cases hok : putOk s r e = true
    · obtain ⟨hd, ht, hp, hr, hpq, hgq, hpend⟩ := grantPut_step h r e rest hq hok
      rw [scanPut_cons_grant r e rest s _ hd ht]
      obtain ⟨ip, ir, ig, ib, _⟩ := scanPut_post r rest _ hp hpq
      refine ⟨ip, hr.trans ir, ig.trans hgq, ib, Or.inr ?_⟩
      intro rem
      exact (hpend rem).mono ir.fr rfl
    · have hok' : putOk s r e = false := by simpa using hok
      have hpre := prePut_eq_of_blocked h r e hok'
      have hd : doPut s r e = (s, false) := by
        unfold doPut
        have : canPut (prePut s r e) r e = false := hok'
        rw [if_neg (by rw [this]; simp), hpre]
      have hmem : e ∈ (s.res r).putQ := by rw [hq]; exact List.mem_cons_self
      have ht : s.triggered e = false := by
        have := ((h.putQ r e hmem).2.1).resolve_right (by simp)
        unfold KState.triggered; rw [this]; rfl
      rw [scanPut_cons_block r e rest s hd ht]
      refine ⟨h, RStep.refl r s, rfl, ?_, Or.inl rfl⟩
      intro e' he'
      rw [hq] at he'
      simp only [List.head?_cons, Option.some.injEq] at he'
      subst he'; exact hok'

/-! ## one served get -/

theorem takeOut_items (s : KState ℚ σ) (r : ResId) (e : EvId) (v : Val) :
    ((takeOut s r e v).res r).items.Sublist (s.res r).items ∧ ((takeOut s r e v).res r).kind = (s.res r).kind := by
  have key : ∀ x : ResRec, x.items.Sublist (s.res r).items → x.kind = (s.res r).kind →
      ((s.setRes r x).res r).items.Sublist (s.res r).items ∧ ((s.setRes r x).res r).kind = (s.res r).kind := by
    intro x hx hk
    rw [KState.res_setRes]
    split
    · exact ⟨hx, hk⟩
    · exact ⟨List.Sublist.refl _, rfl⟩
  unfold takeOut
  simp only
  split
  · exact key _ (List.Sublist.refl _) rfl
  · exact key _ (List.Sublist.refl _) rfl
  · exact key _ (List.Sublist.refl _) rfl
  · exact key _ (List.Sublist.refl _) rfl
  · exact key _ (List.tail_sublist _) rfl
  · split
    · exact key _ (List.erase_sublist) rfl
    · exact ⟨List.Sublist.refl _, rfl⟩
  · split
    · exact key _ (List.erase_sublist) rfl
    · exact ⟨List.Sublist.refl _, rfl⟩

theorem grantGet_step {s : KState ℚ σ} (h : Pkg s none) (r : ResId) (e : EvId) (v : Val)
    (hmem : e ∈ (s.res r).getQ) (hv : getItem s r e = some v) :
    doGet s r e = ((takeOut s r e v).trigger e (.ok v), true) ∧ ((takeOut s r e v).trigger e (.ok v)).triggered e = true ∧
    Pkg (dropGetQ ((takeOut s r e v).trigger e (.ok v)) r e) none ∧
    RStep r s (dropGetQ ((takeOut s r e v).trigger e (.ok v)) r e) ∧
    ((dropGetQ ((takeOut s r e v).trigger e (.ok v)) r e).res r).getQ = (s.res r).getQ.erase e ∧
    ((dropGetQ ((takeOut s r e v).trigger e (.ok v)) r e).res r).putQ = (s.res r).putQ ∧
    ((dropGetQ ((takeOut s r e v).trigger e (.ok v)) r e).res r).items.Sublist (s.res r).items ∧
    ∀ rem, Pend (dropGetQ ((takeOut s r e v).trigger e (.ok v)) r e) rem (.trigPut r) := by
  obtain ⟨hkind, _, l, hl, hml⟩ := h.getQ r e hmem
  have hin : e < s.events.size := KState.lt_of_cbs hl
  obtain ⟨ha, ra, qa⟩ := takeOut_pkg (h.weaken (ex := some e)) r e v
  have hina : e < (takeOut s r e v).events.size := Nat.lt_of_lt_of_le hin ra.fr.size_le
  obtain ⟨la, hla, hma⟩ := ra.fr.cbs e l hl
  have hb := ha.trigger e (.ok v) hina (fun _ => Or.inr rfl)
  have nb := NR.trigger (takeOut s r e v) e (.ok v)
  have hpend := fun rem => Pend.of_trigger (takeOut s r e v) e (.ok v) rem (.trigPut r) la hla (hma _ rfl hml)
  have htrig : ((takeOut s r e v).trigger e (.ok v)).triggered e = true := by
    show ((((takeOut s r e v).setOut e (.ok v)).ev e).out).isSome = true
    rw [KState.out_setOut _ e _ hina]; rfl
  obtain ⟨hc, rc⟩ := dropGetQ_pkg hb r e
  have hqb : (((takeOut s r e v).trigger e (.ok v)).res r).getQ = (s.res r).getQ := by
    rw [nb.res_eq r, (qa r).2]
  have hrin : r < ((takeOut s r e v).trigger e (.ok v)).resources.size :=
    res_lt_of_getQ (by rw [hqb]; exact List.ne_nil_of_mem hmem)
  have hres := res_dropGetQ ((takeOut s r e v).trigger e (.ok v)) r e hrin
  have hgetQ : ((dropGetQ ((takeOut s r e v).trigger e (.ok v)) r e).res r).getQ = (s.res r).getQ.erase e := by
    rw [hres]; show (((takeOut s r e v).trigger e (.ok v)).res r).getQ.erase e = _
    rw [hqb]
  have hall : RStep r s (dropGetQ ((takeOut s r e v).trigger e (.ok v)) r e) :=
    (ra.trans (RStep.of_nr nb)).trans rc
  refine ⟨by unfold doGet; rw [hv], htrig, ?_, hall, hgetQ, ?_, ?_, ?_⟩
  · refine hc.unexempt (noQ_of_get hc r e ?_ ?_)
    · rw [hall.fr.kind e hin]; exact hkind
    · rw [hgetQ]
      exact fun hm => (List.Nodup.mem_erase_iff (h.nodupG r)).mp hm |>.1 rfl
  · rw [hres]; show (((takeOut s r e v).trigger e (.ok v)).res r).putQ = _
    rw [nb.res_eq r, (qa r).1]
  · rw [hres]; show (((takeOut s r e v).trigger e (.ok v)).res r).items.Sublist _
    rw [nb.res_eq r]; exact (takeOut_items s r e v).1
  · intro rem
    exact (hpend rem).mono rc.fr rfl

theorem scanGet_cons_grant (r : ResId) (e : EvId) (rest : List EvId) (s sb : KState ℚ σ)
    (hd : doGet s r e = (sb, true)) (ht : sb.triggered e = true) :
    scanGet r (e :: rest) s = scanGet r rest (dropGetQ sb r e) := by
  rw [scanGet]
  simp only [hd, ht, if_true]

theorem scanGet_cons_block (r : ResId) (e : EvId) (rest : List EvId) (s : KState ℚ σ)
    (hd : doGet s r e = (s, false)) (ht : s.triggered e = false) :
    scanGet r (e :: rest) s = s := by
  rw [scanGet]
  simp only [hd, ht, Bool.false_eq_true, if_false]

theorem scanGet_cons_skip (r : ResId) (e : EvId) (rest : List EvId) (s : KState ℚ σ)
    (hd : doGet s r e = (s, true)) (ht : s.triggered e = false) :
    scanGet r (e :: rest) s = scanGet r rest s := by
  rw [scanGet]
  simp only [hd, ht, Bool.false_eq_true, if_false, if_true]

theorem beq_fstore_false {k : ResKind} (h : k ≠ .fstore) : (k == ResKind.fstore) = false := by
  cases k <;> first | rfl | exact absurd rfl h

/-- **Post-condition of `_trigger_get`** for every class but `FilterStore`: the head of the get queue is blocked. -/
theorem scanGet_post_head (r : ResId) : ∀ (q : List EvId) (s : KState ℚ σ), Pkg s none → (s.res r).getQ = q →
    (s.res r).kind ≠ .fstore →
    Pkg (scanGet r q s) none ∧ RStep r s (scanGet r q s) ∧ ((scanGet r q s).res r).putQ = (s.res r).putQ ∧
    (∀ e, ((scanGet r q s).res r).getQ.head? = some e → getItem (scanGet r q s) r e = none) ∧
    (scanGet r q s = s ∨ ∀ rem, Pend (scanGet r q s) rem (.trigPut r))
  | [], s, h, hq, _ => by
    refine ⟨h, RStep.refl r s, rfl, ?_, Or.inl rfl⟩
    intro e he
    change (s.res r).getQ.head? = some e at he
    rw [hq] at he; cases he
  | e :: rest, s, h, hq, hk => by
    have hmem : e ∈ (s.res r).getQ := by rw [hq]; exact List.mem_cons_self
    cases hv : getItem s r e with
    | some v =>
      obtain ⟨hd, ht, hp, hr, hgq, hpq, _, hpend⟩ := grantGet_step h r e v hmem hv
      rw [scanGet_cons_grant r e rest s _ hd ht]
      have hgq' : ((dropGetQ ((takeOut s r e v).trigger e (.ok v)) r e).res r).getQ = rest := by
        rw [hgq, hq, List.erase_cons_head]
      have hk' : ((dropGetQ ((takeOut s r e v).trigger e (.ok v)) r e).res r).kind ≠ .fstore := by
        rw [(hr.fr.resKind r).1]; exact hk
      obtain ⟨ip, ir, iq, ib, _⟩ := scanGet_post_head r rest _ hp hgq' hk'
      refine ⟨ip, hr.trans ir, iq.trans hpq, ib, Or.inr ?_⟩
      intro rem
      exact (hpend rem).mono ir.fr rfl
    | none =>
      have hd : doGet s r e = (s, false) := by
        unfold doGet; rw [hv]; simp only [beq_fstore_false hk]
      have ht : s.triggered e = false := by
        have := ((h.getQ r e hmem).2.1).resolve_right (by simp)
        unfold KState.triggered; rw [this]; rfl
      rw [scanGet_cons_block r e rest s hd ht]
      refine ⟨h, RStep.refl r s, rfl, ?_, Or.inl rfl⟩
      intro e' he'
      rw [hq] at he'
      simp only [List.head?_cons, Option.some.injEq] at he'
      subst he'; exact hv

theorem getItem_fstore (s : KState ℚ σ) (r : ResId) (e : EvId) (hk : (s.res r).kind = .fstore) :
    getItem s r e = ((s.res r).items.find? (filterOk (reqOf s e).filter)).map Val.int := by
  unfold getItem; simp only [hk]

/-- a `FilterStore` get that matches nothing keeps matching nothing when items are only removed -/
theorem getItem_fstore_none {s s' : KState ℚ σ} {r : ResId} {x : EvId} (hk : (s.res r).kind = .fstore)
    (hk' : (s'.res r).kind = .fstore) (hsub : (s'.res r).items.Sublist (s.res r).items)
    (hreq : (reqOf s' x).strip = (reqOf s x).strip) (hn : getItem s r x = none) : getItem s' r x = none := by
  rw [getItem_fstore s r x hk] at hn
  rw [getItem_fstore s' r x hk', strip_filter hreq]
  simp only [Option.map_eq_none_iff, List.find?_eq_none] at hn ⊢
  intro y hy
  exact hn y (hsub.subset hy)

/-- **Post-condition of `_trigger_get` of a `FilterStore`**: no queued get can be served afterwards.
`pre` are the requests the scan has already passed. -/
theorem scanGet_post_fstore (r : ResId) : ∀ (q pre : List EvId) (s : KState ℚ σ), Pkg s none →
    (s.res r).getQ = pre ++ q → (s.res r).kind = .fstore → (∀ x ∈ pre, getItem s r x = none) →
    Pkg (scanGet r q s) none ∧ RStep r s (scanGet r q s) ∧ ((scanGet r q s).res r).putQ = (s.res r).putQ ∧
    (∀ e ∈ ((scanGet r q s).res r).getQ, getItem (scanGet r q s) r e = none) ∧
    (scanGet r q s = s ∨ ∀ rem, Pend (scanGet r q s) rem (.trigPut r))
  | [], pre, s, h, hq, _, hpre => by
    refine ⟨h, RStep.refl r s, rfl, ?_, Or.inl rfl⟩
    intro e he
    change e ∈ (s.res r).getQ at he
    rw [hq, List.append_nil] at he
    exact hpre e he
  | e :: rest, pre, s, h, hq, hk, hpre => by
    have hmem : e ∈ (s.res r).getQ := by rw [hq]; simp
    cases hv : getItem s r e with
    | some v =>
      obtain ⟨hd, ht, hp, hr, hgq, hpq, hsub, hpend⟩ := grantGet_step h r e v hmem hv
      rw [scanGet_cons_grant r e rest s _ hd ht]
      have hnd := h.nodupG r
      rw [hq] at hnd
      have hnotpre : e ∉ pre := by
        intro hc
        have := (List.nodup_append.mp hnd).2.2 e hc e List.mem_cons_self
        exact this rfl
      have hgq' : ((dropGetQ ((takeOut s r e v).trigger e (.ok v)) r e).res r).getQ = pre ++ rest := by
        rw [hgq, hq, List.erase_append_right _ hnotpre, List.erase_cons_head]
      have hk' : ((dropGetQ ((takeOut s r e v).trigger e (.ok v)) r e).res r).kind = .fstore := by
        rw [(hr.fr.resKind r).1]; exact hk
      have hpre' : ∀ x ∈ pre, getItem (dropGetQ ((takeOut s r e v).trigger e (.ok v)) r e) r x = none := by
        intro x hx
        have hxm : x ∈ (s.res r).getQ := by rw [hq]; exact List.mem_append_left _ hx
        obtain ⟨l, hl, _⟩ := (h.getQ r x hxm).2.2
        exact getItem_fstore_none hk hk' hsub (hr.fr.req x (KState.lt_of_cbs hl)) (hpre x hx)
      obtain ⟨ip, ir, iq, ib, _⟩ := scanGet_post_fstore r rest pre _ hp hgq' hk' hpre'
      refine ⟨ip, hr.trans ir, iq.trans hpq, ib, Or.inr ?_⟩
      intro rem
      exact (hpend rem).mono ir.fr rfl
    | none =>
      have hd : doGet s r e = (s, true) := by
        unfold doGet; rw [hv]; simp only [hk]; rfl
      have ht : s.triggered e = false := by
        have := ((h.getQ r e hmem).2.1).resolve_right (by simp)
        unfold KState.triggered; rw [this]; rfl
      rw [scanGet_cons_skip r e rest s hd ht]
      refine scanGet_post_fstore r rest (pre ++ [e]) s h (by rw [hq]; simp) hk ?_
      intro x hx
      rcases List.mem_append.mp hx with hx | hx
      · exact hpre x hx
      · rw [List.mem_singleton.mp hx]; exact hv

/-- **Post-condition of `_trigger_get`**, all classes -/
theorem triggerGet_post {s : KState ℚ σ} (h : Pkg s none) (r : ResId) :
    Pkg (triggerGet s r) none ∧ RStep r s (triggerGet s r) ∧ ((triggerGet s r).res r).putQ = (s.res r).putQ ∧
    GetBlocked (triggerGet s r) r ∧ (triggerGet s r = s ∨ ∀ rem, Pend (triggerGet s r) rem (.trigPut r)) := by
  unfold triggerGet
  by_cases hk : (s.res r).kind = .fstore
  · obtain ⟨a, b, c, d, e⟩ := scanGet_post_fstore r (s.res r).getQ [] s h rfl hk (by simp)
    refine ⟨a, b, c, ⟨?_, fun _ => d⟩, e⟩
    intro x hx
    exact d x (List.mem_of_mem_head? hx)
  · obtain ⟨a, b, c, d, e⟩ := scanGet_post_head r (s.res r).getQ s h rfl hk
    refine ⟨a, b, c, ⟨d, ?_⟩, e⟩
    intro hk'
    rw [(b.fr.resKind r).1] at hk'
    exact absurd hk' hk

theorem triggerPut_post {s : KState ℚ σ} (h : Pkg s none) (r : ResId) :
    Pkg (triggerPut s r) none ∧ RStep r s (triggerPut s r) ∧ ((triggerPut s r).res r).getQ = (s.res r).getQ ∧
    PutBlocked (triggerPut s r) r ∧ (triggerPut s r = s ∨ ∀ rem, Pend (triggerPut s r) rem (.trigGet r)) :=
  scanPut_post r _ s h rfl
