import OnlVerif.Lemmas.SndKAInv
/-!
# The TCP sender on the kernel model: the generators a kernel step does not touch

A kernel step changes one old event besides the ones it allocates: the event it pops (owned by the process it resumes, or a
`StorePut`), the process event of the generator that returns, or the `get` that is handed a token.  The bundles below keep
the facts of all *other* generators across such a change.
-/

set_option linter.unusedSimpArgs false

namespace SndK
open SenderOnK

/-- the event `e0` resumes process `p0`: its `Initialize`, a timeout it sleeps on, or (for `run`) a served `get` -/
def Owned (s : KS) (e0 : EvId) (p0 : EvId) : Prop :=
  (s.ev e0).kind = .init p0 ∨ ((s.ev e0).kind = .timeout ∧ (s.ev e0).cbs = some [.resume p0]) ∨
  ((s.ev e0).kind = .get 0 ∧ p0 = 0)

theorem RunEv.avoidO {s : KS} {ph : RPhase} (h : RunEv s ph) (pt : ProcTag s 0 1) {e0 p0 : EvId} (ow : Owned s e0 p0)
    (hp : p0 ≠ 0) : ∀ e ∈ ph.ids, e ∉ [e0] := by
  intro e he
  simp only [List.mem_singleton]
  rcases ow with ow | ⟨ow, _⟩ | ⟨_, ow⟩
  · rcases h.spec he with rfl | hk | hk
    · exact ne_of_kind pt.1 ow (by simp)
    · exact ne_of_kind hk ow (by simpa using Ne.symm hp)
    · exact ne_of_kind hk ow (by simp)
  · rcases h.spec he with rfl | hk | hk
    · exact ne_of_kind pt.1 ow (by simp)
    · exact ne_of_kind hk ow (by simp)
    · exact ne_of_kind hk ow (by simp)
  · exact absurd ow hp

theorem ScrEv.avoidO {s : KS} {ph : SPhase} (h : ScrEv s ph) (pt : ProcTag s 2 0) {e0 p0 : EvId} (ow : Owned s e0 p0)
    (hp : p0 ≠ 2) : ∀ e ∈ ph.ids, e ∉ [e0] := by
  intro e he
  simp only [List.mem_singleton]
  rcases ow with ow | ⟨ow, oc⟩ | ⟨ow, _⟩
  · rcases h.spec he with rfl | hk | ⟨hk, _⟩
    · exact ne_of_kind pt.1 ow (by simp)
    · exact ne_of_kind hk ow (by simpa using Ne.symm hp)
    · exact ne_of_kind hk ow (by simp)
  · rcases h.spec he with rfl | hk | ⟨_, hc⟩
    · exact ne_of_kind pt.1 ow (by simp)
    · exact ne_of_kind hk ow (by simp)
    · exact ne_of_cbs hc oc (by simpa using Ne.symm hp)
  · rcases h.spec he with rfl | hk | ⟨hk, _⟩
    · exact ne_of_kind pt.1 ow (by simp)
    · exact ne_of_kind hk ow (by simp)
    · exact ne_of_kind hk ow (by simp)

theorem TmEv.avoidO {s : KS} {seq : Nat} {p : EvId} {ph : TPh} (h : TmEv s seq p ph) (pt : ProcTag s p (2 + seq))
    {e0 p0 : EvId} (ow : Owned s e0 p0) (hp : p0 ≠ p) : ∀ e ∈ ph.ids p, e ∉ [e0] := by
  intro e he
  simp only [List.mem_singleton]
  rcases ow with ow | ⟨ow, oc⟩ | ⟨ow, _⟩
  · rcases h.spec he with rfl | hk | ⟨hk, _⟩
    · exact ne_of_kind pt.1 ow (by simp)
    · exact ne_of_kind hk ow (by simpa using Ne.symm hp)
    · exact ne_of_kind hk ow (by simp)
  · rcases h.spec he with rfl | hk | ⟨_, hc⟩
    · exact ne_of_kind pt.1 ow (by simp)
    · exact ne_of_kind hk ow (by simp)
    · exact ne_of_cbs hc oc (by simpa using Ne.symm hp)
  · rcases h.spec he with rfl | hk | ⟨hk, _⟩
    · exact ne_of_kind pt.1 ow (by simp)
    · exact ne_of_kind hk ow (by simp)
    · exact ne_of_kind hk ow (by simp)

theorem PendEv.avoidO {s : KS} {u : QEntry ℚ} (h : PendEv s u) {e0 p0 : EvId} (ow : Owned s e0 p0) : u.ev ≠ e0 := by
  rcases ow with ow | ⟨ow, _⟩ | ⟨ow, _⟩ <;> exact ne_of_kind h.1 ow (by simp)

/-- the generators other than the one (`p0`, tag `n0`) that owns the changed event `e0` -/
theorem KK.keepO {act : Option EvId} {s S : KS} {κ : Kern} {P : List EvId} {e0 p0 n0 : Nat} (h : KK act s κ)
    (fr : Frame s S [e0] P) (ow : Owned s e0 p0) (pt : ProcTag s p0 n0) :
    (n0 ≠ 1 → 0 ∉ P → RunEv S κ.run) ∧ (n0 ≠ 0 → 2 ∉ P → ScrEv S κ.scr) ∧ (∀ u ∈ κ.pend, PendEv S u) ∧
    (∀ seq ∈ κ.keys, n0 ≠ 2 + seq → κ.tmp seq ∉ P → TmEv S seq (κ.tmp seq) (κ.tph seq)) := by
  refine ⟨fun hn hP => ?_, fun hn hP => ?_, fun u hu => ?_, fun seq hs hn hP => ?_⟩
  · exact h.run.keep fr (h.run.avoidO h.pt0 ow (ProcTag.ne pt h.pt0 hn)) hP
  · exact h.scr.keep fr (h.scr.avoidO h.pt2 ow (ProcTag.ne pt h.pt2 hn)) hP
  · exact (h.pend u hu).keep fr (by simpa using (h.pend u hu).avoidO ow)
  · exact (h.tm seq hs).keep fr ((h.tm seq hs).avoidO (h.ptm seq hs) ow (ProcTag.ne pt (h.ptm seq hs) hn)) hP

/-- the generators other than the one (`p0`, tag `n0`) whose process event changes -/
theorem KK.keepP {act : Option EvId} {s S : KS} {κ : Kern} {P : List EvId} {p0 n0 : Nat} (h : KK act s κ)
    (fr : Frame s S [p0] P) (pt : ProcTag s p0 n0) :
    (n0 ≠ 1 → 0 ∉ P → RunEv S κ.run) ∧ (n0 ≠ 0 → 2 ∉ P → ScrEv S κ.scr) ∧ (∀ u ∈ κ.pend, PendEv S u) ∧
    (∀ seq ∈ κ.keys, n0 ≠ 2 + seq → κ.tmp seq ∉ P → TmEv S seq (κ.tmp seq) (κ.tph seq)) := by
  refine ⟨fun hn hP => ?_, fun hn hP => ?_, fun u hu => ?_, fun seq hs hn hP => ?_⟩
  · exact h.run.keep fr (h.run.avoidP h.pt0 pt hn) hP
  · exact h.scr.keep fr (h.scr.avoidP h.pt2 pt hn) hP
  · exact (h.pend u hu).keep fr (by simpa using ne_of_kind (h.pend u hu).1 pt.1 (by simp))
  · exact (h.tm seq hs).keep fr ((h.tm seq hs).avoidP (h.ptm seq hs) pt hn) hP

/-- all generators across a change that touches no old event and only the process record of `p0` (tag `n0`) -/
theorem KK.keepN {act : Option EvId} {s S : KS} {κ : Kern} {p0 n0 : Nat} (h : KK act s κ)
    (fr : Frame s S [] [p0]) (pt : ProcTag s p0 n0) :
    (n0 ≠ 1 → RunEv S κ.run) ∧ (n0 ≠ 0 → ScrEv S κ.scr) ∧ (∀ u ∈ κ.pend, PendEv S u) ∧
    (∀ seq ∈ κ.keys, n0 ≠ 2 + seq → TmEv S seq (κ.tmp seq) (κ.tph seq)) := by
  refine ⟨fun hn => ?_, fun hn => ?_, fun u hu => ?_, fun seq hs hn => ?_⟩
  · exact h.run.keep fr (by simp) (by simpa using ProcTag.ne h.pt0 pt (Ne.symm hn))
  · exact h.scr.keep fr (by simp) (by simpa using ProcTag.ne h.pt2 pt (Ne.symm hn))
  · exact (h.pend u hu).keep fr (by simp)
  · exact (h.tm seq hs).keep fr (by simp) (by simpa using ProcTag.ne (h.ptm seq hs) pt (Ne.symm hn))

/-! ## the entries of the timers when one phase changes -/

theorem tmEntries_upd_notin {keys : List Nat} {seq : Nat} (h : seq ∉ keys) (tph : Nat → TPh) (ph : TPh) :
    tmEntries keys (upd tph seq ph) = tmEntries keys tph :=
  tmEntries_congr fun _ hs => upd_ne _ _ _ _ (fun e => h (e ▸ hs))

theorem tmEntries_upd_perm {keys : List Nat} {seq : Nat} (hk : seq ∈ keys) (hn : keys.Nodup) (tph : Nat → TPh) (ph : TPh) :
    (tmEntries keys (upd tph seq ph) ++ (tph seq).entries).Perm (tmEntries keys tph ++ ph.entries) := by
  induction keys with
  | nil => cases hk
  | cons x xs ih =>
    have hx : x ∉ xs := (List.nodup_cons.mp hn).1
    have hn' := (List.nodup_cons.mp hn).2
    simp only [tmEntries, List.flatMap_cons] at ih ⊢
    by_cases he : x = seq
    · subst he
      have e1 : (List.flatMap (fun s => (upd tph x ph s).entries) xs) = List.flatMap (fun s => (tph s).entries) xs :=
        tmEntries_upd_notin hx tph ph
      rw [e1, upd_same]
      perm_lists
    · have hk' : seq ∈ xs := by
        rcases List.mem_cons.mp hk with h | h
        · exact absurd h.symm he
        · exact h
      have := ih hk' hn'
      rw [upd_ne _ _ _ _ he]
      classical
      rw [List.perm_iff_count] at this ⊢
      intro z
      have hz := this z
      simp only [List.count_append] at hz ⊢
      omega

end SndK
