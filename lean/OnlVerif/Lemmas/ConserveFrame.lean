import OnlVerif.Lemmas.ConserveDefs
/-!
# Conservation / ordering proofs: the bookkeeping updates are `Frame`s; shape of the resource units

Concrete facts about the model's leaf updates, proved by unfolding (no relation involved).
-/

variable {σ : Type}

namespace Conserve

theorem procQ_isSome_iff (s : KState ℚ σ) (p : EvId) : (s.proc? p).isSome = true ↔ ∃ a ∈ s.procs, a.1 = p := by
  unfold KState.proc?
  rw [Option.isSome_map, List.find?_isSome]
  constructor
  · rintro ⟨a, ha, h⟩; exact ⟨a, ha, by simpa using h⟩
  · rintro ⟨a, ha, h⟩; exact ⟨a, ha, by simpa using h⟩

namespace Frame

theorem refl (s : KState ℚ σ) : Frame s s :=
  ⟨rfl, fun _ => rfl, fun _ => rfl, fun _ => rfl, fun e l' h cb hc => Or.inr ⟨l', h, hc⟩,
   fun p pr' h => Or.inr ⟨pr', h⟩, rfl, fun r => ResSame.rfl' _⟩

/-- `Frame` looks only at the event table, the resource table and the process table -/
theorem of_fields {s s' t : KState ℚ σ} (h : Frame s t) (he : s'.events = t.events)
    (hr : s'.resources = t.resources) (hp : s'.procs = t.procs) : Frame s s' := by
  have hev : ∀ e, s'.ev e = t.ev e := fun e => by simp only [KState.ev, he]
  have hres : ∀ r, s'.res r = t.res r := fun r => by simp only [KState.res, hr]
  have hpr : ∀ p, s'.proc? p = t.proc? p := fun p => by simp only [KState.proc?, hp]
  have hcore : ∀ e, coreOf s' e = coreOf t e := fun e => by simp only [coreOf, reqOf, hev]
  refine ⟨by rw [he]; exact h.size, ?_, ?_, ?_, ?_, ?_, by rw [hr]; exact h.rsize, ?_⟩
  · intro e; rw [hev]; exact h.kind e
  · intro e; rw [hev]; exact h.out e
  · intro e; rw [hcore]; exact h.core e
  · intro e l'; rw [hev]; exact h.cbs e l'
  · intro p pr'; rw [hpr]; exact h.procs p pr'
  · intro r; rw [hres]; exact h.res r

theorem emit (s : KState ℚ σ) (o : Obs ℚ) : Frame s (s.emit o) := (refl s).of_fields rfl rfl rfl
theorem active (s : KState ℚ σ) (a : Option EvId) : Frame s { s with active := a } := (refl s).of_fields rfl rfl rfl
theorem shared (s : KState ℚ σ) (l : List (Nat × Val)) : Frame s { s with shared := l } := (refl s).of_fields rfl rfl rfl
theorem schedule (s : KState ℚ σ) (e : EvId) (p : Nat) (d : ℚ) : Frame s (s.schedule e p d) :=
  (refl s).of_fields rfl rfl rfl

/-- an update of one event record that keeps kind, outcome and request data, and whose callbacks are old or well-formed -/
theorem setEv (s : KState ℚ σ) (e : EvId) (x : EvRec ℚ) (hk : x.kind = (s.ev e).kind) (ho : x.out = (s.ev e).out)
    (hq : ({ (x.req.getD { res := 0, time := Num.zero }) with usageSince := none } : ReqData ℚ) = coreOf s e)
    (hcb : ∀ l', x.cbs = some l' → ∀ cb ∈ l', CbOK s cb ∨ ∃ l, (s.ev e).cbs = some l ∧ cb ∈ l) :
    Frame s (s.setEv e x) := by
  refine ⟨by simp [KState.setEv], ?_, ?_, ?_, ?_, fun p pr' h => Or.inr ⟨pr', h⟩, rfl, fun r => ResSame.rfl' _⟩
  · intro e'
    rw [KState.ev_setEv]
    split
    · rename_i h; rw [h.1]; exact hk
    · rfl
  · intro e'
    rw [KState.ev_setEv]
    split
    · rename_i h; rw [h.1]; exact ho
    · rfl
  · intro e'
    unfold coreOf reqOf
    rw [KState.ev_setEv]
    split
    · rename_i h; rw [h.1]; exact hq
    · rfl
  · intro e' l'
    rw [KState.ev_setEv]
    split
    · rename_i h; rw [h.1]; exact hcb l'
    · intro h cb hc; exact Or.inr ⟨l', h, hc⟩

theorem defuse (s : KState ℚ σ) (e : EvId) : Frame s (s.defuse e) :=
  setEv s e _ rfl rfl rfl (fun l' h cb hc => Or.inr ⟨l', h, hc⟩)

theorem bumpCount (s : KState ℚ σ) (e : EvId) : Frame s (s.bumpCount e) :=
  setEv s e _ rfl rfl rfl (fun l' h cb hc => Or.inr ⟨l', h, hc⟩)

theorem setUsage (s : KState ℚ σ) (e : EvId) : Frame s (s.setUsage e) := by
  refine setEv s e _ rfl rfl ?_ (fun l' h cb hc => Or.inr ⟨l', h, hc⟩)
  unfold coreOf reqOf
  cases (s.ev e).req <;> rfl

theorem eraseCb (s : KState ℚ σ) (e : EvId) (cb : Cb) : Frame s (s.eraseCb e cb) := by
  refine setEv s e _ rfl rfl rfl ?_
  intro l' h cb' hc
  cases hl : (s.ev e).cbs with
  | none => simp [hl] at h
  | some l =>
    simp only [hl, Option.map_some, Option.some.injEq] at h
    subst h
    exact Or.inr ⟨l, rfl, List.mem_of_mem_erase hc⟩

theorem addCb (s : KState ℚ σ) (e : EvId) (cb : Cb) (hok : CbOK s cb) : Frame s (s.addCb e cb) := by
  unfold KState.addCb
  refine setEv s e _ rfl rfl rfl ?_
  intro l' h cb' hc
  cases hl : (s.ev e).cbs with
  | none => simp [hl] at h
  | some l =>
    simp only [hl, Option.map_some, Option.some.injEq] at h
    subst h
    rcases List.mem_append.mp hc with hc | hc
    · exact Or.inr ⟨l, rfl, hc⟩
    · rw [List.mem_singleton] at hc; subst hc; exact Or.inl hok

/-- `event.callbacks = None` (the pop of `step`), together with clock and agenda -/
theorem openEvent (s : KState ℚ σ) (q : QEntry ℚ) (rest : List (QEntry ℚ)) : Frame s (openEvent s q rest) := by
  have h : Frame s (s.setEv q.ev { s.ev q.ev with cbs := none }) :=
    setEv s q.ev _ rfl rfl rfl (fun l' h => by cases h)
  exact h.of_fields rfl rfl rfl

theorem setProc (s : KState ℚ σ) (p : EvId) (x : ProcRec σ) (hp : (s.ev p).kind = .proc) : Frame s (s.setProc p x) := by
  refine ⟨rfl, fun _ => rfl, fun _ => rfl, fun _ => rfl, fun e l' h cb hc => Or.inr ⟨l', h, hc⟩, ?_, rfl,
    fun r => ResSame.rfl' _⟩
  intro p' pr' h
  by_cases hpp : p' = p
  · subst hpp; exact Or.inl hp
  · right
    have hs : ((s.setProc p x).proc? p').isSome = true := by rw [h]; rfl
    rw [procQ_isSome_iff] at hs
    obtain ⟨a, ha, hap⟩ := hs
    have ha' : a ∈ s.procs := by
      simp only [KState.setProc, List.mem_cons, List.mem_filter] at ha
      rcases ha with ha | ha
      · exfalso; apply hpp; rw [← hap, ha]
      · exact ha.1
    have : (s.proc? p').isSome = true := (procQ_isSome_iff s p').mpr ⟨a, ha', hap⟩
    cases hq : s.proc? p' with
    | none => rw [hq] at this; cases this
    | some pr => exact ⟨pr, rfl⟩

/-- an update of one resource record that touches only `users` -/
theorem setUsers (s : KState ℚ σ) (r : ResId) (l : List EvId) : Frame s (s.setUsers r l) := by
  refine ⟨rfl, fun _ => rfl, fun _ => rfl, fun _ => rfl, fun e l' h cb hc => Or.inr ⟨l', h, hc⟩,
    fun p pr' h => Or.inr ⟨pr', h⟩, by simp [KState.setUsers, KState.setRes], ?_⟩
  intro r'
  unfold KState.setUsers
  rw [KState.res_setRes]
  split
  · rename_i h; rw [h.1]; exact ⟨rfl, rfl, rfl, rfl, rfl, rfl⟩
  · exact ResSame.rfl' _

end Frame

/-! ## reading a state after the resource units -/

section access

@[simp] theorem KState.res_setOut (s : KState ℚ σ) (e : EvId) (o : Outcome) (r : ResId) : (s.setOut e o).res r = s.res r := rfl
@[simp] theorem KState.res_trigger (s : KState ℚ σ) (e : EvId) (o : Outcome) (r : ResId) : (s.trigger e o).res r = s.res r := rfl
@[simp] theorem KState.res_setUsage (s : KState ℚ σ) (e : EvId) (r : ResId) : (s.setUsage e).res r = s.res r := rfl
@[simp] theorem KState.ev_trigger (s : KState ℚ σ) (e : EvId) (o : Outcome) (e' : EvId) :
    (s.trigger e o).ev e' = (s.setOut e o).ev e' := rfl
@[simp] theorem KState.events_setRes (s : KState ℚ σ) (r : ResId) (x : ResRec) : (s.setRes r x).events = s.events := rfl
@[simp] theorem KState.events_schedule (s : KState ℚ σ) (e : EvId) (p : Nat) (d : ℚ) : (s.schedule e p d).events = s.events := rfl
@[simp] theorem KState.procs_setRes (s : KState ℚ σ) (r : ResId) (x : ResRec) : (s.setRes r x).procs = s.procs := rfl
@[simp] theorem KState.rsize_setRes (s : KState ℚ σ) (r : ResId) (x : ResRec) : (s.setRes r x).resources.size = s.resources.size := by
  simp [KState.setRes]
@[simp] theorem KState.esize_setEv (s : KState ℚ σ) (e : EvId) (x : EvRec ℚ) : (s.setEv e x).events.size = s.events.size := by
  simp [KState.setEv]

theorem KState.ev_setOut (s : KState ℚ σ) (e e' : EvId) (o : Outcome) :
    (s.setOut e o).ev e' = if e' = e ∧ e < s.events.size then { s.ev e with out := some o } else s.ev e' := by
  unfold KState.setOut; rw [KState.ev_setEv]

theorem KState.triggered_trigger (s : KState ℚ σ) (e : EvId) (o : Outcome) (h : e < s.events.size) :
    (s.trigger e o).triggered e = true := by
  unfold KState.triggered
  rw [KState.ev_trigger, KState.ev_setOut, if_pos ⟨rfl, h⟩]; rfl

/-- the eviction step of a `PreemptiveResource` touches only `users` (and allocates the `Interruption`) -/
theorem mkInterrupt_res (s : KState ℚ σ) (p : EvId) (c : Val) (r : ResId) : (mkInterrupt s p c).1.res r = s.res r := by
  unfold mkInterrupt
  split
  · rfl
  · split <;> rfl

theorem preemptStep_res (s : KState ℚ σ) (r : ResId) (e : EvId) (r' : ResId) :
    ResSame (s.res r') ((preemptStep s r e).res r') := by
  unfold preemptStep
  simp only
  split
  · split
    · exact ResSame.rfl' _
    · split
      · split
        · rw [mkInterrupt_res]; exact (Frame.setUsers s r _).res r'
        · exact (Frame.setUsers s r _).res r'
      · exact ResSame.rfl' _
  · exact ResSame.rfl' _

theorem prePut_res (s : KState ℚ σ) (r : ResId) (e : EvId) (r' : ResId) : ResSame (s.res r') ((prePut s r e).res r') := by
  unfold prePut
  split
  · exact preemptStep_res s r e r'
  · exact ResSame.rfl' _

end access

end Conserve
