import OnlVerif.Lemmas.TcpLiveInv
/-!
# No premature quiescence (C16)

In a state of the closed loop that satisfies `LInv` and in which the kernel has nothing left to do, the sink holds
the whole flow as one range and the sender's acknowledged mark is at its end.
-/

open TcpScalar TcpSender TcpSink TcpLoop

namespace TcpLive

variable {n : Nat} {l : Loop ℚ}

theorem quiescent_timers_nil (h : LInv n l) (hq : l.Quiescent) : l.snd.timers = [] := by
  apply List.eq_nil_iff_forall_not_mem.mpr
  intro kv hkv
  have h1 := (h.s.live kv hkv).1
  have h2 := hq.2.2.1 kv hkv
  rw [h1] at h2
  cases h2

/-- with no timer pending everything issued is acknowledged and at the sink -/
theorem no_timer_all_acked (h : LInv n l) (ht : l.snd.timers = []) :
    l.snd.last_ack = l.snd.next_seq ∧ ∀ b, Covers l.sink b ↔ b < l.snd.next_seq := by
  have hk : ∀ q, q ∉ AL.keys l.snd.timers := by
    intro q hq; rw [ht] at hq; simp [AL.keys] at hq
  constructor
  · have := h.s.la_le
    by_contra hne
    exact hk _ (h.s.tm (by omega))
  · intro b
    refine ⟨h.sinkb b, fun hb => ?_⟩
    rw [h.sinkal b]
    have hle : l.snd.mss * (b / l.snd.mss) ≤ b := Nat.mul_div_le b _
    rcases h.seg _ (Dvd.intro _ rfl) (Nat.lt_of_le_of_lt hle hb) with c | c
    · exact c
    · exact absurd c (hk _)

theorem quiescent_complete (h : LInv n l) (hq : l.Quiescent) : l.Complete n := by
  have ht := quiescent_timers_nil h hq
  obtain ⟨hla, hcov⟩ := no_timer_all_acked h ht
  have hns : l.snd.next_seq = n := by
    cases hp : l.snd.proc with
    | runnable => exact absurd hp hq.2.2.2.1
    | blocked =>
      rcases h.s.blk hp with h1 | h1
      · exact absurd ⟨hp, h1⟩ hq.2.2.2.2
      · omega
    | finished => exact h.s.finished hp
  refine ⟨eq_single_of_covers _ n h.s.npos h.sink h.sinkne (by rw [← hns]; exact hcov), by rw [hla, hns]⟩

/-- `Quiescent` means what it should: no action of the loop other than the passing of time is possible -/
theorem quiescent_no_event (hq : l.Quiescent) (a : LAct ℚ) (hnt : ∀ t, a ≠ .own (.tick t)) : l.step a = none := by
  obtain ⟨q1, q2, q3, q4, q5⟩ := hq
  cases a with
  | own act =>
    cases act with
    | wake fuel =>
      have : l.snd.step (.wake fuel) = .reject .notRunnable := by
        show l.snd.wakeStep fuel = _
        unfold Sender.wakeStep; rw [if_neg q4]
      unfold Loop.step; simp [Loop.isAck, this]
    | handoff =>
      have : l.snd.step .handoff = .reject .noHandoff := by
        show l.snd.handoffStep = _
        unfold Sender.handoffStep; rw [if_neg q5]
      unfold Loop.step; simp [Loop.isAck, this]
    | ack x => unfold Loop.step; simp [Loop.isAck]
    | fire seq =>
      have : (∃ w, l.snd.step (.fire seq) = .reject w) := by
        show ∃ w, l.snd.fireStep seq = .reject w
        unfold Sender.fireStep
        cases ht : AL.get? seq l.snd.timers with
        | none => exact ⟨_, rfl⟩
        | some tr =>
          have := q3 _ (AL.pair_mem_of_get?_some ht)
          simp only at this
          simp [this]
      obtain ⟨w, hw⟩ := this
      unfold Loop.step; simp [Loop.isAck, hw]
    | tick t => exact absurd rfl (hnt t)
  | deliver => unfold Loop.step; simp [q1]
  | ackArrive => unfold Loop.step; simp [q2]
  | dropData i => unfold Loop.step; simp [q1]
  | dropAck i => unfold Loop.step; simp [q2]

end TcpLive
