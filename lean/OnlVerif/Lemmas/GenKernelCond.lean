import OnlVerif.Lemmas.GenKernelDefs
import OnlVerif.Lemmas.KAccess
import OnlVerif.Generated.KernelCond
/-!
# Bridge lemmas (C05): generated `Condition.all_events / any_events / _check` = `evaluate` / `condCheck` of model `K`
-/

namespace GenKernel
variable {τ σ : Type} [Num τ]

/-- `Condition._check(event)` of condition `cx.c` for operand `cx.e` -/
def runCondCheck (cx : Cx) (s : KState τ σ) : Option (KState τ σ) :=
  runEff cx (Gen.Condition.check (condObj s cx.c) (s.triggered cx.c) (evOk s cx.e) (condOps s cx.c).1
    ((condOps s cx.c).2.length : Int)).eff s

theorem evaluate_eq (all : Bool) (n c : Nat) : evaluate all n c = Gen.Condition.evaluate all (n : Int) (c : Int) := by
  unfold evaluate Gen.Condition.evaluate Gen.Condition.all_events Gen.Condition.any_events
  -- through `omega`, so that the orientation of `==` and the order of the disjuncts in the source do not matter
  cases all
  · simp only [Bool.false_eq_true, if_false]
    rw [Bool.eq_iff_iff]
    simp only [Bool.or_eq_true, decide_eq_true_eq, beq_iff_eq]
    omega
  · simp only [if_true]
    rw [Bool.eq_iff_iff]
    simp only [decide_eq_true_eq, beq_iff_eq]
    omega

omit [Num τ] in
theorem evOk_false (s : KState τ σ) (e : EvId) (x : Exc) (h : (s.ev e).out = some (.fail x)) : evOk s e = false := by
  unfold evOk; rw [h]

omit [Num τ] in
theorem evOk_true (s : KState τ σ) (e : EvId) (h : ∀ x, (s.ev e).out ≠ some (.fail x)) : evOk s e = true := by
  unfold evOk
  split
  · rename_i x hx; exact absurd hx (h x)
  · rfl

omit [Num τ] in
/-- the outcome of the operand is not touched by counting it and defusing it -/
theorem out_bump_defuse (s : KState τ σ) (c e : EvId) : (((s.bumpCount c).defuse e).ev e).out = (s.ev e).out := by
  unfold KState.defuse KState.bumpCount
  simp only [KState.ev_setEv]
  repeat' split
  all_goals first | rfl | simp_all

/-- the three shapes of the effect log of `_check` -/
theorem run_count_only (s : KState τ σ) (c e : EvId) :
    runEff { c := c, e := e } [KEff.setCount (((s.ev c).count : Int) + 1)] s = some (s.bumpCount c) := by
  have h : (((s.ev c).count : Int) + 1).toNat = (s.ev c).count + 1 := by omega
  simp only [runEff, applyEff, Option.bind_some, h]
  rfl

theorem run_count_succeed (s : KState τ σ) (c e : EvId) :
    runEff { c := c, e := e } [KEff.setCount (((s.ev c).count : Int) + 1), KEff.selfSucceedNone] s =
      some ((s.bumpCount c).trigger c (.ok .none)) := by
  have h : (((s.ev c).count : Int) + 1).toNat = (s.ev c).count + 1 := by omega
  simp only [runEff, applyEff, Option.bind_some, h]
  rfl

theorem run_count_fail (s : KState τ σ) (c e : EvId) (x : Exc) (ho : (s.ev e).out = some (.fail x)) :
    runEff { c := c, e := e } [KEff.setCount (((s.ev c).count : Int) + 1), KEff.eventDefuse, KEff.selfFailWithEventValue] s =
      some (((s.bumpCount c).defuse e).trigger c (.fail x)) := by
  have h : (((s.ev c).count : Int) + 1).toNat = (s.ev c).count + 1 := by omega
  have hb : s.setEv c { s.ev c with count := (s.ev c).count + 1 } = s.bumpCount c := rfl
  simp only [runEff, applyEff, Option.bind_some, h, hb]
  rw [out_bump_defuse, ho]
  rfl

theorem cond_check_run (s : KState τ σ) (c e : EvId) :
    runCondCheck { c := c, e := e } s = some (condCheck s c e) := by
  unfold runCondCheck condCheck Gen.Condition.check
  by_cases ht : s.triggered c = true
  · rw [if_pos ht, if_pos ht]; rfl
  · rw [if_neg ht, if_neg ht]
    simp only [condObj, List.nil_append, List.cons_append]
    rw [evaluate_eq]
    have hcast : (((s.ev c).count + 1 : Nat) : Int) = ((s.ev c).count : Int) + 1 := by omega
    rw [hcast]
    cases ho : (s.ev e).out with
    | none =>
      have hok : evOk s e = true := evOk_true s e (by intro x hx; rw [ho] at hx; cases hx)
      simp only [hok, not_true_eq_false, if_false]
      split <;> rename_i hev
      · simp only [hev, ↓reduceIte]; exact run_count_succeed s c e
      · simp only [hev]; exact run_count_only s c e
    | some o =>
      cases o with
      | ok v =>
        have hok : evOk s e = true := evOk_true s e (by intro x hx; rw [ho] at hx; cases hx)
        simp only [hok, not_true_eq_false, if_false]
        split <;> rename_i hev
        · simp only [hev, ↓reduceIte]; exact run_count_succeed s c e
        · simp only [hev]; exact run_count_only s c e
      | fail x =>
        have hok : evOk s e = false := evOk_false s e x ho
        simp only [hok, Bool.false_eq_true, not_false_eq_true, if_true]
        exact run_count_fail s c e x ho

end GenKernel
