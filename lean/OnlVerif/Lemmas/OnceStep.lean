import OnlVerif.Lemmas.OnceCall
/-! # The invariant through `_resume`, interrupt delivery, the callback loop, a whole step, and whole runs -/

namespace Once
variable {σ : Type}

/-! ## ghost bookkeeping -/

theorem InvL.ghost {g g' : Ghost} {s : KState ℚ σ} (hi : InvL g s) (hrun : ∀ p, g.run = some p → g'.run = some p)
    (hlv : g'.lv = true → g.lv = true)
    (hH : ∀ p t, Held g s p t → g'.run ≠ some p → Held g' s p t) : InvL g' s :=
  hi.transfer' (Nat.le_refl _) (fun _ => rfl) (fun _ h => h) hrun hlv (fun p t h _ hr => hH p t h hr)

/-- a callback that is not a `_resume` has been run: fewer callbacks remain -/
theorem Inv.ghost_rem {g : Ghost} {s : KState ℚ σ} (hi : Inv g s) (rest : List Cb)
    (hsub : ∀ cb, cb ∈ rest → cb ∈ g.rem) (hcount : ∀ p, rest.count (.resume p) ≤ 1)
    (hkeep : ∀ p, Cb.resume p ∈ g.rem → Cb.resume p ∈ rest) :
    Inv { g with rem := rest } s := by
  refine ⟨hi.c.ghost hsub hcount rfl (fun p hp => hi.c.pend p (Or.inr hp)), hi.q,
    hi.l.ghost (fun _ h => h) (fun h => h) ?_, hi.s⟩
  intro p t h _
  rcases h with ⟨h1, h2⟩ | h | h
  · exact Or.inl ⟨h1, hkeep p h2⟩
  · exact Or.inr (Or.inl h)
  · exact Or.inr (Or.inr h)

/-- a process becomes the running one -/
theorem Inv.ghost_run {g : Ghost} {s : KState ℚ σ} (hi : Inv g s) (p : EvId)
    (h : (s.ev p).out = none ∧ (s.ev p).kind = .proc ∧ Unreg s p) (hg : g.run = none) :
    Inv { g with run := some p } s :=
  ⟨hi.c.ghost (fun _ h => h) hi.c.rem_count rfl (fun p' hp' => by cases hp'; exact h), hi.q,
    hi.l.ghost (fun p' hp' => by rw [hg] at hp'; cases hp') (fun h => h) (fun _ _ h _ => h), hi.s⟩

/-- the callback `_resume p` is taken off the pending list and `p` becomes the running process -/
theorem Inv.ghost_pop_run {g : Ghost} {s : KState ℚ σ} (hi : Inv g s) (p : EvId) (rest : List Cb)
    (hrem : g.rem = .resume p :: rest) (hg : g.run = none) : Inv { g with rem := rest, run := some p } s := by
  have hsub : ∀ c, c ∈ rest → c ∈ g.rem := fun c hc => by rw [hrem]; exact List.mem_cons_of_mem _ hc
  have hcnt : ∀ q, rest.count (.resume q) ≤ 1 := by
    intro q
    have := hi.c.rem_count q
    rw [hrem, List.count_cons] at this
    omega
  refine ⟨hi.c.ghost hsub hcnt rfl ?_, hi.q, hi.l.ghost (fun p' hp' => by rw [hg] at hp'; cases hp') (fun h => h) ?_, hi.s⟩
  · intro p' hp'
    cases hp'
    exact hi.c.pend p (Or.inl (by rw [hrem]; exact List.mem_cons_self))
  · intro q t h hr
    rcases h with ⟨h1, h2⟩ | h | h
    · refine Or.inl ⟨h1, ?_⟩
      rw [hrem] at h2
      rcases List.mem_cons.mp h2 with h2 | h2
      · cases h2; exact absurd rfl hr
      · exact h2
    · exact Or.inr (Or.inl h)
    · exact Or.inr (Or.inr h)

/-- the running process stops running without being registered: allowed if it is finished, has no record, or is held
in one of the other ways (`Held`) -/
theorem Inv.ghost_unrun {g : Ghost} {s : KState ℚ σ} (hi : Inv g s) (p : EvId) (hg : g.run = some p)
    (h : g.lv = true → ∀ pr, s.proc? p = some pr → (s.ev p).out = none → ∃ t, pr.target = some t ∧ t < s.events.size ∧
      Held { g with run := none } s p t) :
    Inv { g with run := none } s := by
  refine ⟨hi.c.ghost (fun _ h => h) hi.c.rem_count rfl (fun p' hp' => by cases hp'), hi.q, ⟨?_⟩, hi.s⟩
  intro hlv p' pr hpp hout _
  by_cases hp : p' = p
  · subst hp; exact h hlv pr hpp hout
  · exact hi.l.live hlv p' pr hpp hout (by rw [hg]; intro hc; cases hc; exact hp rfl)

/-! ## the three parts of `_resume` -/

theorem Inv.deliver {g : Ghost} {s : KState ℚ σ} (hi : Inv g s) (p e : EvId) : Inv g (deliver s p e).1 := by
  show Inv g (deliverSt s p e)
  unfold deliverSt
  split
  · exact (hi.active _).defuse e
  · exact hi.active _

/-- **`register`**: the yielded event is unprocessed, the process is appended to its callbacks — exactly once -/
theorem Inv.register {g : Ghost} {s s3 : KState ℚ σ} (p e' : EvId) (hg : g.run = some p) (hi : Inv g s)
    (hnr : Cb.resume p ∉ g.rem) (hy : SafeYield s p e')
    (hpr : ∃ pr, s.proc? p = some pr ∧ pr.target = some e') (hr : _root_.register s p e' = some s3) :
    Inv { g with run := none } s3 := by
  unfold _root_.register at hr
  split at hr
  · cases hr
  · rename_i hnp
    cases hr
    apply Inv.active
    obtain ⟨L, hL⟩ : ∃ L, (s.ev e').cbs = some L := by
      unfold KState.processed at hnp
      cases hc : (s.ev e').cbs with
      | none => rw [hc] at hnp; exact absurd rfl hnp
      | some L => exact ⟨L, rfl⟩
    have hpend := hi.c.pend p (Or.inr hg)
    have hnotin : Cb.resume p ∉ L := hpend.2.2 e' L hL
    have hcb : ∀ x, ((s.addCb e' (.resume p)).ev x).cbs = if x = e' then some (L ++ [.resume p]) else (s.ev x).cbs := by
      intro x; rw [cbs_addCb]; split
      · rw [hL]; rfl
      · rfl
    have hk : ∀ x, ((s.addCb e' (.resume p)).ev x).kind = (s.ev x).kind := fun x => kind_setEv s e' x _ rfl
    have ho : ∀ x, ((s.addCb e' (.resume p)).ev x).out = (s.ev x).out := fun x => out_setEv s e' x _ rfl
    have hsz : (s.addCb e' (.resume p)).events.size = s.events.size := by unfold KState.addCb; rw [size_setEv]
    have hcond : ∀ c, isCond (s.addCb e' (.resume p)) c = isCond s c := fun c => isCond_congr (hk c)
    have hmemL : ∀ cb, cb ∈ L ++ [Cb.resume p] → cb ≠ .resume p → cb ∈ L := by
      intro cb hm hne
      rcases List.mem_append.mp hm with h | h
      · exact h
      · exact absurd (List.mem_singleton.mp h) hne
    refine ⟨⟨hi.c.ag_distinct, ?_, ?_, ?_, ?_, ?_, ?_, ?_, ?_, ?_, hi.c.rem_intr, hi.c.rem_count⟩, ?_, ⟨?_⟩,
      hi.s.same rfl ho (fun x => by
        rw [hcb]; split
        · rename_i hx; subst hx; rw [hL]; simp
        · exact Iff.rfl)⟩
    · intro q hq
      have := hi.c.ag_live q hq
      rw [ho, hcb]
      refine ⟨this.1, ?_⟩
      split
      · simp
      · exact this.2
    · intro e he hc
      rw [hcb] at hc
      split at hc
      · cases hc
      · rw [ho]; exact hi.c.done_trig e (by rw [← hsz]; exact he) hc
    · intro p' pr hp; rw [hk]; exact hi.c.procs p' pr hp
    · intro e L' q hL' hm
      rw [hcb] at hL'
      by_cases he : e = e'
      · subst he
        rw [if_pos rfl] at hL'
        cases hL'
        by_cases hq : q = p
        · subst hq
          refine ⟨by rw [ho]; exact hpend.1, hpr, ?_, by rw [hk]; exact hy.2⟩
          rw [List.count_append, List.count_eq_zero.mpr hnotin]; simp
        · have hmL : Cb.resume q ∈ L := hmemL _ hm (fun h => hq (by cases h; rfl))
          obtain ⟨h1, h2, h3, h4⟩ := hi.c.reg e L q hL hmL
          refine ⟨by rw [ho]; exact h1, h2, ?_, by rw [hk]; exact h4⟩
          rw [List.count_append, h3]
          have : (Cb.resume p == Cb.resume q) = false := by simpa using fun h => hq h.symm
          simp [List.count_singleton, this]
      · rw [if_neg he] at hL'
        obtain ⟨h1, h2, h3, h4⟩ := hi.c.reg e L' q hL' hm
        exact ⟨by rw [ho]; exact h1, h2, h3, by rw [hk]; exact h4⟩
    · intro e L' iv hL' hm
      rw [hcb] at hL'
      split at hL'
      · rename_i he; subst he; cases hL'
        exact hi.c.intr e L iv hL (hmemL _ hm (fun h => by cases h))
      · exact hi.c.intr e L' iv hL' hm
    · intro e L' c hL' hm
      rw [hcb] at hL'
      rw [hcond]
      split at hL'
      · rename_i he; subst he; cases hL'
        exact hi.c.check e L c hL (hmemL _ hm (fun h => by cases h))
      · exact hi.c.check e L' c hL' hm
    · intro q hq
      rcases hq with hq | hq
      · obtain ⟨h1, h2, h3⟩ := hi.c.pend q (Or.inl hq)
        refine ⟨by rw [ho]; exact h1, by rw [hk]; exact h2, ?_⟩
        intro e L' hL' hm
        rw [hcb] at hL'
        split at hL'
        · rename_i he; subst he; cases hL'
          by_cases hqp : q = p
          · subst hqp; exact hnr hq
          · exact h3 e L hL (hmemL _ hm (fun h => hqp (by cases h; rfl)))
        · exact h3 e L' hL' hm
      · cases hq
    · intro q hq; rw [hsz, hk]; exact hi.c.pend_intr q hq
    · intro c hc; rw [hcond]; exact hi.c.rem_check c hc
    · exact hi.q.keep (fun _ => rfl) (fun _ => rfl) (fun e h _ => ⟨hk e, by rw [ho]; exact h⟩)
    · intro hlv p' pr hpp hout _
      by_cases hp : p' = p
      · subst hp
        obtain ⟨pr0, hp0, ht0⟩ := hpr
        have : (s.addCb e' (.resume p')).proc? p' = s.proc? p' := rfl
        rw [this, hp0] at hpp
        cases hpp
        refine ⟨e', ht0, by rw [hsz]; exact hy.1, Or.inr (Or.inl ⟨L ++ [.resume p'], by rw [hcb, if_pos rfl], by simp⟩)⟩
      · rw [ho] at hout
        obtain ⟨t, h1, h2, h3⟩ := hi.l.live hlv p' pr hpp hout (by rw [hg]; intro hc; cases hc; exact hp rfl)
        refine ⟨t, h1, by rw [hsz]; exact h2, h3.keep h2 ⟨rfl, rfl, rfl⟩ ?_ ?_⟩
        · intro e _ hc
          rw [hcb]; split
          · rename_i he; subst he; rw [hL] at hc; cases hc
          · exact hc
        · intro e L1 hL1 hm1
          rw [hcb]; split
          · rename_i he; subst he
            rw [hL] at hL1; cases hL1
            exact ⟨_, rfl, List.mem_append_left _ hm1⟩
          · exact ⟨L1, hL1, hm1⟩

/-- **`finishProc`**: the process's own event is triggered — it was pending, and is scheduled for the first time -/
theorem Inv.finishProc {g : Ghost} {s : KState ℚ σ} (p : EvId) (pr : ProcRec σ) (o : Outcome) (hg : g.run = some p)
    (hi : Inv g s) (hnr : Cb.resume p ∉ g.rem) : Inv { g with run := none } (_root_.finishProc s p pr o) := by
  have hpend := hi.c.pend p (Or.inr hg)
  have hlt : p < s.events.size := lt_of_proc s p hpend.2.1
  have h0 : InvC { g with run := none } s :=
    hi.c.ghost (fun _ h => h) hi.c.rem_count rfl (fun p' hp' => by cases hp')
  have hk : ∀ x, ((s.setOut p o).ev x).kind = (s.ev x).kind := fun x => kind_setEv s p x _ rfl
  have hcb : ∀ x, ((s.setOut p o).ev x).cbs = (s.ev x).cbs := fun x => cbs_setEv s p x _ rfl
  have hsz : (s.setOut p o).events.size = s.events.size := by unfold KState.setOut; rw [size_setEv]
  have h1 : InvC { g with run := none } (s.setOut p o) := by
    refine h0.modOut rfl hsz hk hcb (fun _ => rfl) ?_ ?_
    · intro e h; rw [out_setOut]; split
      · simp
      · exact h
    · intro e h1 h2
      rw [out_setOut] at h2
      split at h2
      · rename_i hc; rw [hc.1]
        exact Or.inr ⟨hpend.2.2, hnr, by simp⟩
      · exact absurd h1 h2
  have h2 : InvC { g with run := none } (s.trigger p o) := by
    unfold KState.trigger
    refine h1.schedule p NORMAL Num.zero ?_ ?_ ?_
    · rw [out_setOut, if_pos ⟨rfl, hlt⟩]; simp
    · rw [hcb]; intro hc; exact hi.c.done_trig p hlt hc hpend.1
    · exact h0.not_in_agenda p hpend.1
  have h3 : InvC { g with run := none } ((s.trigger p o).emit (.ended p o s.now)) :=
    h2.congr (SameC.of_events rfl rfl rfl)
  have hev : ∀ x, (((s.trigger p o).emit (.ended p o s.now)).ev x) = (s.setOut p o).ev x := fun _ => rfl
  have h4 : InvC { g with run := none } (((s.trigger p o).emit (.ended p o s.now)).setProc p { pr with target := none }) := by
    refine h3.setProc p _ (by rw [hev, hk]; exact hpend.2.1) ?_
    intro e L hL hm
    rw [hev, hcb] at hL
    exact absurd hm (hpend.2.2 e L hL)
  unfold _root_.finishProc
  refine ⟨h4.congr (SameC.of_events rfl rfl rfl), ?_, ⟨?_⟩,
    (hi.s.trigger p o).same rfl (fun _ => rfl) (fun _ => Iff.rfl)⟩
  · refine hi.q.keep (fun _ => rfl) (fun _ => rfl) ?_
    intro e ho hkind
    show ((s.setOut p o).ev e).kind = _ ∧ ((s.setOut p o).ev e).out = none
    refine ⟨hk e, ?_⟩
    rw [out_setOut]; split
    · rename_i hc
      exfalso
      rw [hc.1, hpend.2.1] at hkind
      rcases hkind with ⟨r, hr⟩ | ⟨r, hr⟩ <;> cases hr
    · exact ho
  · intro hlv p' pr' hpp hout _
    have hpp' : (((s.trigger p o).emit (.ended p o s.now)).setProc p { pr with target := none }).proc? p' = some pr' := hpp
    have hout' : ((s.setOut p o).ev p').out = none := hout
    rw [proc?_setProc] at hpp'
    rw [out_setOut] at hout'
    by_cases hp : p' = p
    · rw [if_pos ⟨hp, hlt⟩] at hout'; cases hout'
    · rw [if_neg hp] at hpp'
      rw [if_neg (fun hc => hp hc.1)] at hout'
      obtain ⟨t, h1', h2', h3'⟩ := hi.l.live hlv p' pr' hpp' hout' (by rw [hg]; intro hc; cases hc; exact hp rfl)
      refine ⟨t, h1', by show t < (s.setOut p o).events.size; rw [hsz]; exact h2', ?_⟩
      refine h3'.keep h2' ⟨rfl, rfl, rfl⟩ ?_ ?_
      · intro e _ hc
        show ((s.setOut p o).ev e).cbs = none
        rw [hcb]; exact hc
      · intro e L1 hL1 hm1
        exact ⟨L1, by show ((s.setOut p o).ev e).cbs = some L1; rw [hcb]; exact hL1, hm1⟩

/-- the process record is updated at a yield -/
theorem Inv.setProc_run {g : Ghost} {s : KState ℚ σ} (p : EvId) (pr : ProcRec σ) (hg : g.run = some p) (hi : Inv g s) :
    Inv g (s.setProc p pr) := by
  have hpend := hi.c.pend p (Or.inr hg)
  refine ⟨hi.c.setProc p pr hpend.2.1 (fun e L hL hm => absurd hm (hpend.2.2 e L hL)),
    hi.q.keep (fun _ => rfl) (fun _ => rfl) (fun e h _ => ⟨rfl, h⟩), ⟨?_⟩,
    hi.s.same rfl (fun _ => rfl) (fun _ => Iff.rfl)⟩
  intro hlv p' pr' hpp hout hrun
  rw [proc?_setProc] at hpp
  split at hpp
  · rename_i h; subst h; exact absurd hg hrun
  · exact hi.l.live hlv p' pr' hpp hout hrun

/-! ## `Process._resume` -/

/-- **`_resume` keeps the invariant**: the process that runs is registered nowhere; when the loop ends it is
registered exactly once on its new target, or finished and scheduled exactly once. -/
theorem Inv.resume (body : σ → Resume → Burst ℚ σ) (p : EvId) {g : Ghost} (hg : g.run = some p)
    (hnr : Cb.resume p ∉ g.rem) : ∀ (fuel : Nat) (e : EvId) (s : KState ℚ σ), Inv g s →
    (fuel = 0 → g.lv = true → ∀ pr, s.proc? p = some pr → (s.ev p).out = none → ∃ t, pr.target = some t ∧ t < s.events.size ∧
      (s.ev t).cbs = none) →
    SafeResume body p fuel e s → (g.strict = true → NoHangResume body p fuel e s) →
    Inv { g with run := none } (_root_.resume body p fuel e s)
  | 0, e, s, hi, h0, _, hh => by
    refine hi.ghost_unrun p hg ?_
    intro hlv pr hpp hout
    rcases Bool.eq_false_or_eq_true g.strict with hst | hst
    · exact absurd (hh hst) (by simp [NoHangResume])
    · obtain ⟨t, h1, h2, h3⟩ := h0 rfl hlv pr hpp hout
      exact ⟨t, h1, h2, Or.inr (Or.inr ⟨hst, h3⟩)⟩
  | fuel + 1, e, s, hi, _, hs, hh => by
    unfold _root_.resume
    unfold SafeResume at hs
    unfold NoHangResume at hh
    split
    · rename_i hp
      exact hi.ghost_unrun p hg (fun _ pr hpp => by rw [hp] at hpp; cases hpp)
    · rename_i pr hp
      rw [hp] at hs hh
      simp only at hs hh ⊢
      obtain ⟨hsb, hs2⟩ := hs
      have hi1 : Inv g ((_root_.deliver s p e).1.emit (.resumed p (_root_.deliver s p e).2 (_root_.deliver s p e).1.now)) :=
        (hi.deliver p e).emit _
      have hib := Inv.runBurst p _ _ hi1 hsb
      have hy := SafeBurst.yielded p _ _ hsb
      generalize _root_.runBurst p (body pr.st (_root_.deliver s p e).2)
        ((_root_.deliver s p e).1.emit (.resumed p (_root_.deliver s p e).2 (_root_.deliver s p e).1.now)) = bt at hib hy hs2 hh ⊢
      split
      · exact Inv.finishProc p pr _ hg hib hnr
      · exact Inv.finishProc p pr _ hg hib hnr
      · rename_i e' st' hbt
        rw [hbt] at hs2 hh
        simp only at hs2 hh
        have hye := hy e' st' hbt
        have hi2 : Inv g (bt.1.setProc p { st := st', target := some e' }) := Inv.setProc_run p _ hg hib
        have hye2 : SafeYield (bt.1.setProc p { st := st', target := some e' }) p e' := hye
        have hpr2 : ∃ pr', (bt.1.setProc p { st := st', target := some e' }).proc? p = some pr' ∧ pr'.target = some e' :=
          ⟨_, by rw [proc?_setProc, if_pos rfl], rfl⟩
        split
        · rename_i s3 hr
          exact Inv.register p e' hg hi2 hnr hye2 hpr2 hr
        · rename_i hr
          rw [hr] at hs2 hh
          simp only at hs2 hh
          refine Inv.resume body p hg hnr fuel e' _ hi2 ?_ hs2 hh
          intro _ _ pr' hpp' _
          obtain ⟨pr2, h1, h2⟩ := hpr2
          rw [h1] at hpp'
          cases hpp'
          refine ⟨e', h2, hye2.1, ?_⟩
          unfold _root_.register at hr
          split at hr
          · rename_i hproc
            unfold KState.processed at hproc
            cases hc : ((bt.1.setProc p { st := st', target := some e' }).ev e').cbs with
            | none => rfl
            | some L => rw [hc] at hproc; cases hproc
          · cases hr

/-! ## `Interruption._interrupt` -/

/-- removing the victim's `_resume` from its target: afterwards it is registered nowhere -/
theorem Inv.detach {g : Ghost} {s : KState ℚ σ} (hi : Inv g s) (p t : EvId) (pr : ProcRec σ) (hg : g.run = none)
    (hp : s.proc? p = some pr) (ht : pr.target = some t) (hout : (s.ev p).out = none) :
    Inv { g with run := some p } (s.eraseCb t (.resume p)) := by
  have hk : ∀ x, ((s.eraseCb t (.resume p)).ev x).kind = (s.ev x).kind := fun x => kind_setEv s t x _ rfl
  have ho : ∀ x, ((s.eraseCb t (.resume p)).ev x).out = (s.ev x).out := fun x => out_setEv s t x _ rfl
  have hsz : (s.eraseCb t (.resume p)).events.size = s.events.size := by unfold KState.eraseCb; rw [size_setEv]
  have hcbs : ∀ x, ((s.eraseCb t (.resume p)).ev x).cbs = if x = t then (s.ev t).cbs.map (·.erase (.resume p)) else (s.ev x).cbs :=
    fun x => cbs_eraseCb s t x _
  -- the erased list has no `_resume p` left
  have hgone : ∀ L, (s.ev t).cbs = some L → Cb.resume p ∉ L.erase (.resume p) := by
    intro L hL hm
    have hmL := List.mem_of_mem_erase hm
    have hc := (hi.c.reg t L p hL hmL).2.2.1
    have : (L.erase (.resume p)).count (.resume p) = 0 := by rw [List.count_erase_self, hc]
    exact absurd hm (List.count_eq_zero.mp this)
  have hunreg : Unreg (s.eraseCb t (.resume p)) p := by
    intro e L' hL' hm
    rw [hcbs] at hL'
    split at hL'
    · rename_i he; subst he
      cases hc : (s.ev e).cbs with
      | none => rw [hc] at hL'; cases hL'
      | some L =>
        rw [hc] at hL'
        simp only [Option.map_some, Option.some.injEq] at hL'
        subst hL'
        exact hgone L hc hm
    · rename_i he
      obtain ⟨_, ⟨pr', h2, h3⟩, _⟩ := hi.c.reg e L' p hL' hm
      rw [hp] at h2; cases h2
      rw [ht] at h3; cases h3
      exact he rfl
  have hc1 : InvC g (s.eraseCb t (.resume p)) := by
    refine hi.c.modCbs rfl hsz hk ho (fun _ => rfl) ?_ ?_
    · intro e; rw [hcbs]; split
      · rename_i he; subst he; cases (s.ev e).cbs <;> simp
      · exact Iff.rfl
    · intro e L' hL'
      rw [hcbs] at hL'
      split at hL'
      · rename_i he; subst he
        cases hc : (s.ev e).cbs with
        | none => rw [hc] at hL'; cases hL'
        | some L =>
          rw [hc] at hL'
          simp only [Option.map_some, Option.some.injEq] at hL'
          subst hL'
          refine ⟨L, rfl, ?_, fun iv hm => List.mem_of_mem_erase hm, fun c hm => Or.inl (List.mem_of_mem_erase hm)⟩
          intro q hm
          refine ⟨List.mem_of_mem_erase hm, ?_⟩
          by_cases hq : q = p
          · subst hq; exact absurd hm (hgone L hc)
          · exact List.count_erase_of_ne (fun h => hq (by cases h; rfl))
      · exact ⟨L', hL', fun q hm => ⟨hm, rfl⟩, fun iv hm => hm, fun c hm => Or.inl hm⟩
  refine ⟨hc1.ghost (fun _ h => h) hi.c.rem_count rfl ?_, ?_, ?_,
    hi.s.same rfl ho (fun x => by
      rw [hcbs]; split
      · rename_i hx; subst hx; cases (s.ev x).cbs <;> simp
      · exact Iff.rfl)⟩
  · intro p' hp'
    cases hp'
    exact ⟨by rw [ho]; exact hout, by rw [hk]; exact hi.c.procs p pr hp, hunreg⟩
  · exact hi.q.keep (fun _ => rfl) (fun _ => rfl) (fun e h _ => ⟨hk e, by rw [ho]; exact h⟩)
  · refine hi.l.transfer (by rw [hsz]) (fun _ => rfl) (fun q hq => by rw [← ho]; exact hq)
      (fun q hq => by rw [hg] at hq; cases hq) (fun h => h) ?_ ?_
    · intro e _ hc
      rw [hcbs]; split
      · rename_i he; subst he; rw [hc]; rfl
      · exact hc
    · intro e L q hL hm hrun
      rw [hcbs]; split
      · rename_i he; subst he
        rw [hL]
        refine ⟨L.erase (.resume p), rfl, (List.mem_erase_of_ne ?_).mpr hm⟩
        intro h; cases h; exact hrun rfl
      · exact ⟨L, hL, hm⟩

/-- **interrupt delivery keeps the invariant** -/
theorem Inv.deliverInterrupt (body : σ → Resume → Burst ℚ σ) (fuel : Nat) (iv p : EvId) {g : Ghost} {s : KState ℚ σ}
    (hi : Inv g s) (hg : g.run = none) (hnr : Cb.resume p ∉ g.rem) (hfuel : g.lv = true → 0 < fuel)
    (hs : SafeIntr body fuel iv p s) (hh : g.strict = true → NoHangIntr body fuel iv p s) :
    Inv g (_root_.deliverInterrupt body fuel iv p s) := by
  have hback : ∀ x : KState ℚ σ, Inv { { g with run := some p } with run := none } x → Inv g x := by
    intro x hx
    have : ({ { g with run := some p } with run := none } : Ghost) = g := by
      cases g; simp only at hg; subst hg; rfl
    rw [this] at hx; exact hx
  have h0 : ∀ x : KState ℚ σ, fuel = 0 → g.lv = true → ∀ pr, x.proc? p = some pr → (x.ev p).out = none →
      ∃ t, pr.target = some t ∧ t < x.events.size ∧ (x.ev t).cbs = none := by
    intro x hf hl
    exact absurd (hfuel hl) (by rw [hf]; exact Nat.lt_irrefl 0)
  unfold _root_.deliverInterrupt
  unfold SafeIntr at hs
  unfold NoHangIntr at hh
  split
  · exact hi
  · rename_i hnt
    rw [if_neg hnt] at hs hh
    have hout := out_none_of_not_triggered s p hnt
    split
    · exact hi
    · rename_i pr hp
      rw [hp] at hs hh
      simp only at hs hh
      split
      · rename_i t ht
        rw [ht] at hs hh
        simp only at hs hh
        apply hback
        exact Inv.resume body p (g := { g with run := some p }) rfl hnr fuel iv _
          (hi.detach p t pr hg hp ht hout) (h0 _) hs hh
      · rename_i ht
        rw [ht] at hs hh
        simp only at hs hh
        apply hback
        refine Inv.resume body p (g := { g with run := some p }) rfl hnr fuel iv _ ?_ (h0 _) hs hh
        refine hi.ghost_run p ⟨hout, hi.c.procs p pr hp, ?_⟩ hg
        intro e L hL hm
        obtain ⟨_, ⟨pr', h2, h3⟩, _⟩ := hi.c.reg e L p hL hm
        rw [hp] at h2; cases h2
        rw [ht] at h3; cases h3

/-! ## one callback, the callback loop -/

theorem count_le_one_tail {cb : Cb} {rest : List Cb} (h : ∀ p, (cb :: rest).count (.resume p) ≤ 1) :
    ∀ p, rest.count (.resume p) ≤ 1 := by
  intro p
  have := h p
  rw [List.count_cons] at this
  omega

theorem not_mem_tail_of_count {p : EvId} {rest : List Cb} (h : (Cb.resume p :: rest).count (.resume p) ≤ 1) :
    Cb.resume p ∉ rest := by
  rw [List.count_cons_self] at h
  intro hm
  have := List.count_pos_iff.mpr hm
  omega

/-- **one callback invocation keeps the invariant** (and is then no longer among those still to run) -/
theorem Inv.runCb (body : σ → Resume → Burst ℚ σ) (fuel : Nat) {g : Ghost} (l : LoopSt ℚ σ) (cb : Cb) (rest : List Cb)
    (hrem : g.rem = cb :: rest) (hg : g.run = none) (hfuel : g.lv = true → 0 < fuel)
    (hi : Inv g l.s) (hs : SafeCb body fuel g.e0 l.s cb) (hh : g.strict = true → NoHangCb body fuel g.e0 l.s cb) :
    Inv { g with rem := rest } (_root_.runCb body fuel g.e0 l cb).s := by
  have hsub : ∀ c, c ∈ rest → c ∈ g.rem := fun c hc => by rw [hrem]; exact List.mem_cons_of_mem _ hc
  have hcnt : ∀ p, rest.count (.resume p) ≤ 1 := count_le_one_tail (by rw [← hrem]; exact hi.c.rem_count)
  -- a callback that is not a `_resume` simply leaves the pending list
  have hw : (∀ p, cb ≠ .resume p) → Inv { g with rem := rest } l.s := by
    intro hne
    refine hi.ghost_rem rest hsub hcnt ?_
    intro p hp
    rw [hrem] at hp
    rcases List.mem_cons.mp hp with h | h
    · exact absurd h.symm (hne p)
    · exact h
  unfold _root_.runCb
  simp only
  cases cb with
  | resume p =>
    simp only
    have hnr : Cb.resume p ∉ rest := not_mem_tail_of_count (by rw [← hrem]; exact hi.c.rem_count p)
    have hrun : Inv { g with rem := rest, run := some p } l.s := hi.ghost_pop_run p rest hrem hg
    have hback : ({ { g with rem := rest, run := some p } with run := none } : Ghost) = { g with rem := rest } := by
      cases g; simp only at hg; subst hg; rfl
    rw [← hback]
    refine Inv.resume body p (g := { g with rem := rest, run := some p }) rfl hnr fuel g.e0 l.s hrun ?_ hs hh
    intro hf hlv
    exact absurd (hfuel hlv) (by rw [hf]; exact Nat.lt_irrefl 0)
  | probe tag => exact (hw (fun p h => by cases h)).emit _
  | stop => exact hw (fun p h => by cases h)
  | intr iv =>
    simp only
    simp only [SafeCb] at hs
    simp only [NoHangCb] at hh
    have hw' := hw (fun p h => by cases h)
    split
    · rename_i p hk
      rw [hk] at hs hh
      simp only at hs hh
      have hiv : iv = g.e0 := hi.c.rem_intr iv (by rw [hrem]; exact List.mem_cons_self)
      have hnr : Cb.resume p ∉ rest := by
        intro hm
        have := (hi.c.pend_intr p (hsub _ hm)).2
        rw [← hiv, hk] at this
        exact this rfl
      exact Inv.deliverInterrupt body fuel iv p hw' hg hnr hfuel hs hh
    · exact hw'
  | check c =>
    exact (hw (fun p h => by cases h)).condCheck c _ (hi.c.rem_check c (by rw [hrem]; exact List.mem_cons_self))
  | build c => exact (hw (fun p h => by cases h)).condBuild c
  | trigPut r => exact (hw (fun p h => by cases h)).triggerPut r
  | trigGet r => exact (hw (fun p h => by cases h)).triggerGet r

/-- **the whole callback loop of a step keeps the invariant** -/
theorem Inv.foldCbs (body : σ → Resume → Burst ℚ σ) (fuel : Nat) : ∀ (cbs : List Cb) (g : Ghost) (l : LoopSt ℚ σ),
    g.rem = cbs → g.run = none → (g.lv = true → 0 < fuel) → Inv g l.s → SafeCbs body fuel g.e0 cbs l →
    (g.strict = true → NoHangCbs body fuel g.e0 cbs l) →
    Inv { g with rem := [] } (cbs.foldl (_root_.runCb body fuel g.e0) l).s
  | [], g, l, hrem, _, _, hi, _, _ => by
    have : ({ g with rem := [] } : Ghost) = g := by cases g; simp only at hrem; subst hrem; rfl
    rw [this]; exact hi
  | cb :: rest, g, l, hrem, hg, hfuel, hi, hs, hh => by
    simp only [List.foldl_cons]
    have h1 := Inv.runCb body fuel l cb rest hrem hg hfuel hi hs.1 (fun h => (hh h).1)
    exact Inv.foldCbs body fuel rest { g with rem := rest } _ rfl hg hfuel h1 hs.2 (fun h => (hh h).2)

end Once
